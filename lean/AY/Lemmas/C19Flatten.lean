/-
  AY.Lemmas.C19Flatten — `Builder.flatten` (pre-merge operators + the fold of merges) preserves
  `FlagsConsistent` (helper lemmas for AY.Props.C19).
-/
import AY.Lemmas.C19Merge
import AY.Model.Build
namespace AY

/-! ### lookups and in-place updates -/

theorem alookup_cons_of_consistent {kw : Option ChildKw} {key : Key} {c : Node} {cs : List (Key × Node)}
    (h : consistentList kw cs = true) (hl : alookup key cs = some c) :
    (∀ kw', kw = some kw' → childFlagsOK kw' c.flags = true) ∧ FlagsConsistent c = true :=
  (consistentList_iff kw cs).1 h (key, c) (c19_alookup_mem hl)

theorem getNode_cons : ∀ (p : Path) (root n : Node), FlagsConsistent root = true → getNode root p = some n →
    FlagsConsistent n = true
  | [], root, n, h, hg => by simp only [getNode, Option.some.injEq] at hg; subst hg; exact h
  | key :: rest, .leaf f k, n, _, hg => by simp [getNode] at hg
  | key :: rest, .comp f k cs, n, h, hg => by
    simp only [FlagsConsistent] at h
    simp only [getNode] at hg
    split at hg
    · cases hg
    · rename_i c hl
      exact getNode_cons rest c n (alookup_cons_of_consistent h hl).2 hg

theorem setNodeAt_cons : ∀ (p : Path) (root old v : Node), FlagsConsistent root = true → FlagsConsistent v = true →
    getNode root p = some old → v.flags = old.flags →
    FlagsConsistent (setNodeAt root p v) = true ∧ (setNodeAt root p v).flags = root.flags
  | [], root, old, v, _, hv, hg, hf => by
    simp only [getNode, Option.some.injEq] at hg; subst hg
    exact ⟨by simpa [setNodeAt] using hv, by simpa [setNodeAt] using hf⟩
  | key :: rest, .leaf f k, old, v, _, _, hg, _ => by simp [getNode] at hg
  | key :: rest, .comp f k cs, old, v, h, hv, hg, hf => by
    simp only [FlagsConsistent] at h
    simp only [getNode] at hg
    simp only [setNodeAt]
    split at hg
    · cases hg
    · rename_i c hl
      have hc := alookup_cons_of_consistent h hl
      have ih := setNodeAt_cons rest c old v hc.2 hv hg hf
      simp only [hl, FlagsConsistent, Node.flags, and_true]
      exact aset_consistent ih.1 (fun kw' e => by rw [ih.2]; exact hc.1 kw' e) h

theorem removeNode_cons : ∀ (p : Path) (root d root' : Node), FlagsConsistent root = true →
    removeNode root p = some (d, root') →
    FlagsConsistent d = true ∧ FlagsConsistent root' = true ∧ root'.flags = root.flags
  | [], root, d, root', _, hr => by simp [removeNode] at hr
  | _ :: _, .leaf f k, d, root', _, hr => by simp [removeNode] at hr
  | [key], .comp f k cs, d, root', h, hr => by
    simp only [FlagsConsistent] at h
    simp only [removeNode] at hr
    split at hr
    · cases hr
    · rename_i c hl
      split at hr
      · cases hr
      · rename_i cs' hrm
        simp only [Option.some.injEq, Prod.mk.injEq] at hr
        obtain ⟨rfl, rfl⟩ := hr
        refine ⟨(alookup_cons_of_consistent h hl).2, ?_, rfl⟩
        simp only [FlagsConsistent]
        exact removeChild_cons (kwLe_self f k) h hrm
  | key :: k2 :: rest, .comp f k cs, d, root', h, hr => by
    simp only [FlagsConsistent] at h
    simp only [removeNode] at hr
    split at hr
    · cases hr
    · rename_i c hl
      have hc := alookup_cons_of_consistent h hl
      split at hr
      · cases hr
      · rename_i d' c' hrec
        simp only [Option.some.injEq, Prod.mk.injEq] at hr
        obtain ⟨rfl, rfl⟩ := hr
        have ih := removeNode_cons (k2 :: rest) c d' c' hc.2 hrec
        refine ⟨ih.1, ?_, rfl⟩
        simp only [FlagsConsistent]
        exact aset_consistent ih.2.1 (fun kw' e => by rw [ih.2.2]; exact hc.1 kw' e) h

/-! ### nodes created while flattening -/

theorem allConsistent_map_snd {cs : List (Key × Node)} (h : allConsistent cs = true) :
    ∀ v, v ∈ cs.map (·.2) → FlagsConsistent v = true := by
  intro v hv
  obtain ⟨x, hx, rfl⟩ := List.mem_map.1 hv
  exact ((consistentList_iff none cs).1 h x hx).2

theorem newPlainList_cons (f : Flags) {vals : List Node} (h : ∀ v, v ∈ vals → FlagsConsistent v = true) :
    FlagsConsistent (newPlainList f vals) = true := by
  simp only [newPlainList]
  apply propagate_cons
  simp only [ConsistentBelow, allConsistent]
  rw [consistentList_iff]
  intro kv hm
  have hm2 := c19_mem_renumFrom hm
  obtain ⟨x, hx, e⟩ := List.mem_map.1 hm2
  rw [← e]
  have hi := inheritInto_cons none (childKw freshFlags .list) (h x hx)
  exact ⟨fun kw' e' => (by cases e'), hi.1⟩

theorem extendList_cons (f : Flags) (k : CompKind) : ∀ (vals : List Node) (cs : List (Key × Node)),
    (∀ v, v ∈ vals → FlagsConsistent v = true) → consistentList (childKw f k) cs = true →
    consistentList (childKw f k) (extendList f k cs vals) = true
  | [], cs, _, h => by simpa [extendList] using h
  | v :: rest, cs, hv, h => by
    simp only [extendList]
    have ha := adopt_cons f k (hv v (by simp))
    exact extendList_cons f k rest _ (fun w hw => hv w (List.mem_cons_of_mem _ hw)) (consistentList_snoc ha.1 ha.2 h)

theorem applyResets_cons (pf : Flags) (pk : CompKind) : ∀ (resets cs cs' : List (Key × Node)),
    allConsistent resets = true → consistentList (childKw pf pk) cs = true →
    applyResets pf pk resets cs = .ok cs' → consistentList (childKw pf pk) cs' = true
  | [], cs, cs', _, hcs, h => by simp only [applyResets] at h; cases h; exact hcs
  | (k, v) :: rest, cs, cs', hr, hcs, h => by
    rw [allConsistent_cons] at hr
    simp only [applyResets] at h
    split at h
    · cases h
    · rename_i cs1 hs
      exact applyResets_cons pf pk rest cs1 cs' hr.2 (setChild_cons (kwLe_self pf pk) hr.1 hcs hs) h

/-! ### the pre-merge pass and the fold -/

/-- the accumulated tree, when there is one, is consistent -/
def IntoCons (into : Option Node) : Prop := ∀ root, into = some root → FlagsConsistent root = true

theorem intoCons_none : IntoCons none := fun _ e => by cases e
theorem intoCons_some {root : Node} (h : FlagsConsistent root = true) : IntoCons (some root) :=
  fun _ e => by cases e; exact h

/-- what the fold needs from a premerge: the replacement node is consistent, keeps the flags when it
    is the same object, and the accumulated tree stays consistent -/
def PMCons (pm : Node → Path → Option Node → PM) : Prop :=
  ∀ n path into r same into', FlagsConsistent n = true → IntoCons into → pm n path into = .ok (r, same, into') →
    FlagsConsistent r = true ∧ (same = true → r.flags = n.flags) ∧ IntoCons into'

theorem premergeChildren_cons {rec : Node → Path → Option Node → PM} (hrec : PMCons rec) (kw : Option ChildKw)
    (path : Path) : ∀ (cs : List (Key × Node)) (into : Option Node) (cs' resets : List (Key × Node))
    (into' : Option Node), consistentList kw cs = true → IntoCons into →
    premergeChildren rec path cs into = .ok (cs', resets, into') →
    consistentList kw cs' = true ∧ allConsistent resets = true ∧ IntoCons into'
  | [], into, cs', resets, into', _, hi, h => by
    simp only [premergeChildren, Except.ok.injEq, Prod.mk.injEq] at h
    obtain ⟨rfl, rfl, rfl⟩ := h
    exact ⟨by simp [consistentList], nil_cons, hi⟩
  | (name, c) :: rest, into, cs', resets, into', hcs, hi, h => by
    rw [consistentList_cons] at hcs
    simp only [premergeChildren] at h
    split at h
    · cases h
    · rename_i c' same into1 hr
      have h1 := hrec _ _ _ _ _ _ hcs.2.1 hi hr
      split at h
      · cases h
      · rename_i cs1 resets1 into2 hrest
        have ih := premergeChildren_cons hrec kw path rest into1 cs1 resets1 into2 hcs.2.2 h1.2.2 hrest
        split at h
        · rename_i hsame
          simp only [Except.ok.injEq, Prod.mk.injEq] at h
          obtain ⟨rfl, rfl, rfl⟩ := h
          refine ⟨?_, ih.2.1, ih.2.2⟩
          rw [consistentList_cons]
          exact ⟨fun kw' e => by rw [h1.2.1 hsame]; exact hcs.1 kw' e, h1.1, ih.1⟩
        · simp only [Except.ok.injEq, Prod.mk.injEq] at h
          obtain ⟨rfl, rfl, rfl⟩ := h
          refine ⟨?_, ?_, ih.2.2⟩
          · rw [consistentList_cons]; exact ⟨hcs.1, hcs.2.1, ih.1⟩
          · rw [allConsistent_cons]; exact ⟨h1.1, ih.2.1⟩

theorem flattenLoop_cons {pm : Node → Path → Option Node → PM} (hpm : PMCons pm) :
    ∀ (stages : List Node) (root r : Node), FlagsConsistent root = true →
    (∀ s, s ∈ stages → FlagsConsistent s = true) → flattenLoop pm root stages = .ok r → FlagsConsistent r = true
  | [], root, r, hroot, _, h => by simp only [flattenLoop] at h; cases h; exact hroot
  | st :: rest, root, r, hroot, hs, h => by
    simp only [flattenLoop] at h
    split at h
    · cases h
    · rename_i st' same into' hp
      have h1 := hpm _ _ _ _ _ _ (hs st (by simp)) (intoCons_some hroot) hp
      split at h
      · cases h
      · rename_i root'
        split at h
        · cases h
        · rename_i m hm
          exact flattenLoop_cons hpm rest m r (merge_cons (h1.2.2 root' rfl) h1.1 hm)
            (fun s hs' => hs s (List.mem_cons_of_mem _ hs')) h

theorem flattenWith_cons {pm : Node → Path → Option Node → PM} (hpm : PMCons pm) (stages : List Node) (r : Node)
    (hs : ∀ s, s ∈ stages → FlagsConsistent s = true) (h : flattenWith pm stages = .ok r) :
    FlagsConsistent r = true := by
  cases stages with
  | nil => simp [flattenWith] at h
  | cons s0 rest =>
    simp only [flattenWith] at h
    split at h
    · cases h
    · split at h
      · cases h
      · rename_i r0 same into' hp
        have h1 := hpm _ _ _ _ _ _ (hs s0 (by simp)) intoCons_none hp
        split at h
        · cases h
        · exact flattenLoop_cons hpm rest r0 r h1.1 (fun s hs' => hs s (List.mem_cons_of_mem _ hs')) h

theorem premergeF_comp_generic {fuel : Nat} (ih : PMCons (premergeF fuel)) {f : Flags} {k : CompKind}
    {cs cs' resets cs'' : List (Key × Node)} {path : Path} {into into1 : Option Node}
    (hn : FlagsConsistent (.comp f k cs) = true) (hi : IntoCons into)
    (hc : premergeChildren (premergeF fuel) path cs into = .ok (cs', resets, into1))
    (ha : applyResets f k resets cs' = .ok cs'') :
    FlagsConsistent (.comp f k cs'') = true ∧ IntoCons into1 := by
  simp only [FlagsConsistent] at hn ⊢
  have h1 := premergeChildren_cons ih (childKw f k) path cs into cs' resets into1 hn hi hc
  exact ⟨applyResets_cons f k resets cs' cs'' h1.2.1 h1.1 ha, h1.2.2⟩

theorem premergeF_cons : ∀ (fuel : Nat), PMCons (premergeF fuel)
  | 0 => fun n path into r same into' _ _ h => by simp [premergeF] at h
  | fuel + 1 => fun n path into r same into' hn hi h => by
    have ih := premergeF_cons fuel
    cases n with
    | leaf f lk =>
      cases lk with
      | prev p =>
        simp only [premergeF] at h
        split at h
        · rename_i root tp _
          split at h
          · cases h
          · rename_i d root' hr
            simp only [Except.ok.injEq, Prod.mk.injEq] at h
            obtain ⟨rfl, rfl, rfl⟩ := h
            have := removeNode_cons tp root d root' (hi root rfl) hr
            exact ⟨this.1, (fun e => by cases e), intoCons_some this.2.1⟩
        · cases h
      | clear =>
        simp only [premergeF] at h
        split at h
        · cases h
        · rename_i root
          split at h
          · rename_i cf ck ccs hg
            simp only [Except.ok.injEq, Prod.mk.injEq] at h
            obtain ⟨rfl, rfl, rfl⟩ := h
            have hv : FlagsConsistent (.comp cf ck []) = true := by simp [FlagsConsistent, consistentList]
            exact ⟨hv, (fun e => by cases e),
              intoCons_some (setNodeAt_cons path root _ _ (hi root rfl) hv hg rfl).1⟩
          · cases h
      | _ =>
        simp only [premergeF, Except.ok.injEq, Prod.mk.injEq] at h
        obtain ⟨rfl, rfl, rfl⟩ := h
        exact ⟨rfl, fun _ => rfl, hi⟩
    | comp f k cs =>
      have hvals : ∀ v, v ∈ cs.map (·.2) → FlagsConsistent v = true := by
        simp only [FlagsConsistent] at hn
        exact allConsistent_map_snd (consistentList_weaken hn)
      cases k with
      | append =>
        simp only [premergeF] at h
        split at h
        · simp only [Except.ok.injEq, Prod.mk.injEq] at h
          obtain ⟨rfl, rfl, rfl⟩ := h
          exact ⟨newPlainList_cons _ hvals, (fun e => by cases e), intoCons_none⟩
        · rename_i root
          split at h
          · cases h
          · rename_i tf tk tcs root' hr
            have hrm := removeNode_cons path root _ root' (hi root rfl) hr
            split at h
            · simp only [Except.ok.injEq, Prod.mk.injEq] at h
              obtain ⟨rfl, rfl, rfl⟩ := h
              refine ⟨?_, (fun e => by cases e), intoCons_some hrm.2.1⟩
              have ht := hrm.1
              simp only [FlagsConsistent] at ht ⊢
              exact extendList_cons tf tk _ tcs hvals ht
            · cases h
          · cases h
      | extend =>
        simp only [premergeF] at h
        split at h
        · simp only [Except.ok.injEq, Prod.mk.injEq] at h
          obtain ⟨rfl, rfl, rfl⟩ := h
          exact ⟨newPlainList_cons _ hvals, (fun e => by cases e), intoCons_none⟩
        · rename_i root
          split at h
          · rename_i tf tk tcs hg
            have ht := getNode_cons path root _ (hi root rfl) hg
            split at h
            · split at h
              · cases h
              · rename_i d root' hr
                have hrm := removeNode_cons path root d root' (hi root rfl) hr
                simp only [Except.ok.injEq, Prod.mk.injEq] at h
                obtain ⟨rfl, rfl, rfl⟩ := h
                refine ⟨?_, (fun e => by cases e), intoCons_some hrm.2.1⟩
                simp only [FlagsConsistent] at ht ⊢
                exact extendList_cons tf tk _ tcs hvals ht
            · simp only [Except.ok.injEq, Prod.mk.injEq] at h
              obtain ⟨rfl, rfl, rfl⟩ := h
              exact ⟨newPlainList_cons _ hvals, (fun e => by cases e), hi⟩
          · simp only [Except.ok.injEq, Prod.mk.injEq] at h
            obtain ⟨rfl, rfl, rfl⟩ := h
            exact ⟨newPlainList_cons _ hvals, (fun e => by cases e), hi⟩
      | stream =>
        simp only [premergeF] at h
        split at h
        · cases h
        · cases h
        · rename_i r0 hf
          have hr0 := flattenWith_cons ih _ r0 hvals hf
          split at h
          · cases h
          · rename_i r' same' into1 hp
            simp only [Except.ok.injEq, Prod.mk.injEq] at h
            obtain ⟨rfl, rfl, rfl⟩ := h
            have := ih _ _ _ _ _ _ hr0 hi hp
            exact ⟨this.1, (fun e => by cases e), this.2.2⟩
      | _ =>
        simp only [premergeF] at h
        split at h
        · cases h
        · rename_i cs' resets into1 hc
          split at h
          · cases h
          · rename_i cs'' ha
            simp only [Except.ok.injEq, Prod.mk.injEq] at h
            obtain ⟨rfl, rfl, rfl⟩ := h
            have := premergeF_comp_generic ih hn hi hc ha
            exact ⟨this.1, fun _ => rfl, this.2⟩

theorem flatten_cons (stages : List Node) (r : Node) (hs : ∀ s, s ∈ stages → FlagsConsistent s = true)
    (h : flatten stages = .ok r) : FlagsConsistent r = true :=
  flattenWith_cons (premergeF_cons _) stages r hs h

end AY
