/-
  AY.Lemmas.C15WholePerm — key order is irrelevant for the fold of recursive updates (`foldUpd`):
  position-wise `PermEq`-related document sequences fold to `PermEq`-related results (or fail alike),
  when no document after the first has an integer key.
-/
import AY.Lemmas.C15Perm
set_option linter.unusedVariables false
namespace AY

/-- every document of the list is free of integer keys, at every depth -/
def allNoIntKeys : List Plain → Bool
  | [] => true
  | d :: ds => d.noIntKeysH && allNoIntKeys ds

theorem foldl_updStep_perm : ∀ (ds ds' : List Plain) (acc acc' r : Plain), acc.PermEq acc' →
    listRel Plain.PermEq ds ds' → allNoIntKeys ds = true → ds.foldl updStep (.ok acc) = .ok r →
    ∃ r', ds'.foldl updStep (.ok acc') = .ok r' ∧ r.PermEq r'
  | [], [], acc, acc', r, ha, _, _, h => by
    simp only [List.foldl_nil, Except.ok.injEq] at h
    subst h
    exact ⟨acc', rfl, ha⟩
  | d :: ds, d' :: ds', acc, acc', r, ha, hr, hq, h => by
    simp only [allNoIntKeys, Bool.and_eq_true] at hq
    simp only [List.foldl_cons, updStep] at h ⊢
    cases hu : upd acc d with
    | error e => rw [hu, foldl_updStep_error] at h; cases h
    | ok a1 =>
      rw [hu] at h
      obtain ⟨a1', hu', hp⟩ := upd_perm ha hr.1 hq.1 hu
      rw [hu']
      exact foldl_updStep_perm ds ds' a1 a1' r hp hr.2 hq.2 h
  | [], _ :: _, _, _, _, _, hr, _, _ => hr.elim
  | _ :: _, [], _, _, _, _, hr, _, _ => hr.elim

theorem listRel_PermEq_symm (xs ys : List Plain) (h : listRel Plain.PermEq xs ys) : listRel Plain.PermEq ys xs :=
  listRel_symm (R := Plain.PermEq) (fun _ _ h => PermEq_symm h) h

/-- key order is irrelevant for the fold: related sequences give related results -/
theorem foldUpd_perm {ps ps' : List Plain} {r : Plain} (hr : listRel Plain.PermEq ps ps')
    (hq : allNoIntKeys ps.tail = true) (h : foldUpd ps = .ok r) :
    ∃ r', foldUpd ps' = .ok r' ∧ r.PermEq r' := by
  cases ps with
  | nil => simp [foldUpd] at h
  | cons d ds =>
    cases ps' with
    | nil => exact hr.elim
    | cons d' ds' =>
      simp only [foldUpd_cons] at h ⊢
      exact foldl_updStep_perm ds ds' d d' r hr.1 hr.2 hq h

/-- … and fail together -/
theorem foldUpd_perm_toBool {ps ps' : List Plain} (hr : listRel Plain.PermEq ps ps')
    (hq : allNoIntKeys ps.tail = true) (hq' : allNoIntKeys ps'.tail = true) :
    (foldUpd ps).toBool = (foldUpd ps').toBool := by
  cases h : foldUpd ps with
  | ok r =>
    obtain ⟨r', h', _⟩ := foldUpd_perm hr hq h
    simp [h', Except.toBool]
  | error e =>
    cases h' : foldUpd ps' with
    | error e' => simp [Except.toBool]
    | ok r' =>
      obtain ⟨r, hr', _⟩ := foldUpd_perm (listRel_PermEq_symm _ _ hr) hq' h'
      rw [h] at hr'; cases hr'

end AY
