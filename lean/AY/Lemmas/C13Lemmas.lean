/-
  AY.Lemmas.C13Lemmas — helper lemmas of property C13 (argument passing of `!call`/`!bind`
  and the merge table of function nodes).

  Part 1: association-list lookups (`ilookup`, `slookup`, `alookup`).
  Part 2: `_resolve_args`: the contiguous prefix (`unpackPrefix`) and the by-name part
          (`kwFromPositions`).
  Part 3: Python's call binding (`bindPositional`, `bindKeywords`, `fillDefaults`, `bindPy`).
  Part 4: merge table of `FunctionNode.on_merge_impl` (`funcMerge`, `compMerge`).
-/
import AY.Model.Eval
import AY.Model.Construct
import AY.Spec.Plain
namespace AY

/-! ### Part 1 — lookups -/

theorem mem_intArgs {args : List (Key × Val)} {i : Int} {v : Val}
    (h : (Key.int i, v) ∈ args) : (i, v) ∈ intArgs args := by
  induction args with
  | nil => cases h
  | cons kv rest ih =>
    obtain ⟨k, x⟩ := kv
    cases k with
    | int j =>
      simp only [intArgs, List.mem_cons] at h ⊢
      rcases h with h | h
      · left; simpa using h
      · right; exact ih h
    | str s =>
      simp only [intArgs, List.mem_cons] at h ⊢
      rcases h with h | h
      · simp at h
      · exact ih h
    | float r =>
      simp only [intArgs, List.mem_cons] at h ⊢
      rcases h with h | h
      · simp at h
      · exact ih h

theorem mem_strArgs {args : List (Key × Val)} {s : String} {v : Val}
    (h : (Key.str s, v) ∈ args) : (s, v) ∈ strArgs args := by
  induction args with
  | nil => cases h
  | cons kv rest ih =>
    obtain ⟨k, x⟩ := kv
    cases k with
    | str j =>
      simp only [strArgs, List.mem_cons] at h ⊢
      rcases h with h | h
      · left; simpa using h
      · right; exact ih h
    | int s =>
      simp only [strArgs, List.mem_cons] at h ⊢
      rcases h with h | h
      · simp at h
      · exact ih h
    | float r =>
      simp only [strArgs, List.mem_cons] at h ⊢
      rcases h with h | h
      · simp at h
      · exact ih h

theorem ilookup_isSome_of_mem {pos : List (Int × Val)} {i : Int} {v : Val}
    (h : (i, v) ∈ pos) : (ilookup i pos).isSome = true := by
  induction pos with
  | nil => cases h
  | cons kv rest ih =>
    obtain ⟨j, x⟩ := kv
    simp only [ilookup]
    by_cases e : j = i
    · simp [e]
    · rw [if_neg e]
      simp only [List.mem_cons, Prod.mk.injEq] at h
      rcases h with h | h
      · exact absurd h.1.symm e
      · exact ih h

/-- pigeonhole: pairwise distinct keys that are all present need that many entries -/
theorem ilookup_pigeon (pos : List (Int × Val)) :
    ∀ ks : List Int, ks.Nodup → (∀ k ∈ ks, (ilookup k pos).isSome = true) → ks.length ≤ pos.length := by
  induction pos with
  | nil =>
    intro ks _ h
    cases ks with
    | nil => simp
    | cons a b => have := h a (by simp); simp [ilookup] at this
  | cons kv rest ih =>
    intro ks hnd h
    obtain ⟨j, x⟩ := kv
    have h1 := ih (ks.erase j) (hnd.erase j) (by
      intro k hk
      have hk' := (List.Nodup.mem_erase_iff hnd).1 hk
      have := h k hk'.2
      simp only [ilookup] at this
      rw [if_neg (fun e => hk'.1 e.symm)] at this
      exact this)
    have h2 : ks.length ≤ (ks.erase j).length + 1 := by
      rw [List.length_erase]; split <;> omega
    simp only [List.length_cons]; omega

theorem slookup_append_left {k : String} {v : Val} {l l' : List (String × Val)}
    (h : slookup k l = some v) : slookup k (l ++ l') = some v := by
  induction l with
  | nil => cases h
  | cons kv rest ih =>
    obtain ⟨k', x⟩ := kv
    simp only [List.cons_append, slookup] at h ⊢
    by_cases e : k' = k
    · simpa [e] using h
    · rw [if_neg e] at h ⊢; exact ih h

theorem slookup_append_right {k : String} {l l' : List (String × Val)}
    (h : slookup k l = none) : slookup k (l ++ l') = slookup k l' := by
  induction l with
  | nil => rfl
  | cons kv rest ih =>
    obtain ⟨k', x⟩ := kv
    simp only [List.cons_append, slookup] at h ⊢
    by_cases e : k' = k
    · simp [e] at h
    · rw [if_neg e] at h ⊢; exact ih h

/-! ### Part 2 — `_resolve_args` -/

theorem unpackPrefix_length_le (pos : List (Int × Val)) :
    ∀ fuel i, (unpackPrefix pos fuel i).length ≤ fuel := by
  intro fuel
  induction fuel with
  | zero => intro i; simp [unpackPrefix]
  | succ n ih =>
    intro i
    simp only [unpackPrefix]
    split
    · simp
    · simp only [List.length_cons]; have := ih (i + 1); omega

/-- every element of the unpacked prefix is the value stored under its position -/
theorem unpackPrefix_get (pos : List (Int × Val)) :
    ∀ fuel i j v, (unpackPrefix pos fuel i)[j]? = some v →
      ilookup ((i + j : Nat) : Int) pos = some v := by
  intro fuel
  induction fuel with
  | zero => intro i j v h; simp [unpackPrefix] at h
  | succ n ih =>
    intro i j v h
    simp only [unpackPrefix] at h
    cases hl : ilookup (i : Int) pos with
    | none => rw [hl] at h; simp at h
    | some v0 =>
      rw [hl] at h
      cases j with
      | zero => simp only [List.getElem?_cons_zero, Option.some.injEq] at h; subst h; simpa using hl
      | succ j' =>
        simp only [List.getElem?_cons_succ] at h
        have := ih (i + 1) j' v h
        rw [← this]
        congr 2; omega

/-- the prefix stops at the first missing position (unless the fuel ran out) -/
theorem unpackPrefix_stop (pos : List (Int × Val)) :
    ∀ fuel i, (unpackPrefix pos fuel i).length < fuel →
      ilookup ((i + (unpackPrefix pos fuel i).length : Nat) : Int) pos = none := by
  intro fuel
  induction fuel with
  | zero => intro i h; simp at h
  | succ n ih =>
    intro i h
    simp only [unpackPrefix] at h ⊢
    split
    · rename_i hl; simpa using hl
    · rename_i v hl
      rw [hl] at h
      simp only [List.length_cons, Nat.add_lt_add_iff_right] at h
      have := ih (i + 1) h
      simp only [List.length_cons]
      rw [← this]
      congr 2; omega

/-- an absent position bounds the unpacked prefix -/
theorem unpackPrefix_length_le_of_absent (pos : List (Int × Val)) (fuel j : Nat)
    (h : ilookup (j : Int) pos = none) : (unpackPrefix pos fuel 0).length ≤ j := by
  by_cases hj : j < (unpackPrefix pos fuel 0).length
  · have := unpackPrefix_get pos fuel 0 j _ (List.getElem?_eq_getElem hj)
    simp only [Nat.zero_add] at this
    rw [h] at this; cases this
  · omega

/-- if exactly the positions `0 … n-1` are present, the unpacked prefix has length `n` -/
theorem unpackPrefix_length_exact (pos : List (Int × Val)) (n : Nat)
    (hkeys : ∀ i : Int, (ilookup i pos).isSome = true ↔ (0 ≤ i ∧ i < n)) :
    (unpackPrefix pos pos.length 0).length = n := by
  have hle : (unpackPrefix pos pos.length 0).length ≤ n :=
    unpackPrefix_length_le_of_absent pos pos.length n (by
      cases hl : ilookup (n : Int) pos with
      | none => rfl
      | some v =>
        have := (hkeys n).1 (by simp [hl])
        omega)
  have hn : n ≤ pos.length := by
    have := ilookup_pigeon pos ((List.range n).map Int.ofNat)
      (List.Pairwise.map Int.ofNat (fun a b hab e => hab (Int.ofNat.inj e)) List.nodup_range)
      (by
        intro k hk
        simp only [List.mem_map, List.mem_range] at hk
        obtain ⟨a, ha, rfl⟩ := hk
        exact (hkeys (Int.ofNat a)).2 ⟨Int.natCast_nonneg a, Int.ofNat_lt.2 ha⟩)
    simpa using this
  by_cases hlt : (unpackPrefix pos pos.length 0).length < n
  · have hstop := unpackPrefix_stop pos pos.length 0 (by omega)
    simp only [Nat.zero_add] at hstop
    have := (hkeys ((unpackPrefix pos pos.length 0).length : Int)).2 ⟨by omega, by omega⟩
    rw [hstop] at this; cases this
  · omega

/-- entries inside the unpacked prefix contribute nothing by name -/
theorem kwFromPositions_all_prefix (names : List String) (skip : Nat) (pos : List (Int × Val))
    (h : ∀ iv ∈ pos, 0 ≤ iv.1 ∧ iv.1.toNat < skip) : kwFromPositions names skip pos = some [] := by
  induction pos with
  | nil => rfl
  | cons iv rest ih =>
    obtain ⟨i, v⟩ := iv
    simp only [kwFromPositions]
    rw [if_pos (h (i, v) (by simp))]
    exact ih (fun iv hiv => h iv (by simp [hiv]))

/-- an entry outside the prefix with a non-negative index is passed under the name of the
    parameter at that index -/
theorem kwFromPositions_gap (names : List String) (skip : Nat) (pos : List (Int × Val))
    (l : List (String × Val)) (h : kwFromPositions names skip pos = some l)
    (i : Int) (v : Val) (hm : (i, v) ∈ pos) (hout : ¬ (0 ≤ i ∧ i.toNat < skip)) (h0 : 0 ≤ i) :
    ∃ nm, names[i.toNat]? = some nm ∧ (nm, v) ∈ l ∧ i < names.length := by
  induction pos generalizing l with
  | nil => cases hm
  | cons jv rest ih =>
    obtain ⟨j, x⟩ := jv
    simp only [kwFromPositions] at h
    simp only [List.mem_cons, Prod.mk.injEq] at hm
    by_cases hin : 0 ≤ j ∧ j.toNat < skip
    · rw [if_pos hin] at h
      rcases hm with hm | hm
      · exact absurd (hm.1 ▸ hin) hout
      · exact ih l h hm
    · rw [if_neg hin] at h
      by_cases hge : j ≥ (names.length : Int)
      · rw [if_pos hge] at h; cases h
      · rw [if_neg hge] at h
        generalize hjj : (if j < 0 then (names.length : Int) + j else j) = jj at h
        by_cases hneg : jj < 0
        · rw [if_pos hneg] at h; cases h
        · rw [if_neg hneg] at h
          cases hnm : names[jj.toNat]? with
          | none => rw [hnm] at h; cases h
          | some nm =>
            rw [hnm] at h
            cases hl' : kwFromPositions names skip rest with
            | none => rw [hl'] at h; cases h
            | some l' =>
              rw [hl'] at h
              simp only [Option.some.injEq] at h
              subst h
              rcases hm with hm | hm
              · obtain ⟨rfl, rfl⟩ := hm
                rw [if_neg (by omega)] at hjj
                subst hjj
                exact ⟨nm, hnm, by simp, by omega⟩
              · obtain ⟨nm', h1, h2, h3⟩ := ih l' hl' hm
                exact ⟨nm', h1, by simp [h2], h3⟩

/-- an entry outside the prefix whose index is not smaller than the number of names is an error -/
theorem kwFromPositions_beyond (names : List String) (skip : Nat) (pos : List (Int × Val))
    (i : Int) (v : Val) (hm : (i, v) ∈ pos) (hout : ¬ (0 ≤ i ∧ i.toNat < skip))
    (hge : i ≥ (names.length : Int)) : kwFromPositions names skip pos = none := by
  induction pos with
  | nil => cases hm
  | cons jv rest ih =>
    obtain ⟨j, x⟩ := jv
    simp only [kwFromPositions]
    simp only [List.mem_cons, Prod.mk.injEq] at hm
    by_cases hin : 0 ≤ j ∧ j.toNat < skip
    · rw [if_pos hin]
      rcases hm with hm | hm
      · exact absurd (hm.1 ▸ hin) hout
      · exact ih hm
    · rw [if_neg hin]
      by_cases hge' : j ≥ (names.length : Int)
      · rw [if_pos hge']
      · rw [if_neg hge']
        rcases hm with hm | hm
        · exact absurd (hm.1 ▸ hge) hge'
        · generalize (if j < 0 then (names.length : Int) + j else j) = jj
          by_cases hneg : jj < 0
          · rw [if_pos hneg]
          · rw [if_neg hneg]
            cases names[jj.toNat]? with
            | none => rfl
            | some nm => simp only; rw [ih hm]

/-- shape of a successful `resolveArgs` -/
theorem resolveArgs_some (sig : Sig) (args : List (Key × Val)) (pos : List Val)
    (kwp kw : List (String × Val)) (h : resolveArgs sig args = some (pos, kwp, kw)) :
    kw = strArgs args ∧ pos = unpackPrefix (intArgs args) (intArgs args).length 0 ∧
    ((intArgs args).isEmpty = true → kwp = []) ∧
    ((intArgs args).isEmpty = false →
      kwFromPositions (idxToName sig) pos.length (intArgs args) = some kwp) := by
  simp only [resolveArgs] at h
  by_cases he : (intArgs args).isEmpty = true
  · rw [if_pos he] at h
    split at h
    · cases h
    · simp only [Option.some.injEq, Prod.mk.injEq] at h
      obtain ⟨h1, h2, h3⟩ := h
      have : intArgs args = [] := by simpa using he
      refine ⟨h3.symm, ?_, fun _ => h2.symm, fun h' => by rw [he] at h'; cases h'⟩
      rw [this]; simp [unpackPrefix, ← h1]
  · rw [if_neg he] at h
    split at h
    · cases h
    · split at h
      · cases h
      · rename_i kwp' hk
        simp only [Option.some.injEq, Prod.mk.injEq] at h
        obtain ⟨h1, h2, h3⟩ := h
        subst h1 h2 h3
        exact ⟨rfl, rfl, fun h' => absurd h' he, fun _ => hk⟩

/-! ### Part 3 — Python's call binding -/

theorem posParams_mem (sig : Sig) : ∀ p ∈ posParams sig, p ∈ sig ∧ p.kind = .posOrKw := by
  induction sig with
  | nil => intro p h; cases h
  | cons q rest ih =>
    intro p h
    simp only [posParams] at h
    split at h
    · rename_i hk
      simp only [List.mem_cons] at h
      rcases h with h | h
      · subst h; exact ⟨by simp, hk⟩
      · exact ⟨by simp [(ih p h).1], (ih p h).2⟩
    · cases h

theorem bindPositional_fits : ∀ (ps : List Param) (vs : List Val), vs.length ≤ ps.length →
    (bindPositional ps vs).2 = [] ∧
    (bindPositional ps vs).1 = List.zipWith (fun p v => (p.name, v)) ps vs := by
  intro ps
  induction ps with
  | nil => intro vs h; cases vs <;> simp_all [bindPositional]
  | cons p rest ih =>
    intro vs h
    cases vs with
    | nil => simp [bindPositional]
    | cons v vs' =>
      simp only [List.length_cons, Nat.add_le_add_iff_right] at h
      simp [bindPositional, ih vs' h]

theorem slookup_zipWith (ps : List Param) (vs : List Val)
    (hnd : (ps.map (·.name)).Nodup) (i : Nat) (h1 : i < ps.length) (h2 : i < vs.length) :
    slookup (ps[i]).name (List.zipWith (fun p v => (p.name, v)) ps vs) = some vs[i] := by
  induction ps generalizing vs i with
  | nil => simp at h1
  | cons p rest ih =>
    cases vs with
    | nil => simp at h2
    | cons v vs' =>
      simp only [List.map_cons, List.nodup_cons] at hnd
      cases i with
      | zero => simp [slookup]
      | succ i' =>
        simp only [List.length_cons, Nat.add_lt_add_iff_right] at h1 h2
        simp only [List.zipWith_cons_cons, slookup, List.getElem_cons_succ]
        have hne : p.name ≠ (rest[i']).name := by
          intro e
          exact hnd.1 (by rw [e]; exact List.mem_map.2 ⟨rest[i'], List.getElem_mem h1, rfl⟩)
        rw [if_neg hne]
        exact ih vs' hnd.2 i' h1 h2

/-- keyword binding never rebinds a named parameter that is already bound -/
theorem bindKeywords_keeps (sig : Sig) (s : String) (v : Val) :
    ∀ (l : List (String × Val)) (b0 b : Bound), slookup s b0.named = some v →
      bindKeywords sig l b0 = some b → slookup s b.named = some v := by
  intro l
  induction l with
  | nil => intro b0 b h0 h; simp only [bindKeywords, Option.some.injEq] at h; subst h; exact h0
  | cons kv rest ih =>
    intro b0 b h0 h
    obtain ⟨k, x⟩ := kv
    simp only [bindKeywords] at h
    split at h
    · split at h
      · cases h
      · exact ih { b0 with named := b0.named ++ [(k, x)] } b (slookup_append_left h0) h
    · split at h
      · split at h
        · cases h
        · exact ih { b0 with varkw := b0.varkw ++ [(k, x)] } b h0 h
      · cases h

/-- varargs are not touched by keyword binding -/
theorem bindKeywords_varargs (sig : Sig) :
    ∀ (l : List (String × Val)) (b0 b : Bound), bindKeywords sig l b0 = some b → b.varargs = b0.varargs := by
  intro l
  induction l with
  | nil => intro b0 b h; simp only [bindKeywords, Option.some.injEq] at h; subst h; rfl
  | cons kv rest ih =>
    intro b0 b h
    obtain ⟨k, x⟩ := kv
    simp only [bindKeywords] at h
    split at h
    · split at h
      · cases h
      · exact ih { b0 with named := b0.named ++ [(k, x)] } b h
    · split at h
      · split at h
        · cases h
        · exact ih { b0 with varkw := b0.varkw ++ [(k, x)] } b h
      · cases h

/-- a keyword naming a (positional-or-keyword or keyword-only) parameter binds that parameter -/
theorem bindKeywords_binds (sig : Sig) (s : String) (v : Val) (hs : isNamedParam sig s = true) :
    ∀ (l : List (String × Val)) (b0 b : Bound), (s, v) ∈ l →
      bindKeywords sig l b0 = some b → slookup s b.named = some v := by
  intro l
  induction l with
  | nil => intro b0 b hm; cases hm
  | cons kv rest ih =>
    intro b0 b hm h
    obtain ⟨k, x⟩ := kv
    simp only [List.mem_cons, Prod.mk.injEq] at hm
    simp only [bindKeywords] at h
    rcases hm with hm | hm
    · obtain ⟨rfl, rfl⟩ := hm
      rw [if_pos hs] at h
      split at h
      · cases h
      · rename_i hnone
        have hnone' : slookup s b0.named = none := by
          cases hl : slookup s b0.named with
          | none => rfl
          | some y => simp [hl] at hnone
        refine bindKeywords_keeps sig s v rest _ b ?_ h
        rw [slookup_append_right hnone']
        simp [slookup]
    · split at h
      · split at h
        · cases h
        · exact ih _ b hm h
      · split at h
        · split at h
          · cases h
          · exact ih _ b hm h
        · cases h

/-- filling the defaults keeps every explicitly bound named parameter -/
theorem fillDefaults_keeps (s : String) (v : Val) :
    ∀ (sig : Sig) (named l : List (String × Val)),
      (∃ p ∈ sig, p.name = s ∧ (p.kind = .posOrKw ∨ p.kind = .kwOnly)) →
      slookup s named = some v → fillDefaults sig named = some l → slookup s l = some v := by
  intro sig
  induction sig with
  | nil => intro named l h; obtain ⟨p, hp, _⟩ := h; cases hp
  | cons q rest ih =>
    intro named l hex hs h
    simp only [fillDefaults] at h
    split at h
    · rename_i hvar
      apply ih named l _ hs h
      obtain ⟨p, hp, hn, hk⟩ := hex
      simp only [List.mem_cons] at hp
      rcases hp with hp | hp
      · subst hp
        simp only [Bool.or_eq_true, decide_eq_true_eq] at hvar
        rcases hvar with e | e <;> rcases hk with e' | e' <;> rw [e] at e' <;> cases e'
      · exact ⟨p, hp, hn, hk⟩
    · have hrest : q.name ≠ s → ∃ p ∈ rest, p.name = s ∧ (p.kind = .posOrKw ∨ p.kind = .kwOnly) := by
        intro hne
        obtain ⟨p, hp, hn, hk⟩ := hex
        simp only [List.mem_cons] at hp
        rcases hp with hp | hp
        · subst hp; exact absurd hn hne
        · exact ⟨p, hp, hn, hk⟩
      split at h
      · rename_i v' hv'
        split at h
        · cases h
        · rename_i l' hl'
          simp only [Option.some.injEq] at h
          subst h
          simp only [slookup]
          by_cases e : q.name = s
          · rw [if_pos e]; rw [e, hs] at hv'; exact hv'.symm ▸ rfl
          · rw [if_neg e]; exact ih named l' (hrest e) hs hl'
      · rename_i d hnone hd
        split at h
        · cases h
        · rename_i l' hl'
          simp only [Option.some.injEq] at h
          subst h
          simp only [slookup]
          by_cases e : q.name = s
          · rw [e, hs] at hnone; cases hnone
          · rw [if_neg e]; exact ih named l' (hrest e) hs hl'
      · cases h

theorem isNamedParam_iff (sig : Sig) (s : String) :
    isNamedParam sig s = true ↔ ∃ p ∈ sig, p.name = s ∧ (p.kind = .posOrKw ∨ p.kind = .kwOnly) := by
  simp [isNamedParam, List.any_eq_true]

/-- decomposition of a successful `bindPy` -/
theorem bindPy_some (sig : Sig) (pos : List Val) (kw : List (String × Val)) (b : Bound)
    (h : bindPy sig pos kw = some b) :
    ∃ b', bindKeywords sig kw { named := (bindPositional (posParams sig) pos).1,
                                varargs := (bindPositional (posParams sig) pos).2 } = some b' ∧
      fillDefaults sig b'.named = some b.named ∧ b.varargs = b'.varargs ∧ b.varkw = b'.varkw ∧
      dupKeys kw = false := by
  simp only [bindPy] at h
  split at h
  · cases h
  · rename_i hd
    split at h
    · cases h
    · split at h
      · cases h
      · rename_i b' hb'
        split at h
        · cases h
        · rename_i named hn
          simp only [Option.some.injEq] at h
          subst h
          exact ⟨b', hb', hn, rfl, rfl, by simpa using hd⟩

/-! ### Part 4 — the merge table -/

theorem alookup_aset_ne {α : Type} (k k' : Key) (v : α) (cs : List (Key × α)) (h : k' ≠ k) :
    alookup k (aset k' v cs) = alookup k cs := by
  induction cs with
  | nil => simp [aset, alookup, h]
  | cons kc rest ih =>
    obtain ⟨k2, c⟩ := kc
    simp only [aset]
    by_cases e : k2 = k'
    · rw [if_pos e]; simp only [alookup]; rw [if_neg h, if_neg (by rw [e]; exact h)]
    · rw [if_neg e]; simp only [alookup]; rw [ih]

theorem alookup_aset_eq {α : Type} (k : Key) (v : α) (cs : List (Key × α)) :
    alookup k (aset k v cs) = some v := by
  induction cs with
  | nil => simp [aset, alookup]
  | cons kc rest ih =>
    obtain ⟨k2, c⟩ := kc
    simp only [aset]
    by_cases e : k2 = k
    · rw [if_pos e]; simp [alookup]
    · rw [if_neg e]; simp only [alookup]; rw [if_neg e, ih]

theorem alookup_aerase_ne {α : Type} (k k' : Key) (cs : List (Key × α)) (h : k' ≠ k) :
    alookup k (aerase k' cs) = alookup k cs := by
  induction cs with
  | nil => rfl
  | cons kc rest ih =>
    obtain ⟨k2, c⟩ := kc
    simp only [aerase]
    by_cases e : k2 = k'
    · rw [if_pos e]; simp only [alookup]; rw [if_neg (by rw [e]; exact h)]
    · rw [if_neg e]; simp only [alookup]; rw [ih]

/-- one step of the key loop (mapping family) does not touch the other keys -/
theorem mergeStep_other_key {exc : List Path} (rec : Node → Node → Except Err (Node × Bool)) (sf : Flags)
    (sk : CompKind) (hsk : sk.isDictFam = true) (acc acc' : List (Key × Node)) (kv : Key × Node)
    (k : Key) (hne : kv.1 ≠ k) (h : mergeStep rec sf sk exc acc kv = .ok acc') :
    alookup k acc' = alookup k acc := by
  have hset : ∀ v r, setChild sf sk kv.1 v acc = .ok r → alookup k r = alookup k acc := by
    intro v r hr
    simp only [setChild, hsk, if_true, Except.ok.injEq] at hr
    subst hr; exact alookup_aset_ne k kv.1 _ acc hne
  have hrep : ∀ v, alookup k (replaceChild sk kv.1 v acc) = alookup k acc := by
    intro v; simp only [replaceChild, hsk, if_true]; exact alookup_aset_ne k kv.1 _ acc hne
  have hrem : ∀ r, removeChildE sf sk kv.1 acc = .ok r → alookup k r = alookup k acc := by
    intro r hr
    simp only [removeChildE, removeChild, hsk, if_true] at hr
    split at hr
    · rename_i cs' hcs
      split at hcs
      · simp only [Option.some.injEq] at hcs
        simp only [Except.ok.injEq] at hr
        subst hcs hr; exact alookup_aerase_ne k kv.1 acc hne
      · cases hcs
    · cases hr
  simp only [mergeStep] at h
  split at h
  · split at h
    · cases h
    · exact hset _ _ h
  · split at h
    · cases h
    · split at h
      · split at h
        · exact hrem _ h
        · split at h
          · simp only [Except.ok.injEq] at h; subst h; exact hrep _
          · exact hset _ _ h
      · split at h
        · simp only [Except.ok.injEq] at h; subst h; exact hrep _
        · split at h
          · cases h
          · split at h
            · exact hrem _ h
            · exact hset _ _ h

/-- arguments whose key the other mapping does not mention survive the key loop unchanged -/
theorem mergeLoop_untouched {exc : List Path} (rec : Node → Node → Except Err (Node × Bool)) (sf : Flags)
    (sk : CompKind) (hsk : sk.isDictFam = true) (k : Key) :
    ∀ (ocs acc acc' : List (Key × Node)), (∀ kv ∈ ocs, kv.1 ≠ k) →
      mergeLoop rec sf sk exc acc ocs = .ok acc' → alookup k acc' = alookup k acc := by
  intro ocs
  induction ocs with
  | nil => intro acc acc' _ h; simp only [mergeLoop, Except.ok.injEq] at h; subst h; rfl
  | cons kv rest ih =>
    intro acc acc' hk h
    simp only [mergeLoop] at h
    split at h
    · cases h
    · rename_i acc1 h1
      rw [ih acc1 acc' (fun kv' hkv' => hk kv' (by simp [hkv'])) h]
      exact mergeStep_other_key rec sf sk hsk acc acc1 kv k (hk kv (by simp)) h1

/-- a key that is new to the function node is added with the (adopted) value of the mapping -/
theorem mergeLoop_new_key {exc : List Path} (rec : Node → Node → Except Err (Node × Bool)) (sf : Flags)
    (sk : CompKind) (hsk : sk.isDictFam = true) (k : Key) (v : Node)
    (pre post acc acc' : List (Key × Node))
    (hpre : ∀ kv ∈ pre, kv.1 ≠ k) (hpost : ∀ kv ∈ post, kv.1 ≠ k) (hnew : alookup k acc = none)
    (h : mergeLoop rec sf sk exc acc (pre ++ (k, v) :: post) = .ok acc') :
    alookup k acc' = some (adopt sf sk v) := by
  induction pre generalizing acc with
  | nil =>
    simp only [List.nil_append, mergeLoop] at h
    split at h
    · cases h
    · rename_i acc1 h1
      rw [mergeLoop_untouched rec sf sk hsk k post acc1 acc' hpost h]
      simp only [mergeStep, getChild, hsk, if_true, hnew] at h1
      split at h1
      · cases h1
      · simp only [setChild, hsk, if_true, Except.ok.injEq] at h1
        subst h1; exact alookup_aset_eq k _ acc
  | cons kv rest ih =>
    simp only [List.cons_append, mergeLoop] at h
    split at h
    · cases h
    · rename_i acc1 h1
      have := mergeStep_other_key rec sf sk hsk acc acc1 kv k (hpre kv (by simp)) h1
      exact ih acc1 (fun kv' hkv' => hpre kv' (by simp [hkv'])) (by rw [this]; exact hnew) h

mutual
theorem native_applyKw (kw : ChildKw) (n : Node) : native (applyKw kw n) = native n := by
  match n with
  | .leaf f k => cases k <;> simp [applyKw, native]
  | .comp f k cs =>
    simp only [applyKw]
    split
    · split
      · simp [native]
      · simp only [native]
        rw [nativeList_applyKw, nativeVals_applyKw]
    · rfl
theorem nativeList_applyKw (kw : ChildKw) (cs : List (Key × Node)) :
    nativeList (applyKwList kw cs) = nativeList cs := by
  match cs with
  | [] => rfl
  | (k, c) :: rest =>
    simp only [applyKwList, nativeList]
    rw [native_applyKw kw c, nativeList_applyKw kw rest]
theorem nativeVals_applyKw (kw : ChildKw) (cs : List (Key × Node)) :
    nativeVals (applyKwList kw cs) = nativeVals cs := by
  match cs with
  | [] => rfl
  | (k, c) :: rest =>
    simp only [applyKwList, nativeVals]
    rw [native_applyKw kw c, nativeVals_applyKw kw rest]
end

/-- re-propagating the inherited flags changes no data -/
theorem native_propagate (n : Node) : native (propagate n) = native n := by
  cases n with
  | leaf f k => rfl
  | comp f k cs =>
    simp only [propagate]
    split
    · rfl
    · simp only [native]; rw [nativeList_applyKw, nativeVals_applyKw]

theorem propagate_kind (f : Flags) (k : CompKind) (cs : List (Key × Node)) :
    ∃ cs', propagate (.comp f k cs) = .comp f k cs' ∧ cs'.map (·.1) = cs.map (·.1) := by
  have hk : ∀ kw (l : List (Key × Node)), (applyKwList kw l).map (·.1) = l.map (·.1) := by
    intro kw l
    induction l with
    | nil => rfl
    | cons a b ih => obtain ⟨x, y⟩ := a; simp [applyKwList, ih]
  simp only [propagate]
  split
  · exact ⟨cs, rfl, rfl⟩
  · exact ⟨_, rfl, hk _ _⟩

/-- re-propagating the inherited flags keeps the class, the flags of the node, the keys of the
    arguments (in order) and the data -/
theorem propagate_shape (f sf : Flags) (k : CompKind) (cs : List (Key × Node)) :
    ∃ cs', propagate (.comp f k cs) = .comp f k cs' ∧ cs'.map (·.1) = cs.map (·.1) ∧
      native (.comp f k cs') = native (.comp sf k cs) := by
  obtain ⟨cs', h1, h2⟩ := propagate_kind f k cs
  refine ⟨cs', h1, h2, ?_⟩
  rw [← h1, native_propagate]
  simp [native]

theorem propagate_nil (f : Flags) (k : CompKind) : propagate (.comp f k []) = .comp f k [] := by
  simp only [propagate]; split <;> simp [applyKwList]

theorem func?_cases {k : CompKind} {f : String} (h : k.func? = some f) : k = .call f ∨ k = .bind f := by
  cases k <;> simp [CompKind.func?] at h <;> simp [h]

theorem isFunc_of_func? {k : CompKind} {f : String} (h : k.func? = some f) : k.isFunc = true := by
  rcases func?_cases h with rfl | rfl <;> rfl

theorem isDictFam_of_func? {k : CompKind} {f : String} (h : k.func? = some f) : k.isDictFam = true := by
  rcases func?_cases h with rfl | rfl <;> rfl

theorem setFunc_func? {k : CompKind} {f : String} (g : String) (h : k.func? = some f) :
    (k.setFunc g).func? = some g := by
  rcases func?_cases h with rfl | rfl <;> rfl

/-- promotion when both sides are function nodes: the (emptied or merged) `self` keeps its class -/
theorem maybePromote_func_func (sf : Flags) (sk : CompKind) (scs : List (Key × Node))
    (of : Flags) (ok : CompKind) (ocs : List (Key × Node))
    (h1 : sk.isFunc = true) (h2 : ok.isFunc = true) :
    maybePromote sf sk scs (.comp of ok ocs) = .ok (.comp sf sk scs, true) := by
  cases sk <;> simp [CompKind.isFunc] at h1 <;> cases ok <;> simp [CompKind.isFunc] at h2 <;>
    simp [maybePromote, CompKind.sameClass, CompKind.strictSub, CompKind.isPlain]

/-- promotion of a function node `self` against a plain mapping / plain list: `self` stays -/
theorem maybePromote_func_plain (sf : Flags) (sk : CompKind) (scs : List (Key × Node))
    (of : Flags) (pk : CompKind) (ocs : List (Key × Node))
    (h1 : sk.isFunc = true) (h2 : pk = .dict ∨ pk = .list) :
    maybePromote sf sk scs (.comp of pk ocs) = .ok (.comp sf sk scs, true) := by
  rcases h2 with rfl | rfl <;> cases sk <;> simp [CompKind.isFunc] at h1 <;>
    simp [maybePromote, CompKind.sameClass, CompKind.strictSub, CompKind.isPlain]

/-- promotion of a plain mapping / plain list against a function node: the content moves into a
    node of the function node's class (adopted under the function node's flags) -/
theorem maybePromote_plain_func (fl : Flags) (pk : CompKind) (ocs : List (Key × Node))
    (sf : Flags) (sk : CompKind) (cs' : List (Key × Node))
    (h1 : sk.isFunc = true) (h2 : pk = .dict ∨ pk = .list) :
    maybePromote fl pk ocs (.comp sf sk cs') =
      match adoptAll sf sk ocs [] with
      | .error e => .error e
      | .ok cs => .ok (.comp (promotedFlags fl sf) sk cs, false) := by
  rcases h2 with rfl | rfl <;> cases sk <;> simp [CompKind.isFunc] at h1 <;>
    simp [maybePromote, CompKind.sameClass, CompKind.strictSub, CompKind.isPlain] <;> rfl

/-- the tail of the merge for a function node and a plain mapping / list / function node -/
theorem finishMerge_func (sf : Flags) (sk : CompKind) (scs' : List (Key × Node))
    (of : Flags) (pk : CompKind) (ocs : List (Key × Node))
    (h1 : sk.isFunc = true) (h2 : pk = .dict ∨ pk = .list ∨ pk.isFunc = true) :
    finishMerge sf sk scs' (.comp of pk ocs) =
      .ok (if hasPrio of sf true then propagate (.comp (replaceSelfFlags sf of) sk scs')
           else propagate (.comp (replaceOtherFlags sf of) sk scs'), true) := by
  have hm : ∀ fl, maybePromote fl sk scs' (.comp of pk ocs) = .ok (.comp fl sk scs', true) := by
    intro fl
    rcases h2 with h | h | h
    · exact maybePromote_func_plain _ _ _ _ _ _ h1 (Or.inl h)
    · exact maybePromote_func_plain _ _ _ _ _ _ h1 (Or.inr h)
    · exact maybePromote_func_func _ _ _ _ _ _ h1 h
  simp only [finishMerge, Node.flags, hm]
  by_cases hp : hasPrio of sf true = true
  · simp [hp]
  · simp [hp]

theorem filterNode_comp (cond : Path → Node → Bool) (pre : Path) (f : Flags) (k : CompKind)
    (cs : List (Key × Node)) : ∃ cs', (filterNode cond pre (.comp f k cs)).1 = .comp f k cs' := by
  simp [filterNode]

/-- `ComposedNode.on_merge_impl` for a function node `self` and a plain mapping / list `other` -/
theorem compMerge_func_plain (rec : Node → Node → Except Err (Node × Bool)) (sf : Flags)
    (sk : CompKind) (scs : List (Key × Node)) (of : Flags) (pk : CompKind) (ocs : List (Key × Node))
    (h1 : sk.isFunc = true) (h2 : pk = .dict ∨ pk = .list) :
    compMerge rec sf sk scs (.comp of pk ocs) =
      if eDel (.comp of pk ocs) then
        let r := filterNode (maybeKeep (.comp of pk ocs)) [] (.comp sf sk scs)
        if r.1.children.isEmpty && hasPrio of sf true then
          match reqNew ([] :: r.2) [] (.comp of pk ocs) with
          | some p => .error (.notnew p)
          | none =>
            match adoptAll sf sk ocs [] with
            | .error e => .error e
            | .ok cs => .ok (propagate (.comp (promotedFlags (replaceOtherFlags of sf) sf) sk cs), true)
        else
          match mergeLoop rec sf sk r.2 r.1.children ocs with
          | .error e => .error e
          | .ok scs' =>
            .ok (if hasPrio of sf true then propagate (.comp (replaceSelfFlags sf of) sk scs')
                 else propagate (.comp (replaceOtherFlags sf of) sk scs'), true)
      else
        match mergeLoop rec sf sk [] scs ocs with
        | .error e => .error e
        | .ok scs' =>
          .ok (if hasPrio of sf true then propagate (.comp (replaceSelfFlags sf of) sk scs')
               else propagate (.comp (replaceOtherFlags sf of) sk scs'), true) := by
  have h2' : pk = .dict ∨ pk = .list ∨ pk.isFunc = true := by
    rcases h2 with h | h
    · exact Or.inl h
    · exact Or.inr (Or.inl h)
  obtain ⟨cs', hcs'⟩ := filterNode_comp (maybeKeep (.comp of pk ocs)) [] sf sk scs
  simp only [compMerge, finishMerge_func _ _ _ _ _ _ h1 h2']
  by_cases hd : eDel (.comp of pk ocs) = true
  · simp only [hd, if_true]
    by_cases hc : ((filterNode (maybeKeep (.comp of pk ocs)) [] (.comp sf sk scs)).1.children.isEmpty
        && hasPrio of sf true) = true
    · rw [if_pos hc, if_pos hc]
      cases reqNew ([] :: (filterNode (maybeKeep (.comp of pk ocs)) [] (.comp sf sk scs)).2) []
          (.comp of pk ocs) with
      | some p => rfl
      | none =>
        simp only
        rw [hcs', maybePromote_plain_func _ _ _ _ _ _ h1 h2]
        cases adoptAll sf sk ocs [] <;> rfl
    · rw [if_neg hc, if_neg hc]; rfl
  · simp only [hd, Bool.false_eq_true, if_false]; rfl

/-! #### when the pre-filter of `ComposedNode.on_merge_impl` removes every argument -/

/-- the arguments of `self` are leaves, none of which has a strictly higher priority than the node
    of `other` it would be merged with (`maybe_keep` is false for each of them) -/
def ArgsYield (scs : List (Key × Node)) (o : Node) : Prop :=
  ∀ kc ∈ scs, kc.2.isComp = false ∧ maybeKeep o [kc.1] kc.2 = false

theorem ahas_of_mem_keys (nm : Key) (cs : List (Key × Node)) (h : nm ∈ cs.map (·.1)) :
    ahas nm cs = true := by
  induction cs with
  | nil => cases h
  | cons kc rest ih =>
    obtain ⟨k, c⟩ := kc
    simp only [ahas, alookup]
    by_cases e : k = nm
    · simp [e]
    · rw [if_neg e]
      simp only [List.map_cons, List.mem_cons] at h
      rcases h with h | h
      · exact absurd h.symm e
      · exact ih h

theorem keys_aerase (nm : Key) (cs : List (Key × Node)) :
    (aerase nm cs).map (·.1) = (cs.map (·.1)).erase nm := by
  induction cs with
  | nil => rfl
  | cons kc rest ih =>
    obtain ⟨k, c⟩ := kc
    simp only [aerase, List.map_cons, List.erase_cons]
    by_cases e : k = nm
    · simp [e]
    · rw [if_neg e]
      have : (k == nm) = false := by simpa using e
      simp [this, ih]

/-- removing every key (in any order) of a mapping-family node leaves no child -/
theorem removeMany_all (f : Flags) (k : CompKind) (hk : k.isDictFam = true) :
    ∀ (ns : List Key) (cs : List (Key × Node)), ns.Perm (cs.map (·.1)) → removeMany f k ns cs = [] := by
  intro ns
  induction ns with
  | nil =>
    intro cs h
    have : cs.map (·.1) = [] := by simpa using h.symm.eq_nil
    cases cs with
    | nil => rfl
    | cons a b => simp at this
  | cons nm rest ih =>
    intro cs h
    have hm : nm ∈ cs.map (·.1) := (h.mem_iff).1 (by simp)
    simp only [removeMany, removeChild, hk, if_true, ahas_of_mem_keys nm cs hm]
    apply ih
    rw [keys_aerase]
    exact List.Perm.cons_inv (h.trans (List.perm_cons_erase hm))

theorem filterList_all_dropped (cond : Path → Node → Bool) :
    ∀ (cs : List (Key × Node)), (∀ kc ∈ cs, kc.2.isComp = false ∧ cond [kc.1] kc.2 = false) →
      notKeptNames (filterList cond [] cs).1 = cs.map (·.1) ∧ dropMarks (filterList cond [] cs).1 = cs := by
  intro cs
  induction cs with
  | nil => intro _; simp [filterList, notKeptNames, dropMarks]
  | cons kc rest ih =>
    intro h
    obtain ⟨k, c⟩ := kc
    have hc := h (k, c) (by simp)
    obtain ⟨h1, h2⟩ := ih (fun kc hkc => h kc (by simp [hkc]))
    cases c with
    | comp f kk cs => simp [Node.isComp] at hc
    | leaf f lk =>
      simp only [filterList, filterNode, List.nil_append, hc.2, Node.isComp, Bool.false_and, Bool.or_false,
        notKeptNames, dropMarks, Bool.false_eq_true, if_false, h1, h2, List.map_cons, and_self]

/-- if no argument of `self` outranks `other`, the pre-filter removes every argument -/
theorem filterNode_all_gone (sf : Flags) (sk : CompKind) (hk : sk.isDictFam = true)
    (scs : List (Key × Node)) (o : Node) (h : ArgsYield scs o) :
    (filterNode (maybeKeep o) [] (.comp sf sk scs)).1.children = [] := by
  obtain ⟨h1, h2⟩ := filterList_all_dropped (maybeKeep o) scs h
  simp only [filterNode, Node.children, h1, h2]
  exact removeMany_all sf sk hk _ scs (List.reverse_perm _)

/-- the pre-filter of an argument-free node removes nothing and leaves nothing -/
theorem filterNode_nil (cond : Path → Node → Bool) (f : Flags) (k : CompKind) :
    filterNode cond [] (.comp f k []) = (.comp f k [], []) := by
  simp [filterNode, filterList, notKeptNames, dropMarks, removeMany]

/-- `self <- other` with `other.delete`, nothing of `self` surviving the pre-filter and `other`
    not outranked: the result is `other` (flags combined), for function nodes on both sides -/
theorem compMerge_replaced (rec : Node → Node → Except Err (Node × Bool)) (sf : Flags)
    (sk : CompKind) (scs : List (Key × Node)) (of : Flags) (ok : CompKind) (ocs : List (Key × Node))
    (hsk : sk.isFunc = true) (hok : ok.isFunc = true)
    (hdel : eDel (.comp of ok ocs) = true) (hp : hasPrio of sf true = true)
    (hgone : (filterNode (maybeKeep (.comp of ok ocs)) [] (.comp sf sk scs)).1.children = []) :
    compMerge rec sf sk scs (.comp of ok ocs) =
      match reqNew ([] :: (filterNode (maybeKeep (.comp of ok ocs)) [] (.comp sf sk scs)).2) []
          (.comp of ok ocs) with
      | some p => .error (.notnew p)
      | none => .ok (propagate (.comp (replaceOtherFlags of sf) ok ocs), false) := by
  have hfn : ∃ cs', (filterNode (maybeKeep (.comp of ok ocs)) [] (.comp sf sk scs)).1 = .comp sf sk cs' := by
    simp [filterNode]
  obtain ⟨cs', hcs'⟩ := hfn
  simp only [compMerge, hdel, if_true]
  rw [hgone]
  simp only [List.isEmpty_nil, hp, Bool.and_self, if_true]
  cases hr : reqNew ([] :: (filterNode (maybeKeep (.comp of ok ocs)) [] (.comp sf sk scs)).2) []
      (.comp of ok ocs) with
  | some p => rfl
  | none =>
    simp only
    rw [hcs', maybePromote_func_func _ _ _ _ _ _ hok hsk]
    simp

end AY
