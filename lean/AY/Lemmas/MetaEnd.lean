/-
  Lemmas about `metadataEnd` (AY.Model.MetaText): the character scanner behind `_get_metadata_end`.
  Property theorems: AY/Props/C01_MetaText.lean.
-/
import AY.Lemmas.MetaText
namespace AY.MetaText

/-- a character that is neither a quote nor a bracket: the scanner just steps over it -/
def plainChar (c : Char) : Bool := !isQuote c && !isOpen c && !isClose c

theorem skipString_ge (q : List Char) : ∀ (l : List Char) (pos : Nat), pos + q.length ≤ skipString q l pos
  | [], pos => by simp [skipString]
  | [c], pos => by
    unfold skipString
    split
    · omega
    · split
      · simp only; omega
      · have := skipString_ge q [] (pos + 1); omega
  | c :: d :: rest, pos => by
    unfold skipString
    split
    · omega
    · split
      · have := skipString_ge q rest (pos + 2)
        simp only; omega
      · have := skipString_ge q (d :: rest) (pos + 1); omega

theorem drop_succ_of_cons {α : Type} (data : List α) (pos : Nat) (c : α) (cs : List α) (h : data.drop pos = c :: cs) :
    data.drop (pos + 1) = cs ∧ pos < data.length := by
  constructor
  · have : (data.drop pos).drop 1 = data.drop (pos + 1) := List.drop_drop
    rw [← this, h]; rfl
  · have hl : (data.drop pos).length = data.length - pos := List.length_drop
    rw [h] at hl
    simp only [List.length_cons] at hl
    omega

theorem quoteAt_none (c : Char) (l : List Char) (h : isQuote c = false) : quoteAt (c :: l) = none := by
  unfold isQuote at h
  unfold quoteAt
  split <;> simp_all

theorem quoteAt_length (l q : List Char) (h : quoteAt l = some q) : 1 ≤ q.length := by
  unfold quoteAt at h
  split at h <;> cases h <;> simp

/-- an end the scanner reports lies at least two characters after the position it scanned from, inside the text, and
    the two characters before it are `}}` -/
theorem scanEnd_some (data : List Char) : ∀ (fuel pos depth e : Nat), scanEnd data fuel pos depth = some e →
    pos + 2 ≤ e ∧ e ≤ data.length ∧ (data.drop (e - 2)).take 2 = ['}', '}']
  | 0, _, _, _, h => by cases h
  | fuel + 1, pos, depth, e, h => by
    unfold scanEnd at h
    split at h
    · cases h
    · rename_i c cs hd
      split at h
      · rename_i q hq
        have hq1 := quoteAt_length _ _ hq
        have hs := skipString_ge q ((c :: cs).drop q.length) (pos + q.length)
        have ih := scanEnd_some data fuel _ depth e h
        exact ⟨by omega, ih.2⟩
      · split at h
        · have ih := scanEnd_some data fuel _ _ e h
          exact ⟨by omega, ih.2⟩
        · split at h
          · split at h
            · split at h
              · rename_i ht
                cases h
                have hl : ((c :: cs).take 2).length = 2 := by rw [ht]; rfl
                rw [← hd, List.length_take, List.length_drop] at hl
                refine ⟨Nat.le_refl _, by omega, ?_⟩
                have : pos + 2 - 2 = pos := by omega
                rw [this, hd]; exact ht
              · cases h
            · have ih := scanEnd_some data fuel _ _ e h
              exact ⟨by omega, ih.2⟩
          · have ih := scanEnd_some data fuel _ _ e h
            exact ⟨by omega, ih.2⟩

/-- every turn moves `pos` forward: any fuel above `len(data) - pos` gives the same answer -/
theorem scanEnd_fuel (data : List Char) : ∀ (f1 f2 pos depth : Nat), data.length < f1 + pos → data.length < f2 + pos →
    scanEnd data f1 pos depth = scanEnd data f2 pos depth
  | 0, 0, _, _, _, _ => rfl
  | 0, f2 + 1, pos, depth, h1, _ => by
    have : data.drop pos = [] := List.drop_of_length_le (by omega)
    simp [scanEnd, this]
  | f1 + 1, 0, pos, depth, _, h2 => by
    have : data.drop pos = [] := List.drop_of_length_le (by omega)
    simp [scanEnd, this]
  | f1 + 1, f2 + 1, pos, depth, h1, h2 => by
    unfold scanEnd
    split
    · rfl
    · rename_i c cs hd
      have hp := (drop_succ_of_cons data pos c cs hd).2
      split
      · rename_i q hq
        have hq1 := quoteAt_length _ _ hq
        have hs := skipString_ge q ((c :: cs).drop q.length) (pos + q.length)
        exact scanEnd_fuel data f1 f2 _ depth (by omega) (by omega)
      · split
        · exact scanEnd_fuel data f1 f2 _ _ (by omega) (by omega)
        · split
          · split
            · rfl
            · exact scanEnd_fuel data f1 f2 _ _ (by omega) (by omega)
          · exact scanEnd_fuel data f1 f2 _ _ (by omega) (by omega)

/-- over plain characters the scanner walks up to the first closer at depth 0 -/
theorem scanEnd_plain (data : List Char) : ∀ (mid rest : List Char) (fuel pos : Nat),
    data.drop pos = mid ++ rest → (∀ c ∈ mid, plainChar c = true) → mid.length ≤ fuel →
    scanEnd data (fuel + 1) pos 0 = scanEnd data (fuel + 1 - mid.length) (pos + mid.length) 0
  | [], rest, fuel, pos, _, _, _ => rfl
  | c :: m, rest, 0, pos, _, _, hf => by simp at hf
  | c :: m, rest, fuel + 1, pos, hd, hm, hf => by
    have hc := hm c (List.mem_cons_self ..)
    unfold plainChar at hc
    simp only [Bool.and_eq_true, Bool.not_eq_true'] at hc
    have hd' : data.drop pos = c :: (m ++ rest) := hd
    have hn := (drop_succ_of_cons data pos c _ hd').1
    have ih := scanEnd_plain data m rest fuel (pos + 1) hn (fun x hx => hm x (List.mem_cons_of_mem _ hx))
      (by simp only [List.length_cons] at hf; omega)
    rw [scanEnd, hd']
    simp only [quoteAt_none c _ hc.1.1, hc.1.2, hc.2, Bool.false_eq_true, if_false]
    rw [ih]
    simp only [List.length_cons]
    have e1 : fuel + 1 - m.length = fuel + 1 + 1 - (m.length + 1) := by omega
    have e2 : pos + 1 + m.length = pos + (m.length + 1) := by omega
    rw [e1, e2]

end AY.MetaText
