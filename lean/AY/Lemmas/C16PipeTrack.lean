/-
  AY.Lemmas.C16PipeTrack — ONE operator among ANY number of operators of a stage (`opsStage`): what the
  pre-merge pass does at its path (`Track`): the operators written before it change the accumulated tree only
  at their touched paths (`B`), the operator runs on that tree, the operators after it change what it leaves
  only at their touched paths (`A`), and the stage holds the operator's result at its path.
  Helpers for AY.Props.C16_Pipeline.
-/
import AY.Lemmas.C16PipeFinal
namespace AY.C16P
open AY.C04P
open AY.C07P (opFree opFreeL premergeF_opFree)

/-! ### operators do not look at the fuel -/

theorem op_fuel (fl : Nat) (op : Node) (path : Path) (into : Option Node) (h : isOp op = true) :
    premergeF (fl + 1) op path into = premergeF 1 op path into := by
  cases op with
  | leaf f lk =>
    cases lk <;> first | (simp [isOp] at h; done) | simp only [premergeF]
  | comp f ck cs =>
    cases ck <;> first | (simp [isOp] at h; done) | simp only [premergeF]

/-! ### an operator-free tree holds no operator -/

theorem opFreeL_alookup {k : Key} {c : Node} : ∀ {cs : List (Key × Node)}, opFreeL cs = true →
    alookup k cs = some c → opFree c = true
  | [], _, h => by simp [alookup] at h
  | (k0, c0) :: rest, hf, h => by
    simp only [opFreeL, Bool.and_eq_true] at hf
    by_cases e : k0 = k
    · simp only [alookup, e, if_true, Option.some.injEq] at h
      subst h; exact hf.1
    · simp only [alookup, e, if_false] at h
      exact opFreeL_alookup hf.2 h

theorem opFree_getNode : ∀ (p : Path) (c m : Node), opFree c = true → getNode c p = some m → opFree m = true
  | [], c, m, hf, h => by
    simp only [getNode, Option.some.injEq] at h
    subst h; exact hf
  | k :: p, .leaf .., m, _, h => by simp [getNode] at h
  | k :: p, .comp f ck cs, m, hf, h => by
    obtain ⟨c, hl, hg⟩ := getNode_cons_dict h
    simp only [opFree, Bool.and_eq_true] at hf
    exact opFree_getNode p c m (opFreeL_alookup hf.2 hl) hg

theorem not_opFree_of_isOp {op : Node} (h : isOp op = true) : opFree op = false := by
  cases op with
  | leaf f lk => cases lk <;> first | (simp [isOp] at h; done) | rfl
  | comp f ck cs => cases ck <;> first | (simp [isOp] at h; done) | simp [opFree]

/-! ### one entry of a stage mapping -/

/-- what the pre-merge of one entry does to the accumulated tree -/
theorem child_step (fuel : Nat) (c : Node) (path : Path) (s c1 : Node) (sm : Bool) (into1 : Option Node)
    (hc : (isOp c || opFree c || opsStage c) = true) (hd : c.depth < fuel)
    (h : premergeF fuel c path (some s) = .ok (c1, sm, into1)) :
    ∃ s1, into1 = some s1 ∧ Frame s s1 (touched path c) := by
  by_cases hop : isOp c = true
  · cases fuel with
    | zero => omega
    | succ fl =>
      obtain ⟨s1, e1, _, e3⟩ := op_frame fl c _ s c1 sm into1 hop h
      exact ⟨s1, e1, e3⟩
  · by_cases hfree : opFree c = true
    · rw [premergeF_opFree fuel c _ (some s) hfree hd] at h
      simp only [Except.ok.injEq, Prod.mk.injEq] at h
      exact ⟨s, h.2.2.symm, frame_refl s _⟩
    · have hst : opsStage c = true := by
        simp only [Bool.or_eq_true] at hc
        rcases hc with (h1 | h1) | h1
        · exact absurd h1 hop
        · exact absurd h1 hfree
        · exact h1
      obtain ⟨s1, e1, _, e3, _⟩ := premerge_ops_frame fuel c _ s c1 sm into1 hst hd h
      exact ⟨s1, e1, e3⟩

/-! ### the designated operator -/

/-- what the pre-merge pass of the stage `n` (absolute path `pre`, accumulated tree `s` before, `s'` after,
    stage `n'` after) does at the operator `op` found at the relative path `x` -/
def Track (pre : Path) (s s' n n' : Node) (x : Path) (op : Node) : Prop :=
  ∃ (B A : List Path) (s_at v s_after : Node),
    touched pre n = B ++ touched (pre ++ x) op ++ A ∧
    Frame s s_at B ∧
    premergeF 1 op (pre ++ x) (some s_at) = .ok (v, false, some s_after) ∧
    Frame s_after s' A ∧
    getNode n' x = some (adopt (parentFlags x n) .dict v) ∧
    liveAlong x n' = true

theorem children_track (f : Flags) (pre : Path) (fuel : Nat)
    (IH : ∀ (n : Node) (pre : Path) (s n' : Node) (b : Bool) (s' : Node), opsStage n = true → n.depth < fuel →
      premergeF fuel n pre (some s) = .ok (n', b, some s') →
      ∀ x op, x ≠ [] → liveAlong x n = true → getNode n x = some op → isOp op = true → Track pre s s' n n' x op) :
    ∀ (cs : List (Key × Node)) (s : Node) (cs' rs : List (Key × Node)) (s' : Node),
      keysNodup cs = true → opsStageL cs = true → depthList cs < fuel →
      premergeChildren (premergeF fuel) pre cs (some s) = .ok (cs', rs, some s') →
      ∀ (k0 : Key) (c0 : Node) (x' : Path) (op : Node), alookup k0 cs = some c0 → liveAlong x' c0 = true →
        getNode c0 x' = some op → isOp op = true →
        ∃ (B A : List Path) (s_at v s_after cfin : Node),
          touchedL pre cs = B ++ touched (pre ++ k0 :: x') op ++ A ∧ Frame s s_at B ∧
          premergeF 1 op (pre ++ k0 :: x') (some s_at) = .ok (v, false, some s_after) ∧ Frame s_after s' A ∧
          alookup k0 (applyD f rs cs') = some cfin ∧ (x' = [] → cfin = adopt f .dict v) ∧
          (x' ≠ [] → getNode cfin x' = some (adopt (parentFlags x' c0) .dict v) ∧ liveAlong x' cfin = true)
  | [], _, _, _, _, _, _, _, _, k0, c0, _, _, hl, _, _, _ => by simp [alookup] at hl
  | (k, c) :: rest, s, cs', rs, s', hn, hops, hd, h, k0, c0, x', op, hl, hlive, hg, hisop => by
    have hn' : k ∉ akeys rest ∧ keysNodup rest = true := by simpa [keysNodup] using hn
    have hops' : (isOp c || opFree c || opsStage c) = true ∧ opsStageL rest = true := by
      simpa [opsStageL] using hops
    have hd' : c.depth < fuel ∧ depthList rest < fuel := by simp only [depthList] at hd; omega
    simp only [premergeChildren] at h
    cases hrec : premergeF fuel c (pre ++ [k]) (some s) with
    | error e => simp [hrec] at h
    | ok res =>
      obtain ⟨c1, sm, into1⟩ := res
      obtain ⟨s1, rfl, hf1⟩ := child_step fuel c _ s c1 sm into1 hops'.1 hd'.1 hrec
      simp only [hrec] at h
      cases hrest : premergeChildren (premergeF fuel) pre rest (some s1) with
      | error e => simp [hrest] at h
      | ok res2 =>
        obtain ⟨rcs', rrs, into2⟩ := res2
        obtain ⟨s2, rfl, hf2, _, hkeys⟩ := children_frame f pre fuel
          (fun n pre s n' b into' h1 h2 h3 => premerge_ops_frame fuel n pre s n' b into' h1 h2 h3)
          rest s1 rcs' rrs into2 hn'.2 hops'.2 hd'.2 hrest
        have hknot : k ∉ akeys rrs := fun hk => hn'.1 (hkeys k hk)
        simp only [hrest] at h
        have hs2 : s2 = s' := by cases sm <;> simp at h <;> exact h.2.2
        subst hs2
        have hfin : applyD f rs cs' = (k, if sm then c1 else adopt f .dict c1) :: applyD f rrs rcs' := by
          cases sm with
          | true =>
            simp only [if_true, Except.ok.injEq, Prod.mk.injEq] at h
            obtain ⟨rfl, rfl, _⟩ := h
            exact applyD_cons_notin f k c1 rrs rcs' hknot
          | false =>
            simp only [Bool.false_eq_true, if_false, Except.ok.injEq, Prod.mk.injEq] at h
            obtain ⟨rfl, rfl, _⟩ := h
            exact applyD_cons_self f k c c1 rrs rcs' hknot
        by_cases e : k = k0
        · -- the designated entry is this one
          subst e
          simp only [alookup, if_true, Option.some.injEq] at hl
          subst hl
          cases x' with
          | nil =>
            simp only [getNode, Option.some.injEq] at hg
            subst hg
            cases fuel with
            | zero => omega
            | succ fl =>
              obtain ⟨s1', e1, e2, _⟩ := op_frame fl c _ s c1 sm (some s1) hisop hrec
              subst e2
              refine ⟨[], touchedL pre rest, s, c1, s1, adopt f .dict c1, by simp [touchedL], frame_refl s _, ?_,
                hf2, by simp [hfin, alookup], fun _ => rfl, fun hne => absurd rfl hne⟩
              rw [← op_fuel fl c _ _ hisop]
              exact hrec
          | cons k1 q =>
            -- the entry is a mapping that holds the operator further down
            obtain ⟨cf, ccs, rfl, _, _, _⟩ := liveAlong_cons hlive
            have hst : opsStage (.comp cf .dict ccs) = true := by
              have hnf : opFree (.comp cf .dict ccs) = false := by
                cases hfr : opFree (.comp cf .dict ccs) with
                | false => rfl
                | true =>
                  have := opFree_getNode _ _ _ hfr hg
                  rw [not_opFree_of_isOp hisop] at this
                  cases this
              simpa [isOp, hnf] using hops'.1
            obtain ⟨_, _, hsm, _, _⟩ := premerge_ops_frame fuel _ _ s c1 sm (some s1) hst hd'.1 hrec
            subst hsm
            obtain ⟨B, A, s_at, v, s_after, t1, t2, t3, t4, t5, t6⟩ :=
              IH _ (pre ++ [k]) s c1 true s1 hst hd'.1 hrec (k1 :: q) op (by simp) hlive hg hisop
            refine ⟨B, A ++ touchedL pre rest, s_at, v, s_after, c1, ?_, t2, ?_, frame_trans t4 hf2,
              by simp [hfin, alookup], (fun hne => by cases hne), fun _ => ⟨t5, t6⟩⟩
            · simp [touchedL, t1, List.append_assoc]
            · simpa [List.append_assoc] using t3
        · -- the designated entry comes later
          simp only [alookup, e, if_false] at hl
          obtain ⟨B, A, s_at, v, s_after, cfin, t1, t2, t3, t4, t5, t6, t7⟩ :=
            children_track f pre fuel IH rest s1 rcs' rrs s2 hn'.2 hops'.2 hd'.2 hrest k0 c0 x' op hl hlive hg hisop
          refine ⟨touched (pre ++ [k]) c ++ B, A, s_at, v, s_after, cfin, ?_, frame_trans hf1 t2, t3, t4,
            by simp [hfin, alookup, e, t5], t6, t7⟩
          simp only [touchedL, t1, List.append_assoc]

/-- THE PRE-MERGE PASS AT ONE OPERATOR among any number of operators -/
theorem premerge_ops_track : ∀ (fuel : Nat) (n : Node) (pre : Path) (s n' : Node) (b : Bool) (s' : Node),
    opsStage n = true → n.depth < fuel → premergeF fuel n pre (some s) = .ok (n', b, some s') →
    ∀ x op, x ≠ [] → liveAlong x n = true → getNode n x = some op → isOp op = true → Track pre s s' n n' x op := by
  intro fuel
  induction fuel with
  | zero => intro n _ _ _ _ _ _ hd; omega
  | succ fuel ih =>
    intro n pre s n' b s' hst hd h x op hx hlive hg hisop
    obtain ⟨f, cs, rfl, hdel, hn, hcs⟩ := opsStage_comp hst
    have hdl : depthList cs < fuel := by simp only [Node.depth] at hd; omega
    rw [premergeF_dict] at h
    cases hch : premergeChildren (premergeF fuel) pre cs (some s) with
    | error e => simp [hch] at h
    | ok res =>
      obtain ⟨cs', rs, into1⟩ := res
      obtain ⟨s1, rfl, _, hshL, _⟩ := children_frame f pre fuel
        (fun n pre s n' b into' h1 h2 h3 => premerge_ops_frame fuel n pre s n' b into' h1 h2 h3)
        cs s cs' rs into1 hn hcs hdl hch
      simp only [hch, applyResets_dict, Except.ok.injEq, Prod.mk.injEq, Option.some.injEq] at h
      obtain ⟨rfl, rfl, rfl⟩ := h
      cases x with
      | nil => exact absurd rfl hx
      | cons k0 x' =>
        obtain ⟨c0, hl, hgc⟩ := getNode_cons_dict hg
        obtain ⟨_, _, hsh, _, _, hcc⟩ := liveAlong_cons hlive
        injection hsh with h1 _ h3
        subst h1; subst h3
        obtain ⟨B, A, s_at, v, s_after, cfin, t1, t2, t3, t4, t5, t6, t7⟩ :=
          children_track f pre fuel ih cs s cs' rs s1 hn hcs hdl hch k0 c0 x' op hl (hcc c0 hl) hgc hisop
        have hdel' : eDel (.comp f .dict (applyD f rs cs')) = false := hdel
        have hn' : keysNodup (applyD f rs cs') = true := by
          rw [keysNodup_of_akeys_eq _ cs hshL.1]; exact hn
        refine ⟨B, A, s_at, v, s_after, by simpa [touched] using t1, t2, t3, t4, ?_, ?_⟩
        · cases x' with
          | nil => simp [getNode, t5, t6 rfl, parentFlags, Node.flags]
          | cons k1 q =>
            simp only [getNode, t5, parentFlags, hl]
            exact (t7 (by simp)).1
        · simp only [liveAlong, hdel', hn', t5, Bool.not_false, Bool.true_and]
          cases x' with
          | nil => rfl
          | cons k1 q => exact (t7 (by simp)).2

/-! ### the last stage -/

/-- a node whose data is a list is a list-family container -/
theorem comp_of_native_list {m : Node} {L : List Plain} (h : native m = .list L) :
    ∃ tf tk tcs, m = .comp tf tk tcs ∧ tk.isListFam = true ∧ nativeVals tcs = L := by
  cases m with
  | leaf f lk => cases lk <;> simp [native] at h
  | comp tf tk tcs =>
    cases hd : tk.isDictFam with
    | true => simp [native, hd] at h
    | false =>
      simp only [native, hd, Bool.false_eq_true, if_false, Plain.list.injEq] at h
      exact ⟨tf, tk, tcs, rfl, by simp [CompKind.isListFam, hd], h⟩

/-- data found along mappings comes from a node -/
theorem getNode_of_at : ∀ (q : Path) (n : Node) (v : Plain), dictAlong q n = true → (native n).at? q = some v →
    ∃ m, getNode n q = some m ∧ native m = v
  | [], n, v, _, h => by
    simp only [Plain.at?, Option.some.injEq] at h
    exact ⟨n, rfl, h⟩
  | k :: q, n, v, hd, h => by
    obtain ⟨f, cs, rfl, _, hc⟩ := dictAlong_cons hd
    rw [at_native_dict] at h
    cases hl : alookup k cs with
    | none => simp [hl] at h
    | some c =>
      rw [hl] at h
      simp only [Option.map_some, Option.bind_some] at h
      obtain ⟨m, hm, hv⟩ := getNode_of_at q c v (hc c hl) h
      exact ⟨m, by simp [getNode, hl, hm], hv⟩

/-- the other touched paths: every touched path except the operator's own -/
theorem mem_others {X : Path} {B A : List Path} {T : List Path} (hT : T = B ++ [X] ++ A)
    (hI : ∀ y, y ∈ T.erase X → indep X y = true) : ∀ y, y ∈ B ++ A → indep X y = true := by
  intro y hy
  by_cases hXB : X ∈ B
  · -- then the own entry survives the `erase`, and `indep X X` is false: the hypothesis is contradictory
    have : X ∈ T.erase X := by
      rw [hT, List.append_assoc, List.erase_append_left _ hXB]
      simp
    have := hI X this
    have hself : X.isPrefixOf X = true := List.isPrefixOf_iff_prefix.2 (List.prefix_refl X)
    simp [indep, hself] at this
  · apply hI y
    rw [hT, List.append_assoc, List.erase_append_right _ hXB]
    simpa using hy

/-- THE LAST STAGE, ONE OPERATOR AMONG OTHERS: the pre-merge pass and the merge, seen from the operator `op`
    at `x` of the last stage `o` -/
theorem ops_track_last (xs : List Node) (o s r : Node) (x : Path) (op : Node) (hx : xs ≠ [])
    (hs : flattenWith (premergeF (stagesFuel (xs ++ [o]))) xs = .ok s)
    (hst : opsStage o = true) (hbuild : flatten (xs ++ [o]) = .ok r)
    (hxne : x ≠ []) (hlive : liveAlong x o = true) (hg : getNode o x = some op) (hisop : isOp op = true) :
    ∃ (s' o' : Node) (bb : Bool), Track [] s s' o o' x op ∧ mergeF (o'.depth + 1) s' o' = .ok (r, bb) := by
  simp only [flatten] at hbuild
  rw [flattenWith_append_eq xs [o] hx (by simp [isDict_of_opsStage hst]) s hs] at hbuild
  simp only [flattenLoop] at hbuild
  cases hp : premergeF (stagesFuel (xs ++ [o])) o [] (some s) with
  | error e => simp [hp] at hbuild
  | ok res =>
    obtain ⟨o', b, into'⟩ := res
    obtain ⟨s', rfl, _, _, _⟩ := premerge_ops_frame _ o [] s o' b into' hst (depth_lt_fuel_last xs o) hp
    simp only [hp] at hbuild
    cases hm : merge s' o' with
    | error e => simp [hm] at hbuild
    | ok r1 =>
      simp only [hm, Except.ok.injEq] at hbuild
      subst hbuild
      obtain ⟨bb, hmf⟩ := merge_ok hm
      exact ⟨s', o', bb, premerge_ops_track _ o [] s o' b s' hst (depth_lt_fuel_last xs o) hp x op hxne hlive hg hisop, hmf⟩

end AY.C16P
