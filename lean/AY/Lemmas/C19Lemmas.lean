/-
  AY.Lemmas.C19Lemmas — helper lemmas for AY.Props.C19 (copy protocol, flag consistency).
-/
import AY.Model.Copy
import AY.Model.Construct
namespace AY

/-! ### flag bookkeeping -/

theorem childFlagsOK_iff (kw : ChildKw) (f : Flags) :
    childFlagsOK kw f = true ↔ f.iDel = kw.iDel ∧ f.iNew = kw.iNew ∧ (f.iSafe = kw.iSafe ∨ f.iSafe = some false) := by
  simp [childFlagsOK, and_assoc]

theorem updFlags_of_ok {kw : ChildKw} {f : Flags} (h : childFlagsOK kw f = true) : updFlags kw f = f := by
  rcases (childFlagsOK_iff kw f).1 h with ⟨h1, h2, h3⟩
  cases f with
  | mk prio del new safe iDel iNew iSafe dSafe md src =>
    simp only [updFlags] at *
    subst h1; subst h2
    rcases h3 with h3 | h3
    · subst h3; split <;> simp_all
    · subst h3; simp

theorem flagsChanged_of_ok {kw : ChildKw} {f : Flags} (h : childFlagsOK kw f = true) : flagsChanged kw f = false := by
  rcases (childFlagsOK_iff kw f).1 h with ⟨h1, h2, h3⟩
  simp only [flagsChanged, h1, h2]
  rcases h3 with h3 | h3 <;> simp [h3]

theorem childFlagsOK_updFlags (kw : ChildKw) (f : Flags) : childFlagsOK kw (updFlags kw f) = true := by
  simp only [childFlagsOK, updFlags]
  split <;> simp_all

theorem childFlagsOK_of_not_changed {kw : ChildKw} {f : Flags} (h : flagsChanged kw f = false) :
    childFlagsOK kw f = true := by
  simp only [flagsChanged, Bool.or_eq_false_iff, Bool.and_eq_false_iff, bne_eq_false_iff_eq] at h
  rw [childFlagsOK_iff]
  refine ⟨h.1.1, h.1.2, ?_⟩
  rcases h.2 with h2 | h2
  · exact Or.inl (by simpa using h2)
  · exact Or.inr (by simpa using h2)

theorem applyKw_id {kw : ChildKw} {c : Node} (h : childFlagsOK kw c.flags = true) : applyKw kw c = c := by
  cases c with
  | leaf f k => simp only [Node.flags] at h; simp [applyKw, updFlags_of_ok h]
  | comp f k cs => simp only [Node.flags] at h; simp [applyKw, flagsChanged_of_ok h]

theorem consistentList_cons (kw : Option ChildKw) (key : Key) (c : Node) (rest : List (Key × Node)) :
    consistentList kw ((key, c) :: rest) = true ↔
      (∀ kw', kw = some kw' → childFlagsOK kw' c.flags = true) ∧ FlagsConsistent c = true ∧ consistentList kw rest = true := by
  cases kw <;> simp [consistentList, and_assoc]

theorem applyKwList_id {kw : ChildKw} : ∀ {cs : List (Key × Node)},
    consistentList (some kw) cs = true → applyKwList kw cs = cs
  | [], _ => by simp [applyKwList]
  | (key, c) :: rest, h => by
    rw [consistentList_cons] at h
    simp [applyKwList, applyKw_id (h.1 kw rfl), applyKwList_id h.2.2]

theorem propagate_id {n : Node} (h : FlagsConsistent n = true) : propagate n = n := by
  cases n with
  | leaf f k => rfl
  | comp f k cs =>
    simp only [FlagsConsistent] at h
    simp only [propagate]
    cases hk : childKw f k with
    | none => rfl
    | some kw => rw [hk] at h; simp [applyKwList_id h]

theorem setFlags_flags (n : Node) : n.setFlags n.flags = n := by
  cases n <;> rfl

theorem adopt_id {pf : Flags} {pk : CompKind} {v : Node} (hc : FlagsConsistent v = true)
    (hk : ∀ kw, childKw pf pk = some kw → childFlagsOK kw v.flags = true) : adopt pf pk v = v := by
  simp only [adopt, inheritInto]
  cases h : childKw pf pk with
  | none => simp [propagate_id hc]
  | some kw =>
    simp [updFlags_of_ok (hk kw h), setFlags_flags, propagate_id hc]

theorem consistentList_weaken {kw : Option ChildKw} : ∀ {cs : List (Key × Node)},
    consistentList kw cs = true → allConsistent cs = true
  | [], _ => by simp [allConsistent, consistentList]
  | (key, c) :: rest, h => by
    rw [consistentList_cons] at h
    have := consistentList_weaken h.2.2
    simp only [allConsistent] at this ⊢
    rw [consistentList_cons]
    exact ⟨by simp, h.2.1, this⟩

theorem consistentBelow_of_consistent {n : Node} (h : FlagsConsistent n = true) : ConsistentBelow n = true := by
  cases n with
  | leaf f k => rfl
  | comp f k cs => simp only [FlagsConsistent] at h; exact consistentList_weaken h

/-! ### keys -/

theorem keyFresh_append (k : Key) : ∀ (a b : List (Key × Node)),
    keyFresh k (a ++ b) = (keyFresh k a && keyFresh k b)
  | [], b => by simp [keyFresh]
  | (k', v) :: a, b => by simp [keyFresh, keyFresh_append k a b, Bool.and_assoc]

theorem aset_fresh {key : Key} {v : Node} : ∀ {acc : List (Key × Node)},
    keyFresh key acc = true → aset key v acc = acc ++ [(key, v)]
  | [], _ => by simp [aset]
  | (k', v') :: acc, h => by
    simp only [keyFresh, Bool.and_eq_true, bne_iff_ne, ne_eq] at h
    simp [aset, h.1, aset_fresh h.2]

theorem keysNodup_append_cons {key : Key} {c : Node} {rest : List (Key × Node)} :
    ∀ {acc : List (Key × Node)}, keysNodup (acc ++ (key, c) :: rest) = true → keyFresh key acc = true
  | [], _ => by simp [keyFresh]
  | (k', v') :: acc, h => by
    simp only [List.cons_append, keysNodup, Bool.and_eq_true, keyFresh_append, keyFresh, bne_iff_ne, ne_eq] at h
    simp only [keyFresh, Bool.and_eq_true, bne_iff_ne, ne_eq]
    exact ⟨fun e => h.1.2.1 e.symm, keysNodup_append_cons h.2⟩

/-! ### deepcopy / pickle are the identity on consistent, well-keyed trees -/

mutual
theorem copy_id : ∀ (n : Node), FlagsConsistent n = true → WellKeyed n = true →
    reconstructCopy (reduceNode n) = n
  | .leaf f k, _, _ => by simp [reduceNode, reconstructCopy]
  | .comp f k cs, hc, hw => by
    simp only [FlagsConsistent] at hc
    simp only [WellKeyed, Bool.and_eq_true] at hw
    by_cases hd : k.isDictFam = true
    · simp only [hd, if_true] at hw
      simp only [reduceNode, hd, if_true, reconstructCopy]
      rw [copySet_id f k cs [] hc (by simpa using hw.1) hw.2]; simp
    · have hd' : k.isDictFam = false := by simpa using hd
      simp only [hd', Bool.false_eq_true, ↓reduceIte] at hw
      simp only [reduceNode, hd', Bool.false_eq_true, ↓reduceIte, reconstructCopy]
      rw [copyAppend_id f k cs [] hc (by simpa using hw.1) hw.2]; simp
theorem copyAppend_id (st : Flags) (k : CompKind) : ∀ (cs acc : List (Key × Node)),
    consistentList (childKw st k) cs = true → numberedFrom acc.length cs = true → wellKeyedList cs = true →
    copyAppend st k (reduceValues cs) acc = acc ++ cs
  | [], acc, _, _, _ => by simp [reduceValues, copyAppend]
  | (key, c) :: rest, acc, hc, hn, hw => by
    rw [consistentList_cons] at hc
    simp only [numberedFrom, Bool.and_eq_true, beq_iff_eq] at hn
    simp only [wellKeyedList, Bool.and_eq_true] at hw
    simp only [reduceValues, copyAppend, appendChild]
    rw [copy_id c hc.2.1 hw.1, adopt_id hc.2.1 hc.1]
    have hlen : (acc ++ [(Key.int acc.length, c)]).length = acc.length + 1 := by simp
    rw [copyAppend_id st k rest _ hc.2.2 (by rw [hlen]; exact hn.2) hw.2, ← hn.1]
    simp
theorem copySet_id (st : Flags) (k : CompKind) : ∀ (cs acc : List (Key × Node)),
    consistentList (childKw st k) cs = true → keysNodup (acc ++ cs) = true → wellKeyedList cs = true →
    copySetItems st k (reduceItems cs) acc = acc ++ cs
  | [], acc, _, _, _ => by simp [reduceItems, copySetItems]
  | (key, c) :: rest, acc, hc, hn, hw => by
    rw [consistentList_cons] at hc
    simp only [wellKeyedList, Bool.and_eq_true] at hw
    simp only [reduceItems, copySetItems, setItemChild]
    rw [copy_id c hc.2.1 hw.1, adopt_id hc.2.1 hc.1, aset_fresh (keysNodup_append_cons hn)]
    rw [copySet_id st k rest _ hc.2.2 (by simpa using hn) hw.2]
    simp
end

mutual
theorem pickle_id : ∀ (n : Node), ConsistentBelow n = true → WellKeyed n = true →
    reconstructPickle (reduceNode n) = n
  | .leaf f k, _, _ => by simp [reduceNode, reconstructPickle]
  | .comp f k cs, hc, hw => by
    simp only [ConsistentBelow] at hc
    simp only [WellKeyed, Bool.and_eq_true] at hw
    by_cases hd : k.isDictFam = true
    · simp only [hd, if_true] at hw
      simp only [reduceNode, hd, if_true, reconstructPickle]
      rw [pickleSet_id cs [] hc (by simpa using hw.1) hw.2]; simp
    · have hd' : k.isDictFam = false := by simpa using hd
      simp only [hd', Bool.false_eq_true, ↓reduceIte] at hw
      simp only [reduceNode, hd', Bool.false_eq_true, ↓reduceIte, reconstructPickle]
      rw [pickleAppend_id cs [] hc (by simpa using hw.1) hw.2]; simp
theorem pickleAppend_id : ∀ (cs acc : List (Key × Node)),
    allConsistent cs = true → numberedFrom acc.length cs = true → wellKeyedList cs = true →
    pickleAppend (reduceValues cs) acc = acc ++ cs
  | [], acc, _, _, _ => by simp [reduceValues, pickleAppend]
  | (key, c) :: rest, acc, hc, hn, hw => by
    simp only [allConsistent] at hc
    rw [consistentList_cons] at hc
    simp only [numberedFrom, Bool.and_eq_true, beq_iff_eq] at hn
    simp only [wellKeyedList, Bool.and_eq_true] at hw
    simp only [reduceValues, pickleAppend, bareAdopt]
    rw [pickle_id c (consistentBelow_of_consistent hc.2.1) hw.1, propagate_id hc.2.1]
    have hlen : (acc ++ [(Key.int acc.length, c)]).length = acc.length + 1 := by simp
    rw [pickleAppend_id rest _ hc.2.2 (by rw [hlen]; exact hn.2) hw.2, ← hn.1]
    simp
theorem pickleSet_id : ∀ (cs acc : List (Key × Node)),
    allConsistent cs = true → keysNodup (acc ++ cs) = true → wellKeyedList cs = true →
    pickleSetItems (reduceItems cs) acc = acc ++ cs
  | [], acc, _, _, _ => by simp [reduceItems, pickleSetItems]
  | (key, c) :: rest, acc, hc, hn, hw => by
    simp only [allConsistent] at hc
    rw [consistentList_cons] at hc
    simp only [wellKeyedList, Bool.and_eq_true] at hw
    simp only [reduceItems, pickleSetItems, bareAdopt]
    rw [pickle_id c (consistentBelow_of_consistent hc.2.1) hw.1, propagate_id hc.2.1,
      aset_fresh (keysNodup_append_cons hn)]
    rw [pickleSet_id rest _ hc.2.2 (by simpa using hn) hw.2]
    simp
end

/-! ### consistency is established by the flag-inheritance functions -/

theorem allConsistent_cons (key : Key) (c : Node) (rest : List (Key × Node)) :
    allConsistent ((key, c) :: rest) = true ↔ FlagsConsistent c = true ∧ allConsistent rest = true := by
  simp only [allConsistent]; rw [consistentList_cons]; simp

mutual
theorem applyKw_cons (kw : ChildKw) : ∀ (c : Node), FlagsConsistent c = true →
    FlagsConsistent (applyKw kw c) = true ∧ childFlagsOK kw (applyKw kw c).flags = true
  | .leaf f k, _ => by simp [applyKw, FlagsConsistent, Node.flags, childFlagsOK_updFlags]
  | .comp f k cs, h => by
    simp only [FlagsConsistent] at h
    have hall := consistentList_weaken h
    simp only [applyKw]
    by_cases hch : flagsChanged kw f = true
    · simp only [hch, if_true]
      cases hk : childKw (updFlags kw f) k with
      | none =>
        simp only [FlagsConsistent, hk, Node.flags, childFlagsOK_updFlags, and_true]
        exact hall
      | some kw' =>
        simp only [FlagsConsistent, hk, Node.flags, childFlagsOK_updFlags, and_true]
        exact applyKwList_cons kw' cs hall
    · have hch' : flagsChanged kw f = false := by simpa using hch
      simp only [hch', Bool.false_eq_true, if_false, FlagsConsistent, Node.flags]
      exact ⟨h, childFlagsOK_of_not_changed hch'⟩
theorem applyKwList_cons (kw : ChildKw) : ∀ (cs : List (Key × Node)), allConsistent cs = true →
    consistentList (some kw) (applyKwList kw cs) = true
  | [], _ => by simp [applyKwList, consistentList]
  | (key, c) :: rest, h => by
    rw [allConsistent_cons] at h
    simp only [applyKwList]
    rw [consistentList_cons]
    have hc := applyKw_cons kw c h.1
    exact ⟨fun kw' e => by cases e; exact hc.2, hc.1, applyKwList_cons kw rest h.2⟩
end

theorem propagate_flags (n : Node) : (propagate n).flags = n.flags := by
  cases n with
  | leaf f k => rfl
  | comp f k cs => simp only [propagate]; split <;> rfl

theorem propagate_cons {n : Node} (h : ConsistentBelow n = true) : FlagsConsistent (propagate n) = true := by
  cases n with
  | leaf f k => rfl
  | comp f k cs =>
    simp only [ConsistentBelow] at h
    simp only [propagate]
    cases hk : childKw f k with
    | none => simp only [FlagsConsistent, hk]; exact h
    | some kw => simp only [FlagsConsistent, hk]; exact applyKwList_cons kw cs h

theorem childKw_prio (f : Flags) (p : Option Int) (k : CompKind) : childKw { f with prio := p } k = childKw f k := by
  cases k <;> rfl

theorem setPrioAll_flagsOK (kw : ChildKw) (p : Int) (c : Node) :
    childFlagsOK kw (setPrioAll p c).flags = childFlagsOK kw c.flags := by
  cases c <;> simp [setPrioAll, Node.flags, childFlagsOK]

mutual
theorem setPrioAll_cons (p : Int) : ∀ (n : Node), FlagsConsistent (setPrioAll p n) = FlagsConsistent n
  | .leaf f k => by simp [setPrioAll, FlagsConsistent]
  | .comp f k cs => by
    simp only [setPrioAll, FlagsConsistent, childKw_prio]
    exact setPrioAllList_cons p (childKw f k) cs
theorem setPrioAllList_cons (p : Int) (kw : Option ChildKw) : ∀ (cs : List (Key × Node)),
    consistentList kw (setPrioAllList p cs) = consistentList kw cs
  | [] => by simp [setPrioAllList]
  | (key, c) :: rest => by
    simp only [setPrioAllList, consistentList, setPrioAll_cons p c, setPrioAllList_cons p kw rest]
    cases kw <;> simp [setPrioAll_flagsOK]
end

theorem consistentBelow_setFlags {n : Node} (f : Flags) (h : FlagsConsistent n = true) :
    ConsistentBelow (n.setFlags f) = true := by
  cases n with
  | leaf g k => rfl
  | comp g k cs => simp only [FlagsConsistent] at h; exact consistentList_weaken h

theorem setFlags_flags' (n : Node) (f : Flags) : (n.setFlags f).flags = f := by
  cases n <;> rfl

theorem inheritInto_cons (p? : Option Int) (kw? : Option ChildKw) {n : Node} (h : FlagsConsistent n = true) :
    FlagsConsistent (inheritInto p? kw? n) = true ∧
      ∀ kw, kw? = some kw → childFlagsOK kw (inheritInto p? kw? n).flags = true := by
  have h1 : FlagsConsistent (match p? with | some p => setPrioAll p n | none => n) = true := by
    cases p? with
    | none => exact h
    | some p => simp only [setPrioAll_cons]; exact h
  simp only [inheritInto]
  cases kw? with
  | none => exact ⟨h1, fun kw e => by cases e⟩
  | some kw =>
    refine ⟨propagate_cons (consistentBelow_setFlags _ h1), fun kw' e => ?_⟩
    cases e
    simp only [propagate_flags, setFlags_flags', childFlagsOK_updFlags]

theorem adopt_cons (pf : Flags) (pk : CompKind) {v : Node} (h : FlagsConsistent v = true) :
    FlagsConsistent (adopt pf pk v) = true ∧
      ∀ kw, childKw pf pk = some kw → childFlagsOK kw (adopt pf pk v).flags = true := by
  have hi := inheritInto_cons none (childKw pf pk) h
  simp only [adopt, propagate_id hi.1]
  exact hi

theorem initChildren_cons (f : Flags) (k : CompKind) (p? : Option Int) : ∀ (cs : List (Key × Node)),
    allConsistent cs = true → consistentList (childKw f k) (initChildren f k p? cs) = true
  | [], _ => by simp [initChildren, consistentList]
  | (key, c) :: rest, h => by
    rw [allConsistent_cons] at h
    have ih := initChildren_cons f k p? rest h.2
    simp only [initChildren, List.map_cons] at ih ⊢
    rw [consistentList_cons]
    have hc := inheritInto_cons p? (childKw f k) h.1
    exact ⟨hc.2, hc.1, ih⟩

theorem comp_init_cons (f : Flags) (k : CompKind) (p? : Option Int) {cs : List (Key × Node)}
    (h : allConsistent cs = true) : FlagsConsistent (.comp f k (initChildren f k p? cs)) = true := by
  simp only [FlagsConsistent]; exact initChildren_cons f k p? cs h

/-! ### the loader produces consistent trees -/

theorem wrapSeq_cons {env : Env} {t : TagKind} {kw : CtorKw} {cs : List (Key × Node)} {n : Node}
    (hc : allConsistent cs = true) (h : wrapSeq env t kw cs = .ok n) : FlagsConsistent n = true := by
  simp only [wrapSeq] at h
  split at h
  all_goals first
    | (cases h; exact comp_init_cons _ _ _ hc)
    | (split at h
       · cases h
       · cases h; exact comp_init_cons _ _ _ hc)
    | cases h

theorem wrapMap_cons {env : Env} {t : TagKind} {kw : CtorKw} {cs : List (Key × Node)} {n : Node}
    (hc : allConsistent cs = true) (h : wrapMap env t kw cs = .ok n) : FlagsConsistent n = true := by
  simp only [wrapMap] at h
  split at h
  all_goals first
    | (cases h; exact comp_init_cons _ _ _ hc)
    | (split at h
       · cases h
       · cases h; exact comp_init_cons _ _ _ hc)
    | cases h

theorem scalarAsItems_cons (env : Env) (v : RVal) : allConsistent (scalarAsItems env v) = true := by
  cases v <;> simp [scalarAsItems, allConsistent, consistentList, rawChild, FlagsConsistent]

theorem nil_cons : allConsistent [] = true := by simp [allConsistent, consistentList]

theorem wrapScalar_cons {env : Env} {t : TagKind} {kw : CtorKw} {v : RVal} {n : Node}
    (h : wrapScalar env t kw v = .ok n) : FlagsConsistent n = true := by
  simp only [wrapScalar] at h
  split at h
  all_goals first
    | (cases h; rfl)
    | exact wrapSeq_cons (scalarAsItems_cons _ _) h
    | (split at h
       all_goals first
         | (cases h; rfl)
         | cases h
         | exact wrapSeq_cons (scalarAsItems_cons _ _) h
         | exact wrapMap_cons (scalarAsItems_cons _ _) h
         | exact wrapSeq_cons nil_cons h
         | exact wrapMap_cons nil_cons h
         | (split at h
            · exact wrapSeq_cons (scalarAsItems_cons _ _) h
            · exact wrapSeq_cons nil_cons h))

mutual
theorem constructDeep_cons (env : Env) : ∀ (r : Raw) (n : Node),
    constructDeep env r = .ok n → FlagsConsistent n = true
  | .scalar t kw v, n, h => by
    simp only [constructDeep] at h
    exact wrapScalar_cons h
  | .seq t kw items, n, h => by
    simp only [constructDeep] at h
    split at h
    · cases h
    · rename_i cs hcs
      have hall := constructDeepList_cons env 0 items cs hcs
      split at h
      · split at h
        · cases h; rfl
        · cases h
      · exact wrapSeq_cons hall h
  | .map t kw items, n, h => by
    simp only [constructDeep] at h
    split at h
    · cases h
    · rename_i cs hcs
      exact wrapMap_cons (constructDeepMap_cons env items cs hcs) h
theorem constructDeepList_cons (env : Env) : ∀ (i : Nat) (items : List Raw) (cs : List (Key × Node)),
    constructDeepList env i items = .ok cs → allConsistent cs = true
  | _, [], cs, h => by simp only [constructDeepList] at h; cases h; exact nil_cons
  | i, r :: rest, cs, h => by
    simp only [constructDeepList] at h
    split at h
    · cases h
    · rename_i n hn
      split at h
      · cases h
      · rename_i ns hns
        cases h
        rw [allConsistent_cons]
        exact ⟨constructDeep_cons env r n hn, constructDeepList_cons env (i + 1) rest ns hns⟩
theorem constructDeepMap_cons (env : Env) : ∀ (items : List (Key × Raw)) (cs : List (Key × Node)),
    constructDeepMap env items = .ok cs → allConsistent cs = true
  | [], cs, h => by simp only [constructDeepMap] at h; cases h; exact nil_cons
  | (k, r) :: rest, cs, h => by
    simp only [constructDeepMap] at h
    split at h
    · cases h
    · rename_i n hn
      split at h
      · cases h
      · rename_i ns hns
        cases h
        rw [allConsistent_cons]
        exact ⟨constructDeep_cons env r n hn, constructDeepMap_cons env rest ns hns⟩
end

/-- the inherited flags of `n` are those prescribed by the (optional) parent -/
def ParentOK (parent : Option (Flags × CompKind)) (n : Node) : Prop :=
  ∀ pf pk kw, parent = some (pf, pk) → childKw pf pk = some kw → childFlagsOK kw n.flags = true

theorem adoptBy_cons (parent : Option (Flags × CompKind)) {n : Node} (h : FlagsConsistent n = true) :
    FlagsConsistent (adoptBy parent n) = true ∧ ParentOK parent (adoptBy parent n) := by
  cases parent with
  | none => exact ⟨h, fun pf pk kw e => by cases e⟩
  | some pr =>
    obtain ⟨pf, pk⟩ := pr
    have := adopt_cons pf pk h
    refine ⟨this.1, fun pf' pk' kw e hk => ?_⟩
    cases e
    exact this.2 kw hk

theorem aset_consistent {kw : Option ChildKw} {key : Key} {n : Node}
    (hn : FlagsConsistent n = true) (hk : ∀ kw', kw = some kw' → childFlagsOK kw' n.flags = true) :
    ∀ {acc : List (Key × Node)}, consistentList kw acc = true → consistentList kw (aset key n acc) = true
  | [], _ => by simp only [aset]; rw [consistentList_cons]; exact ⟨hk, hn, by simp [consistentList]⟩
  | (k', v') :: acc, h => by
    rw [consistentList_cons] at h
    simp only [aset]
    split
    · rw [consistentList_cons]; exact ⟨hk, hn, h.2.2⟩
    · rw [consistentList_cons]; exact ⟨h.1, h.2.1, aset_consistent hn hk h.2.2⟩

theorem parentOK_flags {parent : Option (Flags × CompKind)} {a b : Node} (e : a.flags = b.flags)
    (h : ParentOK parent a) : ParentOK parent b :=
  fun pf pk kw e1 e2 => by rw [← e]; exact h pf pk kw e1 e2

mutual
theorem constructTD_cons (env : Env) : ∀ (parent : Option (Flags × CompKind)) (r : Raw) (n : Node),
    constructTD env parent r = .ok n → FlagsConsistent n = true ∧ ParentOK parent n
  | parent, .scalar t kw v, n, h => by
    cases t
    case none =>
      simp only [constructTD] at h
      cases h
      exact adoptBy_cons parent rfl
    all_goals
      simp only [constructTD] at h
      split at h
      · cases h
      · rename_i m hm
        cases h
        exact adoptBy_cons parent (wrapScalar_cons hm)
  | parent, .seq t kw items, n, h => by
    cases t
    case none =>
      simp only [constructTD] at h
      have ha := adoptBy_cons parent (n := .comp (bareFlags env) .list []) rfl
      split at h
      · rename_i f k cs0 heq
        split at h
        · cases h
        · rename_i cs hcs
          cases h
          rw [heq] at ha
          refine ⟨?_, parentOK_flags rfl ha.2⟩
          simp only [FlagsConsistent]
          exact constructTDList_cons env f k 0 items cs hcs
      · cases h; exact ha
    all_goals
      simp only [constructTD] at h
      split at h
      · cases h
      · rename_i m hm
        cases h
        exact adoptBy_cons parent (constructDeep_cons env _ m hm)
  | parent, .map t kw items, n, h => by
    cases t
    case none =>
      simp only [constructTD] at h
      have ha := adoptBy_cons parent (n := .comp (bareFlags env) .dict []) rfl
      split at h
      · rename_i f k cs0 heq
        split at h
        · cases h
        · rename_i cs hcs
          cases h
          rw [heq] at ha
          refine ⟨?_, parentOK_flags rfl ha.2⟩
          simp only [FlagsConsistent]
          exact constructTDMap_cons env f k items [] cs (by simp [consistentList]) hcs
      · cases h; exact ha
    all_goals
      simp only [constructTD] at h
      split at h
      · cases h
      · rename_i m hm
        cases h
        exact adoptBy_cons parent (constructDeep_cons env _ m hm)
theorem constructTDList_cons (env : Env) (pf : Flags) (pk : CompKind) :
    ∀ (i : Nat) (items : List Raw) (cs : List (Key × Node)),
    constructTDList env pf pk i items = .ok cs → consistentList (childKw pf pk) cs = true
  | _, [], cs, h => by simp only [constructTDList] at h; cases h; simp [consistentList]
  | i, r :: rest, cs, h => by
    simp only [constructTDList] at h
    split at h
    · cases h
    · rename_i n hn
      split at h
      · cases h
      · rename_i ns hns
        cases h
        have hc := constructTD_cons env (some (pf, pk)) r n hn
        rw [consistentList_cons]
        exact ⟨fun kw e => hc.2 pf pk kw rfl e, hc.1, constructTDList_cons env pf pk (i + 1) rest ns hns⟩
theorem constructTDMap_cons (env : Env) (pf : Flags) (pk : CompKind) :
    ∀ (items : List (Key × Raw)) (acc cs : List (Key × Node)),
    consistentList (childKw pf pk) acc = true →
    constructTDMap env pf pk items acc = .ok cs → consistentList (childKw pf pk) cs = true
  | [], acc, cs, hacc, h => by simp only [constructTDMap] at h; cases h; exact hacc
  | (k, r) :: rest, acc, cs, hacc, h => by
    simp only [constructTDMap] at h
    split at h
    · cases h
    · rename_i n hn
      have hc := constructTD_cons env (some (pf, pk)) r n hn
      exact constructTDMap_cons env pf pk rest _ cs
        (aset_consistent hc.1 (fun kw e => hc.2 pf pk kw rfl e) hacc) h
end

/-! ### a deep copy is always consistent -/

theorem consistentList_snoc {kw : Option ChildKw} {key : Key} {n : Node}
    (hn : FlagsConsistent n = true) (hk : ∀ kw', kw = some kw' → childFlagsOK kw' n.flags = true) :
    ∀ {acc : List (Key × Node)}, consistentList kw acc = true → consistentList kw (acc ++ [(key, n)]) = true
  | [], _ => by simp only [List.nil_append]; rw [consistentList_cons]; exact ⟨hk, hn, by simp [consistentList]⟩
  | (k', v') :: acc, h => by
    rw [consistentList_cons] at h
    simp only [List.cons_append]
    rw [consistentList_cons]; exact ⟨h.1, h.2.1, consistentList_snoc hn hk h.2.2⟩

mutual
theorem reconstructCopy_cons : ∀ (r : Red), FlagsConsistent (reconstructCopy r) = true
  | .leaf st k => by simp [reconstructCopy, FlagsConsistent]
  | .compL st k items => by
    simp only [reconstructCopy, FlagsConsistent]
    exact copyAppend_cons st k items [] (by simp [consistentList])
  | .compD st k items => by
    simp only [reconstructCopy, FlagsConsistent]
    exact copySetItems_cons st k items [] (by simp [consistentList])
theorem copyAppend_cons (st : Flags) (k : CompKind) : ∀ (items : List Red) (acc : List (Key × Node)),
    consistentList (childKw st k) acc = true → consistentList (childKw st k) (copyAppend st k items acc) = true
  | [], acc, h => by simpa [copyAppend] using h
  | r :: rest, acc, h => by
    simp only [copyAppend, appendChild]
    have ha := adopt_cons st k (reconstructCopy_cons r)
    exact copyAppend_cons st k rest _ (consistentList_snoc ha.1 ha.2 h)
theorem copySetItems_cons (st : Flags) (k : CompKind) : ∀ (items : List (Key × Red)) (acc : List (Key × Node)),
    consistentList (childKw st k) acc = true → consistentList (childKw st k) (copySetItems st k items acc) = true
  | [], acc, h => by simpa [copySetItems] using h
  | (key, r) :: rest, acc, h => by
    simp only [copySetItems, setItemChild]
    have ha := adopt_cons st k (reconstructCopy_cons r)
    exact copySetItems_cons st k rest _ (aset_consistent ha.1 ha.2 h)
end

end AY
