/-
  AY.Lemmas.C15EmptyDS — an empty mapping document inserted anywhere into a sequence of dict-shaped
  documents (priority / metadata tags) leaves every leaf of the merged tree unchanged.
-/
import AY.Lemmas.C03Fold
set_option linter.unusedVariables false
namespace AY

theorem pick_none_right (x : Option Node) : pick x none = x := by cases x <;> rfl
theorem pick_none_left (y : Option Node) : pick none y = y := rfl

theorem leafAt_empty (ef : Flags) (p : Path) : leafAt (.comp ef .dict []) p = none := by
  cases p <;> rfl

theorem pairwiseCompat_remove (e : Node) : ∀ (xs ys : List Node),
    pairwiseCompat (xs ++ e :: ys) → pairwiseCompat (xs ++ ys)
  | [], ys, h => h.2
  | x :: xs, ys, h => by
    refine ⟨?_, pairwiseCompat_remove e xs ys h.2⟩
    intro c hc
    apply h.1 c
    rcases List.mem_append.1 hc with hc | hc
    · exact List.mem_append.2 (.inl hc)
    · exact List.mem_append.2 (.inr (List.mem_cons_of_mem _ hc))

theorem foldl_pick_insert_none (xs ys : List (Option Node)) (init : Option Node) :
    (xs ++ none :: ys).foldl pick init = (xs ++ ys).foldl pick init := by
  simp only [List.foldl_append, List.foldl_cons, pick_none_right]

/-- inserting `{}` anywhere: both sequences flatten, and every leaf of the result is the same node -/
theorem flatten_insert_empty_DS (ef : Flags) (xs ys : List Node) (hne : xs ++ ys ≠ [])
    (hef : flagsDS ef = true)
    (hst : ∀ st, st ∈ xs ++ ys → dictShaped st = true ∧ st.isDict = true)
    (hpw : pairwiseCompat (xs ++ .comp ef .dict [] :: ys)) :
    ∃ r r', flatten (xs ++ ys) = .ok r ∧ flatten (xs ++ .comp ef .dict [] :: ys) = .ok r' ∧
      ∀ p, leafAt r' p = leafAt r p := by
  have he : dictShaped (.comp ef .dict []) = true ∧ (Node.comp ef .dict []).isDict = true :=
    ⟨ds_mk_comp hef rfl rfl, rfl⟩
  have hst' : ∀ st, st ∈ xs ++ .comp ef .dict [] :: ys → dictShaped st = true ∧ st.isDict = true := by
    intro st hm
    rcases List.mem_append.1 hm with h | h
    · exact hst st (List.mem_append.2 (.inl h))
    · rcases List.mem_cons.1 h with h | h
      · subst h; exact he
      · exact hst st (List.mem_append.2 (.inr h))
  have hpw0 := pairwiseCompat_remove _ xs ys hpw
  cases xs with
  | nil =>
    cases ys with
    | nil => exact absurd rfl hne
    | cons y ys =>
      obtain ⟨r, h1, _, h3⟩ := flatten_DS y ys hst hpw0
      obtain ⟨r', h1', _, h3'⟩ := flatten_DS (.comp ef .dict []) (y :: ys) hst' hpw
      refine ⟨r, r', h1, h1', ?_⟩
      intro p
      rw [h3 p, h3' p, leafAt_empty]
      rfl
  | cons x xs =>
    obtain ⟨r, h1, _, h3⟩ := flatten_DS x (xs ++ ys) hst hpw0
    obtain ⟨r', h1', _, h3'⟩ := flatten_DS x (xs ++ .comp ef .dict [] :: ys) hst' hpw
    refine ⟨r, r', h1, h1', ?_⟩
    intro p
    rw [h3 p, h3' p]
    simp only [List.map_append, List.map_cons, leafAt_empty]
    exact foldl_pick_insert_none _ _ _

end AY
