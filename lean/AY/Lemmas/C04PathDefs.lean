/-
  AY.Lemmas.C04PathDefs — definitions for the path-wise statements of property C04
  (AY.Props.C04_AtPath): all of them are Boolean functions on trees, so that they are hypotheses of
  the theorems and filters of the fuzzer (notes/fuzz/C04_AtPath_Fuzz.lean) at the same time.
-/
import AY.Lemmas.C05Deep
import AY.Lemmas.C04Protect
import AY.Lemmas.C04List
namespace AY.C04P

/-- `q` leaves the tree below a plain non-deleting mapping: as far as `q` exists the tree consists of
    plain non-deleting mappings with distinct keys, and some key of `q` is missing ("`q` is not
    mentioned by the document") -/
def divergesLive : Path → Node → Bool
  | [], _ => false
  | _ :: _, .leaf .. => false
  | k :: q, .comp f ck cs =>
    match ck with
    | .dict =>
      !eDel (.comp f .dict cs) && keysNodup cs &&
        (match alookup k cs with
         | none => true
         | some c => divergesLive q c)
    | _ => false

/-- the older node at the path is a scalar (any leaf), a plain mapping or a plain list -/
def plainKind : Node → Bool
  | .leaf .. => true
  | .comp _ .dict _ => true
  | .comp _ .list _ => true
  | _ => false

/-- NO entry of the older node `e` is protected against the newer node `d`: no node strictly below `e`
    outranks its deepest existing counterpart in `d` (`maybe_keep` fails everywhere), lists below `e`
    are numbered, and — for a list `e` — the pre-filter of ConfigList removes nothing of `d`
    (`keep_if_exists` holds everywhere below `d`: no deleting node of `d` is outranked by its deepest
    existing counterpart in `e`) -/
def noneProtected (d e : Node) : Bool :=
  match e with
  | .leaf .. => true
  | .comp ef ek ecs =>
    wfKeys (.comp ef ek ecs) && noneKeptList (maybeKeep d) [] ecs &&
      (match ek with
       | .dict => true
       | _ => allKept (keepIfExists (.comp ef ek ecs)) [] d)

/-- the decidable sufficient condition: some bound separates the priorities of `e` from those of `d` -/
def prioSeparated (b : Int) (d e : Node) : Bool := prioLe b e && prioGe b d && wfKeys e

/-- the loop iteration that writes `d` ends in `remove_child`: an explicitly `!del` falsy node (the
    "value-less !del" of the property: an empty scalar, an empty container) -/
def removedBy (d : Node) : Bool := !d.truthy && d.flags.del == some true

/-- the node `m` found at the relative path `q` below the older node is protected against `d`: its
    priority is strictly above that of its deepest existing counterpart in `d` -/
def protectedAt (d : Node) (q : Path) (m : Node) : Bool :=
  decide (ePrio (firstNotMissing d q).flags < ePrio m.flags)

/-! ### a Boolean equality on plain data (`Plain` is a nested inductive without `DecidableEq`): used by the
    non-vacuity examples, which compare computed data inside the kernel (`decide +kernel`) -/

mutual
def plainBeq : Plain → Plain → Bool
  | .scalar a, x => (match x with | .scalar b => decide (a = b) | _ => false)
  | .list a, x => (match x with | .list b => plainBeqL a b | _ => false)
  | .dict a, x => (match x with | .dict b => plainBeqD a b | _ => false)
def plainBeqL : List Plain → List Plain → Bool
  | [], x => (match x with | [] => true | _ => false)
  | a :: as, x => (match x with | b :: bs => plainBeq a b && plainBeqL as bs | _ => false)
def plainBeqD : List (Key × Plain) → List (Key × Plain) → Bool
  | [], x => (match x with | [] => true | _ => false)
  | (k, a) :: as, x => (match x with | (k', b) :: bs => decide (k = k') && plainBeq a b && plainBeqD as bs | _ => false)
end

mutual
theorem plainBeq_sound : ∀ (a b : Plain), plainBeq a b = true → a = b
  | .scalar a, .scalar b, h => by simp [plainBeq] at h; rw [h]
  | .scalar _, .list _, h => by simp [plainBeq] at h
  | .scalar _, .dict _, h => by simp [plainBeq] at h
  | .list a, .list b, h => by
    simp only [plainBeq] at h
    rw [plainBeqL_sound a b h]
  | .list _, .scalar _, h => by simp [plainBeq] at h
  | .list _, .dict _, h => by simp [plainBeq] at h
  | .dict a, .dict b, h => by
    simp only [plainBeq] at h
    rw [plainBeqD_sound a b h]
  | .dict _, .scalar _, h => by simp [plainBeq] at h
  | .dict _, .list _, h => by simp [plainBeq] at h
theorem plainBeqL_sound : ∀ (a b : List Plain), plainBeqL a b = true → a = b
  | [], [], _ => rfl
  | [], _ :: _, h => by simp [plainBeqL] at h
  | _ :: _, [], h => by simp [plainBeqL] at h
  | a :: as, b :: bs, h => by
    simp only [plainBeqL, Bool.and_eq_true] at h
    rw [plainBeq_sound a b h.1, plainBeqL_sound as bs h.2]
theorem plainBeqD_sound : ∀ (a b : List (Key × Plain)), plainBeqD a b = true → a = b
  | [], [], _ => rfl
  | [], _ :: _, h => by simp [plainBeqD] at h
  | _ :: _, [], h => by simp [plainBeqD] at h
  | (k, a) :: as, (k', b) :: bs, h => by
    simp only [plainBeqD, Bool.and_eq_true, decide_eq_true_eq] at h
    rw [h.1.1, plainBeq_sound a b h.1.2, plainBeqD_sound as bs h.2]
end

/-- equality of optional data, Boolean -/
def optBeq : Option Plain → Option Plain → Bool
  | none, none => true
  | some a, some b => plainBeq a b
  | _, _ => false

theorem optBeq_sound {a b : Option Plain} (h : optBeq a b = true) : a = b := by
  cases a <;> cases b <;> simp [optBeq] at h
  · rfl
  · rw [plainBeq_sound _ _ h]

/-- equality of build results, Boolean (errors never equal) -/
def resBeq : Except Err Plain → Except Err Plain → Bool
  | .ok a, .ok b => plainBeq a b
  | _, _ => false

theorem resBeq_sound {a b : Except Err Plain} (h : resBeq a b = true) : a = b := by
  cases a <;> cases b <;> simp [resBeq] at h
  rw [plainBeq_sound _ _ h]

end AY.C04P
