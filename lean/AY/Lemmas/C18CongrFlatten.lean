/-
  AY.Lemmas.C18CongrFlatten — from `mergeF` to `Builder.flatten`, and from the dump round trip to the
  C18 relations.

  * `noPM`: a tree without pre-merge operators (`!prev`, `!clear`, `!append`, `!extend`, nested
    streams); `premergeF` is the identity on such trees.
  * `flatten_subst`: replacing the stage `d` by a related `d'` (`congN true` + `docN`) at any position
    of a stage list gives the same error or `congN true`-related merged trees, when the stages AFTER
    the position are free of pre-merge operators (those before it are arbitrary).
  * `congN_of_simN` / `docN_of_simN`: what the dump round trip (`simN`) gives.
-/
import AY.Lemmas.C18CongrMerge
import AY.Spec.Plain
set_option linter.unusedVariables false
set_option linter.unusedSimpArgs false
namespace AY

/-! ### trees without pre-merge operators -/

mutual
def noPM : Node → Bool
  | .leaf _ k =>
    match k with
    | .prev _ => false
    | .clear => false
    | _ => true
  | .comp _ k cs =>
    (match k with
     | .append => false
     | .extend => false
     | .stream => false
     | _ => true) && noPML cs
def noPML : List (Key × Node) → Bool
  | [] => true
  | (_, c) :: r => noPM c && noPML r
end

theorem premergeChildren_noPM {d : Nat} {rec : Node → Path → Option Node → PM}
    (H : ∀ c p into, noPM c = true → c.depth < d → rec c p into = .ok (c, true, into)) (path : Path) :
    ∀ (cs : List (Key × Node)) (into : Option Node), noPML cs = true → depthList cs < d →
      premergeChildren rec path cs into = .ok (cs, [], into)
  | [], into, _, _ => rfl
  | (k, c) :: rest, into, h, hd => by
    have h' : noPM c = true ∧ noPML rest = true := by simpa [noPML] using h
    have hd' : c.depth < d ∧ depthList rest < d := by simp only [depthList] at hd; omega
    simp [premergeChildren, H c _ into h'.1 hd'.1, premergeChildren_noPM H path rest into h'.2 hd'.2]

/-- the pre-merge pass is the identity on trees without pre-merge operators -/
theorem premergeF_noPM : ∀ (fuel : Nat) (n : Node) (path : Path) (into : Option Node),
    noPM n = true → n.depth < fuel → premergeF fuel n path into = .ok (n, true, into) := by
  intro fuel
  induction fuel with
  | zero => intro n _ _ _ h; omega
  | succ fuel ih =>
    intro n path into hn hd
    cases n with
    | leaf f lk => cases lk <;> simp [noPM] at hn <;> simp [premergeF]
    | comp f k cs =>
      have hcs : noPML cs = true := by
        simp only [noPM, Bool.and_eq_true] at hn; exact hn.2
      have hlt : depthList cs < fuel := by simp only [Node.depth] at hd; omega
      have hch := premergeChildren_noPM (fun c p into hc hdc => ih c p into hc hdc) path cs into hcs hlt
      cases k <;> simp [noPM] at hn <;> simp [premergeF, hch, applyResets]

mutual
theorem noPM_cong : ∀ {s : Bool} (n n' : Node), congN s n n' = true → noPM n = noPM n'
  | _, .leaf f k, n', h => by obtain ⟨f', rfl, _⟩ := congN_leaf_inv h; rfl
  | s, .comp f k cs, n', h => by
    obtain ⟨f', cs', rfl, _, h3⟩ := congN_comp_inv h
    simp only [noPM, noPML_cong cs cs' h3]
theorem noPML_cong : ∀ {s : Bool} (l l' : List (Key × Node)), congL s l l' = true → noPML l = noPML l'
  | _, [], l', h => by rw [congL_nil_inv h]
  | s, (k, c) :: r, l', h => by
    obtain ⟨c', r', rfl, h2, h3⟩ := congL_cons_inv h
    simp only [noPML, noPM_cong c c' h2, noPML_cong r r' h3]
end

/-! ### fuel -/

theorem c18c_foldl_add_ge : ∀ (l : List Nat) (init : Nat),
    init ≤ l.foldl (· + ·) init ∧ ∀ x, x ∈ l → x ≤ l.foldl (· + ·) init
  | [], init => ⟨Nat.le_refl _, fun _ h => by cases h⟩
  | y :: ys, init => by
    obtain ⟨h1, h2⟩ := c18c_foldl_add_ge ys (init + y)
    refine ⟨by simp only [List.foldl_cons]; omega, ?_⟩
    intro x hx
    simp only [List.foldl_cons]
    rcases List.mem_cons.1 hx with hx | hx
    · subst hx; omega
    · exact h2 x hx

theorem c18c_depth_lt_stagesFuel {stages : List Node} {st : Node} (h : st ∈ stages) :
    st.depth < stagesFuel stages := by
  have := (c18c_foldl_add_ge (stages.map (fun n => n.depth + 1)) 0).2 (st.depth + 1)
    (List.mem_map.2 ⟨st, h, rfl⟩)
  simp only [stagesFuel]
  omega

theorem stagesFuel_subst (xs ys : List Node) {d d' : Node} (h : d.depth = d'.depth) :
    stagesFuel (xs ++ d :: ys) = stagesFuel (xs ++ d' :: ys) := by
  simp only [stagesFuel, List.map_append, List.map_cons, h]

/-! ### the fold -/

theorem flattenLoop_append (pm : Node → Path → Option Node → PM) : ∀ (as bs : List Node) (root : Node),
    flattenLoop pm root (as ++ bs) =
      match flattenLoop pm root as with
      | .error e => .error e
      | .ok r => flattenLoop pm r bs
  | [], bs, root => rfl
  | st :: rest, bs, root => by
    simp only [List.cons_append, flattenLoop]
    cases pm st [] (some root) with
    | error e => rfl
    | ok p =>
      obtain ⟨st', sm, into'⟩ := p
      cases into' with
      | none => rfl
      | some root' =>
        simp only
        cases merge root' st' with
        | error e => rfl
        | ok r => exact flattenLoop_append pm rest bs r

/-- later stages without pre-merge operators: the fold is a congruence in the accumulated tree -/
theorem flattenLoop_cong (fuel : Nat) : ∀ (ys : List Node) (root root' : Node), congN true root root' = true →
    FlagsConsistent root = true → FlagsConsistent root' = true →
    (∀ y, y ∈ ys → FlagsConsistent y = true ∧ noPM y = true ∧ y.depth < fuel) →
    exRel (fun r r' => congN true r r' = true) (flattenLoop (premergeF fuel) root ys)
      (flattenLoop (premergeF fuel) root' ys)
  | [], root, root', h, _, _, _ => h
  | y :: rest, root, root', h, hc, hc', hys => by
    obtain ⟨hy1, hy2, hy3⟩ := hys y (by simp)
    have hm := merge_cong h (congN_refl true y) (docN_refl y) hc hc' hy1 hy1
    simp only [flattenLoop, premergeF_noPM fuel y [] _ hy2 hy3]
    cases e1 : merge root y <;> cases e2 : merge root' y <;> simp only [e1, e2, exRel] at hm ⊢
    · exact hm
    · exact flattenLoop_cong fuel rest _ _ hm (merge_cons hc hy1 e1) (merge_cons hc' hy1 e2)
        (fun z hz => hys z (List.mem_cons_of_mem _ hz))

/-- the stage `d` replaced by a related `d'`, followed by stages without pre-merge operators -/
theorem flattenLoop_subst (fuel : Nat) (ys : List Node) (root d d' : Node) (hd : congN true d d' = true)
    (hdoc : docN d d' = true) (hcd : FlagsConsistent d = true) (hcd' : FlagsConsistent d' = true)
    (hpd : noPM d = true) (hfd : d.depth < fuel) (hc : FlagsConsistent root = true)
    (hys : ∀ y, y ∈ ys → FlagsConsistent y = true ∧ noPM y = true ∧ y.depth < fuel) :
    exRel (fun r r' => congN true r r' = true) (flattenLoop (premergeF fuel) root (d :: ys))
      (flattenLoop (premergeF fuel) root (d' :: ys)) := by
  have hpd' : noPM d' = true := by rw [← noPM_cong d d' hd]; exact hpd
  have hfd' : d'.depth < fuel := by rw [← congN_depth d d' hd]; exact hfd
  have hm := merge_cong (congN_refl true root) hd hdoc hc hc hcd hcd'
  simp only [flattenLoop, premergeF_noPM fuel d [] _ hpd hfd, premergeF_noPM fuel d' [] _ hpd' hfd']
  cases e1 : merge root d <;> cases e2 : merge root d' <;> simp only [e1, e2, exRel] at hm ⊢
  · exact hm
  · exact flattenLoop_cong fuel ys _ _ hm (merge_cons hc hcd e1) (merge_cons hc hcd' e2) hys

theorem exRel_refl_congN (x : Except Err Node) : exRel (fun r r' => congN true r r' = true) x x := by
  cases x with
  | error e => exact rfl
  | ok r => exact congN_refl true r

/-- `Builder.flatten` with the stage at position `xs.length` replaced by a related one -/
theorem flattenWith_subst (F : Nat) (xs ys : List Node) (d d' : Node) (hd : congN true d d' = true)
    (hdoc : docN d d' = true) (hcd : FlagsConsistent d = true) (hcd' : FlagsConsistent d' = true)
    (hpd : noPM d = true) (hfd : d.depth < F) (hxs : ∀ x, x ∈ xs → FlagsConsistent x = true)
    (hys : ∀ y, y ∈ ys → FlagsConsistent y = true ∧ noPM y = true ∧ y.depth < F) :
    exRel (fun r r' => congN true r r' = true) (flattenWith (premergeF F) (xs ++ d :: ys))
      (flattenWith (premergeF F) (xs ++ d' :: ys)) := by
  have hdep := congN_depth d d' hd
  have hpd' : noPM d' = true := by rw [← noPM_cong d d' hd]; exact hpd
  have hfd' : d'.depth < F := by rw [← hdep]; exact hfd
  cases xs with
  | nil =>
    have hall : (d' :: ys).all Node.isDict = (d :: ys).all Node.isDict := by
      simp only [List.all_cons, congN_isDict hd]
    simp only [List.nil_append, flattenWith]
    rw [hall]
    by_cases ha : (!(d :: ys).all Node.isDict) = true
    · simp only [ha, if_true]; exact rfl
    · simp only [ha, if_false, premergeF_noPM _ d [] none hpd hfd, premergeF_noPM _ d' [] none hpd' hfd',
        ← reqNew_doc [] [] d d' hdoc (congN_false hd)]
      cases reqNew [] [] d with
      | some p => exact rfl
      | none => exact flattenLoop_cong _ ys d d' hd hcd hcd' hys
  | cons x0 rest =>
    have hall : (x0 :: (rest ++ d' :: ys)).all Node.isDict = (x0 :: (rest ++ d :: ys)).all Node.isDict := by
      simp only [List.all_cons, List.all_append, congN_isDict hd]
    simp only [List.cons_append, flattenWith]
    rw [hall]
    by_cases ha : (!(x0 :: (rest ++ d :: ys)).all Node.isDict) = true
    · simp only [ha, if_true]; exact rfl
    · simp only [ha, if_false]
      cases e0 : premergeF F x0 [] none with
      | error e => exact rfl
      | ok p =>
        obtain ⟨r0, sm, into'⟩ := p
        simp only
        cases reqNew [] [] r0 with
        | some p => exact rfl
        | none =>
          simp only
          have hr0 := (premergeF_cons _ _ _ _ _ _ _ (hxs x0 (by simp)) intoCons_none e0).1
          rw [flattenLoop_append, flattenLoop_append]
          cases e1 : flattenLoop (premergeF F) r0 rest with
          | error e => exact rfl
          | ok r1 =>
            simp only
            have hr1 := flattenLoop_cons (premergeF_cons _) rest r0 r1 hr0
              (fun s hs => hxs s (List.mem_cons_of_mem _ hs)) e1
            exact flattenLoop_subst _ ys r1 d d' hd hdoc hcd hcd' hpd hfd hr1 hys

theorem flatten_subst (xs ys : List Node) (d d' : Node) (hd : congN true d d' = true) (hdoc : docN d d' = true)
    (hcd : FlagsConsistent d = true) (hcd' : FlagsConsistent d' = true) (hpd : noPM d = true)
    (hxs : ∀ x, x ∈ xs → FlagsConsistent x = true)
    (hys : ∀ y, y ∈ ys → FlagsConsistent y = true ∧ noPM y = true) :
    exRel (fun r r' => congN true r r' = true) (flatten (xs ++ d :: ys)) (flatten (xs ++ d' :: ys)) := by
  have hfuel := stagesFuel_subst xs ys (congN_depth d d' hd)
  simp only [flatten, ← hfuel]
  exact flattenWith_subst _ xs ys d d' hd hdoc hcd hcd' hpd (c18c_depth_lt_stagesFuel (by simp)) hxs
    (fun y hy => ⟨(hys y hy).1, (hys y hy).2, c18c_depth_lt_stagesFuel (by simp [hy])⟩)

/-! ### what the dump round trip gives -/

mutual
/-- an inherited `safe = False` occurs only below a node that states it (`h`: such a node encloses) -/
def safeDown (h : Bool) : Node → Bool
  | .leaf f _ => !uI f || h
  | .comp f _ cs => (!uI f || h) && safeDownL (h || uS f) cs
def safeDownL (h : Bool) : List (Key × Node) → Bool
  | [] => true
  | (_, c) :: r => safeDown h c && safeDownL h r
end

theorem uI_nodeFlags (env : Env) (c : BCtx) (x : CtorKw) : uI (nodeFlags env c x) = (c.s == some false) := rfl
theorem uS_nodeFlags (env : Env) (c : BCtx) (x : CtorKw) : uS (nodeFlags env c x) = (x.safe == some false) := rfl

theorem childCtx_s (c : BCtx) (x : CtorKw) (k : CompKind) (h : Bool) (hc : (c.s == some false) = true → h = true) :
    ((childCtx c x k).s == some false) = true → (h || (x.safe == some false)) = true := by
  simp only [childCtx]
  intro e
  by_cases h1 : c.s = some false
  · simp [hc (by simp [h1])]
  · simp only [h1, if_false] at e
    rcases hx : x.safe with _ | _ | _
    · rw [hx] at e; simp only [Option.none_or] at e
      exact absurd (by simpa using e) h1
    · simp
    · rw [hx] at e; simp at e

mutual
theorem safeDown_build (env : Env) : ∀ (r : Raw) (c : BCtx) (h : Bool), ((c.s == some false) = true → h = true) →
    safeDown h (build env c r) = true
  | .scalar t kw v, c, h, hc => by
    simp only [build, safeDown, uI_nodeFlags]
    cases hcs : (c.s == some false) with
    | false => rfl
    | true => simp [hc hcs]
  | .seq t kw items, c, h, hc => by
    simp only [build, safeDown, uI_nodeFlags, uS_nodeFlags, Bool.and_eq_true]
    refine ⟨?_, safeDown_buildList env items _ _ 0 (childCtx_s c (ekw t kw) .list h hc)⟩
    cases hcs : (c.s == some false) with
    | false => rfl
    | true => simp [hc hcs]
  | .map t kw items, c, h, hc => by
    simp only [build, safeDown, uI_nodeFlags, uS_nodeFlags, Bool.and_eq_true]
    refine ⟨?_, safeDown_buildMap env items _ _ (childCtx_s c (ekw t kw) .dict h hc)⟩
    cases hcs : (c.s == some false) with
    | false => rfl
    | true => simp [hc hcs]
theorem safeDown_buildList (env : Env) : ∀ (items : List Raw) (c : BCtx) (h : Bool) (i : Nat),
    ((c.s == some false) = true → h = true) → safeDownL h (buildList env c i items) = true
  | [], _, _, _, _ => rfl
  | r :: rest, c, h, i, hc => by
    simp only [buildList, safeDownL, safeDown_build env r c h hc, safeDown_buildList env rest c h (i + 1) hc,
      Bool.and_self]
theorem safeDown_buildMap (env : Env) : ∀ (items : List (Key × Raw)) (c : BCtx) (h : Bool),
    ((c.s == some false) = true → h = true) → safeDownL h (buildMap env c items) = true
  | [], _, _, _ => rfl
  | (k, r) :: rest, c, h, hc => by
    simp only [buildMap, safeDownL, safeDown_build env r c h hc, safeDown_buildMap env rest c h hc, Bool.and_self]
end

mutual
theorem noPM_build (env : Env) : ∀ (r : Raw) (c : BCtx), noPM (build env c r) = true
  | .scalar t kw v, c => rfl
  | .seq t kw items, c => by simp only [build, noPM, noPML_buildList env items _ 0, Bool.and_self]
  | .map t kw items, c => by simp only [build, noPM, noPML_buildMap env items _, Bool.and_self]
theorem noPML_buildList (env : Env) : ∀ (items : List Raw) (c : BCtx) (i : Nat), noPML (buildList env c i items) = true
  | [], _, _ => rfl
  | r :: rest, c, i => by simp only [buildList, noPML, noPM_build env r c, noPML_buildList env rest c (i + 1), Bool.and_self]
theorem noPML_buildMap (env : Env) : ∀ (items : List (Key × Raw)) (c : BCtx), noPML (buildMap env c items) = true
  | [], _ => rfl
  | (k, r) :: rest, c => by simp only [buildMap, noPML, noPM_build env r c, noPML_buildMap env rest c, Bool.and_self]
end

/-- the flags of a round-tripped node are interchangeable, provided the node does not inherit
    `safe = False` where the safe flags are compared -/
theorem congF_of_simF {ic dd s : Bool} {f f' : Flags} (h : simF ic dd f f' = true) (hs : s = true → uI f = false) :
    congF s f f' = true := by
  have hp := ePrio_sim h
  have hdt := delTrue_sim h
  obtain ⟨_, h2, _, _, h5, h6, h7, _, _, h10⟩ := (simF_iff ic dd f f').1 h
  rw [congF_iff]
  refine ⟨hp, h2.symm, h6.symm, h7.symm, hdt, fun e => ?_⟩
  have hu := hs e
  simp only [uI] at hu ⊢
  refine ⟨by rw [h5], ?_⟩
  simp only [uS]
  rcases h10 with e1 | ⟨e1, e2 | e2⟩
  · rw [e1]
  · rw [e2] at hu; simp at hu
  · rw [e1, e2]
    rcases hi : f.iSafe with _ | _ | _ <;> simp_all

mutual
theorem congN_of_simN : ∀ (n n' : Node) (h s : Bool), simN n n' = true → safeDown h n = true →
    (s = true → h = false) → congN s n n' = true
  | .leaf f k, .leaf f' k', h, s, hsim, hsd, hs => by
    simp only [simN, Bool.and_eq_true, beq_iff_eq] at hsim
    obtain ⟨h1, rfl⟩ := hsim
    refine congN_leaf_iff.2 ⟨rfl, congF_of_simF h1 (fun e => ?_)⟩
    simp only [safeDown, hs e, Bool.or_false, Bool.not_eq_true'] at hsd
    exact hsd
  | .comp f k cs, .comp f' k' cs', h, s, hsim, hsd, hs => by
    simp only [simN, Bool.and_eq_true, beq_iff_eq] at hsim
    obtain ⟨⟨h1, rfl⟩, h3⟩ := hsim
    simp only [safeDown, Bool.and_eq_true] at hsd
    refine congN_comp_iff.2 ⟨rfl, congF_of_simF h1 (fun e => ?_), ?_⟩
    · have := hsd.1
      simp only [hs e, Bool.or_false, Bool.not_eq_true'] at this
      exact this
    · refine congL_of_simL cs cs' (h || uS f) _ h3 hsd.2 (fun e => ?_)
      simp only [Bool.and_eq_true, Bool.not_eq_true'] at e
      rw [hs e.1, e.2]; rfl
  | .leaf _ _, .comp _ _ _, _, _, hsim, _, _ => by simp [simN] at hsim
  | .comp _ _ _, .leaf _ _, _, _, hsim, _, _ => by simp [simN] at hsim
theorem congL_of_simL : ∀ (l l' : List (Key × Node)) (h s : Bool), simL l l' = true → safeDownL h l = true →
    (s = true → h = false) → congL s l l' = true
  | [], [], _, _, _, _, _ => rfl
  | (k, c) :: r, (k', c') :: r', h, s, hsim, hsd, hs => by
    simp only [simL, Bool.and_eq_true, beq_iff_eq] at hsim
    obtain ⟨⟨rfl, h2⟩, h3⟩ := hsim
    simp only [safeDownL, Bool.and_eq_true] at hsd
    exact congL_cons_iff.2 ⟨rfl, congN_of_simN c c' h s h2 hsd.1 hs, congL_of_simL r r' h s h3 hsd.2 hs⟩
  | [], _ :: _, _, _, hsim, _, _ => by simp [simL] at hsim
  | _ :: _, [], _, _, hsim, _, _ => by simp [simL] at hsim
end

mutual
theorem docN_of_simN : ∀ (n n' : Node), simN n n' = true → docN n n' = true
  | .leaf f k, .leaf f' k', hsim => by
    simp only [simN, Bool.and_eq_true, beq_iff_eq] at hsim
    obtain ⟨h1, rfl⟩ := hsim
    have he := effF_of_simF_leaf (k := k) h1
    simp only [effF, Bool.and_eq_true, beq_iff_eq] at he
    simp only [docN, docF, Bool.and_eq_true, beq_iff_eq]
    exact ⟨he.1.1.1.1.2, he.1.1.1.2⟩
  | .comp f k cs, .comp f' k' cs', hsim => by
    simp only [simN, Bool.and_eq_true, beq_iff_eq] at hsim
    obtain ⟨⟨h1, rfl⟩, h3⟩ := hsim
    have he := effF_of_simF_comp (k := k) (cs := cs) (cs' := cs') h1
    simp only [effF, Bool.and_eq_true, beq_iff_eq] at he
    refine docN_comp_iff.2 ⟨rfl, ?_, docL_of_simL cs cs' h3⟩
    simp only [docF, Bool.and_eq_true, beq_iff_eq]
    exact ⟨he.1.1.1.1.2, he.1.1.1.2⟩
  | .leaf _ _, .comp _ _ _, hsim => by simp [simN] at hsim
  | .comp _ _ _, .leaf _ _, hsim => by simp [simN] at hsim
theorem docL_of_simL : ∀ (l l' : List (Key × Node)), simL l l' = true → docL l l' = true
  | [], [], _ => rfl
  | (k, c) :: r, (k', c') :: r', hsim => by
    simp only [simL, Bool.and_eq_true, beq_iff_eq] at hsim
    exact docL_cons_iff.2 ⟨docN_of_simN c c' hsim.1.2, docL_of_simL r r' hsim.2⟩
  | [], _ :: _, hsim => by simp [simL] at hsim
  | _ :: _, [], hsim => by simp [simL] at hsim
end

/-! ### what the relation says about a tree: data and safety at every node -/

mutual
theorem native_cong : ∀ {s : Bool} (n n' : Node), congN s n n' = true → native n = native n'
  | _, .leaf f k, n', h => by obtain ⟨f', rfl, _⟩ := congN_leaf_inv h; cases k <;> rfl
  | s, .comp f k cs, n', h => by
    obtain ⟨f', cs', rfl, _, h3⟩ := congN_comp_inv h
    simp only [native, nativeList_cong cs cs' h3, nativeVals_cong cs cs' h3]
theorem nativeList_cong : ∀ {s : Bool} (l l' : List (Key × Node)), congL s l l' = true → nativeList l = nativeList l'
  | _, [], l', h => by rw [congL_nil_inv h]
  | s, (k, c) :: r, l', h => by
    obtain ⟨c', r', rfl, h2, h3⟩ := congL_cons_inv h
    simp only [nativeList, native_cong c c' h2, nativeList_cong r r' h3]
theorem nativeVals_cong : ∀ {s : Bool} (l l' : List (Key × Node)), congL s l l' = true → nativeVals l = nativeVals l'
  | _, [], l', h => by rw [congL_nil_inv h]
  | s, (k, c) :: r, l', h => by
    obtain ⟨c', r', rfl, h2, h3⟩ := congL_cons_inv h
    simp only [nativeVals, native_cong c c' h2, nativeVals_cong r r' h3]
end

mutual
/-- no nested stream node (a stream hands no flags to its children; `Builder.flatten` dissolves
    streams before merging) -/
def noStream : Node → Bool
  | .leaf _ _ => true
  | .comp _ k cs => (k != .stream) && noStreamL cs
def noStreamL : List (Key × Node) → Bool
  | [] => true
  | (_, c) :: r => noStream c && noStreamL r
end

mutual
/-- the same effective `safe` at every node -/
def sameSafe : Node → Node → Bool
  | .leaf f _, .leaf f' _ => eSafe f == eSafe f'
  | .comp f _ cs, .comp f' _ cs' => eSafe f == eSafe f' && sameSafeL cs cs'
  | _, _ => false
def sameSafeL : List (Key × Node) → List (Key × Node) → Bool
  | [], [] => true
  | (_, c) :: r, (_, c') :: r' => sameSafe c c' && sameSafeL r r'
  | _, _ => false
end

theorem eSafe_of_uI {f : Flags} (h : uI f = true) : eSafe f = false := by
  simp only [uI, beq_iff_eq] at h
  simp [eSafe, h]

/-- a consistent child of a node that hands `safe = False` down inherits it -/
theorem uI_of_handed {kw : ChildKw} {f : Flags} (hk : kwF kw = true) (h : childFlagsOK kw f = true) : uI f = true := by
  have h1 := ((childFlagsOK_iff kw f).1 h).2.2
  simp only [kwF, beq_iff_eq] at hk
  simp only [uI, beq_iff_eq]
  rcases h1 with h1 | h1
  · rw [h1, hk]
  · exact h1

mutual
/-- related consistent trees without streams are equally safe at every node; where the safe flags are
    not compared (`s = false`: below a node that states `safe = False`) both nodes inherit `False` -/
theorem sameSafe_of_cong : ∀ (s : Bool) (n n' : Node), congN s n n' = true → FlagsConsistent n = true →
    FlagsConsistent n' = true → noStream n = true → (s = false → uI n.flags = true ∧ uI n'.flags = true) →
    sameSafe n n' = true
  | s, .leaf f k, n', h, _, _, _, hs => by
    obtain ⟨f', rfl, h2⟩ := congN_leaf_inv h
    simp only [sameSafe, beq_iff_eq]
    cases s with
    | true => exact congF_eSafe h2
    | false =>
      have h1 : uI f = true := (hs rfl).1
      have h1' : uI f' = true := (hs rfl).2
      rw [eSafe_of_uI h1, eSafe_of_uI h1']
  | s, .comp f k cs, n', h, hc, hc', hn, hs => by
    obtain ⟨f', cs', rfl, h2, h3⟩ := congN_comp_inv h
    simp only [FlagsConsistent] at hc hc'
    simp only [noStream, Bool.and_eq_true, bne_iff_ne, ne_eq] at hn
    have he : eSafe f = eSafe f' := by
      cases s with
      | true => exact congF_eSafe h2
      | false =>
        have h1 : uI f = true := (hs rfl).1
        have h1' : uI f' = true := (hs rfl).2
        rw [eSafe_of_uI h1, eSafe_of_uI h1']
    simp only [sameSafe, he, beq_self_eq_true, Bool.true_and]
    rcases childKw_some f k with ⟨rfl, _⟩ | ⟨kw, e1, e2, _, _⟩
    · exact absurd rfl hn.1
    · rcases childKw_some f' k with ⟨rfl, _⟩ | ⟨kw', e1', e2', _, _⟩
      · exact absurd rfl hn.1
      · rw [e1] at hc
        rw [e1'] at hc'
        refine sameSafeL_of_cong (s && !uS f) kw kw' cs cs' h3 hc hc' hn.2 (fun e => ?_)
        -- the children are not compared: both parents hand `safe = False` down
        rw [e2, e2']
        cases s with
        | false =>
          have h1 : uI f = true := (hs rfl).1
          have h1' : uI f' = true := (hs rfl).2
          simp [hf, h1, h1']
        | true =>
          have hu : uS f = true := by simpa using e
          have hu' : uS f' = true := by rw [← congF_uS h2]; exact hu
          simp [hf, hu, hu']
theorem sameSafeL_of_cong : ∀ (s : Bool) (kw kw' : ChildKw) (l l' : List (Key × Node)), congL s l l' = true →
    consistentList (some kw) l = true → consistentList (some kw') l' = true → noStreamL l = true →
    (s = false → kwF kw = true ∧ kwF kw' = true) → sameSafeL l l' = true
  | _, _, _, [], l', h, _, _, _, _ => by rw [congL_nil_inv h]; rfl
  | s, kw, kw', (k, c) :: r, l', h, hc, hc', hn, hs => by
    obtain ⟨c', r', rfl, h2, h3⟩ := congL_cons_inv h
    rw [consistentList_cons] at hc hc'
    simp only [noStreamL, Bool.and_eq_true] at hn
    simp only [sameSafeL, Bool.and_eq_true]
    exact ⟨sameSafe_of_cong s c c' h2 hc.2.1 hc'.2.1 hn.1
        (fun e => ⟨uI_of_handed (hs e).1 (hc.1 kw rfl), uI_of_handed (hs e).2 (hc'.1 kw' rfl)⟩),
      sameSafeL_of_cong s kw kw' r r' h3 hc.2.2 hc'.2.2 hn.2 hs⟩
end

/-! ### the two relations of the C18 congruence theorems -/

/-- R for accumulated (merged) trees: `congN true` between flag-consistent trees -/
def accR (a a' : Node) : Prop :=
  congN true a a' = true ∧ FlagsConsistent a = true ∧ FlagsConsistent a' = true

/-- R for documents (stages): additionally the same effective `delete` / `allow_new` at every node -/
def docR (b b' : Node) : Prop :=
  congN true b b' = true ∧ docN b b' = true ∧ FlagsConsistent b = true ∧ FlagsConsistent b' = true

theorem docR.acc {b b' : Node} (h : docR b b') : accR b b' := ⟨h.1, h.2.2.1, h.2.2.2⟩

theorem accR_refl {a : Node} (h : FlagsConsistent a = true) : accR a a := ⟨congN_refl true a, h, h⟩

theorem docR_refl {b : Node} (h : FlagsConsistent b = true) : docR b b := ⟨congN_refl true b, docN_refl b, h, h⟩

/-! ### Boolean forms for concrete examples -/

/-- both results exist and satisfy `p` (a Boolean observable of two builds) -/
def bothOk (x y : Except Err Node) (p : Node → Node → Bool) : Bool :=
  match x, y with
  | .ok r, .ok r' => p r r'
  | _, _ => false

/-- the build raises exactly the error `e` -/
def errIs (x : Except Err Node) (e : Err) : Bool :=
  match x with
  | .error e' => e' == e
  | .ok _ => false

theorem accR_of_bool {a a' : Node} (h : (congN true a a' && FlagsConsistent a && FlagsConsistent a') = true) : accR a a' := by
  simp only [Bool.and_eq_true] at h; exact ⟨h.1.1, h.1.2, h.2⟩

theorem docR_of_bool {b b' : Node}
    (h : (congN true b b' && docN b b' && FlagsConsistent b && FlagsConsistent b') = true) : docR b b' := by
  simp only [Bool.and_eq_true] at h; exact ⟨h.1.1.1, h.1.1.2, h.1.2, h.2⟩

end AY
