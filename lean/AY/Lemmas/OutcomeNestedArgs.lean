/-
  AY.Lemmas.OutcomeNestedArgs — argument passing of `!call` / `!bind` never looks at the values it
  passes: `resolveArgs` and `bindPy` applied to argument lists with the same keys in the same order
  and `R`-related values (any `R` that relates a default value to itself) both fail, or both succeed
  with results of the same shape and `R`-related values.
-/
import AY.Lemmas.OutcomeNestedDefs
namespace AY

theorem OptRel.elim {α : Type} {R : α → α → Prop} {o o' : Option α} (h : OptRel R o o') :
    (o = Option.none ∧ o' = Option.none) ∨ ∃ a a', o = Option.some a ∧ o' = Option.some a' ∧ R a a' := by
  cases h with
  | none => exact .inl ⟨rfl, rfl⟩
  | some hr => exact .inr ⟨_, _, rfl, rfl, hr⟩

theorem OptRel.isSome_eq {α : Type} {R : α → α → Prop} {o o' : Option α} (h : OptRel R o o') :
    o'.isSome = o.isSome := by
  cases h <;> rfl

section args
variable {R : Val → Val → Prop}

theorem intArgs_rel {a a' : List (Key × Val)} (h : AssocRel R a a') :
    AssocRel R (intArgs a) (intArgs a') := by
  induction h with
  | nil => exact .nil
  | @cons k v v' l l' hr _ ih =>
    cases k with
    | int i => exact .cons hr ih
    | str s => exact ih
    | float r => exact ih

theorem strArgs_rel {a a' : List (Key × Val)} (h : AssocRel R a a') :
    AssocRel R (strArgs a) (strArgs a') := by
  induction h with
  | nil => exact .nil
  | @cons k v v' l l' hr _ ih =>
    cases k with
    | int i => exact ih
    | str s => exact .cons hr ih
    | float r => exact ih

theorem hasFloatKey_rel {a a' : List (Key × Val)} (h : AssocRel R a a') :
    hasFloatKey a' = hasFloatKey a := by
  induction h with
  | nil => rfl
  | @cons k v v' l l' hr _ ih =>
    cases k with
    | int i => exact ih
    | str s => exact ih
    | float r => rfl

theorem ilookup_rel {p p' : List (Int × Val)} (h : AssocRel R p p') (i : Int) :
    OptRel R (ilookup i p) (ilookup i p') := by
  induction h with
  | nil => exact .none
  | @cons j v v' l l' hr _ ih =>
    simp only [ilookup]
    split
    · exact .some hr
    · exact ih

theorem slookup_rel {l l' : List (String × Val)} (h : AssocRel R l l') (k : String) :
    OptRel R (slookup k l) (slookup k l') := by
  induction h with
  | nil => exact .none
  | @cons j v v' l l' hr _ ih =>
    simp only [slookup]
    split
    · exact .some hr
    · exact ih

theorem unpackPrefix_rel {p p' : List (Int × Val)} (h : AssocRel R p p') :
    ∀ (fuel i : Nat), ListRel R (unpackPrefix p fuel i) (unpackPrefix p' fuel i)
  | 0, _ => .nil
  | fuel + 1, i => by
    simp only [unpackPrefix]
    rcases (ilookup_rel h (i : Int)).elim with ⟨e, e'⟩ | ⟨v, v', e, e', hr⟩
    · rw [e, e']; exact .nil
    · rw [e, e']; exact .cons hr (unpackPrefix_rel h fuel (i + 1))

theorem kwFromPositions_rel (names : List String) (skip : Nat) {p p' : List (Int × Val)}
    (h : AssocRel R p p') :
    OptRel (AssocRel R) (kwFromPositions names skip p) (kwFromPositions names skip p') := by
  induction h with
  | nil => exact .some .nil
  | @cons i v v' l l' hr _ ih =>
    rcases ih.elim with ⟨e, e'⟩ | ⟨x, x', e, e', hx⟩
    · simp only [kwFromPositions, e, e']
      repeat' split
      all_goals exact .none
    · simp only [kwFromPositions, e, e']
      repeat' split
      all_goals first | exact .none | exact .some hx | exact .some (.cons hr hx)

/-- the result of `resolveArgs` -/
def TripRel (R : Val → Val → Prop)
    (x y : List Val × List (String × Val) × List (String × Val)) : Prop :=
  ListRel R x.1 y.1 ∧ AssocRel R x.2.1 y.2.1 ∧ AssocRel R x.2.2 y.2.2

theorem resolveArgs_rel (sig : Sig) {a a' : List (Key × Val)} (h : AssocRel R a a') :
    OptRel (TripRel R) (resolveArgs sig a) (resolveArgs sig a') := by
  have hi := intArgs_rel h
  have e1 : (intArgs a').isEmpty = (intArgs a).isEmpty := by
    have := hi.length_eq
    cases h1 : intArgs a <;> cases h2 : intArgs a' <;> simp [h1, h2] at this ⊢
  have e2 := hasFloatKey_rel h
  have e3 : (intArgs a').length = (intArgs a).length := hi.length_eq.symm
  have hu := unpackPrefix_rel hi (intArgs a).length 0
  simp only [resolveArgs, e1, e2, e3]
  split
  · split
    · exact .none
    · exact .some ⟨.nil, .nil, strArgs_rel h⟩
  · split
    · exact .none
    · rw [← hu.length_eq]
      rcases (kwFromPositions_rel (idxToName sig) (unpackPrefix (intArgs a) (intArgs a).length 0).length hi).elim
        with ⟨e, e'⟩ | ⟨x, x', e, e', hx⟩
      · rw [e, e']; exact .none
      · rw [e, e']; exact .some ⟨hu, hx, strArgs_rel h⟩

theorem dupKeys_rel {l l' : List (String × Val)} (h : AssocRel R l l') : dupKeys l' = dupKeys l := by
  induction h with
  | nil => rfl
  | @cons k v v' l l' hr ht ih =>
    simp only [dupKeys, ih, (slookup_rel ht k).isSome_eq]

theorem bindPositional_rel : ∀ (ps : List Param) {vs vs' : List Val}, ListRel R vs vs' →
    AssocRel R (bindPositional ps vs).1 (bindPositional ps vs').1 ∧
    ListRel R (bindPositional ps vs).2 (bindPositional ps vs').2
  | [], _, _, h => ⟨.nil, h⟩
  | _ :: _, _, _, .nil => ⟨.nil, .nil⟩
  | p :: ps, _, _, .cons hr ht => by
    obtain ⟨h1, h2⟩ := bindPositional_rel ps ht
    exact ⟨.cons hr h1, h2⟩

def BoundRel (R : Val → Val → Prop) (b b' : Bound) : Prop :=
  AssocRel R b.named b'.named ∧ ListRel R b.varargs b'.varargs ∧ AssocRel R b.varkw b'.varkw

theorem bindKeywords_rel (sig : Sig) {kw kw' : List (String × Val)} (h : AssocRel R kw kw') :
    ∀ {b b' : Bound}, BoundRel R b b' → OptRel (BoundRel R) (bindKeywords sig kw b) (bindKeywords sig kw' b') := by
  induction h with
  | nil => intro b b' hb; exact .some hb
  | @cons k v v' l l' hr _ ih =>
    intro b b' hb
    simp only [bindKeywords, (slookup_rel hb.1 k).isSome_eq, (slookup_rel hb.2.2 k).isSome_eq]
    split
    · split
      · exact .none
      · exact ih ⟨hb.1.append (.cons hr .nil), hb.2.1, hb.2.2⟩
    · split
      · split
        · exact .none
        · exact ih ⟨hb.1, hb.2.1, hb.2.2.append (.cons hr .nil)⟩
      · exact .none

theorem fillDefaults_rel (hS : ∀ d, R (.scalar d) (.scalar d)) :
    ∀ (sig : Sig) {named named' : List (String × Val)}, AssocRel R named named' →
    OptRel (AssocRel R) (fillDefaults sig named) (fillDefaults sig named')
  | [], _, _, _ => .some .nil
  | p :: rest, named, named', h => by
    have ih := fillDefaults_rel hS rest h
    simp only [fillDefaults]
    split
    · exact ih
    · rcases (slookup_rel h p.name).elim with ⟨e, e'⟩ | ⟨x, x', e, e', hx⟩
      · rw [e, e']
        cases hd : p.dflt with
        | none => exact .none
        | some d =>
          simp only
          rcases ih.elim with ⟨f, f'⟩ | ⟨y, y', f, f', hy⟩
          · rw [f, f']; exact .none
          · rw [f, f']; exact .some (.cons (hS d) hy)
      · rw [e, e']
        simp only
        rcases ih.elim with ⟨f, f'⟩ | ⟨y, y', f, f', hy⟩
        · rw [f, f']; exact .none
        · rw [f, f']; exact .some (.cons hx hy)

theorem bindPy_rel (hS : ∀ d, R (.scalar d) (.scalar d)) (sig : Sig) {pos pos' : List Val}
    {kw kw' : List (String × Val)} (hp : ListRel R pos pos') (hk : AssocRel R kw kw') :
    OptRel (BoundRel R) (bindPy sig pos kw) (bindPy sig pos' kw') := by
  obtain ⟨h1, h2⟩ := bindPositional_rel (R := R) (posParams sig) hp
  have e2 : (bindPositional (posParams sig) pos').2.isEmpty = (bindPositional (posParams sig) pos).2.isEmpty := by
    have := h2.length_eq
    cases x : (bindPositional (posParams sig) pos).2 <;> cases y : (bindPositional (posParams sig) pos').2 <;>
      simp [x, y] at this ⊢
  simp only [bindPy, dupKeys_rel hk, e2]
  split
  · exact .none
  · split
    · exact .none
    · have hb0 : BoundRel R
          ({ named := (bindPositional (posParams sig) pos).1,
             varargs := (bindPositional (posParams sig) pos).2 } : Bound)
          ({ named := (bindPositional (posParams sig) pos').1,
             varargs := (bindPositional (posParams sig) pos').2 } : Bound) := ⟨h1, h2, .nil⟩
      rcases (bindKeywords_rel sig hk hb0).elim with ⟨e, e'⟩ | ⟨b, b', e, e', hb⟩
      · rw [e, e']; exact .none
      · rw [e, e']
        simp only
        rcases (fillDefaults_rel hS sig hb.1).elim with ⟨f, f'⟩ | ⟨y, y', f, f', hy⟩
        · rw [f, f']; exact .none
        · rw [f, f']; exact .some ⟨hy, hb.2.1, hb.2.2⟩

end args

end AY
