/-
  AY.Lemmas.C18CongrDefs — the relations of the C18 merge-congruence proof and their list algebra.

  `congN s n n'` ("interchangeable as an accumulated tree"): same kinds, keys, key order, scalar
  content, user metadata, source-level safe flag and source file, same effective priority and the
  same explicit `delete = True` at every node; where `s = true` also the same explicit and inherited
  `safe = False` — compared down to (and including) the first node that states `safe = False`
  explicitly; below such a node every node is unsafe anyway (flag consistency) and nothing is
  required of the safe flags.  The raw `_priority/_delete/_allow_new/_implicit_delete/_implicit_allow_new`
  may differ: an accumulated tree's own `delete`/`allow_new` are never read by a merge.

  `docN n n'` ("interchangeable as a document that is merged INTO a tree"): the same effective
  `delete` and `allow_new` at every node — these are read from the newer document.

  The dump round trip gives both (`AY/Lemmas/C18CongrFlatten.lean`), merging preserves `congN`
  (`AY/Lemmas/C18CongrMerge.lean`).
-/
import AY.Lemmas.C19Flatten
import AY.Lemmas.C18Effective
set_option linter.unusedVariables false
set_option linter.unusedSimpArgs false
namespace AY

/-- explicit `safe = False` -/
def uS (f : Flags) : Bool := f.safe == some false
/-- inherited `safe = False` -/
def uI (f : Flags) : Bool := f.iSafe == some false

/-- the flags of two interchangeable nodes (`s`: the safe flags are compared) -/
def congF (s : Bool) (f f' : Flags) : Bool :=
  ePrio f == ePrio f' && f.md == f'.md && f.dSafe == f'.dSafe && f.src == f'.src &&
  ((f.del == some true) == (f'.del == some true)) && (!s || (uI f == uI f' && uS f == uS f'))

mutual
def congN (s : Bool) : Node → Node → Bool
  | .leaf f k, .leaf f' k' => k == k' && congF s f f'
  | .comp f k cs, .comp f' k' cs' => k == k' && congF s f f' && congL (s && !uS f) cs cs'
  | _, _ => false
def congL (s : Bool) : List (Key × Node) → List (Key × Node) → Bool
  | [], [] => true
  | (k, c) :: r, (k', c') :: r' => k == k' && congN s c c' && congL s r r'
  | _, _ => false
end

/-- the flags a merge reads from the NEWER node: effective delete and allow_new -/
def docF (n n' : Node) : Bool := eDel n == eDel n' && eNew n.flags == eNew n'.flags

mutual
def docN : Node → Node → Bool
  | .leaf f k, .leaf f' k' => docF (.leaf f k) (.leaf f' k')
  | .comp f k cs, .comp f' k' cs' => k == k' && docF (.comp f k cs) (.comp f' k' cs') && docL cs cs'
  | _, _ => false
def docL : List (Key × Node) → List (Key × Node) → Bool
  | [], [] => true
  | (_, c) :: r, (_, c') :: r' => docN c c' && docL r r'
  | _, _ => false
end

/-! ### flags -/

theorem congF_iff (s : Bool) (f f' : Flags) : congF s f f' = true ↔
    ePrio f = ePrio f' ∧ f.md = f'.md ∧ f.dSafe = f'.dSafe ∧ f.src = f'.src ∧
    ((f.del == some true) = (f'.del == some true)) ∧ (s = true → uI f = uI f' ∧ uS f = uS f') := by
  cases s <;> simp [congF, and_assoc]

theorem congF_refl (s : Bool) (f : Flags) : congF s f f = true := by
  rw [congF_iff]; exact ⟨rfl, rfl, rfl, rfl, rfl, fun _ => ⟨rfl, rfl⟩⟩

theorem congF_mono {s s' : Bool} {f f' : Flags} (hs : s' = true → s = true) (h : congF s f f' = true) :
    congF s' f f' = true := by
  rw [congF_iff] at h ⊢
  exact ⟨h.1, h.2.1, h.2.2.1, h.2.2.2.1, h.2.2.2.2.1, fun e => h.2.2.2.2.2 (hs e)⟩

theorem congF_prio {s : Bool} {f f' : Flags} (h : congF s f f' = true) : ePrio f = ePrio f' :=
  ((congF_iff s f f').1 h).1

theorem congF_delTrue {s : Bool} {f f' : Flags} (h : congF s f f' = true) :
    (f.del == some true) = (f'.del == some true) := ((congF_iff s f f').1 h).2.2.2.2.1

theorem congF_uS {f f' : Flags} (h : congF true f f' = true) : uS f = uS f' :=
  (((congF_iff true f f').1 h).2.2.2.2.2 rfl).2

theorem congF_uI {f f' : Flags} (h : congF true f f' = true) : uI f = uI f' :=
  (((congF_iff true f f').1 h).2.2.2.2.2 rfl).1

/-- the mode of the children is the same on both sides -/
theorem childMode_eq {s : Bool} {f f' : Flags} (h : congF s f f' = true) : (s && !uS f) = (s && !uS f') := by
  cases s with
  | false => rfl
  | true => rw [congF_uS h]

theorem hasPrio_cong {a a' b b' : Flags} (ha : ePrio a = ePrio a') (hb : ePrio b = ePrio b') (e : Bool) :
    hasPrio a b e = hasPrio a' b' e := by
  simp only [hasPrio, ha, hb]

/-- equal effective safety where the safe flags are compared -/
theorem congF_eSafe {f f' : Flags} (h : congF true f f' = true) : eSafe f = eSafe f' := by
  have h1 := congF_uS h
  have h2 := congF_uI h
  have h3 := ((congF_iff true f f').1 h).2.2.1
  simp only [uS, uI] at h1 h2
  simp only [eSafe, h3]
  rcases hs : f.safe with _ | _ | _ <;> rcases hs' : f'.safe with _ | _ | _ <;>
    rcases hi : f.iSafe with _ | _ | _ <;> rcases hi' : f'.iSafe with _ | _ | _ <;> simp_all

/-! ### trees -/

mutual
theorem congN_refl : ∀ (s : Bool) (n : Node), congN s n n = true
  | s, .leaf f k => by simp [congN, congF_refl]
  | s, .comp f k cs => by simp [congN, congF_refl, congL_refl (s && !uS f) cs]
theorem congL_refl : ∀ (s : Bool) (l : List (Key × Node)), congL s l l = true
  | _, [] => rfl
  | s, (k, c) :: r => by simp [congL, congN_refl s c, congL_refl s r]
end

mutual
theorem docN_refl : ∀ (n : Node), docN n n = true
  | .leaf f k => by simp [docN, docF]
  | .comp f k cs => by simp [docN, docF, docL_refl cs]
theorem docL_refl : ∀ (l : List (Key × Node)), docL l l = true
  | [] => rfl
  | (k, c) :: r => by simp [docL, docN_refl c, docL_refl r]
end

mutual
theorem congN_mono : ∀ (n n' : Node) (s s' : Bool), (s' = true → s = true) → congN s n n' = true →
    congN s' n n' = true
  | .leaf f k, .leaf f' k', s, s', hs, h => by
    simp only [congN, Bool.and_eq_true] at h ⊢
    exact ⟨h.1, congF_mono hs h.2⟩
  | .comp f k cs, .comp f' k' cs', s, s', hs, h => by
    simp only [congN, Bool.and_eq_true] at h ⊢
    refine ⟨⟨h.1.1, congF_mono hs h.1.2⟩, congL_mono cs cs' _ _ ?_ h.2⟩
    intro e
    simp only [Bool.and_eq_true] at e ⊢
    exact ⟨hs e.1, e.2⟩
  | .leaf _ _, .comp _ _ _, _, _, _, h => by simp [congN] at h
  | .comp _ _ _, .leaf _ _, _, _, _, h => by simp [congN] at h
theorem congL_mono : ∀ (l l' : List (Key × Node)) (s s' : Bool), (s' = true → s = true) → congL s l l' = true →
    congL s' l l' = true
  | [], [], _, _, _, _ => rfl
  | (k, c) :: r, (k', c') :: r', s, s', hs, h => by
    simp only [congL, Bool.and_eq_true] at h ⊢
    exact ⟨⟨h.1.1, congN_mono c c' s s' hs h.1.2⟩, congL_mono r r' s s' hs h.2⟩
  | [], _ :: _, _, _, _, h => by simp [congL] at h
  | _ :: _, [], _, _, _, h => by simp [congL] at h
end

theorem congN_false {s : Bool} {n n' : Node} (h : congN s n n' = true) : congN false n n' = true :=
  congN_mono n n' s false (fun e => by cases e) h

theorem congL_false {s : Bool} {l l' : List (Key × Node)} (h : congL s l l' = true) : congL false l l' = true :=
  congL_mono l l' s false (fun e => by cases e) h

theorem congN_leaf_inv {s : Bool} {f : Flags} {k : LeafKind} {n' : Node} (h : congN s (.leaf f k) n' = true) :
    ∃ f', n' = .leaf f' k ∧ congF s f f' = true := by
  cases n' with
  | comp f' k' cs' => simp [congN] at h
  | leaf f' k' =>
    simp only [congN, Bool.and_eq_true, beq_iff_eq] at h
    obtain ⟨rfl, h2⟩ := h
    exact ⟨f', rfl, h2⟩

theorem congN_comp_inv {s : Bool} {f : Flags} {k : CompKind} {cs : List (Key × Node)} {n' : Node}
    (h : congN s (.comp f k cs) n' = true) :
    ∃ f' cs', n' = .comp f' k cs' ∧ congF s f f' = true ∧ congL (s && !uS f) cs cs' = true := by
  cases n' with
  | leaf f' k' => simp [congN] at h
  | comp f' k' cs' =>
    simp only [congN, Bool.and_eq_true, beq_iff_eq] at h
    obtain ⟨⟨rfl, h2⟩, h3⟩ := h
    exact ⟨f', cs', rfl, h2, h3⟩

theorem congN_comp_iff {s : Bool} {f f' : Flags} {k k' : CompKind} {cs cs' : List (Key × Node)} :
    congN s (.comp f k cs) (.comp f' k' cs') = true ↔
      k = k' ∧ congF s f f' = true ∧ congL (s && !uS f) cs cs' = true := by
  simp only [congN, Bool.and_eq_true, beq_iff_eq, and_assoc]

theorem congN_leaf_iff {s : Bool} {f f' : Flags} {k k' : LeafKind} :
    congN s (.leaf f k) (.leaf f' k') = true ↔ k = k' ∧ congF s f f' = true := by
  simp only [congN, Bool.and_eq_true, beq_iff_eq]

theorem congN_flags {s : Bool} {n n' : Node} (h : congN s n n' = true) : congF s n.flags n'.flags = true := by
  cases n with
  | leaf f k => obtain ⟨f', rfl, h2⟩ := congN_leaf_inv h; exact h2
  | comp f k cs => obtain ⟨f', cs', rfl, h2, _⟩ := congN_comp_inv h; exact h2

theorem congN_isComp {s : Bool} {n n' : Node} (h : congN s n n' = true) : n.isComp = n'.isComp := by
  cases n with
  | leaf f k => obtain ⟨f', rfl, _⟩ := congN_leaf_inv h; rfl
  | comp f k cs => obtain ⟨f', cs', rfl, _, _⟩ := congN_comp_inv h; rfl

theorem congN_isDict {s : Bool} {n n' : Node} (h : congN s n n' = true) : n.isDict = n'.isDict := by
  cases n with
  | leaf f k => obtain ⟨f', rfl, _⟩ := congN_leaf_inv h; rfl
  | comp f k cs => obtain ⟨f', cs', rfl, _, _⟩ := congN_comp_inv h; rfl

theorem congL_cons_iff {s : Bool} {k k' : Key} {c c' : Node} {r r' : List (Key × Node)} :
    congL s ((k, c) :: r) ((k', c') :: r') = true ↔ k = k' ∧ congN s c c' = true ∧ congL s r r' = true := by
  simp only [congL, Bool.and_eq_true, beq_iff_eq, and_assoc]

theorem congL_nil_inv {s : Bool} {l' : List (Key × Node)} (h : congL s [] l' = true) : l' = [] := by
  cases l' with
  | nil => rfl
  | cons a b => simp [congL] at h

theorem congL_cons_inv {s : Bool} {k : Key} {c : Node} {r l' : List (Key × Node)}
    (h : congL s ((k, c) :: r) l' = true) :
    ∃ c' r', l' = (k, c') :: r' ∧ congN s c c' = true ∧ congL s r r' = true := by
  cases l' with
  | nil => simp [congL] at h
  | cons a b =>
    obtain ⟨k', c'⟩ := a
    obtain ⟨rfl, h2, h3⟩ := congL_cons_iff.1 h
    exact ⟨c', b, rfl, h2, h3⟩

theorem congL_length : ∀ {s : Bool} {l l' : List (Key × Node)}, congL s l l' = true → l.length = l'.length
  | _, [], l', h => by rw [congL_nil_inv h]
  | s, (k, c) :: r, l', h => by
    obtain ⟨c', r', rfl, _, h3⟩ := congL_cons_inv h
    simp [congL_length h3]

theorem congL_isEmpty {s : Bool} {l l' : List (Key × Node)} (h : congL s l l' = true) : l.isEmpty = l'.isEmpty := by
  cases l with
  | nil => rw [congL_nil_inv h]
  | cons a r => obtain ⟨k, c⟩ := a; obtain ⟨c', r', rfl, _, _⟩ := congL_cons_inv h; rfl

theorem congN_truthy {s : Bool} {n n' : Node} (h : congN s n n' = true) : n.truthy = n'.truthy := by
  cases n with
  | leaf f k => obtain ⟨f', rfl, _⟩ := congN_leaf_inv h; rfl
  | comp f k cs =>
    obtain ⟨f', cs', rfl, _, h3⟩ := congN_comp_inv h
    simp only [Node.truthy, congL_isEmpty h3]

theorem congN_children {s : Bool} {n n' : Node} (h : congN s n n' = true) :
    congL (s && !uS n.flags) n.children n'.children = true := by
  cases n with
  | leaf f k => obtain ⟨f', rfl, _⟩ := congN_leaf_inv h; rfl
  | comp f k cs => obtain ⟨f', cs', rfl, _, h3⟩ := congN_comp_inv h; exact h3

mutual
theorem congN_depth : ∀ {s : Bool} (n n' : Node), congN s n n' = true → n.depth = n'.depth
  | _, .leaf f k, n', h => by obtain ⟨f', rfl, _⟩ := congN_leaf_inv h; rfl
  | s, .comp f k cs, n', h => by
    obtain ⟨f', cs', rfl, _, h3⟩ := congN_comp_inv h
    simp only [Node.depth, congL_depth cs cs' h3]
theorem congL_depth : ∀ {s : Bool} (l l' : List (Key × Node)), congL s l l' = true → depthList l = depthList l'
  | _, [], l', h => by rw [congL_nil_inv h]
  | s, (k, c) :: r, l', h => by
    obtain ⟨c', r', rfl, h2, h3⟩ := congL_cons_inv h
    simp only [depthList, congN_depth c c' h2, congL_depth r r' h3]
end

/-! ### association lists -/

theorem congL_alookup : ∀ {s : Bool} {l l' : List (Key × Node)}, congL s l l' = true → ∀ (key : Key),
    (alookup key l = none ∧ alookup key l' = none) ∨
      ∃ c c', alookup key l = some c ∧ alookup key l' = some c' ∧ congN s c c' = true
  | _, [], l', h, key => by rw [congL_nil_inv h]; exact .inl ⟨rfl, rfl⟩
  | s, (k, c) :: r, l', h, key => by
    obtain ⟨c', r', rfl, h2, h3⟩ := congL_cons_inv h
    simp only [alookup]
    by_cases hk : k = key
    · simp only [hk, if_true]
      exact .inr ⟨c, c', rfl, rfl, h2⟩
    · simp only [hk, if_false]
      exact congL_alookup h3 key

theorem congL_ahas {s : Bool} {l l' : List (Key × Node)} (h : congL s l l' = true) (key : Key) :
    ahas key l = ahas key l' := by
  simp only [ahas]
  rcases congL_alookup h key with ⟨e1, e2⟩ | ⟨c, c', e1, e2, _⟩ <;> rw [e1, e2] <;> rfl

theorem congL_aset : ∀ {s : Bool} {l l' : List (Key × Node)} {v v' : Node} (key : Key), congL s l l' = true →
    congN s v v' = true → congL s (aset key v l) (aset key v' l') = true
  | _, [], l', v, v', key, h, hv => by
    rw [congL_nil_inv h]; simp [aset, congL, hv]
  | s, (k, c) :: r, l', v, v', key, h, hv => by
    obtain ⟨c', r', rfl, h2, h3⟩ := congL_cons_inv h
    simp only [aset]
    by_cases hk : k = key
    · simp only [hk, if_true]
      exact congL_cons_iff.2 ⟨rfl, hv, h3⟩
    · simp only [hk, if_false]
      exact congL_cons_iff.2 ⟨rfl, h2, congL_aset key h3 hv⟩

theorem congL_aerase : ∀ {s : Bool} {l l' : List (Key × Node)} (key : Key), congL s l l' = true →
    congL s (aerase key l) (aerase key l') = true
  | _, [], l', key, h => by rw [congL_nil_inv h]; rfl
  | s, (k, c) :: r, l', key, h => by
    obtain ⟨c', r', rfl, h2, h3⟩ := congL_cons_inv h
    simp only [aerase]
    by_cases hk : k = key
    · simp only [hk, if_true]; exact h3
    · simp only [hk, if_false]
      exact congL_cons_iff.2 ⟨rfl, h2, congL_aerase key h3⟩

theorem congL_append : ∀ {s : Bool} {a a' b b' : List (Key × Node)}, congL s a a' = true → congL s b b' = true →
    congL s (a ++ b) (a' ++ b') = true
  | _, [], a', b, b', h, hb => by rw [congL_nil_inv h]; exact hb
  | s, (k, c) :: r, a', b, b', h, hb => by
    obtain ⟨c', r', rfl, h2, h3⟩ := congL_cons_inv h
    exact congL_cons_iff.2 ⟨rfl, h2, congL_append h3 hb⟩

theorem congL_take : ∀ {s : Bool} {l l' : List (Key × Node)} (i : Nat), congL s l l' = true →
    congL s (l.take i) (l'.take i) = true
  | _, l, l', 0, _ => by simp [congL]
  | _, [], l', i + 1, h => by rw [congL_nil_inv h]; rfl
  | s, (k, c) :: r, l', i + 1, h => by
    obtain ⟨c', r', rfl, h2, h3⟩ := congL_cons_inv h
    simp only [List.take_succ_cons]
    exact congL_cons_iff.2 ⟨rfl, h2, congL_take i h3⟩

theorem congL_drop : ∀ {s : Bool} {l l' : List (Key × Node)} (i : Nat), congL s l l' = true →
    congL s (l.drop i) (l'.drop i) = true
  | _, l, l', 0, h => by simpa using h
  | _, [], l', i + 1, h => by rw [congL_nil_inv h]; rfl
  | s, (k, c) :: r, l', i + 1, h => by
    obtain ⟨c', r', rfl, h2, h3⟩ := congL_cons_inv h
    simp only [List.drop_succ_cons]
    exact congL_drop i h3

/-- renumbering the images of related lists under related maps -/
theorem congL_renum_map {s : Bool} {g g' : Node → Node} (P P' : Node → Prop)
    (hg : ∀ x x', congN s x x' = true → P x → P' x' → congN s (g x) (g' x') = true) :
    ∀ (l l' : List (Key × Node)) (j : Nat), congL s l l' = true → (∀ kv, kv ∈ l → P kv.2) → (∀ kv, kv ∈ l' → P' kv.2) →
      congL s (renumFrom j (l.map (fun kv => g kv.2))) (renumFrom j (l'.map (fun kv => g' kv.2))) = true
  | [], l', j, h, _, _ => by rw [congL_nil_inv h]; rfl
  | (k, c) :: r, l', j, h, hp, hp' => by
    obtain ⟨c', r', rfl, h2, h3⟩ := congL_cons_inv h
    simp only [List.map_cons, renumFrom]
    refine congL_cons_iff.2 ⟨rfl, hg c c' h2 (hp (k, c) (by simp)) (hp' (k, c') (by simp)), ?_⟩
    exact congL_renum_map P P' hg r r' (j + 1) h3 (fun kv hm => hp kv (List.mem_cons_of_mem _ hm))
      (fun kv hm => hp' kv (List.mem_cons_of_mem _ hm))

theorem renumFrom_append {α : Type} : ∀ (a b : List α) (j : Nat),
    renumFrom j (a ++ b) = renumFrom j a ++ renumFrom (j + a.length) b
  | [], b, j => by simp [renumFrom]
  | x :: a, b, j => by
    have e : j + 1 + a.length = j + (a.length + 1) := by omega
    simp only [List.cons_append, renumFrom, List.length_cons, renumFrom_append a b (j + 1), e]

/-! ### the document relation -/

theorem docN_leaf_inv {f : Flags} {k : LeafKind} {n' : Node} (h : docN (.leaf f k) n' = true) :
    ∃ f' k', n' = .leaf f' k' ∧ docF (.leaf f k) (.leaf f' k') = true := by
  cases n' with
  | comp f' k' cs' => simp [docN] at h
  | leaf f' k' => exact ⟨f', k', rfl, by simpa [docN] using h⟩

theorem docN_comp_iff {f f' : Flags} {k k' : CompKind} {cs cs' : List (Key × Node)} :
    docN (.comp f k cs) (.comp f' k' cs') = true ↔
      k = k' ∧ docF (.comp f k cs) (.comp f' k' cs') = true ∧ docL cs cs' = true := by
  simp only [docN, Bool.and_eq_true, beq_iff_eq, and_assoc]

theorem docL_cons_iff {k k' : Key} {c c' : Node} {r r' : List (Key × Node)} :
    docL ((k, c) :: r) ((k', c') :: r') = true ↔ docN c c' = true ∧ docL r r' = true := by
  simp only [docL, Bool.and_eq_true]

theorem docF_iff (n n' : Node) : docF n n' = true ↔ eDel n = eDel n' ∧ eNew n.flags = eNew n'.flags := by
  simp [docF]

theorem docN_eDel {n n' : Node} (h : docN n n' = true) : eDel n = eDel n' := by
  cases n with
  | leaf f k =>
    obtain ⟨f', k', rfl, h2⟩ := docN_leaf_inv h
    exact ((docF_iff _ _).1 h2).1
  | comp f k cs =>
    cases n' with
    | leaf f' k' => simp [docN] at h
    | comp f' k' cs' => exact ((docF_iff _ _).1 (docN_comp_iff.1 h).2.1).1

theorem docN_eNew {n n' : Node} (h : docN n n' = true) : eNew n.flags = eNew n'.flags := by
  cases n with
  | leaf f k =>
    obtain ⟨f', k', rfl, h2⟩ := docN_leaf_inv h
    exact ((docF_iff _ _).1 h2).2
  | comp f k cs =>
    cases n' with
    | leaf f' k' => simp [docN] at h
    | comp f' k' cs' => exact ((docF_iff _ _).1 (docN_comp_iff.1 h).2.1).2

/-- `docL` of lists that are also `congL`-related (same keys): pointwise -/
theorem docL_alookup : ∀ {s : Bool} {l l' : List (Key × Node)}, congL s l l' = true → docL l l' = true →
    ∀ (key : Key) (c c' : Node), alookup key l = some c → alookup key l' = some c' → docN c c' = true
  | _, [], l', h, _, key, c, c', e, _ => by simp [alookup] at e
  | s, (k, x) :: r, l', h, hd, key, c, c', e, e' => by
    obtain ⟨x', r', rfl, h2, h3⟩ := congL_cons_inv h
    rw [docL_cons_iff] at hd
    simp only [alookup] at e e'
    by_cases hk : k = key
    · simp only [hk, if_true, Option.some.injEq] at e e'
      subst e; subst e'; exact hd.1
    · simp only [hk, if_false] at e e'
      exact docL_alookup h3 hd.2 key c c' e e'

theorem docL_aerase : ∀ {s : Bool} {l l' : List (Key × Node)} (key : Key), congL s l l' = true → docL l l' = true →
    docL (aerase key l) (aerase key l') = true
  | _, [], l', key, h, _ => by rw [congL_nil_inv h]; rfl
  | s, (k, c) :: r, l', key, h, hd => by
    obtain ⟨c', r', rfl, h2, h3⟩ := congL_cons_inv h
    rw [docL_cons_iff] at hd
    simp only [aerase]
    by_cases hk : k = key
    · simp only [hk, if_true]; exact hd.2
    · simp only [hk, if_false]
      exact docL_cons_iff.2 ⟨hd.1, docL_aerase key h3 hd.2⟩

theorem docL_nil_inv {l' : List (Key × Node)} (h : docL [] l' = true) : l' = [] := by
  cases l' with
  | nil => rfl
  | cons a b => simp [docL] at h

theorem docL_cons_inv {k : Key} {c : Node} {r l' : List (Key × Node)} (h : docL ((k, c) :: r) l' = true) :
    ∃ k' c' r', l' = (k', c') :: r' ∧ docN c c' = true ∧ docL r r' = true := by
  cases l' with
  | nil => simp [docL] at h
  | cons a b => obtain ⟨k', c'⟩ := a; exact ⟨k', c', b, rfl, docL_cons_iff.1 h⟩

theorem docL_append : ∀ {a a' b b' : List (Key × Node)}, docL a a' = true → docL b b' = true →
    docL (a ++ b) (a' ++ b') = true
  | [], a', b, b', h, hb => by rw [docL_nil_inv h]; exact hb
  | (k, c) :: r, a', b, b', h, hb => by
    obtain ⟨k', c', r', rfl, h2, h3⟩ := docL_cons_inv h
    exact docL_cons_iff.2 ⟨h2, docL_append h3 hb⟩

theorem docL_take : ∀ {l l' : List (Key × Node)} (i : Nat), docL l l' = true → docL (l.take i) (l'.take i) = true
  | l, l', 0, _ => by simp [docL]
  | [], l', i + 1, h => by rw [docL_nil_inv h]; rfl
  | (k, c) :: r, l', i + 1, h => by
    obtain ⟨k', c', r', rfl, h2, h3⟩ := docL_cons_inv h
    simp only [List.take_succ_cons]
    exact docL_cons_iff.2 ⟨h2, docL_take i h3⟩

theorem docL_drop : ∀ {l l' : List (Key × Node)} (i : Nat), docL l l' = true → docL (l.drop i) (l'.drop i) = true
  | l, l', 0, h => by simpa using h
  | [], l', i + 1, h => by rw [docL_nil_inv h]; rfl
  | (k, c) :: r, l', i + 1, h => by
    obtain ⟨k', c', r', rfl, h2, h3⟩ := docL_cons_inv h
    simp only [List.drop_succ_cons]
    exact docL_drop i h3

theorem docL_renum : ∀ (l l' : List (Key × Node)) (j : Nat), docL l l' = true →
    docL (renumFrom j (l.map (·.2))) (renumFrom j (l'.map (·.2))) = true
  | [], l', j, h => by rw [docL_nil_inv h]; rfl
  | (k, c) :: r, l', j, h => by
    obtain ⟨k', c', r', rfl, h2, h3⟩ := docL_cons_inv h
    simp only [List.map_cons, renumFrom]
    exact docL_cons_iff.2 ⟨h2, docL_renum r r' (j + 1) h3⟩

end AY
