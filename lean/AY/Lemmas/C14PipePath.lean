/-
  AY.Lemmas.C14PipePath — NODE-level composition of a merge along a path of plain non-deleting mappings
  (the data-level versions are in AY/Lemmas/C04Path.lean; `native` does not see a `!required` leaf, the
  skeleton of AY/Lemmas/C14PipeSkel.lean does):

  * `skel_at_live_path`   both trees have a node at `k :: p`: the skeleton the merge leaves at and below the
                          path is what ONE iteration of the key loop (`stepAt`) makes of the two nodes;
  * `skel_frame_diverges` a path the newer tree does not mention keeps its whole subtree (through every
                          container class below the point of divergence), and stays a mapping spine;
  * `skel_new_entry`      a path only the newer tree has holds the newer subtree;
  * `step_over_placeholder`, `step_placeholder_wins`, `del_exact_local_skel`   the local steps;
  * `overwritten_at`, `placeholder_survives_at`, `del_exact_skel_at`           composed.
-/
import AY.Lemmas.C14PipeSkel
import AY.Lemmas.C04PathMerge
namespace AY.C14P
open AY.C04P

/-! ### the spine predicates see the skeleton only -/

def Skel.dictAlong : Path → Skel → Bool
  | [], _ => true
  | _ :: _, .leaf _ => false
  | k :: p, .comp ck cs =>
    match ck with
    | .dict =>
      keysNodup cs &&
        (match alookup k cs with
         | none => true
         | some c => Skel.dictAlong p c)
    | _ => false

theorem akeys_skelList : ∀ cs : List (Key × Node), akeys (skelList cs) = akeys cs
  | [] => rfl
  | (k, c) :: rest => by simp [skelList, akeys, akeys_skelList rest]

theorem keysNodup_skelList : ∀ cs : List (Key × Node), keysNodup (skelList cs) = keysNodup cs
  | [] => rfl
  | (k, c) :: rest => by simp [skelList, keysNodup, akeys_skelList rest, keysNodup_skelList rest]

theorem dictAlong_skel : ∀ (q : Path) (n : Node), dictAlong q n = Skel.dictAlong q (skel n)
  | [], _ => rfl
  | _ :: _, .leaf .. => rfl
  | k :: q, .comp f ck cs => by
    cases ck <;> try rfl
    simp only [dictAlong, skel, Skel.dictAlong, keysNodup_skelList, alookup_skelList]
    cases alookup k cs with
    | none => rfl
    | some c => simp [dictAlong_skel q c]

theorem dictAlong_congr {a b : Node} (h : skel a = skel b) (q : Path) : dictAlong q a = dictAlong q b := by
  rw [dictAlong_skel, dictAlong_skel, h]

theorem dictAlong_propagate (q : Path) (n : Node) : dictAlong q (propagate n) = dictAlong q n :=
  dictAlong_congr (skel_propagate n) q

theorem dictAlong_adopt (q : Path) (pf : Flags) (pk : CompKind) (n : Node) :
    dictAlong q (adopt pf pk n) = dictAlong q n :=
  dictAlong_congr (skel_adopt pf pk n) q

/-- a path that leaves a tree below a plain non-deleting mapping runs through mappings -/
theorem dictAlong_of_diverges : ∀ (q : Path) (n : Node), divergesLive q n = true → dictAlong q n = true
  | [], _, h => by simp [divergesLive] at h
  | k :: q, n, h => by
    obtain ⟨f, cs, rfl, _, hn, hc⟩ := divergesLive_cons h
    simp only [dictAlong, hn, Bool.true_and]
    cases hl : alookup k cs with
    | none => rfl
    | some c => exact dictAlong_of_diverges q c (hc c hl)

/-- a path the tree does not mention holds no node, and nothing below it -/
theorem skel_at_none_of_diverges : ∀ (q : Path) (n : Node), divergesLive q n = true →
    ∀ q', (skel n).at? (q ++ q') = none
  | [], _, h => by simp [divergesLive] at h
  | k :: q, n, h => by
    obtain ⟨f, cs, rfl, _, _, hc⟩ := divergesLive_cons h
    intro q'
    rw [List.cons_append, at_skel_comp]
    cases hl : alookup k cs with
    | none => rfl
    | some c => simp [skel_at_none_of_diverges q c (hc c hl) q']

/-! ### one iteration of the key loop on an existing entry, as a skeleton -/

theorem stepAt_some_skel {rec : Node → Node → Except Err (Node × Bool)} {sf : Flags} {exc : List Path}
    {k : Key} {c v : Node} {x? : Option Node} (h : stepAt rec sf exc k (some c) v = .ok x?) :
    ∃ nw same, rec c v = .ok (nw, same) ∧
      x?.map skel = if stepRemovesB c v nw same then none else some (skel nw) := by
  simp only [stepAt] at h
  cases hr : rec c v with
  | error e => simp [hr] at h
  | ok res =>
    obtain ⟨nw, same⟩ := res
    refine ⟨nw, same, rfl, ?_⟩
    simp only [hr] at h
    simp only [stepRemovesB]
    by_cases hc : c.isComp = true
    · simp only [hc, if_true] at h ⊢
      split at h
      · rename_i hrem
        injection h with h; subst h
        simp [hrem]
      · rename_i hrem
        have hrem' : (!nw.truthy && !hasPrio nw.flags v.flags false && v.flags.del == some true) = false := by
          simpa using hrem
        rw [hrem']
        split at h <;> (injection h with h; subst h; simp [skel_adopt])
    · simp only [hc] at h ⊢
      cases same with
      | true =>
        simp only [if_true] at h
        injection h with h; subst h
        simp
      | false =>
        simp only [Bool.false_eq_true, if_false] at h
        cases hq : reqNewBelow nw with
        | some p => simp [hq] at h
        | none =>
          simp only [hq] at h
          split at h
          · rename_i hrem
            injection h with h; subst h
            simp [hrem]
          · rename_i hrem
            have hrem' : (!nw.truthy && nw.flags.del == some true) = false := by simpa using hrem
            injection h with h; subst h
            simp [hrem', skel_adopt]

/-- the children the key loop leaves (with their distinct keys), before the final re-propagation -/
theorem compMerge_live_children' (rec : Node → Node → Except Err (Node × Bool)) (sf of : Flags)
    (scs ocs : List (Key × Node)) (hlive : eDel (.comp of .dict ocs) = false)
    (hns : keysNodup scs = true) (hno : keysNodup ocs = true) (r : Node) (s : Bool)
    (h : compMerge rec sf .dict scs (.comp of .dict ocs) = .ok (r, s)) :
    ∃ scs', r = propagate (.comp (finishFlags sf of) .dict scs') ∧ keysNodup scs' = true ∧
      ∀ k, match alookup k ocs with
        | none => alookup k scs' = alookup k scs
        | some v => stepAt rec sf [] k (alookup k scs) v = .ok (alookup k scs') := by
  obtain ⟨_, h2⟩ := mergeLoop_dict_pointwise rec sf [] ocs scs hno hns
  simp only [compMerge, hlive, Bool.false_eq_true, if_false, finishMerge_dict] at h
  cases hl : mergeLoop rec sf .dict [] scs ocs with
  | error e => rw [hl] at h; cases h
  | ok scs' =>
    rw [hl] at h
    simp only [Except.ok.injEq, Prod.mk.injEq] at h
    exact ⟨scs', h.1.symm, (h2 scs' hl).1, (h2 scs' hl).2⟩

theorem dictAlong_result (F : Flags) (scs' : List (Key × Node)) (k : Key) (q : Path)
    (hn : keysNodup scs' = true) (hc : ∀ c, alookup k scs' = some c → dictAlong q c = true) :
    dictAlong (k :: q) (propagate (.comp F .dict scs')) = true := by
  rw [dictAlong_propagate]
  simp only [dictAlong, hn, Bool.true_and]
  cases hl : alookup k scs' with
  | none => rfl
  | some c => exact hc c hl

/-! ### the skeleton at a path below plain non-deleting mappings -/

/-- PATH COMPOSITION (node level): both trees have a node at `k :: p`, the newer tree consists of plain
    non-deleting mappings above it: the skeleton a successful merge leaves at and below `k :: p` is the one
    ONE iteration of the key loop computes from the two nodes -/
theorem skel_at_live_path : ∀ (p : Path) (k : Key) (fuel : Nat) (s o r : Node) (b : Bool) (e d : Node),
    dictAlong (k :: p) s = true → liveAlong (k :: p) o = true → mergeF fuel s o = .ok (r, b) →
    getNode s (k :: p) = some e → getNode o (k :: p) = some d →
    ∃ fuel' sf kl x?, stepAt (mergeF fuel') sf [] kl (some e) d = .ok x? ∧
      ∀ q, (skel r).at? (k :: p ++ q) = (x?.map skel).bind (Skel.at? q) := by
  intro p
  induction p with
  | nil =>
    intro k fuel s o r b e d hs ho h hse hod
    obtain ⟨sf, scs, rfl, hns, _⟩ := dictAlong_cons hs
    obtain ⟨of, ocs, rfl, hlive, hno, _⟩ := liveAlong_cons ho
    cases fuel with
    | zero => simp [mergeF] at h
    | succ fuel =>
      simp only [mergeF] at h
      obtain ⟨scs', hr, hpt⟩ := compMerge_live_children (mergeF fuel) sf of scs ocs hlive hns hno r b h
      obtain ⟨e', hle, hge⟩ := getNode_cons_dict hse
      obtain ⟨d', hld, hgd⟩ := getNode_cons_dict hod
      simp only [getNode, Option.some.injEq] at hge hgd
      subst hge; subst hgd
      have hk := hpt k
      rw [hld] at hk
      simp only [hle] at hk
      refine ⟨fuel, sf, k, alookup k scs', hk, ?_⟩
      intro q
      rw [hr]
      exact at_skel_propagate _ _ _ _ _
  | cons k' p ih =>
    intro k fuel s o r b e d hs ho h hse hod
    obtain ⟨sf, scs, rfl, hns, hsc⟩ := dictAlong_cons hs
    obtain ⟨of, ocs, rfl, hlive, hno, hoc⟩ := liveAlong_cons ho
    cases fuel with
    | zero => simp [mergeF] at h
    | succ fuel =>
      simp only [mergeF] at h
      obtain ⟨scs', hr, hpt⟩ := compMerge_live_children (mergeF fuel) sf of scs ocs hlive hns hno r b h
      obtain ⟨c, hlc, hgc⟩ := getNode_cons_dict hse
      obtain ⟨v, hlv, hgv⟩ := getNode_cons_dict hod
      have hk := hpt k
      rw [hlv] at hk
      simp only [hlc] at hk
      obtain ⟨nw, same, hm, hdata⟩ := stepAt_some_skel hk
      have hcomp : c.isComp = true := isComp_of_getNode_cons hgc
      obtain ⟨vf, vcs, rfl, hvlive, _, _⟩ := liveAlong_cons (hoc v hlv)
      have hdel := del_ne_of_live hvlive
      have hnr : stepRemovesB c (.comp vf .dict vcs) nw same = false := by
        simp only [stepRemovesB, hcomp, if_true, hdel, Bool.and_false]
      rw [hnr] at hdata
      simp only [Bool.false_eq_true, if_false] at hdata
      obtain ⟨fuel', sf', kl, x?, hx, hq⟩ :=
        ih k' fuel c (.comp vf .dict vcs) nw same e d (hsc c hlc) (hoc _ hlv) hm hgc hgv
      refine ⟨fuel', sf', kl, x?, hx, ?_⟩
      intro q
      rw [hr]
      have : k :: (k' :: p) ++ q = k :: (k' :: p ++ q) := rfl
      rw [this, at_skel_propagate, hdata]
      exact hq q

/-- FRAME (node level): a path the newer tree does not mention (it leaves the newer tree below a plain
    non-deleting mapping) keeps its node and EVERYTHING below it, through every container class; and the
    result still consists of mappings with distinct keys along the path -/
theorem skel_frame_diverges : ∀ (q : Path) (fuel : Nat) (s o r : Node) (b : Bool),
    dictAlong q s = true → divergesLive q o = true → mergeF fuel s o = .ok (r, b) →
    dictAlong q r = true ∧ ∀ q', (skel r).at? (q ++ q') = (skel s).at? (q ++ q')
  | [], _, _, _, _, _, _, ho, _ => by simp [divergesLive] at ho
  | k :: q, fuel, s, o, r, b, hs, ho, h => by
    obtain ⟨sf, scs, rfl, hns, hsc⟩ := dictAlong_cons hs
    obtain ⟨of, ocs, rfl, hlive, hno, hoc⟩ := divergesLive_cons ho
    cases fuel with
    | zero => simp [mergeF] at h
    | succ fuel =>
      simp only [mergeF] at h
      obtain ⟨scs', hr, hnd', hpt⟩ := compMerge_live_children' (mergeF fuel) sf of scs ocs hlive hns hno r b h
      have hk := hpt k
      subst hr
      cases hlv : alookup k ocs with
      | none =>
        rw [hlv] at hk
        simp only at hk
        refine ⟨dictAlong_result _ _ _ _ hnd' (fun c hc => hsc c (by rw [← hk]; exact hc)), ?_⟩
        intro q'
        rw [List.cons_append, at_skel_propagate, at_skel_comp, hk]
      | some v =>
        rw [hlv] at hk
        simp only at hk
        have hvd := hoc v hlv
        cases hlc : alookup k scs with
        | none =>
          rw [hlc] at hk
          simp only [stepAt, excBelow_nil] at hk
          cases hq : reqNew [] [] v with
          | some x => simp [hq] at hk
          | none =>
            simp only [hq, Except.ok.injEq] at hk
            refine ⟨dictAlong_result _ _ _ _ hnd' (fun c hc => ?_), ?_⟩
            · rw [← hk] at hc
              injection hc with hc
              rw [← hc, dictAlong_adopt]
              exact dictAlong_of_diverges q v hvd
            · intro q'
              rw [List.cons_append, at_skel_propagate, at_skel_comp, ← hk, hlc]
              simp [skel_adopt, skel_at_none_of_diverges q v hvd q']
        | some c =>
          rw [hlc] at hk
          obtain ⟨nw, same, hm, hdata⟩ := stepAt_some_skel hk
          cases q with
          | nil => simp [divergesLive] at hvd
          | cons k1 q1 =>
            obtain ⟨vf, vcs, rfl, hvlive, _, _⟩ := divergesLive_cons hvd
            obtain ⟨cf, ccs, rfl, _, _⟩ := dictAlong_cons (hsc c hlc)
            have hdel := del_ne_of_live hvlive
            have hnr : stepRemovesB (.comp cf .dict ccs) (.comp vf .dict vcs) nw same = false := by
              simp only [stepRemovesB, Node.isComp, if_true, hdel, Bool.and_false]
            rw [hnr] at hdata
            simp only [Bool.false_eq_true, if_false] at hdata
            obtain ⟨ih1, ih2⟩ := skel_frame_diverges (k1 :: q1) fuel _ _ nw same (hsc _ hlc) hvd hm
            cases hx : alookup k scs' with
            | none => simp [hx] at hdata
            | some x =>
              simp only [hx, Option.map_some, Option.some.injEq] at hdata
              refine ⟨dictAlong_result _ _ _ _ hnd' (fun c' hc' => ?_), ?_⟩
              · rw [hx] at hc'
                injection hc' with hc'
                rw [← hc', dictAlong_congr hdata]
                exact ih1
              · intro q'
                rw [List.cons_append, at_skel_propagate, at_skel_comp, hx, hlc]
                simp only [Option.map_some, Option.bind_some, hdata]
                exact ih2 q'

/-- NEW ENTRY (node level): a path only the newer tree has (the older tree consists of mappings along it as
    far as it exists) holds the newer subtree -/
theorem skel_new_entry : ∀ (p : Path) (k : Key) (fuel : Nat) (s o r : Node) (b : Bool) (d : Node),
    dictAlong (k :: p) s = true → liveAlong (k :: p) o = true → mergeF fuel s o = .ok (r, b) →
    getNode s (k :: p) = none → getNode o (k :: p) = some d →
    ∀ q, (skel r).at? (k :: p ++ q) = (skel d).at? q := by
  intro p
  induction p with
  | nil =>
    intro k fuel s o r b d hs ho h hse hod q
    obtain ⟨sf, scs, rfl, hns, _⟩ := dictAlong_cons hs
    obtain ⟨of, ocs, rfl, hlive, hno, _⟩ := liveAlong_cons ho
    cases fuel with
    | zero => simp [mergeF] at h
    | succ fuel =>
      simp only [mergeF] at h
      obtain ⟨scs', hr, hpt⟩ := compMerge_live_children (mergeF fuel) sf of scs ocs hlive hns hno r b h
      obtain ⟨d', hld, hgd⟩ := getNode_cons_dict hod
      simp only [getNode, Option.some.injEq] at hgd
      subst hgd
      have hle : alookup k scs = none := by
        simp only [getNode] at hse
        cases hl : alookup k scs with
        | none => rfl
        | some c => simp [hl] at hse
      have hk := hpt k
      rw [hld] at hk
      simp only [hle, stepAt, excBelow_nil] at hk
      cases hq : reqNew [] [] d' with
      | some x => simp [hq] at hk
      | none =>
        simp only [hq, Except.ok.injEq] at hk
        have e0 : [k] ++ q = k :: q := rfl
        rw [hr, e0, at_skel_propagate, ← hk]
        simp [skel_adopt]
  | cons k' p ih =>
    intro k fuel s o r b d hs ho h hse hod q
    obtain ⟨sf, scs, rfl, hns, hsc⟩ := dictAlong_cons hs
    obtain ⟨of, ocs, rfl, hlive, hno, hoc⟩ := liveAlong_cons ho
    cases fuel with
    | zero => simp [mergeF] at h
    | succ fuel =>
      simp only [mergeF] at h
      obtain ⟨scs', hr, hpt⟩ := compMerge_live_children (mergeF fuel) sf of scs ocs hlive hns hno r b h
      obtain ⟨v, hlv, hgv⟩ := getNode_cons_dict hod
      have hk := hpt k
      rw [hlv] at hk
      have e1 : k :: (k' :: p) ++ q = k :: (k' :: p ++ q) := rfl
      cases hlc : alookup k scs with
      | none =>
        simp only [hlc, stepAt, excBelow_nil] at hk
        cases hq : reqNew [] [] v with
        | some x => simp [hq] at hk
        | none =>
          simp only [hq, Except.ok.injEq] at hk
          rw [hr, e1, at_skel_propagate, ← hk]
          simp only [Option.map_some, Option.bind_some, skel_adopt]
          rw [Skel.at?_append, at_skel, hgv]
          rfl
      | some c =>
        simp only [hlc] at hk
        have hgc : getNode c (k' :: p) = none := by
          simp only [getNode, hlc] at hse
          exact hse
        obtain ⟨nw, same, hm, hdata⟩ := stepAt_some_skel hk
        obtain ⟨cf, ccs, rfl, _, _⟩ := dictAlong_cons (hsc c hlc)
        obtain ⟨vf, vcs, rfl, hvlive, _, _⟩ := liveAlong_cons (hoc v hlv)
        have hdel := del_ne_of_live hvlive
        have hnr : stepRemovesB (.comp cf .dict ccs) (.comp vf .dict vcs) nw same = false := by
          simp only [stepRemovesB, Node.isComp, if_true, hdel, Bool.and_false]
        rw [hnr] at hdata
        simp only [Bool.false_eq_true, if_false] at hdata
        rw [hr, e1, at_skel_propagate, hdata]
        exact ih k' fuel _ _ nw same d (hsc _ hlc) (hoc _ hlv) hm hgc hgv q

/-- a path along which a tree consists of plain non-deleting mappings runs through mappings -/
theorem dictAlong_of_live : ∀ (q : Path) (n : Node), liveAlong q n = true → dictAlong q n = true
  | [], _, _ => rfl
  | k :: q, n, h => by
    obtain ⟨f, cs, rfl, _, hn, hc⟩ := liveAlong_cons h
    simp only [dictAlong, hn, Bool.true_and]
    cases hl : alookup k cs with
    | none => rfl
    | some c => exact dictAlong_of_live q c (hc c hl)

/-- SPINE: the older tree consists of mappings along `q`, the newer one of plain non-deleting mappings: so
    does the merge -/
theorem dictAlong_merge_live : ∀ (q : Path) (fuel : Nat) (s o r : Node) (b : Bool),
    dictAlong q s = true → liveAlong q o = true → mergeF fuel s o = .ok (r, b) → dictAlong q r = true
  | [], _, _, _, _, _, _, _, _ => rfl
  | k :: q, fuel, s, o, r, b, hs, ho, h => by
    obtain ⟨sf, scs, rfl, hns, hsc⟩ := dictAlong_cons hs
    obtain ⟨of, ocs, rfl, hlive, hno, hoc⟩ := liveAlong_cons ho
    cases fuel with
    | zero => simp [mergeF] at h
    | succ fuel =>
      simp only [mergeF] at h
      obtain ⟨scs', hr, hnd', hpt⟩ := compMerge_live_children' (mergeF fuel) sf of scs ocs hlive hns hno r b h
      have hk := hpt k
      subst hr
      refine dictAlong_result _ _ _ _ hnd' (fun x hx => ?_)
      cases hlv : alookup k ocs with
      | none =>
        rw [hlv] at hk
        simp only at hk
        exact hsc x (by rw [← hk]; exact hx)
      | some v =>
        rw [hlv] at hk
        simp only at hk
        cases hlc : alookup k scs with
        | none =>
          rw [hlc] at hk
          simp only [stepAt, excBelow_nil] at hk
          cases hq : reqNew [] [] v with
          | some y => simp [hq] at hk
          | none =>
            simp only [hq, Except.ok.injEq] at hk
            rw [← hk] at hx
            injection hx with hx
            rw [← hx, dictAlong_adopt]
            exact dictAlong_of_live q v (hoc v hlv)
        | some c =>
          rw [hlc] at hk
          obtain ⟨nw, same, hm, hdata⟩ := stepAt_some_skel hk
          rw [hx] at hdata
          split at hdata
          · simp at hdata
          · simp only [Option.map_some, Option.some.injEq] at hdata
            rw [dictAlong_congr hdata]
            exact dictAlong_merge_live q fuel c v nw same (hsc c hlc) (hoc v hlv) hm

/-! ### the local steps -/

/-- a placeholder that does NOT outrank the newer node `d` is replaced by `d` (any node: scalar, mapping,
    list, function node) — or the key is removed when `d` is a value-less `!del` -/
theorem step_over_placeholder {fuel : Nat} {sf : Flags} {kl : Key} {ef : Flags} {d : Node} {x? : Option Node}
    (h : stepAt (mergeF fuel) sf [] kl (some (.leaf ef .required)) d = .ok x?)
    (hp : hasPrio ef d.flags false = false) :
    x?.map skel = if removedBy d then none else some (skel d) := by
  obtain ⟨nw, same, hm, hdata⟩ := stepAt_some_skel h
  cases fuel with
  | zero => simp [mergeF] at hm
  | succ fuel =>
    have hp' : hasPrio (Node.leaf ef .required).flags d.flags false = false := hp
    simp only [mergeF, leafRule, hp', Bool.false_eq_true, if_false, Except.ok.injEq,
      Prod.mk.injEq] at hm
    obtain ⟨rfl, rfl⟩ := hm
    have hrem : stepRemovesB (.leaf ef .required) d
        (propagate (d.setFlags (replaceOtherFlags d.flags (Node.leaf ef .required).flags))) false = removedBy d := by
      simp only [stepRemovesB, Node.isComp, removedBy, truthy_propagate, truthy_setFlags,
        c04_flags_propagate, c04_flags_setFlags, del_replaceOtherFlags]
      simp
    rw [hdata, hrem, skel_propagate, skel_setFlags]

/-- a placeholder that OUTRANKS the newer node stays -/
theorem step_placeholder_wins {fuel : Nat} {sf : Flags} {kl : Key} {ef : Flags} {d : Node} {x? : Option Node}
    (h : stepAt (mergeF fuel) sf [] kl (some (.leaf ef .required)) d = .ok x?)
    (hp : hasPrio ef d.flags false = true) :
    x?.map skel = some (.leaf .required) := by
  obtain ⟨nw, same, hm, hdata⟩ := stepAt_some_skel h
  cases fuel with
  | zero => simp [mergeF] at hm
  | succ fuel =>
    have hp' : hasPrio (Node.leaf ef .required).flags d.flags false = true := hp
    simp only [mergeF, leafRule, hp', if_true, Except.ok.injEq, Prod.mk.injEq] at hm
    obtain ⟨rfl, rfl⟩ := hm
    rw [hdata]
    simp [stepRemovesB, Node.isComp, Node.setFlags, propagate, skel]

/-- LOCAL EXACTNESS (node level; the data-level version is `C04P.del_exact_local`): `e` a scalar (any leaf),
    a plain mapping or a plain list, `d` deleting and not outranked, nothing of `e` protected: a successful
    merge returns `d` up to flags -/
theorem del_exact_local_skel (fuel : Nat) (e d nw : Node) (same : Bool)
    (hk : plainKind e = true) (hdel : eDel d = true) (hp : hasPrio d.flags e.flags true = true)
    (hnp : noneProtected d e = true) (h : mergeF fuel e d = .ok (nw, same)) :
    skel nw = skel d := by
  cases fuel with
  | zero => simp [mergeF] at h
  | succ fuel =>
  have hflip := hasPrio_flip hp
  have leafWin : ∀ nw same, Except.ok (leafRule e d) = (Except.ok (nw, same) : Except Err (Node × Bool)) →
      skel nw = skel d := by
    intro nw same h
    simp only [leafRule, hflip, Bool.false_eq_true, if_false, Except.ok.injEq, Prod.mk.injEq] at h
    obtain ⟨rfl, rfl⟩ := h
    rw [skel_propagate, skel_setFlags]
  cases e with
  | leaf ef elk =>
    simp only [mergeF] at h
    exact leafWin nw same h
  | comp ef ek ecs =>
    have compWin : ∀ (rec : Node → Node → Except Err (Node × Bool)) (ek : CompKind),
        (ek = .dict ∨ ek = .list) → wfKeys (.comp ef ek ecs) = true →
        noneKeptList (maybeKeep d) [] ecs = true →
        hasPrio d.flags ef true = true → hasPrio ef d.flags false = false →
        (∀ nw same, Except.ok (leafRule (.comp ef ek ecs) d) = (Except.ok (nw, same) : Except Err (Node × Bool)) →
          skel nw = skel d) →
        compMerge rec ef ek ecs d = .ok (nw, same) → skel nw = skel d := by
      intro rec ek hek hwf hnone hp hflip leafWin h
      cases d with
      | leaf df dlk =>
        simp only [compMerge] at h
        exact leafWin nw same h
      | comp df dk dcs =>
        rw [c04_compMerge_del_emptied rec hdel hp (c04_filterNode_noneKept_comp _ [] hwf hnone)] at h
        split at h
        · cases h
        · rw [c04_maybePromote_emptied_plain _ _ _ _ _ hek] at h
          simp only [Except.ok.injEq, Prod.mk.injEq] at h
          obtain ⟨rfl, rfl⟩ := h
          rw [skel_propagate]; exact skel_comp_flags _ _ _ _
    cases ek <;> try (simp [plainKind] at hk; done)
    · simp only [mergeF] at h
      have hnp' : wfKeys (.comp ef .dict ecs) = true ∧ noneKeptList (maybeKeep d) [] ecs = true := by
        simpa [noneProtected] using hnp
      exact compWin _ .dict (.inl rfl) hnp'.1 hnp'.2 hp hflip leafWin h
    · simp only [mergeF] at h
      have hnp' : (wfKeys (.comp ef .list ecs) = true ∧ noneKeptList (maybeKeep d) [] ecs = true) ∧
          allKept (keepIfExists (.comp ef .list ecs)) [] d = true := by
        simpa [noneProtected] using hnp
      cases d with
      | leaf df dlk =>
        simp only [listMerge] at h
        exact compWin _ .list (.inr rfl) hnp'.1.1 hnp'.1.2 hp hflip leafWin h
      | comp df dk dcs =>
        simp only [listMerge, hdel, Bool.not_true, Bool.and_false, Bool.false_and, Bool.false_eq_true,
          if_false, c04_filterNode_allKept _ [] _ hnp'.2] at h
        exact compWin _ .list (.inr rfl) hnp'.1.1 hnp'.1.2 hp hflip leafWin h

/-! ### composed along the path -/

/-- OVERWRITTEN: the older tree holds a placeholder at `k :: p`, the newer tree a node `d` that the
    placeholder does not outrank: at and below the path the result holds `d` (nothing, for a value-less
    `!del`) -/
theorem overwritten_at (p : Path) (k : Key) (fuel : Nat) (s o r : Node) (b : Bool) (ef : Flags) (d : Node)
    (hs : dictAlong (k :: p) s = true) (ho : liveAlong (k :: p) o = true)
    (h : mergeF fuel s o = .ok (r, b))
    (hse : getNode s (k :: p) = some (.leaf ef .required)) (hod : getNode o (k :: p) = some d)
    (hp : hasPrio ef d.flags false = false) :
    ∀ q, (skel r).at? (k :: p ++ q) = if removedBy d then none else (skel d).at? q := by
  obtain ⟨fuel', sf, kl, x?, hx, hq⟩ := skel_at_live_path p k fuel s o r b _ d hs ho h hse hod
  have := step_over_placeholder hx hp
  intro q
  rw [hq q, this]
  cases removedBy d <;> simp

/-- OUTRANKED WRITER: a placeholder of strictly higher priority than the node the newer tree has at its path
    is still there -/
theorem placeholder_survives_at (p : Path) (k : Key) (fuel : Nat) (s o r : Node) (b : Bool) (ef : Flags) (d : Node)
    (hs : dictAlong (k :: p) s = true) (ho : liveAlong (k :: p) o = true)
    (h : mergeF fuel s o = .ok (r, b))
    (hse : getNode s (k :: p) = some (.leaf ef .required)) (hod : getNode o (k :: p) = some d)
    (hp : hasPrio ef d.flags false = true) :
    (skel r).at? (k :: p) = some (.leaf .required) := by
  obtain ⟨fuel', sf, kl, x?, hx, hq⟩ := skel_at_live_path p k fuel s o r b _ d hs ho h hse hod
  have := step_placeholder_wins hx hp
  have h0 := hq []
  rw [List.append_nil] at h0
  rw [h0, this]
  rfl

/-- EXACTNESS AT A PATH (node level): a deleting node that is not outranked and meets nothing protected
    replaces the older node with everything below it -/
theorem del_exact_skel_at (p : Path) (k : Key) (fuel : Nat) (s o r : Node) (b : Bool) (e d : Node)
    (hs : dictAlong (k :: p) s = true) (ho : liveAlong (k :: p) o = true)
    (h : mergeF fuel s o = .ok (r, b))
    (hse : getNode s (k :: p) = some e) (hod : getNode o (k :: p) = some d)
    (hk : plainKind e = true) (hdel : eDel d = true) (hp : hasPrio d.flags e.flags true = true)
    (hnp : noneProtected d e = true) :
    ∀ q, (skel r).at? (k :: p ++ q) = if removedBy d then none else (skel d).at? q := by
  obtain ⟨fuel', sf, kl, x?, hx, hq⟩ := skel_at_live_path p k fuel s o r b e d hs ho h hse hod
  obtain ⟨nw, same, hm, hdata⟩ := stepAt_some_skel hx
  obtain ⟨_, h2, h3, h4, h5⟩ := del_exact_local fuel' e d nw same hk hdel hp hnp hm
  have h1 := del_exact_local_skel fuel' e d nw same hk hdel hp hnp hm
  have hrem : stepRemovesB e d nw same = removedBy d := by
    simp only [stepRemovesB, removedBy, h2, h4, h5, hasPrio_false_of_eq h3]
    cases e.isComp <;> simp
  intro q
  rw [hq q, hdata, hrem, h1]
  cases removedBy d <;> simp

end AY.C14P
