/-
  AY.Lemmas.OutcomeDefs — the *strict* denotation used for the outcome clause of C10 ("one order of
  the keys builds iff the other does").

  `den` (AY.Lemmas.OrderLemmas) is the value a successful evaluation computes; it ignores the safety
  checks, so it exists for trees no build of which succeeds. `sden root w fuel rs n path` is the same
  state-free evaluator *with* the checks of `require_all_safe`: under `rs = true` an unsafe node, an
  unsafe intermediate reference are refused; the arguments of `!call` / `!bind` and the names of
  `!eval` code are evaluated under `rs = true`; unsafe dynamic nodes are refused in any mode.

  * monotone in the fuel (`sden_mono`), a partial function (`sden_unique`);
  * does not change when the children of the root are permuted (`sden_permRoot`);
  * relation to `Dirty` (taint as a function of the tree):
      `sden_down`         strict ⇒ non-strict, same fuel, same value
      `sden_strict_clean` strict ⇒ the path is not dirty
      `sden_clean_strict` non-strict and not dirty ⇒ strict, same fuel, same value
-/
import AY.Lemmas.OrderLemmas
namespace AY

/-- the state-free recursive evaluator with the `require_all_safe` flag -/
abbrev SRec := Bool → Node → Path → Option Val

def sdenItems (rec : SRec) (rs : Bool) (path : Path) : List (Key × Node) → Option (List (Key × Val))
  | [] => some []
  | (k, c) :: rest =>
    match rec rs c (path ++ [k]) with
    | none => none
    | some v =>
      match sdenItems rec rs path rest with
      | none => none
      | some vs => some ((k, v) :: vs)

/-- a chain of references: in strict mode an unsafe link is refused. As in `denXref` the root is
    never a legal end of a chain (it is under evaluation for the whole build). -/
def sdenXref (rec : SRec) (root : Node) (rs : Bool) : Nat → String → Option Val
  | 0, _ => none
  | fuel + 1, cur =>
    match splitPath cur with
    | none => none
    | some tp =>
      match getNode root tp with
      | none => none
      | some (.leaf fl (.xref next)) =>
        if rs && !eSafe fl then none else sdenXref rec root rs fuel next
      | some n => if tp = [] then none else rec rs n tp

/-- one name of restricted eval code: a config entry is evaluated under `require_all_safe` -/
def sdenName (rec : SRec) (root : Node) (w : World) (nm : String) : Option Val :=
  if w.syms.contains nm then some (.sym nm)
  else
    match getNode root [Key.str nm] with
    | some n => rec true n [Key.str nm]
    | none => if w.builtins.contains nm then some (.sym nm) else none

def sdenNames (rec : SRec) (root : Node) (w : World) : List String → Option (List Val)
  | [] => some []
  | nm :: rest =>
    match sdenName rec root w nm with
    | none => none
    | some v =>
      match sdenNames rec root w rest with
      | none => none
      | some vs => some (v :: vs)

def sdenImpl (rec : SRec) (root : Node) (w : World) (xf : Nat) (rs : Bool) (n : Node) (path : Path) :
    Option Val :=
  match n with
  | .leaf _ (.scalar v) => some (.scalar v)
  | .leaf _ (.prev s) => some (.scalar (.str s))
  | .leaf _ (.xref target) => sdenXref rec root rs xf target
  | .leaf _ .required => none
  | .leaf _ .clear => none
  | .leaf _ (.incl fs) => some (.strs fs)
  | .leaf f (.imp m) => if !eSafe f then none else if w.modules.contains m then some (.sym m) else none
  | .leaf f (.eval code) =>
    if !eSafe f then none
    else
      match parseNames code with
      | none => none
      | some names =>
        match sdenNames rec root w names with
        | none => none
        | some vs => some (.tuple path vs)
  | .leaf _ (.fstr _) => none
  | .comp f k cs =>
    if k.isFunc && !eSafe f then none
    else
      match sdenItems rec (rs || k.isFunc) path cs with
      | none => none
      | some items => denFinish w f k path items

/-- the strict denotation with recursion depth (and reference chain length) bounded by `fuel` -/
def sden (root : Node) (w : World) : Nat → SRec
  | 0 => fun _ _ _ => none
  | fuel + 1 => fun rs n path =>
    if rs && !eSafe n.flags then none else sdenImpl (sden root w fuel) root w fuel rs n path

theorem sden_succ (root : Node) (w : World) (fuel : Nat) (rs : Bool) (n : Node) (path : Path) :
    sden root w (fuel + 1) rs n path =
      if rs && !eSafe n.flags then none else sdenImpl (sden root w fuel) root w fuel rs n path := rfl

/-! ### monotonicity in the fuel -/

def SLe (r r' : SRec) : Prop := ∀ rs n p v, r rs n p = some v → r' rs n p = some v

theorem SLe.refl (r : SRec) : SLe r r := fun _ _ _ _ h => h

theorem sdenItems_mono {r r' : SRec} (h : SLe r r') (rs : Bool) (path : Path) :
    ∀ (cs : List (Key × Node)) (items : List (Key × Val)),
    sdenItems r rs path cs = some items → sdenItems r' rs path cs = some items
  | [], items, hi => hi
  | (k, c) :: rest, items, hi => by
    unfold sdenItems at hi ⊢
    split at hi
    · cases hi
    · rename_i v hv
      split at hi
      · cases hi
      · rename_i vs hvs
        rw [h _ _ _ _ hv, sdenItems_mono h rs path rest vs hvs]
        exact hi

theorem sdenXref_mono {r r' : SRec} (h : SLe r r') (root : Node) (rs : Bool) :
    ∀ (f f' : Nat) (cur : String) (v : Val), f ≤ f' →
    sdenXref r root rs f cur = some v → sdenXref r' root rs f' cur = some v
  | 0, _, _, _, _, hx => by simp [sdenXref] at hx
  | f + 1, 0, _, _, hle, _ => by omega
  | f + 1, f' + 1, cur, v, hle, hx => by
    unfold sdenXref at hx ⊢
    split at hx
    · cases hx
    · rename_i tp htp
      split at hx
      · cases hx
      · rename_i fl next hg
        split at hx
        · cases hx
        · rename_i hc
          simp only [hc]
          exact sdenXref_mono h root rs f f' next v (by omega) hx
      · rename_i n hnx hg
        split at hx
        · cases hx
        rename_i hne
        have : (if tp = [] then none else r' rs n tp) = some v := by
          rw [if_neg hne]; exact h _ _ _ _ hx
        cases n with
        | comp fl k cs => exact this
        | leaf fl lk =>
          cases lk with
          | xref next => exact absurd rfl (hnx fl next)
          | _ => exact this

theorem sdenName_mono {r r' : SRec} (h : SLe r r') (root : Node) (w : World) (nm : String) (v : Val)
    (hn : sdenName r root w nm = some v) : sdenName r' root w nm = some v := by
  unfold sdenName at hn ⊢
  split
  · rename_i hs; rw [if_pos hs] at hn; exact hn
  · rename_i hs
    rw [if_neg hs] at hn
    split at hn
    · exact h _ _ _ _ hn
    · exact hn

theorem sdenNames_mono {r r' : SRec} (h : SLe r r') (root : Node) (w : World) :
    ∀ (names : List String) (vs : List Val),
    sdenNames r root w names = some vs → sdenNames r' root w names = some vs
  | [], vs, hi => hi
  | nm :: rest, vs, hi => by
    unfold sdenNames at hi ⊢
    split at hi
    · cases hi
    · rename_i v hv
      split at hi
      · cases hi
      · rename_i vs' hvs
        rw [sdenName_mono h root w nm v hv, sdenNames_mono h root w rest vs' hvs]
        exact hi

theorem sdenImpl_mono {r r' : SRec} (h : SLe r r') (root : Node) (w : World) {xf xf' : Nat}
    (hle : xf ≤ xf') (rs : Bool) (n : Node) (p : Path) (v : Val)
    (hv : sdenImpl r root w xf rs n p = some v) : sdenImpl r' root w xf' rs n p = some v := by
  cases n with
  | leaf fl lk =>
    cases lk with
    | xref t =>
      simp only [sdenImpl] at hv ⊢
      exact sdenXref_mono h root rs xf xf' t v hle hv
    | eval code =>
      simp only [sdenImpl] at hv ⊢
      split at hv
      · cases hv
      · rename_i hs
        rw [if_neg hs]
        split at hv
        · cases hv
        · rename_i names hp
          split at hv
          · cases hv
          · rename_i vs hvs
            rw [sdenNames_mono h root w names vs hvs]
            exact hv
    | _ => exact hv
  | comp fl k cs =>
    simp only [sdenImpl] at hv ⊢
    split at hv
    · cases hv
    · rename_i hs
      rw [if_neg hs]
      split at hv
      · cases hv
      · rename_i items hi
        rw [sdenItems_mono h _ p cs items hi]
        exact hv

theorem sden_succ_le (root : Node) (w : World) : ∀ f, SLe (sden root w f) (sden root w (f + 1))
  | 0 => by intro rs n p v h; simp [sden] at h
  | f + 1 => by
    intro rs n p v hv
    rw [sden_succ] at hv ⊢
    split at hv
    · cases hv
    · rename_i hs
      rw [if_neg hs]
      exact sdenImpl_mono (sden_succ_le root w f) root w (Nat.le_succ f) rs n p v hv

theorem sden_mono (root : Node) (w : World) {f f' : Nat} (hle : f ≤ f') :
    SLe (sden root w f) (sden root w f') := by
  induction hle with
  | refl => exact SLe.refl _
  | step _ ih => exact fun rs n p v h => sden_succ_le root w _ rs n p v (ih rs n p v h)

/-- the strict denotation is a partial function -/
theorem sden_unique {root : Node} {w : World} {rs : Bool} {n : Node} {p : Path} {f f' : Nat} {v v' : Val}
    (h : sden root w f rs n p = some v) (h' : sden root w f' rs n p = some v') : v = v' := by
  have h1 := sden_mono root w (Nat.le_max_left f f') rs n p v h
  have h2 := sden_mono root w (Nat.le_max_right f f') rs n p v' h'
  rw [h1] at h2
  exact Option.some.inj h2

theorem sden_pos {root : Node} {w : World} {f : Nat} {rs : Bool} {n : Node} {p : Path} {v : Val}
    (h : sden root w f rs n p = some v) : ∃ g, f = g + 1 := by
  cases f with
  | zero => simp [sden] at h
  | succ g => exact ⟨g, rfl⟩

/-- undefined with more fuel, undefined with less -/
theorem sden_none_mono {root : Node} {w : World} {f f' : Nat} (hle : f ≤ f') {rs : Bool} {n : Node}
    {p : Path} (h : sden root w f' rs n p = none) : sden root w f rs n p = none := by
  cases hv : sden root w f rs n p with
  | none => rfl
  | some v => rw [sden_mono root w hle rs n p v hv] at h; cases h

/-- the least fuel: the rank of a path -/
theorem sden_rank {root : Node} {w : World} {rs : Bool} {n : Node} {p : Path} {v : Val} :
    ∀ g, sden root w g rs n p = some v →
      ∃ g0, g0 + 1 ≤ g ∧ sden root w g0 rs n p = none ∧ sden root w (g0 + 1) rs n p = some v
  | 0, h => by simp [sden] at h
  | g + 1, h => by
    cases hg : sden root w g rs n p with
    | none => exact ⟨g, Nat.le_refl _, hg, h⟩
    | some v' =>
      have : v' = v := sden_unique hg h
      subst this
      obtain ⟨g0, hle, h0, h1⟩ := sden_rank g hg
      exact ⟨g0, by omega, h0, h1⟩

/-! ### items -/

theorem sdenItems_mem {rec : SRec} {rs : Bool} {path : Path} :
    ∀ {cs : List (Key × Node)} {items : List (Key × Val)}, sdenItems rec rs path cs = some items →
    ∀ key c, (key, c) ∈ cs → ∃ a, rec rs c (path ++ [key]) = some a
  | [], _, _, _, _, hm => by cases hm
  | (k, c0) :: rest, items, h, key, c, hm => by
    unfold sdenItems at h
    split at h
    · cases h
    · rename_i a ha
      split at h
      · cases h
      · rename_i vs hvs
        rcases List.mem_cons.1 hm with heq | hm
        · cases heq; exact ⟨a, ha⟩
        · exact sdenItems_mem hvs key c hm

/-- every child has a value: the list has one, in any order -/
theorem sdenItems_of_all {rec : SRec} {rs : Bool} {path : Path} :
    ∀ (cs : List (Key × Node)), (∀ key c, (key, c) ∈ cs → ∃ a, rec rs c (path ++ [key]) = some a) →
    ∃ items, sdenItems rec rs path cs = some items
  | [], _ => ⟨[], rfl⟩
  | (k, c) :: rest, h => by
    obtain ⟨a, ha⟩ := h k c List.mem_cons_self
    obtain ⟨its, hits⟩ := sdenItems_of_all rest (fun key c' hm => h key c' (List.mem_cons_of_mem _ hm))
    exact ⟨(k, a) :: its, by unfold sdenItems; rw [ha, hits]⟩

/-! ### permuting the children of the root -/

section permRoot
variable {fl : Flags} {k : CompKind} {cs cs' : List (Key × Node)} (hperm : cs'.Perm cs)
  (huk : uniqueKeysList cs = true) (huk' : uniqueKeysList cs' = true)
include hperm huk huk'

theorem sdenXref_permRoot (rec : SRec) (rs : Bool) : ∀ (fuel : Nat) (cur : String),
    sdenXref rec (.comp fl k cs') rs fuel cur = sdenXref rec (.comp fl k cs) rs fuel cur
  | 0, _ => rfl
  | fuel + 1, cur => by
    unfold sdenXref
    cases htp : splitPath cur with
    | none => rfl
    | some tp =>
      cases tp with
      | nil => simp [getNode]
      | cons key rest =>
        simp only [getNode_permRoot hperm huk huk' key rest]
        split
        · rfl
        · rw [sdenXref_permRoot rec rs fuel _]
        · rfl

theorem sdenNames_permRoot (rec : SRec) (w : World) : ∀ names : List String,
    sdenNames rec (.comp fl k cs') w names = sdenNames rec (.comp fl k cs) w names
  | [] => rfl
  | nm :: rest => by
    unfold sdenNames
    rw [sdenNames_permRoot rec w rest]
    simp only [sdenName, getNode_permRoot hperm huk huk' (Key.str nm) []]

theorem sdenImpl_permRoot (rec : SRec) (w : World) (xf : Nat) (rs : Bool) (n : Node) (p : Path) :
    sdenImpl rec (.comp fl k cs') w xf rs n p = sdenImpl rec (.comp fl k cs) w xf rs n p := by
  cases n with
  | comp f kk c => rfl
  | leaf f lk =>
    cases lk with
    | xref t => simp only [sdenImpl]; exact sdenXref_permRoot hperm huk huk' rec rs xf t
    | eval code => simp only [sdenImpl, sdenNames_permRoot hperm huk huk' rec w]
    | _ => rfl

/-- the strict denotation of every node is the same in both trees -/
theorem sden_permRoot (w : World) : ∀ f : Nat,
    sden (.comp fl k cs') w f = sden (.comp fl k cs) w f
  | 0 => rfl
  | f + 1 => by
    funext rs n p
    simp only [sden]
    rw [sden_permRoot w f]
    rw [sdenImpl_permRoot hperm huk huk' _ w f rs n p]

end permRoot

end AY
