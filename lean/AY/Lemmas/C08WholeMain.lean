/-
  AY.Lemmas.C08WholeMain — the whole-tree statements of C08 read on the DATA of a well-keyed config
  (`c08_getPlainAtL (native a)`: mapping keys and existing list indices, negative spellings included):
  `c08w_BadIndexP`, `c08w_ErrSpecP`, `c08w_CondP` and their equivalence with the node-level forms;
  the result of such a merge is again a container; documents without other flags (`c08_nnDocList`)
  are documents in the sense of `c08w_docL`.
-/
import AY.Lemmas.C08WholeDel
namespace AY

/-! ### data-level forms -/

/-- a mapping of `b` addresses a list of the data `a` (at a common path `q`) with a key that is no
    existing index of it: not an integer, `i ≥ len`, or `i < -len` (`listIndex` = `_validate_index`) -/
def c08w_BadIndexP (a : Plain) (b : Node) : Prop :=
  ∃ q xs of ocs key o, c08_getPlainAtL a q = some (.list xs) ∧ c08_nodeAt b q (.comp of .dict ocs) ∧
    (key, o) ∈ ocs ∧ listIndex xs.length key = none

/-- the two ways the merge fails, on the data -/
def c08w_ErrSpecP (a : Plain) (b : Node) (e : Err) : Prop :=
  (∃ p m, e = .notnew p ∧ p ≠ [] ∧ c08_nodeAt b p m ∧ eNew m.flags = false ∧ c08_getPlainAtL a p = none) ∨
  (e = .merge ∧ c08w_BadIndexP a b)

/-- every node written at a missing path has `allow_new` on, and lists are addressed by existing
    indices only -/
def c08w_CondP (a : Plain) (b : Node) : Prop :=
  (∀ p m, c08_nodeAt b p m → p ≠ [] → (c08_getPlainAtL a p).isSome = true ∨ eNew m.flags = true) ∧
  ¬ c08w_BadIndexP a b

theorem c08w_native_list {n : Node} {xs : List Plain} (h : native n = .list xs) :
    ∃ sf sk scs, n = .comp sf sk scs ∧ sk.isDictFam = false ∧ xs = nativeVals scs := by
  cases n with
  | leaf f lk => cases lk <;> simp [native] at h
  | comp sf sk scs =>
    simp only [native] at h
    split at h
    · cases h
    · rename_i hsk
      injection h with h
      exact ⟨sf, sk, scs, rfl, by simpa using hsk, h.symm⟩

theorem c08w_BadIndex_iff {a : Node} (ha : KI.Keyed a = true) (b : Node) :
    c08w_BadIndex a b ↔ c08w_BadIndexP (native a) b := by
  constructor
  · rintro ⟨q, sf, sk, scs, of, ocs, key, o, h1, h2, h3, h4, h5⟩
    refine ⟨q, nativeVals scs, of, ocs, key, o, ?_, h3, h4, ?_⟩
    · rw [c08w_get_native q a ha, h1]; simp [native, h2]
    · rw [length_nativeVals, ← validateIndex_strict]; exact h5
  · rintro ⟨q, xs, of, ocs, key, o, h1, h3, h4, h5⟩
    rw [c08w_get_native q a ha] at h1
    cases hg : c08w_get a q with
    | none => rw [hg] at h1; cases h1
    | some n =>
      rw [hg] at h1
      simp only [Option.map, Option.some.injEq] at h1
      obtain ⟨sf, sk, scs, rfl, hsk, rfl⟩ := c08w_native_list h1
      refine ⟨q, sf, sk, scs, of, ocs, key, o, hg, hsk, h3, h4, ?_⟩
      rw [validateIndex_strict, ← length_nativeVals]; exact h5

theorem c08w_has_false_iff {a : Node} (ha : KI.Keyed a = true) (p : Path) :
    c08w_has a p = false ↔ c08_getPlainAtL (native a) p = none := by
  rw [c08w_has_native p a ha]
  cases c08_getPlainAtL (native a) p <;> simp

theorem c08w_ErrSpec_iff {a : Node} (ha : KI.Keyed a = true) (b : Node) (e : Err) :
    c08w_ErrSpec a b e ↔ c08w_ErrSpecP (native a) b e := by
  unfold c08w_ErrSpec c08w_ErrSpecP
  rw [c08w_BadIndex_iff ha]
  constructor
  · rintro (⟨p, m, h1, h2, h3, h4, h5⟩ | h)
    · exact .inl ⟨p, m, h1, h2, h3, h4, (c08w_has_false_iff ha p).1 h5⟩
    · exact .inr h
  · rintro (⟨p, m, h1, h2, h3, h4, h5⟩ | h)
    · exact .inl ⟨p, m, h1, h2, h3, h4, (c08w_has_false_iff ha p).2 h5⟩
    · exact .inr h

theorem c08w_Cond_iff {a : Node} (ha : KI.Keyed a = true) (b : Node) :
    c08w_Cond a b ↔ c08w_CondP (native a) b := by
  unfold c08w_Cond c08w_CondP
  rw [c08w_BadIndex_iff ha]
  constructor
  · rintro ⟨h1, h2⟩
    exact ⟨fun p m hp hne => by rw [← c08w_has_native p a ha]; exact h1 p m hp hne, h2⟩
  · rintro ⟨h1, h2⟩
    exact ⟨fun p m hp hne => by rw [c08w_has_native p a ha]; exact h1 p m hp hne, h2⟩

/-! ### the result is a container again -/

theorem c08w_isComp_propagate (n : Node) : (propagate n).isComp = n.isComp := by
  cases n with
  | leaf f lk => rfl
  | comp f k cs =>
    simp only [propagate]
    split <;> rfl

theorem c08w_compMerge_isComp {rec : Node → Node → Except Err (Node × Bool)} {sf : Flags} {sk : CompKind}
    {scs : List (Key × Node)} {of : Flags} {ocs : List (Key × Node)} {r : Node} {s : Bool}
    (hnd : c08w_nd of = true) (h : compMerge rec sf sk scs (.comp of .dict ocs) = .ok (r, s)) :
    r.isComp = true := by
  rw [c08w_compMerge_dict rec sf sk scs ocs hnd] at h
  split at h
  · cases h
  · rename_i scs' _
    obtain ⟨F, hF⟩ := c08w_finishMerge_dict sf sk scs' of ocs
    rw [hF] at h
    injection h with h
    injection h with h _
    subst h
    rw [c08w_isComp_propagate]; rfl

theorem c08w_mergeF_isComp {n : Nat} {sf : Flags} {sk : CompKind} {scs : List (Key × Node)} {of : Flags}
    {ocs : List (Key × Node)} {r : Node} {s : Bool} (hnd : c08w_nd of = true)
    (h : mergeF n (.comp sf sk scs) (.comp of .dict ocs) = .ok (r, s)) : r.isComp = true := by
  cases n with
  | zero => simp [mergeF] at h
  | succ n =>
    have hlm : listMerge (mergeF n) sf sk scs (.comp of .dict ocs) = .ok (r, s) → r.isComp = true := by
      intro h'
      simp only [listMerge] at h'
      split at h'
      · cases h'
      · simp only [filterNode] at h'
        exact c08w_compMerge_isComp hnd h'
    cases sk with
    | dict => exact c08w_compMerge_isComp hnd (by simpa only [mergeF] using h)
    | call g => exact c08w_compMerge_isComp hnd (by simpa only [mergeF, funcMerge, CompKind.func?] using h)
    | bind g => exact c08w_compMerge_isComp hnd (by simpa only [mergeF, funcMerge, CompKind.func?] using h)
    | list => exact hlm (by simpa only [mergeF] using h)
    | append => exact hlm (by simpa only [mergeF] using h)
    | extend => exact hlm (by simpa only [mergeF] using h)
    | path p => exact hlm (by simpa only [mergeF] using h)
    | stream => exact hlm (by simpa only [mergeF] using h)

/-! ### documents of mappings and scalars without other flags -/

mutual
theorem c08w_doc_of_nnDoc : ∀ (o : Node), c08_nnDoc o = true →
    c08w_doc (some false) o = true ∧ allNotNew o = true ∧ c08w_noPrio o = true
  | .leaf f lk, h => by
    have hf : c08_nnFlags f = true := by cases lk <;> simp_all [c08_nnDoc]
    have hf' := (c08_nnFlags_iff f).1 hf
    obtain ⟨h1, h2, h3, h4, h5, h6, h7, h8⟩ := hf'
    simp [c08w_doc, c08w_nd, allNotNew, c08w_noPrio, eNew, h1, h2, h5, h8]
  | .comp f k cs, h => by
    have h' : c08_nnFlags f = true ∧ k = .dict ∧ c08_nnDocList cs = true := by
      simpa [c08_nnDoc, and_assoc] using h
    obtain ⟨h1, h2, h3, h4, h5, h6, h7, h8⟩ := (c08_nnFlags_iff f).1 h'.1
    obtain ⟨g1, g2, g3⟩ := c08w_docL_of_nnDocList cs h'.2.2
    simp [c08w_doc, c08w_nd, allNotNew, c08w_noPrio, eNew, h1, h2, h3, h5, h8, h'.2.1, g1, g2, g3]
theorem c08w_docL_of_nnDocList : ∀ (cs : List (Key × Node)), c08_nnDocList cs = true →
    c08w_docL (some false) cs = true ∧ allNotNewList cs = true ∧ c08w_noPrioL cs = true
  | [], _ => ⟨rfl, rfl, rfl⟩
  | (k, c) :: rest, h => by
    have h' : c08_nnDoc c = true ∧ c08_nnDocList rest = true := by simpa [c08_nnDocList] using h
    obtain ⟨g1, g2, g3⟩ := c08w_doc_of_nnDoc c h'.1
    obtain ⟨r1, r2, r3⟩ := c08w_docL_of_nnDocList rest h'.2
    simp [c08w_docL, allNotNewList, c08w_noPrioL, g1, g2, g3, r1, r2, r3]
end

theorem c08w_nd_of_docFlags {f : Flags} (h : c08_docFlags f = true) : c08w_nd f = true := by
  obtain ⟨_, h2, h3, _, _⟩ := (c08_docFlags_iff f).1 h
  simp [c08w_nd, h2, h3]

mutual
/-- a document of mappings and leaves without duplicated sibling keys is well-keyed -/
theorem c08w_keyed_of_doc : ∀ (inh : Option Bool) (o : Node), c08w_doc inh o = true →
    c08_keysNodupH o = true → KI.Keyed o = true
  | _, .leaf f lk, _, _ => rfl
  | inh, .comp f k cs, h, hn => by
    obtain ⟨_, _, hk, hcs⟩ := c08w_doc_comp h
    subst hk
    have hn' : keysNodup cs = true ∧ c08_keysNodupHList cs = true := by simpa [c08_keysNodupH] using hn
    rw [KI.keyed_comp]
    refine ⟨?_, c08w_keyedL_of_docL _ cs hcs hn'.2⟩
    simp only [KI.topOK, CompKind.isDictFam, if_true]
    rw [← ki_keysNodup_assoc]; exact hn'.1
theorem c08w_keyedL_of_docL : ∀ (inh : Option Bool) (cs : List (Key × Node)), c08w_docL inh cs = true →
    c08_keysNodupHList cs = true → KI.KeyedL cs = true
  | _, [], _, _ => rfl
  | inh, (k, c) :: rest, h, hn => by
    have h' : c08w_doc inh c = true ∧ c08w_docL inh rest = true := by simpa [c08w_docL] using h
    have hn' : c08_keysNodupH c = true ∧ c08_keysNodupHList rest = true := by simpa [c08_keysNodupHList] using hn
    rw [KI.KeyedL_cons]
    exact ⟨c08w_keyed_of_doc inh c h'.1 hn'.1, c08w_keyedL_of_docL inh rest h'.2 hn'.2⟩
end

theorem c08w_keyed_root {inh : Option Bool} {of : Flags} {ocs : List (Key × Node)}
    (hocs : c08w_docL inh ocs = true) (hn : c08_keysNodupH (.comp of .dict ocs) = true) :
    KI.Keyed (.comp of .dict ocs) = true := by
  have hn' : keysNodup ocs = true ∧ c08_keysNodupHList ocs = true := by simpa [c08_keysNodupH] using hn
  rw [KI.keyed_comp]
  refine ⟨?_, c08w_keyedL_of_docL _ ocs hocs hn'.2⟩
  simp only [KI.topOK, CompKind.isDictFam, if_true]
  rw [← ki_keysNodup_assoc]; exact hn'.1

theorem c08w_top_root {inh : Option Bool} {of : Flags} {ocs : List (Key × Node)}
    (hnd : c08w_nd of = true) (hocs : c08w_docL inh ocs = true) : c08w_top inh (.comp of .dict ocs) = true := by
  simp [c08w_top, hnd, hocs]

end AY
