/-
  AY.Lemmas.OrderLemmas — order independence of the evaluator (C10, last clause).

  * `den root w fuel n path : Option Val` — the *denotation* of the node `n` sitting at `path`:
    the value a successful evaluation computes, defined without any evaluator state (no memo table,
    no in-progress set, no taint, no log). `Den` is "some fuel gives the value"; it is a partial
    function (`Den.unique`).
  * `DInv root w st` — the cache-correctness invariant: `WF`, the root mapping is under evaluation,
    every memoised value is the denotation of the node of the tree sitting at that path.
    `evalNodeF_den`: a successful `evalNodeF` keeps `DInv` and returns the denotation.
  * `den_permRoot`: the denotation does not change when the children of the root are permuted.
-/
import AY.Lemmas.OnceLemmas
namespace AY

/-- the state-free recursive evaluator -/
abbrev DRec := Node → Path → Option Val

/-! ### the denotation -/

/-- values of the children of a container, in order -/
def denItems (rec : DRec) (path : Path) : List (Key × Node) → Option (List (Key × Val))
  | [] => some []
  | (k, c) :: rest =>
    match rec c (path ++ [k]) with
    | none => none
    | some v =>
      match denItems rec path rest with
      | none => none
      | some vs => some ((k, v) :: vs)

/-- the value a chain of references starting with the text `cur` ends in. The root itself is
    never a legal end of a chain (it is under evaluation for the whole build). -/
def denXref (rec : DRec) (root : Node) : Nat → String → Option Val
  | 0, _ => none
  | fuel + 1, cur =>
    match splitPath cur with
    | none => none
    | some tp =>
      match getNode root tp with
      | none => none
      | some (.leaf _ (.xref next)) => denXref rec root fuel next
      | some n => if tp = [] then none else rec n tp

/-- one name of restricted eval code -/
def denName (rec : DRec) (root : Node) (w : World) (nm : String) : Option Val :=
  if w.syms.contains nm then some (.sym nm)
  else
    match getNode root [Key.str nm] with
    | some n => rec n [Key.str nm]
    | none => if w.builtins.contains nm then some (.sym nm) else none

def denNames (rec : DRec) (root : Node) (w : World) : List String → Option (List Val)
  | [] => some []
  | nm :: rest =>
    match denName rec root w nm with
    | none => none
    | some v =>
      match denNames rec root w rest with
      | none => none
      | some vs => some (v :: vs)

/-- what a container class makes of the values of its children -/
def denFinish (w : World) (f : Flags) (k : CompKind) (path : Path) (items : List (Key × Val)) :
    Option Val :=
  match k with
  | .dict => some (.dict path items)
  | .list | .append | .extend | .stream => some (.list path (items.map (·.2)))
  | .path ref =>
    match allValStrs (items.map (·.2)) with
    | none => none
    | some args =>
      match evalPath w ref f.src args with
      | .error _ => none
      | .ok v => some v
  | .call fn =>
    match lookupSig w fn with
    | none => none
    | some sig =>
      match resolveArgs sig items with
      | none => none
      | some (pos, kwp, kw) =>
        match bindPy sig pos (kwp ++ kw) with
        | none => none
        | some b => some (.app path fn b.named b.varargs b.varkw)
  | .bind fn =>
    match lookupSig w fn with
    | none => none
    | some sig =>
      match resolveArgs sig items with
      | none => none
      | some (pos, kwp, kw) =>
        if dupKeys (kwp ++ kw) then none else some (.part path fn pos (kwp ++ kw))

def denImpl (rec : DRec) (root : Node) (w : World) (xf : Nat) (n : Node) (path : Path) : Option Val :=
  match n with
  | .leaf _ (.scalar v) => some (.scalar v)
  | .leaf _ (.prev s) => some (.scalar (.str s))
  | .leaf _ (.xref target) => denXref rec root xf target
  | .leaf _ .required => none
  | .leaf _ .clear => none
  | .leaf _ (.incl fs) => some (.strs fs)
  | .leaf _ (.imp m) => if w.modules.contains m then some (.sym m) else none
  | .leaf _ (.eval code) =>
    match parseNames code with
    | none => none
    | some names =>
      match denNames rec root w names with
      | none => none
      | some vs => some (.tuple path vs)
  | .leaf _ (.fstr _) => none
  | .comp f k cs =>
    match denItems rec path cs with
    | none => none
    | some items => denFinish w f k path items

/-- the denotation with recursion depth (and reference chain length) bounded by `fuel` -/
def den (root : Node) (w : World) : Nat → DRec
  | 0 => fun _ _ => none
  | fuel + 1 => denImpl (den root w fuel) root w fuel

/-- `v` is the denotation of `n` at `path` -/
def Den (root : Node) (w : World) (n : Node) (path : Path) (v : Val) : Prop :=
  ∃ fuel, den root w fuel n path = some v

/-! ### monotonicity in the fuel -/

/-- `r'` is defined wherever `r` is, with the same value -/
def DLe (r r' : DRec) : Prop := ∀ n p v, r n p = some v → r' n p = some v

theorem DLe.refl (r : DRec) : DLe r r := fun _ _ _ h => h

theorem denItems_mono {r r' : DRec} (h : DLe r r') (path : Path) :
    ∀ (cs : List (Key × Node)) (items : List (Key × Val)),
    denItems r path cs = some items → denItems r' path cs = some items
  | [], items, hi => hi
  | (k, c) :: rest, items, hi => by
    unfold denItems at hi ⊢
    split at hi
    · cases hi
    · rename_i v hv
      split at hi
      · cases hi
      · rename_i vs hvs
        rw [h _ _ _ hv, denItems_mono h path rest vs hvs]
        exact hi

theorem denXref_mono {r r' : DRec} (h : DLe r r') (root : Node) :
    ∀ (f f' : Nat) (cur : String) (v : Val), f ≤ f' →
    denXref r root f cur = some v → denXref r' root f' cur = some v
  | 0, _, _, _, _, hx => by simp [denXref] at hx
  | f + 1, 0, _, _, hle, _ => by omega
  | f + 1, f' + 1, cur, v, hle, hx => by
    unfold denXref at hx ⊢
    split at hx
    · cases hx
    · rename_i tp htp
      split at hx
      · cases hx
      · rename_i fl next hg
        exact denXref_mono h root f f' next v (by omega) hx
      · rename_i n hnx hg
        split at hx
        · cases hx
        · rename_i hne
          have : (if tp = [] then none else r' n tp) = some v := by
            rw [if_neg hne]; exact h _ _ _ hx
          cases n with
          | comp fl k cs => exact this
          | leaf fl lk =>
            cases lk with
            | xref next => exact absurd rfl (hnx fl next)
            | _ => exact this

theorem denName_mono {r r' : DRec} (h : DLe r r') (root : Node) (w : World) (nm : String) (v : Val)
    (hn : denName r root w nm = some v) : denName r' root w nm = some v := by
  unfold denName at hn ⊢
  split
  · rename_i hs; rw [if_pos hs] at hn; exact hn
  · rename_i hs
    rw [if_neg hs] at hn
    split at hn
    · exact h _ _ _ hn
    · exact hn

theorem denNames_mono {r r' : DRec} (h : DLe r r') (root : Node) (w : World) :
    ∀ (names : List String) (vs : List Val),
    denNames r root w names = some vs → denNames r' root w names = some vs
  | [], vs, hi => hi
  | nm :: rest, vs, hi => by
    unfold denNames at hi ⊢
    split at hi
    · cases hi
    · rename_i v hv
      split at hi
      · cases hi
      · rename_i vs' hvs
        rw [denName_mono h root w nm v hv, denNames_mono h root w rest vs' hvs]
        exact hi

theorem denImpl_mono {r r' : DRec} (h : DLe r r') (root : Node) (w : World) {xf xf' : Nat}
    (hle : xf ≤ xf') : DLe (denImpl r root w xf) (denImpl r' root w xf') := by
  intro n p v hv
  cases n with
  | leaf fl lk =>
    cases lk with
    | xref t =>
      simp only [denImpl] at hv ⊢
      exact denXref_mono h root xf xf' t v hle hv
    | eval code =>
      simp only [denImpl] at hv ⊢
      split at hv
      · cases hv
      · rename_i names hp
        split at hv
        · cases hv
        · rename_i vs hvs
          rw [denNames_mono h root w names vs hvs]
          exact hv
    | _ => exact hv
  | comp fl k cs =>
    simp only [denImpl] at hv ⊢
    split at hv
    · cases hv
    · rename_i items hi
      rw [denItems_mono h p cs items hi]
      exact hv

theorem den_succ_le (root : Node) (w : World) : ∀ f, DLe (den root w f) (den root w (f + 1))
  | 0 => by intro n p v h; simp [den] at h
  | f + 1 => denImpl_mono (den_succ_le root w f) root w (Nat.le_succ f)

theorem den_mono (root : Node) (w : World) {f f' : Nat} (hle : f ≤ f') :
    DLe (den root w f) (den root w f') := by
  induction hle with
  | refl => exact DLe.refl _
  | step _ ih => exact fun n p v h => den_succ_le root w _ n p v (ih n p v h)

/-- the denotation is a partial function -/
theorem Den.unique {root : Node} {w : World} {n : Node} {p : Path} {v v' : Val}
    (h : Den root w n p v) (h' : Den root w n p v') : v = v' := by
  obtain ⟨f, hf⟩ := h
  obtain ⟨f', hf'⟩ := h'
  have h1 := den_mono root w (Nat.le_max_left f f') n p v hf
  have h2 := den_mono root w (Nat.le_max_right f f') n p v' hf'
  rw [h1] at h2
  exact Option.some.inj h2

theorem den_pos {root : Node} {w : World} {f : Nat} {n : Node} {p : Path} {v : Val}
    (h : den root w f n p = some v) : ∃ g, f = g + 1 := by
  cases f with
  | zero => simp [den] at h
  | succ g => exact ⟨g, rfl⟩

/-! ### the value part of `evalImpl` for containers -/

/-- every container class evaluates all its children with `evalItems` and builds its value from
    theirs with `denFinish` -/
theorem evalImpl_comp_val {rec : Rec} {root : Node} {w : World} {rs : Bool} {f : Flags} {k : CompKind}
    {cs : List (Key × Node)} {path : Path} {st st' : EvSt} {v : Val}
    (h : evalImpl rec root w rs (.comp f k cs) path st = .ok (v, st')) :
    ∃ rs' items st1, evalItems rec rs' path cs st = .ok (items, st1) ∧ st'.cache = st1.cache ∧
      denFinish w f k path items = some v := by
  cases k with
  | dict =>
    simp only [evalImpl] at h
    split at h
    · cases h
    · rename_i items st1 he; cases h; exact ⟨_, _, _, he, rfl, rfl⟩
  | list =>
    simp only [evalImpl] at h
    split at h
    · cases h
    · rename_i items st1 he; cases h; exact ⟨_, _, _, he, rfl, rfl⟩
  | append =>
    simp only [evalImpl] at h
    split at h
    · cases h
    · rename_i items st1 he; cases h; exact ⟨_, _, _, he, rfl, rfl⟩
  | extend =>
    simp only [evalImpl] at h
    split at h
    · cases h
    · rename_i items st1 he; cases h; exact ⟨_, _, _, he, rfl, rfl⟩
  | stream =>
    simp only [evalImpl] at h
    split at h
    · cases h
    · rename_i items st1 he; cases h; exact ⟨_, _, _, he, rfl, rfl⟩
  | path ref =>
    simp only [evalImpl] at h
    split at h
    · cases h
    · rename_i items st1 he
      split at h
      · cases h
      · rename_i args ha
        split at h
        · cases h
        · rename_i v' hv
          cases h
          exact ⟨_, _, _, he, rfl, by simp only [denFinish, ha, hv]⟩
  | call fn =>
    simp only [evalImpl] at h
    split at h
    · cases h
    · split at h
      · split at h
        · split at h <;> cases h
        · cases h
      · rename_i sig hsig
        split at h
        · cases h
        · rename_i items st1 he
          split at h
          · cases h
          · rename_i pos kwp kw hr
            split at h
            · cases h
            · rename_i b hb
              cases h
              exact ⟨_, _, _, he, rfl, by simp only [denFinish, hsig, hr, hb]⟩
  | bind fn =>
    simp only [evalImpl] at h
    split at h
    · cases h
    · split at h
      · split at h
        · split at h <;> cases h
        · cases h
      · rename_i sig hsig
        split at h
        · cases h
        · rename_i items st1 he
          split at h
          · cases h
          · rename_i pos kwp kw hr
            split at h
            · cases h
            · rename_i hd
              cases h
              exact ⟨_, _, _, he, rfl, by simp only [denFinish, hsig, hr, hd]; rfl⟩

/-! ### cache correctness -/

/-- every memoised value is the denotation of the node of the tree sitting at that path -/
def COK (root : Node) (w : World) (cache : List (Path × Val)) : Prop :=
  ∀ p v, plookup p cache = some v → ∃ n, getNode root p = some n ∧ Den root w n p v

/-- The cache-correctness invariant of the states reached inside `evaluate`. -/
structure DInv (root : Node) (w : World) (st : EvSt) : Prop where
  wf : WF st
  /-- the root is under evaluation -/
  busy : [] ∈ st.inProgress
  ok : COK root w st.cache

theorem DInv.root_fresh {root : Node} {w : World} {st : EvSt} (h : DInv root w st) :
    plookup [] st.cache = none := h.wf.prog [] h.busy

theorem DInv.seeTaint {root : Node} {w : World} {st : EvSt} (h : DInv root w st) :
    DInv root w (seeTaint st) := ⟨h.wf.seeTaint, h.busy, h.ok⟩

/-- what the lemmas below assume of the recursive evaluator -/
def RecDen (root : Node) (w : World) (rec : Rec) : Prop :=
  ∀ rs m p s v s', Placed root m p → DInv root w s → rec rs m p s = .ok (v, s') →
    DInv root w s' ∧ Den root w m p v ∧ p ≠ []

theorem Den.mono {root : Node} {w : World} {n : Node} {p : Path} {v : Val} {f f' : Nat}
    (h : den root w f n p = some v) (hle : f ≤ f') : den root w f' n p = some v :=
  den_mono root w hle n p v h

theorem evalItems_den {root : Node} {w : World} {rec : Rec} (hrec : RecDen root w rec)
    {rs : Bool} {path : Path} :
    ∀ (cs : List (Key × Node)) (st : EvSt) (items : List (Key × Val)) (st' : EvSt),
    (∀ key c, (key, c) ∈ cs → Placed root c (path ++ [key])) → DInv root w st →
    evalItems rec rs path cs st = .ok (items, st') →
    DInv root w st' ∧ ∃ f, denItems (den root w f) path cs = some items
  | [], st, items, st', _, hI, h => by
    simp [evalItems] at h
    obtain ⟨rfl, rfl⟩ := h
    exact ⟨hI, 0, rfl⟩
  | (k, c) :: rest, st, items, st', hpl, hI, h => by
    unfold evalItems at h
    split at h
    · cases h
    · rename_i v st1 h1
      split at h
      · cases h
      · rename_i vs st2 h2
        cases h
        obtain ⟨hI1, ⟨f1, hf1⟩, _⟩ := hrec _ _ _ _ _ _ (hpl k c List.mem_cons_self) hI h1
        obtain ⟨hI2, f2, hf2⟩ := evalItems_den hrec rest st1 vs st'
          (fun key c' hm => hpl key c' (List.mem_cons_of_mem _ hm)) hI1 h2
        refine ⟨hI2, max f1 f2, ?_⟩
        unfold denItems
        rw [Den.mono hf1 (Nat.le_max_left f1 f2),
          denItems_mono (den_mono root w (Nat.le_max_right f1 f2)) path rest vs hf2]

/-- the denotation of a memoised reference node, unfolded one step -/
theorem denXref_of_cached {root : Node} {w : World} {cur : String} {tp : Path} {n : Node} {v : Val}
    (htp : splitPath cur = some tp) (hne : tp ≠ []) (hg : getNode root tp = some n)
    (hd : Den root w n tp v) : ∃ f, denXref (den root w f) root f cur = some v := by
  obtain ⟨f, hf⟩ := hd
  obtain ⟨g, rfl⟩ := den_pos hf
  refine ⟨g + 1, ?_⟩
  unfold denXref
  simp only [htp, hg]
  cases n with
  | comp fl k cs => simp only [if_neg hne]; exact hf
  | leaf fl lk =>
    cases lk with
    | xref next =>
      simp only
      have : denXref (den root w g) root g next = some v := by simpa [den, denImpl] using hf
      exact denXref_mono (den_succ_le root w g) root g g next v (Nat.le_refl _) this
    | _ => simp only [if_neg hne]; exact hf

theorem xrefLoop_den {root : Node} {w : World} {rec : Rec} (hrec : RecDen root w rec)
    {rs : Bool} {self : Path} :
    ∀ (fuel : Nat) (cur : String) (chain : List String) (st : EvSt) (v : Val) (st' : EvSt),
    DInv root w st → xrefLoop rec root rs self fuel cur chain st = .ok (v, st') →
    DInv root w st' ∧ ∃ f, denXref (den root w f) root f cur = some v
  | 0, cur, chain, st, v, st', _, h => by simp [xrefLoop] at h
  | fuel + 1, cur, chain, st, v, st', hI, h => by
    rw [xrefLoop_succ] at h
    cases hstep : xrefStep rec root rs self cur chain st with
    | next t s1 =>
      rw [hstep] at h
      simp only at h
      obtain ⟨_, tp, fl, htp, _, _, hg⟩ := xrefStep_next hstep
      have hI1 : DInv root w s1 := by
        obtain ⟨_, _, _, _, ⟨_, e⟩ | ⟨_, _, e⟩⟩ := xrefStep_next_state hstep <;> rw [e]
        · exact hI
        · exact hI.seeTaint
      obtain ⟨hI', f, hf⟩ := xrefLoop_den hrec fuel t _ s1 v st' hI1 h
      refine ⟨hI', f + 1, ?_⟩
      unfold denXref
      simp only [htp, hg]
      exact denXref_mono (den_succ_le root w f) root f f t v (Nat.le_refl _) hf
    | done r =>
      rw [hstep] at h
      simp only at h
      subst h
      unfold xrefStep at hstep
      split at hstep
      · cases hstep
      · rename_i tp htp
        split at hstep
        · cases hstep
        · rename_i v0 st1 hg
          split at hstep
          · cases hstep
          · cases hstep
            rcases ctxGetNode_ok_inv hg with ⟨v1, hv, hv1, hcase⟩ | ⟨_, hn, _⟩
            · cases hv
              obtain ⟨n, hgn, hd⟩ := hI.ok tp v hv1
              have hne : tp ≠ [] := by
                intro e; subst e; rw [hI.root_fresh] at hv1; cases hv1
              refine ⟨?_, denXref_of_cached htp hne hgn hd⟩
              rcases hcase with ⟨_, rfl⟩ | ⟨_, _, rfl⟩
              · exact hI
              · exact hI.seeTaint
            · cases hn
        · rename_i n st1 hg
          split at hstep
          · cases hstep
          · split at hstep
            · split at hstep
              · split at hstep <;> cases hstep
              · cases hstep
            · rename_i hnx
              injection hstep with hres
              have hgn : getNode root tp = some n := by
                rcases ctxGetNode_ok_inv hg with ⟨_, hn, _⟩ | ⟨n', hn, _, hn', _⟩
                · cases hn
                · cases hn; exact hn'
              obtain ⟨hI', hd, hne⟩ := hrec _ _ _ _ _ _ (Placed.of_getNode hgn) hI hres
              exact ⟨hI', denXref_of_cached htp hne hgn hd⟩

theorem ecfgLookup_den {root : Node} {w : World} {rec : Rec} (hrec : RecDen root w rec)
    {nm : String} {st st' : EvSt} {v : Val} (hI : DInv root w st)
    (h : ecfgLookup rec root nm st = .ok (v, st')) :
    DInv root w st' ∧ ∃ n, getNode root [Key.str nm] = some n ∧ Den root w n [Key.str nm] v := by
  unfold ecfgLookup at h
  simp only at h
  split at h
  · rename_i v0 hv0
    split at h
    · cases h
    · cases h; exact ⟨hI, hI.ok _ _ hv0⟩
  · split at h
    · cases h
    · split at h
      · cases h
      · rename_i n hn
        obtain ⟨hI', hd, _⟩ := hrec _ _ _ _ _ _ (Placed.of_getNode hn) hI h
        exact ⟨hI', n, hn, hd⟩

theorem resolveNames_den {root : Node} {w : World} {rec : Rec} (hrec : RecDen root w rec) :
    ∀ (names : List String) (st : EvSt) (vs : List Val) (st' : EvSt),
    DInv root w st → resolveNames rec root w names st = .ok (vs, st') →
    DInv root w st' ∧ ∃ f, denNames (den root w f) root w names = some vs
  | [], st, vs, st', hI, h => by
    simp [resolveNames] at h
    obtain ⟨rfl, rfl⟩ := h
    exact ⟨hI, 0, rfl⟩
  | nm :: rest, st, vs, st', hI, h => by
    unfold resolveNames at h
    simp only at h
    split at h
    · cases h
    · rename_i v st1 h1
      split at h
      · cases h
      · rename_i vs2 st2 h2
        cases h
        have hstep : DInv root w st1 ∧ ∃ f, denName (den root w f) root w nm = some v := by
          split at h1
          · rename_i hs
            cases h1; exact ⟨hI, 0, by simp only [denName, if_pos hs]⟩
          · rename_i hs
            split at h1
            · obtain ⟨hI1, n, hn, f, hf⟩ := ecfgLookup_den hrec hI h1
              exact ⟨hI1, f, by simp only [denName, if_neg hs, hn]; exact hf⟩
            · rename_i hg
              split at h1
              · rename_i hb
                cases h1
                have hg' : getNode root [Key.str nm] = none := by
                  cases hx : getNode root [Key.str nm] with
                  | none => rfl
                  | some x => rw [hx] at hg; simp at hg
                exact ⟨hI, 0, by simp only [denName, if_neg hs, hg', if_pos hb]⟩
              · cases h1
        obtain ⟨hI1, f1, hf1⟩ := hstep
        obtain ⟨hI2, f2, hf2⟩ := resolveNames_den hrec rest st1 vs2 st' hI1 h2
        refine ⟨hI2, max f1 f2, ?_⟩
        unfold denNames
        rw [denName_mono (den_mono root w (Nat.le_max_left f1 f2)) root w nm v hf1,
          denNames_mono (den_mono root w (Nat.le_max_right f1 f2)) root w rest vs2 hf2]

theorem evalImpl_den {root : Node} {w : World} {rec : Rec} (hrec : RecDen root w rec)
    {rs : Bool} {n : Node} {path : Path} {st st' : EvSt} {v : Val}
    (hp : Placed root n path) (hI : DInv root w st)
    (h : evalImpl rec root w rs n path st = .ok (v, st')) :
    COK root w st'.cache ∧ ∃ f, denImpl (den root w f) root w f n path = some v := by
  cases n with
  | leaf fl lk =>
    cases lk with
    | scalar s => simp only [evalImpl] at h; cases h; exact ⟨hI.ok, 0, rfl⟩
    | prev s => simp only [evalImpl] at h; cases h; exact ⟨hI.ok, 0, rfl⟩
    | incl fs => simp only [evalImpl] at h; cases h; exact ⟨hI.ok, 0, rfl⟩
    | required => simp [evalImpl] at h
    | clear => simp [evalImpl] at h
    | fstr s => simp [evalImpl] at h
    | xref t =>
      simp only [evalImpl] at h
      obtain ⟨hI', f, hf⟩ := xrefLoop_den hrec _ _ _ _ _ _ hI h
      exact ⟨hI'.ok, f, hf⟩
    | imp m =>
      simp only [evalImpl] at h
      split at h
      · cases h
      · split at h
        · rename_i hm
          cases h
          exact ⟨hI.ok, 0, by simp only [denImpl, if_pos hm]⟩
        · cases h
    | eval code =>
      simp only [evalImpl] at h
      split at h
      · cases h
      · split at h
        · cases h
        · rename_i names hn
          split at h
          · cases h
          · cases h
          · rename_i vs st1 hr
            cases h
            obtain ⟨hI', f, hf⟩ := resolveNames_den hrec _ _ _ _ hI hr
            exact ⟨hI'.ok, f, by simp only [denImpl, hn, hf]⟩
  | comp fl k cs =>
    obtain ⟨rs', items, st1, he, hc, hfin⟩ := evalImpl_comp_val h
    obtain ⟨hI', f, hf⟩ := evalItems_den hrec cs st items st1
      (fun key c hm => Placed.child hp hm) hI he
    refine ⟨by rw [hc]; exact hI'.ok, f, ?_⟩
    simp only [denImpl, hf]
    exact hfin

/-- Cache correctness is an invariant of the evaluator, and a successful evaluation returns the
    denotation of the node (tree with pairwise distinct keys: a path determines its node). -/
theorem evalNodeF_den (root : Node) (w : World) (huk : uniqueKeys root = true) :
    ∀ fuel, RecDen root w (evalNodeF root w fuel)
  | 0 => by intro rs m p s v s' _ _ h; simp [evalNodeF] at h
  | fuel + 1 => by
    intro rs n path st v st' hp hI h
    obtain ⟨hwf', hext⟩ := evalNodeF_wf root w (fuel + 1) rs n path st v st' hI.wf h
    have hgn : getNode root path = some n := (hp.getNode_uniq huk).1
    have hbusy' : [] ∈ st'.inProgress := by rw [hext.prog]; exact hI.busy
    obtain ⟨_, hcase⟩ := evalNodeF_ok_inv h
    rcases hcase with ⟨hv, _, rfl⟩ | ⟨hnone, hnip, st2, himpl, rfl⟩
    · obtain ⟨n', hn', hd⟩ := hI.ok path v hv
      rw [hgn] at hn'; cases hn'
      refine ⟨⟨hwf', hbusy', by simpa using hI.ok⟩, hd, ?_⟩
      intro e; subst e; rw [hI.root_fresh] at hv; cases hv
    · have hI0 : DInv root w (enter path (bump n st)) :=
        ⟨hI.wf.enter hnone, by simp [hI.busy], by simpa using hI.ok⟩
      obtain ⟨hok, f, hf⟩ := evalImpl_den (evalNodeF_den root w huk fuel) hp hI0 himpl
      have hd : Den root w n path v := ⟨f + 1, hf⟩
      refine ⟨⟨hwf', hbusy', ?_⟩, hd, ?_⟩
      · intro p a hpa
        simp only [finish_cache, plookup_cons] at hpa
        split at hpa
        · rename_i e; subst e; cases hpa; exact ⟨n, hgn, hd⟩
        · exact hok p a hpa
      · intro e; subst e; exact hnip hI.busy

/-- the state in which the children of the root are evaluated -/
theorem DInv.start (root : Node) (w : World) : DInv root w (enter [] (bump root {})) :=
  ⟨WF.init.enter rfl, by simp, by intro p v h; simp [plookup] at h⟩

/-- a successful build returns the denotation of the root, and every memoised value is the
    denotation of its node -/
theorem evaluate_den {w : World} {root : Node} {v : Val} {st : EvSt}
    (huk : uniqueKeys root = true) (h : evaluate w root = .ok (v, st)) :
    (∃ f, denImpl (den root w f) root w f root [] = some v) ∧ COK root w st.cache := by
  unfold evaluate at h
  obtain ⟨_, hcase⟩ := evalNodeF_ok_inv (fuel := 2 * root.size + 9) h
  rcases hcase with ⟨hv, _, _⟩ | ⟨_, _, st2, himpl, rfl⟩
  · simp [plookup] at hv
  · obtain ⟨hok, f, hf⟩ := evalImpl_den (evalNodeF_den root w huk _) Placed.root (DInv.start root w) himpl
    refine ⟨⟨f, hf⟩, ?_⟩
    intro p a hpa
    simp only [finish_cache, plookup_cons] at hpa
    split at hpa
    · rename_i e; subst e; cases hpa; exact ⟨root, rfl, f + 1, hf⟩
    · exact hok p a hpa

/-! ### permuting the children of the root -/

theorem alookup_perm_uniq {k : Key} {cs cs' : List (Key × Node)} (hperm : cs'.Perm cs)
    (huk : uniqueKeysList cs = true) (huk' : uniqueKeysList cs' = true) :
    alookup k cs' = alookup k cs := by
  cases h : alookup k cs with
  | some c =>
    exact (uniqueKeysList_mem huk' (hperm.mem_iff.2 (alookup_mem h))).2
  | none =>
    cases h' : alookup k cs' with
    | none => rfl
    | some c' =>
      have := (uniqueKeysList_mem huk (hperm.mem_iff.1 (alookup_mem h'))).2
      rw [h] at this; cases this

/-- below the root the two trees are the same -/
theorem getNode_permRoot {fl : Flags} {k : CompKind} {cs cs' : List (Key × Node)} (hperm : cs'.Perm cs)
    (huk : uniqueKeysList cs = true) (huk' : uniqueKeysList cs' = true) (key : Key) (rest : Path) :
    getNode (.comp fl k cs') (key :: rest) = getNode (.comp fl k cs) (key :: rest) := by
  simp only [getNode, alookup_perm_uniq hperm huk huk']

section permRoot
variable {fl : Flags} {k : CompKind} {cs cs' : List (Key × Node)} (hperm : cs'.Perm cs)
  (huk : uniqueKeysList cs = true) (huk' : uniqueKeysList cs' = true)
include hperm huk huk'

theorem denXref_permRoot (rec : DRec) : ∀ (fuel : Nat) (cur : String),
    denXref rec (.comp fl k cs') fuel cur = denXref rec (.comp fl k cs) fuel cur
  | 0, _ => rfl
  | fuel + 1, cur => by
    unfold denXref
    cases htp : splitPath cur with
    | none => rfl
    | some tp =>
      cases tp with
      | nil => simp [getNode]
      | cons key rest =>
        simp only [getNode_permRoot hperm huk huk' key rest]
        split
        · rfl
        · exact denXref_permRoot rec fuel _
        · rfl

theorem denNames_permRoot (rec : DRec) (w : World) : ∀ names : List String,
    denNames rec (.comp fl k cs') w names = denNames rec (.comp fl k cs) w names
  | [] => rfl
  | nm :: rest => by
    unfold denNames
    rw [denNames_permRoot rec w rest]
    simp only [denName, getNode_permRoot hperm huk huk' (Key.str nm) []]

theorem denImpl_permRoot (rec : DRec) (w : World) (xf : Nat) (n : Node) (p : Path) :
    denImpl rec (.comp fl k cs') w xf n p = denImpl rec (.comp fl k cs) w xf n p := by
  cases n with
  | comp f kk c => rfl
  | leaf f lk =>
    cases lk with
    | xref t => simp only [denImpl]; exact denXref_permRoot hperm huk huk' rec xf t
    | eval code => simp only [denImpl, denNames_permRoot hperm huk huk' rec w]
    | _ => rfl

/-- the denotation of every node is the same in both trees -/
theorem den_permRoot (w : World) : ∀ f : Nat,
    den (.comp fl k cs') w f = den (.comp fl k cs) w f
  | 0 => rfl
  | f + 1 => by
    funext n p
    simp only [den]
    rw [den_permRoot w f]
    exact denImpl_permRoot hperm huk huk' _ w f n p

end permRoot

theorem denItems_eq_map {rec : DRec} {path : Path} : ∀ {cs : List (Key × Node)} {items : List (Key × Val)},
    denItems rec path cs = some items →
    items = cs.map (fun kc => (kc.1, (rec kc.2 (path ++ [kc.1])).getD default))
  | [], items, h => by simp [denItems] at h; subst h; rfl
  | (k, c) :: rest, items, h => by
    unfold denItems at h
    split at h
    · cases h
    · rename_i v hv
      split at h
      · cases h
      · rename_i vs hvs
        cases h
        simp only [List.map_cons, hv, Option.getD_some, denItems_eq_map hvs]

theorem nodup_of_map {α β : Type} (f : α → β) : ∀ {l : List α}, (l.map f).Nodup → l.Nodup
  | [], _ => List.nodup_nil
  | a :: l, h => by
    simp only [List.map_cons, List.nodup_cons] at h ⊢
    exact ⟨fun hm => h.1 (List.mem_map.2 ⟨a, hm, rfl⟩), nodup_of_map f h.2⟩

/-- a successful build of a mapping returns a mapping of the denotations of its children -/
theorem evaluate_dict_items {w : World} {fl : Flags} {cs : List (Key × Node)} {v : Val} {st : EvSt}
    (huk : uniqueKeys (.comp fl .dict cs) = true) (h : evaluate w (.comp fl .dict cs) = .ok (v, st)) :
    ∃ f items, v = .dict [] items ∧ denItems (den (.comp fl .dict cs) w f) [] cs = some items := by
  obtain ⟨⟨f, hf⟩, _⟩ := evaluate_den huk h
  simp only [denImpl] at hf
  split at hf
  · cases hf
  · rename_i items hi
    simp only [denFinish] at hf
    cases hf
    exact ⟨f, items, rfl, hi⟩

/-! ### the states reached inside a build -/

/-- `Reach root w st`: `st` is a state in which the evaluator can be called in the course of
    `evaluate w root`: the state in which the children of the root are evaluated, closed under
    entering a not yet memoised path, reading a tainted memo entry, and any successful evaluation of
    a node of the tree. -/
inductive Reach (root : Node) (w : World) : EvSt → Prop
  | start : Reach root w (enter [] (bump root {}))
  | enter {s : EvSt} (n : Node) (path : Path) :
      Reach root w s → plookup path s.cache = none → Reach root w (enter path (bump n s))
  | seeTaint {s : EvSt} : Reach root w s → Reach root w (seeTaint s)
  | eval {s s' : EvSt} {fuel : Nat} {rs : Bool} {n : Node} {path : Path} {v : Val} :
      Reach root w s → Placed root n path → evalNodeF root w fuel rs n path s = .ok (v, s') →
      Reach root w s'

theorem Reach.dinv {root : Node} {w : World} (huk : uniqueKeys root = true) {st : EvSt}
    (h : Reach root w st) : DInv root w st := by
  induction h with
  | start => exact DInv.start root w
  | enter n path _ hnone ih =>
    exact ⟨ih.wf.enter hnone, by simp [ih.busy], by simpa using ih.ok⟩
  | seeTaint _ ih => exact ih.seeTaint
  | eval _ hp he ih => exact (evalNodeF_den root w huk _ _ _ _ _ _ _ hp ih he).1

/-! ### the two builds of a tree and of the tree with the root's children permuted -/

section twoBuilds
variable {w : World} {fl : Flags} {cs cs' : List (Key × Node)} {v v' : Val} {st st' : EvSt}

/-- the logs are permutations of each other -/
theorem evaluate_permRoot_log (hperm : cs'.Perm cs)
    (huk : uniqueKeys (.comp fl .dict cs) = true) (huk' : uniqueKeys (.comp fl .dict cs') = true)
    (h : evaluate w (.comp fl .dict cs) = .ok (v, st))
    (h' : evaluate w (.comp fl .dict cs') = .ok (v', st')) : st'.log.Perm st.log := by
  have hu : uniqueKeysList cs = true := by simpa [uniqueKeys] using huk
  have hu' : uniqueKeysList cs' = true := by simpa [uniqueKeys] using huk'
  have hwf := (evalNodeF_wf _ w _ false _ [] {} v st WF.init h).1
  have hwf' := (evalNodeF_wf _ w _ false _ [] {} v' st' WF.init h').1
  -- one direction, stated for both pairs
  have key : ∀ {a b : List (Key × Node)} {va vb : Val} {sa sb : EvSt}, b.Perm a →
      uniqueKeysList a = true → uniqueKeysList b = true →
      evaluate w (.comp fl .dict a) = .ok (va, sa) → evaluate w (.comp fl .dict b) = .ok (vb, sb) →
      ∀ e, e ∈ sa.log → e ∈ sb.log := by
    intro a b va vb sa sb hp ha hb hea heb e he
    obtain ⟨new, h1, h2⟩ := evalNodeF_logExt _ w _ false _ [] {} va sa Placed.root hea
    rw [h1] at he
    obtain ⟨m, hm, _, hd⟩ := h2 e (by simpa using he)
    have hga : getNode (.comp fl .dict a) e.path = some m :=
      (hm.getNode_uniq (by simpa [uniqueKeys] using ha)).1
    have hgb : getNode (.comp fl .dict b) e.path = some m := by
      cases hpath : e.path with
      | nil =>
        rw [hpath] at hga
        simp only [getNode, Option.some.injEq] at hga
        subst hga
        simp [dynWhat] at hd
      | cons key rest =>
        rw [hpath] at hga
        rw [getNode_permRoot hp ha hb]; exact hga
    exact (evaluate_dyn_logged (by simpa [uniqueKeys] using hb) heb hgb hd).1
  rw [List.perm_ext_iff_of_nodup (nodup_of_map _ hwf'.nodup) (nodup_of_map _ hwf.nodup)]
  intro e
  exact ⟨key hperm.symm hu' hu h' h e, key hperm hu hu' h h' e⟩

/-- the values are mappings whose items are permutations of each other -/
theorem evaluate_permRoot_items (hperm : cs'.Perm cs)
    (huk : uniqueKeys (.comp fl .dict cs) = true) (huk' : uniqueKeys (.comp fl .dict cs') = true)
    (h : evaluate w (.comp fl .dict cs) = .ok (v, st))
    (h' : evaluate w (.comp fl .dict cs') = .ok (v', st')) :
    ∃ items items', v = .dict [] items ∧ v' = .dict [] items' ∧ items'.Perm items := by
  have hu : uniqueKeysList cs = true := by simpa [uniqueKeys] using huk
  have hu' : uniqueKeysList cs' = true := by simpa [uniqueKeys] using huk'
  obtain ⟨f, items, rfl, hi⟩ := evaluate_dict_items huk h
  obtain ⟨f', items', rfl, hi'⟩ := evaluate_dict_items huk' h'
  refine ⟨items, items', rfl, rfl, ?_⟩
  rw [den_permRoot hperm hu hu'] at hi'
  have h1 := denItems_mono (den_mono _ w (Nat.le_max_left f f')) [] cs items hi
  have h2 := denItems_mono (den_mono _ w (Nat.le_max_right f f')) [] cs' items' hi'
  rw [denItems_eq_map h1, denItems_eq_map h2]
  exact hperm.map _

/-- every node below the root is memoised with the same value in both builds -/
theorem evaluate_permRoot_nodes (hperm : cs'.Perm cs)
    (huk : uniqueKeys (.comp fl .dict cs) = true) (huk' : uniqueKeys (.comp fl .dict cs') = true)
    (h : evaluate w (.comp fl .dict cs) = .ok (v, st))
    (h' : evaluate w (.comp fl .dict cs') = .ok (v', st'))
    {key : Key} {rest : Path} {m : Node} (hm : getNode (.comp fl .dict cs) (key :: rest) = some m) :
    getNode (.comp fl .dict cs') (key :: rest) = some m ∧
    ∃ a, plookup (key :: rest) st.cache = some a ∧ plookup (key :: rest) st'.cache = some a := by
  have hu : uniqueKeysList cs = true := by simpa [uniqueKeys] using huk
  have hu' : uniqueKeysList cs' = true := by simpa [uniqueKeys] using huk'
  have hm' : getNode (.comp fl .dict cs') (key :: rest) = some m := by
    rw [getNode_permRoot hperm hu hu']; exact hm
  refine ⟨hm', ?_⟩
  have hcached : ∀ {root : Node} {r : Val} {s : EvSt}, uniqueKeys root = true →
      evaluate w root = .ok (r, s) → getNode root (key :: rest) = some m →
      plookup (key :: rest) s.cache ≠ none := by
    intro root r s hk he hg
    have hcov := evalNodeF_cov root w hk _ false root [] {} r s Placed.root (Cov.init root) he
    have hroot : plookup [] s.cache ≠ none := by rw [evalNodeF_cached he]; simp
    simpa using hcov.down [] root hroot rfl (key :: rest) m hg
  cases ha : plookup (key :: rest) st.cache with
  | none => exact absurd ha (hcached huk h hm)
  | some a =>
    cases ha' : plookup (key :: rest) st'.cache with
    | none => exact absurd ha' (hcached huk' h' hm')
    | some a' =>
      obtain ⟨n1, hn1, hd1⟩ := (evaluate_den huk h).2 _ _ ha
      obtain ⟨n2, hn2, f2, hd2⟩ := (evaluate_den huk' h').2 _ _ ha'
      rw [hm] at hn1; cases hn1
      rw [hm'] at hn2; cases hn2
      rw [den_permRoot hperm hu hu'] at hd2
      rw [Den.unique hd1 ⟨f2, hd2⟩]
      exact ⟨a', rfl, rfl⟩

end twoBuilds

/-! ### an unsafe reference in the middle of a chain -/

/-- strict mode: a chain that passes through an unsafe reference ends with `UnsafeError`, whether
    the reference was evaluated before (memoised, hence tainted) or is met as a node -/
theorem xrefLoop_unsafe_link_strict {rec : Rec} {root : Node} {self : Path} {fuel : Nat} {cur : String}
    {chain : List String} {st : EvSt} {tp : Path} {f : Flags} {next : String}
    (hut : plookup tp st.cache ≠ none → tp ∈ st.tainted) (htp : splitPath cur = some tp)
    (hg : getNode root tp = some (.leaf f (.xref next))) (hs : eSafe f = false)
    (hc : cur ∉ chain) (hself : tp ≠ self) :
    xrefLoop rec root true self (fuel + 1) cur chain st = .error .unsafeE := by
  unfold xrefLoop
  simp only [htp]
  cases hpl : plookup tp st.cache with
  | none => simp [ctxGetNode, hpl, hg, hc, hself, hs]
  | some a =>
    have ht : tp ∈ st.tainted := hut (by rw [hpl]; simp)
    simp [ctxGetNode, hpl, ht]

/-- non-strict mode: a successful chain that passes through an unsafe reference has counted it,
    whether the reference was evaluated before or is met as a node -/
theorem xrefLoop_unsafe_link_counts {root : Node} {w : World} {f : Nat} {self : Path} {fuel : Nat}
    {cur : String} {chain : List String} {st st' : EvSt} {tp : Path} {fl : Flags} {next : String} {v : Val}
    (hut : plookup tp st.cache ≠ none → tp ∈ st.tainted) (htp : splitPath cur = some tp)
    (hg : getNode root tp = some (.leaf fl (.xref next))) (hs : eSafe fl = false)
    (h : xrefLoop (evalNodeF root w f) root false self (fuel + 1) cur chain st = .ok (v, st')) :
    st.unsafeSeen < st'.unsafeSeen := by
  unfold xrefLoop at h
  simp only [htp] at h
  cases hpl : plookup tp st.cache with
  | none =>
    have hgn : ctxGetNode root false tp st = .ok (.node (.leaf fl (.xref next)), st) := by
      simp [ctxGetNode, hpl, hg]
    rw [hgn] at h
    simp only [hs] at h
    split at h
    · cases h
    · have := xrefLoop_mono (cleanRec_evalNodeF root w f) h
      simp only at this ⊢
      omega
  | some a =>
    have ht : tp ∈ st.tainted := hut (by rw [hpl]; simp)
    have hgn : ctxGetNode root false tp st = .ok (.value a, seeTaint st) := by
      simp [ctxGetNode, hpl, ht, seeTaint]
    rw [hgn] at h
    simp only at h
    split at h
    · cases h
    · cases h; simp

/-- a strict consumer — a fresh reference evaluated under `require_all_safe` — whose chain passes
    through an unsafe reference never obtains a value -/
theorem evalNodeF_unsafe_link_strict {root : Node} {w : World} {fuel : Nat} {fx : Flags} {cur : String}
    {self : Path} {st : EvSt} {tp : Path} {f : Flags} {next : String}
    (hut : plookup tp st.cache ≠ none → tp ∈ st.tainted) (hfresh : plookup self st.cache = none)
    (htp : splitPath cur = some tp) (hg : getNode root tp = some (.leaf f (.xref next)))
    (hs : eSafe f = false) :
    ∃ e, evalNodeF root w fuel true (.leaf fx (.xref cur)) self st = .error e ∧
      (eSafe fx = true → self ∉ st.inProgress → tp ≠ self → fuel ≠ 0 → e = .unsafeE) := by
  cases fuel with
  | zero => exact ⟨_, rfl, fun _ _ _ h => absurd rfl h⟩
  | succ fuel =>
    rw [evalNodeF_succ]
    split
    · rename_i hx
      refine ⟨_, rfl, fun h => ?_⟩
      simp [Node.flags, h] at hx
    · simp only [bump_cache, hfresh]
      split
      · rename_i hip
        refine ⟨_, rfl, fun _ h => ?_⟩
        simp at hip; exact absurd hip h
      · simp only [evalImpl]
        by_cases hself : tp = self
        · subst hself
          refine ⟨.eval, ?_, fun _ _ h => absurd rfl h⟩
          have : xrefLoop (evalNodeF root w fuel) root true tp (root.size + 1) cur []
              (enter tp (bump (.leaf fx (.xref cur)) st)) = .error .eval := by
            unfold xrefLoop
            simp [htp, ctxGetNode, hfresh, hg]
          rw [this]
        · have : xrefLoop (evalNodeF root w fuel) root true self (root.size + 1) cur []
              (enter self (bump (.leaf fx (.xref cur)) st)) = .error .unsafeE :=
            xrefLoop_unsafe_link_strict (by simpa using hut) htp hg hs (by simp) hself
          rw [this]
          exact ⟨_, rfl, fun _ _ _ _ => rfl⟩

/-! ### taint is a function of the tree -/

/-- `Dirty root p`: unsafe content is reachable from the node at `p` — the node is unsafe, one of
    its children is dirty, or it is a reference to a dirty path (an unsafe reference is dirty itself,
    so a chain is dirty as soon as one of its links is). -/
inductive Dirty (root : Node) : Path → Prop
  | flag {p : Path} {n : Node} : getNode root p = some n → eSafe n.flags = false → Dirty root p
  | child {p : Path} {f : Flags} {k : CompKind} {cs : List (Key × Node)} {key : Key} {c : Node} :
      getNode root p = some (.comp f k cs) → (key, c) ∈ cs → Dirty root (p ++ [key]) → Dirty root p
  | link {p : Path} {f : Flags} {t : String} {tp : Path} :
      getNode root p = some (.leaf f (.xref t)) → splitPath t = some tp → Dirty root tp → Dirty root p

/-- dirty through what the node evaluates -/
def DirtyIn (root : Node) (n : Node) (path : Path) : Prop :=
  (∃ f k cs key c, n = .comp f k cs ∧ (key, c) ∈ cs ∧ Dirty root (path ++ [key])) ∨
  (∃ f t tp, n = .leaf f (.xref t) ∧ splitPath t = some tp ∧ Dirty root tp)

theorem dirty_iff {root n : Node} {path : Path} (hg : getNode root path = some n) :
    Dirty root path ↔ (eSafe n.flags = false ∨ DirtyIn root n path) := by
  constructor
  · intro h
    cases h with
    | flag hg' hs => rw [hg] at hg'; cases hg'; exact .inl hs
    | child hg' hm hd => rw [hg] at hg'; cases hg'; exact .inr (.inl ⟨_, _, _, _, _, rfl, hm, hd⟩)
    | link hg' ht hd => rw [hg] at hg'; cases hg'; exact .inr (.inr ⟨_, _, _, rfl, ht, hd⟩)
  · rintro (hs | ⟨f, k, cs, key, c, rfl, hm, hd⟩ | ⟨f, t, tp, rfl, ht, hd⟩)
    · exact Dirty.flag hg hs
    · exact Dirty.child hg hm hd
    · exact Dirty.link hg ht hd

theorem dirtyIn_comp {root : Node} {f : Flags} {k : CompKind} {cs : List (Key × Node)} {path : Path} :
    DirtyIn root (.comp f k cs) path ↔ ∃ key c, (key, c) ∈ cs ∧ Dirty root (path ++ [key]) := by
  constructor
  · rintro (⟨_, _, _, key, c, h, hm, hd⟩ | ⟨_, _, _, h, _⟩)
    · cases h; exact ⟨key, c, hm, hd⟩
    · cases h
  · rintro ⟨key, c, hm, hd⟩
    exact .inl ⟨_, _, _, key, c, rfl, hm, hd⟩

theorem dirtyIn_xref {root : Node} {f : Flags} {t : String} {path : Path} :
    DirtyIn root (.leaf f (.xref t)) path ↔ ∃ tp, splitPath t = some tp ∧ Dirty root tp := by
  constructor
  · rintro (⟨_, _, _, _, _, h, _⟩ | ⟨_, _, tp, h, ht, hd⟩)
    · cases h
    · cases h; exact ⟨tp, ht, hd⟩
  · rintro ⟨tp, ht, hd⟩
    exact .inr ⟨_, _, tp, rfl, ht, hd⟩

theorem dirtyIn_leaf {root : Node} {f : Flags} {lk : LeafKind} {path : Path}
    (h : ∀ t, lk ≠ .xref t) : ¬ DirtyIn root (.leaf f lk) path := by
  rintro (⟨_, _, _, _, _, e, _⟩ | ⟨_, t, _, e, _⟩)
  · cases e
  · cases e; exact h t rfl

/-- exactness of the taint marks: a memoised path is tainted iff it is dirty -/
structure TInv (root : Node) (st : EvSt) : Prop where
  wf : WF st
  ex : ∀ p, plookup p st.cache ≠ none → (p ∈ st.tainted ↔ Dirty root p)

theorem TInv.seeTaint {root : Node} {st : EvSt} (h : TInv root st) : TInv root (seeTaint st) :=
  ⟨h.wf.seeTaint, h.ex⟩

/-- what the lemmas below assume of the recursive evaluator: the counter moves iff the path is dirty -/
def RecDirty (root : Node) (rec : Rec) : Prop :=
  ∀ rs m p s v s', Placed root m p → TInv root s → rec rs m p s = .ok (v, s') →
    TInv root s' ∧ s.unsafeSeen ≤ s'.unsafeSeen ∧ (s.unsafeSeen < s'.unsafeSeen ↔ Dirty root p) ∧
    (rs = true → s'.unsafeSeen = s.unsafeSeen)

theorem evalItems_dirty {root : Node} {rec : Rec} (hrec : RecDirty root rec) {rs : Bool} {path : Path} :
    ∀ (cs : List (Key × Node)) (st : EvSt) (items : List (Key × Val)) (st' : EvSt),
    (∀ key c, (key, c) ∈ cs → Placed root c (path ++ [key])) → TInv root st →
    evalItems rec rs path cs st = .ok (items, st') →
    TInv root st' ∧ st.unsafeSeen ≤ st'.unsafeSeen ∧
      (st.unsafeSeen < st'.unsafeSeen ↔ ∃ key c, (key, c) ∈ cs ∧ Dirty root (path ++ [key]))
  | [], st, items, st', _, hI, h => by
    simp [evalItems] at h
    obtain ⟨_, rfl⟩ := h
    exact ⟨hI, Nat.le_refl _, by simp⟩
  | (k, c) :: rest, st, items, st', hpl, hI, h => by
    unfold evalItems at h
    split at h
    · cases h
    · rename_i v st1 h1
      split at h
      · cases h
      · rename_i vs st2 h2
        cases h
        obtain ⟨hI1, hle1, hiff1, _⟩ := hrec _ _ _ _ _ _ (hpl k c List.mem_cons_self) hI h1
        obtain ⟨hI2, hle2, hiff2⟩ := evalItems_dirty hrec rest st1 vs st'
          (fun key c' hm => hpl key c' (List.mem_cons_of_mem _ hm)) hI1 h2
        refine ⟨hI2, Nat.le_trans hle1 hle2, ?_⟩
        constructor
        · intro hlt
          by_cases h1lt : st.unsafeSeen < st1.unsafeSeen
          · exact ⟨k, c, List.mem_cons_self, hiff1.1 h1lt⟩
          · obtain ⟨key, c', hm, hd⟩ := hiff2.1 (by omega)
            exact ⟨key, c', List.mem_cons_of_mem _ hm, hd⟩
        · rintro ⟨key, c', hm, hd⟩
          rcases List.mem_cons.1 hm with heq | hm
          · cases heq
            have := hiff1.2 hd; omega
          · have := hiff2.2 ⟨key, c', hm, hd⟩; omega

theorem xrefLoop_dirty {root : Node} {rec : Rec} (hrec : RecDirty root rec) {rs : Bool} {self : Path} :
    ∀ (fuel : Nat) (cur : String) (chain : List String) (st : EvSt) (v : Val) (st' : EvSt),
    TInv root st → xrefLoop rec root rs self fuel cur chain st = .ok (v, st') →
    TInv root st' ∧ st.unsafeSeen ≤ st'.unsafeSeen ∧
      (st.unsafeSeen < st'.unsafeSeen ↔ ∃ tp, splitPath cur = some tp ∧ Dirty root tp)
  | 0, cur, chain, st, v, st', _, h => by simp [xrefLoop] at h
  | fuel + 1, cur, chain, st, v, st', hI, h => by
    rw [xrefLoop_succ] at h
    cases hstep : xrefStep rec root rs self cur chain st with
    | next t s1 =>
      rw [hstep] at h
      simp only at h
      obtain ⟨tp, f, htp, hg, hs1⟩ := xrefStep_next_state hstep
      have hdt : Dirty root tp ↔ (eSafe f = false ∨ ∃ tp', splitPath t = some tp' ∧ Dirty root tp') := by
        rw [dirty_iff hg, dirtyIn_xref]; rfl
      have hgoal : (∃ tp0, splitPath cur = some tp0 ∧ Dirty root tp0) ↔ Dirty root tp := by
        constructor
        · rintro ⟨tp0, h0, hd⟩; rw [htp] at h0; cases h0; exact hd
        · intro hd; exact ⟨tp, htp, hd⟩
      rw [hgoal, hdt]
      rcases hs1 with ⟨hsafe, e⟩ | ⟨hunsafe, _, e⟩ <;> rw [e] at h
      · obtain ⟨hI', hle, hiff⟩ := xrefLoop_dirty hrec fuel t _ st v st' hI h
        refine ⟨hI', hle, ?_⟩
        rw [hiff]
        constructor
        · intro hx; exact .inr hx
        · rintro (hx | hx)
          · rw [hsafe] at hx; cases hx
          · exact hx
      · obtain ⟨hI', hle, _⟩ := xrefLoop_dirty hrec fuel t _ (seeTaint st) v st' hI.seeTaint h
        simp only [seeTaint_unsafeSeen] at hle
        exact ⟨hI', by omega, ⟨fun _ => .inl hunsafe, fun _ => by omega⟩⟩
    | done r =>
      rw [hstep] at h
      simp only at h
      subst h
      unfold xrefStep at hstep
      split at hstep
      · cases hstep
      · rename_i tp htp
        have hgoal : (∃ tp0, splitPath cur = some tp0 ∧ Dirty root tp0) ↔ Dirty root tp := by
          constructor
          · rintro ⟨tp0, h0, hd⟩; rw [htp] at h0; cases h0; exact hd
          · intro hd; exact ⟨tp, htp, hd⟩
        rw [hgoal]
        split at hstep
        · cases hstep
        · rename_i v0 st1 hg
          split at hstep
          · cases hstep
          · cases hstep
            rcases ctxGetNode_ok_inv hg with ⟨v1, hv, hv1, hcase⟩ | ⟨_, hn, _⟩
            · cases hv
              have hex := hI.ex tp (by rw [hv1]; simp)
              rcases hcase with ⟨hnt, rfl⟩ | ⟨ht, _, rfl⟩
              · refine ⟨hI, Nat.le_refl _, ?_⟩
                constructor
                · intro hx; omega
                · intro hd; exact absurd (hex.2 hd) hnt
              · refine ⟨hI.seeTaint, by simp, ?_⟩
                exact ⟨fun _ => hex.1 ht, fun _ => by simp⟩
            · cases hn
        · rename_i n st1 hg
          split at hstep
          · cases hstep
          · split at hstep
            · split at hstep
              · split at hstep <;> cases hstep
              · cases hstep
            · rename_i hnx
              injection hstep with hres
              have hgn : getNode root tp = some n := by
                rcases ctxGetNode_ok_inv hg with ⟨_, hn, _⟩ | ⟨n', hn, _, hn', _⟩
                · cases hn
                · cases hn; exact hn'
              obtain ⟨hI', hle, hiff, _⟩ := hrec _ _ _ _ _ _ (Placed.of_getNode hgn) hI hres
              exact ⟨hI', hle, hiff⟩

theorem ecfgLookup_dirty {root : Node} {rec : Rec} (hrec : RecDirty root rec)
    {nm : String} {st st' : EvSt} {v : Val} (hI : TInv root st)
    (h : ecfgLookup rec root nm st = .ok (v, st')) :
    TInv root st' ∧ st'.unsafeSeen = st.unsafeSeen := by
  unfold ecfgLookup at h
  simp only at h
  split at h
  · split at h
    · cases h
    · cases h; exact ⟨hI, rfl⟩
  · split at h
    · cases h
    · split at h
      · cases h
      · rename_i n hn
        obtain ⟨hI', _, _, hrs⟩ := hrec _ _ _ _ _ _ (Placed.of_getNode hn) hI h
        exact ⟨hI', hrs rfl⟩

theorem resolveNames_dirty {root : Node} {w : World} {rec : Rec} (hrec : RecDirty root rec) :
    ∀ (names : List String) (st : EvSt) (vs : List Val) (st' : EvSt),
    TInv root st → resolveNames rec root w names st = .ok (vs, st') →
    TInv root st' ∧ st'.unsafeSeen = st.unsafeSeen
  | [], st, vs, st', hI, h => by
    simp [resolveNames] at h
    obtain ⟨_, rfl⟩ := h
    exact ⟨hI, rfl⟩
  | nm :: rest, st, vs, st', hI, h => by
    unfold resolveNames at h
    simp only at h
    split at h
    · cases h
    · rename_i v st1 h1
      split at h
      · cases h
      · rename_i vs2 st2 h2
        cases h
        have hstep : TInv root st1 ∧ st1.unsafeSeen = st.unsafeSeen := by
          split at h1
          · cases h1; exact ⟨hI, rfl⟩
          · split at h1
            · exact ecfgLookup_dirty hrec hI h1
            · split at h1
              · cases h1; exact ⟨hI, rfl⟩
              · cases h1
        obtain ⟨hI2, he2⟩ := resolveNames_dirty hrec rest st1 vs2 st' hstep.1 h2
        exact ⟨hI2, he2.trans hstep.2⟩

theorem evalImpl_dirty {root : Node} {w : World} {rec : Rec} (hrec : RecDirty root rec)
    {rs : Bool} {n : Node} {path : Path} {st st' : EvSt} {v : Val}
    (hp : Placed root n path) (hI : TInv root st)
    (h : evalImpl rec root w rs n path st = .ok (v, st')) :
    (∀ p, plookup p st'.cache ≠ none → (p ∈ st'.tainted ↔ Dirty root p)) ∧
    st.unsafeSeen ≤ st'.unsafeSeen ∧ (st.unsafeSeen < st'.unsafeSeen ↔ DirtyIn root n path) := by
  have hno : ∀ {f lk}, n = .leaf f lk → (∀ t, lk ≠ .xref t) → st'.unsafeSeen = st.unsafeSeen →
      (st.unsafeSeen < st'.unsafeSeen ↔ DirtyIn root n path) := by
    intro f lk hn hlk he
    subst hn
    exact ⟨fun hx => by omega, fun hd => absurd hd (dirtyIn_leaf hlk)⟩
  cases n with
  | leaf fl lk =>
    cases lk with
    | scalar s =>
      simp only [evalImpl] at h; cases h
      exact ⟨hI.ex, Nat.le_refl _, hno rfl (by intro t e; cases e) rfl⟩
    | prev s =>
      simp only [evalImpl] at h; cases h
      exact ⟨hI.ex, Nat.le_refl _, hno rfl (by intro t e; cases e) rfl⟩
    | incl fs =>
      simp only [evalImpl] at h; cases h
      exact ⟨hI.ex, Nat.le_refl _, hno rfl (by intro t e; cases e) rfl⟩
    | required => simp [evalImpl] at h
    | clear => simp [evalImpl] at h
    | fstr s => simp [evalImpl] at h
    | xref t =>
      simp only [evalImpl] at h
      obtain ⟨hI', hle, hiff⟩ := xrefLoop_dirty hrec _ _ _ _ _ _ hI h
      exact ⟨hI'.ex, hle, by rw [dirtyIn_xref]; exact hiff⟩
    | imp m =>
      simp only [evalImpl] at h
      split at h
      · cases h
      · split at h
        · cases h
          exact ⟨hI.ex, Nat.le_refl _, hno rfl (by intro t e; cases e) rfl⟩
        · cases h
    | eval code =>
      simp only [evalImpl] at h
      split at h
      · cases h
      · split at h
        · cases h
        · split at h
          · cases h
          · cases h
          · rename_i vs st1 hr
            cases h
            obtain ⟨hI', he⟩ := resolveNames_dirty hrec _ _ _ _ hI hr
            exact ⟨hI'.ex, by simp [he], hno rfl (by intro t e; cases e) he⟩
  | comp fl k cs =>
    obtain ⟨rs', items, st1, he, hc, ht, hu, _⟩ := evalImpl_comp_items h
    obtain ⟨hI', hle, hiff⟩ := evalItems_dirty hrec cs st items st1
      (fun key c hm => Placed.child hp hm) hI he
    refine ⟨by rw [hc, ht]; exact hI'.ex, by rw [hu]; exact hle, ?_⟩
    rw [hu, dirtyIn_comp]; exact hiff

/-- Exactness of the taint marks is an invariant of the evaluator, and the counter of unsafe
    content moves across a successful evaluation iff the evaluated path is dirty. -/
theorem evalNodeF_dirty (root : Node) (w : World) (huk : uniqueKeys root = true) :
    ∀ fuel, RecDirty root (evalNodeF root w fuel)
  | 0 => by intro rs m p s v s' _ _ h; simp [evalNodeF] at h
  | fuel + 1 => by
    intro rs n path st v st' hp hI h
    obtain ⟨hwf', _⟩ := evalNodeF_wf root w (fuel + 1) rs n path st v st' hI.wf h
    have hgn : getNode root path = some n := (hp.getNode_uniq huk).1
    have hmono := evalNodeF_seen_mono root w (fuel + 1) rs n path st v st' h
    have hrs : rs = true → st'.unsafeSeen = st.unsafeSeen := by
      intro e; subst e; exact evalNodeF_rs_seen root w (fuel + 1) n path st v st' h
    obtain ⟨_, hcase⟩ := evalNodeF_ok_inv h
    rcases hcase with ⟨hv, _, rfl⟩ | ⟨hnone, hnip, st2, himpl, rfl⟩
    · have hex := hI.ex path (by rw [hv]; simp)
      refine ⟨⟨hwf', by simpa using hI.ex⟩, hmono, ?_, hrs⟩
      rw [hit_unsafeSeen, bump_unsafeSeen]
      cases hs : eSafe n.flags with
      | false =>
        exact ⟨fun _ => Dirty.flag hgn hs, fun _ => by simp only [Bool.false_eq_true, if_false]; omega⟩
      | true =>
        by_cases ht : path ∈ st.tainted
        · exact ⟨fun _ => hex.1 ht, fun _ => by simp [ht]⟩
        · constructor
          · intro hx; simp [ht] at hx
          · intro hd; exact absurd (hex.2 hd) ht
    · have hI0 : TInv root (enter path (bump n st)) :=
        ⟨hI.wf.enter hnone, by simpa using hI.ex⟩
      obtain ⟨hex2, hle2, hiff2⟩ := evalImpl_dirty (evalNodeF_dirty root w huk fuel) hp hI0 himpl
      simp only [enter_unsafeSeen] at hle2 hiff2
      have hdi := dirty_iff hgn
      have hmoved : st.unsafeSeen < st2.unsafeSeen ↔ Dirty root path := by
        rw [hdi]
        rw [bump_unsafeSeen] at hle2 hiff2
        cases hs : eSafe n.flags with
        | false =>
          simp only [hs, Bool.false_eq_true, if_false] at hle2
          exact ⟨fun _ => .inl rfl, fun _ => by omega⟩
        | true =>
          simp only [hs, if_true] at hiff2
          rw [hiff2]
          exact ⟨fun hx => .inr hx, fun hx => hx.elim (fun e => by cases e) id⟩
      refine ⟨⟨hwf', ?_⟩, hmono, by simpa using hmoved, hrs⟩
      intro p hpc
      simp only [finish_cache, plookup_cons] at hpc
      by_cases hpp : path = p
      · subst hpp
        constructor
        · intro ht
          apply Classical.byContradiction
          intro hnd
          have hnm : ¬ st.unsafeSeen < st2.unsafeSeen := fun hx => hnd (hmoved.1 hx)
          have heq : (finish n path v (bump n st).unsafeSeen st2).unsafeSeen = st.unsafeSeen := by
            simp only [finish_unsafeSeen] at hmono ⊢; omega
          exact (evalNodeF_clean_untainted hI.wf h heq).2 ht
        · intro hd
          rw [finish_tainted]
          have hcond : (st2.unsafeSeen != (bump n st).unsafeSeen || !eSafe n.flags) = true := by
            rcases hdi.1 hd with hs | hin
            · simp [hs]
            · cases hs : eSafe n.flags with
              | false => simp
              | true =>
                have hb : bump n st = st := bump_safe hs st
                rw [hb] at hiff2 ⊢
                have := hiff2.2 hin
                simp; omega
          rw [if_pos hcond]; exact List.mem_cons_self
      · simp only [hpp, if_false] at hpc
        have hmem : p ∈ (finish n path v (bump n st).unsafeSeen st2).tainted ↔ p ∈ st2.tainted := by
          rw [finish_tainted]
          split
          · simp only [List.mem_cons]
            exact ⟨fun hx => hx.elim (fun e => absurd e.symm hpp) id, fun hx => .inr hx⟩
          · exact Iff.rfl
        rw [hmem]
        exact hex2 p hpc

theorem TInv.init (root : Node) : TInv root {} :=
  ⟨WF.init, by intro p h; exact absurd rfl h⟩

/-- after a successful build the tainted paths are exactly the dirty paths of the tree -/
theorem evaluate_tainted_iff {w : World} {root : Node} {v : Val} {st : EvSt}
    (huk : uniqueKeys root = true) (h : evaluate w root = .ok (v, st)) (p : Path) :
    p ∈ st.tainted ↔ ((∃ m, getNode root p = some m) ∧ Dirty root p) := by
  have hT := (evalNodeF_dirty root w huk _ false root [] {} v st Placed.root (TInv.init root) h).1
  have hcov := evalNodeF_cov root w huk _ false root [] {} v st Placed.root (Cov.init root) h
  have hroot : plookup [] st.cache ≠ none := by rw [evalNodeF_cached h]; simp
  constructor
  · intro ht
    have hc := hT.wf.taint p ht
    exact ⟨hcov.intree p hc, (hT.ex p hc).1 ht⟩
  · rintro ⟨⟨m, hm⟩, hd⟩
    have hc : plookup p st.cache ≠ none := by
      simpa using hcov.down [] root hroot rfl p m hm
    exact (hT.ex p hc).2 hd

/-- `Dirty` does not depend on the order of the root's children -/
theorem Dirty.permRoot {fl : Flags} {k : CompKind} {cs cs' : List (Key × Node)} (hperm : cs'.Perm cs)
    (huk : uniqueKeysList cs = true) (huk' : uniqueKeysList cs' = true) {p : Path}
    (h : Dirty (.comp fl k cs) p) : Dirty (.comp fl k cs') p := by
  induction h with
  | @flag p n hg hs =>
    cases p with
    | nil =>
      simp only [getNode, Option.some.injEq] at hg
      subst hg
      exact Dirty.flag (n := .comp fl k cs') rfl hs
    | cons key rest =>
      exact Dirty.flag (by rw [getNode_permRoot hperm huk huk']; exact hg) hs
  | @child p f k0 cs0 key c hg hm _ ih =>
    cases p with
    | nil =>
      simp only [getNode, Option.some.injEq] at hg
      cases hg
      exact Dirty.child (root := .comp fl k cs') (p := []) rfl (hperm.mem_iff.2 hm) ih
    | cons key0 rest =>
      exact Dirty.child (by rw [getNode_permRoot hperm huk huk']; exact hg) hm ih
  | @link p f t tp hg ht _ ih =>
    cases p with
    | nil => simp [getNode] at hg
    | cons key0 rest =>
      exact Dirty.link (by rw [getNode_permRoot hperm huk huk']; exact hg) ht ih

/-- the two builds taint the same paths -/
theorem evaluate_permRoot_tainted {w : World} {fl : Flags} {cs cs' : List (Key × Node)} {v v' : Val}
    {st st' : EvSt} (hperm : cs'.Perm cs)
    (huk : uniqueKeys (.comp fl .dict cs) = true) (huk' : uniqueKeys (.comp fl .dict cs') = true)
    (h : evaluate w (.comp fl .dict cs) = .ok (v, st))
    (h' : evaluate w (.comp fl .dict cs') = .ok (v', st')) (p : Path) :
    p ∈ st'.tainted ↔ p ∈ st.tainted := by
  have hu : uniqueKeysList cs = true := by simpa [uniqueKeys] using huk
  have hu' : uniqueKeysList cs' = true := by simpa [uniqueKeys] using huk'
  have hnode : ∀ {a b : List (Key × Node)}, b.Perm a → uniqueKeysList a = true → uniqueKeysList b = true →
      (∃ m, getNode (.comp fl .dict a) p = some m) → ∃ m, getNode (.comp fl .dict b) p = some m := by
    intro a b hp ha hb ⟨m, hm⟩
    cases p with
    | nil => exact ⟨_, rfl⟩
    | cons key rest => exact ⟨m, by rw [getNode_permRoot hp ha hb]; exact hm⟩
  rw [evaluate_tainted_iff huk' h', evaluate_tainted_iff huk h]
  constructor
  · rintro ⟨hm, hd⟩
    exact ⟨hnode hperm.symm hu' hu hm, hd.permRoot hperm.symm hu' hu⟩
  · rintro ⟨hm, hd⟩
    exact ⟨hnode hperm hu hu' hm, hd.permRoot hperm hu hu'⟩

end AY
