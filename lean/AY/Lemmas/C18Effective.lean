/-
  AY.Lemmas.C18Effective — dump ∘ parse on the merge-control vocabulary, up to explicit flags that
  merely repeat the inherited value.

  For a tree `n = build env c r` (AY/Lemmas/C18Build.lean) that satisfies `nedWith st n` (no
  explicit flag equal to its type default, the dumper's stack agrees with the inherited flags), the
  dump `r'` of `n` re-parses in the same context to a tree `n'` that is `n` with some explicit
  `delete / allow_new / safe` removed where they equal the inherited value (`simN`), and `n'` dumps
  to `r'` again.  `simN` implies equality of all effective flags (`effEq`).
-/
import AY.Lemmas.C18Build
set_option linter.unusedVariables false
set_option linter.unusedSimpArgs false
namespace AY

/-! ### the elision loop -/

/-- `nodeInfo` as a function of the flags and the class default of `delete` -/
def infoOf (st : DStack) (f : Flags) (dflt : Bool) : CtorKw :=
  { prio := keepFlag f.prio st.prio Tables.defaultPriority,
    del := keepFlag f.del st.del dflt,
    new := keepFlag f.new st.new Tables.defaultAllowNew,
    safe := keepFlag f.safe st.safe f.dSafe,
    md := f.md }

theorem nodeInfo_eq (st : DStack) (n : Node) : nodeInfo st n = infoOf st n.flags n.defaultDel := rfl

theorem keepFlag_some {α : Type} [DecidableEq α] {x s : Option α} {d v : α}
    (h : keepFlag x s d = some v) : x = some v := by
  cases x with
  | none => simp [keepFlag] at h
  | some c =>
    simp only [keepFlag] at h
    split at h
    · cases h
    · exact h

theorem keepFlag_idem {α : Type} [DecidableEq α] (x s : Option α) (d : α) :
    keepFlag (keepFlag x s d) s d = keepFlag x s d := by
  cases x with
  | none => rfl
  | some c =>
    by_cases h : (decide (s = some c) || decide (c = d)) = true
    · have : keepFlag (some c) s d = none := by simp only [keepFlag]; rw [if_pos h]
      rw [this]; rfl
    · have : keepFlag (some c) s d = some c := by simp only [keepFlag]; rw [if_neg h]
      rw [this, this]

theorem keepFlag_none_stack {α : Type} [DecidableEq α] (x : Option α) (d : α) (hx : x ≠ some d) :
    keepFlag x none d = x := by
  cases x with
  | none => rfl
  | some c =>
    have : c ≠ d := fun e => hx (by rw [e])
    simp [keepFlag, this]

/-- an explicit non-default flag is kept, or it equals the stack value and hence the inherited one -/
theorem keep_cases (x s i : Option Bool) (d : Bool) (hx : x ≠ some d) (hag : s = none ∨ s = i) :
    keepFlag x s d = x ∨ (keepFlag x s d = none ∧ x = i) := by
  cases x with
  | none => exact .inl rfl
  | some c =>
    have hc : c ≠ d := fun e => hx (by rw [e])
    by_cases hs : s = some c
    · refine .inr ⟨by simp [keepFlag, hs], ?_⟩
      rcases hag with h | h
      · rw [h] at hs; cases hs
      · rw [← h, hs]
    · exact .inl (by simp [keepFlag, hs, hc])

theorem or_redundant {α : Type} (x i rest : Option α) (h : x = i) : i.or rest = x.or (i.or rest) := by
  subst h; cases x <;> rfl

theorem or_redundant' {α : Type} (x i : Option α) (h : x = i) : i = x.or i := by
  subst h; cases x <;> rfl

/-! ### the hypothesis -/

def agree (s i : Option Bool) : Bool := s.isNone || s == i

/-- one node: no explicit flag equals its default (`priority` = default priority, `delete` = class
    default, `allow_new` = default, `safe` = True or the source-level flag), and a value on the
    dumper's stack is the value the node inherits -/
def okF (st : DStack) (f : Flags) (dflt : Bool) : Bool :=
  f.prio != some Tables.defaultPriority && f.del != some dflt && f.new != some Tables.defaultAllowNew &&
  f.safe != some true && f.safe != some f.dSafe &&
  agree st.del f.iDel && agree st.new f.iNew && agree st.safe f.iSafe

mutual
/-- `okF` at every node, the stack threaded exactly as `representWith` threads it -/
def nedWith (st : DStack) : Node → Bool
  | .leaf f _ => okF st f Tables.defaultDeleteNode
  | .comp f k cs =>
    okF st f (defaultDelete k) && nedList (pushStack st k.tagged (nodeInfo st (.comp f k cs))) cs
def nedList (st : DStack) : List (Key × Node) → Bool
  | [] => true
  | (_, c) :: rest => nedWith st c && nedList st rest
end

/-- the hypothesis of the round-trip theorem, on the parsed tree -/
def noExplicitDefault (n : Node) : Bool := nedWith {} n

theorem okF_iff (st : DStack) (f : Flags) (d : Bool) : okF st f d = true ↔
    f.prio ≠ some Tables.defaultPriority ∧ f.del ≠ some d ∧ f.new ≠ some Tables.defaultAllowNew ∧
    f.safe ≠ some true ∧ f.safe ≠ some f.dSafe ∧
    (st.del = none ∨ st.del = f.iDel) ∧ (st.new = none ∨ st.new = f.iNew) ∧ (st.safe = none ∨ st.safe = f.iSafe) := by
  simp [okF, agree, and_assoc]

/-! ### the relation between the original and the re-parsed tree -/

/-- equal, or dropped where it repeated the inherited value -/
def redundant (x x' i : Option Bool) : Bool := x' == x || (x' == none && x == i)

def simF (f f' : Flags) : Bool :=
  f'.prio == f.prio && f'.md == f.md && f'.iDel == f.iDel && f'.iNew == f.iNew && f'.iSafe == f.iSafe &&
  f'.dSafe == f.dSafe && f'.src == f.src &&
  redundant f.del f'.del f.iDel && redundant f.new f'.new f.iNew && redundant f.safe f'.safe f.iSafe

mutual
def simN : Node → Node → Bool
  | .leaf f k, .leaf f' k' => simF f f' && k == k'
  | .comp f k cs, .comp f' k' cs' => simF f f' && k == k' && simL cs cs'
  | _, _ => false
def simL : List (Key × Node) → List (Key × Node) → Bool
  | [], [] => true
  | (k, c) :: r, (k', c') :: r' => k == k' && simN c c' && simL r r'
  | _, _ => false
end

/-- same effective flags and user metadata -/
def effF (n n' : Node) : Bool :=
  ePrio n.flags == ePrio n'.flags && eDel n == eDel n' && eNew n.flags == eNew n'.flags &&
  eSafe n.flags == eSafe n'.flags && n.flags.md == n'.flags.md

mutual
/-- same kinds, keys, scalar content, user metadata and effective `priority / delete / allow_new /
    safe` at every node -/
def effEq : Node → Node → Bool
  | .leaf f k, .leaf f' k' => k == k' && effF (.leaf f k) (.leaf f' k')
  | .comp f k cs, .comp f' k' cs' => k == k' && effF (.comp f k cs) (.comp f' k' cs') && effEqL cs cs'
  | _, _ => false
def effEqL : List (Key × Node) → List (Key × Node) → Bool
  | [], [] => true
  | (k, c) :: r, (k', c') :: r' => k == k' && effEq c c' && effEqL r r'
  | _, _ => false
end

theorem redundant_iff (x x' i : Option Bool) : redundant x x' i = true ↔ x' = x ∨ (x' = none ∧ x = i) := by
  simp [redundant]

theorem simF_iff (f f' : Flags) : simF f f' = true ↔
    f'.prio = f.prio ∧ f'.md = f.md ∧ f'.iDel = f.iDel ∧ f'.iNew = f.iNew ∧ f'.iSafe = f.iSafe ∧
    f'.dSafe = f.dSafe ∧ f'.src = f.src ∧
    (f'.del = f.del ∨ (f'.del = none ∧ f.del = f.iDel)) ∧
    (f'.new = f.new ∨ (f'.new = none ∧ f.new = f.iNew)) ∧
    (f'.safe = f.safe ∨ (f'.safe = none ∧ f.safe = f.iSafe)) := by
  simp only [simF, Bool.and_eq_true, beq_iff_eq, redundant_iff, and_assoc]

theorem eDelOf_sim {f f' : Flags} {d : Bool} (h : simF f f' = true) :
    (match f.del with | some x => x | none => match f.iDel with | some x => x | none => d) =
    (match f'.del with | some x => x | none => match f'.iDel with | some x => x | none => d) := by
  obtain ⟨_, _, h3, _, _, _, _, h8, _, _⟩ := (simF_iff f f').1 h
  rw [h3]
  rcases h8 with e | ⟨e1, e2⟩
  · rw [e]
  · rw [e1, e2]; cases f.iDel <;> rfl

theorem eSafe_sim {f f' : Flags} (h : simF f f' = true) : eSafe f = eSafe f' := by
  obtain ⟨_, _, _, _, h5, h6, _, _, _, h10⟩ := (simF_iff f f').1 h
  simp only [eSafe, h5, h6]
  rcases h10 with e | ⟨e1, e2⟩
  · rw [e]
  · rw [e1, e2]; rcases f.iSafe with _ | _ | _ <;> simp

theorem effF_of_simF_leaf {f f' : Flags} {k : LeafKind} (h : simF f f' = true) :
    effF (.leaf f k) (.leaf f' k) = true := by
  have hd := eDelOf_sim (d := Tables.defaultDeleteNode) h
  have hs := eSafe_sim h
  obtain ⟨h1, h2, _, h4, _⟩ := (simF_iff f f').1 h
  simp only [effF, Node.flags, Bool.and_eq_true, beq_iff_eq]
  refine ⟨⟨⟨⟨?_, ?_⟩, ?_⟩, ?_⟩, ?_⟩
  · simp only [ePrio, h1]
  · simp only [eDel, Node.flags, Node.defaultDel]; exact hd
  · simp only [eNew, h4]
  · exact hs
  · exact h2.symm

theorem effF_of_simF_comp {f f' : Flags} {k : CompKind} {cs cs' : List (Key × Node)} (h : simF f f' = true) :
    effF (.comp f k cs) (.comp f' k cs') = true := by
  have hd := eDelOf_sim (d := defaultDelete k) h
  have hs := eSafe_sim h
  obtain ⟨h1, h2, _, h4, _⟩ := (simF_iff f f').1 h
  simp only [effF, Node.flags, Bool.and_eq_true, beq_iff_eq]
  refine ⟨⟨⟨⟨?_, ?_⟩, ?_⟩, ?_⟩, ?_⟩
  · simp only [ePrio, h1]
  · simp only [eDel, Node.flags, Node.defaultDel]; exact hd
  · simp only [eNew, h4]
  · exact hs
  · exact h2.symm

mutual
theorem effEq_of_simN : ∀ (n n' : Node), simN n n' = true → effEq n n' = true
  | .leaf f k, .leaf f' k', h => by
    simp only [simN, Bool.and_eq_true, beq_iff_eq] at h
    obtain ⟨h1, rfl⟩ := h
    simp [effEq, effF_of_simF_leaf h1]
  | .comp f k cs, .comp f' k' cs', h => by
    simp only [simN, Bool.and_eq_true, beq_iff_eq] at h
    obtain ⟨⟨h1, rfl⟩, h3⟩ := h
    simp [effEq, effF_of_simF_comp h1, effEqL_of_simL cs cs' h3]
  | .leaf _ _, .comp _ _ _, h => by simp [simN] at h
  | .comp _ _ _, .leaf _ _, h => by simp [simN] at h
theorem effEqL_of_simL : ∀ (l l' : List (Key × Node)), simL l l' = true → effEqL l l' = true
  | [], [], _ => rfl
  | (k, c) :: r, (k', c') :: r', h => by
    simp only [simL, Bool.and_eq_true, beq_iff_eq] at h
    obtain ⟨⟨rfl, h2⟩, h3⟩ := h
    simp [effEqL, effEq_of_simN c c' h2, effEqL_of_simL r r' h3]
  | [], _ :: _, h => by simp [simL] at h
  | _ :: _, [], h => by simp [simL] at h
end

/-! ### one node -/

/-- the priority on the dumper's stack is the priority imposed on the subtree -/
def StackInv (st : DStack) (c : BCtx) : Prop := ∀ q, st.prio = some q → c.o = some q

section core
variable (env : Env) (c : BCtx) (x : CtorKw) (st : DStack) (dflt : Bool)

theorem core_prio (hinv : StackInv st c) (hok : okF st (nodeFlags env c x) dflt = true) :
    c.o.or (infoOf st (nodeFlags env c x) dflt).prio = c.o.or x.prio := by
  obtain ⟨hp, _⟩ := (okF_iff _ _ _).1 hok
  cases ho : c.o with
  | some p => rfl
  | none =>
    have hst : st.prio = none := by
      cases hs : st.prio with
      | none => rfl
      | some q => have := hinv q hs; rw [ho] at this; cases this
    simp only [nodeFlags, ho, Option.none_or] at hp
    simp only [infoOf, nodeFlags, ho, Option.none_or, hst]
    exact keepFlag_none_stack _ _ hp

theorem core_child (hinv : StackInv st c) (hok : okF st (nodeFlags env c x) dflt = true) (k : CompKind) :
    childCtx c (infoOf st (nodeFlags env c x) dflt) k = childCtx c x k := by
  obtain ⟨_, hd, hn, _, hs2, ad, an, as⟩ := (okF_iff _ _ _).1 hok
  have h1 := core_prio env c x st dflt hinv hok
  simp only [nodeFlags] at hd hn hs2 ad an as
  simp only [childCtx, h1, BCtx.mk.injEq, true_and]
  refine ⟨?_, ?_, ?_⟩
  · rcases keep_cases x.del st.del c.d dflt hd ad with e | ⟨e1, e2⟩
    · simp only [infoOf, nodeFlags, e]
    · simp only [infoOf, nodeFlags, e1, Option.none_or]; exact or_redundant _ _ _ e2
  · rcases keep_cases x.new st.new c.nw Tables.defaultAllowNew hn an with e | ⟨e1, e2⟩
    · simp only [infoOf, nodeFlags, e]
    · simp only [infoOf, nodeFlags, e1, Option.none_or]; exact or_redundant' _ _ e2
  · rcases keep_cases x.safe st.safe c.s env.dSafe hs2 as with e | ⟨e1, e2⟩
    · simp only [infoOf, nodeFlags, e]
    · simp only [infoOf, nodeFlags, e1, Option.none_or]
      split
      · rfl
      · exact or_redundant' _ _ e2

theorem core_sim (hinv : StackInv st c) (hok : okF st (nodeFlags env c x) dflt = true) :
    simF (nodeFlags env c x) (nodeFlags env c (infoOf st (nodeFlags env c x) dflt)) = true := by
  obtain ⟨_, hd, hn, _, hs2, ad, an, as⟩ := (okF_iff _ _ _).1 hok
  have h1 := core_prio env c x st dflt hinv hok
  simp only [nodeFlags] at hd hn hs2 ad an as
  rw [simF_iff]
  refine ⟨h1, rfl, rfl, rfl, rfl, rfl, rfl, ?_, ?_, ?_⟩
  · rcases keep_cases x.del st.del c.d dflt hd ad with e | ⟨e1, e2⟩
    · exact .inl e
    · exact .inr ⟨e1, e2⟩
  · rcases keep_cases x.new st.new c.nw Tables.defaultAllowNew hn an with e | ⟨e1, e2⟩
    · exact .inl e
    · exact .inr ⟨e1, e2⟩
  · rcases keep_cases x.safe st.safe c.s env.dSafe hs2 as with e | ⟨e1, e2⟩
    · exact .inl e
    · exact .inr ⟨e1, e2⟩

theorem core_idem (hinv : StackInv st c) (hok : okF st (nodeFlags env c x) dflt = true) :
    infoOf st (nodeFlags env c (infoOf st (nodeFlags env c x) dflt)) dflt =
      infoOf st (nodeFlags env c x) dflt := by
  have h1 := core_prio env c x st dflt hinv hok
  have e : ∀ y : CtorKw, infoOf st (nodeFlags env c y) dflt =
      { prio := keepFlag (c.o.or y.prio) st.prio Tables.defaultPriority, del := keepFlag y.del st.del dflt,
        new := keepFlag y.new st.new Tables.defaultAllowNew, safe := keepFlag y.safe st.safe env.dSafe,
        md := y.md } := fun _ => rfl
  rw [e (infoOf st (nodeFlags env c x) dflt), h1, e x]
  simp only [keepFlag_idem]

theorem core_safe (hok : okF st (nodeFlags env c x) dflt = true) :
    (infoOf st (nodeFlags env c x) dflt).safe ≠ some true := by
  obtain ⟨_, _, _, hs1, _⟩ := (okF_iff _ _ _).1 hok
  intro h
  exact hs1 (keepFlag_some h)

theorem core_inv (hinv : StackInv st c) (k : CompKind) :
    StackInv (pushStack st false (infoOf st (nodeFlags env c x) dflt)) (childCtx c x k) := by
  intro q hq
  simp only [pushStack] at hq
  split at hq
  · simp only [childCtx, hinv q hq]; rfl
  · simp only at hq
    cases hk : (infoOf st (nodeFlags env c x) dflt).prio with
    | some p =>
      rw [hk] at hq
      have hpq : p = q := by simpa using hq
      have : c.o.or x.prio = some p :=
        keepFlag_some (show keepFlag (c.o.or x.prio) st.prio Tables.defaultPriority = some p from hk)
      simp only [childCtx, this, hpq]
    | none =>
      rw [hk] at hq
      simp only [Option.none_or] at hq
      simp only [childCtx, hinv q hq]; rfl
end core

/-! ### tags written by the dumper -/

theorem isEmpty_eq {kw : CtorKw} (h : kw.isEmpty = true) : kw = {} := by
  cases kw with
  | mk p d n s m =>
    simp only [CtorKw.isEmpty, CtorKw.flagCount, Bool.and_eq_true, beq_iff_eq, List.isEmpty_iff] at h
    obtain ⟨h1, h2⟩ := h
    subst h2
    cases p <;> cases d <;> cases n <;> cases s <;> simp at h1 ⊢

theorem ekw_plainTag (kw : CtorKw) : ekw (plainTag kw) kw = kw := by
  simp only [plainTag]
  split
  · rename_i h; rw [isEmpty_eq h]; rfl
  · rfl

theorem skw_plainTag (kw : CtorKw) {v : Scalar} (hv : v ≠ .null) : skw (plainTag kw) kw (.lit v) = kw := by
  simp only [plainTag]
  split
  · rename_i h; rw [isEmpty_eq h]; rfl
  · cases v <;> first | (exact absurd rfl hv) | rfl

theorem skw_null (kw : CtorKw) : skw .null kw .empty = kw := rfl
theorem toScalar_empty : RVal.toScalar .empty = .null := rfl
theorem toScalar_lit (v : Scalar) : RVal.toScalar (.lit v) = v := rfl

theorem tagMC_plainTag (kw : CtorKw) : tagMC (plainTag kw) = true := by
  simp only [plainTag]; split <;> rfl

theorem representLeaf_nonnull (st : DStack) (f : Flags) {v : Scalar} (hv : v ≠ .null) :
    representLeaf st f (.scalar v) =
      .ok (.scalar (plainTag (nodeInfo st (.leaf f (.scalar v)))) (nodeInfo st (.leaf f (.scalar v))) (.lit v)) := by
  cases v <;> first | (exact absurd rfl hv) | rfl

/-! ### the round trip on closed forms -/

/-- dump, re-parse in the same context, dump again -/
def RTc (env : Env) (c : BCtx) (st : DStack) (r : Raw) : Prop :=
  ∃ r', representWith st (build env c r) = .ok r' ∧ rawMC r' = true ∧
    simN (build env c r) (build env c r') = true ∧ representWith st (build env c r') = .ok r'

theorem rt_scalar (env : Env) (c : BCtx) (st : DStack) (t : TagKind) (kw : CtorKw) (v : RVal)
    (hinv : StackInv st c) (hned : nedWith st (build env c (.scalar t kw v)) = true) :
    RTc env c st (.scalar t kw v) := by
  have hok : okF st (nodeFlags env c (skw t kw v)) Tables.defaultDeleteNode = true := by
    simpa [build, nedWith] using hned
  have hsim := core_sim env c _ st _ hinv hok
  have hidem := core_idem env c _ st _ hinv hok
  have hsafe := core_safe env c _ st _ hok
  by_cases hnull : v.toScalar = .null
  · refine ⟨.scalar .null (infoOf st (nodeFlags env c (skw t kw v)) Tables.defaultDeleteNode) .empty, ?_, rfl, ?_, ?_⟩
    · simp only [build, representWith, hnull]; rfl
    · simp only [build, skw_null, toScalar_empty, simN, hnull, hsim, beq_self_eq_true, Bool.and_self]
    · simp only [build, skw_null, toScalar_empty, representWith, representLeaf, nodeInfo_eq, Node.flags,
        Node.defaultDel, hidem]
  · refine ⟨.scalar (plainTag (infoOf st (nodeFlags env c (skw t kw v)) Tables.defaultDeleteNode))
      (infoOf st (nodeFlags env c (skw t kw v)) Tables.defaultDeleteNode) (.lit v.toScalar), ?_, ?_, ?_, ?_⟩
    · simp only [build, representWith, representLeaf_nonnull st _ hnull, nodeInfo_eq, Node.flags,
        Node.defaultDel]
    · simp [rawMC, tagMC_plainTag]
    · simp only [build, skw_plainTag _ hnull, toScalar_lit, simN, hsim, beq_self_eq_true, Bool.and_self]
    · simp only [build, skw_plainTag _ hnull, toScalar_lit, representWith, representLeaf_nonnull st _ hnull,
        nodeInfo_eq, Node.flags, Node.defaultDel, hidem]

theorem representComp_list {kw : CtorKw} (items : List Raw) (_h : kw.safe ≠ some true) :
    representComp .list kw items [] = .ok (.seq (plainTag kw) kw items) := by
  simp [representComp]

theorem representComp_dict {kw : CtorKw} (items : List (Key × Raw)) (_h : kw.safe ≠ some true) :
    representComp .dict kw [] items = .ok (.map (plainTag kw) kw items) := by
  simp [representComp]

mutual
theorem rt_build (env : Env) : ∀ (r : Raw) (c : BCtx) (st : DStack), rawMC r = true → StackInv st c →
    nedWith st (build env c r) = true → RTc env c st r
  | .scalar t kw v, c, st, _, hinv, hned => rt_scalar env c st t kw v hinv hned
  | .seq t kw items, c, st, h, hinv, hned => by
    have h' : tagMC t = true ∧ rawMCList items = true := by simpa [rawMC] using h
    have hned' : okF st (nodeFlags env c (ekw t kw)) (defaultDelete .list) = true ∧
        nedList (pushStack st false (infoOf st (nodeFlags env c (ekw t kw)) (defaultDelete .list)))
          (buildList env (childCtx c (ekw t kw) .list) 0 items) = true := by
      simpa [build, nedWith, nodeInfo_eq, Node.flags, Node.defaultDel, CompKind.tagged] using hned
    obtain ⟨hok, hch⟩ := hned'
    have hsim := core_sim env c _ st _ hinv hok
    have hidem := core_idem env c _ st _ hinv hok
    have hsafe := core_safe env c _ st _ hok
    have hcc := core_child env c _ st _ hinv hok .list
    obtain ⟨items', i1, i2, i3, i4⟩ := rt_list env items (childCtx c (ekw t kw) .list) _ 0 h'.2
      (core_inv env c _ st _ hinv .list) hch
    refine ⟨.seq (plainTag (infoOf st (nodeFlags env c (ekw t kw)) (defaultDelete .list)))
      (infoOf st (nodeFlags env c (ekw t kw)) (defaultDelete .list)) items', ?_, ?_, ?_, ?_⟩
    · simp only [build, representWith, nodeInfo_eq, Node.flags, Node.defaultDel, CompKind.tagged,
        CompKind.isDictFam, Bool.false_eq_true, if_false, i1, representComp_list _ hsafe]
    · simp [rawMC, tagMC_plainTag, i2]
    · simp only [build, ekw_plainTag, hcc, simN, hsim, i3, beq_self_eq_true, Bool.and_self]
    · simp only [build, ekw_plainTag, hcc, representWith, nodeInfo_eq, Node.flags, Node.defaultDel,
        CompKind.tagged, CompKind.isDictFam, Bool.false_eq_true, if_false, hidem, i4,
        representComp_list _ hsafe]
  | .map t kw items, c, st, h, hinv, hned => by
    have h' : (tagMC t = true ∧ rawKeysNodup items = true) ∧ rawMCMap items = true := by
      simpa [rawMC] using h
    have hned' : okF st (nodeFlags env c (ekw t kw)) (defaultDelete .dict) = true ∧
        nedList (pushStack st false (infoOf st (nodeFlags env c (ekw t kw)) (defaultDelete .dict)))
          (buildMap env (childCtx c (ekw t kw) .dict) items) = true := by
      simpa [build, nedWith, nodeInfo_eq, Node.flags, Node.defaultDel, CompKind.tagged] using hned
    obtain ⟨hok, hch⟩ := hned'
    have hsim := core_sim env c _ st _ hinv hok
    have hidem := core_idem env c _ st _ hinv hok
    have hsafe := core_safe env c _ st _ hok
    have hcc := core_child env c _ st _ hinv hok .dict
    obtain ⟨items', i1, i2, i3, i4, i5, i6⟩ := rt_map env items (childCtx c (ekw t kw) .dict) _ h'.2
      (core_inv env c _ st _ hinv .dict) hch
    refine ⟨.map (plainTag (infoOf st (nodeFlags env c (ekw t kw)) (defaultDelete .dict)))
      (infoOf st (nodeFlags env c (ekw t kw)) (defaultDelete .dict)) items', ?_, ?_, ?_, ?_⟩
    · simp only [build, representWith, nodeInfo_eq, Node.flags, Node.defaultDel, CompKind.tagged,
        CompKind.isDictFam, if_true, i1, representComp_dict _ hsafe]
    · simp [rawMC, tagMC_plainTag, i2, i6, h'.1.2]
    · simp only [build, ekw_plainTag, hcc, simN, hsim, i3, beq_self_eq_true, Bool.and_self]
    · simp only [build, ekw_plainTag, hcc, representWith, nodeInfo_eq, Node.flags, Node.defaultDel,
        CompKind.tagged, CompKind.isDictFam, if_true, hidem, i4, representComp_dict _ hsafe]
theorem rt_list (env : Env) : ∀ (items : List Raw) (c : BCtx) (st : DStack) (i : Nat),
    rawMCList items = true → StackInv st c → nedList st (buildList env c i items) = true →
    ∃ items', representSeq st (buildList env c i items) = .ok items' ∧ rawMCList items' = true ∧
      simL (buildList env c i items) (buildList env c i items') = true ∧
      representSeq st (buildList env c i items') = .ok items'
  | [], _, _, _, _, _, _ => ⟨[], rfl, rfl, rfl, rfl⟩
  | r :: rest, c, st, i, h, hinv, hned => by
    have h' : rawMC r = true ∧ rawMCList rest = true := by simpa [rawMCList] using h
    have hned' : nedWith st (build env c r) = true ∧ nedList st (buildList env c (i + 1) rest) = true := by
      simpa [buildList, nedList] using hned
    obtain ⟨r', a1, a2, a3, a4⟩ := rt_build env r c st h'.1 hinv hned'.1
    obtain ⟨rest', b1, b2, b3, b4⟩ := rt_list env rest c st (i + 1) h'.2 hinv hned'.2
    refine ⟨r' :: rest', ?_, ?_, ?_, ?_⟩
    · simp only [buildList, representSeq, a1, b1]
    · simp [rawMCList, a2, b2]
    · simp only [buildList, simL, a3, b3, beq_self_eq_true, Bool.and_self]
    · simp only [buildList, representSeq, a4, b4]
theorem rt_map (env : Env) : ∀ (items : List (Key × Raw)) (c : BCtx) (st : DStack),
    rawMCMap items = true → StackInv st c → nedList st (buildMap env c items) = true →
    ∃ items', representMap st (buildMap env c items) = .ok items' ∧ rawMCMap items' = true ∧
      simL (buildMap env c items) (buildMap env c items') = true ∧
      representMap st (buildMap env c items') = .ok items' ∧
      (∀ k, keyFreshR k items' = keyFreshR k items) ∧ rawKeysNodup items' = rawKeysNodup items
  | [], _, _, _, _, _ => ⟨[], rfl, rfl, rfl, rfl, fun _ => rfl, rfl⟩
  | (k, r) :: rest, c, st, h, hinv, hned => by
    have h' : rawMC r = true ∧ rawMCMap rest = true := by simpa [rawMCMap] using h
    have hned' : nedWith st (build env c r) = true ∧ nedList st (buildMap env c rest) = true := by
      simpa [buildMap, nedList] using hned
    obtain ⟨r', a1, a2, a3, a4⟩ := rt_build env r c st h'.1 hinv hned'.1
    obtain ⟨rest', b1, b2, b3, b4, b5, b6⟩ := rt_map env rest c st h'.2 hinv hned'.2
    refine ⟨(k, r') :: rest', ?_, ?_, ?_, ?_, ?_, ?_⟩
    · simp only [buildMap, representMap, a1, b1]
    · simp [rawMCMap, a2, b2]
    · simp only [buildMap, simL, a3, b3, beq_self_eq_true, Bool.and_self]
    · simp only [buildMap, representMap, a4, b4]
    · intro k0; simp only [keyFreshR, b5 k0]
    · simp only [rawKeysNodup, b5 k, b6]
end

/-! ### without explicit `delete / allow_new / safe` nothing is dropped -/

mutual
/-- no node carries an explicit `delete`, `allow_new` or `safe` (priority and metadata only) -/
def noDNS : Node → Bool
  | .leaf f _ => f.del.isNone && f.new.isNone && f.safe.isNone
  | .comp f _ cs => f.del.isNone && f.new.isNone && f.safe.isNone && noDNSList cs
def noDNSList : List (Key × Node) → Bool
  | [] => true
  | (_, c) :: rest => noDNS c && noDNSList rest
end

theorem simF_eq {f f' : Flags} (h : simF f f' = true) (h1 : f.del = none) (h2 : f.new = none)
    (h3 : f.safe = none) : f' = f := by
  obtain ⟨a1, a2, a3, a4, a5, a6, a7, a8, a9, a10⟩ := (simF_iff f f').1 h
  have b8 : f'.del = f.del := by rcases a8 with e | ⟨e, _⟩ <;> simp [e, h1]
  have b9 : f'.new = f.new := by rcases a9 with e | ⟨e, _⟩ <;> simp [e, h2]
  have b10 : f'.safe = f.safe := by rcases a10 with e | ⟨e, _⟩ <;> simp [e, h3]
  cases f; cases f'
  simp_all

mutual
theorem simN_eq : ∀ (n n' : Node), simN n n' = true → noDNS n = true → n' = n
  | .leaf f k, .leaf f' k', h, hd => by
    simp only [simN, Bool.and_eq_true, beq_iff_eq] at h
    simp only [noDNS, Bool.and_eq_true, Option.isNone_iff_eq_none] at hd
    obtain ⟨h1, rfl⟩ := h
    rw [simF_eq h1 hd.1.1 hd.1.2 hd.2]
  | .comp f k cs, .comp f' k' cs', h, hd => by
    simp only [simN, Bool.and_eq_true, beq_iff_eq] at h
    simp only [noDNS, Bool.and_eq_true, Option.isNone_iff_eq_none] at hd
    obtain ⟨⟨h1, rfl⟩, h3⟩ := h
    rw [simF_eq h1 hd.1.1.1 hd.1.1.2 hd.1.2, simL_eq cs cs' h3 hd.2]
  | .leaf _ _, .comp _ _ _, h, _ => by simp [simN] at h
  | .comp _ _ _, .leaf _ _, h, _ => by simp [simN] at h
theorem simL_eq : ∀ (l l' : List (Key × Node)), simL l l' = true → noDNSList l = true → l' = l
  | [], [], _, _ => rfl
  | (k, c) :: r, (k', c') :: r', h, hd => by
    simp only [simL, Bool.and_eq_true, beq_iff_eq] at h
    simp only [noDNSList, Bool.and_eq_true] at hd
    obtain ⟨⟨rfl, h2⟩, h3⟩ := h
    rw [simN_eq c c' h2 hd.1, simL_eq r r' h3 hd.2]
  | [], _ :: _, h, _ => by simp [simL] at h
  | _ :: _, [], h, _ => by simp [simL] at h
end

end AY
