/-
  AY.Lemmas.C18Effective — dump ∘ parse on the merge-control vocabulary (any keyword combination
  `priority / delete / allow_new / safe` + metadata on scalars, mappings and lists, any nesting).

  For a tree `n = build env c r` (AY/Lemmas/C18Build.lean) dumped with the stack `st`, where the
  stack and the inherited flags are in the relation `Inv st c` that the dumper itself maintains, the
  dump `r' = representWith st n` re-parses — in the context `rc c st` that the re-parse creates — to a
  tree `n'` related to `n` by `simN`: same kinds, keys, scalars, metadata, inherited delete / safe,
  and explicit flags equal or dropped where they repeat what the node gets anyway; and `n'` dumps to
  `r'` again.  `simN` implies equality of all effective flags (`effEq`).

  No side condition is left: the dumper's stack records, for `delete`, exactly what every container
  hands down (`Inv.del : st.del = c.d`).
-/
import AY.Lemmas.C18Build
set_option linter.unusedVariables false
set_option linter.unusedSimpArgs false
namespace AY

/-! ### the elision loop -/

/-- `nodeInfo` as a function of the flags and the class -/
def infoOf (st : DStack) (f : Flags) (isComp : Bool) (dflt : Bool) : CtorKw :=
  { prio := keepFlag f.prio st.prio (some Tables.defaultPriority),
    del := keepDel false isComp f.del st.del dflt,
    new := keepFlag f.new st.new (some Tables.defaultAllowNew),
    safe := keepFlag f.safe st.safe none,
    md := f.md }

theorem nodeInfo_leaf (st : DStack) (f : Flags) (k : LeafKind) :
    nodeInfo st (.leaf f k) = infoOf st f false Tables.defaultDeleteNode := rfl
theorem nodeInfo_list (st : DStack) (f : Flags) (cs : List (Key × Node)) :
    nodeInfo st (.comp f .list cs) = infoOf st f true (defaultDelete .list) := rfl
theorem nodeInfo_dict (st : DStack) (f : Flags) (cs : List (Key × Node)) :
    nodeInfo st (.comp f .dict cs) = infoOf st f true (defaultDelete .dict) := rfl

theorem keepFlag_some {α : Type} [DecidableEq α] {x s d : Option α} {v : α}
    (h : keepFlag x s d = some v) : x = some v := by
  cases x with
  | none => simp [keepFlag] at h
  | some c =>
    simp only [keepFlag] at h
    split at h
    · cases h
    · exact h

/-- kept, or dropped because it repeats the stack value / the default -/
theorem keepFlag_cases {α : Type} [DecidableEq α] (x s d : Option α) :
    keepFlag x s d = x ∨ (keepFlag x s d = none ∧ x = s.or d) := by
  cases x with
  | none => exact .inl rfl
  | some c =>
    by_cases h : some c = s.or d
    · exact .inr ⟨by simp [keepFlag, h], h⟩
    · exact .inl (by simp [keepFlag, h])

theorem keepFlag_idem {α : Type} [DecidableEq α] (x s d : Option α) :
    keepFlag (keepFlag x s d) s d = keepFlag x s d := by
  cases x with
  | none => rfl
  | some c =>
    by_cases h : some c = s.or d
    · have : keepFlag (some c) s d = none := by simp [keepFlag, h]
      rw [this]; rfl
    · have : keepFlag (some c) s d = some c := by simp [keepFlag, h]
      rw [this, this]

/-- a value equal to the stack value is dropped -/
theorem keepFlag_stack {α : Type} [DecidableEq α] (q : α) (d : Option α) : keepFlag (some q) (some q) d = none := by
  simp [keepFlag]

theorem keepDel_some {ic : Bool} {x s : Option Bool} {d v : Bool} (h : keepDel false ic x s d = some v) :
    x = some v := by
  rcases x with _ | _ | _ <;> rcases s with _ | _ | _ <;> cases ic <;> cases d <;> cases v <;>
    simp [keepDel] at h ⊢

/-- kept, or an explicit `False` dropped because an enclosing node states `False`, or (scalars only,
    nothing stated above) because it is the type default -/
theorem keepDel_cases (ic : Bool) (x s : Option Bool) (d : Bool) :
    keepDel false ic x s d = x ∨
      (keepDel false ic x s d = none ∧ x = some false ∧ (s = some false ∨ (s = none ∧ ic = false ∧ d = false))) := by
  rcases x with _ | _ | _ <;> rcases s with _ | _ | _ <;> cases ic <;> cases d <;> simp [keepDel]

theorem keepDel_idem (ic : Bool) (x s : Option Bool) (d : Bool) :
    keepDel false ic (keepDel false ic x s d) s d = keepDel false ic x s d := by
  rcases x with _ | _ | _ <;> rcases s with _ | _ | _ <;> cases ic <;> cases d <;> simp [keepDel]

/-! ### the context of the re-parse, and what the dumper's stack knows about the inherited flags -/

/-- the context in which the re-parsed node is built: the stack is exactly what the enclosing
    re-parsed nodes state about priority and allow_new; inherited delete / safe are unchanged -/
def rc (c : BCtx) (st : DStack) : BCtx := { o := st.prio, d := c.d, nw := st.new, s := c.s }

structure Inv (st : DStack) (c : BCtx) : Prop where
  prio1 : ∀ q, st.prio = some q → c.o = some q
  prio0 : st.prio = none → c.o = none ∨ c.o = some Tables.defaultPriority
  del : st.del = c.d
  new1 : ∀ b, st.new = some b → c.nw = some b
  new0 : st.new = none → c.nw = none ∨ c.nw = some Tables.defaultAllowNew
  safe1 : ∀ b, st.safe = some b → c.s = some false ∨ c.s = some b

theorem inv_top : Inv {} ctx0 :=
  ⟨fun _ h => (by cases h), fun _ => Or.inl rfl, rfl, fun _ h => (by cases h), fun _ => Or.inl rfl,
   fun _ h => (by cases h)⟩

theorem rc_top : rc ctx0 {} = ctx0 := rfl

theorem rc_rc (c : BCtx) (st : DStack) : rc (rc c st) st = rc c st := rfl

theorem inv_rc {st : DStack} {c : BCtx} (h : Inv st c) : Inv st (rc c st) :=
  ⟨fun _ e => e, fun e => Or.inl e, h.del, fun _ e => e, fun e => Or.inl e, h.safe1⟩

/-! ### the relation between the original and the re-parsed tree -/

/-- equal, or the default dropped -/
def relDflt {α : Type} [DecidableEq α] (d : α) (x x' : Option α) : Bool := x' == x || (x' == none && x == some d)

/-- `f` the original flags, `f'` the re-parsed ones, `ic`: composed node, `dd`: class default of `delete` -/
def simF (ic dd : Bool) (f f' : Flags) : Bool :=
  relDflt Tables.defaultPriority f.prio f'.prio && f'.md == f.md && f'.iDel == f.iDel &&
  relDflt Tables.defaultAllowNew f.iNew f'.iNew && f'.iSafe == f.iSafe && f'.dSafe == f.dSafe && f'.src == f.src &&
  (f'.del == f.del || (f'.del == none && f.del == some false &&
    (f.iDel == some false || (!ic && f.iDel == none && dd == false)))) &&
  (f'.new == f.new || (f'.new == none && f.new == some (f.iNew.getD Tables.defaultAllowNew))) &&
  (f'.safe == f.safe || (f'.safe == none && (f.iSafe == some false || f.safe == f.iSafe)))

mutual
def simN : Node → Node → Bool
  | .leaf f k, .leaf f' k' => simF false Tables.defaultDeleteNode f f' && k == k'
  | .comp f k cs, .comp f' k' cs' => simF true (defaultDelete k) f f' && k == k' && simL cs cs'
  | _, _ => false
def simL : List (Key × Node) → List (Key × Node) → Bool
  | [], [] => true
  | (k, c) :: r, (k', c') :: r' => k == k' && simN c c' && simL r r'
  | _, _ => false
end

/-- same effective flags, user metadata, and the explicit `delete = True` -/
def effF (n n' : Node) : Bool :=
  ePrio n.flags == ePrio n'.flags && eDel n == eDel n' && eNew n.flags == eNew n'.flags &&
  eSafe n.flags == eSafe n'.flags && n.flags.md == n'.flags.md &&
  ((n.flags.del == some true) == (n'.flags.del == some true))

/-- what a container hands to (present and future) children: inherited delete and safe equal, the
    inherited allow_new equal up to an explicit default -/
def handsDownEq (kw kw' : Option ChildKw) : Bool :=
  match kw, kw' with
  | some a, some b => a.iDel == b.iDel && a.iSafe == b.iSafe &&
      a.iNew.getD Tables.defaultAllowNew == b.iNew.getD Tables.defaultAllowNew
  | none, none => true
  | _, _ => false

mutual
/-- same kinds, keys, scalar content, user metadata, effective `priority / delete / allow_new / safe`,
    explicit `delete = True`, and hand-down of every container, at every node -/
def effEq : Node → Node → Bool
  | .leaf f k, .leaf f' k' => k == k' && effF (.leaf f k) (.leaf f' k')
  | .comp f k cs, .comp f' k' cs' =>
    k == k' && effF (.comp f k cs) (.comp f' k' cs') && handsDownEq (childKw f k) (childKw f' k') && effEqL cs cs'
  | _, _ => false
def effEqL : List (Key × Node) → List (Key × Node) → Bool
  | [], [] => true
  | (k, c) :: r, (k', c') :: r' => k == k' && effEq c c' && effEqL r r'
  | _, _ => false
end

theorem relDflt_iff {α : Type} [DecidableEq α] (d : α) (x x' : Option α) :
    relDflt d x x' = true ↔ x' = x ∨ (x' = none ∧ x = some d) := by
  simp [relDflt]

theorem simF_iff (ic dd : Bool) (f f' : Flags) : simF ic dd f f' = true ↔
    (f'.prio = f.prio ∨ (f'.prio = none ∧ f.prio = some Tables.defaultPriority)) ∧ f'.md = f.md ∧ f'.iDel = f.iDel ∧
    (f'.iNew = f.iNew ∨ (f'.iNew = none ∧ f.iNew = some Tables.defaultAllowNew)) ∧ f'.iSafe = f.iSafe ∧
    f'.dSafe = f.dSafe ∧ f'.src = f.src ∧
    (f'.del = f.del ∨ (f'.del = none ∧ f.del = some false ∧
      (f.iDel = some false ∨ (ic = false ∧ f.iDel = none ∧ dd = false)))) ∧
    (f'.new = f.new ∨ (f'.new = none ∧ f.new = some (f.iNew.getD Tables.defaultAllowNew))) ∧
    (f'.safe = f.safe ∨ (f'.safe = none ∧ (f.iSafe = some false ∨ f.safe = f.iSafe))) := by
  simp only [simF, Bool.and_eq_true, Bool.or_eq_true, beq_iff_eq, relDflt_iff, and_assoc, Bool.not_eq_true']

section eff
variable {ic dd : Bool} {f f' : Flags}

theorem ePrio_sim (h : simF ic dd f f' = true) : ePrio f = ePrio f' := by
  obtain ⟨h1, _⟩ := (simF_iff ic dd f f').1 h
  simp only [ePrio]
  rcases h1 with e | ⟨e1, e2⟩
  · rw [e]
  · rw [e1, e2]; rfl

theorem eNew_sim (h : simF ic dd f f' = true) : eNew f = eNew f' := by
  obtain ⟨_, _, _, h4, _⟩ := (simF_iff ic dd f f').1 h
  simp only [eNew]
  rcases h4 with e | ⟨e1, e2⟩
  · rw [e]
  · rw [e1, e2]; rfl

theorem eDelOf_sim (h : simF ic dd f f' = true) :
    (match f.del with | some x => x | none => match f.iDel with | some x => x | none => dd) =
    (match f'.del with | some x => x | none => match f'.iDel with | some x => x | none => dd) := by
  obtain ⟨_, _, h3, _, _, _, _, h8, _, _⟩ := (simF_iff ic dd f f').1 h
  rw [h3]
  rcases h8 with e | ⟨e1, e2, e3 | ⟨_, e3, e4⟩⟩
  · rw [e]
  · rw [e1, e2, e3]
  · rw [e1, e2, e3, e4]

theorem eSafe_sim (h : simF ic dd f f' = true) : eSafe f = eSafe f' := by
  obtain ⟨_, _, _, _, h5, h6, _, _, _, h10⟩ := (simF_iff ic dd f f').1 h
  simp only [eSafe, h5, h6]
  rcases h10 with e | ⟨e1, e2 | e2⟩
  · rw [e]
  · rw [e1, e2]; simp
  · rw [e1, e2]; rcases f.iSafe with _ | _ | _ <;> simp

theorem delTrue_sim (h : simF ic dd f f' = true) : (f.del == some true) = (f'.del == some true) := by
  obtain ⟨_, _, _, _, _, _, _, h8, _, _⟩ := (simF_iff ic dd f f').1 h
  rcases h8 with e | ⟨e1, e2, _⟩
  · rw [e]
  · rw [e1, e2]; rfl

theorem handsDown_sim (k : CompKind) (h : simF true dd f f' = true) :
    handsDownEq (childKw f k) (childKw f' k) = true := by
  obtain ⟨_, _, h3, h4, h5, _, _, h8, h9, h10⟩ := (simF_iff true dd f f').1 h
  have hdel : f.del.or (f.iDel.or (if defaultDelete k then some true else none)) =
      f'.del.or (f'.iDel.or (if defaultDelete k then some true else none)) := by
    rw [h3]
    rcases h8 with e | ⟨e1, e2, e3 | ⟨e3, _⟩⟩
    · rw [e]
    · rw [e1, e2, e3]; rfl
    · cases e3
  have hsafe : (if f.iSafe = some false then some false else f.safe.or f.iSafe) =
      (if f'.iSafe = some false then some false else f'.safe.or f'.iSafe) := by
    rw [h5]
    rcases h10 with e | ⟨e1, e2 | e2⟩
    · rw [e]
    · rw [e1, e2]; simp
    · rw [e1, e2]; rcases f.iSafe with _ | _ | _ <;> simp
  have hnew : (f.new.or f.iNew).getD Tables.defaultAllowNew = (f'.new.or f'.iNew).getD Tables.defaultAllowNew := by
    rcases h9 with e | ⟨e1, e2⟩
    · rw [e]
      rcases h4 with e' | ⟨e1', e2'⟩
      · rw [e']
      · rw [e1', e2']; cases f.new <;> simp
    · rw [e1, e2]
      rcases h4 with e' | ⟨e1', e2'⟩
      · rw [e']; cases f.iNew <;> simp
      · rw [e1', e2']; simp
  cases k <;> simp only [childKw, handsDownEq, Bool.and_eq_true, beq_iff_eq] <;> first
    | rfl
    | exact ⟨⟨hdel, hsafe⟩, hnew⟩

end eff

theorem effF_of_simF_leaf {f f' : Flags} {k : LeafKind} (h : simF false Tables.defaultDeleteNode f f' = true) :
    effF (.leaf f k) (.leaf f' k) = true := by
  have hd := eDelOf_sim h
  obtain ⟨_, h2, _⟩ := (simF_iff _ _ f f').1 h
  simp only [effF, Node.flags, Bool.and_eq_true, beq_iff_eq]
  refine ⟨⟨⟨⟨⟨ePrio_sim h, ?_⟩, eNew_sim h⟩, eSafe_sim h⟩, h2.symm⟩, delTrue_sim h⟩
  simp only [eDel, Node.flags, Node.defaultDel]; exact hd

theorem effF_of_simF_comp {f f' : Flags} {k : CompKind} {cs cs' : List (Key × Node)}
    (h : simF true (defaultDelete k) f f' = true) : effF (.comp f k cs) (.comp f' k cs') = true := by
  have hd := eDelOf_sim h
  obtain ⟨_, h2, _⟩ := (simF_iff _ _ f f').1 h
  simp only [effF, Node.flags, Bool.and_eq_true, beq_iff_eq]
  refine ⟨⟨⟨⟨⟨ePrio_sim h, ?_⟩, eNew_sim h⟩, eSafe_sim h⟩, h2.symm⟩, delTrue_sim h⟩
  simp only [eDel, Node.flags, Node.defaultDel]; exact hd

mutual
theorem effEq_of_simN : ∀ (n n' : Node), simN n n' = true → effEq n n' = true
  | .leaf f k, .leaf f' k', h => by
    simp only [simN, Bool.and_eq_true, beq_iff_eq] at h
    obtain ⟨h1, rfl⟩ := h
    simp [effEq, effF_of_simF_leaf h1]
  | .comp f k cs, .comp f' k' cs', h => by
    simp only [simN, Bool.and_eq_true, beq_iff_eq] at h
    obtain ⟨⟨h1, rfl⟩, h3⟩ := h
    simp [effEq, effF_of_simF_comp h1, handsDown_sim k h1, effEqL_of_simL cs cs' h3]
  | .leaf _ _, .comp _ _ _, h => by simp [simN] at h
  | .comp _ _ _, .leaf _ _, h => by simp [simN] at h
theorem effEqL_of_simL : ∀ (l l' : List (Key × Node)), simL l l' = true → effEqL l l' = true
  | [], [], _ => rfl
  | (k, c) :: r, (k', c') :: r', h => by
    simp only [simL, Bool.and_eq_true, beq_iff_eq] at h
    obtain ⟨⟨rfl, h2⟩, h3⟩ := h
    simp [effEqL, effEq_of_simN c c' h2, effEqL_of_simL r r' h3]
  | [], _ :: _, h => by simp [simL] at h
  | _ :: _, [], h => by simp [simL] at h
end

/-! ### one node -/

section core
variable (env : Env) (c : BCtx) (x : CtorKw) (st : DStack) (ic dflt : Bool)

/-- the keywords the dumper writes for a node with effective keywords `x` in context `c` -/
abbrev infoX : CtorKw := infoOf st (nodeFlags env c x) ic dflt

theorem infoX_prio : (infoX env c x st ic dflt).prio = keepFlag (c.o.or x.prio) st.prio (some Tables.defaultPriority) := rfl
theorem infoX_del : (infoX env c x st ic dflt).del = keepDel false ic x.del st.del dflt := rfl
theorem infoX_new : (infoX env c x st ic dflt).new = keepFlag x.new st.new (some Tables.defaultAllowNew) := rfl
theorem infoX_safe : (infoX env c x st ic dflt).safe = keepFlag x.safe st.safe none := rfl
theorem infoX_md : (infoX env c x st ic dflt).md = x.md := rfl

/-- under a stated priority the node's priority is that priority and is not written -/
theorem prio_under (hinv : Inv st c) {q : Int} (hq : st.prio = some q) :
    c.o.or x.prio = some q ∧ (infoX env c x st ic dflt).prio = none := by
  have ho := hinv.prio1 q hq
  refine ⟨by rw [ho]; rfl, ?_⟩
  rw [infoX_prio, ho, hq]
  exact keepFlag_stack q _

/-- the priority of the re-parsed node -/
theorem core_prio (hinv : Inv st c) :
    st.prio.or (infoX env c x st ic dflt).prio = c.o.or x.prio ∨
      (st.prio.or (infoX env c x st ic dflt).prio = none ∧ c.o.or x.prio = some Tables.defaultPriority) := by
  cases hs : st.prio with
  | some q =>
    obtain ⟨h1, h2⟩ := prio_under env c x st ic dflt hinv hs
    left
    rw [h1]; rfl
  | none =>
    have hi : (infoX env c x st ic dflt).prio = keepFlag (c.o.or x.prio) none (some Tables.defaultPriority) := by
      rw [infoX_prio, hs]
    rw [hi]
    rcases keepFlag_cases (c.o.or x.prio) none (some Tables.defaultPriority) with e | ⟨e1, e2⟩
    · exact .inl e
    · exact .inr ⟨e1, e2⟩

theorem core_sim (hinv : Inv st c) :
    simF ic dflt (nodeFlags env c x) (nodeFlags env (rc c st) (infoX env c x st ic dflt)) = true := by
  rw [simF_iff]
  refine ⟨core_prio env c x st ic dflt hinv, rfl, rfl, ?_, rfl, rfl, rfl, ?_, ?_, ?_⟩
  · -- inherited allow_new
    show st.new = c.nw ∨ (st.new = none ∧ c.nw = some Tables.defaultAllowNew)
    cases hs : st.new with
    | some b => exact .inl (hinv.new1 b hs).symm
    | none =>
      rcases hinv.new0 hs with e | e
      · exact .inl e.symm
      · exact .inr ⟨rfl, e⟩
  · -- delete
    show keepDel false ic x.del st.del dflt = x.del ∨ _
    rcases keepDel_cases ic x.del st.del dflt with e | ⟨e1, e2, e3 | ⟨e3, e4, e5⟩⟩
    · exact .inl e
    · exact .inr ⟨e1, e2, .inl (by show c.d = some false; rw [← hinv.del]; exact e3)⟩
    · refine .inr ⟨e1, e2, .inr ⟨e4, ?_, e5⟩⟩
      show c.d = none
      rw [← hinv.del]; exact e3
  · -- allow_new
    show keepFlag x.new st.new (some Tables.defaultAllowNew) = x.new ∨ _
    rcases keepFlag_cases x.new st.new (some Tables.defaultAllowNew) with e | ⟨e1, e2⟩
    · exact .inl e
    · refine .inr ⟨e1, ?_⟩
      show x.new = some (c.nw.getD Tables.defaultAllowNew)
      rw [e2]
      cases hs : st.new with
      | some b => rw [hinv.new1 b hs]; rfl
      | none => rcases hinv.new0 hs with e | e <;> rw [e] <;> rfl
  · -- safe
    show keepFlag x.safe st.safe none = x.safe ∨ _
    rcases keepFlag_cases x.safe st.safe none with e | ⟨e1, e2⟩
    · exact .inl e
    · cases hs : st.safe with
      | none =>
        rw [hs] at e2
        left; rw [show x.safe = none from e2]; rfl
      | some b =>
        rw [hs] at e2
        refine .inr ⟨e1, ?_⟩
        show c.s = some false ∨ x.safe = c.s
        rcases hinv.safe1 b hs with h | h
        · exact .inl h
        · exact .inr (by rw [show x.safe = some b from e2, h])

/-- the re-parse context of the children is the child context of the re-parsed node -/
theorem core_child (hinv : Inv st c) (k : CompKind) :
    rc (childCtx c x k) (pushStack st (infoX env c x st true dflt) (childCtx c x k).d) =
      childCtx (rc c st) (infoX env c x st true dflt) k := by
  simp only [rc, childCtx, pushStack, BCtx.mk.injEq]
  refine ⟨?_, ?_, trivial, ?_⟩
  · cases hs : st.prio with
    | some q => rw [(prio_under env c x st true dflt hinv hs).2]; rfl
    | none => cases (infoX env c x st true dflt).prio <;> rfl
  · rw [infoX_del]
    rcases keepDel_cases true x.del st.del dflt with e | ⟨e1, e2, e3 | ⟨_, e4, _⟩⟩
    · rw [e]
    · rw [e1, e2, ← hinv.del, e3]; rfl
    · cases e4
  · by_cases hcs : c.s = some false
    · simp only [hcs, if_true]
    · simp only [hcs, if_false]
      rw [infoX_safe]
      rcases keepFlag_cases x.safe st.safe none with e | ⟨e1, e2⟩
      · rw [e]
      · rw [e1]
        cases hs : st.safe with
        | none => rw [hs] at e2; rw [show x.safe = none from e2]
        | some b =>
          rw [hs] at e2
          rcases hinv.safe1 b hs with h | h
          · exact absurd h hcs
          · rw [show x.safe = some b from e2, h]; rfl

theorem core_inv (hinv : Inv st c) (k : CompKind) :
    Inv (pushStack st (infoX env c x st true dflt) (childCtx c x k).d) (childCtx c x k) := by
  refine ⟨?_, ?_, ?_, ?_, ?_, ?_⟩
  · intro q hq
    show c.o.or x.prio = some q
    cases hs : st.prio with
    | some p =>
      obtain ⟨h1, h2⟩ := prio_under env c x st true dflt hinv hs
      simp only [pushStack, h2, hs, Option.none_or] at hq
      rw [h1, hq]
    | none =>
      simp only [pushStack, hs, Option.or_none] at hq
      exact keepFlag_some (infoX_prio env c x st true dflt ▸ hq)
  · intro hq
    show c.o.or x.prio = none ∨ c.o.or x.prio = some Tables.defaultPriority
    have h1 : (infoX env c x st true dflt).prio = none ∧ st.prio = none := by
      simp only [pushStack] at hq
      cases hi : (infoX env c x st true dflt).prio <;> simp_all
    have hst := h1.2
    rw [infoX_prio, hst] at h1
    rcases keepFlag_cases (c.o.or x.prio) none (some Tables.defaultPriority) with e | ⟨_, e2⟩
    · rw [h1.1] at e; exact .inl e.symm
    · exact .inr e2
  · show (childCtx c x k).d.or ((infoX env c x st true dflt).del.or st.del) = (childCtx c x k).d
    cases hh : (childCtx c x k).d with
    | some b => rfl
    | none =>
      have hx : x.del = none ∧ c.d = none := by
        simp only [childCtx] at hh
        cases hx : x.del <;> cases hc : c.d <;> simp_all
      rw [infoX_del, hx.1, hinv.del, hx.2]
      rfl
  · intro b hb
    show x.new.or c.nw = some b
    simp only [pushStack] at hb
    rw [infoX_new] at hb
    rcases keepFlag_cases x.new st.new (some Tables.defaultAllowNew) with e | ⟨e1, e2⟩
    · rw [e] at hb
      cases hx : x.new with
      | some v => rw [hx] at hb; simpa using hb
      | none => rw [hx] at hb; simp only [Option.none_or] at hb ⊢; exact hinv.new1 b hb
    · rw [e1] at hb; simp only [Option.none_or] at hb
      rw [e2, hb]; rfl
  · intro hb
    show x.new.or c.nw = none ∨ x.new.or c.nw = some Tables.defaultAllowNew
    have h1 : (infoX env c x st true dflt).new = none ∧ st.new = none := by
      simp only [pushStack] at hb
      cases hi : (infoX env c x st true dflt).new <;> simp_all
    have hst := h1.2
    rw [infoX_new, hst] at h1
    rcases keepFlag_cases x.new none (some Tables.defaultAllowNew) with e | ⟨_, e2⟩
    · rw [h1.1] at e; rw [← e]; simpa using hinv.new0 hst
    · right; rw [e2]; rfl
  · intro b hb
    show (if c.s = some false then some false else x.safe.or c.s) = some false ∨
      (if c.s = some false then some false else x.safe.or c.s) = some b
    split
    · exact .inl rfl
    · rename_i hne
      right
      simp only [pushStack] at hb
      rw [infoX_safe] at hb
      rcases keepFlag_cases x.safe st.safe none with e | ⟨e1, e2⟩
      · rw [e] at hb
        cases hx : x.safe with
        | some v => rw [hx] at hb; simpa using hb
        | none =>
          rw [hx] at hb; simp only [Option.none_or] at hb ⊢
          rcases hinv.safe1 b hb with h | h
          · exact absurd h hne
          · exact h
      · rw [e1] at hb; simp only [Option.none_or] at hb
        rw [hb] at e2
        rw [e2]; rfl

/-- dumping the re-parsed node writes the same keywords -/
theorem core_idem (hinv : Inv st c) :
    infoOf st (nodeFlags env (rc c st) (infoX env c x st ic dflt)) ic dflt = infoX env c x st ic dflt := by
  have hp : keepFlag (st.prio.or (infoX env c x st ic dflt).prio) st.prio (some Tables.defaultPriority) =
      (infoX env c x st ic dflt).prio := by
    cases hs : st.prio with
    | some q =>
      rw [(prio_under env c x st ic dflt hinv hs).2]
      exact keepFlag_stack q _
    | none =>
      simp only [Option.none_or]
      rw [infoX_prio, hs]; exact keepFlag_idem _ _ _
  show ({ prio := keepFlag (st.prio.or (infoX env c x st ic dflt).prio) st.prio (some Tables.defaultPriority),
          del := keepDel false ic (infoX env c x st ic dflt).del st.del dflt,
          new := keepFlag (infoX env c x st ic dflt).new st.new (some Tables.defaultAllowNew),
          safe := keepFlag (infoX env c x st ic dflt).safe st.safe none,
          md := (infoX env c x st ic dflt).md } : CtorKw) = infoX env c x st ic dflt
  rw [hp, infoX_del, keepDel_idem, infoX_new, keepFlag_idem, infoX_safe, keepFlag_idem]
  rfl

end core

/-! ### tags written by the dumper -/

theorem isEmpty_eq {kw : CtorKw} (h : kw.isEmpty = true) : kw = {} := by
  cases kw with
  | mk p d n s m =>
    simp only [CtorKw.isEmpty, CtorKw.flagCount, Bool.and_eq_true, beq_iff_eq, List.isEmpty_iff] at h
    obtain ⟨h1, h2⟩ := h
    subst h2
    cases p <;> cases d <;> cases n <;> cases s <;> simp at h1 ⊢

theorem ekw_plainTag (kw : CtorKw) : ekw (plainTag kw) kw = kw := by
  simp only [plainTag]
  split
  · rename_i h; rw [isEmpty_eq h]; rfl
  · rfl

theorem skw_plainTag (kw : CtorKw) {v : Scalar} (hv : v ≠ .null) : skw (plainTag kw) kw (.lit v) = kw := by
  simp only [plainTag]
  split
  · rename_i h; rw [isEmpty_eq h]; rfl
  · cases v <;> first | (exact absurd rfl hv) | rfl

theorem skw_null (kw : CtorKw) : skw .null kw .empty = kw := rfl
theorem toScalar_empty : RVal.toScalar .empty = .null := rfl
theorem toScalar_lit (v : Scalar) : RVal.toScalar (.lit v) = v := rfl

theorem tagMC_plainTag (kw : CtorKw) : tagMC (plainTag kw) = true := by
  simp only [plainTag]; split <;> rfl

theorem representLeaf_nonnull (st : DStack) (f : Flags) {v : Scalar} (hv : v ≠ .null) :
    representLeaf st f (.scalar v) =
      .scalar (plainTag (nodeInfo st (.leaf f (.scalar v)))) (nodeInfo st (.leaf f (.scalar v))) (.lit v) := by
  cases v <;> first | (exact absurd rfl hv) | rfl

/-! ### the round trip on closed forms -/

/-- dump; the dump is in the vocabulary; re-parsed in the re-parse context it gives a related tree;
    which dumps to the same dump -/
def RTc (env : Env) (c : BCtx) (st : DStack) (r : Raw) : Prop :=
  rawMC (representWith st (build env c r)) = true ∧
  simN (build env c r) (build env (rc c st) (representWith st (build env c r))) = true ∧
  representWith st (build env (rc c st) (representWith st (build env c r))) = representWith st (build env c r)

theorem rt_scalar (env : Env) (c : BCtx) (st : DStack) (t : TagKind) (kw : CtorKw) (v : RVal)
    (hinv : Inv st c) : RTc env c st (.scalar t kw v) := by
  have hsim := core_sim env c (skw t kw v) st false Tables.defaultDeleteNode hinv
  have hidem := core_idem env c (skw t kw v) st false Tables.defaultDeleteNode hinv
  by_cases hnull : v.toScalar = .null
  · have hr : representWith st (build env c (.scalar t kw v)) =
        .scalar .null (infoX env c (skw t kw v) st false Tables.defaultDeleteNode) .empty := by
      simp only [build, representWith, hnull]; rfl
    refine ⟨by rw [hr]; rfl, ?_, ?_⟩
    · rw [hr]
      simp only [build, skw_null, toScalar_empty, simN, hnull, hsim, beq_self_eq_true, Bool.and_self]
    · rw [hr]
      simp only [build, skw_null, toScalar_empty, representWith, representLeaf, nodeInfo_leaf, hidem]
  · have hr : representWith st (build env c (.scalar t kw v)) =
        .scalar (plainTag (infoX env c (skw t kw v) st false Tables.defaultDeleteNode))
          (infoX env c (skw t kw v) st false Tables.defaultDeleteNode) (.lit v.toScalar) := by
      simp only [build, representWith, representLeaf_nonnull st _ hnull, nodeInfo_leaf]
    refine ⟨by rw [hr]; simp [rawMC, tagMC_plainTag], ?_, ?_⟩
    · rw [hr]
      simp only [build, skw_plainTag _ hnull, toScalar_lit, simN, hsim, beq_self_eq_true, Bool.and_self]
    · rw [hr]
      simp only [build, skw_plainTag _ hnull, toScalar_lit, representWith, representLeaf_nonnull st _ hnull,
        nodeInfo_leaf, hidem]

theorem handed_list (env : Env) (c : BCtx) (x : CtorKw) :
    handedDelete (nodeFlags env c x) .list = (childCtx c x .list).d := rfl
theorem handed_dict (env : Env) (c : BCtx) (x : CtorKw) :
    handedDelete (nodeFlags env c x) .dict = (childCtx c x .dict).d := rfl

/-- the re-parsed container hands down the same `delete` -/
theorem handed_rc (env : Env) (c : BCtx) (x : CtorKw) (st : DStack) (dflt : Bool) (hinv : Inv st c) (k : CompKind) :
    (childCtx (rc c st) (infoX env c x st true dflt) k).d = (childCtx c x k).d := by
  have := congrArg BCtx.d (core_child env c x st dflt hinv k)
  simpa [rc] using this.symm

mutual
theorem rt_build (env : Env) : ∀ (r : Raw) (c : BCtx) (st : DStack), rawMC r = true → Inv st c → RTc env c st r
  | .scalar t kw v, c, st, _, hinv => rt_scalar env c st t kw v hinv
  | .seq t kw items, c, st, h, hinv => by
    have h' : tagMC t = true ∧ rawMCList items = true := by simpa [rawMC] using h
    have hsim := core_sim env c (ekw t kw) st true (defaultDelete .list) hinv
    have hidem := core_idem env c (ekw t kw) st true (defaultDelete .list) hinv
    have hcc := core_child env c (ekw t kw) st (defaultDelete .list) hinv .list
    have hhd := handed_rc env c (ekw t kw) st (defaultDelete .list) hinv .list
    obtain ⟨i2, i3, i4⟩ := rt_list env items (childCtx c (ekw t kw) .list) _ 0 h'.2
      (core_inv env c (ekw t kw) st (defaultDelete .list) hinv .list)
    rw [hcc] at i3 i4
    have hr : representWith st (build env c (.seq t kw items)) =
        .seq (plainTag (infoX env c (ekw t kw) st true (defaultDelete .list)))
          (infoX env c (ekw t kw) st true (defaultDelete .list))
          (representSeq (pushStack st (infoX env c (ekw t kw) st true (defaultDelete .list)) (childCtx c (ekw t kw) .list).d)
            (buildList env (childCtx c (ekw t kw) .list) 0 items)) := by
      simp only [build, representWith, nodeInfo_list, handed_list, CompKind.isDictFam, Bool.false_eq_true, if_false,
        representComp]
    refine ⟨by rw [hr]; simp [rawMC, tagMC_plainTag, i2], ?_, ?_⟩
    · rw [hr]
      simp only [build, ekw_plainTag, simN, hsim, i3, beq_self_eq_true, Bool.and_self]
    · rw [hr]
      simp only [build, ekw_plainTag, representWith, nodeInfo_list, handed_list, hhd, CompKind.isDictFam,
        Bool.false_eq_true, if_false, representComp, hidem, i4]
  | .map t kw items, c, st, h, hinv => by
    have h' : (tagMC t = true ∧ rawKeysNodup items = true) ∧ rawMCMap items = true := by
      simpa [rawMC] using h
    have hsim := core_sim env c (ekw t kw) st true (defaultDelete .dict) hinv
    have hidem := core_idem env c (ekw t kw) st true (defaultDelete .dict) hinv
    have hcc := core_child env c (ekw t kw) st (defaultDelete .dict) hinv .dict
    have hhd := handed_rc env c (ekw t kw) st (defaultDelete .dict) hinv .dict
    obtain ⟨i2, i3, i4, i5, i6⟩ := rt_map env items (childCtx c (ekw t kw) .dict) _ h'.2
      (core_inv env c (ekw t kw) st (defaultDelete .dict) hinv .dict)
    rw [hcc] at i3 i4
    have hr : representWith st (build env c (.map t kw items)) =
        .map (plainTag (infoX env c (ekw t kw) st true (defaultDelete .dict)))
          (infoX env c (ekw t kw) st true (defaultDelete .dict))
          (representMap (pushStack st (infoX env c (ekw t kw) st true (defaultDelete .dict)) (childCtx c (ekw t kw) .dict).d)
            (buildMap env (childCtx c (ekw t kw) .dict) items)) := by
      simp only [build, representWith, nodeInfo_dict, handed_dict, CompKind.isDictFam, if_true, representComp]
    refine ⟨by rw [hr]; simp [rawMC, tagMC_plainTag, i2, i6, h'.1.2], ?_, ?_⟩
    · rw [hr]
      simp only [build, ekw_plainTag, simN, hsim, i3, beq_self_eq_true, Bool.and_self]
    · rw [hr]
      simp only [build, ekw_plainTag, representWith, nodeInfo_dict, handed_dict, hhd, CompKind.isDictFam, if_true,
        representComp, hidem, i4]
theorem rt_list (env : Env) : ∀ (items : List Raw) (c : BCtx) (st : DStack) (i : Nat),
    rawMCList items = true → Inv st c →
    rawMCList (representSeq st (buildList env c i items)) = true ∧
      simL (buildList env c i items) (buildList env (rc c st) i (representSeq st (buildList env c i items))) = true ∧
      representSeq st (buildList env (rc c st) i (representSeq st (buildList env c i items))) =
        representSeq st (buildList env c i items)
  | [], _, _, _, _, _ => ⟨rfl, rfl, rfl⟩
  | r :: rest, c, st, i, h, hinv => by
    have h' : rawMC r = true ∧ rawMCList rest = true := by simpa [rawMCList] using h
    obtain ⟨a2, a3, a4⟩ := rt_build env r c st h'.1 hinv
    obtain ⟨b2, b3, b4⟩ := rt_list env rest c st (i + 1) h'.2 hinv
    refine ⟨?_, ?_, ?_⟩
    · simp [buildList, representSeq, rawMCList, a2, b2]
    · simp only [buildList, representSeq, simL, a3, b3, beq_self_eq_true, Bool.and_self]
    · simp only [buildList, representSeq, a4, b4]
theorem rt_map (env : Env) : ∀ (items : List (Key × Raw)) (c : BCtx) (st : DStack),
    rawMCMap items = true → Inv st c →
    rawMCMap (representMap st (buildMap env c items)) = true ∧
      simL (buildMap env c items) (buildMap env (rc c st) (representMap st (buildMap env c items))) = true ∧
      representMap st (buildMap env (rc c st) (representMap st (buildMap env c items))) =
        representMap st (buildMap env c items) ∧
      (∀ k, keyFreshR k (representMap st (buildMap env c items)) = keyFreshR k items) ∧
      rawKeysNodup (representMap st (buildMap env c items)) = rawKeysNodup items
  | [], _, _, _, _ => ⟨rfl, rfl, rfl, fun _ => rfl, rfl⟩
  | (k, r) :: rest, c, st, h, hinv => by
    have h' : rawMC r = true ∧ rawMCMap rest = true := by simpa [rawMCMap] using h
    obtain ⟨a2, a3, a4⟩ := rt_build env r c st h'.1 hinv
    obtain ⟨b2, b3, b4, b5, b6⟩ := rt_map env rest c st h'.2 hinv
    refine ⟨?_, ?_, ?_, ?_, ?_⟩
    · simp [buildMap, representMap, rawMCMap, a2, b2]
    · simp only [buildMap, representMap, simL, a3, b3, beq_self_eq_true, Bool.and_self]
    · simp only [buildMap, representMap, a4, b4]
    · intro k0; simp only [buildMap, representMap, keyFreshR, b5 k0]
    · simp only [buildMap, representMap, rawKeysNodup, b5 k, b6]
end

end AY
