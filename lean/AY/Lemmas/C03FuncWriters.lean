/-
  AY.Lemmas.C03FuncWriters — writers of ONE entry (function nodes and target-name strings), the
  fold of the merge over a writer sequence, the decoding of `argmaxInfo` into "the writer with the
  highest priority, the latest among equals", and the seeded regression as a mutant of `funcMerge`.
-/
import AY.Lemmas.C03FuncRead
set_option linter.unusedVariables false
set_option linter.unusedSimpArgs false
namespace AY.C03F
open AY

/-! ### writers -/

/-- a writer of one entry: a function node `!call:target {args}` / `!bind:target {args}` with flags
    `fl`, or a plain string naming a target -/
inductive Writer where
  | func (isCall : Bool) (target : String) (args : List (Key × Node)) (fl : Flags)
  | name (target : String) (fl : Flags)
  deriving Repr, Inhabited

namespace Writer

/-- the node the writer stands for -/
def node : Writer → Node
  | .func c t args fl => .comp fl (if c then .call t else .bind t) args
  | .name t fl => .leaf fl (.scalar (.str t))

def target : Writer → String
  | .func _ t _ _ => t
  | .name t _ => t

def flags : Writer → Flags
  | .func _ _ _ fl => fl
  | .name _ fl => fl

def isFunc : Writer → Bool
  | .func .. => true
  | .name .. => false

/-- effective priority (`ayns.priority`) -/
def prio (w : Writer) : Int := ePrio w.flags

/-- user metadata -/
def md (w : Writer) : List (String × Scalar) := w.flags.md

/-- what the writer contributes: (priority, target as a string value, metadata) -/
def info (w : Writer) : LeafInfo := (w.prio, .str w.target, w.md)

end Writer

theorem entryInfo_writer (w : Writer) : entryInfo w.node = some w.info := by
  cases w with
  | func c t args fl => cases c <;> rfl
  | name t fl => rfl

theorem isWriter_writer (w : Writer) : isWriter w.node = true := by
  cases w with
  | func c t args fl => cases c <;> rfl
  | name t fl => rfl

theorem isFuncN_writer (w : Writer) : isFuncN w.node = w.isFunc := by
  cases w with
  | func c t args fl => cases c <;> rfl
  | name t fl => rfl

theorem isMap_writer (w : Writer) : isMap w.node = false := by
  cases w with
  | func c t args fl => cases c <;> rfl
  | name t fl => rfl

/-! ### the fold -/

/-- `acc = acc.ayns.merge(w)` for every writer in turn -/
def foldW : Node → List Node → Except Err Node
  | acc, [] => .ok acc
  | acc, w :: ws =>
    match merge acc w with
    | .error e => .error e
    | .ok r => foldW r ws

theorem isFuncN_comp {n : Node} (h : isFuncN n = true) : ∃ sf sk scs f, n = .comp sf sk scs ∧ sk.func? = some f := by
  cases n with
  | leaf _ _ => cases h
  | comp sf sk scs =>
    obtain ⟨f, hf⟩ := isFunc_func? (k := sk) h
    exact ⟨sf, sk, scs, f, rfl, hf⟩

/-- partial correctness, for ARBITRARY arguments and flags: whenever the fold succeeds the result is
    a function node whose information is the left fold of the leaf rule over the writers -/
theorem foldW_info : ∀ (ws : List Node) (acc r : Node), isFuncN acc = true → (∀ w, w ∈ ws → isWriter w = true) →
    foldW acc ws = .ok r →
    isFuncN r = true ∧ entryInfo r = (ws.map entryInfo).foldl pickInfo (entryInfo acc)
  | [], acc, r, hacc, _, h => by
    simp only [foldW, Except.ok.injEq] at h
    subst h
    exact ⟨hacc, rfl⟩
  | w :: ws, acc, r, hacc, hw, h => by
    obtain ⟨sf, sk, scs, f, rfl, hsk⟩ := isFuncN_comp hacc
    simp only [foldW, merge] at h
    cases hm : mergeF (w.depth + 1) (.comp sf sk scs) w with
    | error e => rw [hm] at h; cases h
    | ok rs =>
      obtain ⟨r1, same⟩ := rs
      rw [hm] at h
      obtain ⟨h1, h2, _⟩ := funcStep w.depth sf sk f scs w r1 same hsk (hw w List.mem_cons_self) hm
      obtain ⟨h3, h4⟩ := foldW_info ws r1 r h1 (fun x hx => hw x (List.mem_cons_of_mem _ hx)) h
      exact ⟨h3, by rw [h4, h2]; rfl⟩

/-- the same on writers -/
theorem foldW_writers_info (w0 : Writer) (ws : List Writer) (hw0 : w0.isFunc = true) (r : Node)
    (h : foldW w0.node (ws.map Writer.node) = .ok r) :
    isFuncN r = true ∧ entryInfo r = (ws.map (fun w => some w.info)).foldl pickInfo (some w0.info) := by
  obtain ⟨h1, h2⟩ := foldW_info (ws.map Writer.node) w0.node r (by rw [isFuncN_writer]; exact hw0)
    (by intro w hw; obtain ⟨x, _, rfl⟩ := List.mem_map.1 hw; exact isWriter_writer x) h
  refine ⟨h1, ?_⟩
  rw [h2, entryInfo_writer, List.map_map]
  congr 1
  apply List.map_congr_left
  intro w _
  exact entryInfo_writer w

/-- success, for writers as the loader builds them (scalar arguments): the fold never fails and
    the result is an entry again -/
theorem foldW_total : ∀ (ws : List Node) (acc : Node), entShaped acc = true → isMap acc = false →
    (∀ w, w ∈ ws → entShaped w = true ∧ isMap w = false) →
    ∃ r, foldW acc ws = .ok r ∧ entShaped r = true ∧ isMap r = false
  | [], acc, hacc, hm, _ => ⟨acc, rfl, hacc, hm⟩
  | w :: ws, acc, hacc, hm, hw => by
    obtain ⟨hwe, hwm⟩ := hw w List.mem_cons_self
    obtain ⟨r1, same, h1, h2, h3, _⟩ := entMerge_total w.depth acc w hacc hwe hm hwm (Nat.le_refl _)
    obtain ⟨r, h4, h5⟩ := foldW_total ws r1 h2 h3 (fun x hx => hw x (List.mem_cons_of_mem _ hx))
    exact ⟨r, by simp only [foldW, merge, h1, h4], h5⟩

/-! ### decoding the arg-max -/

theorem argmaxInfo_somes_ne_none : ∀ (x : LeafInfo) (l : List LeafInfo), argmaxInfo ((x :: l).map some) ≠ none := by
  intro x l h
  have := argmaxInfo_none _ h (some x) (by simp)
  cases this

/-- `argmaxInfo` over a non-empty list of writers IS "the writer with the highest priority, the
    latest among equals": it returns the information of a writer `w` at some position `i` such that
    every writer `m` at a position `j` has a strictly lower priority, or the same priority and `j ≤ i` -/
theorem argmax_writers (w0 : Writer) (ws : List Writer) :
    ∃ (i : Nat) (w : Writer), (w0 :: ws)[i]? = some w ∧
      (argmaxInfo ((w0 :: ws).map (fun w => some w.info))).map pv = some (w.prio, .str w.target) ∧
      ∀ (j : Nat) (m : Writer), (w0 :: ws)[j]? = some m → m.prio < w.prio ∨ (m.prio = w.prio ∧ j ≤ i) := by
  cases hx : argmaxInfo ((w0 :: ws).map (fun w => some w.info)) with
  | none =>
    have := argmaxInfo_none _ hx (some w0.info) (by simp)
    cases this
  | some x =>
    obtain ⟨i, hi, hmax⟩ := argmaxInfo_spec _ x hx
    rw [List.getElem?_map] at hi
    cases hwi : (w0 :: ws)[i]? with
    | none => rw [hwi] at hi; cases hi
    | some w =>
      rw [hwi] at hi
      simp only [Option.map_some, Option.some.injEq] at hi
      refine ⟨i, w, hwi, by rw [← hi]; rfl, ?_⟩
      intro j m hj
      have := hmax j m.info (by rw [List.getElem?_map, hj]; rfl)
      rw [← hi] at this
      exact this

/-! ### the seeded regression as a mutant -/

/-- `FunctionNode.on_merge_impl` with the regression: a string that names the CURRENT target always
    takes the lower-priority route (`_replace_other`), so it never hands its priority over -/
def funcMergeMut (rec : Node → Node → Except Err (Node × Bool)) (sf : Flags) (sk : CompKind)
    (f : String) (scs : List (Key × Node)) (o : Node) : Except Err (Node × Bool) :=
  match o with
  | .leaf of lk =>
    if lk.isStr then
      if hasPrio of sf true then
        if lk.strVal != f then
          .ok (propagate (.comp (replaceSelfFlags sf of) (sk.setFunc lk.strVal) []), true)
        else
          .ok (propagate (.comp (replaceOtherFlags sf of) sk scs), true)   -- the mutation
      else .ok (propagate (.comp (replaceOtherFlags sf of) sk scs), true)
    else compMerge rec sf sk scs o
  | .comp of ok _ =>
    match ok.func? with
    | none => compMerge rec sf sk scs o
    | some g =>
      if g != f then
        if !hasPrio of sf true then .ok (propagate (.comp (replaceOtherFlags sf of) sk scs), true)
        else compMerge rec sf (sk.setFunc g) (if eDel o then [] else scs) o
      else compMerge rec sf sk scs o

/-- `mergeF` with `funcMergeMut` in place of `funcMerge` -/
def mergeFMut : Nat → Node → Node → Except Err (Node × Bool)
  | 0, _, _ => .error .unsupported
  | fuel + 1, s, o =>
    match s with
    | .leaf .. => .ok (leafRule s o)
    | .comp sf sk scs =>
      match sk with
      | .dict => compMerge (mergeFMut fuel) sf sk scs o
      | .call f | .bind f => funcMergeMut (mergeFMut fuel) sf sk f scs o
      | .list | .append | .extend | .path _ | .stream => listMerge (mergeFMut fuel) sf sk scs o

def foldWMut : Node → List Node → Except Err Node
  | acc, [] => .ok acc
  | acc, w :: ws =>
    match mergeFMut (w.depth + 1) acc w with
    | .error e => .error e
    | .ok (r, _) => foldWMut r ws

/-- target and effective priority of a function node (decidable observable for the examples) -/
def targetPrio : Node → Option (String × Int)
  | .comp f k _ => k.func?.map (fun t => (t, ePrio f))
  | .leaf .. => none

end AY.C03F
