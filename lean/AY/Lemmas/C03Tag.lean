/-
  AY.Lemmas.C03Tag — a priority tag on a container applies to everything below it: the class
  constructors called by the loader for a tagged node (`wrapSeq` / `wrapMap` / `wrapScalar`) write
  the `priority` keyword into every existing descendant (`initChildren` → `inheritInto (some p)` →
  `setPrioAll`), whatever priorities the descendants had.
-/
import AY.Model.Construct
set_option linter.unusedVariables false
namespace AY

mutual
/-- every node of the tree carries the explicit priority `p` -/
def allPrio (p : Int) : Node → Bool
  | .leaf f _ => f.prio == some p
  | .comp f _ cs => f.prio == some p && allPrioList p cs
def allPrioList (p : Int) : List (Key × Node) → Bool
  | [] => true
  | (_, c) :: rest => allPrio p c && allPrioList p rest
end

mutual
theorem allPrio_setPrioAll (p : Int) : ∀ n : Node, allPrio p (setPrioAll p n) = true
  | .leaf f k => by simp [setPrioAll, allPrio]
  | .comp f k cs => by simp [setPrioAll, allPrio, allPrioList_setPrioAllList p cs]
theorem allPrioList_setPrioAllList (p : Int) : ∀ cs : List (Key × Node), allPrioList p (setPrioAllList p cs) = true
  | [] => rfl
  | (k, c) :: rest => by
    simp [setPrioAllList, allPrioList, allPrio_setPrioAll p c, allPrioList_setPrioAllList p rest]
end

theorem updFlags_prio (kw : ChildKw) (f : Flags) : (updFlags kw f).prio = f.prio := rfl

mutual
theorem allPrio_applyKw (p : Int) : ∀ (kw : ChildKw) (n : Node), allPrio p n = true → allPrio p (applyKw kw n) = true
  | kw, .leaf f k, h => by simpa [applyKw, allPrio, updFlags_prio] using h
  | kw, .comp f k cs, h => by
    have h' : f.prio = some p ∧ allPrioList p cs = true := by simpa [allPrio] using h
    simp only [applyKw]
    split
    · split
      · simpa [allPrio, updFlags_prio] using h
      · rename_i kw' _
        simp [allPrio, updFlags_prio, h'.1, allPrioList_applyKwList p kw' cs h'.2]
    · exact h
theorem allPrioList_applyKwList (p : Int) : ∀ (kw : ChildKw) (cs : List (Key × Node)),
    allPrioList p cs = true → allPrioList p (applyKwList kw cs) = true
  | _, [], _ => rfl
  | kw, (k, c) :: rest, h => by
    have h' : allPrio p c = true ∧ allPrioList p rest = true := by simpa [allPrioList] using h
    simp [applyKwList, allPrioList, allPrio_applyKw p kw c h'.1, allPrioList_applyKwList p kw rest h'.2]
end

theorem allPrio_propagate (p : Int) {n : Node} (h : allPrio p n = true) : allPrio p (propagate n) = true := by
  cases n with
  | leaf f k => exact h
  | comp f k cs =>
    have h' : f.prio = some p ∧ allPrioList p cs = true := by simpa [allPrio] using h
    simp only [propagate]
    split
    · exact h
    · rename_i kw _
      simp [allPrio, h'.1, allPrioList_applyKwList p kw cs h'.2]

theorem allPrio_setFlags (p : Int) {n : Node} {f : Flags} (h : allPrio p n = true) (hf : f.prio = some p) :
    allPrio p (n.setFlags f) = true := by
  cases n with
  | leaf g k => simp [Node.setFlags, allPrio, hf]
  | comp g k cs =>
    have h' : g.prio = some p ∧ allPrioList p cs = true := by simpa [allPrio] using h
    simp [Node.setFlags, allPrio, hf, h'.2]

theorem allPrio_flags (p : Int) {n : Node} (h : allPrio p n = true) : n.flags.prio = some p := by
  cases n with
  | leaf f k => simpa [allPrio, Node.flags] using h
  | comp f k cs =>
    have h' : f.prio = some p ∧ allPrioList p cs = true := by simpa [allPrio] using h
    exact h'.1

/-- `ConfigNode(existing, priority=p, …)` overwrites the priority of the node and of everything
    below it, whatever it was -/
theorem allPrio_inheritInto (p : Int) (kw : Option ChildKw) (n : Node) :
    allPrio p (inheritInto (some p) kw n) = true := by
  have h := allPrio_setPrioAll p n
  cases kw with
  | none => exact h
  | some kw =>
    simp only [inheritInto]
    exact allPrio_propagate p (allPrio_setFlags p h (by rw [updFlags_prio]; exact allPrio_flags p h))

theorem allPrioList_initChildren (p : Int) (f : Flags) (k : CompKind) :
    ∀ cs : List (Key × Node), allPrioList p (initChildren f k (some p) cs) = true
  | [] => rfl
  | (key, c) :: rest => by
    have := allPrioList_initChildren p f k rest
    simp only [initChildren, List.map_cons, allPrioList, allPrio_inheritInto, Bool.true_and] at this ⊢
    exact this

/-- the tag constructs a node through a class constructor that receives the tag's keywords -/
def tagTakesKw : TagKind → Bool
  | .plain | .append | .extend | .path _ | .call _ | .bind _ => true
  | _ => false

theorem wrapSeq_allPrio (env : Env) (t : TagKind) (kw : CtorKw) (cs : List (Key × Node)) (p : Int) (n : Node)
    (ht : tagTakesKw t = true) (hp : kw.prio = some p) (h : wrapSeq env t kw cs = .ok n) : allPrio p n = true := by
  cases t <;> simp only [wrapSeq, tagTakesKw] at h ht <;> try (cases ht)
  all_goals first
    | (injection h with h; subst h
       simp [allPrio, mkFlags, hp, allPrioList_initChildren])
    | (split at h
       · cases h
       · injection h with h; subst h
         simp [allPrio, mkFlags, hp, allPrioList_initChildren])

theorem wrapMap_allPrio (env : Env) (t : TagKind) (kw : CtorKw) (cs : List (Key × Node)) (p : Int) (n : Node)
    (hp : kw.prio = some p) (ht : t ≠ .none) (h : wrapMap env t kw cs = .ok n) : allPrio p n = true := by
  cases t <;> simp only [wrapMap] at h
  all_goals first
    | (exact absurd rfl ht)
    | (cases h; done)
    | (injection h with h; subst h
       simp [allPrio, mkFlags, hp, allPrioList_initChildren])
    | (split at h
       · cases h
       · injection h with h; subst h
         simp [allPrio, mkFlags, hp, allPrioList_initChildren])


/-! ### the loader -/

theorem allPrio_adopt (p : Int) (pf : Flags) (pk : CompKind) {v : Node} (h : allPrio p v = true) :
    allPrio p (adopt pf pk v) = true := by
  simp only [adopt, inheritInto]
  cases childKw pf pk with
  | none => exact allPrio_propagate p h
  | some kw =>
    exact allPrio_propagate p (allPrio_propagate p
      (allPrio_setFlags p h (by rw [updFlags_prio]; exact allPrio_flags p h)))

theorem allPrio_adoptBy (p : Int) (parent : Option (Flags × CompKind)) {v : Node} (h : allPrio p v = true) :
    allPrio p (adoptBy parent v) = true := by
  cases parent with
  | none => exact h
  | some pr => obtain ⟨pf, pk⟩ := pr; exact allPrio_adopt p pf pk h

theorem constructDeep_seq_allPrio (env : Env) (t : TagKind) (kw : CtorKw) (items : List Raw) (n : Node) (p : Int)
    (ht : tagTakesKw t = true) (hp : kw.prio = some p)
    (h : constructDeep env (.seq t kw items) = .ok n) : allPrio p n = true := by
  simp only [constructDeep] at h
  cases hc : constructDeepList env 0 items with
  | error e => simp [hc] at h
  | ok cs =>
    simp only [hc] at h
    cases t <;> first
      | (cases ht; done)
      | exact wrapSeq_allPrio env _ kw cs p n rfl hp h

theorem constructDeep_map_allPrio (env : Env) (t : TagKind) (kw : CtorKw) (items : List (Key × Raw)) (n : Node)
    (p : Int) (ht : t ≠ .none) (hp : kw.prio = some p)
    (h : constructDeep env (.map t kw items) = .ok n) : allPrio p n = true := by
  simp only [constructDeep] at h
  cases hc : constructDeepMap env items with
  | error e => simp [hc] at h
  | ok cs =>
    simp only [hc] at h
    exact wrapMap_allPrio env t kw cs p n hp ht h

theorem constructTD_seq_allPrio (env : Env) (parent : Option (Flags × CompKind)) (t : TagKind) (kw : CtorKw)
    (items : List Raw) (n : Node) (p : Int) (ht : tagTakesKw t = true) (hp : kw.prio = some p)
    (h : constructTD env parent (.seq t kw items) = .ok n) : allPrio p n = true := by
  have key : ∀ m, constructDeep env (.seq t kw items) = .ok m → allPrio p m = true :=
    fun m hm => constructDeep_seq_allPrio env t kw items m p ht hp hm
  cases t <;> first
    | (cases ht; done)
    | (simp only [constructTD] at h
       split at h
       · cases h
       · rename_i m hm
         injection h with h; subst h
         exact allPrio_adoptBy p parent (key m hm))

theorem constructTD_map_allPrio (env : Env) (parent : Option (Flags × CompKind)) (t : TagKind) (kw : CtorKw)
    (items : List (Key × Raw)) (n : Node) (p : Int) (ht : t ≠ .none) (hp : kw.prio = some p)
    (h : constructTD env parent (.map t kw items) = .ok n) : allPrio p n = true := by
  have key : ∀ m, constructDeep env (.map t kw items) = .ok m → allPrio p m = true :=
    fun m hm => constructDeep_map_allPrio env t kw items m p ht hp hm
  cases t <;> first
    | (exact absurd rfl ht)
    | (simp only [constructTD] at h
       split at h
       · cases h
       · rename_i m hm
         injection h with h; subst h
         exact allPrio_adoptBy p parent (key m hm))


/-! ### what `allPrio` says about every path -/

theorem allPrio_lookup (p : Int) : ∀ (cs : List (Key × Node)), allPrioList p cs = true →
    ∀ k c, alookup k cs = some c → allPrio p c = true
  | [], _, k, c, h => by simp [alookup] at h
  | (k', c') :: rest, hp, k, c, h => by
    have h' : allPrio p c' = true ∧ allPrioList p rest = true := by simpa [allPrioList] using hp
    by_cases e : k' = k
    · simp [alookup, e] at h; subst h; exact h'.1
    · simp [alookup, e] at h; exact allPrio_lookup p rest h'.2 k c h

theorem allPrio_getNode (p : Int) : ∀ (q : Path) (n m : Node), allPrio p n = true → getNode n q = some m →
    allPrio p m = true
  | [], n, m, h, hg => by
    have : n = m := by cases n <;> simpa [getNode] using hg
    rw [← this]; exact h
  | key :: rest, .leaf f k, m, h, hg => by simp [getNode] at hg
  | key :: rest, .comp f k cs, m, h, hg => by
    have h' : f.prio = some p ∧ allPrioList p cs = true := by simpa [allPrio] using h
    simp only [getNode] at hg
    cases hl : alookup key cs with
    | none => simp [hl] at hg
    | some c =>
      simp only [hl] at hg
      exact allPrio_getNode p rest c m (allPrio_lookup p cs h'.2 key c hl) hg

end AY
