/-
  AY.Lemmas.C15WholeCons — the flag-consistency invariant (`FlagsConsistent`: every child's inherited
  flags are what `childKw` of its parent prescribes) and its preservation by the loader, `mergeF` and
  `flatten`, restated in the namespace `AY.C15W`.

  The definitions and proofs are those of AY.Model.Copy / AY.Lemmas.C19Lemmas / C19Merge / C19Flatten
  (property C19), copied verbatim: those modules import AY.Model.Copy, whose `AY.keysNodup` clashes
  with the one of AY.Lemmas.Assoc that every C15 module imports, so the two cannot be imported
  together.  Nothing here depends on keys.
-/
import AY.Model.Construct
namespace AY.C15W

/-! ### the invariant (AY.Model.Copy) -/

/-- The inherited flags `f` of a child are what its parent prescribes through `kw`
    (`_get_child_kwargs`), with the one exception the code makes: an inherited `safe = False` is
    sticky (`_implicit_safe is False` is never overwritten). -/
def childFlagsOK (kw : ChildKw) (f : Flags) : Bool :=
  f.iDel == kw.iDel && f.iNew == kw.iNew && (f.iSafe == kw.iSafe || f.iSafe == some false)

mutual
/-- Every child's inherited flags (`_implicit_delete/_implicit_allow_new/_implicit_safe`) are what
    `childKw` of its parent prescribes, at every level. A stream imposes nothing on its children
    (`StreamNode._get_child_kwargs` is empty) but they must be consistent themselves. -/
def FlagsConsistent : Node → Bool
  | .leaf _ _ => true
  | .comp f k cs => consistentList (childKw f k) cs
def consistentList (kw : Option ChildKw) : List (Key × Node) → Bool
  | [] => true
  | (_, c) :: rest =>
    (match kw with
      | none => true
      | some kw => childFlagsOK kw c.flags) && FlagsConsistent c && consistentList kw rest
end

/-- all children are consistent trees (nothing is said about their own inherited flags) -/
def allConsistent (cs : List (Key × Node)) : Bool := consistentList none cs

/-- `FlagsConsistent` below the root only: what `pickle` needs (it never re-adopts the root's children). -/
def ConsistentBelow : Node → Bool
  | .leaf _ _ => true
  | .comp _ _ cs => allConsistent cs

/-! ### AY.Lemmas.C19Lemmas (flag bookkeeping, establishing consistency, the loader) -/

/-! ### flag bookkeeping -/

theorem childFlagsOK_iff (kw : ChildKw) (f : Flags) :
    childFlagsOK kw f = true ↔ f.iDel = kw.iDel ∧ f.iNew = kw.iNew ∧ (f.iSafe = kw.iSafe ∨ f.iSafe = some false) := by
  simp [childFlagsOK, and_assoc]

theorem updFlags_of_ok {kw : ChildKw} {f : Flags} (h : childFlagsOK kw f = true) : updFlags kw f = f := by
  rcases (childFlagsOK_iff kw f).1 h with ⟨h1, h2, h3⟩
  cases f with
  | mk prio del new safe iDel iNew iSafe dSafe md src =>
    simp only [updFlags] at *
    subst h1; subst h2
    rcases h3 with h3 | h3
    · subst h3; split <;> simp_all
    · subst h3; simp

theorem flagsChanged_of_ok {kw : ChildKw} {f : Flags} (h : childFlagsOK kw f = true) : flagsChanged kw f = false := by
  rcases (childFlagsOK_iff kw f).1 h with ⟨h1, h2, h3⟩
  simp only [flagsChanged, h1, h2]
  rcases h3 with h3 | h3 <;> simp [h3]

theorem childFlagsOK_updFlags (kw : ChildKw) (f : Flags) : childFlagsOK kw (updFlags kw f) = true := by
  simp only [childFlagsOK, updFlags]
  split <;> simp_all

theorem childFlagsOK_of_not_changed {kw : ChildKw} {f : Flags} (h : flagsChanged kw f = false) :
    childFlagsOK kw f = true := by
  simp only [flagsChanged, Bool.or_eq_false_iff, Bool.and_eq_false_iff, bne_eq_false_iff_eq] at h
  rw [childFlagsOK_iff]
  refine ⟨h.1.1, h.1.2, ?_⟩
  rcases h.2 with h2 | h2
  · exact Or.inl (by simpa using h2)
  · exact Or.inr (by simpa using h2)

theorem applyKw_id {kw : ChildKw} {c : Node} (h : childFlagsOK kw c.flags = true) : applyKw kw c = c := by
  cases c with
  | leaf f k => simp only [Node.flags] at h; simp [applyKw, updFlags_of_ok h]
  | comp f k cs => simp only [Node.flags] at h; simp [applyKw, flagsChanged_of_ok h]

theorem consistentList_cons (kw : Option ChildKw) (key : Key) (c : Node) (rest : List (Key × Node)) :
    consistentList kw ((key, c) :: rest) = true ↔
      (∀ kw', kw = some kw' → childFlagsOK kw' c.flags = true) ∧ FlagsConsistent c = true ∧ consistentList kw rest = true := by
  cases kw <;> simp [consistentList, and_assoc]

theorem applyKwList_id {kw : ChildKw} : ∀ {cs : List (Key × Node)},
    consistentList (some kw) cs = true → applyKwList kw cs = cs
  | [], _ => by simp [applyKwList]
  | (key, c) :: rest, h => by
    rw [consistentList_cons] at h
    simp [applyKwList, applyKw_id (h.1 kw rfl), applyKwList_id h.2.2]

theorem propagate_id {n : Node} (h : FlagsConsistent n = true) : propagate n = n := by
  cases n with
  | leaf f k => rfl
  | comp f k cs =>
    simp only [FlagsConsistent] at h
    simp only [propagate]
    cases hk : childKw f k with
    | none => rfl
    | some kw => rw [hk] at h; simp [applyKwList_id h]

theorem setFlags_flags (n : Node) : n.setFlags n.flags = n := by
  cases n <;> rfl

theorem adopt_id {pf : Flags} {pk : CompKind} {v : Node} (hc : FlagsConsistent v = true)
    (hk : ∀ kw, childKw pf pk = some kw → childFlagsOK kw v.flags = true) : adopt pf pk v = v := by
  simp only [adopt, inheritInto]
  cases h : childKw pf pk with
  | none => simp [propagate_id hc]
  | some kw =>
    simp [updFlags_of_ok (hk kw h), setFlags_flags, propagate_id hc]

theorem consistentList_weaken {kw : Option ChildKw} : ∀ {cs : List (Key × Node)},
    consistentList kw cs = true → allConsistent cs = true
  | [], _ => by simp [allConsistent, consistentList]
  | (key, c) :: rest, h => by
    rw [consistentList_cons] at h
    have := consistentList_weaken h.2.2
    simp only [allConsistent] at this ⊢
    rw [consistentList_cons]
    exact ⟨by simp, h.2.1, this⟩

theorem consistentBelow_of_consistent {n : Node} (h : FlagsConsistent n = true) : ConsistentBelow n = true := by
  cases n with
  | leaf f k => rfl
  | comp f k cs => simp only [FlagsConsistent] at h; exact consistentList_weaken h
/-! ### consistency is established by the flag-inheritance functions -/

theorem allConsistent_cons (key : Key) (c : Node) (rest : List (Key × Node)) :
    allConsistent ((key, c) :: rest) = true ↔ FlagsConsistent c = true ∧ allConsistent rest = true := by
  simp only [allConsistent]; rw [consistentList_cons]; simp

mutual
theorem applyKw_cons (kw : ChildKw) : ∀ (c : Node), FlagsConsistent c = true →
    FlagsConsistent (applyKw kw c) = true ∧ childFlagsOK kw (applyKw kw c).flags = true
  | .leaf f k, _ => by simp [applyKw, FlagsConsistent, Node.flags, childFlagsOK_updFlags]
  | .comp f k cs, h => by
    simp only [FlagsConsistent] at h
    have hall := consistentList_weaken h
    simp only [applyKw]
    by_cases hch : flagsChanged kw f = true
    · simp only [hch, if_true]
      cases hk : childKw (updFlags kw f) k with
      | none =>
        simp only [FlagsConsistent, hk, Node.flags, childFlagsOK_updFlags, and_true]
        exact hall
      | some kw' =>
        simp only [FlagsConsistent, hk, Node.flags, childFlagsOK_updFlags, and_true]
        exact applyKwList_cons kw' cs hall
    · have hch' : flagsChanged kw f = false := by simpa using hch
      simp only [hch', Bool.false_eq_true, if_false, FlagsConsistent, Node.flags]
      exact ⟨h, childFlagsOK_of_not_changed hch'⟩
theorem applyKwList_cons (kw : ChildKw) : ∀ (cs : List (Key × Node)), allConsistent cs = true →
    consistentList (some kw) (applyKwList kw cs) = true
  | [], _ => by simp [applyKwList, consistentList]
  | (key, c) :: rest, h => by
    rw [allConsistent_cons] at h
    simp only [applyKwList]
    rw [consistentList_cons]
    have hc := applyKw_cons kw c h.1
    exact ⟨fun kw' e => by cases e; exact hc.2, hc.1, applyKwList_cons kw rest h.2⟩
end

theorem propagate_flags (n : Node) : (propagate n).flags = n.flags := by
  cases n with
  | leaf f k => rfl
  | comp f k cs => simp only [propagate]; split <;> rfl

theorem propagate_cons {n : Node} (h : ConsistentBelow n = true) : FlagsConsistent (propagate n) = true := by
  cases n with
  | leaf f k => rfl
  | comp f k cs =>
    simp only [ConsistentBelow] at h
    simp only [propagate]
    cases hk : childKw f k with
    | none => simp only [FlagsConsistent, hk]; exact h
    | some kw => simp only [FlagsConsistent, hk]; exact applyKwList_cons kw cs h

theorem childKw_prio (f : Flags) (p : Option Int) (k : CompKind) : childKw { f with prio := p } k = childKw f k := by
  cases k <;> rfl

theorem setPrioAll_flagsOK (kw : ChildKw) (p : Int) (c : Node) :
    childFlagsOK kw (setPrioAll p c).flags = childFlagsOK kw c.flags := by
  cases c <;> simp [setPrioAll, Node.flags, childFlagsOK]

mutual
theorem setPrioAll_cons (p : Int) : ∀ (n : Node), FlagsConsistent (setPrioAll p n) = FlagsConsistent n
  | .leaf f k => by simp [setPrioAll, FlagsConsistent]
  | .comp f k cs => by
    simp only [setPrioAll, FlagsConsistent, childKw_prio]
    exact setPrioAllList_cons p (childKw f k) cs
theorem setPrioAllList_cons (p : Int) (kw : Option ChildKw) : ∀ (cs : List (Key × Node)),
    consistentList kw (setPrioAllList p cs) = consistentList kw cs
  | [] => by simp [setPrioAllList]
  | (key, c) :: rest => by
    simp only [setPrioAllList, consistentList, setPrioAll_cons p c, setPrioAllList_cons p kw rest]
    cases kw <;> simp [setPrioAll_flagsOK]
end

theorem consistentBelow_setFlags {n : Node} (f : Flags) (h : FlagsConsistent n = true) :
    ConsistentBelow (n.setFlags f) = true := by
  cases n with
  | leaf g k => rfl
  | comp g k cs => simp only [FlagsConsistent] at h; exact consistentList_weaken h

theorem setFlags_flags' (n : Node) (f : Flags) : (n.setFlags f).flags = f := by
  cases n <;> rfl

theorem inheritInto_cons (p? : Option Int) (kw? : Option ChildKw) {n : Node} (h : FlagsConsistent n = true) :
    FlagsConsistent (inheritInto p? kw? n) = true ∧
      ∀ kw, kw? = some kw → childFlagsOK kw (inheritInto p? kw? n).flags = true := by
  have h1 : FlagsConsistent (match p? with | some p => setPrioAll p n | none => n) = true := by
    cases p? with
    | none => exact h
    | some p => simp only [setPrioAll_cons]; exact h
  simp only [inheritInto]
  cases kw? with
  | none => exact ⟨h1, fun kw e => by cases e⟩
  | some kw =>
    refine ⟨propagate_cons (consistentBelow_setFlags _ h1), fun kw' e => ?_⟩
    cases e
    simp only [propagate_flags, setFlags_flags', childFlagsOK_updFlags]

theorem adopt_cons (pf : Flags) (pk : CompKind) {v : Node} (h : FlagsConsistent v = true) :
    FlagsConsistent (adopt pf pk v) = true ∧
      ∀ kw, childKw pf pk = some kw → childFlagsOK kw (adopt pf pk v).flags = true := by
  have hi := inheritInto_cons none (childKw pf pk) h
  simp only [adopt, propagate_id hi.1]
  exact hi

theorem initChildren_cons (f : Flags) (k : CompKind) (p? : Option Int) : ∀ (cs : List (Key × Node)),
    allConsistent cs = true → consistentList (childKw f k) (initChildren f k p? cs) = true
  | [], _ => by simp [initChildren, consistentList]
  | (key, c) :: rest, h => by
    rw [allConsistent_cons] at h
    have ih := initChildren_cons f k p? rest h.2
    simp only [initChildren, List.map_cons] at ih ⊢
    rw [consistentList_cons]
    have hc := inheritInto_cons p? (childKw f k) h.1
    exact ⟨hc.2, hc.1, ih⟩

theorem comp_init_cons (f : Flags) (k : CompKind) (p? : Option Int) {cs : List (Key × Node)}
    (h : allConsistent cs = true) : FlagsConsistent (.comp f k (initChildren f k p? cs)) = true := by
  simp only [FlagsConsistent]; exact initChildren_cons f k p? cs h

/-! ### the loader produces consistent trees -/

theorem wrapSeq_cons {env : Env} {t : TagKind} {kw : CtorKw} {cs : List (Key × Node)} {n : Node}
    (hc : allConsistent cs = true) (h : wrapSeq env t kw cs = .ok n) : FlagsConsistent n = true := by
  simp only [wrapSeq] at h
  split at h
  all_goals first
    | (cases h; exact comp_init_cons _ _ _ hc)
    | (split at h
       · cases h
       · cases h; exact comp_init_cons _ _ _ hc)
    | cases h

theorem wrapMap_cons {env : Env} {t : TagKind} {kw : CtorKw} {cs : List (Key × Node)} {n : Node}
    (hc : allConsistent cs = true) (h : wrapMap env t kw cs = .ok n) : FlagsConsistent n = true := by
  simp only [wrapMap] at h
  split at h
  all_goals first
    | (cases h; exact comp_init_cons _ _ _ hc)
    | (split at h
       · cases h
       · cases h; exact comp_init_cons _ _ _ hc)
    | cases h

theorem scalarAsItems_cons (env : Env) (v : RVal) : allConsistent (scalarAsItems env v) = true := by
  cases v <;> simp [scalarAsItems, allConsistent, consistentList, rawChild, FlagsConsistent]

theorem nil_cons : allConsistent [] = true := by simp [allConsistent, consistentList]

theorem wrapScalar_cons {env : Env} {t : TagKind} {kw : CtorKw} {v : RVal} {n : Node}
    (h : wrapScalar env t kw v = .ok n) : FlagsConsistent n = true := by
  simp only [wrapScalar] at h
  split at h
  all_goals first
    | (cases h; rfl)
    | exact wrapSeq_cons (scalarAsItems_cons _ _) h
    | (split at h
       all_goals first
         | (cases h; rfl)
         | cases h
         | exact wrapSeq_cons (scalarAsItems_cons _ _) h
         | exact wrapMap_cons (scalarAsItems_cons _ _) h
         | exact wrapSeq_cons nil_cons h
         | exact wrapMap_cons nil_cons h
         | (split at h
            · exact wrapSeq_cons (scalarAsItems_cons _ _) h
            · exact wrapSeq_cons nil_cons h))

mutual
theorem constructDeep_cons (env : Env) : ∀ (r : Raw) (n : Node),
    constructDeep env r = .ok n → FlagsConsistent n = true
  | .scalar t kw v, n, h => by
    simp only [constructDeep] at h
    exact wrapScalar_cons h
  | .seq t kw items, n, h => by
    simp only [constructDeep] at h
    split at h
    · cases h
    · rename_i cs hcs
      have hall := constructDeepList_cons env 0 items cs hcs
      split at h
      · split at h
        · cases h; rfl
        · cases h
      · exact wrapSeq_cons hall h
  | .map t kw items, n, h => by
    simp only [constructDeep] at h
    split at h
    · cases h
    · rename_i cs hcs
      exact wrapMap_cons (constructDeepMap_cons env items cs hcs) h
theorem constructDeepList_cons (env : Env) : ∀ (i : Nat) (items : List Raw) (cs : List (Key × Node)),
    constructDeepList env i items = .ok cs → allConsistent cs = true
  | _, [], cs, h => by simp only [constructDeepList] at h; cases h; exact nil_cons
  | i, r :: rest, cs, h => by
    simp only [constructDeepList] at h
    split at h
    · cases h
    · rename_i n hn
      split at h
      · cases h
      · rename_i ns hns
        cases h
        rw [allConsistent_cons]
        exact ⟨constructDeep_cons env r n hn, constructDeepList_cons env (i + 1) rest ns hns⟩
theorem constructDeepMap_cons (env : Env) : ∀ (items : List (Key × Raw)) (cs : List (Key × Node)),
    constructDeepMap env items = .ok cs → allConsistent cs = true
  | [], cs, h => by simp only [constructDeepMap] at h; cases h; exact nil_cons
  | (k, r) :: rest, cs, h => by
    simp only [constructDeepMap] at h
    split at h
    · cases h
    · rename_i n hn
      split at h
      · cases h
      · rename_i ns hns
        cases h
        rw [allConsistent_cons]
        exact ⟨constructDeep_cons env r n hn, constructDeepMap_cons env rest ns hns⟩
end

/-- the inherited flags of `n` are those prescribed by the (optional) parent -/
def ParentOK (parent : Option (Flags × CompKind)) (n : Node) : Prop :=
  ∀ pf pk kw, parent = some (pf, pk) → childKw pf pk = some kw → childFlagsOK kw n.flags = true

theorem adoptBy_cons (parent : Option (Flags × CompKind)) {n : Node} (h : FlagsConsistent n = true) :
    FlagsConsistent (adoptBy parent n) = true ∧ ParentOK parent (adoptBy parent n) := by
  cases parent with
  | none => exact ⟨h, fun pf pk kw e => by cases e⟩
  | some pr =>
    obtain ⟨pf, pk⟩ := pr
    have := adopt_cons pf pk h
    refine ⟨this.1, fun pf' pk' kw e hk => ?_⟩
    cases e
    exact this.2 kw hk

theorem aset_consistent {kw : Option ChildKw} {key : Key} {n : Node}
    (hn : FlagsConsistent n = true) (hk : ∀ kw', kw = some kw' → childFlagsOK kw' n.flags = true) :
    ∀ {acc : List (Key × Node)}, consistentList kw acc = true → consistentList kw (aset key n acc) = true
  | [], _ => by simp only [aset]; rw [consistentList_cons]; exact ⟨hk, hn, by simp [consistentList]⟩
  | (k', v') :: acc, h => by
    rw [consistentList_cons] at h
    simp only [aset]
    split
    · rw [consistentList_cons]; exact ⟨hk, hn, h.2.2⟩
    · rw [consistentList_cons]; exact ⟨h.1, h.2.1, aset_consistent hn hk h.2.2⟩

theorem parentOK_flags {parent : Option (Flags × CompKind)} {a b : Node} (e : a.flags = b.flags)
    (h : ParentOK parent a) : ParentOK parent b :=
  fun pf pk kw e1 e2 => by rw [← e]; exact h pf pk kw e1 e2

mutual
theorem constructTD_cons (env : Env) : ∀ (parent : Option (Flags × CompKind)) (r : Raw) (n : Node),
    constructTD env parent r = .ok n → FlagsConsistent n = true ∧ ParentOK parent n
  | parent, .scalar t kw v, n, h => by
    cases t
    case none =>
      simp only [constructTD] at h
      cases h
      exact adoptBy_cons parent rfl
    all_goals
      simp only [constructTD] at h
      split at h
      · cases h
      · rename_i m hm
        cases h
        exact adoptBy_cons parent (wrapScalar_cons hm)
  | parent, .seq t kw items, n, h => by
    cases t
    case none =>
      simp only [constructTD] at h
      have ha := adoptBy_cons parent (n := .comp (bareFlags env) .list []) rfl
      split at h
      · rename_i f k cs0 heq
        split at h
        · cases h
        · rename_i cs hcs
          cases h
          rw [heq] at ha
          refine ⟨?_, parentOK_flags rfl ha.2⟩
          simp only [FlagsConsistent]
          exact constructTDList_cons env f k 0 items cs hcs
      · cases h; exact ha
    all_goals
      simp only [constructTD] at h
      split at h
      · cases h
      · rename_i m hm
        cases h
        exact adoptBy_cons parent (constructDeep_cons env _ m hm)
  | parent, .map t kw items, n, h => by
    cases t
    case none =>
      simp only [constructTD] at h
      have ha := adoptBy_cons parent (n := .comp (bareFlags env) .dict []) rfl
      split at h
      · rename_i f k cs0 heq
        split at h
        · cases h
        · rename_i cs hcs
          cases h
          rw [heq] at ha
          refine ⟨?_, parentOK_flags rfl ha.2⟩
          simp only [FlagsConsistent]
          exact constructTDMap_cons env f k items [] cs (by simp [consistentList]) hcs
      · cases h; exact ha
    all_goals
      simp only [constructTD] at h
      split at h
      · cases h
      · rename_i m hm
        cases h
        exact adoptBy_cons parent (constructDeep_cons env _ m hm)
theorem constructTDList_cons (env : Env) (pf : Flags) (pk : CompKind) :
    ∀ (i : Nat) (items : List Raw) (cs : List (Key × Node)),
    constructTDList env pf pk i items = .ok cs → consistentList (childKw pf pk) cs = true
  | _, [], cs, h => by simp only [constructTDList] at h; cases h; simp [consistentList]
  | i, r :: rest, cs, h => by
    simp only [constructTDList] at h
    split at h
    · cases h
    · rename_i n hn
      split at h
      · cases h
      · rename_i ns hns
        cases h
        have hc := constructTD_cons env (some (pf, pk)) r n hn
        rw [consistentList_cons]
        exact ⟨fun kw e => hc.2 pf pk kw rfl e, hc.1, constructTDList_cons env pf pk (i + 1) rest ns hns⟩
theorem constructTDMap_cons (env : Env) (pf : Flags) (pk : CompKind) :
    ∀ (items : List (Key × Raw)) (acc cs : List (Key × Node)),
    consistentList (childKw pf pk) acc = true →
    constructTDMap env pf pk items acc = .ok cs → consistentList (childKw pf pk) cs = true
  | [], acc, cs, hacc, h => by simp only [constructTDMap] at h; cases h; exact hacc
  | (k, r) :: rest, acc, cs, hacc, h => by
    simp only [constructTDMap] at h
    split at h
    · cases h
    · rename_i n hn
      have hc := constructTD_cons env (some (pf, pk)) r n hn
      exact constructTDMap_cons env pf pk rest _ cs
        (aset_consistent hc.1 (fun kw e => hc.2 pf pk kw rfl e) hacc) h
end
theorem consistentList_snoc {kw : Option ChildKw} {key : Key} {n : Node}
    (hn : FlagsConsistent n = true) (hk : ∀ kw', kw = some kw' → childFlagsOK kw' n.flags = true) :
    ∀ {acc : List (Key × Node)}, consistentList kw acc = true → consistentList kw (acc ++ [(key, n)]) = true
  | [], _ => by simp only [List.nil_append]; rw [consistentList_cons]; exact ⟨hk, hn, by simp [consistentList]⟩
  | (k', v') :: acc, h => by
    rw [consistentList_cons] at h
    simp only [List.cons_append]
    rw [consistentList_cons]; exact ⟨h.1, h.2.1, consistentList_snoc hn hk h.2.2⟩


/-! ### AY.Lemmas.C19Merge -/

/-! ### membership form of `consistentList` -/

/-- `kw` prescribes at most what the parent `(pf, pk)` prescribes -/
def KwLe (kw : Option ChildKw) (pf : Flags) (pk : CompKind) : Prop :=
  ∀ kw', kw = some kw' → childKw pf pk = some kw'

theorem kwLe_none (pf : Flags) (pk : CompKind) : KwLe none pf pk := fun _ e => by cases e
theorem kwLe_self (pf : Flags) (pk : CompKind) : KwLe (childKw pf pk) pf pk := fun _ e => e

theorem consistentList_iff (kw : Option ChildKw) : ∀ (cs : List (Key × Node)),
    consistentList kw cs = true ↔
      ∀ kv, kv ∈ cs → (∀ kw', kw = some kw' → childFlagsOK kw' kv.2.flags = true) ∧ FlagsConsistent kv.2 = true
  | [] => by simp [consistentList]
  | (key, c) :: rest => by
    rw [consistentList_cons, consistentList_iff kw rest]
    constructor
    · intro h kv hm
      rcases List.mem_cons.1 hm with rfl | hm
      · exact ⟨h.1, h.2.1⟩
      · exact h.2.2 kv hm
    · intro h
      exact ⟨(h (key, c) (by simp)).1, (h (key, c) (by simp)).2, fun kv hm => h kv (List.mem_cons_of_mem _ hm)⟩

theorem c19_alookup_mem {k : Key} {c : Node} : ∀ {cs : List (Key × Node)}, alookup k cs = some c → (k, c) ∈ cs
  | [], h => by simp [alookup] at h
  | (k', v) :: rest, h => by
    simp only [alookup] at h
    split at h
    · rename_i e; cases h; subst e; simp
    · exact List.mem_cons_of_mem _ (c19_alookup_mem h)

theorem c19_mem_aerase {k : Key} {x : Key × Node} : ∀ {cs : List (Key × Node)}, x ∈ aerase k cs → x ∈ cs
  | [], h => by simp [aerase] at h
  | (k', v) :: rest, h => by
    simp only [aerase] at h
    split at h
    · exact List.mem_cons_of_mem _ h
    · rcases List.mem_cons.1 h with rfl | h
      · simp
      · exact List.mem_cons_of_mem _ (c19_mem_aerase h)

theorem c19_mem_renumFrom {x : Key × Node} : ∀ {i : Nat} {xs : List Node}, x ∈ renumFrom i xs → x.2 ∈ xs
  | _, [], h => by simp [renumFrom] at h
  | i, y :: ys, h => by
    simp only [renumFrom] at h
    rcases List.mem_cons.1 h with rfl | h
    · simp
    · exact List.mem_cons_of_mem _ (c19_mem_renumFrom h)

theorem aerase_consistent {kw : Option ChildKw} (k : Key) {cs : List (Key × Node)}
    (h : consistentList kw cs = true) : consistentList kw (aerase k cs) = true := by
  rw [consistentList_iff] at h ⊢
  exact fun kv hm => h kv (c19_mem_aerase hm)

/-! ### the child mutators -/

theorem getChild_mem {sk : CompKind} {name : Key} {acc : List (Key × Node)} {child : Node}
    (h : getChild sk name acc = some child) : ∃ k, (k, child) ∈ acc := by
  unfold getChild at h
  split at h
  · exact ⟨_, c19_alookup_mem h⟩
  · split at h
    · cases h
    · exact ⟨_, c19_alookup_mem h⟩

theorem getChild_cons {sk : CompKind} {name : Key} {acc : List (Key × Node)} {child : Node}
    (hacc : allConsistent acc = true) (h : getChild sk name acc = some child) : FlagsConsistent child = true := by
  obtain ⟨k, hm⟩ := getChild_mem h
  exact ((consistentList_iff none acc).1 hacc (k, child) hm).2

theorem setChild_cons {kw : Option ChildKw} {pf : Flags} {pk : CompKind} (hle : KwLe kw pf pk) {name : Key}
    {v : Node} {cs cs' : List (Key × Node)} (hv : FlagsConsistent v = true)
    (hcs : consistentList kw cs = true) (h : setChild pf pk name v cs = .ok cs') :
    consistentList kw cs' = true := by
  have ha := adopt_cons pf pk hv
  have hk : ∀ kw', kw = some kw' → childFlagsOK kw' (adopt pf pk v).flags = true :=
    fun kw' e => ha.2 kw' (hle kw' e)
  unfold setChild at h
  split at h
  · cases h; exact aset_consistent ha.1 hk hcs
  · split at h
    · cases h
    · cases h; exact aset_consistent ha.1 hk hcs

theorem listDelAt_cons {kw : Option ChildKw} {pf : Flags} {pk : CompKind} (hle : KwLe kw pf pk) (i : Nat)
    {cs : List (Key × Node)} (hcs : consistentList kw cs = true) :
    consistentList kw (listDelAt pf pk i cs) = true := by
  rw [consistentList_iff] at hcs ⊢
  intro kv hm
  have hm2 := c19_mem_renumFrom hm
  rcases List.mem_append.1 hm2 with h1 | h1
  · obtain ⟨x, hx, e⟩ := List.mem_map.1 h1
    rw [← e]
    exact hcs x (List.mem_of_mem_take hx)
  · obtain ⟨x, hx, e⟩ := List.mem_map.1 h1
    rw [← e]
    have ha := adopt_cons pf pk (hcs x (List.mem_of_mem_drop hx)).2
    exact ⟨fun kw' e' => ha.2 kw' (hle kw' e'), ha.1⟩

theorem removeChild_cons {kw : Option ChildKw} {pf : Flags} {pk : CompKind} (hle : KwLe kw pf pk) {name : Key}
    {cs cs' : List (Key × Node)} (hcs : consistentList kw cs = true)
    (h : removeChild pf pk name cs = some cs') : consistentList kw cs' = true := by
  unfold removeChild at h
  split at h
  · split at h
    · cases h; exact aerase_consistent _ hcs
    · cases h
  · split at h
    · cases h
    · cases h; exact listDelAt_cons hle _ hcs

theorem removeChildE_cons {kw : Option ChildKw} {pf : Flags} {pk : CompKind} (hle : KwLe kw pf pk) {name : Key}
    {cs cs' : List (Key × Node)} (hcs : consistentList kw cs = true)
    (h : removeChildE pf pk name cs = .ok cs') : consistentList kw cs' = true := by
  unfold removeChildE at h
  split at h
  · rename_i cs'' hr; cases h; exact removeChild_cons hle hcs hr
  · cases h

theorem replaceChild_cons (pk : CompKind) (key : Key) {v : Node} {cs : List (Key × Node)}
    (hv : FlagsConsistent v = true) (hcs : allConsistent cs = true) :
    allConsistent (replaceChild pk key v cs) = true := by
  have hk : ∀ kw', (none : Option ChildKw) = some kw' → childFlagsOK kw' v.flags = true := fun _ e => by cases e
  unfold replaceChild
  split
  · exact aset_consistent hv hk hcs
  · split
    · exact aset_consistent hv hk hcs
    · exact hcs

theorem adoptAll_cons (pf : Flags) (pk : CompKind) : ∀ (items acc cs' : List (Key × Node)),
    allConsistent items = true → allConsistent acc = true → adoptAll pf pk items acc = .ok cs' →
    allConsistent cs' = true
  | [], acc, cs', _, hacc, h => by simp only [adoptAll] at h; cases h; exact hacc
  | (k, v) :: rest, acc, cs', hi, hacc, h => by
    rw [allConsistent_cons] at hi
    simp only [adoptAll] at h
    split at h
    · cases h
    · rename_i acc' hs
      exact adoptAll_cons pf pk rest acc' cs' hi.2 (setChild_cons (kwLe_none pf pk) hi.1 hacc hs) h

theorem removeMany_cons {kw : Option ChildKw} {pf : Flags} {pk : CompKind} (hle : KwLe kw pf pk) :
    ∀ (names : List Key) (cs : List (Key × Node)), consistentList kw cs = true →
    consistentList kw (removeMany pf pk names cs) = true
  | [], cs, h => by simpa [removeMany] using h
  | nm :: rest, cs, h => by
    simp only [removeMany]
    split
    · rename_i cs' hr
      exact removeMany_cons hle rest cs' (removeChild_cons hle h hr)
    · exact removeMany_cons hle rest cs h

/-! ### `filter_nodes` -/

theorem filterNode_flags (cond : Path → Node → Bool) (pre : Path) (n : Node) :
    (filterNode cond pre n).1.flags = n.flags := by
  cases n <;> rfl

mutual
theorem filterNode_cons (cond : Path → Node → Bool) : ∀ (pre : Path) (n : Node), FlagsConsistent n = true →
    FlagsConsistent (filterNode cond pre n).1 = true
  | _, .leaf f k, _ => rfl
  | pre, .comp f k cs, h => by
    simp only [FlagsConsistent] at h
    simp only [filterNode, FlagsConsistent]
    exact removeMany_cons (kwLe_self f k) _ _ (filterList_cons cond (childKw f k) pre cs h)
theorem filterList_cons (cond : Path → Node → Bool) (kw : Option ChildKw) : ∀ (pre : Path) (cs : List (Key × Node)),
    consistentList kw cs = true → consistentList kw (dropMarks (filterList cond pre cs).1) = true
  | _, [], _ => by simp [filterList, dropMarks, consistentList]
  | pre, (name, child) :: rest, h => by
    rw [consistentList_cons] at h
    simp only [filterList, dropMarks]
    rw [consistentList_cons]
    refine ⟨?_, filterNode_cons cond (pre ++ [name]) child h.2.1, filterList_cons cond kw pre rest h.2.2⟩
    intro kw' e
    rw [filterNode_flags]
    exact h.1 kw' e
end

/-! ### the merge algebra -/

theorem consistentBelow_setFlags' {n : Node} (f : Flags) (h : ConsistentBelow n = true) :
    ConsistentBelow (n.setFlags f) = true := by
  cases n <;> exact h

theorem leafRule_cons {s o : Node} (hs : ConsistentBelow s = true) (ho : ConsistentBelow o = true) :
    FlagsConsistent (leafRule s o).1 = true := by
  unfold leafRule
  split
  · exact propagate_cons (consistentBelow_setFlags' _ hs)
  · exact propagate_cons (consistentBelow_setFlags' _ ho)

theorem maybePromote_below {sf : Flags} {sk : CompKind} {scs : List (Key × Node)} {o r : Node} {b : Bool}
    (hscs : allConsistent scs = true) (h : maybePromote sf sk scs o = .ok (r, b)) : ConsistentBelow r = true := by
  have nil : allConsistent [] = true := nil_cons
  unfold maybePromote at h
  split at h
  · cases h; exact hscs
  · rename_i of ok ocs
    repeat' split at h
    all_goals first
      | (cases h; exact hscs)
      | (rename_i cs' ha; cases h; exact adoptAll_cons _ _ _ _ _ hscs nil ha)
      | cases h

theorem finishMerge_cons {sf : Flags} {sk : CompKind} {scs : List (Key × Node)} {o r : Node} {b : Bool}
    (hscs : allConsistent scs = true) (h : finishMerge sf sk scs o = .ok (r, b)) : FlagsConsistent r = true := by
  unfold finishMerge at h
  split at h
  · split at h
    · cases h
    · rename_i r' same hp; cases h; exact propagate_cons (maybePromote_below hscs hp)
  · split at h
    · cases h
    · rename_i r' same hp; cases h; exact propagate_cons (maybePromote_below hscs hp)

/-- what the loop needs from the recursive merge -/
def RecCons (rec : Node → Node → Except Err (Node × Bool)) : Prop :=
  ∀ a b r s, FlagsConsistent a = true → FlagsConsistent b = true → rec a b = .ok (r, s) → FlagsConsistent r = true

theorem mergeStep_cons {exc : List Path} {rec : Node → Node → Except Err (Node × Bool)} (hrec : RecCons rec) {sf : Flags}
    {sk : CompKind} {acc acc' : List (Key × Node)} {kv : Key × Node} (hacc : allConsistent acc = true)
    (hkv : FlagsConsistent kv.2 = true) (h : mergeStep rec sf sk exc acc kv = .ok acc') :
    allConsistent acc' = true := by
  have hle := kwLe_none sf sk
  unfold mergeStep at h
  split at h
  · split at h
    · cases h
    · exact setChild_cons hle hkv hacc h
  · rename_i child hg
    have hchild := getChild_cons hacc hg
    split at h
    · cases h
    · rename_i nw same hr
      have hnw := hrec _ _ _ _ hchild hkv hr
      split at h
      · split at h
        · exact removeChildE_cons hle hacc h
        · split at h
          · cases h; exact replaceChild_cons _ _ hnw hacc
          · exact setChild_cons hle hnw hacc h
      · split at h
        · cases h; exact replaceChild_cons _ _ hnw hacc
        · split at h
          · cases h
          · split at h
            · exact removeChildE_cons hle hacc h
            · exact setChild_cons hle hnw hacc h

theorem mergeLoop_cons {exc : List Path} {rec : Node → Node → Except Err (Node × Bool)} (hrec : RecCons rec) (sf : Flags)
    (sk : CompKind) : ∀ (acc ocs acc' : List (Key × Node)), allConsistent acc = true → allConsistent ocs = true →
    mergeLoop rec sf sk exc acc ocs = .ok acc' → allConsistent acc' = true
  | acc, [], acc', hacc, _, h => by simp only [mergeLoop] at h; cases h; exact hacc
  | acc, kv :: rest, acc', hacc, ho, h => by
    obtain ⟨k, v⟩ := kv
    rw [allConsistent_cons] at ho
    simp only [mergeLoop] at h
    split at h
    · cases h
    · rename_i acc1 hs
      exact mergeLoop_cons hrec sf sk acc1 rest acc' (mergeStep_cons hrec hacc ho.1 hs) ho.2 h

theorem filterNode_below (cond : Path → Node → Bool) (pre : Path) (f : Flags) (k : CompKind)
    {cs : List (Key × Node)} (h : allConsistent cs = true) :
    allConsistent (filterNode cond pre (.comp f k cs)).1.children = true := by
  simp only [filterNode, Node.children]
  exact removeMany_cons (kwLe_none f k) _ _ (filterList_cons cond none pre cs h)

theorem compMerge_cons {rec : Node → Node → Except Err (Node × Bool)} (hrec : RecCons rec) {sf : Flags}
    {sk : CompKind} {scs : List (Key × Node)} {o r : Node} {b : Bool} (hscs : allConsistent scs = true)
    (ho : FlagsConsistent o = true) (h : compMerge rec sf sk scs o = .ok (r, b)) : FlagsConsistent r = true := by
  cases o with
  | leaf of lk =>
    simp only [compMerge, Except.ok.injEq] at h
    have e1 : r = (leafRule (.comp sf sk scs) (.leaf of lk)).1 := by rw [h]
    subst e1
    exact leafRule_cons hscs rfl
  | comp of ok ocs =>
    have hocs : allConsistent ocs = true := by
      simp only [FlagsConsistent] at ho; exact consistentList_weaken ho
    simp only [compMerge] at h
    split at h
    · split at h
      · split at h
        · cases h
        · split at h
          · cases h
          · rename_i res sameAsOther hp
            cases h
            exact propagate_cons (maybePromote_below hocs hp)
      · split at h
        · cases h
        · rename_i scs' hl
          exact finishMerge_cons (mergeLoop_cons hrec sf sk _ ocs scs' (filterNode_below _ _ sf sk hscs) hocs hl) h
    · split at h
      · cases h
      · rename_i scs' hl
        exact finishMerge_cons (mergeLoop_cons hrec sf sk _ ocs scs' hscs hocs hl) h

theorem listMerge_cons {rec : Node → Node → Except Err (Node × Bool)} (hrec : RecCons rec) {sf : Flags}
    {sk : CompKind} {scs : List (Key × Node)} {o r : Node} {b : Bool} (hscs : allConsistent scs = true)
    (ho : FlagsConsistent o = true) (h : listMerge rec sf sk scs o = .ok (r, b)) : FlagsConsistent r = true := by
  cases o with
  | leaf of lk => exact compMerge_cons hrec hscs ho (by simpa only [listMerge] using h)
  | comp of ok ocs =>
    simp only [listMerge] at h
    split at h
    · cases h
    · exact compMerge_cons hrec hscs (filterNode_cons _ _ _ ho) h

theorem comp_propagate_cons (f : Flags) (k : CompKind) {cs : List (Key × Node)} (h : allConsistent cs = true) :
    FlagsConsistent (propagate (.comp f k cs)) = true :=
  propagate_cons (n := .comp f k cs) h

theorem funcMerge_cons {rec : Node → Node → Except Err (Node × Bool)} (hrec : RecCons rec) {sf : Flags}
    {sk : CompKind} {f : String} {scs : List (Key × Node)} {o r : Node} {b : Bool}
    (hscs : allConsistent scs = true) (ho : FlagsConsistent o = true)
    (h : funcMerge rec sf sk f scs o = .ok (r, b)) : FlagsConsistent r = true := by
  cases o with
  | leaf of lk =>
    simp only [funcMerge] at h
    split at h
    · split at h
      · split at h
        · cases h; exact comp_propagate_cons _ _ nil_cons
        · cases h; exact comp_propagate_cons _ _ hscs
      · cases h; exact comp_propagate_cons _ _ hscs
    · exact compMerge_cons hrec hscs ho h
  | comp of ok ocs =>
    simp only [funcMerge] at h
    split at h
    · exact compMerge_cons hrec hscs ho h
    · split at h
      · split at h
        · cases h; exact comp_propagate_cons _ _ hscs
        · refine compMerge_cons hrec ?_ ho h
          split
          · exact nil_cons
          · exact hscs
      · exact compMerge_cons hrec hscs ho h

/-- `on_merge` keeps trees consistent, at every fuel -/
theorem mergeF_cons : ∀ (fuel : Nat), RecCons (mergeF fuel)
  | 0 => fun a b r s _ _ h => by simp [mergeF] at h
  | fuel + 1 => fun a b r s ha hb h => by
    have ih := mergeF_cons fuel
    cases a with
    | leaf f k =>
      simp only [mergeF, Except.ok.injEq] at h
      have e1 : r = (leafRule (.leaf f k) b).1 := by rw [h]
      subst e1
      exact leafRule_cons rfl (consistentBelow_of_consistent hb)
    | comp sf sk scs =>
      have hscs : allConsistent scs = true := by
        simp only [FlagsConsistent] at ha; exact consistentList_weaken ha
      cases sk with
      | dict => exact compMerge_cons ih hscs hb (by simpa only [mergeF] using h)
      | call g => exact funcMerge_cons ih hscs hb (by simpa only [mergeF] using h)
      | bind g => exact funcMerge_cons ih hscs hb (by simpa only [mergeF] using h)
      | list => exact listMerge_cons ih hscs hb (by simpa only [mergeF] using h)
      | append => exact listMerge_cons ih hscs hb (by simpa only [mergeF] using h)
      | extend => exact listMerge_cons ih hscs hb (by simpa only [mergeF] using h)
      | path p => exact listMerge_cons ih hscs hb (by simpa only [mergeF] using h)
      | stream => exact listMerge_cons ih hscs hb (by simpa only [mergeF] using h)

theorem merge_cons {a b m : Node} (ha : FlagsConsistent a = true) (hb : FlagsConsistent b = true)
    (h : merge a b = .ok m) : FlagsConsistent m = true := by
  unfold merge at h
  split at h
  · cases h
  · rename_i r s hm
    cases h
    exact mergeF_cons _ a b _ s ha hb hm


/-! ### AY.Lemmas.C19Flatten -/

/-! ### lookups and in-place updates -/

theorem alookup_cons_of_consistent {kw : Option ChildKw} {key : Key} {c : Node} {cs : List (Key × Node)}
    (h : consistentList kw cs = true) (hl : alookup key cs = some c) :
    (∀ kw', kw = some kw' → childFlagsOK kw' c.flags = true) ∧ FlagsConsistent c = true :=
  (consistentList_iff kw cs).1 h (key, c) (c19_alookup_mem hl)

theorem getNode_cons : ∀ (p : Path) (root n : Node), FlagsConsistent root = true → getNode root p = some n →
    FlagsConsistent n = true
  | [], root, n, h, hg => by simp only [getNode, Option.some.injEq] at hg; subst hg; exact h
  | key :: rest, .leaf f k, n, _, hg => by simp [getNode] at hg
  | key :: rest, .comp f k cs, n, h, hg => by
    simp only [FlagsConsistent] at h
    simp only [getNode] at hg
    split at hg
    · cases hg
    · rename_i c hl
      exact getNode_cons rest c n (alookup_cons_of_consistent h hl).2 hg

theorem setNodeAt_cons : ∀ (p : Path) (root old v : Node), FlagsConsistent root = true → FlagsConsistent v = true →
    getNode root p = some old → v.flags = old.flags →
    FlagsConsistent (setNodeAt root p v) = true ∧ (setNodeAt root p v).flags = root.flags
  | [], root, old, v, _, hv, hg, hf => by
    simp only [getNode, Option.some.injEq] at hg; subst hg
    exact ⟨by simpa [setNodeAt] using hv, by simpa [setNodeAt] using hf⟩
  | key :: rest, .leaf f k, old, v, _, _, hg, _ => by simp [getNode] at hg
  | key :: rest, .comp f k cs, old, v, h, hv, hg, hf => by
    simp only [FlagsConsistent] at h
    simp only [getNode] at hg
    simp only [setNodeAt]
    split at hg
    · cases hg
    · rename_i c hl
      have hc := alookup_cons_of_consistent h hl
      have ih := setNodeAt_cons rest c old v hc.2 hv hg hf
      simp only [hl, FlagsConsistent, Node.flags, and_true]
      exact aset_consistent ih.1 (fun kw' e => by rw [ih.2]; exact hc.1 kw' e) h

theorem removeNode_cons : ∀ (p : Path) (root d root' : Node), FlagsConsistent root = true →
    removeNode root p = some (d, root') →
    FlagsConsistent d = true ∧ FlagsConsistent root' = true ∧ root'.flags = root.flags
  | [], root, d, root', _, hr => by simp [removeNode] at hr
  | _ :: _, .leaf f k, d, root', _, hr => by simp [removeNode] at hr
  | [key], .comp f k cs, d, root', h, hr => by
    simp only [FlagsConsistent] at h
    simp only [removeNode] at hr
    split at hr
    · cases hr
    · rename_i c hl
      split at hr
      · cases hr
      · rename_i cs' hrm
        simp only [Option.some.injEq, Prod.mk.injEq] at hr
        obtain ⟨rfl, rfl⟩ := hr
        refine ⟨(alookup_cons_of_consistent h hl).2, ?_, rfl⟩
        simp only [FlagsConsistent]
        exact removeChild_cons (kwLe_self f k) h hrm
  | key :: k2 :: rest, .comp f k cs, d, root', h, hr => by
    simp only [FlagsConsistent] at h
    simp only [removeNode] at hr
    split at hr
    · cases hr
    · rename_i c hl
      have hc := alookup_cons_of_consistent h hl
      split at hr
      · cases hr
      · rename_i d' c' hrec
        simp only [Option.some.injEq, Prod.mk.injEq] at hr
        obtain ⟨rfl, rfl⟩ := hr
        have ih := removeNode_cons (k2 :: rest) c d' c' hc.2 hrec
        refine ⟨ih.1, ?_, rfl⟩
        simp only [FlagsConsistent]
        exact aset_consistent ih.2.1 (fun kw' e => by rw [ih.2.2]; exact hc.1 kw' e) h

/-! ### nodes created while flattening -/

theorem allConsistent_map_snd {cs : List (Key × Node)} (h : allConsistent cs = true) :
    ∀ v, v ∈ cs.map (·.2) → FlagsConsistent v = true := by
  intro v hv
  obtain ⟨x, hx, rfl⟩ := List.mem_map.1 hv
  exact ((consistentList_iff none cs).1 h x hx).2

theorem newPlainList_cons (f : Flags) {vals : List Node} (h : ∀ v, v ∈ vals → FlagsConsistent v = true) :
    FlagsConsistent (newPlainList f vals) = true := by
  simp only [newPlainList]
  apply propagate_cons
  simp only [ConsistentBelow, allConsistent]
  rw [consistentList_iff]
  intro kv hm
  have hm2 := c19_mem_renumFrom hm
  obtain ⟨x, hx, e⟩ := List.mem_map.1 hm2
  rw [← e]
  have hi := inheritInto_cons none (childKw freshFlags .list) (h x hx)
  exact ⟨fun kw' e' => (by cases e'), hi.1⟩

theorem extendList_cons (f : Flags) (k : CompKind) : ∀ (vals : List Node) (cs : List (Key × Node)),
    (∀ v, v ∈ vals → FlagsConsistent v = true) → consistentList (childKw f k) cs = true →
    consistentList (childKw f k) (extendList f k cs vals) = true
  | [], cs, _, h => by simpa [extendList] using h
  | v :: rest, cs, hv, h => by
    simp only [extendList]
    have ha := adopt_cons f k (hv v (by simp))
    exact extendList_cons f k rest _ (fun w hw => hv w (List.mem_cons_of_mem _ hw)) (consistentList_snoc ha.1 ha.2 h)

theorem applyResets_cons (pf : Flags) (pk : CompKind) : ∀ (resets cs cs' : List (Key × Node)),
    allConsistent resets = true → consistentList (childKw pf pk) cs = true →
    applyResets pf pk resets cs = .ok cs' → consistentList (childKw pf pk) cs' = true
  | [], cs, cs', _, hcs, h => by simp only [applyResets] at h; cases h; exact hcs
  | (k, v) :: rest, cs, cs', hr, hcs, h => by
    rw [allConsistent_cons] at hr
    simp only [applyResets] at h
    split at h
    · cases h
    · rename_i cs1 hs
      exact applyResets_cons pf pk rest cs1 cs' hr.2 (setChild_cons (kwLe_self pf pk) hr.1 hcs hs) h

/-! ### the pre-merge pass and the fold -/

/-- the accumulated tree, when there is one, is consistent -/
def IntoCons (into : Option Node) : Prop := ∀ root, into = some root → FlagsConsistent root = true

theorem intoCons_none : IntoCons none := fun _ e => by cases e
theorem intoCons_some {root : Node} (h : FlagsConsistent root = true) : IntoCons (some root) :=
  fun _ e => by cases e; exact h

/-- what the fold needs from a premerge: the replacement node is consistent, keeps the flags when it
    is the same object, and the accumulated tree stays consistent -/
def PMCons (pm : Node → Path → Option Node → PM) : Prop :=
  ∀ n path into r same into', FlagsConsistent n = true → IntoCons into → pm n path into = .ok (r, same, into') →
    FlagsConsistent r = true ∧ (same = true → r.flags = n.flags) ∧ IntoCons into'

theorem premergeChildren_cons {rec : Node → Path → Option Node → PM} (hrec : PMCons rec) (kw : Option ChildKw)
    (path : Path) : ∀ (cs : List (Key × Node)) (into : Option Node) (cs' resets : List (Key × Node))
    (into' : Option Node), consistentList kw cs = true → IntoCons into →
    premergeChildren rec path cs into = .ok (cs', resets, into') →
    consistentList kw cs' = true ∧ allConsistent resets = true ∧ IntoCons into'
  | [], into, cs', resets, into', _, hi, h => by
    simp only [premergeChildren, Except.ok.injEq, Prod.mk.injEq] at h
    obtain ⟨rfl, rfl, rfl⟩ := h
    exact ⟨by simp [consistentList], nil_cons, hi⟩
  | (name, c) :: rest, into, cs', resets, into', hcs, hi, h => by
    rw [consistentList_cons] at hcs
    simp only [premergeChildren] at h
    split at h
    · cases h
    · rename_i c' same into1 hr
      have h1 := hrec _ _ _ _ _ _ hcs.2.1 hi hr
      split at h
      · cases h
      · rename_i cs1 resets1 into2 hrest
        have ih := premergeChildren_cons hrec kw path rest into1 cs1 resets1 into2 hcs.2.2 h1.2.2 hrest
        split at h
        · rename_i hsame
          simp only [Except.ok.injEq, Prod.mk.injEq] at h
          obtain ⟨rfl, rfl, rfl⟩ := h
          refine ⟨?_, ih.2.1, ih.2.2⟩
          rw [consistentList_cons]
          exact ⟨fun kw' e => by rw [h1.2.1 hsame]; exact hcs.1 kw' e, h1.1, ih.1⟩
        · simp only [Except.ok.injEq, Prod.mk.injEq] at h
          obtain ⟨rfl, rfl, rfl⟩ := h
          refine ⟨?_, ?_, ih.2.2⟩
          · rw [consistentList_cons]; exact ⟨hcs.1, hcs.2.1, ih.1⟩
          · rw [allConsistent_cons]; exact ⟨h1.1, ih.2.1⟩

theorem flattenLoop_cons {pm : Node → Path → Option Node → PM} (hpm : PMCons pm) :
    ∀ (stages : List Node) (root r : Node), FlagsConsistent root = true →
    (∀ s, s ∈ stages → FlagsConsistent s = true) → flattenLoop pm root stages = .ok r → FlagsConsistent r = true
  | [], root, r, hroot, _, h => by simp only [flattenLoop] at h; cases h; exact hroot
  | st :: rest, root, r, hroot, hs, h => by
    simp only [flattenLoop] at h
    split at h
    · cases h
    · rename_i st' same into' hp
      have h1 := hpm _ _ _ _ _ _ (hs st (by simp)) (intoCons_some hroot) hp
      split at h
      · cases h
      · rename_i root'
        split at h
        · cases h
        · rename_i m hm
          exact flattenLoop_cons hpm rest m r (merge_cons (h1.2.2 root' rfl) h1.1 hm)
            (fun s hs' => hs s (List.mem_cons_of_mem _ hs')) h

theorem flattenWith_cons {pm : Node → Path → Option Node → PM} (hpm : PMCons pm) (stages : List Node) (r : Node)
    (hs : ∀ s, s ∈ stages → FlagsConsistent s = true) (h : flattenWith pm stages = .ok r) :
    FlagsConsistent r = true := by
  cases stages with
  | nil => simp [flattenWith] at h
  | cons s0 rest =>
    simp only [flattenWith] at h
    split at h
    · cases h
    · split at h
      · cases h
      · rename_i r0 same into' hp
        have h1 := hpm _ _ _ _ _ _ (hs s0 (by simp)) intoCons_none hp
        split at h
        · cases h
        · exact flattenLoop_cons hpm rest r0 r h1.1 (fun s hs' => hs s (List.mem_cons_of_mem _ hs')) h

theorem premergeF_comp_generic {fuel : Nat} (ih : PMCons (premergeF fuel)) {f : Flags} {k : CompKind}
    {cs cs' resets cs'' : List (Key × Node)} {path : Path} {into into1 : Option Node}
    (hn : FlagsConsistent (.comp f k cs) = true) (hi : IntoCons into)
    (hc : premergeChildren (premergeF fuel) path cs into = .ok (cs', resets, into1))
    (ha : applyResets f k resets cs' = .ok cs'') :
    FlagsConsistent (.comp f k cs'') = true ∧ IntoCons into1 := by
  simp only [FlagsConsistent] at hn ⊢
  have h1 := premergeChildren_cons ih (childKw f k) path cs into cs' resets into1 hn hi hc
  exact ⟨applyResets_cons f k resets cs' cs'' h1.2.1 h1.1 ha, h1.2.2⟩

theorem premergeF_cons : ∀ (fuel : Nat), PMCons (premergeF fuel)
  | 0 => fun n path into r same into' _ _ h => by simp [premergeF] at h
  | fuel + 1 => fun n path into r same into' hn hi h => by
    have ih := premergeF_cons fuel
    cases n with
    | leaf f lk =>
      cases lk with
      | prev p =>
        simp only [premergeF] at h
        split at h
        · rename_i root tp _
          split at h
          · cases h
          · rename_i d root' hr
            simp only [Except.ok.injEq, Prod.mk.injEq] at h
            obtain ⟨rfl, rfl, rfl⟩ := h
            have := removeNode_cons tp root d root' (hi root rfl) hr
            exact ⟨this.1, (fun e => by cases e), intoCons_some this.2.1⟩
        · cases h
      | clear =>
        simp only [premergeF] at h
        split at h
        · cases h
        · rename_i root
          split at h
          · rename_i cf ck ccs hg
            simp only [Except.ok.injEq, Prod.mk.injEq] at h
            obtain ⟨rfl, rfl, rfl⟩ := h
            have hv : FlagsConsistent (.comp cf ck []) = true := by simp [FlagsConsistent, consistentList]
            exact ⟨hv, (fun e => by cases e),
              intoCons_some (setNodeAt_cons path root _ _ (hi root rfl) hv hg rfl).1⟩
          · cases h
      | _ =>
        simp only [premergeF, Except.ok.injEq, Prod.mk.injEq] at h
        obtain ⟨rfl, rfl, rfl⟩ := h
        exact ⟨rfl, fun _ => rfl, hi⟩
    | comp f k cs =>
      have hvals : ∀ v, v ∈ cs.map (·.2) → FlagsConsistent v = true := by
        simp only [FlagsConsistent] at hn
        exact allConsistent_map_snd (consistentList_weaken hn)
      cases k with
      | append =>
        simp only [premergeF] at h
        split at h
        · simp only [Except.ok.injEq, Prod.mk.injEq] at h
          obtain ⟨rfl, rfl, rfl⟩ := h
          exact ⟨newPlainList_cons _ hvals, (fun e => by cases e), intoCons_none⟩
        · rename_i root
          split at h
          · cases h
          · rename_i tf tk tcs root' hr
            have hrm := removeNode_cons path root _ root' (hi root rfl) hr
            split at h
            · simp only [Except.ok.injEq, Prod.mk.injEq] at h
              obtain ⟨rfl, rfl, rfl⟩ := h
              refine ⟨?_, (fun e => by cases e), intoCons_some hrm.2.1⟩
              have ht := hrm.1
              simp only [FlagsConsistent] at ht ⊢
              exact extendList_cons tf tk _ tcs hvals ht
            · cases h
          · cases h
      | extend =>
        simp only [premergeF] at h
        split at h
        · simp only [Except.ok.injEq, Prod.mk.injEq] at h
          obtain ⟨rfl, rfl, rfl⟩ := h
          exact ⟨newPlainList_cons _ hvals, (fun e => by cases e), intoCons_none⟩
        · rename_i root
          split at h
          · rename_i tf tk tcs hg
            have ht := getNode_cons path root _ (hi root rfl) hg
            split at h
            · split at h
              · cases h
              · rename_i d root' hr
                have hrm := removeNode_cons path root d root' (hi root rfl) hr
                simp only [Except.ok.injEq, Prod.mk.injEq] at h
                obtain ⟨rfl, rfl, rfl⟩ := h
                refine ⟨?_, (fun e => by cases e), intoCons_some hrm.2.1⟩
                simp only [FlagsConsistent] at ht ⊢
                exact extendList_cons tf tk _ tcs hvals ht
            · simp only [Except.ok.injEq, Prod.mk.injEq] at h
              obtain ⟨rfl, rfl, rfl⟩ := h
              exact ⟨newPlainList_cons _ hvals, (fun e => by cases e), hi⟩
          · simp only [Except.ok.injEq, Prod.mk.injEq] at h
            obtain ⟨rfl, rfl, rfl⟩ := h
            exact ⟨newPlainList_cons _ hvals, (fun e => by cases e), hi⟩
      | stream =>
        simp only [premergeF] at h
        split at h
        · cases h
        · cases h
        · rename_i r0 hf
          have hr0 := flattenWith_cons ih _ r0 hvals hf
          split at h
          · cases h
          · rename_i r' same' into1 hp
            simp only [Except.ok.injEq, Prod.mk.injEq] at h
            obtain ⟨rfl, rfl, rfl⟩ := h
            have := ih _ _ _ _ _ _ hr0 hi hp
            exact ⟨this.1, (fun e => by cases e), this.2.2⟩
      | _ =>
        simp only [premergeF] at h
        split at h
        · cases h
        · rename_i cs' resets into1 hc
          split at h
          · cases h
          · rename_i cs'' ha
            simp only [Except.ok.injEq, Prod.mk.injEq] at h
            obtain ⟨rfl, rfl, rfl⟩ := h
            have := premergeF_comp_generic ih hn hi hc ha
            exact ⟨this.1, fun _ => rfl, this.2⟩

theorem flatten_cons (stages : List Node) (r : Node) (hs : ∀ s, s ∈ stages → FlagsConsistent s = true)
    (h : flatten stages = .ok r) : FlagsConsistent r = true :=
  flattenWith_cons (premergeF_cons _) stages r hs h


end AY.C15W
