/-
  AY.Lemmas.XrefLemmas — lemmas about `xrefLoop` (XRefNode.on_evaluate_impl) for C09.

  * `xrefStep`: one iteration of the loop, `xrefLoop_succ` the unfolding.
  * `xrefTexts`: all `!xref` texts of a tree; pigeonhole `nodup_subset_length_le`;
    `xrefLoop_fuel_irrelevant`: more fuel than distinct texts changes nothing.
  * `xrefTarget`: the path a chain of references ends in (pure); `xrefLoop_alias`.
-/
import AY.Lemmas.EvalLemmas
namespace AY

/-! ### one iteration -/

inductive XStep where
  | done (r : EvR Val)
  | next (t : String) (st : EvSt)

/-- one iteration of `xrefLoop`: a final result or the text of the next reference and the state to
    continue with (a lookup that finds a node leaves the state unchanged, `ctxGetNode_ok_inv`; an
    unsafe reference that is followed is an error in strict mode and bumps the counter otherwise) -/
def xrefStep (rec : Rec) (root : Node) (rs : Bool) (self : Path) (cur : String)
    (chain : List String) (st : EvSt) : XStep :=
  match splitPath cur with
  | none => .done (.error .eval)
  | some tp =>
    match ctxGetNode root rs tp st with
    | .error e => .done (.error e)
    | .ok (.value v, st1) => .done (if chain.contains cur then .error .eval else .ok (v, st1))
    | .ok (.node n, _) =>
      if chain.contains cur || tp = self then .done (.error .eval)
      else
        match n with
        | .leaf f (.xref next) =>
          if !eSafe f then
            if rs then .done (.error .unsafeE) else .next next (seeTaint st)
          else .next next st
        | _ => .done (rec rs n tp st)

theorem xrefLoop_succ (rec : Rec) (root : Node) (rs : Bool) (self : Path) (fuel : Nat) (cur : String)
    (chain : List String) (st : EvSt) :
    xrefLoop rec root rs self (fuel + 1) cur chain st =
      match xrefStep rec root rs self cur chain st with
      | .done r => r
      | .next t s1 => xrefLoop rec root rs self fuel t (chain ++ [cur]) s1 := by
  rw [xrefLoop]
  unfold xrefStep
  cases splitPath cur with
  | none => rfl
  | some tp =>
    simp only
    cases hg : ctxGetNode root rs tp st with
    | error e => rfl
    | ok r =>
      obtain ⟨g, st1⟩ := r
      cases g with
      | value v => rfl
      | node n =>
        have : st1 = st := by
          rcases ctxGetNode_ok_inv hg with ⟨_, hn, _⟩ | ⟨_, _, _, _, e⟩
          · cases hn
          · exact e
        subst this
        simp only
        split
        · rfl
        · cases n with
          | leaf f lk =>
            cases lk with
            | xref next =>
              simp only
              split
              · split <;> rfl
              · rfl
            | _ => rfl
          | comp f k cs => rfl

/-- what a continuing iteration tells -/
theorem xrefStep_next {rec : Rec} {root : Node} {rs : Bool} {self : Path} {cur : String}
    {chain : List String} {st s1 : EvSt} {t : String}
    (h : xrefStep rec root rs self cur chain st = .next t s1) :
    cur ∉ chain ∧ ∃ tp f, splitPath cur = some tp ∧ tp ≠ self ∧ plookup tp st.cache = none ∧
      getNode root tp = some (.leaf f (.xref t)) := by
  unfold xrefStep at h
  split at h
  · cases h
  · rename_i tp htp
    split at h
    · cases h
    · cases h
    · rename_i n st1 hg
      split at h
      · cases h
      · rename_i hc
        simp only [Bool.or_eq_true, List.contains_iff_mem, decide_eq_true_eq, not_or] at hc
        split at h
        · rename_i f nx
          have hres : plookup tp st.cache = none ∧ getNode root tp = some (.leaf f (.xref nx)) := by
            rcases ctxGetNode_ok_inv hg with ⟨_, hn, _⟩ | ⟨n', hn, hnone, hn', _⟩
            · cases hn
            · cases hn; exact ⟨hnone, hn'⟩
          split at h
          · split at h
            · cases h
            · cases h; exact ⟨hc.1, tp, f, htp, hc.2, hres⟩
          · cases h; exact ⟨hc.1, tp, f, htp, hc.2, hres⟩
        · cases h

/-- the state a continuing iteration goes on with: unchanged after a safe reference; after an unsafe
    one (followed in non-strict mode only) the counter of unsafe content seen is bumped -/
theorem xrefStep_next_state {rec : Rec} {root : Node} {rs : Bool} {self : Path} {cur : String}
    {chain : List String} {st s1 : EvSt} {t : String}
    (h : xrefStep rec root rs self cur chain st = .next t s1) :
    ∃ tp f, splitPath cur = some tp ∧ getNode root tp = some (.leaf f (.xref t)) ∧
      ((eSafe f = true ∧ s1 = st) ∨ (eSafe f = false ∧ rs = false ∧ s1 = seeTaint st)) := by
  unfold xrefStep at h
  split at h
  · cases h
  · rename_i tp htp
    split at h
    · cases h
    · cases h
    · rename_i n st1 hg
      split at h
      · cases h
      · split at h
        · rename_i f nx
          have hres : getNode root tp = some (.leaf f (.xref nx)) := by
            rcases ctxGetNode_ok_inv hg with ⟨_, hn, _⟩ | ⟨n', hn, _, hn', _⟩
            · cases hn
            · cases hn; exact hn'
          split at h
          · rename_i hs
            split at h
            · cases h
            · rename_i hrs
              cases h
              exact ⟨tp, f, htp, hres, .inr ⟨by simpa using hs, by simpa using hrs, rfl⟩⟩
          · rename_i hs
            cases h
            exact ⟨tp, f, htp, hres, .inl ⟨by simpa using hs, rfl⟩⟩
        · cases h

theorem ctxGetNode_error {root : Node} {rs : Bool} {p : Path} {st : EvSt} {e : Err}
    (h : ctxGetNode root rs p st = .error e) : e = .eval ∨ e = .unsafeE := by
  unfold ctxGetNode at h
  split at h
  · split at h
    · split at h
      · cases h; exact .inr rfl
      · cases h
    · cases h
  · split at h
    · cases h; exact .inl rfl
    · cases h

/-- a repeated text ends the loop with an error -/
theorem xrefStep_repeat {rec : Rec} {root : Node} {rs : Bool} {self : Path} {cur : String}
    {chain : List String} {st : EvSt} (hc : cur ∈ chain) :
    ∃ e, xrefStep rec root rs self cur chain st = .done (.error e) ∧ (e = .eval ∨ e = .unsafeE) := by
  unfold xrefStep
  split
  · exact ⟨_, rfl, .inl rfl⟩
  · rename_i tp _
    split
    · rename_i e he
      exact ⟨e, rfl, ctxGetNode_error he⟩
    · simp [hc]
    · simp [hc]

/-! ### texts of the tree and the pigeonhole -/

mutual
/-- the texts of all `!xref` nodes of a tree -/
def xrefTexts : Node → List String
  | .leaf _ (.xref t) => [t]
  | .leaf .. => []
  | .comp _ _ cs => xrefTextsList cs
def xrefTextsList : List (Key × Node) → List String
  | [] => []
  | (_, c) :: rest => xrefTexts c ++ xrefTextsList rest
end

mutual
theorem xrefTexts_length_le : ∀ n : Node, (xrefTexts n).length ≤ n.size
  | .leaf _ lk => by
    cases lk <;> simp [xrefTexts, Node.size]
  | .comp _ _ cs => by
    have := xrefTextsList_length_le cs
    simp only [xrefTexts, Node.size]; omega
theorem xrefTextsList_length_le : ∀ cs : List (Key × Node), (xrefTextsList cs).length ≤ sizeList cs
  | [] => by simp [xrefTextsList, sizeList]
  | (_, c) :: rest => by
    have h1 := xrefTexts_length_le c
    have h2 := xrefTextsList_length_le rest
    simp only [xrefTextsList, sizeList, List.length_append]; omega
end

/-- a composed root has strictly more nodes than reference texts -/
theorem xrefTexts_length_lt_comp (f : Flags) (k : CompKind) (cs : List (Key × Node)) :
    (xrefTexts (.comp f k cs)).length < (Node.comp f k cs).size := by
  have := xrefTextsList_length_le cs
  simp only [xrefTexts, Node.size]; omega

theorem xrefTextsList_mem {t : String} {key : Key} {c : Node} :
    ∀ {cs : List (Key × Node)}, (key, c) ∈ cs → t ∈ xrefTexts c → t ∈ xrefTextsList cs
  | [], h, _ => by cases h
  | (k', c') :: rest, h, ht => by
    simp only [xrefTextsList, List.mem_append]
    rcases List.mem_cons.1 h with heq | h
    · cases heq; exact .inl ht
    · exact .inr (xrefTextsList_mem h ht)

theorem getNode_xref_mem {t : String} {f : Flags} :
    ∀ (tp : Path) (n : Node), getNode n tp = some (.leaf f (.xref t)) → t ∈ xrefTexts n
  | [], n, h => by
    simp [getNode] at h; subst h; simp [xrefTexts]
  | _ :: _, .leaf .., h => by simp [getNode] at h
  | key :: rest, .comp _ _ cs, h => by
    unfold getNode at h
    split at h
    · cases h
    · rename_i c hc
      simp only [xrefTexts]
      exact xrefTextsList_mem (alookup_mem hc) (getNode_xref_mem rest c h)

/-- pigeonhole: a duplicate-free list inside another list is not longer -/
theorem nodup_subset_length_le {α : Type} [DecidableEq α] :
    ∀ (l m : List α), l.Nodup → (∀ a, a ∈ l → a ∈ m) → l.length ≤ m.length
  | [], m, _, _ => by simp
  | a :: l, m, hnd, hsub => by
    have hnd' := List.nodup_cons.1 hnd
    have ham : a ∈ m := hsub a List.mem_cons_self
    have hsub' : ∀ b, b ∈ l → b ∈ m.erase a := by
      intro b hb
      have hne : b ≠ a := fun e => hnd'.1 (e ▸ hb)
      exact (List.mem_erase_of_ne hne).2 (hsub b (List.mem_cons_of_mem _ hb))
    have ih := nodup_subset_length_le l (m.erase a) hnd'.2 hsub'
    have hlen := List.length_erase_of_mem ham
    have hpos : 0 < m.length := List.length_pos_of_mem ham
    simp only [List.length_cons]; omega

/-- With more fuel than there are distinct reference texts the loop never runs out of fuel:
    any additional fuel gives the same result. `M` is any list containing the texts of the tree
    and the text the loop was started with. -/
theorem xrefLoop_fuel_irrelevant (rec : Rec) (root : Node) (rs : Bool) (self : Path) (M : List String)
    (hM : ∀ t, t ∈ xrefTexts root → t ∈ M) (k : Nat) :
    ∀ (fuel : Nat) (cur : String) (chain : List String) (st : EvSt),
    chain.Nodup → (∀ t, t ∈ chain ++ [cur] → t ∈ M) →
    M.length + 1 ≤ fuel + chain.length →
    xrefLoop rec root rs self (fuel + k) cur chain st = xrefLoop rec root rs self fuel cur chain st
  | 0, cur, chain, st, hnd, hsub, hlen => by
    exfalso
    have := nodup_subset_length_le chain M hnd (fun a ha => hsub a (List.mem_append_left _ ha))
    omega
  | fuel + 1, cur, chain, st, hnd, hsub, hlen => by
    rw [Nat.add_right_comm, xrefLoop_succ, xrefLoop_succ]
    cases hstep : xrefStep rec root rs self cur chain st with
    | done r => rfl
    | next t s1 =>
      obtain ⟨hnc, tp, f, _, _, _, hg⟩ := xrefStep_next hstep
      simp only
      apply xrefLoop_fuel_irrelevant rec root rs self M hM k fuel t (chain ++ [cur]) s1
      · rw [List.nodup_append]
        refine ⟨hnd, by simp, ?_⟩
        intro a ha b hb
        simp at hb; subst hb
        intro e; exact hnc (e ▸ ha)
      · intro t' ht'
        rcases List.mem_append.1 ht' with h | h
        · exact hsub t' h
        · simp at h; subst h
          exact hM _ (getNode_xref_mem tp root hg)
      · simp only [List.length_append, List.length_cons, List.length_nil]; omega

theorem Placed.xref_mem {root : Node} {f : Flags} {t : String} {p : Path}
    (hp : Placed root (.leaf f (.xref t)) p) : t ∈ xrefTexts root := by
  suffices h : ∀ m p, Placed root m p → ∀ t', t' ∈ xrefTexts m → t' ∈ xrefTexts root from
    h _ _ hp t (by simp [xrefTexts])
  intro m p hp
  induction hp with
  | root => exact fun _ h => h
  | child hpar hm ih =>
    intro t' ht'
    exact ih t' (by simp only [xrefTexts]; exact xrefTextsList_mem hm ht')

/-! ### the target of a chain and aliasing -/

/-- the path a chain of references starting with the text `cur` ends in: the first memoised path
    or the first node that is not a reference -/
def xrefTarget (root : Node) (cache : List (Path × Val)) : Nat → String → Option Path
  | 0, _ => none
  | fuel + 1, cur =>
    match splitPath cur with
    | none => none
    | some tp =>
      match plookup tp cache with
      | some _ => some tp
      | none =>
        match getNode root tp with
        | some (.leaf _ (.xref next)) => xrefTarget root cache fuel next
        | some _ => some tp
        | none => none

/-- a successful reference returns the value memoised for the path its chain ends in -/
theorem xrefLoop_alias {root : Node} {w : World} {f : Nat} {rs : Bool} {self : Path} :
    ∀ (fuel : Nat) (cur : String) (chain : List String) (st : EvSt) (v : Val) (st' : EvSt),
    xrefLoop (evalNodeF root w f) root rs self fuel cur chain st = .ok (v, st') →
    ∃ tp, xrefTarget root st.cache fuel cur = some tp ∧ plookup tp st'.cache = some v
  | 0, cur, chain, st, v, st', h => by simp [xrefLoop] at h
  | fuel + 1, cur, chain, st, v, st', h => by
    rw [xrefLoop_succ] at h
    cases hstep : xrefStep (evalNodeF root w f) root rs self cur chain st with
    | next t s1 =>
      rw [hstep] at h
      simp only at h
      obtain ⟨_, tp, fl, htp, _, hnone, hg⟩ := xrefStep_next hstep
      obtain ⟨tp', ht', hv'⟩ := xrefLoop_alias fuel t _ s1 v st' h
      have hcache : s1.cache = st.cache := by
        obtain ⟨_, _, _, _, ⟨_, rfl⟩ | ⟨_, _, rfl⟩⟩ := xrefStep_next_state hstep <;> rfl
      rw [hcache] at ht'
      refine ⟨tp', ?_, hv'⟩
      simp only [xrefTarget, htp, hnone, hg]
      exact ht'
    | done r =>
      rw [hstep] at h
      simp only at h
      subst h
      unfold xrefStep at hstep
      split at hstep
      · cases hstep
      · rename_i tp htp
        split at hstep
        · cases hstep
        · rename_i v0 st1 hg
          split at hstep
          · cases hstep
          · cases hstep
            rcases ctxGetNode_ok_inv hg with ⟨v1, hv, hv1, ⟨_, rfl⟩ | ⟨_, _, rfl⟩⟩ | ⟨_, hn, _⟩
            · cases hv
              exact ⟨tp, by simp [xrefTarget, htp, hv1], hv1⟩
            · cases hv
              exact ⟨tp, by simp [xrefTarget, htp, hv1], by simpa using hv1⟩
            · cases hn
        · rename_i n st1 hg
          split at hstep
          · cases hstep
          · split at hstep
            · split at hstep
              · split at hstep <;> cases hstep
              · cases hstep
            · rename_i hnx
              injection hstep with hres
              have hc := evalNodeF_cached hres
              refine ⟨tp, ?_, hc⟩
              rcases ctxGetNode_ok_inv hg with ⟨_, hn, _⟩ | ⟨n', hn, hnone, hn', _⟩
              · cases hn
              · cases hn
                simp only [xrefTarget, htp, hnone, hn']

end AY
