/-
  AY.Lemmas.OutcomeComplete — completeness of the evaluator w.r.t. the strict denotation: if the
  strict denotation of a node exists, `evalNodeF` succeeds on it from every state reached in a build
  (`SInv`) in which no path under evaluation has a denotation of smaller or equal rank, with any fuel
  that covers the nodes not yet under evaluation. The four ingredients:

    (a) fuel: at most `root.size` paths are under evaluation at any time (pigeonhole on the paths of
        the tree), `xrefLoop` never needs more fuel than there are reference texts
        (`xrefLoop_fuel_irrelevant`);
    (b) taint marks are exact (`TInv`, part of `SInv`): a strict consumer is refused a memoised value
        only if the path is `Dirty`, and then it has no strict denotation (`sden_strict_clean`);
    (c) no `recursion` error: the rank (least fuel of the denotation) of the paths under evaluation
        strictly decreases along the stack, so a path with a denotation of smaller rank is not on it;
    (d) `xrefLoop`'s own failure modes (repeated text, reference to itself) need a cyclic chain of
        references, which has no denotation (`sdenXref_acyclic`).
-/
import AY.Lemmas.OutcomeSound
namespace AY

/-! ### (a) the paths of a tree -/

mutual
def treePaths (p : Path) : Node → List Path
  | .leaf .. => [p]
  | .comp _ _ cs => p :: treePathsList p cs
def treePathsList (p : Path) : List (Key × Node) → List Path
  | [] => []
  | (k, c) :: rest => treePaths (p ++ [k]) c ++ treePathsList p rest
end

mutual
theorem treePaths_length : ∀ (p : Path) (n : Node), (treePaths p n).length = n.size
  | p, .leaf .. => by simp [treePaths, Node.size]
  | p, .comp _ _ cs => by
    have := treePathsList_length p cs
    simp only [treePaths, Node.size, List.length_cons]; omega
theorem treePathsList_length : ∀ (p : Path) (cs : List (Key × Node)),
    (treePathsList p cs).length = sizeList cs
  | p, [] => by simp [treePathsList, sizeList]
  | p, (k, c) :: rest => by
    have h1 := treePaths_length (p ++ [k]) c
    have h2 := treePathsList_length p rest
    simp only [treePathsList, sizeList, List.length_append]; omega
end

theorem treePaths_self (p : Path) (n : Node) : p ∈ treePaths p n := by
  cases n <;> simp [treePaths]

theorem treePathsList_mem {x p : Path} {key : Key} {c : Node} :
    ∀ {cs : List (Key × Node)}, (key, c) ∈ cs → x ∈ treePaths (p ++ [key]) c → x ∈ treePathsList p cs
  | [], h, _ => by cases h
  | (k', c') :: rest, h, hx => by
    simp only [treePathsList, List.mem_append]
    rcases List.mem_cons.1 h with heq | h
    · cases heq; exact .inl hx
    · exact .inr (treePathsList_mem h hx)

theorem treePaths_mem : ∀ (q : Path) (n : Node) (p : Path) (m : Node),
    getNode n q = some m → p ++ q ∈ treePaths p n
  | [], n, p, m, _ => by simpa using treePaths_self p n
  | _ :: _, .leaf .., p, m, h => by simp [getNode] at h
  | key :: rest, .comp _ _ cs, p, m, h => by
    unfold getNode at h
    split at h
    · cases h
    · rename_i c hc
      have := treePaths_mem rest c (p ++ [key]) m h
      simp only [treePaths, List.mem_cons]
      right
      exact treePathsList_mem (alookup_mem hc) (by simpa using this)

/-- at most `root.size` distinct paths of the tree -/
theorem paths_length_le {root : Node} {l : List Path} (hnd : l.Nodup)
    (htree : ∀ q, q ∈ l → ∃ m, getNode root q = some m) : l.length ≤ root.size := by
  rw [← treePaths_length [] root]
  apply nodup_subset_length_le l _ hnd
  intro q hq
  obtain ⟨m, hm⟩ := htree q hq
  simpa using treePaths_mem q root [] m hm

/-! ### (d) chains of references -/

/-- the text `a` names a reference whose text is `b` -/
def XLink (root : Node) (a b : String) : Prop :=
  ∃ tp fl, splitPath a = some tp ∧ getNode root tp = some (.leaf fl (.xref b))

inductive XPlus (root : Node) : String → String → Prop
  | single {a b : String} : XLink root a b → XPlus root a b
  | tail {a b c : String} : XPlus root a b → XLink root b c → XPlus root a c

theorem XPlus.head {root : Node} {a b c : String} (h : XLink root a b) (h' : XPlus root b c) :
    XPlus root a c := by
  induction h' with
  | single hl => exact .tail (.single h) hl
  | tail _ hl ih => exact .tail ih hl

theorem sdenXref_link {r : SRec} {root : Node} {rs : Bool} {f : Nat} {a b : String} {v : Val}
    (h : XLink root a b) (hx : sdenXref r root rs (f + 1) a = some v) :
    sdenXref r root rs f b = some v := by
  obtain ⟨tp, fl, htp, hg⟩ := h
  unfold sdenXref at hx
  simp only [htp, hg] at hx
  split at hx
  · cases hx
  · exact hx

theorem sdenXref_plus {r : SRec} {root : Node} {rs : Bool} {a b : String} (h : XPlus root a b) :
    ∀ (f : Nat) (v : Val), sdenXref r root rs f a = some v →
      ∃ f', f' < f ∧ sdenXref r root rs f' b = some v := by
  induction h with
  | single hl =>
    intro f v hx
    cases f with
    | zero => simp [sdenXref] at hx
    | succ f => exact ⟨f, Nat.lt_succ_self _, sdenXref_link hl hx⟩
  | tail _ hl ih =>
    intro f v hx
    obtain ⟨f', hlt, h'⟩ := ih f v hx
    cases f' with
    | zero => simp [sdenXref] at h'
    | succ f'' => exact ⟨f'', by omega, sdenXref_link hl h'⟩

/-- a cyclic chain of references has no denotation -/
theorem sdenXref_acyclic {r : SRec} {root : Node} {rs : Bool} {a : String} (h : XPlus root a a) :
    ∀ (f : Nat) (v : Val), sdenXref r root rs f a ≠ some v := by
  intro f
  induction f using Nat.strongRecOn with
  | ind f ih =>
    intro v hx
    obtain ⟨f', hlt, h'⟩ := sdenXref_plus h f v hx
    exact ih f' hlt v h'

theorem sdenXref_step_link {r : SRec} {root : Node} {rs : Bool} {f : Nat} {cur next : String} {tp : Path}
    {fl : Flags} (htp : splitPath cur = some tp) (hg : getNode root tp = some (.leaf fl (.xref next))) :
    sdenXref r root rs (f + 1) cur = if rs && !eSafe fl then none else sdenXref r root rs f next := by
  simp only [sdenXref, htp, hg]

theorem sdenXref_step_end {r : SRec} {root : Node} {rs : Bool} {f : Nat} {cur : String} {tp : Path}
    {n : Node} (htp : splitPath cur = some tp) (hg : getNode root tp = some n)
    (hnx : ∀ fl t, n ≠ .leaf fl (.xref t)) :
    sdenXref r root rs (f + 1) cur = if tp = [] then none else r rs n tp := by
  cases n with
  | comp fl k cs => simp only [sdenXref, htp, hg]
  | leaf fl lk =>
    cases lk with
    | xref t => exact absurd rfl (hnx fl t)
    | _ => simp only [sdenXref, htp, hg]

theorem sdenXref_inv {r : SRec} {root : Node} {rs : Bool} {f : Nat} {cur : String} {v : Val}
    (hx : sdenXref r root rs f cur = some v) :
    ∃ tp n, splitPath cur = some tp ∧ getNode root tp = some n := by
  cases f with
  | zero => simp [sdenXref] at hx
  | succ f =>
    unfold sdenXref at hx
    split at hx
    · cases hx
    · rename_i tp htp
      cases hg : getNode root tp with
      | none => simp [hg] at hx
      | some n => exact ⟨tp, n, htp, hg⟩

/-- the first target of a chain with a denotation has that denotation -/
theorem sdenXref_target {root : Node} {w : World} {rs : Bool} {g xf : Nat} {cur : String} {tp : Path}
    {n : Node} {v : Val} (htp : splitPath cur = some tp) (hg : getNode root tp = some n)
    (hx : sdenXref (sden root w g) root rs xf cur = some v) :
    ∃ f, sden root w f rs n tp = some v := by
  cases xf with
  | zero => simp [sdenXref] at hx
  | succ xf =>
    by_cases hxr : ∃ fl next, n = .leaf fl (.xref next)
    · obtain ⟨fl, next, rfl⟩ := hxr
      rw [sdenXref_step_link htp hg] at hx
      by_cases hc : (rs && !eSafe fl) = true
      · rw [if_pos hc] at hx; cases hx
      · rw [if_neg hc] at hx
        refine ⟨max g xf + 1, ?_⟩
        rw [sden_succ]
        change (if (rs && !eSafe fl) = true then none
          else sdenXref (sden root w (max g xf)) root rs (max g xf) next) = some v
        rw [if_neg hc]
        exact sdenXref_mono (sden_mono root w (Nat.le_max_left g xf)) root rs xf _ next v
          (Nat.le_max_right g xf) hx
    · rw [sdenXref_step_end htp hg (fun fl t e => hxr ⟨fl, t, e⟩)] at hx
      split at hx
      · cases hx
      · exact ⟨g, hx⟩

/-! ### unfolding `xrefLoop` -/

theorem xrefLoop_value {rec : Rec} {root : Node} {rs : Bool} {self : Path} {F : Nat} {cur : String}
    {chain : List String} {st : EvSt} {tp : Path} {a : Val}
    (htp : splitPath cur = some tp) (hpl : plookup tp st.cache = some a)
    (hnt : rs = true → tp ∉ st.tainted) (hc : cur ∉ chain) :
    xrefLoop rec root rs self (F + 1) cur chain st =
      .ok (a, if tp ∈ st.tainted then seeTaint st else st) := by
  by_cases ht : tp ∈ st.tainted
  · have hrs : rs = false := by
      cases rs with
      | false => rfl
      | true => exact absurd ht (hnt rfl)
    subst hrs
    simp [xrefLoop, htp, ctxGetNode, hpl, ht, hc, seeTaint]
  · simp [xrefLoop, htp, ctxGetNode, hpl, ht, hc]

theorem xrefLoop_node_link {rec : Rec} {root : Node} {rs : Bool} {self : Path} {F : Nat} {cur : String}
    {chain : List String} {st : EvSt} {tp : Path} {fl : Flags} {next : String}
    (htp : splitPath cur = some tp) (hpl : plookup tp st.cache = none)
    (hg : getNode root tp = some (.leaf fl (.xref next))) (hc : cur ∉ chain) (hself : tp ≠ self)
    (hs : (rs && !eSafe fl) = false) :
    xrefLoop rec root rs self (F + 1) cur chain st =
      xrefLoop rec root rs self F next (chain ++ [cur]) (if eSafe fl then st else seeTaint st) := by
  cases hsf : eSafe fl with
  | true => simp [xrefLoop, htp, ctxGetNode, hpl, hg, hc, hself, hsf]
  | false =>
    have hrs : rs = false := by
      cases rs with
      | false => rfl
      | true => simp [hsf] at hs
    subst hrs
    simp [xrefLoop, htp, ctxGetNode, hpl, hg, hc, hself, hsf, seeTaint]

theorem xrefLoop_node_end {rec : Rec} {root : Node} {rs : Bool} {self : Path} {F : Nat} {cur : String}
    {chain : List String} {st : EvSt} {tp : Path} {n : Node}
    (htp : splitPath cur = some tp) (hpl : plookup tp st.cache = none)
    (hg : getNode root tp = some n) (hnx : ∀ fl t, n ≠ .leaf fl (.xref t))
    (hc : cur ∉ chain) (hself : tp ≠ self) :
    xrefLoop rec root rs self (F + 1) cur chain st = rec rs n tp st := by
  cases n with
  | comp fl k cs => simp [xrefLoop, htp, ctxGetNode, hpl, hg, hc, hself]
  | leaf fl lk =>
    cases lk with
    | xref t => exact absurd rfl (hnx fl t)
    | _ => simp [xrefLoop, htp, ctxGetNode, hpl, hg, hc, hself]

/-! ### completeness -/

/-- what the lemmas below assume of the recursive evaluator: it succeeds, with the value of the
    strict denotation bounded by `g`, in every good state whose set of paths under evaluation is `ip` -/
def RecC (root : Node) (w : World) (g : Nat) (ip : List Path) (rec : Rec) : Prop :=
  ∀ rs m p s v, getNode root p = some m → SInv root w s → s.inProgress = ip →
    sden root w g rs m p = some v →
    ∃ s', rec rs m p s = .ok (v, s') ∧ SInv root w s' ∧ s'.inProgress = ip

theorem evalItems_complete {root : Node} {w : World} {g : Nat} {ip : List Path} {rec : Rec}
    (hrec : RecC root w g ip rec) {rs : Bool} {path : Path} :
    ∀ (cs : List (Key × Node)) (st : EvSt) (items : List (Key × Val)),
    (∀ key c, (key, c) ∈ cs → getNode root (path ++ [key]) = some c) → SInv root w st →
    st.inProgress = ip → sdenItems (sden root w g) rs path cs = some items →
    ∃ st', evalItems rec rs path cs st = .ok (items, st') ∧ SInv root w st' ∧ st'.inProgress = ip
  | [], st, items, _, hI, hip, h => by
    simp [sdenItems] at h
    subst h
    exact ⟨st, rfl, hI, hip⟩
  | (k, c) :: rest, st, items, hg, hI, hip, h => by
    unfold sdenItems at h
    split at h
    · cases h
    · rename_i v hv
      split at h
      · cases h
      · rename_i vs hvs
        cases h
        obtain ⟨s1, h1, hI1, hip1⟩ := hrec _ _ _ _ _ (hg k c List.mem_cons_self) hI hip hv
        obtain ⟨s2, h2, hI2, hip2⟩ := evalItems_complete hrec rest s1 vs
          (fun key c' hm => hg key c' (List.mem_cons_of_mem _ hm)) hI1 hip1 hvs
        exact ⟨s2, by simp only [evalItems, h1, h2], hI2, hip2⟩

theorem xrefLoop_complete {root : Node} {w : World} {g : Nat} {ip : List Path} {rec : Rec}
    (hrec : RecC root w g ip rec) (huk : uniqueKeys root = true) {rs : Bool} {self : Path}
    {fl0 : Flags} {t0 : String} (hself : getNode root self = some (.leaf fl0 (.xref t0))) :
    ∀ (xf F : Nat) (cur : String) (chain : List String) (st : EvSt) (v : Val), xf ≤ F →
    SInv root w st → st.inProgress = ip → (∀ t, t ∈ chain → XPlus root t cur) →
    (t0 = cur ∨ XPlus root t0 cur) → sdenXref (sden root w g) root rs xf cur = some v →
    ∃ st', xrefLoop rec root rs self F cur chain st = .ok (v, st') ∧ SInv root w st' ∧
      st'.inProgress = ip
  | 0, _, _, _, _, _, _, _, _, _, _, hx => by simp [sdenXref] at hx
  | xf + 1, 0, _, _, _, _, hle, _, _, _, _, _ => by omega
  | xf + 1, F + 1, cur, chain, st, v, hle, hI, hip, hch, h0, hx => by
    obtain ⟨tp, n, htp, hg⟩ := sdenXref_inv hx
    have hcyc : ¬ XPlus root cur cur := fun h => sdenXref_acyclic h _ _ hx
    have hc : cur ∉ chain := fun h => hcyc (hch cur h)
    cases hpl : plookup tp st.cache with
    | some a =>
      -- a memoised target: the value is read
      obtain ⟨f, hf⟩ := sdenXref_target htp hg hx
      have hf0 : sden root w f false n tp = some v := by
        cases rs with
        | false => exact hf
        | true => exact sden_down root w f n tp v hf
      obtain ⟨n', hn', f', hf'⟩ := hI.ok tp a hpl
      rw [hg] at hn'; cases hn'
      have hav : a = v := sden_unique hf' hf0
      subst hav
      have hnt : rs = true → tp ∉ st.tainted := by
        intro hrs ht
        subst hrs
        exact sden_strict_clean root w huk f n tp a hg hf ((hI.tinv.ex tp (by rw [hpl]; simp)).1 ht)
      refine ⟨_, xrefLoop_value htp hpl hnt hc, ?_, ?_⟩
      · split
        · exact hI.seeTaint
        · exact hI
      · split <;> simpa using hip
    | none =>
      have hne_self : tp ≠ self := by
        intro e
        subst e
        rw [hself] at hg; cases hg
        have hl : XLink root cur t0 := ⟨tp, fl0, htp, hself⟩
        rcases h0 with rfl | h0
        · exact hcyc (.single hl)
        · exact hcyc (XPlus.head hl h0)
      by_cases hxr : ∃ fl next, n = .leaf fl (.xref next)
      · -- an intermediate reference, followed as a node
        obtain ⟨fl, next, rfl⟩ := hxr
        rw [sdenXref_step_link htp hg] at hx
        by_cases hs : (rs && !eSafe fl) = true
        · rw [if_pos hs] at hx; cases hx
        · rw [if_neg hs] at hx
          have hs' : (rs && !eSafe fl) = false := by simpa using hs
          have hl : XLink root cur next := ⟨tp, fl, htp, hg⟩
          rw [xrefLoop_node_link htp hpl hg hc hne_self hs']
          apply xrefLoop_complete hrec huk hself xf F next (chain ++ [cur]) _ v (by omega) _ _ _ _ hx
          · split
            · exact hI
            · exact hI.seeTaint
          · split <;> simpa using hip
          · intro t ht
            rcases List.mem_append.1 ht with ht | ht
            · exact .tail (hch t ht) hl
            · simp at ht; subst ht; exact .single hl
          · rcases h0 with rfl | h0
            · exact .inr (.single hl)
            · exact .inr (.tail h0 hl)
      · -- the end of the chain: the node is evaluated
        have hnx : ∀ fl t, n ≠ .leaf fl (.xref t) := fun fl t e => hxr ⟨fl, t, e⟩
        rw [sdenXref_step_end htp hg hnx] at hx
        split at hx
        · cases hx
        · rw [xrefLoop_node_end htp hpl hg hnx hc hne_self]
          exact hrec _ _ _ _ _ hg hI hip hx

theorem ecfgLookup_complete {root : Node} {w : World} {g : Nat} {ip : List Path} {rec : Rec}
    (hrec : RecC root w g ip rec) (huk : uniqueKeys root = true)
    (hnoden : ∀ q, q ∈ ip → ∀ m, getNode root q = some m → sden root w g false m q = none)
    {nm : String} {n : Node} {st : EvSt} {v : Val} (hg : getNode root [Key.str nm] = some n)
    (hI : SInv root w st) (hip : st.inProgress = ip)
    (hv : sden root w g true n [Key.str nm] = some v) :
    ∃ st', ecfgLookup rec root nm st = .ok (v, st') ∧ SInv root w st' ∧ st'.inProgress = ip := by
  have hv0 := sden_down root w g n _ v hv
  unfold ecfgLookup
  simp only
  cases hpl : plookup [Key.str nm] st.cache with
  | some a =>
    obtain ⟨n', hn', f', hf'⟩ := hI.ok _ a hpl
    rw [hg] at hn'; cases hn'
    have hav : a = v := sden_unique hf' hv0
    subst hav
    have hnt : [Key.str nm] ∉ st.tainted := fun ht =>
      sden_strict_clean root w huk g n _ a hg hv ((hI.tinv.ex _ (by rw [hpl]; simp)).1 ht)
    refine ⟨st, ?_, hI, hip⟩
    simp [hnt]
  | none =>
    have hnip : [Key.str nm] ∉ st.inProgress := by
      intro h
      rw [hip] at h
      rw [hnoden _ h n hg] at hv0; cases hv0
    obtain ⟨s', h1, hI', hip'⟩ := hrec _ _ _ _ _ hg hI hip hv
    refine ⟨s', ?_, hI', hip'⟩
    simp [hnip, hg, h1]

theorem resolveNames_complete {root : Node} {w : World} {g : Nat} {ip : List Path} {rec : Rec}
    (hrec : RecC root w g ip rec) (huk : uniqueKeys root = true)
    (hnoden : ∀ q, q ∈ ip → ∀ m, getNode root q = some m → sden root w g false m q = none) :
    ∀ (names : List String) (st : EvSt) (vs : List Val), SInv root w st → st.inProgress = ip →
    sdenNames (sden root w g) root w names = some vs →
    ∃ st', resolveNames rec root w names st = .ok (vs, st') ∧ SInv root w st' ∧ st'.inProgress = ip
  | [], st, vs, hI, hip, h => by
    simp [sdenNames] at h
    subst h
    exact ⟨st, rfl, hI, hip⟩
  | nm :: rest, st, vs, hI, hip, h => by
    unfold sdenNames at h
    split at h
    · cases h
    · rename_i v hv
      split at h
      · cases h
      · rename_i vs' hvs
        cases h
        have hstep : ∃ s1, (if w.syms.contains nm then (.ok (.sym nm, st) : EvR Val)
            else if (getNode root [Key.str nm]).isSome then ecfgLookup rec root nm st
            else if w.builtins.contains nm then .ok (.sym nm, st)
            else .error .eval) = .ok (v, s1) ∧ SInv root w s1 ∧ s1.inProgress = ip := by
          unfold sdenName at hv
          split at hv
          · rename_i hs
            cases hv
            exact ⟨st, by rw [if_pos hs], hI, hip⟩
          · rename_i hs
            rw [if_neg hs]
            split at hv
            · rename_i n hn
              obtain ⟨s1, h1, hI1, hip1⟩ := ecfgLookup_complete hrec huk hnoden hn hI hip hv
              exact ⟨s1, by simp [hn, h1], hI1, hip1⟩
            · rename_i hn
              split at hv
              · rename_i hb
                cases hv
                have hb' : nm ∈ w.builtins := by simpa using hb
                exact ⟨st, by simp [hn, hb'], hI, hip⟩
              · cases hv
        obtain ⟨s1, h1, hI1, hip1⟩ := hstep
        obtain ⟨s2, h2, hI2, hip2⟩ := resolveNames_complete hrec huk hnoden rest s1 vs' hI1 hip1 hvs
        refine ⟨s2, ?_, hI2, hip2⟩
        unfold resolveNames
        simp only [h1, h2]

/-- the converse of `evalImpl_comp_inv` -/
theorem evalImpl_comp_ok {rec : Rec} {root : Node} {w : World} {rs : Bool} {f : Flags} {k : CompKind}
    {cs : List (Key × Node)} {path : Path} {st st1 : EvSt} {items : List (Key × Val)} {v : Val}
    (hs : (k.isFunc && !eSafe f) = false)
    (he : evalItems rec (rs || k.isFunc) path cs st = .ok (items, st1))
    (hfin : denFinish w f k path items = some v) :
    ∃ st', evalImpl rec root w rs (.comp f k cs) path st = .ok (v, st') := by
  cases k with
  | dict =>
    simp only [CompKind.isFunc, Bool.or_false] at he
    simp only [denFinish, Option.some.injEq] at hfin
    subst hfin
    exact ⟨st1, by simp only [evalImpl, he]⟩
  | list =>
    simp only [CompKind.isFunc, Bool.or_false] at he
    simp only [denFinish, Option.some.injEq] at hfin
    subst hfin
    exact ⟨st1, by simp only [evalImpl, he]⟩
  | append =>
    simp only [CompKind.isFunc, Bool.or_false] at he
    simp only [denFinish, Option.some.injEq] at hfin
    subst hfin
    exact ⟨st1, by simp only [evalImpl, he]⟩
  | extend =>
    simp only [CompKind.isFunc, Bool.or_false] at he
    simp only [denFinish, Option.some.injEq] at hfin
    subst hfin
    exact ⟨st1, by simp only [evalImpl, he]⟩
  | stream =>
    simp only [CompKind.isFunc, Bool.or_false] at he
    simp only [denFinish, Option.some.injEq] at hfin
    subst hfin
    exact ⟨st1, by simp only [evalImpl, he]⟩
  | path ref =>
    simp only [CompKind.isFunc, Bool.or_false] at he
    simp only [denFinish] at hfin
    split at hfin
    · cases hfin
    · rename_i args ha
      split at hfin
      · cases hfin
      · rename_i v' hv'
        cases hfin
        exact ⟨st1, by simp only [evalImpl, he, ha, hv']⟩
  | call fn =>
    simp only [CompKind.isFunc, Bool.or_true] at he
    simp only [CompKind.isFunc, Bool.true_and] at hs
    simp only [denFinish] at hfin
    split at hfin
    · cases hfin
    · rename_i sig hsig
      split at hfin
      · cases hfin
      · rename_i pos kwp kw hr
        split at hfin
        · cases hfin
        · rename_i b hb
          cases hfin
          exact ⟨{ st1 with log := st1.log ++ [{ path := path, what := "call:" ++ fn }] },
            by simp only [evalImpl, hs, Bool.false_eq_true, if_false, hsig, he, hr, hb]⟩
  | bind fn =>
    simp only [CompKind.isFunc, Bool.or_true] at he
    simp only [CompKind.isFunc, Bool.true_and] at hs
    simp only [denFinish] at hfin
    split at hfin
    · cases hfin
    · rename_i sig hsig
      split at hfin
      · cases hfin
      · rename_i pos kwp kw hr
        split at hfin
        · cases hfin
        · rename_i hd
          cases hfin
          exact ⟨{ st1 with log := st1.log ++ [{ path := path, what := "bind:" ++ fn }] },
            by simp only [evalImpl, hs, Bool.false_eq_true, if_false, hsig, he, hr, hd]⟩

theorem evalImpl_complete {root : Node} {w : World} {g : Nat} {ip : List Path} {rec : Rec}
    (hrec : RecC root w g ip rec) (huk : uniqueKeys root = true)
    (hnoden : ∀ q, q ∈ ip → ∀ m, getNode root q = some m → sden root w g false m q = none)
    {rs : Bool} {n : Node} {path : Path} {st : EvSt} {v : Val}
    (hg : getNode root path = some n) (hI : SInv root w st) (hip : st.inProgress = ip)
    (hv : sdenImpl (sden root w g) root w g rs n path = some v) :
    ∃ st', evalImpl rec root w rs n path st = .ok (v, st') := by
  cases n with
  | leaf fl lk =>
    cases lk with
    | scalar s => simp only [sdenImpl] at hv; cases hv; exact ⟨_, rfl⟩
    | prev s => simp only [sdenImpl] at hv; cases hv; exact ⟨_, rfl⟩
    | incl fs => simp only [sdenImpl] at hv; cases hv; exact ⟨_, rfl⟩
    | required => simp [sdenImpl] at hv
    | clear => simp [sdenImpl] at hv
    | fstr s => simp [sdenImpl] at hv
    | xref t =>
      simp only [sdenImpl] at hv
      simp only [evalImpl]
      have hfi := xrefLoop_fuel_irrelevant rec root rs path (xrefTexts root) (fun _ h => h) g
        (root.size + 1) t [] st List.nodup_nil
        (by
          intro t' ht'
          simp at ht'
          subst ht'
          exact (Placed.of_getNode hg).xref_mem)
        (by have := xrefTexts_length_le root; simp; omega)
      rw [← hfi]
      obtain ⟨st', h1, _, _⟩ := xrefLoop_complete hrec huk hg g (root.size + 1 + g) t [] st v (by omega)
        hI hip (by intro t' ht'; cases ht') (.inl rfl) hv
      exact ⟨st', h1⟩
    | imp m =>
      simp only [sdenImpl] at hv
      split at hv
      · cases hv
      · rename_i hs
        split at hv
        · rename_i hm
          cases hv
          exact ⟨_, by simp only [evalImpl, if_neg hs, if_pos hm]; rfl⟩
        · cases hv
    | eval code =>
      simp only [sdenImpl] at hv
      split at hv
      · cases hv
      · rename_i hs
        split at hv
        · cases hv
        · rename_i names hn
          split at hv
          · cases hv
          · rename_i vs hvs
            cases hv
            obtain ⟨s1, h1, _, _⟩ := resolveNames_complete hrec huk hnoden names st vs hI hip hvs
            exact ⟨_, by simp only [evalImpl, if_neg hs, hn, h1]; rfl⟩
  | comp fl k cs =>
    simp only [sdenImpl] at hv
    split at hv
    · cases hv
    · rename_i hs
      split at hv
      · cases hv
      · rename_i items hi
        obtain ⟨st1, he, _, _⟩ := evalItems_complete hrec cs st items
          (fun key c hm => ((Placed.child (Placed.of_getNode hg) hm).getNode_uniq huk).1) hI hip hi
        exact evalImpl_comp_ok (by simpa using hs) he hv

/-- what a successful `evalNodeF` on a node of the tree from a good state gives besides the value -/
theorem evalNodeF_ok_post {root : Node} {w : World} (huk : uniqueKeys root = true) {F : Nat} {rs : Bool}
    {n : Node} {p : Path} {st st' : EvSt} {v : Val} (hg : getNode root p = some n)
    (hI : SInv root w st) (h : evalNodeF root w F rs n p st = .ok (v, st')) :
    SInv root w st' ∧ st'.inProgress = st.inProgress :=
  ⟨(evalNodeF_sden root w huk F rs n p st v st' (Placed.of_getNode hg) hI h).1,
   (evalNodeF_wf root w F rs n p st v st' hI.wf h).2.prog⟩

/-- the rank facts used to enter a path -/
theorem sden_enter_rank {root : Node} {w : World} (huk : uniqueKeys root = true) {g : Nat} {rs : Bool}
    {n : Node} {p : Path} {v : Val} (hg : getNode root p = some n)
    (hv : sden root w g rs n p = some v) :
    ∃ g0, g0 + 1 ≤ g ∧ sden root w g0 false n p = none ∧ (rs && !eSafe n.flags) = false ∧
      sdenImpl (sden root w g0) root w g0 rs n p = some v := by
  have hv0 : sden root w g false n p = some v := by
    cases rs with
    | false => exact hv
    | true => exact sden_down root w g n p v hv
  obtain ⟨g0, hle, hnone0, hsome0⟩ := sden_rank g hv0
  have hvr : sden root w (g0 + 1) rs n p = some v := by
    cases rs with
    | false => exact hsome0
    | true => exact sden_strict_of_le huk hg hv hsome0
  rw [sden_succ] at hvr
  by_cases hs : (rs && !eSafe n.flags) = true
  · rw [if_pos hs] at hvr; cases hvr
  · rw [if_neg hs] at hvr
    exact ⟨g0, hle, hnone0, by simpa using hs, hvr⟩

/-- Completeness: a node with a strict denotation evaluates successfully, to that value, from every
    good state in which no path under evaluation has a denotation within the same bound. -/
theorem evalNodeF_complete (root : Node) (w : World) (huk : uniqueKeys root = true) :
    ∀ (g F : Nat) (rs : Bool) (n : Node) (p : Path) (st : EvSt) (v : Val),
    getNode root p = some n → SInv root w st → st.inProgress.Nodup →
    (∀ q, q ∈ st.inProgress → ∃ m, getNode root q = some m) →
    (∀ q, q ∈ st.inProgress → ∀ m, getNode root q = some m → sden root w g false m q = none) →
    root.size + 1 ≤ F + st.inProgress.length →
    sden root w g rs n p = some v →
    ∃ st', evalNodeF root w F rs n p st = .ok (v, st') ∧ SInv root w st' ∧
      st'.inProgress = st.inProgress := by
  intro g
  induction g using Nat.strongRecOn with
  | ind g ih =>
    intro F rs n p st v hg hI hnd htree hnoden hfuel hv
    suffices h : ∃ st', evalNodeF root w F rs n p st = .ok (v, st') by
      obtain ⟨st', h⟩ := h
      exact ⟨st', h, evalNodeF_ok_post huk hg hI h⟩
    have hv0 : sden root w g false n p = some v := by
      cases rs with
      | false => exact hv
      | true => exact sden_down root w g n p v hv
    obtain ⟨g0, hle, hnone0, hsafe, hvi⟩ := sden_enter_rank huk hg hv
    have hlen := paths_length_le hnd htree
    obtain ⟨F', rfl⟩ : ∃ F', F = F' + 1 := by
      cases F with
      | zero => omega
      | succ F' => exact ⟨F', rfl⟩
    rw [evalNodeF_succ]
    simp only [hsafe, Bool.false_eq_true, if_false, bump_cache, bump_tainted, bump_inProgress]
    cases hpl : plookup p st.cache with
    | some a =>
      obtain ⟨n', hn', f', hf'⟩ := hI.ok p a hpl
      rw [hg] at hn'; cases hn'
      have hav : a = v := sden_unique hf' hv0
      subst hav
      simp only
      by_cases ht : p ∈ st.tainted
      · have hrs : rs = false := by
          cases rs with
          | false => rfl
          | true =>
            exact absurd ((hI.tinv.ex p (by rw [hpl]; simp)).1 ht)
              (sden_strict_clean root w huk g n p a hg hv)
        subst hrs
        exact ⟨_, by simp [ht]; rfl⟩
      · exact ⟨_, by simp [ht]; rfl⟩
    | none =>
      have hnip : p ∉ st.inProgress := by
        intro h
        rw [hnoden p h n hg] at hv0; cases hv0
      simp only [List.contains_iff_mem, hnip, if_false]
      have hI0 : SInv root w (enter p (bump n st)) :=
        ⟨⟨hI.wf.enter hpl, by simpa using hI.tinv.ex⟩, by simp [hI.busy], by simpa using hI.ok⟩
      have hnoden' : ∀ q, q ∈ p :: st.inProgress → ∀ m, getNode root q = some m →
          sden root w g0 false m q = none := by
        intro q hq m hm
        rcases List.mem_cons.1 hq with rfl | hq
        · rw [hg] at hm; cases hm; exact hnone0
        · exact sden_none_mono (by omega) (hnoden q hq m hm)
      have hrecC : RecC root w g0 (p :: st.inProgress) (evalNodeF root w F') := by
        intro rs' m q s v' hgm hIs hips hvm
        have := ih g0 (by omega) F' rs' m q s v' hgm hIs
          (by rw [hips]; exact List.nodup_cons.2 ⟨hnip, hnd⟩)
          (by
            rw [hips]
            intro q' hq'
            rcases List.mem_cons.1 hq' with rfl | hq'
            · exact ⟨n, hg⟩
            · exact htree q' hq')
          (by rw [hips]; exact hnoden')
          (by rw [hips]; simp only [List.length_cons]; omega)
          hvm
        obtain ⟨s', h1, hI', hip'⟩ := this
        exact ⟨s', h1, hI', hip'.trans hips⟩
      obtain ⟨st2, h2⟩ := evalImpl_complete hrecC huk hnoden' hg hI0 (by simp) hvi
      exact ⟨_, by simp only [h2]; rfl⟩

/-- Completeness of a build: a root with a strict denotation builds, to that value. -/
theorem evaluate_complete {w : World} {root : Node} {g : Nat} {v : Val}
    (huk : uniqueKeys root = true) (hv : sden root w g false root [] = some v) :
    ∃ st, evaluate w root = .ok (v, st) := by
  obtain ⟨g0, hle, hnone0, hsafe, hvi⟩ := sden_enter_rank huk (p := []) rfl hv
  unfold evaluate
  have hF : 2 * root.size + 10 = (2 * root.size + 9) + 1 := rfl
  rw [hF, evalNodeF_succ]
  simp only [Bool.false_and, Bool.false_eq_true, if_false, bump_cache, bump_inProgress]
  have hpl : plookup [] ({} : EvSt).cache = none := rfl
  rw [hpl]
  have hnip : (({} : EvSt).inProgress.contains ([] : Path)) = false := rfl
  simp only [hnip, Bool.false_eq_true, if_false]
  have hnoden' : ∀ q, q ∈ [([] : Path)] → ∀ m, getNode root q = some m →
      sden root w g0 false m q = none := by
    intro q hq m hm
    simp at hq; subst hq
    simp only [getNode, Option.some.injEq] at hm
    subst hm
    exact hnone0
  have hrecC : RecC root w g0 [[]] (evalNodeF root w (2 * root.size + 9)) := by
    intro rs' m q s v' hgm hIs hips hvm
    exact evalNodeF_complete root w huk g0 _ rs' m q s v' hgm hIs
      (by rw [hips]; simp)
      (by rw [hips]; intro q' hq'; simp at hq'; subst hq'; exact ⟨root, rfl⟩)
      (by rw [hips]; exact hnoden')
      (by rw [hips]; simp; omega)
      hvm |>.imp fun s' h => ⟨h.1, h.2.1, h.2.2.trans hips⟩
  obtain ⟨st2, h2⟩ := evalImpl_complete hrecC huk hnoden' (path := []) rfl (SInv.start root w) (by simp) hvi
  exact ⟨_, by simp only [h2]; rfl⟩

/-! ### permuting the children of the root -/

/-- if one order of the root's children builds, so does any other (one direction of
    `C10_key_order_outcome`) -/
theorem evaluate_permRoot_ok {w : World} {fl : Flags} {cs cs' : List (Key × Node)} (hperm : cs'.Perm cs)
    (huk : uniqueKeys (.comp fl .dict cs) = true) (huk' : uniqueKeys (.comp fl .dict cs') = true)
    (h : ∃ v st, evaluate w (.comp fl .dict cs) = .ok (v, st)) :
    ∃ v' st', evaluate w (.comp fl .dict cs') = .ok (v', st') := by
  have hu : uniqueKeysList cs = true := by simpa [uniqueKeys] using huk
  have hu' : uniqueKeysList cs' = true := by simpa [uniqueKeys] using huk'
  obtain ⟨v, st, h⟩ := h
  obtain ⟨f, hf⟩ := evaluate_sden huk h
  obtain ⟨g, rfl⟩ := sden_pos hf
  rw [sden_succ] at hf
  simp only [Bool.false_and, Bool.false_eq_true, if_false, sdenImpl, CompKind.isFunc,
    Bool.or_false] at hf
  split at hf
  · cases hf
  · rename_i items hi
    -- every child has a strict denotation; hence the permuted list of children has one
    obtain ⟨items', hi'⟩ := sdenItems_of_all (rec := sden (.comp fl .dict cs) w g) (rs := false)
      (path := []) cs' (fun key c hm => sdenItems_mem hi key c (hperm.mem_iff.1 hm))
    rw [← sden_permRoot hperm hu hu' w g] at hi'
    have hd : sden (.comp fl .dict cs') w (g + 1) false (.comp fl .dict cs') [] = some (.dict [] items') := by
      rw [sden_succ]
      simp only [Bool.false_and, Bool.false_eq_true, if_false, sdenImpl, CompKind.isFunc,
        Bool.or_false, hi', denFinish]
    obtain ⟨st', h'⟩ := evaluate_complete huk' hd
    exact ⟨_, st', h'⟩

end AY
