/-
  AY.Lemmas.C07PipePath — a safety mark at a mapping path, through one merge
  (helpers for AY.Props.C07_Pipeline).

  `Marked mk t q`: the path `q` leads through dict-family containers of `t` to a node whose flags carry
  the mark `mk` (`Absorb mk`: an explicit or a source-level `safe=False`).

  Setting: the NEWER tree `o` is, strictly above `q`, made of plain non-deleting mappings with `q`'s keys
  occurring once (`plainAbove o q`).  Then
    * `mark_lands`:    a mark written by `o` at `q` is at `q` in the merged tree, if `q` still exists there
                       (the older tree may have anything but a list above `q`: `dfAbove`);
    * `mark_persists`: a mark the OLDER tree carries at `q` is still at `q` in the merged tree (which has `q`),
                       provided `o` is not deleting at `q` itself.
-/
import AY.Lemmas.C07PipeEval
set_option linter.unusedVariables false
namespace AY.C07P

/-! ### association lists -/

theorem alookup_aset_self {α : Type} (k : Key) (v : α) : ∀ (l : List (Key × α)), alookup k (aset k v l) = some v
  | [] => by simp [aset, alookup]
  | (k', v') :: rest => by
    simp only [aset]
    split
    · rename_i h; simp [alookup]
    · rename_i h; simp only [alookup, h, if_false]; exact alookup_aset_self k v rest

theorem alookup_aset_ne {α : Type} {k k' : Key} (h : k' ≠ k) (v : α) : ∀ (l : List (Key × α)),
    alookup k (aset k' v l) = alookup k l
  | [] => by simp [aset, alookup, h]
  | (k2, v2) :: rest => by
    simp only [aset]
    split
    · rename_i h2
      subst h2
      simp [alookup, h]
    · rename_i h2
      simp only [alookup]
      split
      · rfl
      · exact alookup_aset_ne h v rest

theorem alookup_aerase_ne {α : Type} {k k' : Key} (h : k' ≠ k) : ∀ (l : List (Key × α)),
    alookup k (aerase k' l) = alookup k l
  | [] => rfl
  | (k2, v2) :: rest => by
    simp only [aerase]
    split
    · rename_i h2
      subst h2
      simp [alookup, h]
    · simp only [alookup]
      split
      · rfl
      · exact alookup_aerase_ne h rest

/-- `key` occurs at most once among the keys -/
def keyOnce {α : Type} (key : Key) : List (Key × α) → Bool
  | [] => true
  | (k, _) :: rest => if k = key then !ahas key rest else keyOnce key rest

theorem alookup_aerase_self {α : Type} (k : Key) : ∀ (l : List (Key × α)), keyOnce k l = true →
    alookup k (aerase k l) = none
  | [], _ => rfl
  | (k2, v2) :: rest, h => by
    simp only [keyOnce] at h
    simp only [aerase]
    split
    · rename_i h2
      simp only [h2, if_true, Bool.not_eq_true', ahas] at h
      cases hl : alookup k rest with
      | none => rfl
      | some x => simp [hl] at h
    · rename_i h2
      simp only [h2, if_false] at h
      simp only [alookup, h2, if_false]
      exact alookup_aerase_self k rest h

theorem ahas_false_ne {α : Type} {key : Key} : ∀ {l : List (Key × α)}, ahas key l = false → ∀ kv, kv ∈ l → kv.1 ≠ key
  | [], _, kv, hm => by cases hm
  | (k2, v2) :: rest, h, kv, hm => by
    simp only [ahas, alookup] at h
    split at h
    · simp at h
    · rename_i h2
      rcases List.mem_cons.1 hm with rfl | hm
      · exact h2
      · exact ahas_false_ne (by simpa [ahas] using h) kv hm

theorem alookup_applyKwList (kw : ChildKw) (key : Key) : ∀ (cs : List (Key × Node)),
    alookup key (applyKwList kw cs) = (alookup key cs).map (applyKw kw)
  | [] => rfl
  | (k, c) :: rest => by
    simp only [applyKwList, alookup]
    split
    · rfl
    · exact alookup_applyKwList kw key rest

/-! ### lookups through dict-family containers -/

/-- `get_node(q)` that only descends through mappings and function nodes -/
def getD : Node → Path → Option Node
  | n, [] => some n
  | .leaf .., _ :: _ => none
  | .comp _ k cs, key :: rest =>
    if k.isDictFam then
      match alookup key cs with
      | none => none
      | some c => getD c rest
    else none

theorem getD_getNode : ∀ (q : Path) (t n : Node), getD t q = some n → getNode t q = some n
  | [], t, n, h => by simpa [getD, getNode] using h
  | key :: rest, .leaf .., n, h => by simp [getD] at h
  | key :: rest, .comp f k cs, n, h => by
    simp only [getD] at h
    split at h
    · simp only [getNode]
      split at h
      · cases h
      · rename_i c hc
        simp only [hc]
        exact getD_getNode rest c n h
    · cases h

/-- the path `q` leads through dict-family containers to a node carrying the mark -/
def Marked (mk : Flags → Bool) (t : Node) (q : Path) : Prop := ∃ n, getD t q = some n ∧ mk n.flags = true

theorem getD_cons_comp {f : Flags} {k : CompKind} {cs : List (Key × Node)} {key : Key} {rest : Path} {c : Node}
    (hk : k.isDictFam = true) (hc : alookup key cs = some c) : getD (.comp f k cs) (key :: rest) = getD c rest := by
  simp [getD, hk, hc]

theorem getNode_cons_comp {f : Flags} {k : CompKind} {cs : List (Key × Node)} {key : Key} {rest : Path} {c : Node}
    (hc : alookup key cs = some c) : getNode (.comp f k cs) (key :: rest) = getNode c rest := by
  simp [getNode, hc]

theorem getNode_cons_none {f : Flags} {k : CompKind} {cs : List (Key × Node)} {key : Key} {rest : Path}
    (hc : alookup key cs = none) : getNode (.comp f k cs) (key :: rest) = none := by
  simp [getNode, hc]

variable {mk : Flags → Bool}

theorem applyKw_flags_cases (kw : ChildKw) (c : Node) :
    (applyKw kw c).flags = updFlags kw c.flags ∨ (applyKw kw c).flags = c.flags := by
  cases c with
  | leaf f k => exact .inl rfl
  | comp f k cs =>
    simp only [applyKw]
    split
    · split <;> exact .inl rfl
    · exact .inr rfl

theorem applyKw_mk (hA : Absorb mk) (kw : ChildKw) (c : Node) : mk (applyKw kw c).flags = mk c.flags := by
  rcases applyKw_flags_cases kw c with h | h
  · rw [h, hA.upd]
  · rw [h]

/-- `applyKw` keeps the shape: same class, children are the old ones or `applyKwList` of them -/
theorem applyKw_comp_cases (kw : ChildKw) (f : Flags) (k : CompKind) (cs : List (Key × Node)) :
    (∃ f', applyKw kw (.comp f k cs) = .comp f' k cs) ∨
    (∃ f' kw', applyKw kw (.comp f k cs) = .comp f' k (applyKwList kw' cs)) := by
  simp only [applyKw]
  split
  · split
    · exact .inl ⟨_, rfl⟩
    · exact .inr ⟨_, _, rfl⟩
  · exact .inl ⟨_, rfl⟩

theorem getD_applyKw (hA : Absorb mk) : ∀ (rest : Path) (kw : ChildKw) (c n : Node), getD c rest = some n →
    ∃ n', getD (applyKw kw c) rest = some n' ∧ mk n'.flags = mk n.flags
  | [], kw, c, n, h => by
    simp only [getD, Option.some.injEq] at h; subst h
    exact ⟨applyKw kw c, rfl, applyKw_mk hA kw c⟩
  | key :: rest, kw, .leaf .., n, h => by simp [getD] at h
  | key :: rest, kw, .comp f k cs, n, h => by
    simp only [getD] at h
    split at h
    · rename_i hk
      split at h
      · cases h
      · rename_i c' hc
        rcases applyKw_comp_cases kw f k cs with ⟨f', e⟩ | ⟨f', kw', e⟩
        · rw [e, getD_cons_comp hk hc]; exact ⟨n, h, rfl⟩
        · rw [e, getD_cons_comp hk (by rw [alookup_applyKwList, hc]; rfl)]
          exact getD_applyKw hA rest kw' c' n h
    · cases h

theorem getNode_applyKw_none : ∀ (rest : Path) (kw : ChildKw) (c : Node), getNode c rest = none →
    getNode (applyKw kw c) rest = none
  | [], kw, c, h => by simp [getNode] at h
  | key :: rest, kw, .leaf .., h => by simp [applyKw, getNode]
  | key :: rest, kw, .comp f k cs, h => by
    rcases applyKw_comp_cases kw f k cs with ⟨f', e⟩ | ⟨f', kw', e⟩
    · rw [e]; simpa [getNode] using h
    · rw [e]
      simp only [getNode] at h ⊢
      rw [alookup_applyKwList]
      cases hc : alookup key cs with
      | none => rfl
      | some c' =>
        simp only [hc] at h
        exact getNode_applyKw_none rest kw' c' h

/-- either the path is gone or it leads to a marked node -/
def GoneOrMarked (mk : Flags → Bool) (t : Node) (q : Path) : Prop := getNode t q = none ∨ Marked mk t q

theorem marked_applyKw (hA : Absorb mk) {rest : Path} (kw : ChildKw) {c : Node} (h : Marked mk c rest) :
    Marked mk (applyKw kw c) rest := by
  obtain ⟨n, hn, hm⟩ := h
  obtain ⟨n', hn', e⟩ := getD_applyKw hA rest kw c n hn
  exact ⟨n', hn', by rw [e]; exact hm⟩

theorem gom_applyKw (hA : Absorb mk) {rest : Path} (kw : ChildKw) {c : Node} (h : GoneOrMarked mk c rest) :
    GoneOrMarked mk (applyKw kw c) rest := by
  rcases h with h | h
  · exact .inl (getNode_applyKw_none rest kw c h)
  · exact .inr (marked_applyKw hA kw h)

/-- `propagate` of a dict-family container: what sits under `key` -/
theorem propagate_comp_lookup (f : Flags) (k : CompKind) (cs : List (Key × Node)) (hk : k.isDictFam = true) (key : Key) :
    ∃ kw, propagate (.comp f k cs) = .comp f k (applyKwList kw cs) := by
  have : ∃ kw, childKw f k = some kw := by
    cases k <;> first | exact ⟨_, rfl⟩ | simp [CompKind.isDictFam] at hk
  obtain ⟨kw, hkw⟩ := this
  exact ⟨kw, by simp [propagate, hkw]⟩

theorem marked_propagate_comp (hA : Absorb mk) {f : Flags} {k : CompKind} {cs : List (Key × Node)}
    (hk : k.isDictFam = true) {key : Key} {rest : Path} {c : Node} (hc : alookup key cs = some c)
    (h : Marked mk c rest) : Marked mk (propagate (.comp f k cs)) (key :: rest) := by
  obtain ⟨kw, e⟩ := propagate_comp_lookup f k cs hk key
  obtain ⟨n, hn, hm⟩ := marked_applyKw hA kw h
  refine ⟨n, ?_, hm⟩
  rw [e, getD_cons_comp hk (by rw [alookup_applyKwList, hc]; rfl)]
  exact hn

theorem gom_propagate_comp (hA : Absorb mk) {f : Flags} {k : CompKind} {cs : List (Key × Node)}
    (hk : k.isDictFam = true) {key : Key} {rest : Path}
    (h : alookup key cs = none ∨ ∃ c, alookup key cs = some c ∧ GoneOrMarked mk c rest) :
    GoneOrMarked mk (propagate (.comp f k cs)) (key :: rest) := by
  obtain ⟨kw, e⟩ := propagate_comp_lookup f k cs hk key
  rcases h with h | ⟨c, hc, h⟩
  · left
    rw [e]
    exact getNode_cons_none (by rw [alookup_applyKwList, h]; rfl)
  · have hl : alookup key (applyKwList kw cs) = some (applyKw kw c) := by rw [alookup_applyKwList, hc]; rfl
    rcases gom_applyKw hA kw h with h' | ⟨n, hn, hm⟩
    · left
      rw [e, getNode_cons_comp hl]; exact h'
    · right
      exact ⟨n, by rw [e, getD_cons_comp hk hl]; exact hn, hm⟩

/-! ### adoption keeps a marked path -/

theorem getD_setFlags_cons (n : Node) (f : Flags) (key : Key) (rest : Path) :
    getD (n.setFlags f) (key :: rest) = getD n (key :: rest) := by
  cases n <;> rfl

theorem getNode_setFlags_cons (n : Node) (f : Flags) (key : Key) (rest : Path) :
    getNode (n.setFlags f) (key :: rest) = getNode n (key :: rest) := by
  cases n <;> rfl

theorem propagate_eq_cases (n : Node) : propagate n = n ∨
    ∃ f k cs kw, n = .comp f k cs ∧ propagate n = .comp f k (applyKwList kw cs) := by
  cases n with
  | leaf f k => exact .inl rfl
  | comp f k cs =>
    simp only [propagate]
    split
    · exact .inl rfl
    · exact .inr ⟨f, k, cs, _, rfl, rfl⟩

theorem marked_propagate (hA : Absorb mk) {n : Node} {q : Path} (h : Marked mk n q) : Marked mk (propagate n) q := by
  rcases propagate_eq_cases n with e | ⟨f, k, cs, kw, rfl, e⟩
  · rw [e]; exact h
  · rw [e]
    obtain ⟨m, hm, hmk⟩ := h
    cases q with
    | nil =>
      simp only [getD, Option.some.injEq] at hm; subst hm
      exact ⟨_, rfl, hmk⟩
    | cons key rest =>
      simp only [getD] at hm
      split at hm
      · rename_i hk
        split at hm
        · cases hm
        · rename_i c hc
          obtain ⟨n', hn', e'⟩ := getD_applyKw hA rest kw c m hm
          refine ⟨n', ?_, by rw [e']; exact hmk⟩
          rw [getD_cons_comp hk (by rw [alookup_applyKwList, hc]; rfl)]
          exact hn'
      · cases hm

theorem getNode_propagate_none {n : Node} {q : Path} (h : getNode n q = none) : getNode (propagate n) q = none := by
  rcases propagate_eq_cases n with e | ⟨f, k, cs, kw, rfl, e⟩
  · rw [e]; exact h
  · rw [e]
    cases q with
    | nil => simp [getNode] at h
    | cons key rest =>
      simp only [getNode] at h ⊢
      rw [alookup_applyKwList]
      cases hc : alookup key cs with
      | none => rfl
      | some c =>
        simp only [hc] at h
        exact getNode_applyKw_none rest kw c h

theorem marked_setFlags (hA : Absorb mk) {n : Node} {q : Path} (kw : ChildKw) (h : Marked mk n q) :
    Marked mk (n.setFlags (updFlags kw n.flags)) q := by
  obtain ⟨m, hm, hmk⟩ := h
  cases q with
  | nil =>
    simp only [getD, Option.some.injEq] at hm; subst hm
    exact ⟨_, rfl, by rw [setFlags_flags, hA.upd]; exact hmk⟩
  | cons key rest => exact ⟨m, by rw [getD_setFlags_cons]; exact hm, hmk⟩

theorem marked_adopt (hA : Absorb mk) (pf : Flags) (pk : CompKind) {v : Node} {q : Path} (h : Marked mk v q) :
    Marked mk (adopt pf pk v) q := by
  simp only [adopt, inheritInto]
  cases childKw pf pk with
  | none => exact marked_propagate hA h
  | some kw => exact marked_propagate hA (marked_propagate hA (marked_setFlags hA kw h))

theorem getNode_adopt_none (pf : Flags) (pk : CompKind) {v : Node} {q : Path} (h : getNode v q = none) :
    getNode (adopt pf pk v) q = none := by
  simp only [adopt, inheritInto]
  cases childKw pf pk with
  | none => exact getNode_propagate_none h
  | some kw =>
    refine getNode_propagate_none (getNode_propagate_none ?_)
    cases q with
    | nil => simp [getNode] at h
    | cons key rest => rw [getNode_setFlags_cons]; exact h

theorem gom_adopt (hA : Absorb mk) (pf : Flags) (pk : CompKind) {v : Node} {q : Path} (h : GoneOrMarked mk v q) :
    GoneOrMarked mk (adopt pf pk v) q := by
  rcases h with h | h
  · exact .inl (getNode_adopt_none pf pk h)
  · exact .inr (marked_adopt hA pf pk h)

/-! ### the key loop on a dict-family `self` -/

theorem setChild_dict {pf : Flags} {pk : CompKind} (hk : pk.isDictFam = true) (name : Key) (v : Node)
    (cs : List (Key × Node)) : setChild pf pk name v cs = .ok (aset name (adopt pf pk v) cs) := by
  simp [setChild, hk]

theorem replaceChild_dict {pk : CompKind} (hk : pk.isDictFam = true) (key : Key) (v : Node) (cs : List (Key × Node)) :
    replaceChild pk key v cs = aset key v cs := by
  simp [replaceChild, hk]

theorem removeChildE_dict {pf : Flags} {pk : CompKind} (hk : pk.isDictFam = true) {key : Key} {cs cs' : List (Key × Node)}
    (h : removeChildE pf pk key cs = .ok cs') : cs' = aerase key cs := by
  simp only [removeChildE, removeChild, hk, if_true] at h
  split at h
  · rename_i cs'' hr
    split at hr
    · cases hr; cases h; rfl
    · cases hr
  · cases h

theorem getChild_dict {pk : CompKind} (hk : pk.isDictFam = true) (name : Key) (cs : List (Key × Node)) :
    getChild pk name cs = alookup name cs := by
  simp [getChild, hk]

/-- a step for another key leaves the entry under `key` alone -/
theorem mergeStep_other {rec : Node → Node → Except Err (Node × Bool)} {sf : Flags} {sk : CompKind}
    (hk : sk.isDictFam = true) {exc : List Path} {acc acc' : List (Key × Node)} {kv : Key × Node} {key : Key}
    (hne : kv.1 ≠ key) (h : mergeStep rec sf sk exc acc kv = .ok acc') : alookup key acc' = alookup key acc := by
  unfold mergeStep at h
  rw [getChild_dict hk] at h
  split at h
  · split at h
    · cases h
    · rw [setChild_dict hk] at h; cases h; exact alookup_aset_ne hne _ _
  · split at h
    · cases h
    · split at h
      · split at h
        · rw [removeChildE_dict hk h]; exact alookup_aerase_ne hne _
        · split at h
          · cases h; rw [replaceChild_dict hk]; exact alookup_aset_ne hne _ _
          · rw [setChild_dict hk] at h; cases h; exact alookup_aset_ne hne _ _
      · split at h
        · cases h; rw [replaceChild_dict hk]; exact alookup_aset_ne hne _ _
        · split at h
          · cases h
          · split at h
            · rw [removeChildE_dict hk h]; exact alookup_aerase_ne hne _
            · rw [setChild_dict hk] at h; cases h; exact alookup_aset_ne hne _ _

theorem keyOnce_aset_ne {α : Type} {k k' : Key} (h : k' ≠ k) (v : α) : ∀ (l : List (Key × α)),
    keyOnce k (aset k' v l) = keyOnce k l
  | [] => by simp [aset, keyOnce, h]
  | (k2, v2) :: rest => by
    simp only [aset]
    split
    · rename_i h2
      subst h2
      simp [keyOnce, h]
    · rename_i h2
      simp only [keyOnce]
      split
      · simp only [ahas, alookup_aset_ne h]
      · exact keyOnce_aset_ne h v rest

theorem keyOnce_aerase_ne {α : Type} {k k' : Key} (h : k' ≠ k) : ∀ (l : List (Key × α)),
    keyOnce k (aerase k' l) = keyOnce k l
  | [] => rfl
  | (k2, v2) :: rest => by
    simp only [aerase]
    split
    · rename_i h2
      subst h2
      simp [keyOnce, h]
    · simp only [keyOnce]
      split
      · simp only [ahas, alookup_aerase_ne h]
      · exact keyOnce_aerase_ne h rest

theorem mergeStep_other_once {rec : Node → Node → Except Err (Node × Bool)} {sf : Flags} {sk : CompKind}
    (hk : sk.isDictFam = true) {exc : List Path} {acc acc' : List (Key × Node)} {kv : Key × Node} {key : Key}
    (hne : kv.1 ≠ key) (h : mergeStep rec sf sk exc acc kv = .ok acc') : keyOnce key acc' = keyOnce key acc := by
  unfold mergeStep at h
  rw [getChild_dict hk] at h
  split at h
  · split at h
    · cases h
    · rw [setChild_dict hk] at h; cases h; exact keyOnce_aset_ne hne _ _
  · split at h
    · cases h
    · split at h
      · split at h
        · rw [removeChildE_dict hk h]; exact keyOnce_aerase_ne hne _
        · split at h
          · cases h; rw [replaceChild_dict hk]; exact keyOnce_aset_ne hne _ _
          · rw [setChild_dict hk] at h; cases h; exact keyOnce_aset_ne hne _ _
      · split at h
        · cases h; rw [replaceChild_dict hk]; exact keyOnce_aset_ne hne _ _
        · split at h
          · cases h
          · split at h
            · rw [removeChildE_dict hk h]; exact keyOnce_aerase_ne hne _
            · rw [setChild_dict hk] at h; cases h; exact keyOnce_aset_ne hne _ _

theorem mergeLoop_other {rec : Node → Node → Except Err (Node × Bool)} {sf : Flags} {sk : CompKind}
    (hk : sk.isDictFam = true) {exc : List Path} {key : Key} : ∀ (ocs acc acc' : List (Key × Node)),
    (∀ kv, kv ∈ ocs → kv.1 ≠ key) → mergeLoop rec sf sk exc acc ocs = .ok acc' →
    alookup key acc' = alookup key acc
  | [], acc, acc', _, h => by simp only [mergeLoop] at h; cases h; rfl
  | kv :: rest, acc, acc', hne, h => by
    simp only [mergeLoop] at h
    split at h
    · cases h
    · rename_i acc1 hs
      rw [mergeLoop_other hk rest acc1 acc' (fun x hx => hne x (List.mem_cons_of_mem _ hx)) h]
      exact mergeStep_other hk (hne kv (by simp)) hs

/-- when the key is removed by the step: what the loop tested -/
def RemCond (child oc nw : Node) (same : Bool) : Prop :=
  (child.isComp = true ∧ oc.flags.del = some true) ∨
  (child.isComp = false ∧ same = false ∧ nw.flags.del = some true)

/-- what sits under `key` after the step for `key` itself -/
def KeyOutcome (rec : Node → Node → Except Err (Node × Bool)) (sf : Flags) (sk : CompKind) (key : Key) (oc : Node)
    (acc acc' : List (Key × Node)) : Prop :=
  (alookup key acc = none ∧ alookup key acc' = some (adopt sf sk oc)) ∨
  (∃ child nw same, alookup key acc = some child ∧ rec child oc = .ok (nw, same) ∧
    (alookup key acc' = some nw ∨ alookup key acc' = some (adopt sf sk nw) ∨
     (RemCond child oc nw same ∧ (keyOnce key acc = true → alookup key acc' = none))))

theorem mergeStep_key {rec : Node → Node → Except Err (Node × Bool)} {sf : Flags} {sk : CompKind}
    (hk : sk.isDictFam = true) {exc : List Path} {acc acc' : List (Key × Node)} {key : Key} {oc : Node}
    (h : mergeStep rec sf sk exc acc (key, oc) = .ok acc') : KeyOutcome rec sf sk key oc acc acc' := by
  unfold mergeStep at h
  rw [getChild_dict hk] at h
  split at h
  · rename_i hnone
    split at h
    · cases h
    · rw [setChild_dict hk] at h; cases h
      exact .inl ⟨hnone, alookup_aset_self _ _ _⟩
  · rename_i child hsome
    split at h
    · cases h
    · rename_i nw same hr
      refine .inr ⟨child, nw, same, hsome, hr, ?_⟩
      split at h
      · rename_i hcomp
        split at h
        · rename_i hcond
          right; right
          refine ⟨.inl ⟨hcomp, ?_⟩, fun ho => ?_⟩
          · simp only [Bool.and_eq_true, beq_iff_eq] at hcond
            exact hcond.2
          · rw [removeChildE_dict hk h]; exact alookup_aerase_self _ _ ho
        · split at h
          · cases h; left; rw [replaceChild_dict hk]; exact alookup_aset_self _ _ _
          · rw [setChild_dict hk] at h; cases h; right; left; exact alookup_aset_self _ _ _
      · rename_i hcomp
        split at h
        · cases h; left; rw [replaceChild_dict hk]; exact alookup_aset_self _ _ _
        · rename_i hsame
          split at h
          · cases h
          · split at h
            · rename_i hcond
              right; right
              refine ⟨.inr ⟨by simpa using hcomp, by simpa using hsame, ?_⟩, fun ho => ?_⟩
              · simp only [Bool.and_eq_true, beq_iff_eq] at hcond
                exact hcond.2
              · rw [removeChildE_dict hk h]; exact alookup_aerase_self _ _ ho
            · rw [setChild_dict hk] at h; cases h; right; left; exact alookup_aset_self _ _ _

/-- the loop over a newer mapping in which `key` occurs once -/
theorem mergeLoop_key {rec : Node → Node → Except Err (Node × Bool)} {sf : Flags} {sk : CompKind}
    (hk : sk.isDictFam = true) {exc : List Path} {key : Key} {oc : Node} : ∀ (ocs acc acc' : List (Key × Node)),
    keyOnce key ocs = true → alookup key ocs = some oc → mergeLoop rec sf sk exc acc ocs = .ok acc' →
    ∃ acc0 acc1, alookup key acc0 = alookup key acc ∧ keyOnce key acc0 = keyOnce key acc ∧
      KeyOutcome rec sf sk key oc acc0 acc1 ∧ alookup key acc' = alookup key acc1
  | [], acc, acc', _, hl, _ => by simp [alookup] at hl
  | (k, v) :: rest, acc, acc', ho, hl, h => by
    simp only [mergeLoop] at h
    split at h
    · cases h
    · rename_i acc1 hs
      by_cases hkk : k = key
      · subst hkk
        simp only [alookup, if_true, Option.some.injEq] at hl
        subst hl
        simp only [keyOnce, if_true, Bool.not_eq_true'] at ho
        exact ⟨acc, acc1, rfl, rfl, mergeStep_key hk hs,
          mergeLoop_other hk rest acc1 acc' (ahas_false_ne ho) h⟩
      · simp only [alookup, hkk, if_false] at hl
        simp only [keyOnce, hkk, if_false] at ho
        obtain ⟨a0, a1, e1, e2, hout, e3⟩ := mergeLoop_key hk rest acc1 acc' ho hl h
        exact ⟨a0, a1, e1.trans (mergeStep_other hk hkk hs), e2.trans (mergeStep_other_once hk hkk hs), hout, e3⟩

/-! ### a plain non-deleting newer mapping -/

theorem maybePromote_plain (f' : Flags) {sk : CompKind} (hk : sk.isDictFam = true) (scs : List (Key × Node))
    (of : Flags) (ocs : List (Key × Node)) :
    maybePromote f' sk scs (.comp of .dict ocs) = .ok (.comp f' sk scs, true) := by
  cases sk <;> simp [CompKind.isDictFam] at hk <;> rfl

theorem compMerge_plain {rec : Node → Node → Except Err (Node × Bool)} {sf : Flags} {sk : CompKind}
    (hk : sk.isDictFam = true) {scs : List (Key × Node)} {of : Flags} {ocs : List (Key × Node)} {r : Node} {b : Bool}
    (hd : eDel (.comp of .dict ocs) = false) (h : compMerge rec sf sk scs (.comp of .dict ocs) = .ok (r, b)) :
    ∃ scs' f', mergeLoop rec sf sk [] scs ocs = .ok scs' ∧ r = propagate (.comp f' sk scs') := by
  simp only [compMerge, hd, Bool.false_eq_true, if_false] at h
  split at h
  · cases h
  · rename_i scs' hl
    refine ⟨scs', ?_⟩
    unfold finishMerge at h
    split at h
    · rw [maybePromote_plain _ hk] at h
      simp only [Except.ok.injEq, Prod.mk.injEq] at h
      exact ⟨_, hl, h.1.symm⟩
    · rw [maybePromote_plain _ hk] at h
      simp only [Except.ok.injEq, Prod.mk.injEq] at h
      exact ⟨_, hl, h.1.symm⟩

/-- `on_merge` of a dict-family node with a plain non-deleting mapping -/
theorem mergeF_plain {fuel : Nat} {sf : Flags} {sk : CompKind} (hk : sk.isDictFam = true) {scs : List (Key × Node)}
    {of : Flags} {ocs : List (Key × Node)} {r : Node} {b : Bool} (hd : eDel (.comp of .dict ocs) = false)
    (h : mergeF (fuel + 1) (.comp sf sk scs) (.comp of .dict ocs) = .ok (r, b)) :
    ∃ scs' f', mergeLoop (mergeF fuel) sf sk [] scs ocs = .ok scs' ∧ r = propagate (.comp f' sk scs') := by
  cases sk <;> simp [CompKind.isDictFam] at hk
  · exact compMerge_plain (by rfl) hd (by simpa only [mergeF] using h)
  · refine compMerge_plain (b := b) (by rfl) hd ?_
    simpa only [mergeF, funcMerge, CompKind.func?] using h
  · refine compMerge_plain (b := b) (by rfl) hd ?_
    simpa only [mergeF, funcMerge, CompKind.func?] using h

/-! ### the spine conditions -/

/-- strictly above `q`, the (newer) tree consists of plain non-deleting mappings in which the keys of `q`
    occur once; a scalar or a missing key on the way is not allowed to hide `q` … a missing key is -/
def plainAbove : Node → Path → Bool
  | _, [] => true
  | .leaf .., _ :: _ => false
  | .comp f k cs, key :: rest =>
    k == .dict && !eDel (.comp f k cs) && keyOnce key cs &&
      (match alookup key cs with
       | none => true
       | some c => plainAbove c rest)

/-- strictly above `q`, the (older) tree has no list-family container, and the keys of `q` occur once -/
def dfAbove : Node → Path → Bool
  | _, [] => true
  | .leaf .., _ :: _ => true
  | .comp _ k cs, key :: rest =>
    k.isDictFam && keyOnce key cs &&
      (match alookup key cs with
       | none => true
       | some c => dfAbove c rest)

theorem eDel_of_del_true {n : Node} (h : n.flags.del = some true) : eDel n = true := by
  simp [eDel, h]

/-- in the newer tree itself the path leads to the marked node -/
theorem mark_lands_self (hA : Absorb mk) : ∀ (rest : Path) (oc m : Node), plainAbove oc rest = true →
    getNode oc rest = some m → mk m.flags = true → GoneOrMarked mk oc rest
  | [], oc, m, _, hg, hm => by
    simp only [getNode, Option.some.injEq] at hg; subst hg
    exact .inr ⟨_, rfl, hm⟩
  | key :: rest, .leaf .., m, _, hg, _ => by simp [getNode] at hg
  | key :: rest, .comp f k cs, m, hp, hg, hm => by
    simp only [plainAbove, Bool.and_eq_true, beq_iff_eq, Bool.not_eq_true'] at hp
    obtain ⟨⟨⟨rfl, _⟩, _⟩, hsub⟩ := hp
    simp only [getNode] at hg
    cases hc : alookup key cs with
    | none => simp [hc] at hg
    | some c =>
      simp only [hc] at hg hsub
      rcases mark_lands_self hA rest c m hsub hg hm with h | ⟨n, hn, hmk⟩
      · rw [hg] at h; cases h
      · exact .inr ⟨n, by rw [getD_cons_comp (by rfl) hc]; exact hn, hmk⟩


/-- a mark written by the newer tree at `q` is at `q` in the merged tree, if `q` still exists there -/
theorem mark_lands (hA : Absorb mk) : ∀ (fuel : Nat) (q : Path) (s o r : Node) (b : Bool) (m : Node),
    mergeF fuel s o = .ok (r, b) → plainAbove o q = true → dfAbove s q = true →
    getNode o q = some m → mk m.flags = true → GoneOrMarked mk r q
  | fuel, [], s, o, r, b, m, h, _, _, hg, hm => by
    simp only [getNode, Option.some.injEq] at hg; subst hg
    exact .inr ⟨r, rfl, mergeF_mark hA h (.inr hm)⟩
  | 0, key :: rest, s, o, r, b, m, h, _, _, _, _ => by simp [mergeF] at h
  | fuel + 1, key :: rest, s, o, r, b, m, h, hp, hs, hg, hm => by
    cases o with
    | leaf of lk => simp [getNode] at hg
    | comp of ok ocs =>
      simp only [plainAbove, Bool.and_eq_true, beq_iff_eq, Bool.not_eq_true'] at hp
      obtain ⟨⟨⟨rfl, hdel⟩, honce⟩, hsub⟩ := hp
      simp only [getNode] at hg
      cases hoc : alookup key ocs with
      | none => simp [hoc] at hg
      | some oc =>
        simp only [hoc] at hg hsub
        cases s with
        | leaf f k =>
          simp only [mergeF, Except.ok.injEq] at h
          have e1 : r = (leafRule (.leaf f k) (.comp of .dict ocs)).1 := by rw [h]
          subst e1
          unfold leafRule
          split
          · left; rfl
          · -- the newer mapping takes the place of the scalar
            simp only [Node.setFlags]
            refine gom_propagate_comp hA (by rfl) (.inr ⟨oc, hoc, ?_⟩)
            -- the untouched subtree of `o`
            exact mark_lands_self hA rest oc m hsub hg hm
        | comp sf sk scs =>
          simp only [dfAbove, Bool.and_eq_true] at hs
          obtain ⟨⟨hk, hsonce⟩, hssub⟩ := hs
          obtain ⟨scs', f', hl, rfl⟩ := mergeF_plain hk hdel h
          obtain ⟨a0, a1, e1, e2, hout, e3⟩ := mergeLoop_key hk ocs scs scs' honce hoc hl
          refine gom_propagate_comp hA hk ?_
          rw [e3]
          rcases hout with ⟨hnone, hnew⟩ | ⟨child, nw, same, hch, hr, hcase⟩
          · exact .inr ⟨_, hnew, gom_adopt hA sf sk (mark_lands_self hA rest oc m hsub hg hm)⟩
          · rw [e1] at hch
            simp only [hch] at hssub
            have ih := mark_lands hA fuel rest child oc nw same m hr hsub hssub hg hm
            rcases hcase with h1 | h1 | ⟨_, h1⟩
            · exact .inr ⟨_, h1, ih⟩
            · exact .inr ⟨_, h1, gom_adopt hA sf sk ih⟩
            · exact .inl (h1 (by rw [e2]; exact hsonce))


/-! ### a mark of the older tree -/

theorem plainAbove_top_nd {oc : Node} {rest : Path} (hp : plainAbove oc rest = true)
    (hnd : ∀ y, getNode oc rest = some y → eDel y = false) : eDel oc = false := by
  cases rest with
  | nil => exact hnd oc rfl
  | cons k2 rest' =>
    cases oc with
    | leaf f lk => simp [plainAbove] at hp
    | comp f k cs =>
      simp only [plainAbove, Bool.and_eq_true, Bool.not_eq_true'] at hp
      exact hp.1.1.2

theorem mergeF_leaf_notsame_del {fuel : Nat} {s o nw : Node} (hs : s.isComp = false)
    (h : mergeF fuel s o = .ok (nw, false)) : nw.flags.del = o.flags.del := by
  cases fuel with
  | zero => simp [mergeF] at h
  | succ fuel =>
    cases s with
    | comp f k cs => simp [Node.isComp] at hs
    | leaf f k =>
      simp only [mergeF, Except.ok.injEq] at h
      unfold leafRule at h
      split at h
      · simp at h
      · simp only [Prod.mk.injEq, and_true] at h
        rw [← h, propagate_flags, setFlags_flags]
        rfl

theorem alookup_none_ne {α : Type} {key : Key} {l : List (Key × α)} (h : alookup key l = none) :
    ∀ kv, kv ∈ l → kv.1 ≠ key :=
  ahas_false_ne (by simp [ahas, h])

/-- a mark the older tree carries at `q` (below dict-family containers) is at `q` in the merged tree, when the
    newer tree is plain and non-deleting above `q` and not deleting at `q` -/
theorem mark_persists (hA : Absorb mk) : ∀ (fuel : Nat) (q : Path) (s o r : Node) (b : Bool) (m : Node),
    mergeF fuel s o = .ok (r, b) → plainAbove o q = true → (∀ y, getNode o q = some y → eDel y = false) →
    getD s q = some m → mk m.flags = true → Marked mk r q
  | fuel, [], s, o, r, b, m, h, _, _, hg, hm => by
    simp only [getD, Option.some.injEq] at hg; subst hg
    exact ⟨r, rfl, mergeF_mark hA h (.inl hm)⟩
  | 0, key :: rest, s, o, r, b, m, h, _, _, _, _ => by simp [mergeF] at h
  | fuel + 1, key :: rest, s, o, r, b, m, h, hp, hnd, hg, hm => by
    cases o with
    | leaf of lk => simp [plainAbove] at hp
    | comp of ok ocs =>
      simp only [plainAbove, Bool.and_eq_true, beq_iff_eq, Bool.not_eq_true'] at hp
      obtain ⟨⟨⟨rfl, hdel⟩, honce⟩, hsub⟩ := hp
      cases s with
      | leaf f k => simp [getD] at hg
      | comp sf sk scs =>
        simp only [getD] at hg
        split at hg
        · rename_i hk
          split at hg
          · cases hg
          · rename_i child hch
            obtain ⟨scs', f', hl, rfl⟩ := mergeF_plain hk hdel h
            cases hoc : alookup key ocs with
            | none =>
              have e := mergeLoop_other hk (key := key) ocs scs scs' (alookup_none_ne hoc) hl
              exact marked_propagate_comp hA hk (e.trans hch) ⟨m, hg, hm⟩
            | some oc =>
              simp only [hoc] at hsub
              have hnd' : ∀ y, getNode oc rest = some y → eDel y = false := fun y hy =>
                hnd y (by rw [getNode_cons_comp hoc]; exact hy)
              have hocnd : eDel oc = false := plainAbove_top_nd hsub hnd'
              obtain ⟨a0, a1, e1, e2, hout, e3⟩ := mergeLoop_key hk ocs scs scs' honce hoc hl
              rw [hch] at e1
              rcases hout with ⟨hnone, _⟩ | ⟨child', nw, same, hch', hr, hcase⟩
              · rw [e1] at hnone; cases hnone
              · rw [e1] at hch'
                simp only [Option.some.injEq] at hch'
                subst hch'
                have ih := mark_persists hA fuel rest child oc nw same m hr hsub hnd' hg hm
                rcases hcase with h1 | h1 | ⟨hrem, _⟩
                · exact marked_propagate_comp hA hk (e3.trans h1) ih
                · exact marked_propagate_comp hA hk (e3.trans h1) (marked_adopt hA sf sk ih)
                · exfalso
                  rcases hrem with ⟨_, hd⟩ | ⟨hleaf, hsame, hd⟩
                  · rw [eDel_of_del_true hd] at hocnd; cases hocnd
                  · subst hsame
                    rw [mergeF_leaf_notsame_del hleaf hr] at hd
                    rw [eDel_of_del_true hd] at hocnd; cases hocnd
        · cases hg

end AY.C07P
