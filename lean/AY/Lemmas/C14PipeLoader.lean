/-
  AY.Lemmas.C14PipeLoader — the loader, path-wise, for the document-level statements of property C14
  (AY.Props.C14_Pipeline): a `!call` / `!bind` node written in a document below UNTAGGED mappings is found in
  the constructed stage at the same key path, below plain non-deleting mappings (`liveAlong`), and its
  `!required` arguments are placeholders at the argument path (`int i` for the i-th positional argument of a
  sequence node, the key for a keyword argument of a mapping node).

  * `rawAt`                   the raw node at a key path through untagged mappings of a document;
  * `constructTD_spine`       the constructed node at that path is what the loader makes of the raw node,
                              and the spine above it consists of plain non-deleting mappings;
  * `func_seq_arg`, `func_map_arg`   placeholders among the arguments of a tagged function node.
-/
import AY.Lemmas.C14PipeFold
import AY.Lemmas.UpdFrame
import AY.Lemmas.C02Construct
namespace AY.C14P
open AY.C04P

/-- the raw node at a key path through UNTAGGED mappings of a document -/
def rawAt : Path → Raw → Option Raw
  | [], r => some r
  | k :: p, .map .none _ items => (alookup k items).bind (rawAt p)
  | _ :: _, _ => none

/-! ### keys -/

theorem akeys_eq_map {α : Type} : ∀ l : List (Key × α), akeys l = l.map (·.1)
  | [] => rfl
  | (k, v) :: rest => by simp [akeys, akeys_eq_map rest]

theorem keysNodup_eq_ndK {α : Type} : ∀ l : List (Key × α), keysNodup l = KI.ndK (l.map (·.1))
  | [] => rfl
  | (k, v) :: rest => by
    simp only [keysNodup, List.map_cons, KI.ndK, akeys_eq_map, keysNodup_eq_ndK rest]

theorem keyed_keysNodup {f : Flags} {cs : List (Key × Node)} (h : KI.Keyed (.comp f .dict cs) = true) :
    keysNodup cs = true := by
  rw [KI.keyed_comp] at h
  rw [keysNodup_eq_ndK]
  exact ki_topOK_ndK h.1

theorem rawKeyedMap_alookup {k : Key} {r : Raw} : ∀ {items : List (Key × Raw)}, KI.rawKeyedMap items = true →
    alookup k items = some r → KI.rawKeyed r = true
  | [], _, h => by simp [alookup] at h
  | (k', r') :: rest, hk, h => by
    simp only [KI.rawKeyedMap, Bool.and_eq_true] at hk
    simp only [alookup] at h
    split at h
    · injection h with h; subst h; exact hk.1
    · exact rawKeyedMap_alookup hk.2 h

/-! ### the key loop of an untagged mapping -/

/-- `constructTDMap` stores under every key of the document (distinct keys) what the loader makes of its
    value, under the parent's final flags -/
theorem constructTDMap_lookup (env : Env) (pf : Flags) (pk : CompKind) :
    ∀ (items : List (Key × Raw)) (acc cs : List (Key × Node)), constructTDMap env pf pk items acc = .ok cs →
      keysNodup items = true →
      (∀ k, alookup k items = none → alookup k cs = alookup k acc) ∧
      (∀ k sub, alookup k items = some sub →
        ∃ m, constructTD env (some (pf, pk)) sub = .ok m ∧ alookup k cs = some m)
  | [], acc, cs, h, _ => by
    simp only [constructTDMap] at h
    injection h with h
    subst h
    exact ⟨fun _ _ => rfl, fun k sub hs => by simp [alookup] at hs⟩
  | (k0, r0) :: rest, acc, cs, h, hn => by
    have hn' : (akeys rest).contains k0 = false ∧ keysNodup rest = true := by simpa [keysNodup] using hn
    have hk0rest : alookup k0 rest = none := (alookup_none_iff k0 rest).2 hn'.1
    simp only [constructTDMap] at h
    cases hc : constructTD env (some (pf, pk)) r0 with
    | error e => simp [hc] at h
    | ok n0 =>
      simp only [hc] at h
      obtain ⟨ih1, ih2⟩ := constructTDMap_lookup env pf pk rest (aset k0 n0 acc) cs h hn'.2
      refine ⟨?_, ?_⟩
      · intro k hk
        simp only [alookup] at hk
        split at hk
        · cases hk
        · rename_i hne
          rw [ih1 k hk, alookup_aset]
          simp [hne]
      · intro k sub hs
        simp only [alookup] at hs
        split at hs
        · rename_i he
          subst he
          injection hs with hs
          subst hs
          refine ⟨n0, hc, ?_⟩
          rw [ih1 k0 hk0rest, alookup_aset]
          simp
        · exact ih2 k sub hs

/-! ### the spine of untagged mappings -/

/-- nothing explicit or inherited about deletion: the flags of the untagged mappings above the node -/
def SpineFlags (f : Flags) : Prop := f.del = none ∧ f.iDel = none

def SpineParent : Option (Flags × CompKind) → Prop
  | none => True
  | some (pf, pk) => SpineFlags pf ∧ pk = .dict

theorem adoptBy_empty_dict (env : Env) (parent : Option (Flags × CompKind)) (hp : SpineParent parent) :
    ∃ f, adoptBy parent (.comp (bareFlags env) .dict []) = .comp f .dict [] ∧ SpineFlags f := by
  cases parent with
  | none => exact ⟨bareFlags env, rfl, rfl, rfl⟩
  | some pp =>
    obtain ⟨pf, pk⟩ := pp
    obtain ⟨⟨h1, h2⟩, rfl⟩ := hp
    have hkw : childKw pf .dict = some ⟨pf.del.or (pf.iDel.or (if defaultDelete .dict then some true else none)),
        pf.new.or pf.iNew, if pf.iSafe = some false then some false else pf.safe.or pf.iSafe⟩ := rfl
    refine ⟨_, adopt_empty hkw _ _, ?_, ?_⟩
    · rfl
    · simp [updFlags, h1, h2, defaultDelete, Tables.defaultDeleteDict]

theorem eDel_spine {f : Flags} {cs : List (Key × Node)} (h : SpineFlags f) : eDel (.comp f .dict cs) = false := by
  simp [eDel, Node.flags, h.1, h.2, Node.defaultDel, defaultDelete, Tables.defaultDeleteDict]

/-- THE SPINE: the document has the raw node `sub` at the key path `p` through untagged mappings (distinct
    keys): the constructed stage has, at `p` and below plain non-deleting mappings, the node the loader makes
    of `sub` (under some parent) -/
theorem constructTD_spine (env : Env) : ∀ (p : Path) (raw sub : Raw) (parent : Option (Flags × CompKind)) (n : Node),
    SpineParent parent → KI.rawKeyed raw = true → constructTD env parent raw = .ok n → rawAt p raw = some sub →
    liveAlong p n = true ∧ ∃ par m, constructTD env par sub = .ok m ∧ getNode n p = some m
  | [], raw, sub, parent, n, _, _, hc, hat => by
    simp only [rawAt, Option.some.injEq] at hat
    subst hat
    exact ⟨rfl, parent, n, hc, rfl⟩
  | k :: p, .scalar _ _ _, sub, parent, n, _, _, _, hat => by simp [rawAt] at hat
  | k :: p, .seq _ _ _, sub, parent, n, _, _, _, hat => by simp [rawAt] at hat
  | k :: p, .map t kw items, sub, parent, n, hp, hk, hc, hat => by
    cases t <;> try (simp [rawAt] at hat; done)
    simp only [rawAt] at hat
    cases hl : alookup k items with
    | none => simp [hl] at hat
    | some raw' =>
      simp only [hl, Option.bind_some] at hat
      have hkn := KI.constructTD_keyed env parent _ n hk hc
      simp only [KI.rawKeyed, Bool.and_eq_true] at hk
      obtain ⟨f, hf, hsp⟩ := adoptBy_empty_dict env parent hp
      simp only [constructTD, hf] at hc
      cases hm : constructTDMap env f .dict items [] with
      | error e => simp [hm] at hc
      | ok cs =>
        simp only [hm, Except.ok.injEq] at hc
        subst hc
        have hnd : keysNodup items = true := by rw [keysNodup_eq_ndK]; exact hk.1
        obtain ⟨m', hm', hlm⟩ := (constructTDMap_lookup env f .dict items [] cs hm hnd).2 k raw' hl
        obtain ⟨ih1, par, m, h1, h2⟩ := constructTD_spine env p raw' sub (some (f, .dict)) m' ⟨hsp, rfl⟩
          (rawKeyedMap_alookup hk.2 hl) hm' hat
        refine ⟨?_, par, m, h1, by simp [getNode, hlm, h2]⟩
        simp only [liveAlong, eDel_spine hsp, keyed_keysNodup hkn, hlm, ih1, Bool.not_false, Bool.and_self]

/-! ### arguments of a tagged function node -/

theorem skel_adoptBy (parent : Option (Flags × CompKind)) (n : Node) : skel (adoptBy parent n) = skel n := by
  cases parent with
  | none => rfl
  | some pp => exact skel_adopt _ _ _

theorem skelList_initChildren (f : Flags) (k : CompKind) (p? : Option Int) :
    ∀ cs : List (Key × Node), skelList (initChildren f k p? cs) = skelList cs
  | [] => rfl
  | (key, c) :: rest => by
    have ih := skelList_initChildren f k p? rest
    simp only [initChildren, List.map_cons] at ih ⊢
    simp only [skelList, skel_inheritInto, ih]

/-- the class of node a function tag builds -/
def funcKind : TagKind → Option CompKind
  | .call f => some (.call f)
  | .bind f => some (.bind f)
  | _ => none

theorem wrapSeq_func_skel {env : Env} {t : TagKind} {ck : CompKind} {kw : CtorKw} {cs : List (Key × Node)} {n : Node}
    (ht : funcKind t = some ck) (h : wrapSeq env t kw cs = .ok n) : skel n = .comp ck (skelList cs) := by
  cases t <;> simp only [funcKind, Option.some.injEq] at ht <;> try (cases ht; done)
  all_goals
    subst ht
    simp only [wrapSeq] at h
    split at h
    · cases h
    · injection h with h
      subst h
      simp only [skel, skelList_initChildren]

theorem wrapMap_func_skel {env : Env} {t : TagKind} {ck : CompKind} {kw : CtorKw} {cs : List (Key × Node)} {n : Node}
    (ht : funcKind t = some ck) (h : wrapMap env t kw cs = .ok n) : skel n = .comp ck (skelList cs) := by
  cases t <;> simp only [funcKind, Option.some.injEq] at ht <;> try (cases ht; done)
  all_goals
    subst ht
    simp only [wrapMap] at h
    split at h
    · cases h
    · injection h with h
      subst h
      simp only [skel, skelList_initChildren]

theorem constructDeepList_lookup (env : Env) : ∀ (items : List Raw) (j : Nat) (cs : List (Key × Node)),
    constructDeepList env j items = .ok cs → ∀ (i : Nat) (r : Raw), items[i]? = some r →
    ∃ m, constructDeep env r = .ok m ∧ alookup (.int ((j + i : Nat) : Int)) cs = some m
  | [], j, cs, _, i, r, hi => by simp at hi
  | r0 :: rest, j, cs, h, i, r, hi => by
    simp only [constructDeepList] at h
    cases hc : constructDeep env r0 with
    | error e => simp [hc] at h
    | ok n0 =>
      simp only [hc] at h
      cases hl : constructDeepList env (j + 1) rest with
      | error e => simp [hl] at h
      | ok ns =>
        simp only [hl, Except.ok.injEq] at h
        subst h
        cases i with
        | zero =>
          simp only [List.getElem?_cons_zero, Option.some.injEq] at hi
          subst hi
          exact ⟨n0, hc, by simp [alookup]⟩
        | succ i =>
          simp only [List.getElem?_cons_succ] at hi
          obtain ⟨m, hm, hlm⟩ := constructDeepList_lookup env rest (j + 1) ns hl i r hi
          refine ⟨m, hm, ?_⟩
          have hne : ¬ (Key.int (j : Int) = Key.int ((j + (i + 1) : Nat) : Int)) := by
            intro hh; have := Key.int.inj hh; omega
          have e2 : j + 1 + i = j + (i + 1) := by omega
          simp only [alookup, hne, if_false]
          rw [← e2]; exact hlm

theorem constructDeepMap_lookup (env : Env) : ∀ (items : List (Key × Raw)) (cs : List (Key × Node)),
    constructDeepMap env items = .ok cs → ∀ (k : Key) (r : Raw), alookup k items = some r →
    ∃ m, constructDeep env r = .ok m ∧ alookup k cs = some m
  | [], cs, _, k, r, hk => by simp [alookup] at hk
  | (k0, r0) :: rest, cs, h, k, r, hk => by
    simp only [constructDeepMap] at h
    cases hc : constructDeep env r0 with
    | error e => simp [hc] at h
    | ok n0 =>
      simp only [hc] at h
      cases hl : constructDeepMap env rest with
      | error e => simp [hl] at h
      | ok ns =>
        simp only [hl, Except.ok.injEq] at h
        subst h
        simp only [alookup] at hk ⊢
        split at hk
        · rename_i he
          injection hk with hk
          subst hk
          exact ⟨n0, hc, by simp [he]⟩
        · rename_i he
          obtain ⟨m, hm, hlm⟩ := constructDeepMap_lookup env rest ns hl k r hk
          exact ⟨m, hm, by simp [he, hlm]⟩

theorem constructDeep_required (env : Env) (kw : CtorKw) :
    constructDeep env (.scalar .required kw .empty) = .ok (.leaf (mkFlags env kw) .required) := rfl

/-- a positional argument: the i-th item of a `!call` / `!bind` sequence node that is `!required` is a
    placeholder at `int i` of the constructed function node -/
theorem func_seq_arg (env : Env) (par : Option (Flags × CompKind)) (t : TagKind) (ck : CompKind) (kw kw' : CtorKw)
    (items : List Raw) (i : Nat) (m : Node) (ht : funcKind t = some ck)
    (hc : constructTD env par (.seq t kw items) = .ok m) (hi : items[i]? = some (.scalar .required kw' .empty)) :
    (∃ cs, skel m = .comp ck cs) ∧ (skel m).at? [.int (i : Int)] = some (.leaf .required) := by
  have hc' : ∃ n, constructDeep env (.seq t kw items) = .ok n ∧ m = adoptBy par n := by
    cases t <;> simp only [funcKind, Option.some.injEq] at ht <;> try (cases ht; done)
    all_goals
      simp only [constructTD] at hc
      split at hc
      · cases hc
      · rename_i n hn; injection hc with hc; exact ⟨n, hn, hc.symm⟩
  obtain ⟨n, hn, rfl⟩ := hc'
  simp only [constructDeep] at hn
  cases hl : constructDeepList env 0 items with
  | error e => simp [hl] at hn
  | ok cs =>
    simp only [hl] at hn
    have hw : wrapSeq env t kw cs = .ok n := by
      cases t <;> simp only [funcKind, Option.some.injEq] at ht <;> try (cases ht; done)
      all_goals exact hn
    have hs := wrapSeq_func_skel ht hw
    obtain ⟨x, hx, hlx⟩ := constructDeepList_lookup env items 0 cs hl i _ hi
    rw [constructDeep_required] at hx
    injection hx with hx
    subst hx
    rw [skel_adoptBy, hs]
    refine ⟨⟨_, rfl⟩, ?_⟩
    simp only [Nat.zero_add] at hlx
    simp [Skel.at?, alookup_skelList, hlx, skel]

/-- a keyword argument: the value under `j` of a `!call` / `!bind` mapping node that is `!required` is a
    placeholder at `j` of the constructed function node -/
theorem func_map_arg (env : Env) (par : Option (Flags × CompKind)) (t : TagKind) (ck : CompKind) (kw kw' : CtorKw)
    (items : List (Key × Raw)) (j : Key) (m : Node) (ht : funcKind t = some ck)
    (hc : constructTD env par (.map t kw items) = .ok m) (hj : alookup j items = some (.scalar .required kw' .empty)) :
    (∃ cs, skel m = .comp ck cs) ∧ (skel m).at? [j] = some (.leaf .required) := by
  have hc' : ∃ n, constructDeep env (.map t kw items) = .ok n ∧ m = adoptBy par n := by
    cases t <;> simp only [funcKind, Option.some.injEq] at ht <;> try (cases ht; done)
    all_goals
      simp only [constructTD] at hc
      split at hc
      · cases hc
      · rename_i n hn; injection hc with hc; exact ⟨n, hn, hc.symm⟩
  obtain ⟨n, hn, rfl⟩ := hc'
  simp only [constructDeep] at hn
  cases hl : constructDeepMap env items with
  | error e => simp [hl] at hn
  | ok cs =>
    simp only [hl] at hn
    have hs := wrapMap_func_skel ht hn
    obtain ⟨x, hx, hlx⟩ := constructDeepMap_lookup env items cs hl j _ hj
    rw [constructDeep_required] at hx
    injection hx with hx
    subst hx
    rw [skel_adoptBy, hs]
    refine ⟨⟨_, rfl⟩, ?_⟩
    simp [Skel.at?, alookup_skelList, hlx, skel]

theorem skel_eq_comp {n : Node} {ck : CompKind} {cs : List (Key × Skel)} (h : skel n = .comp ck cs) :
    ∃ f cs', n = .comp f ck cs' := by
  cases n with
  | leaf f k => simp [skel] at h
  | comp f k cs' =>
    simp only [skel, Skel.comp.injEq] at h
    exact ⟨f, cs', by rw [h.1]⟩

/-- FROM THE DOCUMENT TO THE STAGE: a tagged function node of the document at `k :: p` below untagged mappings,
    with a `!required` argument (`arg` = its key in the function node: `int i` for the i-th item of a sequence
    node, the key of a mapping node): the stage has the function node at `k :: p` below plain non-deleting
    mappings and the placeholder at `k :: p ++ [arg]` -/
theorem document_function_argument (env : Env) (raw sub : Raw) (n : Node) (k : Key) (p : Path) (ck : CompKind) (arg : Key)
    (hk : KI.rawKeyed raw = true) (hc : construct env raw = .ok n) (hat : rawAt (k :: p) raw = some sub)
    (hsub : ∀ par m, constructTD env par sub = .ok m →
      (∃ cs, skel m = .comp ck cs) ∧ (skel m).at? [arg] = some (.leaf .required)) :
    liveAlong (k :: p) n = true ∧ (∃ f cs, getNode n (k :: p) = some (.comp f ck cs)) ∧
      RequiredAt n (k :: p ++ [arg]) := by
  obtain ⟨hl, par, m, h1, h2⟩ := constructTD_spine env (k :: p) raw sub none n trivial hk hc hat
  obtain ⟨⟨cs, hcs⟩, harg⟩ := hsub par m h1
  obtain ⟨f, cs', rfl⟩ := skel_eq_comp hcs
  refine ⟨hl, ⟨f, cs', h2⟩, ?_⟩
  rw [requiredAt_iff, Skel.at?_append, at_skel, h2]
  exact harg

end AY.C14P
