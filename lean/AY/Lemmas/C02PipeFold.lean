/-
  AY.Lemmas.C02PipeFold — the data laws of ONE recursive update (`C02_upd_no_key_lost`, `C02_upd_frame`,
  `C02_upd_replace` in AY.Props.C02) lifted to paths of any depth and to the whole fold `foldUpd`
  (helpers of AY.Props.C02_Pipeline).  Everything here is about plain data (`Plain`), no flags.

  Path predicates (Boolean: hypotheses of the theorems and filters of the fuzzer,
  notes/fuzz/C02_Pipeline_Fuzz.lean):
  * `skips q y`        the document `y` does not mention `q`: the path leaves `y` below a mapping;
  * `keeps q y`        `y` replaces nothing wholesale strictly above the end of `q`: as far as `q` exists in
                       `y` it runs through mappings (the value AT `q` may be anything);
  * `noListAbove q x`  no list strictly above the end of `q` (a mapping merged onto a list addresses
                       indices, and `Plain.at?` follows mapping keys only);
  * `nodupP`           sibling keys pairwise distinct, hereditarily (true of every tag-free document).
-/
import AY.Lemmas.C02Fold
import AY.Lemmas.UpdFrame
import AY.Lemmas.C05Deep
namespace AY.C02P

/-! ### definitions -/

/-- `q` leaves the document below a mapping: "`q` is not mentioned by the document" -/
def skips : Path → Plain → Bool
  | [], _ => false
  | k :: q, .dict kvs => (match alookup k kvs with | none => true | some c => skips q c)
  | _ :: _, _ => false

/-- as far as `q` exists in the document it runs through mappings: nothing strictly above the end of `q` is
    replaced wholesale by a scalar or a list -/
def keeps : Path → Plain → Bool
  | [], _ => true
  | k :: q, .dict kvs => (match alookup k kvs with | none => true | some c => keeps q c)
  | _ :: _, _ => false

/-- no list strictly above the end of `q` -/
def noListAbove : Path → Plain → Bool
  | [], _ => true
  | k :: q, .dict kvs => (match alookup k kvs with | none => true | some c => noListAbove q c)
  | _ :: _, .list _ => false
  | _ :: _, .scalar _ => true

mutual
/-- sibling keys are pairwise distinct in every mapping of the value -/
def nodupP : Plain → Bool
  | .scalar _ => true
  | .list xs => nodupPL xs
  | .dict kvs => keysNodup kvs && nodupPD kvs
def nodupPL : List Plain → Bool
  | [] => true
  | x :: xs => nodupP x && nodupPL xs
def nodupPD : List (Key × Plain) → Bool
  | [] => true
  | (_, x) :: xs => nodupP x && nodupPD xs
end

def isDictP : Plain → Bool
  | .dict _ => true
  | _ => false

/-! ### tag-free documents have distinct keys -/

theorem akeys_plainOfRawMap : ∀ items : List (Key × Raw), akeys (plainOfRawMap items) = akeys items
  | [] => rfl
  | (k, r) :: rest => by simp [plainOfRawMap, akeys, akeys_plainOfRawMap rest]

theorem keysNodup_plainOfRawMap : ∀ items : List (Key × Raw), keysNodup (plainOfRawMap items) = keysNodup items
  | [] => rfl
  | (k, r) :: rest => by
    simp [plainOfRawMap, keysNodup, akeys_plainOfRawMap rest, keysNodup_plainOfRawMap rest]

mutual
theorem nodupP_plainOfRaw : ∀ r : Raw, rawPlainSub r = true → nodupP (plainOfRaw r) = true
  | .scalar t kw v, _ => rfl
  | .seq t kw items, h => by
    have h' := (rawPlainSub_seq h).2
    simp only [plainOfRaw, nodupP]
    exact nodupPL_plainOfRawList items h'
  | .map t kw items, h => by
    have h' := (rawPlainSub_map h).2
    simp only [plainOfRaw, nodupP, Bool.and_eq_true, keysNodup_plainOfRawMap]
    exact ⟨h'.1, nodupPD_plainOfRawMap items h'.2⟩
theorem nodupPL_plainOfRawList : ∀ items : List Raw, rawPlainSeq items = true → nodupPL (plainOfRawList items) = true
  | [], _ => rfl
  | r :: rest, h => by
    simp only [rawPlainSeq, Bool.and_eq_true] at h
    simp only [plainOfRawList, nodupPL, Bool.and_eq_true]
    exact ⟨nodupP_plainOfRaw r h.1, nodupPL_plainOfRawList rest h.2⟩
theorem nodupPD_plainOfRawMap : ∀ items : List (Key × Raw), rawPlainMap items = true →
    nodupPD (plainOfRawMap items) = true
  | [], _ => rfl
  | (k, r) :: rest, h => by
    simp only [rawPlainMap, Bool.and_eq_true] at h
    simp only [plainOfRawMap, nodupPD, Bool.and_eq_true]
    exact ⟨nodupP_plainOfRaw r h.1, nodupPD_plainOfRawMap rest h.2⟩
end

theorem nodupP_doc {r : Raw} (h : rawPlain r = true) : nodupP (plainOfRaw r) = true := by
  cases r with
  | map t kw items => exact nodupP_plainOfRaw _ h
  | scalar t kw v => simp [rawPlain] at h
  | seq t kw items => simp [rawPlain] at h

theorem nodupPD_alookup {k : Key} {c : Plain} : ∀ {kvs : List (Key × Plain)}, nodupPD kvs = true →
    alookup k kvs = some c → nodupP c = true
  | [], _, h => by simp [alookup] at h
  | (k', c') :: rest, hn, h => by
    simp only [nodupPD, Bool.and_eq_true] at hn
    simp only [alookup] at h
    split at h
    · injection h with h; subst h; exact hn.1
    · exact nodupPD_alookup hn.2 h

theorem nodupP_dict {kvs : List (Key × Plain)} (h : nodupP (.dict kvs) = true) :
    keysNodup kvs = true ∧ ∀ k c, alookup k kvs = some c → nodupP c = true := by
  simp only [nodupP, Bool.and_eq_true] at h
  exact ⟨h.1, fun k c hc => nodupPD_alookup h.2 hc⟩

/-! ### data at a path -/

theorem at_dict (kvs : List (Key × Plain)) (k : Key) (q : Path) :
    (Plain.dict kvs).at? (k :: q) = (alookup k kvs).bind (Plain.at? q) := rfl

theorem at_list (xs : List Plain) (k : Key) (q : Path) : (Plain.list xs).at? (k :: q) = none := rfl
theorem at_scalar (v : Scalar) (k : Key) (q : Path) : (Plain.scalar v).at? (k :: q) = none := rfl

theorem at_none_of_skips : ∀ (q : Path) (y : Plain), skips q y = true → y.at? q = none
  | [], _, h => by simp [skips] at h
  | k :: q, .dict kvs, h => by
    simp only [skips] at h
    rw [at_dict]
    cases hl : alookup k kvs with
    | none => rfl
    | some c => rw [hl] at h; simp [at_none_of_skips q c h]
  | k :: q, .list _, h => by simp [skips] at h
  | k :: q, .scalar _, h => by simp [skips] at h

theorem at_append : ∀ (q q' : Path) (x : Plain), x.at? (q ++ q') = (x.at? q).bind (Plain.at? q')
  | [], q', x => rfl
  | k :: q, q', .scalar _ => rfl
  | k :: q, q', .list _ => rfl
  | k :: q, q', .dict kvs => by
    rw [List.cons_append, at_dict, at_dict]
    cases alookup k kvs with
    | none => rfl
    | some c => simp [at_append q q' c]

/-- nothing is stored below a value that is not a mapping -/
theorem at_below_leaf {v : Plain} (hv : isDictP v = false) : ∀ q', q' ≠ [] → v.at? q' = none := by
  intro q' hq
  cases q' with
  | nil => exact absurd rfl hq
  | cons k q => cases v <;> first | rfl | simp [isDictP] at hv

/-! ### a successful mapping update, key by key -/

/-- on success the recursive update of every common key succeeded and is what the key holds -/
theorem updDict_common (rec : Plain → Plain → Except Err Plain) :
    ∀ (bs as rs : List (Key × Plain)), updF.updDict rec as bs = .ok rs → keysNodup bs = true →
      ∀ k va vb, alookup k as = some va → alookup k bs = some vb → ∃ v, rec va vb = .ok v ∧ alookup k rs = some v
  | [], as, rs, h, _, k, va, vb, _, hb => by simp [alookup] at hb
  | (k', vb') :: rest, as, rs, h, hnd, k, va, vb, ha, hb => by
    have hnd' : (akeys rest).contains k' = false ∧ keysNodup rest = true := by
      simpa [keysNodup] using hnd
    have hk'rest : alookup k' rest = none := (alookup_none_iff k' rest).2 hnd'.1
    have hpt := updDict_pointwise rec ((k', vb') :: rest) as rs h hnd k
    rw [hb, ha] at hpt
    simp only at hpt
    rw [updDict_cons] at h
    by_cases hk : k' = k
    · subst hk
      simp only [alookup, if_true, Option.some.injEq] at hb
      subst hb
      simp only [ha] at h
      cases hr : rec va vb' with
      | error e => simp [hr] at h
      | ok v => exact ⟨v, rfl, by rw [hpt, hr]; rfl⟩
    · simp only [alookup, hk, if_false] at hb
      cases hl : alookup k' as with
      | none =>
        simp only [hl] at h
        exact updDict_common rec rest _ rs h hnd'.2 k va vb (by rw [alookup_aset]; simp [hk, ha]) hb
      | some va' =>
        simp only [hl] at h
        cases hr : rec va' vb' with
        | error e => simp [hr] at h
        | ok v' =>
          simp only [hr] at h
          exact updDict_common rec rest _ rs h hnd'.2 k va vb (by rw [alookup_aset]; simp [hk, ha]) hb

/-- a successful update of a mapping by a mapping (distinct newer keys), key by key -/
theorem upd_dict_cases {fuel : Nat} {as bs : List (Key × Plain)} {r : Plain}
    (h : updF fuel (.dict as) (.dict bs) = .ok r) (hnd : keysNodup bs = true) :
    ∃ fuel' rs, fuel = fuel' + 1 ∧ r = .dict rs ∧
      (∀ k, alookup k bs = none → alookup k rs = alookup k as) ∧
      (∀ k vb, alookup k bs = some vb → alookup k as = none → alookup k rs = some vb) ∧
      (∀ k va vb, alookup k as = some va → alookup k bs = some vb →
        ∃ v, updF fuel' va vb = .ok v ∧ alookup k rs = some v) := by
  cases fuel with
  | zero => simp [updF] at h
  | succ fuel' =>
    rw [updF_dict_dict] at h
    cases hu : updF.updDict (updF fuel') as bs with
    | error e => simp [hu, Except.map] at h
    | ok rs =>
      simp only [hu, Except.map] at h
      injection h with h
      refine ⟨fuel', rs, rfl, h.symm, ?_, ?_, ?_⟩
      · intro k hk
        have := updDict_pointwise _ bs as rs hu hnd k
        rw [hk] at this
        exact this
      · intro k vb hk ha
        have := updDict_pointwise _ bs as rs hu hnd k
        rw [hk, ha] at this
        exact this
      · intro k va vb ha hb
        exact updDict_common _ bs as rs hu hnd k va vb ha hb

theorem upd_scalar_left {fuel : Nat} {v : Scalar} {b r : Plain} (h : updF fuel (.scalar v) b = .ok r) : r = b := by
  cases fuel with
  | zero => simp [updF] at h
  | succ fuel => rw [updF_scalar_left] at h; injection h with h; exact h.symm

theorem upd_nondict_right {fuel : Nat} {a b r : Plain} (hb : isDictP b = false) (h : updF fuel a b = .ok r) : r = b := by
  cases fuel with
  | zero => simp [updF] at h
  | succ fuel =>
    cases b with
    | scalar v => rw [updF_scalar_right] at h; injection h with h; exact h.symm
    | list xs => rw [updF_list_right] at h; injection h with h; exact h.symm
    | dict bs => simp [isDictP] at hb

theorem upd_list_left_isList {fuel : Nat} {xs : List Plain} {bs : List (Key × Plain)} {r : Plain}
    (h : updF fuel (.list xs) (.dict bs) = .ok r) : ∃ ys, r = .list ys := by
  cases fuel with
  | zero => simp [updF] at h
  | succ fuel =>
    rw [updF_list_dict] at h
    split at h
    · cases hu : updF.updList (updF fuel) xs bs with
      | error e => simp [hu, Except.map] at h
      | ok ys => simp only [hu, Except.map] at h; injection h with h; exact ⟨ys, h.symm⟩
    · cases h

/-! ### ONE update, at a path of any depth -/

/-- FRAME: a path the newer value does not mention keeps what it held -/
theorem upd_frame_at : ∀ (q : Path) (fuel : Nat) (a b r : Plain), updF fuel a b = .ok r → nodupP b = true →
    skips q b = true → r.at? q = a.at? q
  | [], _, _, _, _, _, _, hs => by simp [skips] at hs
  | k :: q, fuel, a, .scalar _, r, _, _, hs => by simp [skips] at hs
  | k :: q, fuel, a, .list _, r, _, _, hs => by simp [skips] at hs
  | k :: q, fuel, a, .dict bs, r, h, hn, hs => by
    obtain ⟨hnd, hsub⟩ := nodupP_dict hn
    simp only [skips] at hs
    cases a with
    | scalar v =>
      rw [upd_scalar_left h, at_scalar, at_dict]
      cases hl : alookup k bs with
      | none => rfl
      | some c => rw [hl] at hs; simp [at_none_of_skips q c hs]
    | list xs =>
      obtain ⟨ys, rfl⟩ := upd_list_left_isList h
      rfl
    | dict as =>
      obtain ⟨fuel', rs, rfl, rfl, c1, c2, c3⟩ := upd_dict_cases h hnd
      rw [at_dict, at_dict]
      cases hl : alookup k bs with
      | none => rw [c1 k hl]
      | some c =>
        rw [hl] at hs
        cases hla : alookup k as with
        | none => rw [c2 k c hl hla]; simp [at_none_of_skips q c hs]
        | some va =>
          obtain ⟨v, hv, hr⟩ := c3 k va c hla hl
          rw [hr]
          simp only [Option.bind_some]
          exact upd_frame_at q fuel' va c v hv (hsub k c hl) hs

/-- WRITE: what the newer value holds at `q` is present afterwards; a non-mapping value is there as it is.
    (No list of the older value strictly above the end of `q`: a mapping merged onto a list addresses
    indices.) -/
theorem upd_write_at : ∀ (q : Path) (fuel : Nat) (a b r v : Plain), updF fuel a b = .ok r → nodupP b = true →
    b.at? q = some v → noListAbove q a = true →
    (r.at? q).isSome = true ∧ (isDictP v = false → r.at? q = some v)
  | [], fuel, a, b, r, v, h, _, hv, _ => by
    simp only [Plain.at?, Option.some.injEq] at hv
    subst hv
    exact ⟨rfl, fun hd => by rw [upd_nondict_right hd h]; rfl⟩
  | k :: q, fuel, a, .scalar _, r, v, _, _, hv, _ => by simp [Plain.at?] at hv
  | k :: q, fuel, a, .list _, r, v, _, _, hv, _ => by simp [Plain.at?] at hv
  | k :: q, fuel, a, .dict bs, r, v, h, hn, hv, hl => by
    obtain ⟨hnd, hsub⟩ := nodupP_dict hn
    rw [at_dict] at hv
    cases hlb : alookup k bs with
    | none => simp [hlb] at hv
    | some c =>
      simp only [hlb, Option.bind_some] at hv
      cases a with
      | scalar s =>
        rw [upd_scalar_left h, at_dict, hlb]
        simp only [Option.bind_some, hv]
        exact ⟨rfl, fun _ => trivial⟩
      | list xs => simp [noListAbove] at hl
      | dict as =>
        obtain ⟨fuel', rs, rfl, rfl, c1, c2, c3⟩ := upd_dict_cases h hnd
        rw [at_dict]
        cases hla : alookup k as with
        | none =>
          rw [c2 k c hlb hla]
          simp only [Option.bind_some, hv]
          exact ⟨rfl, fun _ => trivial⟩
        | some va =>
          obtain ⟨w, hw, hr⟩ := c3 k va c hla hlb
          rw [hr]
          simp only [Option.bind_some]
          simp only [noListAbove, hla] at hl
          exact upd_write_at q fuel' va c w v hw (hsub k c hlb) hv hl

/-- NO KEY IS LOST: a key path of the older value is still a key path afterwards, unless the newer value
    replaces something strictly above its end wholesale -/
theorem upd_keep_at : ∀ (q : Path) (fuel : Nat) (a b r : Plain), updF fuel a b = .ok r → nodupP b = true →
    (a.at? q).isSome = true → keeps q b = true → (r.at? q).isSome = true
  | [], _, _, _, _, _, _, _, _ => rfl
  | k :: q, fuel, a, .scalar _, r, _, _, _, hk => by simp [keeps] at hk
  | k :: q, fuel, a, .list _, r, _, _, _, hk => by simp [keeps] at hk
  | k :: q, fuel, a, .dict bs, r, h, hn, ha, hk => by
    obtain ⟨hnd, hsub⟩ := nodupP_dict hn
    cases a with
    | scalar s => simp [Plain.at?] at ha
    | list xs => simp [Plain.at?] at ha
    | dict as =>
      rw [at_dict] at ha
      cases hla : alookup k as with
      | none => simp [hla] at ha
      | some va =>
        simp only [hla, Option.bind_some] at ha
        obtain ⟨fuel', rs, rfl, rfl, c1, c2, c3⟩ := upd_dict_cases h hnd
        rw [at_dict]
        cases hlb : alookup k bs with
        | none => rw [c1 k hlb, hla]; exact ha
        | some c =>
          obtain ⟨w, hw, hr⟩ := c3 k va c hla hlb
          rw [hr]
          simp only [Option.bind_some]
          simp only [keeps, hlb] at hk
          exact upd_keep_at q fuel' va c w hw (hsub k c hlb) ha hk

/-- lists above a path come from the documents only -/
theorem upd_noListAbove : ∀ (q : Path) (fuel : Nat) (a b r : Plain), updF fuel a b = .ok r → nodupP b = true →
    noListAbove q a = true → noListAbove q b = true → noListAbove q r = true
  | [], _, _, _, _, _, _, _, _ => rfl
  | k :: q, fuel, a, .scalar s, r, h, _, _, _ => by rw [upd_nondict_right rfl h]; rfl
  | k :: q, fuel, a, .list _, r, _, _, _, hb => by simp [noListAbove] at hb
  | k :: q, fuel, a, .dict bs, r, h, hn, ha, hb => by
    obtain ⟨hnd, hsub⟩ := nodupP_dict hn
    cases a with
    | scalar s => rw [upd_scalar_left h]; exact hb
    | list xs => simp [noListAbove] at ha
    | dict as =>
      obtain ⟨fuel', rs, rfl, rfl, c1, c2, c3⟩ := upd_dict_cases h hnd
      simp only [noListAbove] at ha hb ⊢
      cases hlb : alookup k bs with
      | none => rw [c1 k hlb]; exact ha
      | some c =>
        rw [hlb] at hb
        cases hla : alookup k as with
        | none => rw [c2 k c hlb hla]; exact hb
        | some va =>
          rw [hla] at ha
          obtain ⟨w, hw, hr⟩ := c3 k va c hla hlb
          rw [hr]
          exact upd_noListAbove q fuel' va c w hw (hsub k c hlb) ha hb

/-! ### errors of the specification -/

theorem depth_mem_D {k : Key} {v : Plain} : ∀ {bs : List (Key × Plain)}, (k, v) ∈ bs → v.depth ≤ plainDepthD bs
  | [], h => by cases h
  | (k', v') :: rest, h => by
    simp only [plainDepthD]
    rcases List.mem_cons.1 h with e | h
    · injection e with _ e2; subst e2; exact Nat.le_max_left _ _
    · exact Nat.le_trans (depth_mem_D h) (Nat.le_max_right _ _)

theorem updDict_error (rec : Plain → Plain → Except Err Plain) :
    ∀ (bs as : List (Key × Plain)) (e : Err), updF.updDict rec as bs = .error e →
      ∃ k vb va, (k, vb) ∈ bs ∧ rec va vb = .error e
  | [], as, e, h => by simp [updF.updDict] at h
  | (k, vb) :: rest, as, e, h => by
    simp only [updF.updDict] at h
    cases hl : alookup k as with
    | none =>
      simp only [hl] at h
      obtain ⟨k', vb', va', hm, hr⟩ := updDict_error rec rest _ e h
      exact ⟨k', vb', va', List.mem_cons_of_mem _ hm, hr⟩
    | some va =>
      simp only [hl] at h
      cases hr : rec va vb with
      | error e' =>
        simp only [hr] at h
        injection h with h
        subst h
        exact ⟨k, vb, va, List.mem_cons_self, hr⟩
      | ok v =>
        simp only [hr] at h
        obtain ⟨k', vb', va', hm, hr'⟩ := updDict_error rec rest _ e h
        exact ⟨k', vb', va', List.mem_cons_of_mem _ hm, hr'⟩

theorem updList_error (rec : Plain → Plain → Except Err Plain) :
    ∀ (bs : List (Key × Plain)) (as : List Plain) (e : Err), updF.updList rec as bs = .error e →
      e = .merge ∨ ∃ k vb va, (k, vb) ∈ bs ∧ rec va vb = .error e
  | [], as, e, h => by simp [updF.updList] at h
  | (k, vb) :: rest, as, e, h => by
    simp only [updF.updList] at h
    split at h
    · injection h with h; exact .inl h.symm
    · split at h
      · injection h with h; exact .inl h.symm
      · rename_i i _ va _
        cases hr : rec va vb with
        | error e' =>
          simp only [hr] at h
          injection h with h
          subst h
          exact .inr ⟨k, vb, va, List.mem_cons_self, hr⟩
        | ok v =>
          simp only [hr] at h
          rcases updList_error rec rest _ e h with h' | ⟨k', vb', va', hm, hr'⟩
          · exact .inl h'
          · exact .inr ⟨k', vb', va', List.mem_cons_of_mem _ hm, hr'⟩

/-- with enough fuel the only error of the specification is the MergeError of a mapping onto a list -/
theorem updF_error_merge : ∀ (fuel : Nat) (a b : Plain) (e : Err), b.depth < fuel → updF fuel a b = .error e →
    e = .merge
  | 0, _, _, _, hd, _ => by omega
  | fuel + 1, a, .scalar v, e, _, h => by rw [updF_scalar_right] at h; cases h
  | fuel + 1, a, .list xs, e, _, h => by rw [updF_list_right] at h; cases h
  | fuel + 1, .scalar s, .dict bs, e, _, h => by rw [updF_scalar_left] at h; cases h
  | fuel + 1, .dict as, .dict bs, e, hd, h => by
    rw [updF_dict_dict] at h
    cases hu : updF.updDict (updF fuel) as bs with
    | ok rs => simp [hu, Except.map] at h
    | error e' =>
      simp only [hu, Except.map] at h
      injection h with h
      subst h
      obtain ⟨k, vb, va, hm, hr⟩ := updDict_error _ bs as e' hu
      have := depth_mem_D hm
      simp only [Plain.depth] at hd
      exact updF_error_merge fuel va vb e' (by omega) hr
  | fuel + 1, .list as, .dict bs, e, hd, h => by
    rw [updF_list_dict] at h
    split at h
    · cases hu : updF.updList (updF fuel) as bs with
      | ok rs => simp [hu, Except.map] at h
      | error e' =>
        simp only [hu, Except.map] at h
        injection h with h
        subst h
        rcases updList_error _ bs as e' hu with h' | ⟨k, vb, va, hm, hr⟩
        · exact h'
        · have := depth_mem_D hm
          simp only [Plain.depth] at hd
          exact updF_error_merge fuel va vb e' (by omega) hr
    · injection h with h; exact h.symm

theorem allIndices_false {len : Nat} {k : Key} : ∀ {bs : List (Key × Plain)}, (alookup k bs).isSome = true →
    listIndex len k = none → allIndices len bs = false
  | [], h, _ => by simp [alookup] at h
  | (k', v) :: rest, h, hb => by
    simp only [allIndices, Bool.and_eq_false_iff]
    simp only [alookup] at h
    split at h
    · rename_i hk; subst hk; left; simp [hb]
    · right; exact allIndices_false h hb

/-- INDEX ERROR at a path: the older value holds a list at `q`, the newer one a mapping with a key that is no
    existing index: the update does not succeed -/
theorem upd_index_error_at : ∀ (q : Path) (fuel : Nat) (a b : Plain) (xs : List Plain) (bs : List (Key × Plain))
    (kbad : Key), nodupP b = true → a.at? q = some (.list xs) → b.at? q = some (.dict bs) →
    (alookup kbad bs).isSome = true → listIndex xs.length kbad = none → ∀ r, updF fuel a b ≠ .ok r
  | [], fuel, a, b, xs, bs, kbad, _, ha, hb, hk, hbad, r => by
    simp only [Plain.at?, Option.some.injEq] at ha hb
    subst ha; subst hb
    cases fuel with
    | zero => simp [updF]
    | succ fuel => rw [updF_list_dict, allIndices_false hk hbad]; simp
  | k :: q, fuel, a, .scalar _, xs, bs, kbad, _, _, hb, _, _, r => by simp [Plain.at?] at hb
  | k :: q, fuel, a, .list _, xs, bs, kbad, _, _, hb, _, _, r => by simp [Plain.at?] at hb
  | k :: q, fuel, a, .dict bs0, xs, bs, kbad, hn, ha, hb, hk, hbad, r => by
    obtain ⟨hnd, hsub⟩ := nodupP_dict hn
    intro h
    cases a with
    | scalar s => simp [Plain.at?] at ha
    | list ys => simp [Plain.at?] at ha
    | dict as =>
      rw [at_dict] at ha hb
      cases hla : alookup k as with
      | none => simp [hla] at ha
      | some va =>
        cases hlb : alookup k bs0 with
        | none => simp [hlb] at hb
        | some vb =>
          simp only [hla, hlb, Option.bind_some] at ha hb
          obtain ⟨fuel', rs, rfl, rfl, c1, c2, c3⟩ := upd_dict_cases h hnd
          obtain ⟨w, hw, _⟩ := c3 k va vb hla hlb
          exact upd_index_error_at q fuel' va vb xs bs kbad (hsub k vb hlb) ha hb hk hbad w hw

/-! ### the fold -/

theorem foldUpd_append (pre post : List Plain) (hp : pre ≠ []) :
    foldUpd (pre ++ post) = post.foldl updStep (foldUpd pre) := by
  cases pre with
  | nil => exact absurd rfl hp
  | cons d ds => simp only [List.cons_append, foldUpd_cons, List.foldl_append]

theorem fold_ok_prefix : ∀ (post : List Plain) (x : Except Err Plain) (r : Plain),
    post.foldl updStep x = .ok r → ∃ a, x = .ok a
  | post, .ok a, r, _ => ⟨a, rfl⟩
  | post, .error e, r, h => by rw [foldl_updStep_error] at h; cases h

theorem fold_cons_ok {y : Plain} {rest : List Plain} {a r : Plain}
    (h : (y :: rest).foldl updStep (.ok a) = .ok r) : ∃ a1, upd a y = .ok a1 ∧ rest.foldl updStep (.ok a1) = .ok r := by
  simp only [List.foldl, updStep] at h
  obtain ⟨a1, ha1⟩ := fold_ok_prefix rest _ r h
  exact ⟨a1, ha1, by rw [ha1] at h; exact h⟩

/-- FRAME over any number of later documents -/
theorem fold_frame (q : Path) : ∀ (post : List Plain) (a r : Plain), post.foldl updStep (.ok a) = .ok r →
    (∀ y, y ∈ post → nodupP y = true ∧ skips q y = true) → r.at? q = a.at? q
  | [], a, r, h, _ => by simp only [List.foldl] at h; injection h with h; rw [h]
  | y :: rest, a, r, h, hy => by
    obtain ⟨a1, h1, h2⟩ := fold_cons_ok h
    have hy1 := hy y (by simp)
    rw [fold_frame q rest a1 r h2 (fun z hz => hy z (List.mem_cons_of_mem _ hz))]
    exact upd_frame_at q _ a y a1 h1 hy1.1 hy1.2

/-- NO KEY IS LOST over any number of later documents -/
theorem fold_keep (q : Path) : ∀ (post : List Plain) (a r : Plain), post.foldl updStep (.ok a) = .ok r →
    (∀ y, y ∈ post → nodupP y = true ∧ keeps q y = true) → (a.at? q).isSome = true → (r.at? q).isSome = true
  | [], a, r, h, _, ha => by simp only [List.foldl] at h; injection h with h; rw [← h]; exact ha
  | y :: rest, a, r, h, hy, ha => by
    obtain ⟨a1, h1, h2⟩ := fold_cons_ok h
    have hy1 := hy y (by simp)
    exact fold_keep q rest a1 r h2 (fun z hz => hy z (List.mem_cons_of_mem _ hz))
      (upd_keep_at q _ a y a1 h1 hy1.1 ha hy1.2)

/-- no list above `q` in any document: none in the fold -/
theorem fold_noListAbove (q : Path) : ∀ (post : List Plain) (a r : Plain), post.foldl updStep (.ok a) = .ok r →
    (∀ y, y ∈ post → nodupP y = true ∧ noListAbove q y = true) → noListAbove q a = true → noListAbove q r = true
  | [], a, r, h, _, ha => by simp only [List.foldl] at h; injection h with h; rw [← h]; exact ha
  | y :: rest, a, r, h, hy, ha => by
    obtain ⟨a1, h1, h2⟩ := fold_cons_ok h
    have hy1 := hy y (by simp)
    exact fold_noListAbove q rest a1 r h2 (fun z hz => hy z (List.mem_cons_of_mem _ hz))
      (upd_noListAbove q _ a y a1 h1 hy1.1 ha hy1.2)

theorem foldUpd_noListAbove (q : Path) (pre : List Plain) (a : Plain) (h : foldUpd pre = .ok a)
    (hp : ∀ x, x ∈ pre → nodupP x = true ∧ noListAbove q x = true) : noListAbove q a = true := by
  cases pre with
  | nil => simp [foldUpd] at h
  | cons d ds =>
    rw [foldUpd_cons] at h
    exact fold_noListAbove q ds d a h (fun y hy => hp y (List.mem_cons_of_mem _ hy)) (hp d (by simp)).2

/-- the state of the fold right after the document `d` (at position `pre.length`) was merged -/
theorem foldUpd_split (pre : List Plain) (d : Plain) (post : List Plain) (r : Plain)
    (h : foldUpd (pre ++ d :: post) = .ok r) :
    ∃ a1, foldUpd (pre ++ [d]) = .ok a1 ∧ post.foldl updStep (.ok a1) = .ok r := by
  have e1 : pre ++ d :: post = (pre ++ [d]) ++ post := by simp
  rw [e1, foldUpd_append _ _ (by simp)] at h
  obtain ⟨a1, ha1⟩ := fold_ok_prefix post _ r h
  exact ⟨a1, ha1, by rw [ha1] at h; exact h⟩

/-- … and how it came about: `d` itself when it is the first document, else one update of what the earlier
    documents fold to -/
theorem foldUpd_snoc (pre : List Plain) (d a1 : Plain) (h : foldUpd (pre ++ [d]) = .ok a1) :
    (pre = [] ∧ a1 = d) ∨ (pre ≠ [] ∧ ∃ a, foldUpd pre = .ok a ∧ upd a d = .ok a1) := by
  cases pre with
  | nil =>
    left
    simp only [List.nil_append, foldUpd_cons, List.foldl] at h
    injection h with h
    exact ⟨rfl, h.symm⟩
  | cons d0 ds =>
    right
    refine ⟨by simp, ?_⟩
    rw [foldUpd_append _ _ (by simp)] at h
    obtain ⟨a, ha⟩ := fold_ok_prefix [d] _ a1 h
    refine ⟨a, ha, ?_⟩
    rw [ha] at h
    simpa [List.foldl, updStep] using h

/-- WRITE, then FRAME / KEEP: the document `d` holds `v` at `q` -/
theorem foldUpd_write (q : Path) (pre : List Plain) (d : Plain) (a1 v : Plain)
    (h : foldUpd (pre ++ [d]) = .ok a1) (hd : nodupP d = true) (hv : d.at? q = some v)
    (hp : ∀ x, x ∈ pre → nodupP x = true ∧ noListAbove q x = true) :
    (a1.at? q).isSome = true ∧ (isDictP v = false → a1.at? q = some v) := by
  rcases foldUpd_snoc pre d a1 h with ⟨_, rfl⟩ | ⟨_, a, ha, hu⟩
  · rw [hv]; exact ⟨rfl, fun _ => rfl⟩
  · exact upd_write_at q _ a d a1 v hu hd hv (foldUpd_noListAbove q pre a ha hp)

/-- INDEX ERROR, whatever comes later -/
theorem foldUpd_index_error (q : Path) (pre : List Plain) (d : Plain) (post : List Plain) (a : Plain)
    (xs : List Plain) (bs : List (Key × Plain)) (kbad : Key) (hp : pre ≠ [])
    (ha : foldUpd pre = .ok a) (hd : nodupP d = true) (hax : a.at? q = some (.list xs))
    (hdx : d.at? q = some (.dict bs)) (hk : (alookup kbad bs).isSome = true)
    (hbad : listIndex xs.length kbad = none) :
    foldUpd (pre ++ d :: post) = .error .merge := by
  rw [foldUpd_append _ _ hp, ha]
  simp only [List.foldl, updStep]
  have : upd a d = .error .merge := by
    cases hu : upd a d with
    | ok r => exact absurd hu (upd_index_error_at q _ a d xs bs kbad hd hax hdx hk hbad r)
    | error e => rw [updF_error_merge _ a d e (Nat.lt_succ_self _) hu]
  rw [this, foldl_updStep_error]

/-! ### a Boolean equality on plain data (`Plain` has no `DecidableEq`), for the non-vacuity examples -/

mutual
def peq : Plain → Plain → Bool
  | .scalar a, x => (match x with | .scalar b => decide (a = b) | _ => false)
  | .list a, x => (match x with | .list b => peqL a b | _ => false)
  | .dict a, x => (match x with | .dict b => peqD a b | _ => false)
def peqL : List Plain → List Plain → Bool
  | [], x => (match x with | [] => true | _ => false)
  | a :: as, x => (match x with | b :: bs => peq a b && peqL as bs | _ => false)
def peqD : List (Key × Plain) → List (Key × Plain) → Bool
  | [], x => (match x with | [] => true | _ => false)
  | (k, a) :: as, x => (match x with | (k', b) :: bs => decide (k = k') && peq a b && peqD as bs | _ => false)
end

mutual
theorem peq_sound : ∀ (a b : Plain), peq a b = true → a = b
  | .scalar a, .scalar b, h => by simp [peq] at h; rw [h]
  | .scalar _, .list _, h => by simp [peq] at h
  | .scalar _, .dict _, h => by simp [peq] at h
  | .list a, .list b, h => by simp only [peq] at h; rw [peqL_sound a b h]
  | .list _, .scalar _, h => by simp [peq] at h
  | .list _, .dict _, h => by simp [peq] at h
  | .dict a, .dict b, h => by simp only [peq] at h; rw [peqD_sound a b h]
  | .dict _, .scalar _, h => by simp [peq] at h
  | .dict _, .list _, h => by simp [peq] at h
theorem peqL_sound : ∀ (a b : List Plain), peqL a b = true → a = b
  | [], [], _ => rfl
  | [], _ :: _, h => by simp [peqL] at h
  | _ :: _, [], h => by simp [peqL] at h
  | a :: as, b :: bs, h => by
    simp only [peqL, Bool.and_eq_true] at h
    rw [peq_sound a b h.1, peqL_sound as bs h.2]
theorem peqD_sound : ∀ (a b : List (Key × Plain)), peqD a b = true → a = b
  | [], [], _ => rfl
  | [], _ :: _, h => by simp [peqD] at h
  | _ :: _, [], h => by simp [peqD] at h
  | (k, a) :: as, (k', b) :: bs, h => by
    simp only [peqD, Bool.and_eq_true, decide_eq_true_eq] at h
    rw [h.1.1, peq_sound a b h.1.2, peqD_sound as bs h.2]
end

def optEq : Option Plain → Option Plain → Bool
  | none, none => true
  | some a, some b => peq a b
  | _, _ => false

theorem optEq_sound {a b : Option Plain} (h : optEq a b = true) : a = b := by
  cases a <;> cases b <;> simp [optEq] at h
  · rfl
  · rw [peq_sound _ _ h]

def resEq : Except Err Plain → Except Err Plain → Bool
  | .ok a, .ok b => peq a b
  | _, _ => false

theorem resEq_sound {a b : Except Err Plain} (h : resEq a b = true) : a = b := by
  cases a <;> cases b <;> simp [resEq] at h
  rw [peq_sound _ _ h]

end AY.C02P
