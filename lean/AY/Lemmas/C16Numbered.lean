/-
  AY.Lemmas.C16Numbered — the invariant "every list-family container stores its elements under
  the keys 0 … n-1" (`c16_numbered`) is kept by adoption, `extend`, `remove_node`.
-/
import AY.Lemmas.C16Ops
namespace AY

theorem c16_numbered_comp {f : Flags} {k : CompKind} {cs : List (Key × Node)} :
    c16_numbered (.comp f k cs) = true ↔
      (k.isDictFam = true ∨ listKeys 0 cs = true) ∧ c16_numberedList cs = true := by
  simp [c16_numbered]

mutual
theorem c16_numbered_applyKw : ∀ (kw : ChildKw) (n : Node), c16_numbered (applyKw kw n) = c16_numbered n
  | kw, .leaf f k => by simp [applyKw, c16_numbered]
  | kw, .comp f k cs => by
    simp only [applyKw]
    split
    · split
      · simp [c16_numbered]
      · rename_i kw' _
        simp [c16_numbered, keysOf_applyKwList', c16_numberedList_applyKwList kw' cs]
    · rfl
theorem c16_numberedList_applyKwList : ∀ (kw : ChildKw) (cs : List (Key × Node)),
    c16_numberedList (applyKwList kw cs) = c16_numberedList cs
  | _, [] => by simp [applyKwList]
  | kw, (k, c) :: rest => by
    simp [applyKwList, c16_numberedList, c16_numbered_applyKw kw c, c16_numberedList_applyKwList kw rest]
end

theorem c16_numbered_propagate (n : Node) : c16_numbered (propagate n) = c16_numbered n := by
  cases n with
  | leaf f k => simp [propagate]
  | comp f k cs =>
    simp only [propagate]
    split
    · rfl
    · rename_i kw _
      simp [c16_numbered, keysOf_applyKwList', c16_numberedList_applyKwList kw cs]

theorem c16_numbered_setFlags (n : Node) (f : Flags) : c16_numbered (n.setFlags f) = c16_numbered n := by
  cases n <;> simp [Node.setFlags, c16_numbered]

theorem c16_numbered_adopt (pf : Flags) (pk : CompKind) (v : Node) :
    c16_numbered (adopt pf pk v) = c16_numbered v := by
  simp only [adopt, inheritInto]
  cases childKw pf pk <;> simp [c16_numbered_propagate, c16_numbered_setFlags]

theorem c16_numberedList_append : ∀ l₁ l₂ : List (Key × Node),
    c16_numberedList (l₁ ++ l₂) = (c16_numberedList l₁ && c16_numberedList l₂)
  | [], _ => by simp [c16_numberedList]
  | (k, v) :: rest, l₂ => by simp [c16_numberedList, c16_numberedList_append rest l₂, Bool.and_assoc]

theorem c16_numberedList_extendList (f : Flags) (k : CompKind) : ∀ (vs : List Node)
    (cs : List (Key × Node)), c16_numberedList cs = true → (∀ v, v ∈ vs → c16_numbered v = true) →
    c16_numberedList (extendList f k cs vs) = true
  | [], cs, h, _ => by simpa [extendList] using h
  | v :: rest, cs, h, hv => by
    simp only [extendList]
    apply c16_numberedList_extendList f k rest
    · simp [c16_numberedList_append, h, c16_numberedList, c16_numbered_adopt, hv v (by simp)]
    · intro w hw; exact hv w (by simp [hw])

theorem c16_numberedList_renumFrom : ∀ (i : Nat) (xs : List Node),
    (∀ v, v ∈ xs → c16_numbered v = true) → c16_numberedList (renumFrom i xs) = true
  | _, [], _ => rfl
  | i, x :: xs, h => by
    simp [renumFrom, c16_numberedList, h x (by simp),
      c16_numberedList_renumFrom (i + 1) xs (fun v hv => h v (by simp [hv]))]

theorem c16_numberedList_mem : ∀ (cs : List (Key × Node)), c16_numberedList cs = true →
    ∀ kv, kv ∈ cs → c16_numbered kv.2 = true
  | [], _, kv, h => by simp at h
  | (k, c) :: rest, hn, kv, h => by
    have hn' : c16_numbered c = true ∧ c16_numberedList rest = true := by
      simpa [c16_numberedList] using hn
    simp only [List.mem_cons] at h
    rcases h with rfl | h
    · exact hn'.1
    · exact c16_numberedList_mem rest hn'.2 kv h

theorem c16_numberedList_aerase (key : Key) : ∀ (cs : List (Key × Node)),
    c16_numberedList cs = true → c16_numberedList (aerase key cs) = true
  | [], _ => rfl
  | (k, c) :: rest, hn => by
    have hn' : c16_numbered c = true ∧ c16_numberedList rest = true := by
      simpa [c16_numberedList] using hn
    by_cases h : k = key
    · simp [aerase, h, hn'.2]
    · simp [aerase, h, c16_numberedList, hn'.1, c16_numberedList_aerase key rest hn'.2]

theorem c16_numberedList_aset (key : Key) (v : Node) (hv : c16_numbered v = true) :
    ∀ (cs : List (Key × Node)), c16_numberedList cs = true → c16_numberedList (aset key v cs) = true
  | [], _ => by simp [aset, c16_numberedList, hv]
  | (k, c) :: rest, hn => by
    have hn' : c16_numbered c = true ∧ c16_numberedList rest = true := by
      simpa [c16_numberedList] using hn
    by_cases h : k = key
    · simp [aset, h, c16_numberedList, hv, hn'.2]
    · simp [aset, h, c16_numberedList, hn'.1, c16_numberedList_aset key v hv rest hn'.2]

theorem c16_numberedList_listDelAt (pf : Flags) (pk : CompKind) (i : Nat) (cs : List (Key × Node))
    (h : c16_numberedList cs = true) : c16_numberedList (listDelAt pf pk i cs) = true := by
  apply c16_numberedList_renumFrom
  intro v hv
  simp only [List.mem_append, List.mem_map] at hv
  rcases hv with ⟨kv, hm, rfl⟩ | ⟨kv, hm, rfl⟩
  · exact c16_numberedList_mem cs h kv (List.mem_of_mem_take hm)
  · rw [c16_numbered_adopt]; exact c16_numberedList_mem cs h kv (List.mem_of_mem_drop hm)

/-- replacing an existing child of a numbered list keeps the numbering -/
theorem c16_listKeys_aset_of_some (key : Key) (v c : Node) (cs : List (Key × Node))
    (hl : listKeys 0 cs = true) (hc : alookup key cs = some c) : listKeys 0 (aset key v cs) = true := by
  obtain ⟨j, e1, _, _⟩ := c16_alookup_listKeys 0 cs key c hl hc
  subst e1
  exact listKeys_aset _ v 0 cs hl (by rw [hc]; rfl)

theorem c16_numbered_setNodeAt : ∀ (p : Path) (root v : Node), c16_numbered root = true →
    c16_numbered v = true → c16_numbered (setNodeAt root p v) = true
  | [], _, v, _, hv => by simpa [setNodeAt] using hv
  | key :: rest, .leaf f k, v, hr, _ => by simpa [setNodeAt] using hr
  | key :: rest, .comp f k cs, v, hr, hv => by
    simp only [setNodeAt]
    cases hc : alookup key cs with
    | none => exact hr
    | some c =>
      obtain ⟨h1, h2⟩ := c16_numbered_comp.1 hr
      have hcn := c16_numbered_alookup key cs c h2 hc
      have ih := c16_numbered_setNodeAt rest c v hcn hv
      refine c16_numbered_comp.2 ⟨?_, c16_numberedList_aset key _ ih cs h2⟩
      rcases h1 with h1 | h1
      · exact .inl h1
      · exact .inr (c16_listKeys_aset_of_some key _ c cs h1 hc)

/-- `remove_node` keeps the invariant, for the detached node and for the remaining tree -/
theorem c16_numbered_removeNode {root d root' : Node} {tp : Path} (hn : c16_numbered root = true)
    (h : removeNode root tp = some (d, root')) :
    c16_numbered d = true ∧ c16_numbered root' = true := by
  refine ⟨c16_numbered_getNode tp root d hn (c16_removeNode_getNode h), ?_⟩
  obtain ⟨pp, key, pf, pk, pcs, pcs', _, e2, _, e4, e5⟩ := c16_removeNode_char _ _ _ _ h
  have hp := c16_numbered_getNode pp root _ hn e2
  obtain ⟨h1, h2⟩ := c16_numbered_comp.1 hp
  rw [e5]
  apply c16_numbered_setNodeAt pp root _ hn
  by_cases hk : pk.isDictFam = true
  · rw [c16_removeChild_dict hk e4]
    exact c16_numbered_comp.2 ⟨.inl hk, c16_numberedList_aerase key pcs h2⟩
  · have hk' : pk.isListFam = true := by simpa [CompKind.isListFam] using hk
    obtain ⟨i, _, _, rfl⟩ := c16_removeChild_list hk' e4
    exact c16_numbered_comp.2 ⟨.inr (c16_listKeys_listDelAt pf pk i pcs),
      c16_numberedList_listDelAt pf pk i pcs h2⟩

/-- the grown list of `!append` / `!extend` keeps the invariant -/
theorem c16_numbered_extend {tf : Flags} {tk : CompKind} {tcs : List (Key × Node)} {vs : List Node}
    (hn : c16_numbered (.comp tf tk tcs) = true) (hv : ∀ v, v ∈ vs → c16_numbered v = true) :
    c16_numbered (.comp tf tk (extendList tf tk tcs vs)) = true := by
  obtain ⟨h1, h2⟩ := c16_numbered_comp.1 hn
  refine c16_numbered_comp.2 ⟨?_, c16_numberedList_extendList tf tk vs tcs h2 hv⟩
  rcases h1 with h1 | h1
  · exact .inl h1
  · exact .inr (c16_listKeys_extendList tf tk vs tcs h1)

theorem c16_numbered_inheritInto (kw : Option ChildKw) (v : Node) :
    c16_numbered (inheritInto none kw v) = c16_numbered v := by
  cases kw <;> simp [inheritInto, c16_numbered_propagate, c16_numbered_setFlags]

/-- the fallback value of `!extend` / the first-stage value of `!append` keeps the invariant -/
theorem c16_numbered_newPlainList (f : Flags) {vs : List Node} (hv : ∀ v, v ∈ vs → c16_numbered v = true) :
    c16_numbered (newPlainList f vs) = true := by
  simp only [newPlainList, c16_numbered_propagate]
  refine c16_numbered_comp.2 ⟨.inr (c16_listKeys_renumFrom 0 _), c16_numberedList_renumFrom 0 _ ?_⟩
  intro v hm
  simp only [List.mem_map] at hm
  obtain ⟨w, hw, rfl⟩ := hm
  rw [c16_numbered_inheritInto]; exact hv w hw

theorem c16_numbered_values {cs : List (Key × Node)} (h : c16_numberedList cs = true) :
    ∀ v, v ∈ cs.map (·.2) → c16_numbered v = true := by
  intro v hm
  simp only [List.mem_map] at hm
  obtain ⟨kv, hkv, rfl⟩ := hm
  exact c16_numberedList_mem cs h kv hkv

end AY
