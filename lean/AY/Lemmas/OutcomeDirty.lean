/-
  AY.Lemmas.OutcomeDirty — the strict denotation and `Dirty` (taint as a function of the tree):

    `sden_down`         strict ⇒ non-strict, same fuel, same value
    `sden_strict_clean` strict ⇒ the path is not dirty
    `sden_clean_strict` non-strict and not dirty ⇒ strict, same fuel, same value

  so the least fuel (the rank) of a path does not depend on the mode, and a memoised untainted value
  is a value a strict consumer may have.
-/
import AY.Lemmas.OutcomeDefs
namespace AY

/-! ### strict ⇒ non-strict -/

def SDown (r : SRec) : Prop := ∀ n p v, r true n p = some v → r false n p = some v

theorem sdenItems_down {r : SRec} (h : SDown r) (path : Path) :
    ∀ (cs : List (Key × Node)) (items : List (Key × Val)),
    sdenItems r true path cs = some items → sdenItems r false path cs = some items
  | [], items, hi => hi
  | (k, c) :: rest, items, hi => by
    unfold sdenItems at hi ⊢
    split at hi
    · cases hi
    · rename_i v hv
      split at hi
      · cases hi
      · rename_i vs hvs
        rw [h _ _ _ hv, sdenItems_down h path rest vs hvs]
        exact hi

theorem sdenXref_down {r : SRec} (h : SDown r) (root : Node) :
    ∀ (f : Nat) (cur : String) (v : Val),
    sdenXref r root true f cur = some v → sdenXref r root false f cur = some v
  | 0, _, _, hx => by simp [sdenXref] at hx
  | f + 1, cur, v, hx => by
    unfold sdenXref at hx ⊢
    split at hx
    · cases hx
    · rename_i tp htp
      split at hx
      · cases hx
      · rename_i fl next hg
        split at hx
        · cases hx
        · simp only [Bool.false_and, Bool.false_eq_true, if_false]
          exact sdenXref_down h root f next v hx
      · rename_i n hnx hg
        split at hx
        · cases hx
        rename_i hne
        have : (if tp = [] then none else r false n tp) = some v := by
          rw [if_neg hne]; exact h _ _ _ hx
        cases n with
        | comp fl k cs => exact this
        | leaf fl lk =>
          cases lk with
          | xref next => exact absurd rfl (hnx fl next)
          | _ => exact this

theorem sdenImpl_down {r : SRec} (h : SDown r) (root : Node) (w : World) (xf : Nat) (n : Node) (p : Path)
    (v : Val) (hv : sdenImpl r root w xf true n p = some v) : sdenImpl r root w xf false n p = some v := by
  cases n with
  | leaf fl lk =>
    cases lk with
    | xref t =>
      simp only [sdenImpl] at hv ⊢
      exact sdenXref_down h root xf t v hv
    | _ => exact hv
  | comp fl k cs =>
    simp only [sdenImpl] at hv ⊢
    split at hv
    · cases hv
    · rename_i hs
      rw [if_neg hs]
      cases hk : k.isFunc with
      | true => simpa [hk] using hv
      | false =>
        simp only [hk, Bool.or_false] at hv ⊢
        split at hv
        · cases hv
        · rename_i items hi
          rw [sdenItems_down h p cs items hi]
          exact hv

theorem sden_down (root : Node) (w : World) : ∀ f, SDown (sden root w f)
  | 0 => by intro n p v h; simp [sden] at h
  | f + 1 => by
    intro n p v hv
    rw [sden_succ] at hv ⊢
    split at hv
    · cases hv
    · simp only [Bool.false_and, Bool.false_eq_true, if_false]
      exact sdenImpl_down (sden_down root w f) root w f n p v hv

/-- a strictly evaluated node is safe -/
theorem sden_strict_safe {root : Node} {w : World} {f : Nat} {n : Node} {p : Path} {v : Val}
    (h : sden root w f true n p = some v) : eSafe n.flags = true := by
  obtain ⟨g, rfl⟩ := sden_pos h
  rw [sden_succ] at h
  cases hs : eSafe n.flags with
  | true => rfl
  | false => simp [hs] at h

/-! ### strict ⇒ not dirty -/

/-- what the lemmas below assume of the recursive evaluator -/
def RecClean (root : Node) (r : SRec) : Prop :=
  ∀ n p v, getNode root p = some n → r true n p = some v → ¬ Dirty root p

theorem sdenXref_strict_clean {root : Node} {r : SRec} (h : RecClean root r) :
    ∀ (f : Nat) (cur : String) (v : Val) (tp : Path),
    sdenXref r root true f cur = some v → splitPath cur = some tp → ¬ Dirty root tp
  | 0, _, _, _, hx, _ => by simp [sdenXref] at hx
  | f + 1, cur, v, tp, hx, htp => by
    unfold sdenXref at hx
    simp only [htp] at hx
    split at hx
    · cases hx
    · rename_i fl next hg
      split at hx
      · cases hx
      · rename_i hc
        have hs : eSafe fl = true := by
          cases hs : eSafe fl with
          | true => rfl
          | false => simp [hs] at hc
        intro hd
        rcases (dirty_iff hg).1 hd with hu | hin
        · simp [Node.flags, hs] at hu
        · obtain ⟨tp', ht', hd'⟩ := dirtyIn_xref.1 hin
          exact sdenXref_strict_clean h f next v tp' hx ht' hd'
    · rename_i n hnx hg
      split at hx
      · cases hx
      · exact h _ _ _ hg hx

theorem sden_strict_clean (root : Node) (w : World) (huk : uniqueKeys root = true) :
    ∀ f, RecClean root (sden root w f)
  | 0 => by intro n p v _ h; simp [sden] at h
  | f + 1 => by
    intro n p v hg hv hd
    have hsafe := sden_strict_safe hv
    rw [sden_succ] at hv
    split at hv
    · cases hv
    rcases (dirty_iff hg).1 hd with hu | hin
    · rw [hsafe] at hu; cases hu
    · cases n with
      | comp fl k cs =>
        obtain ⟨key, c, hm, hdc⟩ := dirtyIn_comp.1 hin
        simp only [sdenImpl] at hv
        split at hv
        · cases hv
        · split at hv
          · cases hv
          · rename_i items hi
            simp only [Bool.true_or] at hi
            obtain ⟨a, ha⟩ := sdenItems_mem hi key c hm
            have hgc : getNode root (p ++ [key]) = some c :=
              ((Placed.child (Placed.of_getNode hg) hm).getNode_uniq huk).1
            exact sden_strict_clean root w huk f _ _ _ hgc ha hdc
      | leaf fl lk =>
        cases lk with
        | xref t =>
          obtain ⟨tp, ht, hdt⟩ := dirtyIn_xref.1 hin
          simp only [sdenImpl] at hv
          exact sdenXref_strict_clean (sden_strict_clean root w huk f) f t v tp hv ht hdt
        | scalar s => exact dirtyIn_leaf (by intro t e; cases e) hin
        | prev s => exact dirtyIn_leaf (by intro t e; cases e) hin
        | eval s => exact dirtyIn_leaf (by intro t e; cases e) hin
        | fstr s => exact dirtyIn_leaf (by intro t e; cases e) hin
        | imp s => exact dirtyIn_leaf (by intro t e; cases e) hin
        | required => exact dirtyIn_leaf (by intro t e; cases e) hin
        | clear => exact dirtyIn_leaf (by intro t e; cases e) hin
        | incl s => exact dirtyIn_leaf (by intro t e; cases e) hin

/-! ### non-strict and not dirty ⇒ strict -/

def RecUp (root : Node) (r : SRec) : Prop :=
  ∀ n p v, getNode root p = some n → ¬ Dirty root p → r false n p = some v → r true n p = some v

theorem sdenItems_up {root : Node} {r : SRec} (h : RecUp root r) (path : Path) :
    ∀ (cs : List (Key × Node)) (items : List (Key × Val)),
    (∀ key c, (key, c) ∈ cs → getNode root (path ++ [key]) = some c ∧ ¬ Dirty root (path ++ [key])) →
    sdenItems r false path cs = some items → sdenItems r true path cs = some items
  | [], items, _, hi => hi
  | (k, c) :: rest, items, hc, hi => by
    unfold sdenItems at hi ⊢
    split at hi
    · cases hi
    · rename_i v hv
      split at hi
      · cases hi
      · rename_i vs hvs
        obtain ⟨hg, hnd⟩ := hc k c List.mem_cons_self
        rw [h _ _ _ hg hnd hv, sdenItems_up h path rest vs
          (fun key c' hm => hc key c' (List.mem_cons_of_mem _ hm)) hvs]
        exact hi

theorem sdenXref_up {root : Node} {r : SRec} (h : RecUp root r) :
    ∀ (f : Nat) (cur : String) (v : Val) (tp : Path), splitPath cur = some tp → ¬ Dirty root tp →
    sdenXref r root false f cur = some v → sdenXref r root true f cur = some v
  | 0, _, _, _, _, _, hx => by simp [sdenXref] at hx
  | f + 1, cur, v, tp, htp, hnd, hx => by
    unfold sdenXref at hx ⊢
    simp only [htp] at hx ⊢
    split at hx
    · cases hx
    · rename_i fl next hg
      simp only [Bool.false_and, Bool.false_eq_true, if_false] at hx
      have hs : eSafe fl = true := by
        cases hs : eSafe fl with
        | true => rfl
        | false => exact absurd (Dirty.flag hg (by simpa [Node.flags] using hs)) hnd
      simp only [hs, Bool.not_true, Bool.and_false, Bool.false_eq_true, if_false]
      obtain ⟨g, rfl⟩ : ∃ g, f = g + 1 := by
        cases f with
        | zero => simp [sdenXref] at hx
        | succ g => exact ⟨g, rfl⟩
      cases htn : splitPath next with
      | none => unfold sdenXref at hx; simp [htn] at hx
      | some tp' =>
        exact sdenXref_up h (g + 1) next v tp' htn (fun hd => hnd (Dirty.link hg htn hd)) hx
    · rename_i n hnx hg
      split at hx
      · cases hx
      rename_i hne
      rw [if_neg hne]; exact h _ _ _ hg hnd hx

theorem sden_clean_strict (root : Node) (w : World) (huk : uniqueKeys root = true) :
    ∀ f, RecUp root (sden root w f)
  | 0 => by intro n p v _ _ h; simp [sden] at h
  | f + 1 => by
    intro n p v hg hnd hv
    have hsafe : eSafe n.flags = true := by
      cases hs : eSafe n.flags with
      | true => rfl
      | false => exact absurd (Dirty.flag hg hs) hnd
    rw [sden_succ] at hv ⊢
    simp only [Bool.false_and, Bool.false_eq_true, if_false] at hv
    simp only [hsafe, Bool.not_true, Bool.and_false, Bool.false_eq_true, if_false]
    cases n with
    | comp fl k cs =>
      simp only [sdenImpl] at hv ⊢
      split at hv
      · cases hv
      · rename_i hs
        rw [if_neg hs]
        cases hk : k.isFunc with
        | true => simpa [hk] using hv
        | false =>
          simp only [hk, Bool.or_false] at hv ⊢
          split at hv
          · cases hv
          · rename_i items hi
            rw [sdenItems_up (sden_clean_strict root w huk f) p cs items
              (fun key c hm =>
                ⟨((Placed.child (Placed.of_getNode hg) hm).getNode_uniq huk).1,
                 fun hd => hnd (Dirty.child hg hm hd)⟩) hi]
            exact hv
    | leaf fl lk =>
      cases lk with
      | xref t =>
        simp only [sdenImpl] at hv ⊢
        cases htn : splitPath t with
        | none =>
          cases f with
          | zero => simp [sdenXref] at hv
          | succ g => unfold sdenXref at hv; simp [htn] at hv
        | some tp =>
          exact sdenXref_up (sden_clean_strict root w huk f) f t v tp htn
            (fun hd => hnd (Dirty.link hg htn hd)) hv
      | _ => exact hv

/-- the strict and the non-strict denotation of a clean path have the same rank -/
theorem sden_strict_of_le {root : Node} {w : World} (huk : uniqueKeys root = true) {f g : Nat} {n : Node}
    {p : Path} {v v' : Val} (hg : getNode root p = some n)
    (hs : sden root w f true n p = some v) (hn : sden root w g false n p = some v') :
    sden root w g true n p = some v := by
  have hnd := sden_strict_clean root w huk f n p v hg hs
  have h1 := sden_clean_strict root w huk g n p v' hg hnd hn
  rw [sden_unique hs h1]
  exact h1

end AY
