/-
  AY.Lemmas.C08Cmd — the command-line override `a.b.c=value`, i.e. the document
  `!notnew {a: {b: {c: value}}}` merged onto a tag-free tree: auxiliary definitions
  (`nestDoc`, `c08_nest`, `c08_nestIn`, `c08_rawDoc`, `getPlainAt`, `setPlainAt`, …) and the two
  inductions (success: exactly that path is set; failure: the first missing component is named).
-/
import AY.Lemmas.C08Req
import AY.Lemmas.C02Merge
namespace AY

/-! ### the override document -/

/-- flags of every node below the `!notnew` root: `implicit_allow_new = False` inherited, nothing else -/
def c08_inFlags (env : Env) : Flags := { iNew := some false, dSafe := env.dSafe, src := env.src }

/-- flags of the `!notnew` root itself: `allow_new = False` explicit, nothing inherited -/
def c08_topFlags (env : Env) : Flags := { new := some false, dSafe := env.dSafe, src := env.src }

/-- nested single-key mappings `{k1: {k2: … v}}` with root flags `f` and `c08_inFlags` below -/
def c08_nest (f : Flags) (env : Env) : List Key → Scalar → Node
  | [], v => .leaf f (.scalar v)
  | k :: ks, v => .comp f .dict [(k, c08_nest (c08_inFlags env) env ks v)]

/-- the part of the override document below its root -/
def c08_nestIn (env : Env) (path : List Key) (v : Scalar) : Node := c08_nest (c08_inFlags env) env path v

/-- the node tree the loader builds for `!notnew {k1: {k2: … v}}` (what `process_cmdline` emits
    for `k1.k2.….=v`) when parsed in context `env` -/
def nestDoc (env : Env) (path : List Key) (v : Scalar) : Node := c08_nest (c08_topFlags env) env path v

/-- the untagged part of the YAML representation tree of the override -/
def c08_rawIn : List Key → Scalar → Raw
  | [], v => .scalar .none {} (.lit v)
  | k :: ks, v => .map .none {} [(k, c08_rawIn ks v)]

/-- YAML representation tree of `!notnew { k1: { k2: … v }}` -/
def c08_rawDoc : List Key → Scalar → Raw
  | [], v => .scalar .plain { new := some false } (.lit v)
  | k :: ks, v => .map .plain { new := some false } [(k, c08_rawIn ks v)]

/-! ### paths in plain data -/

/-- value at a path that runs through mappings only -/
def getPlainAt : Plain → List Key → Option Plain
  | t, [] => some t
  | .dict items, k :: ks =>
    match alookup k items with
    | none => none
    | some c => getPlainAt c ks
  | _, _ :: _ => none

/-- replace the value at an existing path that runs through mappings only (anything else: unchanged) -/
def setPlainAt : Plain → List Key → Plain → Plain
  | _, [], x => x
  | .dict items, k :: ks, x =>
    match alookup k items with
    | none => .dict items
    | some c => .dict (aset k (setPlainAt c ks x) items)
  | t, _ :: _, _ => t

/-- "component `k` cannot be entered from `t`": `t` is a mapping without key `k`, or a scalar
    (a list is addressed by index and is outside this statement) -/
def c08_missingAt : Plain → Key → Bool
  | .dict items, k => (alookup k items).isNone
  | .scalar _, _ => true
  | .list _, _ => false

theorem c08_getPlainAt_set_same : ∀ (p : List Key) (t x y : Plain), getPlainAt t p = some y →
    getPlainAt (setPlainAt t p x) p = some x
  | [], _, _, _, _ => rfl
  | k :: ks, .scalar _, _, _, h => by simp [getPlainAt] at h
  | k :: ks, .list _, _, _, h => by simp [getPlainAt] at h
  | k :: ks, .dict items, x, y, h => by
    simp only [getPlainAt] at h
    cases hl : alookup k items with
    | none => simp [hl] at h
    | some c =>
      simp only [hl] at h
      simp only [setPlainAt, hl, getPlainAt, alookup_aset, if_true]
      exact c08_getPlainAt_set_same ks c x y h

/-- frame: a path that branches off the overridden one keeps its value -/
theorem c08_getPlainAt_set_other : ∀ (c : List Key) (k1 k2 : Key) (q' p' : List Key) (t x : Plain),
    k2 ≠ k1 → getPlainAt (setPlainAt t (c ++ k2 :: p') x) (c ++ k1 :: q') = getPlainAt t (c ++ k1 :: q')
  | [], k1, k2, q', p', .scalar _, x, _ => rfl
  | [], k1, k2, q', p', .list _, x, _ => rfl
  | [], k1, k2, q', p', .dict items, x, hne => by
    simp only [List.nil_append, setPlainAt]
    cases hl : alookup k2 items with
    | none => rfl
    | some ch => simp only [getPlainAt, alookup_aset, hne, if_false]
  | k :: c, k1, k2, q', p', .scalar _, x, _ => rfl
  | k :: c, k1, k2, q', p', .list _, x, _ => rfl
  | k :: c, k1, k2, q', p', .dict items, x, hne => by
    simp only [List.cons_append, setPlainAt]
    cases hl : alookup k items with
    | none => rfl
    | some ch =>
      simp only [getPlainAt, alookup_aset, if_true, hl]
      exact c08_getPlainAt_set_other c k1 k2 q' p' ch x hne

/-- frame: a prefix of the overridden path still exists (as a mapping) -/
theorem c08_getPlainAt_set_isSome : ∀ (p : List Key) (t x y : Plain), getPlainAt t p = some y →
    ∀ q r, p = q ++ r → (getPlainAt (setPlainAt t p x) q).isSome = true
  | [], _, _, _, _, q, r, e => by
    cases q with
    | nil => rfl
    | cons k' q' => simp at e
  | k :: ks, .scalar _, _, _, h, _, _, _ => by simp [getPlainAt] at h
  | k :: ks, .list _, _, _, h, _, _, _ => by simp [getPlainAt] at h
  | k :: ks, .dict items, x, y, h, q, r, e => by
    cases q with
    | nil => rfl
    | cons k' q' =>
      simp only [List.cons_append, List.cons.injEq] at e
      obtain ⟨e1, e2⟩ := e
      subst e1
      simp only [getPlainAt] at h
      cases hl : alookup k items with
      | none => simp [hl] at h
      | some c =>
        simp only [hl] at h
        simp only [setPlainAt, hl, getPlainAt, alookup_aset, if_true]
        exact c08_getPlainAt_set_isSome ks c x y h q' r e2

/-! ### flags -/

/-- what the merge needs to know about the flags of a mapping of the override document -/
def c08_docFlags (f : Flags) : Bool :=
  f.prio.isNone && f.del.isNone && f.iDel.isNone && f.safe.isNone && f.md.isEmpty

theorem c08_docFlags_iff (f : Flags) : c08_docFlags f = true ↔
    f.prio = none ∧ f.del = none ∧ f.iDel = none ∧ f.safe = none ∧ f.md = [] := by
  simp [c08_docFlags, and_assoc]

theorem c08_docFlags_in (env : Env) : c08_docFlags (c08_inFlags env) = true := rfl
theorem c08_docFlags_top (env : Env) : c08_docFlags (c08_topFlags env) = true := rfl

theorem c08_nest_flags (f : Flags) (env : Env) (path : List Key) (v : Scalar) :
    (c08_nest f env path v).flags = f := by
  cases path <;> rfl

theorem c08_eNew_inFlags (env : Env) : eNew (c08_inFlags env) = false := rfl

theorem c08_nestIn_eNew (env : Env) (path : List Key) (v : Scalar) :
    eNew (c08_nestIn env path v).flags = false := by
  simp only [c08_nestIn, c08_nest_flags]; rfl

theorem c08_nest_depth (f : Flags) (env : Env) : ∀ (path : List Key) (v : Scalar),
    (c08_nest f env path v).depth = path.length
  | [], _ => rfl
  | k :: ks, v => by
    simp [c08_nest, Node.depth, depthList, c08_nest_depth (c08_inFlags env) env ks v]

theorem c08_replaceSelfFlags_plain {sf of : Flags} (hs : flagsPlain sf = true) (ho : c08_docFlags of = true) :
    flagsPlain (replaceSelfFlags sf of) = true := by
  rw [flagsPlain_iff] at hs ⊢
  rw [c08_docFlags_iff] at ho
  obtain ⟨h1, h2, h3, h4, h5, h6, h7, h8⟩ := hs
  obtain ⟨l1, l2, l3, l4, l5⟩ := ho
  simp [replaceSelfFlags, mergeSafe, mmerge, h1, h2, h3, h4, h5, h6, h7, h8, l1, l2, l4, l5]

theorem c08_hasPrio_doc {sf of : Flags} (hs : flagsPlain sf = true) (ho : c08_docFlags of = true) (e : Bool) :
    hasPrio of sf e = e ∧ hasPrio sf of e = e := by
  rw [flagsPlain_iff] at hs
  rw [c08_docFlags_iff] at ho
  simp [hasPrio, ePrio, hs.1, ho.1]

theorem c08_eDel_doc {of : Flags} {cs} (ho : c08_docFlags of = true) : eDel (.comp of .dict cs) = false := by
  rw [c08_docFlags_iff] at ho
  simp [eDel, Node.flags, ho.2.1, ho.2.2.1, Node.defaultDel, defaultDelete, Tables.defaultDeleteDict]

/-- the replaced leaf, once adopted by its (tag-free) parent, carries tag-free flags again -/
theorem c08_adopt_leaf_plain {sf cf : Flags} (env : Env) (v : Scalar) (hs : flagsPlain sf = true)
    (hc : flagsPlain cf = true) :
    plainT (adopt sf .dict (.leaf (replaceOtherFlags (c08_inFlags env) cf) (.scalar v))) = true := by
  obtain ⟨kw, e, ⟨k1, k2, k3⟩, _⟩ := childKw_plain hs (.inl rfl)
  rw [flagsPlain_iff] at hc
  obtain ⟨h1, h2, h3, h4, h5, h6, h7, h8⟩ := hc
  simp only [adopt, e, inheritInto, Node.setFlags, Node.flags, propagate, plainT]
  rw [flagsPlain_iff]
  simp [updFlags, replaceOtherFlags, mergeSafe, mmerge, c08_inFlags, k1, k2, k3, h4, h7]

/-! ### one level of the merge -/

/-- a tag-free mapping merged with a single-key mapping of the override document: one step of the
    key loop, then `_replace_self` (the flags stay tag-free) -/
theorem c08_compMerge_level (rec : Node → Node → Except Err (Node × Bool)) {sf of : Flags}
    (hs : flagsPlain sf = true) (ho : c08_docFlags of = true) (scs : List (Key × Node)) (k : Key) (o : Node) :
    compMerge rec sf .dict scs (.comp of .dict [(k, o)]) =
      match mergeStep rec sf .dict [] scs (k, o) with
      | .error e => .error e
      | .ok scs' => .ok (propagate (.comp (replaceSelfFlags sf of) .dict scs'), true) := by
  simp only [compMerge, c08_eDel_doc ho, Bool.false_eq_true, if_false, mergeLoop]
  cases mergeStep rec sf .dict [] scs (k, o) with
  | error e => rfl
  | ok scs' =>
    simp [finishMerge, Node.flags, (c08_hasPrio_doc hs ho true).1, maybePromote, CompKind.sameClass]

theorem c08_level_plainT {sf of : Flags} (hs : flagsPlain sf = true) (ho : c08_docFlags of = true)
    {scs' : List (Key × Node)} (h : plainTList scs' = true) :
    plainT (propagate (.comp (replaceSelfFlags sf of) .dict scs')) = true := by
  apply plainT_propagate
  simp [plainT, c08_replaceSelfFlags_plain hs ho, h]

theorem c08_level_native (f : Flags) (scs' : List (Key × Node)) :
    native (propagate (.comp f .dict scs')) = .dict (nativeList scs') := by
  simp [nativeOf_propagate, native, CompKind.isDictFam]

/-- a scalar of the override document replaces any tag-free node (scalar, mapping or list) -/
theorem c08_mergeF_leaf (n : Nat) (a : Node) (ha : plainT a = true) (env : Env) (v : Scalar) :
    mergeF (n + 1) a (.leaf (c08_inFlags env) (.scalar v)) =
      .ok (.leaf (replaceOtherFlags (c08_inFlags env) a.flags) (.scalar v), false) := by
  have hp := (c08_hasPrio_doc (plainT_flags ha) (c08_docFlags_in env) false).2
  cases a with
  | leaf fa ka =>
    simp only [mergeF, leafRule, Node.flags] at hp ⊢
    simp [hp, Node.setFlags, propagate]
  | comp fa ka ca =>
    obtain ⟨_, hk, _⟩ := plainT_comp ha
    simp only [Node.flags] at hp
    rcases hk with hk | ⟨hk, _⟩ <;> subst hk <;>
      simp [mergeF, listMerge, compMerge, leafRule, Node.flags, hp, Node.setFlags, propagate]

/-- a mapping of the override document meeting a scalar: the scalar loses … -/
theorem c08_mergeF_scalar_vs_map (n : Nat) (cf : Flags) (x : LeafKind) (hc : flagsPlain cf = true)
    (of : Flags) (ho : c08_docFlags of = true) (cs : List (Key × Node)) :
    mergeF (n + 1) (.leaf cf x) (.comp of .dict cs) =
      .ok (propagate (.comp (replaceOtherFlags of cf) .dict cs), false) := by
  have hp := (c08_hasPrio_doc hc ho false).2
  simp [mergeF, leafRule, Node.flags, hp, Node.setFlags]

/-- a child that has just been handed `implicit_allow_new = False` is `!notnew`-restricted -/
theorem c08_eNew_applyKw (kw : ChildKw) (hk : kw.iNew = some false) (n : Node) :
    eNew (applyKw kw n).flags = false := by
  cases n with
  | leaf f lk => simp [applyKw, Node.flags, updFlags, eNew, hk]
  | comp f k cs =>
    simp only [applyKw]
    split
    · split <;> simp [Node.flags, updFlags, eNew, hk]
    · rename_i hc
      have : f.iNew = kw.iNew := by
        simp only [flagsChanged, Bool.or_eq_true, not_or, bne_iff_ne, ne_eq, Decidable.not_not] at hc
        exact hc.1.2
      simp [Node.flags, eNew, this, hk]

/-- … and the mapping that took the scalar's place (its inherited flags re-propagated by
    `_replace_other`) still forbids its first key as a new one -/
theorem c08_reqNewBelow_propagate_blocked (F : Flags) (hF : F.new.or F.iNew = some false) (k2 : Key)
    (o2 : Node) (rest : List (Key × Node)) :
    reqNewBelow (propagate (.comp F .dict ((k2, o2) :: rest))) = some [k2] := by
  have e := c08_eNew_applyKw
    { iDel := F.del.or (F.iDel.or (if defaultDelete .dict then some true else none)),
      iNew := F.new.or F.iNew, iSafe := if F.iSafe = some false then some false else F.safe.or F.iSafe } hF o2
  simp only [propagate, childKw, applyKwList, reqNewBelow, reqNewList, List.nil_append]
  generalize applyKw _ o2 = x at e ⊢
  cases x with
  | leaf f lk => simp only [Node.flags] at e; simp [reqNew, e]
  | comp f kk cs => simp only [Node.flags] at e; simp [reqNew, e]

theorem c08_mergeF_dict (n : Nat) (sf : Flags) (scs : List (Key × Node)) (o : Node) :
    mergeF (n + 1) (.comp sf .dict scs) o = compMerge (mergeF n) sf .dict scs o := rfl

/-! ### the steps of the key loop used below -/

theorem c08_step_missing (rec : Node → Node → Except Err (Node × Bool)) (sf : Flags)
    (scs : List (Key × Node)) (k : Key) (o : Node) (hl : alookup k scs = none)
    (ho : eNew o.flags = false) :
    mergeStep rec sf .dict [] scs (k, o) = .error (.notnew [k]) := by
  have hg : getChild .dict k scs = none := by simp [getChild, CompKind.isDictFam, hl]
  rw [c08_mergeStep_absent rec sf .dict scs k o hg, excBelow_nil, c08_reqNew_self o ho]

theorem c08_step_error (rec : Node → Node → Except Err (Node × Bool)) (sf : Flags)
    (scs : List (Key × Node)) (k : Key) (o c : Node) (e : Err) (hl : alookup k scs = some c)
    (hr : rec c o = .error e) :
    mergeStep rec sf .dict [] scs (k, o) = .error (e.prepend k) := by
  simp [mergeStep, getChild, CompKind.isDictFam, hl, hr]

theorem c08_step_inplace (rec : Node → Node → Except Err (Node × Bool)) (sf : Flags)
    (scs : List (Key × Node)) (k : Key) (o c nw : Node) (hl : alookup k scs = some c)
    (hr : rec c o = .ok (nw, true)) (hc : c.isComp = true) (hd : o.flags.del = none) :
    mergeStep rec sf .dict [] scs (k, o) = .ok (aset k nw scs) := by
  simp [mergeStep, getChild, CompKind.isDictFam, hl, hr, hc, hd, replaceChild]

theorem c08_step_replace_leaf (rec : Node → Node → Except Err (Node × Bool)) (sf : Flags)
    (scs : List (Key × Node)) (k : Key) (o c : Node) (f : Flags) (lk : LeafKind)
    (hl : alookup k scs = some c) (hr : rec c o = .ok (.leaf f lk, false))
    (hd : o.flags.del = none) (hfd : f.del = none) :
    mergeStep rec sf .dict [] scs (k, o) = .ok (aset k (adopt sf .dict (.leaf f lk)) scs) := by
  have hfd' : (Node.leaf f lk).flags.del = none := hfd
  cases hc : c.isComp <;>
    simp [mergeStep, getChild, CompKind.isDictFam, hl, hr, hc, hd, hfd', reqNewBelow, setChild]

theorem c08_step_scalar_blocks (rec : Node → Node → Except Err (Node × Bool)) (sf : Flags)
    (scs : List (Key × Node)) (k : Key) (o c nw : Node) (p : Path)
    (hl : alookup k scs = some c) (hc : c.isComp = false) (hr : rec c o = .ok (nw, false))
    (hb : reqNewBelow nw = some p) :
    mergeStep rec sf .dict [] scs (k, o) = .error (.notnew (k :: p)) := by
  simp [mergeStep, getChild, CompKind.isDictFam, hl, hr, hc, hb]

/-! ### shape of a tag-free tree from its data -/

theorem c08_plainT_dict_of_native {a : Node} (ha : plainT a = true) {items : List (Key × Plain)}
    (h : native a = .dict items) :
    ∃ sf scs, a = .comp sf .dict scs ∧ flagsPlain sf = true ∧ plainTList scs = true ∧ items = nativeList scs := by
  cases a with
  | leaf f k => cases k <;> simp [native] at h
  | comp f k cs =>
    obtain ⟨hf, hk, hcs⟩ := plainT_comp ha
    rcases hk with hk | ⟨hk, _⟩ <;> subst hk
    · simp only [native, CompKind.isDictFam, if_true] at h
      injection h with h
      exact ⟨f, cs, rfl, hf, hcs, h.symm⟩
    · simp [native, CompKind.isDictFam] at h

theorem c08_plainT_scalar_of_native {a : Node} (ha : plainT a = true) {x : Scalar}
    (h : native a = .scalar x) : ∃ cf, a = .leaf cf (.scalar x) ∧ flagsPlain cf = true := by
  cases a with
  | leaf f k =>
    obtain ⟨v, rfl, hf⟩ := plainT_leaf ha
    simp only [native] at h
    injection h with h; subst h
    exact ⟨f, rfl, hf⟩
  | comp f k cs =>
    simp only [native] at h
    split at h <;> cases h

theorem c08_alookup_native {scs : List (Key × Node)} {k : Key} {ct : Plain}
    (h : alookup k (nativeList scs) = some ct) : ∃ c, alookup k scs = some c ∧ native c = ct := by
  rw [alookup_nativeList] at h
  cases hl : alookup k scs with
  | none => simp [hl] at h
  | some c => simp [hl] at h; exact ⟨c, rfl, h⟩

theorem c08_alookup_native_none {scs : List (Key × Node)} {k : Key}
    (h : alookup k (nativeList scs) = none) : alookup k scs = none := by
  rw [alookup_nativeList] at h
  cases hl : alookup k scs with
  | none => rfl
  | some c => simp [hl] at h

/-! ### success: exactly the addressed path is set -/

theorem c08_override_ok (env : Env) (v : Scalar) : ∀ (ks : List Key) (k : Key) (a : Node) (n : Nat)
    (of : Flags) (t : Plain), plainT a = true → c08_docFlags of = true → ks.length < n →
    getPlainAt (native a) (k :: ks) = some t →
    ∃ r, mergeF (n + 1) a (c08_nest of env (k :: ks) v) = .ok (r, true) ∧ plainT r = true ∧
      native r = setPlainAt (native a) (k :: ks) (.scalar v)
  | ks, k, a, n, of, t, ha, ho, hn, hg => by
    cases hna : native a with
    | scalar _ => simp [hna, getPlainAt] at hg
    | list _ => simp [hna, getPlainAt] at hg
    | dict items =>
      obtain ⟨sf, scs, rfl, hsf, hscs, rfl⟩ := c08_plainT_dict_of_native ha hna
      simp only [hna, getPlainAt] at hg
      cases hl0 : alookup k (nativeList scs) with
      | none => simp [hl0] at hg
      | some ct =>
        simp only [hl0] at hg
        obtain ⟨c, hl, rfl⟩ := c08_alookup_native hl0
        have hcT : plainT c = true := alookup_plainT k scs hscs c hl
        obtain ⟨n', rfl⟩ : ∃ n', n = n' + 1 := ⟨n - 1, by omega⟩
        simp only [c08_nest, c08_mergeF_dict, c08_compMerge_level (mergeF (n' + 1)) hsf ho, setPlainAt, hl0]
        cases ks with
        | nil =>
          have hstep := c08_step_replace_leaf (mergeF (n' + 1)) sf scs k _ c _ _ hl
            (c08_mergeF_leaf n' c hcT env v) rfl (by
              have := ((flagsPlain_iff _).1 (plainT_flags hcT)).2.1
              simp [replaceOtherFlags, mergeSafe, c08_inFlags])
          simp only [c08_nest] at hstep ⊢
          rw [hstep]
          refine ⟨_, rfl, ?_, ?_⟩
          · exact c08_level_plainT hsf ho
              (aset_plainT k _ (c08_adopt_leaf_plain env v hsf (plainT_flags hcT)) scs hscs)
          · rw [c08_level_native, nativeList_aset, native_adopt]; rfl
        | cons k2 ks' =>
          have hn' : ks'.length < n' := by simp at hn; omega
          obtain ⟨r', hr', hrT, hrN⟩ := c08_override_ok env v ks' k2 c n' (c08_inFlags env) t hcT
            (c08_docFlags_in env) hn' hg
          have hcomp : c.isComp = true := by
            cases c with
            | leaf f lk => cases lk <;> simp [native, getPlainAt] at hg
            | comp f kk cs => rfl
          have hstep := c08_step_inplace (mergeF (n' + 1)) sf scs k _ c r' hl hr' hcomp
            (by rw [c08_nest_flags]; rfl)
          rw [hstep]
          refine ⟨_, rfl, ?_, ?_⟩
          · exact c08_level_plainT hsf ho (aset_plainT k _ hrT scs hscs)
          · rw [c08_level_native, nativeList_aset, hrN]

/-! ### failure: the first component that cannot be entered is named -/

theorem c08_override_missing (env : Env) (v : Scalar) : ∀ (pre : List Key) (k : Key) (post : List Key)
    (a : Node) (n : Nat) (of : Flags) (t : Plain), plainT a = true → c08_docFlags of = true →
    (pre ++ k :: post).length ≤ n → (∃ items, native a = .dict items) →
    getPlainAt (native a) pre = some t → c08_missingAt t k = true →
    mergeF (n + 1) a (c08_nest of env (pre ++ k :: post) v) = .error (.notnew (pre ++ [k]))
  | [], k, post, a, n, of, t, ha, ho, hn, ⟨items, hna⟩, hg, hm => by
    obtain ⟨sf, scs, rfl, hsf, hscs, rfl⟩ := c08_plainT_dict_of_native ha hna
    simp only [getPlainAt, hna, Option.some.injEq] at hg
    subst hg
    simp only [c08_missingAt, Option.isNone_iff_eq_none] at hm
    have hl := c08_alookup_native_none hm
    simp only [List.nil_append, c08_nest, c08_mergeF_dict, c08_compMerge_level (mergeF n) hsf ho]
    rw [c08_step_missing (mergeF n) sf scs k _ hl (by rw [c08_nest_flags]; rfl)]
  | k0 :: pre', k, post, a, n, of, t, ha, ho, hn, ⟨items, hna⟩, hg, hm => by
    obtain ⟨sf, scs, rfl, hsf, hscs, rfl⟩ := c08_plainT_dict_of_native ha hna
    simp only [hna, getPlainAt] at hg
    cases hl0 : alookup k0 (nativeList scs) with
    | none => simp [hl0] at hg
    | some ct =>
      simp only [hl0] at hg
      obtain ⟨c, hl, rfl⟩ := c08_alookup_native hl0
      have hcT : plainT c = true := alookup_plainT k0 scs hscs c hl
      obtain ⟨n', rfl⟩ : ∃ n', n = n' + 1 := ⟨n - 1, by simp at hn; omega⟩
      have hn' : (pre' ++ k :: post).length ≤ n' := by simp at hn ⊢; omega
      simp only [List.cons_append, c08_nest, c08_mergeF_dict, c08_compMerge_level (mergeF (n' + 1)) hsf ho]
      cases hnc : native c with
      | list xs =>
        -- a list can only be the end of `pre`, where `c08_missingAt` excludes it
        cases pre' with
        | nil =>
          simp only [getPlainAt, Option.some.injEq] at hg
          rw [← hg, hnc] at hm; simp [c08_missingAt] at hm
        | cons k1 pre'' => simp [hnc, getPlainAt] at hg
      | dict items' =>
        have ih := c08_override_missing env v pre' k post c n' (c08_inFlags env) t hcT
          (c08_docFlags_in env) hn' ⟨items', hnc⟩ hg hm
        rw [c08_step_error (mergeF (n' + 1)) sf scs k0 _ c _ hl ih]
        rfl
      | scalar x =>
        cases pre' with
        | cons k1 pre'' => simp [hnc, getPlainAt] at hg
        | nil =>
          obtain ⟨cf, rfl, hcf⟩ := c08_plainT_scalar_of_native hcT hnc
          simp only [List.nil_append, c08_nest]
          rw [c08_step_scalar_blocks (mergeF (n' + 1)) sf scs k0 _ _ _ [k] hl rfl
            (c08_mergeF_scalar_vs_map n' cf _ hcf _ (c08_docFlags_in env) _)]
          exact c08_reqNewBelow_propagate_blocked _ rfl _ _ _

/-! ### the loader builds `nestDoc` from the YAML representation of the override -/

/-- the inherited keywords below the `!notnew` root -/
def c08_kwIn : ChildKw := { iDel := none, iNew := some false, iSafe := none }

theorem c08_childKw_in (env : Env) : childKw (c08_inFlags env) .dict = some c08_kwIn := rfl
theorem c08_childKw_top (env : Env) : childKw (c08_topFlags env) .dict = some c08_kwIn := rfl


/-- the inherited keywords below an untagged mapping -/
def c08_kw0 : ChildKw := { iDel := none, iNew := none, iSafe := none }

/-- the nested mappings as built bottom-up, before the `!notnew` root hands its flags down -/
def c08_nestB (env : Env) : List Key → Scalar → Node
  | [], v => .leaf (bareFlags env) (.scalar v)
  | k :: ks, v => .comp (bareFlags env) .dict [(k, c08_nestB env ks v)]

theorem c08_applyKw0_nestB (env : Env) (v : Scalar) : ∀ ks : List Key,
    applyKw c08_kw0 (c08_nestB env ks v) = c08_nestB env ks v
  | [] => rfl
  | k :: ks => by
    simp [c08_nestB, applyKw, flagsChanged, c08_kw0, bareFlags]

theorem c08_inherit0_nestB (env : Env) (v : Scalar) (ks : List Key) :
    inheritInto none (childKw (bareFlags env) .dict) (c08_nestB env ks v) = c08_nestB env ks v := by
  cases ks with
  | nil => rfl
  | cons k ks =>
    have := c08_applyKw0_nestB env v ks
    simp only [c08_kw0] at this
    simp [inheritInto, childKw, bareFlags, c08_nestB, Node.setFlags, Node.flags, updFlags, propagate,
      applyKwList, defaultDelete, Tables.defaultDeleteDict] at this ⊢
    exact this

theorem c08_constructDeep_rawIn (env : Env) (v : Scalar) : ∀ ks : List Key,
    constructDeep env (c08_rawIn ks v) = .ok (c08_nestB env ks v)
  | [] => rfl
  | k :: ks => by
    simp only [c08_rawIn, constructDeep, constructDeepMap, c08_constructDeep_rawIn env v ks, wrapMap,
      initChildren, List.map, c08_inherit0_nestB, c08_nestB]

theorem c08_applyKwIn_nestB (env : Env) (v : Scalar) : ∀ ks : List Key,
    applyKw c08_kwIn (c08_nestB env ks v) = c08_nestIn env ks v
  | [] => rfl
  | k :: ks => by
    have ih := c08_applyKwIn_nestB env v ks
    simp only [c08_kwIn, c08_nestIn] at ih
    simp [c08_nestB, c08_nestIn, c08_nest, applyKw, flagsChanged, c08_kwIn, bareFlags, updFlags, childKw,
      c08_inFlags, applyKwList, defaultDelete, Tables.defaultDeleteDict] at ih ⊢
    exact ih

theorem c08_inheritIn_nestB (env : Env) (v : Scalar) (ks : List Key) :
    inheritInto none (childKw (c08_topFlags env) .dict) (c08_nestB env ks v) = c08_nestIn env ks v := by
  cases ks with
  | nil => rfl
  | cons k ks =>
    have := c08_applyKwIn_nestB env v ks
    simp only [c08_kwIn, c08_nestIn] at this
    simp [inheritInto, childKw, bareFlags, c08_nestB, Node.setFlags, Node.flags, updFlags, propagate,
      applyKwList, defaultDelete, Tables.defaultDeleteDict, c08_topFlags, c08_nestIn, c08_nest,
      c08_inFlags] at this ⊢
    exact this

/-- the loader turns the YAML of a command-line override into `nestDoc` -/
theorem c08_construct_rawDoc (env : Env) (v : Scalar) (k : Key) (ks : List Key) :
    construct env (c08_rawDoc (k :: ks) v) = .ok (nestDoc env (k :: ks) v) := by
  have e : mkFlags env { new := some false } = c08_topFlags env := rfl
  simp only [construct, c08_rawDoc, constructTD, constructDeep, constructDeepMap,
    c08_constructDeep_rawIn env v ks, wrapMap, initChildren, List.map, e, c08_inheritIn_nestB, adoptBy,
    nestDoc, c08_nest, c08_nestIn]

end AY
