/-
  AY.Lemmas.C15TaggedConstruct — the tagged clauses of C15 through the loader.

  Documents of the domain (`rawDict`): mappings of mappings and scalars, every node untagged or carrying
  a merge-control tag (any constructor keywords), distinct keys.

  * `RawPermD r r'`: the same document up to the order of the items inside mappings (same tags,
    keywords and scalars), stated through `alookup` like `PermD`;
  * `construct_perm`: the loader maps `RawPermD` documents to `PermD` trees — both construction modes
    build the children of a mapping independently of each other and of their order;
  * `construct_dom`, `construct_noIdiom`: the loader maps documents of the domain without `!notnew`
    to trees of the domain `Dom`, and documents without the remove-this-key idiom to trees without it;
  * `constructDocs_perm`, `constructDocs_repeat`: sequences of documents.
-/
import AY.Lemmas.C15TaggedFlatten
import AY.Lemmas.C15WholeConstruct
import AY.Lemmas.C01Construct
namespace AY.C15T
open AY.C15W (NN nnList nnF)

/-! ### documents of the domain -/

mutual
/-- mappings of mappings and scalars, untagged or merge-control tags, distinct keys -/
def rawDict : Raw → Bool
  | .scalar t _ _ => tagOK t
  | .seq .. => false
  | .map t _ items => tagOK t && keysNodup items && rawDictMap items
def rawDictMap : List (Key × Raw) → Bool
  | [] => true
  | (_, r) :: rest => rawDict r && rawDictMap rest
end

mutual
theorem rawTagged_of_rawDict : ∀ r : Raw, rawDict r = true → rawTagged r = true
  | .scalar t kw v, h => by simpa [rawDict, rawTagged] using h
  | .seq t kw items, h => by simp [rawDict] at h
  | .map t kw items, h => by
    have h' : (tagOK t = true ∧ keysNodup items = true) ∧ rawDictMap items = true := by simpa [rawDict] using h
    simp [rawTagged, h'.1.1, h'.1.2, rawTaggedMap_of_rawDictMap items h'.2]
theorem rawTaggedMap_of_rawDictMap : ∀ items : List (Key × Raw), rawDictMap items = true → rawTaggedMap items = true
  | [], _ => rfl
  | (k, r) :: rest, h => by
    have h' : rawDict r = true ∧ rawDictMap rest = true := by simpa [rawDictMap] using h
    simp [rawTaggedMap, rawTagged_of_rawDict r h'.1, rawTaggedMap_of_rawDictMap rest h'.2]
end

theorem rawDictMap_lookup : ∀ (items : List (Key × Raw)), rawDictMap items = true → ∀ k r,
    alookup k items = some r → rawDict r = true
  | [], _, k, r, h => by simp [alookup] at h
  | (k', x) :: rest, hn, k, r, h => by
    have hn' : rawDict x = true ∧ rawDictMap rest = true := by simpa [rawDictMap] using hn
    by_cases e : k' = k
    · simp [alookup, e] at h; subst h; exact hn'.1
    · simp [alookup, e] at h; exact rawDictMap_lookup rest hn'.2 k r h

theorem rawDictMap_of_lookup : ∀ (items : List (Key × Raw)),
    (∀ k r, (k, r) ∈ items → rawDict r = true) → rawDictMap items = true
  | [], _ => rfl
  | (k, r) :: rest, h => by
    simp only [rawDictMap, h k r (by simp), Bool.true_and]
    exact rawDictMap_of_lookup rest (fun k' r' hm => h k' r' (List.mem_cons_of_mem _ hm))

mutual
def rawDepth : Raw → Nat
  | .scalar .. => 0
  | .seq _ _ items => rawDepthL items + 1
  | .map _ _ items => rawDepthM items + 1
def rawDepthL : List Raw → Nat
  | [] => 0
  | r :: rest => max (rawDepth r) (rawDepthL rest)
def rawDepthM : List (Key × Raw) → Nat
  | [] => 0
  | (_, r) :: rest => max (rawDepth r) (rawDepthM rest)
end

theorem rawDepthM_lookup (k : Key) : ∀ (items : List (Key × Raw)) (r : Raw), alookup k items = some r →
    rawDepth r ≤ rawDepthM items
  | [], r, h => by simp [alookup] at h
  | (k', x) :: rest, r, h => by
    by_cases hk : k' = k
    · simp [alookup, hk] at h; subst h; simp only [rawDepthM]; omega
    · simp [alookup, hk] at h
      have := rawDepthM_lookup k rest r h
      simp only [rawDepthM]; omega

/-! ### documents up to the order of items inside mappings -/

inductive RawPermD : Raw → Raw → Prop
  | scalar (t : TagKind) (kw : CtorKw) (v : RVal) : tagOK t = true → RawPermD (.scalar t kw v) (.scalar t kw v)
  | map (t : TagKind) (kw : CtorKw) {items items' : List (Key × Raw)} : tagOK t = true →
      keysNodup items = true → keysNodup items' = true →
      (∀ k, OptRel RawPermD (alookup k items) (alookup k items')) → RawPermD (.map t kw items) (.map t kw items')

/-- induction over related documents -/
theorem RawPermD.ind {motive : Raw → Raw → Prop}
    (hscalar : ∀ t kw v, tagOK t = true → motive (.scalar t kw v) (.scalar t kw v))
    (hmap : ∀ t kw (items items' : List (Key × Raw)), tagOK t = true → keysNodup items = true →
      keysNodup items' = true → (∀ k, OptRel RawPermD (alookup k items) (alookup k items')) →
      (∀ k r r', alookup k items = some r → alookup k items' = some r' → motive r r') →
      motive (.map t kw items) (.map t kw items')) :
    ∀ {r r' : Raw}, RawPermD r r' → motive r r' := by
  have key : ∀ (d : Nat) (r r' : Raw), rawDepth r ≤ d → RawPermD r r' → motive r r' := by
    intro d
    induction d with
    | zero =>
      intro r r' hd h
      cases h with
      | scalar t kw v ht => exact hscalar t kw v ht
      | map t kw ht h1 h2 h3 => simp [rawDepth] at hd
    | succ d ih =>
      intro r r' hd h
      cases h with
      | scalar t kw v ht => exact hscalar t kw v ht
      | map t kw ht h1 h2 h3 =>
        rename_i items items'
        refine hmap t kw items items' ht h1 h2 h3 ?_
        intro k r r' hr hr'
        have hdr : rawDepth r ≤ d := by
          have := rawDepthM_lookup k items r hr
          simp only [rawDepth] at hd
          omega
        have := h3 k
        rw [hr, hr'] at this
        cases this with
        | some hrr => exact ih r r' hdr hrr
  intro r r' h
  exact key (rawDepth r) r r' (Nat.le_refl _) h

theorem RawPermD.rawDict_left {r r' : Raw} (h : RawPermD r r') : rawDict r = true := by
  refine RawPermD.ind (motive := fun r _ => rawDict r = true) ?_ ?_ h
  · intro t kw v ht
    simpa [rawDict] using ht
  · intro t kw items items' ht h1 h2 h3 ih
    simp only [rawDict, ht, h1, Bool.true_and]
    apply rawDictMap_of_lookup
    intro k r hm
    have hr := alookup_of_mem h1 hm
    have := h3 k
    rw [hr] at this
    obtain ⟨r', hr', _⟩ := this.someL
    exact ih k r r' hr hr'

theorem RawPermD.rawDict_right {r r' : Raw} (h : RawPermD r r') : rawDict r' = true := by
  refine RawPermD.ind (motive := fun _ r' => rawDict r' = true) ?_ ?_ h
  · intro t kw v ht
    simpa [rawDict] using ht
  · intro t kw items items' ht h1 h2 h3 ih
    simp only [rawDict, ht, h2, Bool.true_and]
    apply rawDictMap_of_lookup
    intro k r' hm
    have hr' := alookup_of_mem h2 hm
    have := h3 k
    rw [hr'] at this
    obtain ⟨r, hr, _⟩ := this.someR
    exact ih k r r' hr hr'

theorem RawPermD.refl : ∀ (d : Nat) (r : Raw), rawDepth r ≤ d → rawDict r = true → RawPermD r r := by
  intro d
  induction d with
  | zero =>
    intro r hd h
    cases r with
    | scalar t kw v => exact .scalar t kw v (by simpa [rawDict] using h)
    | seq t kw items => simp [rawDict] at h
    | map t kw items => simp [rawDepth] at hd
  | succ d ih =>
    intro r hd h
    cases r with
    | scalar t kw v => exact .scalar t kw v (by simpa [rawDict] using h)
    | seq t kw items => simp [rawDict] at h
    | map t kw items =>
      have h' : (tagOK t = true ∧ keysNodup items = true) ∧ rawDictMap items = true := by simpa [rawDict] using h
      refine .map t kw h'.1.1 h'.1.2 h'.1.2 ?_
      intro k
      cases hr : alookup k items with
      | none => exact .none
      | some r =>
        have hdr : rawDepth r ≤ d := by
          have := rawDepthM_lookup k items r hr
          simp only [rawDepth] at hd
          omega
        exact .some (ih r hdr (rawDictMap_lookup items h'.2 k r hr))

/-! ### flag bookkeeping of the constructors and `PermD` -/

theorem alookup_setPrioAllList (p : Int) (k : Key) :
    ∀ cs : List (Key × Node), alookup k (setPrioAllList p cs) = (alookup k cs).map (setPrioAll p)
  | [] => rfl
  | (k', c) :: rest => by
    by_cases h : k' = k <;> simp [setPrioAllList, alookup, h, alookup_setPrioAllList p k rest]

theorem akeys_setPrioAllList (p : Int) : ∀ cs : List (Key × Node), akeys (setPrioAllList p cs) = akeys cs
  | [] => rfl
  | (k, c) :: rest => by simp [setPrioAllList, akeys, akeys_setPrioAllList p rest]

theorem PermD.setPrioAll {n n' : Node} (h : PermD n n') (p : Int) : PermD (setPrioAll p n) (setPrioAll p n') := by
  refine PermD.ind (motive := fun n n' => PermD (AY.setPrioAll p n) (AY.setPrioAll p n')) ?_ ?_ h
  · intro f k
    exact .leaf _ k
  · intro f cs cs' h1 h2 h3 ih
    simp only [AY.setPrioAll]
    refine .dict _ (by rw [keysNodup_congr _ _ (akeys_setPrioAllList p cs)]; exact h1)
      (by rw [keysNodup_congr _ _ (akeys_setPrioAllList p cs')]; exact h2) ?_
    intro k
    rw [alookup_setPrioAllList, alookup_setPrioAllList]
    have := h3 k
    cases hc : alookup k cs with
    | none => rw [hc] at this; rw [this.noneL]; exact .none
    | some c =>
      rw [hc] at this
      obtain ⟨c', hc', _⟩ := this.someL
      rw [hc']
      exact .some (ih k c c' hc hc')

theorem PermD.inheritInto {n n' : Node} (h : PermD n n') (p? : Option Int) (kw? : Option ChildKw) :
    PermD (inheritInto p? kw? n) (inheritInto p? kw? n') := by
  cases p? with
  | none =>
    cases kw? with
    | none => exact h
    | some kw =>
      simp only [AY.inheritInto]
      rw [h.flags_eq]
      exact (h.setFlags _).propagate
  | some p =>
    have h1 := h.setPrioAll p
    cases kw? with
    | none => exact h1
    | some kw =>
      simp only [AY.inheritInto]
      rw [h1.flags_eq]
      exact (h1.setFlags _).propagate

/-- a parent is absent or a mapping -/
def DictParent (parent : Option (Flags × CompKind)) : Prop := ∀ pf pk, parent = some (pf, pk) → pk = .dict

theorem PermD.adoptBy {n n' : Node} (h : PermD n n') {parent : Option (Flags × CompKind)} (hp : DictParent parent) :
    PermD (adoptBy parent n) (adoptBy parent n') := by
  cases parent with
  | none => exact h
  | some p =>
    obtain ⟨pf, pk⟩ := p
    obtain rfl := hp pf pk rfl
    exact h.adopt pf

theorem alookup_initChildren (f : Flags) (kd : CompKind) (p? : Option Int) (k : Key) :
    ∀ cs : List (Key × Node), alookup k (initChildren f kd p? cs) =
      (alookup k cs).map (inheritInto p? (childKw f kd))
  | [] => rfl
  | (k', c) :: rest => by
    have ih := alookup_initChildren f kd p? k rest
    simp only [initChildren] at ih
    by_cases h : k' = k <;> simp [initChildren, alookup, h, ih]

theorem akeys_initChildren (f : Flags) (kd : CompKind) (p? : Option Int) :
    ∀ cs : List (Key × Node), akeys (initChildren f kd p? cs) = akeys cs
  | [] => rfl
  | (k, c) :: rest => by
    have ih := akeys_initChildren f kd p? rest
    simp only [initChildren] at ih
    simp [initChildren, akeys, ih]

/-- the flags and the priority keyword a mapping constructor works with -/
def mapFlags (env : Env) (t : TagKind) (kw : CtorKw) : Flags := if t = .none then bareFlags env else mkFlags env kw
def mapPrio (t : TagKind) (kw : CtorKw) : Option Int := if t = .none then none else kw.prio

theorem wrapMap_ok (env : Env) {t : TagKind} (kw : CtorKw) (cs : List (Key × Node)) (ht : tagOK t = true) :
    wrapMap env t kw cs = .ok (.comp (mapFlags env t kw) .dict
      (initChildren (mapFlags env t kw) .dict (mapPrio t kw) cs)) := by
  rcases (tagOK_iff t).1 ht with h | h <;> subst h <;> rfl

theorem wrapScalar_leaf (env : Env) {t : TagKind} (kw : CtorKw) (v : RVal) (ht : tagOK t = true) :
    ∃ f k, wrapScalar env t kw v = .ok (.leaf f k) := by
  rcases (tagOK_iff t).1 ht with h | h <;> subst h
  · exact ⟨_, _, rfl⟩
  · cases v with
    | empty => exact ⟨_, _, rfl⟩
    | text s => exact ⟨_, _, rfl⟩
    | lit s => cases s <;> exact ⟨_, _, rfl⟩

/-! ### the children of a constructed mapping, key by key -/

theorem deepMap_spec (env : Env) : ∀ (items : List (Key × Raw)) (cs : List (Key × Node)),
    constructDeepMap env items = .ok cs →
    akeys cs = akeys items ∧
      ∀ k r, alookup k items = some r → ∃ n, constructDeep env r = .ok n ∧ alookup k cs = some n
  | [], cs, h => by
    simp only [constructDeepMap, Except.ok.injEq] at h
    subst h
    exact ⟨rfl, fun k r hr => by simp [alookup] at hr⟩
  | (k0, r0) :: rest, cs, h => by
    simp only [constructDeepMap] at h
    cases h0 : constructDeep env r0 with
    | error e => simp [h0] at h
    | ok n0 =>
      simp only [h0] at h
      cases h1 : constructDeepMap env rest with
      | error e => simp [h1] at h
      | ok ns =>
        simp only [h1, Except.ok.injEq] at h
        subst h
        obtain ⟨ih1, ih2⟩ := deepMap_spec env rest ns h1
        refine ⟨by simp [akeys, ih1], ?_⟩
        intro k r hr
        by_cases e : k0 = k
        · subst e
          simp only [alookup, if_true, Option.some.injEq] at hr
          subst hr
          exact ⟨n0, h0, by simp [alookup]⟩
        · simp only [alookup, e, if_false] at hr ⊢
          exact ih2 k r hr

theorem tdMap_spec (env : Env) (pf : Flags) (pk : CompKind) : ∀ (items : List (Key × Raw)) (acc res : List (Key × Node)),
    keysNodup items = true → (∀ k, k ∈ akeys items → alookup k acc = none) →
    constructTDMap env pf pk items acc = .ok res →
    ∃ ns, res = acc ++ ns ∧ akeys ns = akeys items ∧
      ∀ k r, alookup k items = some r → ∃ n, constructTD env (some (pf, pk)) r = .ok n ∧ alookup k ns = some n
  | [], acc, res, _, _, h => by
    simp only [constructTDMap, Except.ok.injEq] at h
    subst h
    exact ⟨[], by simp, rfl, fun k r hr => by simp [alookup] at hr⟩
  | (k0, r0) :: rest, acc, res, hnd, hfresh, h => by
    have hnd' : (akeys rest).contains k0 = false ∧ keysNodup rest = true := by simpa [keysNodup] using hnd
    simp only [constructTDMap] at h
    cases h0 : constructTD env (some (pf, pk)) r0 with
    | error e => simp [h0] at h
    | ok n0 =>
      simp only [h0] at h
      have hk : alookup k0 acc = none := hfresh k0 (by simp [akeys])
      rw [aset_of_lookup_none k0 n0 acc hk] at h
      have hfresh' : ∀ k', k' ∈ akeys rest → alookup k' (acc ++ [(k0, n0)]) = none := by
        intro k' hk'
        apply alookup_append_none
        · exact hfresh k' (by simp [akeys, hk'])
        · have : k0 ≠ k' := by
            intro e; subst e
            have := hnd'.1
            simp at this
            exact this hk'
          simp [alookup, this]
      obtain ⟨ns, e1, e2, e3⟩ := tdMap_spec env pf pk rest (acc ++ [(k0, n0)]) res hnd'.2 hfresh' h
      refine ⟨(k0, n0) :: ns, by rw [e1]; simp, by simp [akeys, e2], ?_⟩
      intro k r hr
      by_cases e : k0 = k
      · subst e
        simp only [alookup, if_true, Option.some.injEq] at hr
        subst hr
        exact ⟨n0, h0, by simp [alookup]⟩
      · simp only [alookup, e, if_false] at hr ⊢
        exact e3 k r hr

theorem tdMap_spec_nil (env : Env) (pf : Flags) (pk : CompKind) (items : List (Key × Raw)) (res : List (Key × Node))
    (hn : keysNodup items = true) (h : constructTDMap env pf pk items [] = .ok res) :
    akeys res = akeys items ∧
      ∀ k r, alookup k items = some r → ∃ n, constructTD env (some (pf, pk)) r = .ok n ∧ alookup k res = some n := by
  obtain ⟨ns, e1, e2, e3⟩ := tdMap_spec env pf pk items [] res hn (fun _ _ => rfl) h
  simp only [List.nil_append] at e1
  rw [e1]
  exact ⟨e2, e3⟩

/-! ### the loader and the order of items -/

/-- what both construction modes do to a pair of related documents -/
structure CPerm (env : Env) (r r' : Raw) : Prop where
  deep : ∀ n, constructDeep env r = .ok n → ∃ n', constructDeep env r' = .ok n' ∧ PermD n n'
  td : ∀ parent, DictParent parent → ∀ n, constructTD env parent r = .ok n →
    ∃ n', constructTD env parent r' = .ok n' ∧ PermD n n'

theorem construct_cperm (env : Env) {r r' : Raw} (h : RawPermD r r') : CPerm env r r' := by
  refine RawPermD.ind (motive := fun r r' => CPerm env r r') ?_ ?_ h
  · -- scalars: the same node on both sides, a leaf
    intro t kw v ht
    obtain ⟨f, k, hw⟩ := wrapScalar_leaf env kw v ht
    constructor
    · intro n hn
      simp only [constructDeep, hw, Except.ok.injEq] at hn
      subst hn
      exact ⟨_, by simp only [constructDeep, hw], .leaf f k⟩
    · intro parent hp n hn
      refine ⟨n, hn, ?_⟩
      rcases (tagOK_iff t).1 ht with e | e <;> subst e
      · simp only [constructTD, Except.ok.injEq] at hn
        subst hn
        exact (PermD.leaf _ _).adoptBy hp
      · simp only [constructTD, hw, Except.ok.injEq] at hn
        subst hn
        exact (PermD.leaf f k).adoptBy hp
  · intro t kw items items' ht h1 h2 h3 ih
    have hD' : rawDict (.map t kw items') = true :=
      (RawPermD.map t kw ht h1 h2 h3).rawDict_right
    have hD'' : (tagOK t = true ∧ keysNodup items' = true) ∧ rawDictMap items' = true := by
      simpa [rawDict] using hD'
    have hT' : rawTaggedMap items' = true := rawTaggedMap_of_rawDictMap items' hD''.2
    -- bottom-up
    have hdeep : ∀ n, constructDeep env (.map t kw items) = .ok n →
        ∃ n', constructDeep env (.map t kw items') = .ok n' ∧ PermD n n' := by
      intro n hn
      simp only [constructDeep] at hn ⊢
      cases hcs : constructDeepMap env items with
      | error e => simp [hcs] at hn
      | ok cs =>
        simp only [hcs, wrapMap_ok env kw cs ht, Except.ok.injEq] at hn
        subst hn
        obtain ⟨cs', hcs', _, _, _⟩ := constructDeepMap_tag env items' hT'
        obtain ⟨k1, l1⟩ := deepMap_spec env items cs hcs
        obtain ⟨k2, l2⟩ := deepMap_spec env items' cs' hcs'
        simp only [hcs', wrapMap_ok env kw cs' ht]
        refine ⟨_, rfl, ?_⟩
        have n1 : keysNodup cs = true := by rw [keysNodup_congr _ _ k1]; exact h1
        have n2 : keysNodup cs' = true := by rw [keysNodup_congr _ _ k2]; exact h2
        refine .dict _ (by rw [keysNodup_congr _ _ (akeys_initChildren _ _ _ cs)]; exact n1)
          (by rw [keysNodup_congr _ _ (akeys_initChildren _ _ _ cs')]; exact n2) ?_
        intro k
        rw [alookup_initChildren, alookup_initChildren]
        have hr := h3 k
        cases hi : alookup k items with
        | none =>
          rw [hi] at hr
          have hi' := hr.noneL
          have e1 : alookup k cs = none := by
            apply (alookup_none_iff k cs).2
            rw [k1]
            exact (alookup_none_iff k items).1 hi
          have e2 : alookup k cs' = none := by
            apply (alookup_none_iff k cs').2
            rw [k2]
            exact (alookup_none_iff k items').1 hi'
          rw [e1, e2]
          exact .none
        | some r =>
          rw [hi] at hr
          obtain ⟨r', hi', _⟩ := hr.someL
          obtain ⟨c, hc, hlc⟩ := l1 k r hi
          obtain ⟨c', hc', hlc'⟩ := l2 k r' hi'
          obtain ⟨c'', hc'', hcc⟩ := (ih k r r' hi hi').deep c hc
          rw [hc'] at hc''
          injection hc'' with hc''
          subst hc''
          rw [hlc, hlc']
          exact .some (hcc.inheritInto _ _)
    refine ⟨hdeep, ?_⟩
    intro parent hp n hn
    rcases (tagOK_iff t).1 ht with e | e <;> subst e
    · -- top-down: the empty mapping is adopted, then filled
      obtain ⟨f', hf'⟩ := adoptBy_empty parent (bareFlags env) .dict
      simp only [constructTD, hf'] at hn ⊢
      cases hres : constructTDMap env f' .dict items [] with
      | error e => simp [hres] at hn
      | ok res =>
        simp only [hres, Except.ok.injEq] at hn
        subst hn
        obtain ⟨ns', hres', _, _, _⟩ := constructTDMap_tag env items' f' .dict [] hT' h2 (fun _ _ => rfl)
        simp only [List.nil_append] at hres'
        obtain ⟨k1, l1⟩ := tdMap_spec_nil env f' .dict items res h1 hres
        obtain ⟨k2, l2⟩ := tdMap_spec_nil env f' .dict items' ns' h2 hres'
        simp only [hres']
        refine ⟨_, rfl, ?_⟩
        refine .dict _ (by rw [keysNodup_congr _ _ k1]; exact h1) (by rw [keysNodup_congr _ _ k2]; exact h2) ?_
        intro k
        have hr := h3 k
        cases hi : alookup k items with
        | none =>
          rw [hi] at hr
          have hi' := hr.noneL
          have e1 : alookup k res = none := by
            apply (alookup_none_iff k res).2
            rw [k1]
            exact (alookup_none_iff k items).1 hi
          have e2 : alookup k ns' = none := by
            apply (alookup_none_iff k ns').2
            rw [k2]
            exact (alookup_none_iff k items').1 hi'
          rw [e1, e2]
          exact .none
        | some r =>
          rw [hi] at hr
          obtain ⟨r', hi', _⟩ := hr.someL
          obtain ⟨c, hc, hlc⟩ := l1 k r hi
          obtain ⟨c', hc', hlc'⟩ := l2 k r' hi'
          obtain ⟨c'', hc'', hcc⟩ := (ih k r r' hi hi').td (some (f', .dict)) (fun _ _ e => by cases e; rfl) c hc
          rw [hc'] at hc''
          injection hc'' with hc''
          subst hc''
          rw [hlc, hlc']
          exact .some hcc
    · -- a tagged mapping: built bottom-up, then adopted
      simp only [constructTD] at hn ⊢
      cases hd : constructDeep env (.map .plain kw items) with
      | error e => simp [hd] at hn
      | ok m =>
        simp only [hd, Except.ok.injEq] at hn
        subst hn
        obtain ⟨m', hm', hmm⟩ := hdeep m hd
        simp only [hm']
        exact ⟨_, rfl, hmm.adoptBy hp⟩

/-- the loader maps documents equal up to the order of items to trees equal up to the order of keys -/
theorem construct_perm (env : Env) {r r' : Raw} (h : RawPermD r r') :
    ∃ n n', construct env r = .ok n ∧ construct env r' = .ok n' ∧ PermD n n' ∧ dataT n = true := by
  obtain ⟨n, hn, _, hd⟩ := constructTD_tag env r none (rawTagged_of_rawDict r h.rawDict_left)
  obtain ⟨n', hn', hnn⟩ := (construct_cperm env h).td none (fun _ _ e => by cases e) n hn
  exact ⟨n, n', hn, hn', hnn, hd⟩

/-! ### the domain of the idempotence clause -/

/-- a mapping document of the domain without `!notnew` -/
def rawDom (r : Raw) : Bool :=
  rawDict r && AY.Raw.nn r && (match r with | .map .. => true | _ => false)

mutual
/-- no explicit `!del` on an empty mapping or on a falsy / empty scalar -/
def rawNoIdiom : Raw → Bool
  | .scalar _ kw v => !(kw.del == some true && !v.toScalar.truthy)
  | .seq _ kw items => !(kw.del == some true && items.isEmpty)
  | .map _ kw items => !(kw.del == some true && items.isEmpty) && rawNoIdiomMap items
def rawNoIdiomMap : List (Key × Raw) → Bool
  | [] => true
  | (_, r) :: rest => rawNoIdiom r && rawNoIdiomMap rest
end

/-! ### the remove-this-key idiom through the loader -/

mutual
theorem noIdiom_core : ∀ n : Node, noIdiom (core n) = noIdiom n
  | .leaf f k => rfl
  | .comp f k cs => by simp only [core, noIdiom, isEmpty_coreList, noIdiomList_core cs]; rfl
theorem noIdiomList_core : ∀ cs : List (Key × Node), noIdiomList (coreList cs) = noIdiomList cs
  | [] => rfl
  | (k, c) :: rest => by simp only [coreList, noIdiomList, noIdiom_core c, noIdiomList_core rest]
end

theorem noIdiom_of_core_eq {a b : Node} (h : core a = core b) : noIdiom a = noIdiom b := by
  rw [← noIdiom_core a, ← noIdiom_core b, h]

theorem isEmpty_setPrioAllList (p : Int) (cs : List (Key × Node)) : (setPrioAllList p cs).isEmpty = cs.isEmpty := by
  cases cs with
  | nil => rfl
  | cons kv rest => obtain ⟨k, c⟩ := kv; rfl

mutual
theorem noIdiom_setPrioAll (p : Int) : ∀ n : Node, noIdiom (setPrioAll p n) = noIdiom n
  | .leaf f k => rfl
  | .comp f k cs => by
    simp only [setPrioAll, noIdiom, isEmpty_setPrioAllList, noIdiomList_setPrioAllList p cs]
theorem noIdiomList_setPrioAllList (p : Int) : ∀ cs : List (Key × Node),
    noIdiomList (setPrioAllList p cs) = noIdiomList cs
  | [] => rfl
  | (k, c) :: rest => by
    simp only [setPrioAllList, noIdiomList, noIdiom_setPrioAll p c, noIdiomList_setPrioAllList p rest]
end

theorem core_inheritInto_none (kw? : Option ChildKw) (n : Node) : core (inheritInto none kw? n) = core n := by
  cases kw? with
  | none => rfl
  | some kw =>
    simp only [inheritInto]
    rw [core_propagate, core_setFlags, coreF_updFlags, ← core_flags]
    cases n <;> rfl

theorem noIdiom_inheritInto (p? : Option Int) (kw? : Option ChildKw) (n : Node) :
    noIdiom (inheritInto p? kw? n) = noIdiom n := by
  cases p? with
  | none => exact noIdiom_of_core_eq (core_inheritInto_none kw? n)
  | some p =>
    have e : inheritInto (some p) kw? n = inheritInto none kw? (setPrioAll p n) := by
      cases kw? <;> rfl
    rw [e, noIdiom_of_core_eq (core_inheritInto_none kw? _), noIdiom_setPrioAll]

theorem noIdiom_adoptBy (parent : Option (Flags × CompKind)) (n : Node) : noIdiom (adoptBy parent n) = noIdiom n := by
  cases parent with
  | none => rfl
  | some p =>
    obtain ⟨pf, pk⟩ := p
    exact noIdiom_of_core_eq (core_adopt pf pk n)

theorem noIdiomList_initChildren (f : Flags) (kd : CompKind) (p? : Option Int) :
    ∀ cs : List (Key × Node), noIdiomList (initChildren f kd p? cs) = noIdiomList cs
  | [] => rfl
  | (k, c) :: rest => by
    have ih := noIdiomList_initChildren f kd p? rest
    simp only [initChildren] at ih
    simp only [initChildren, List.map_cons, noIdiomList, noIdiom_inheritInto, ih]

theorem isEmpty_initChildren (f : Flags) (kd : CompKind) (p? : Option Int) (cs : List (Key × Node)) :
    (initChildren f kd p? cs).isEmpty = cs.isEmpty := by
  cases cs <;> rfl

theorem noIdiomList_aset {k : Key} {n : Node} (hn : noIdiom n = true) : ∀ {acc : List (Key × Node)},
    noIdiomList acc = true → noIdiomList (aset k n acc) = true
  | [], _ => by simp [aset, noIdiomList, hn]
  | (k', v') :: acc, h => by
    have h' : noIdiom v' = true ∧ noIdiomList acc = true := by simpa [noIdiomList] using h
    simp only [aset]
    split
    · simp [noIdiomList, hn, h'.2]
    · simp [noIdiomList, h'.1, noIdiomList_aset hn h'.2]

theorem mapFlags_del (env : Env) (t : TagKind) (kw : CtorKw) :
    (mapFlags env t kw).del = if t = .none then none else kw.del := by
  simp only [mapFlags]
  split <;> rfl

theorem wrapScalar_noIdiom (env : Env) {t : TagKind} (kw : CtorKw) (v : RVal) (ht : tagOK t = true) {n : Node}
    (hni : rawNoIdiom (.scalar t kw v) = true) (h : wrapScalar env t kw v = .ok n) : noIdiom n = true := by
  rcases (tagOK_iff t).1 ht with e | e <;> subst e
  · simp only [wrapScalar, Except.ok.injEq] at h
    subst h
    rfl
  · cases v with
    | empty =>
      simp only [wrapScalar, Except.ok.injEq] at h
      subst h
      simpa [noIdiom, rawNoIdiom, mkFlags, RVal.toScalar, LeafKind.truthy] using hni
    | text s =>
      simp only [wrapScalar, Except.ok.injEq] at h
      subst h
      simpa [noIdiom, rawNoIdiom, mkFlags, RVal.toScalar, LeafKind.truthy] using hni
    | lit sc =>
      cases sc <;>
      · simp only [wrapScalar, Except.ok.injEq] at h
        subst h
        first
          | rfl
          | simpa [noIdiom, rawNoIdiom, mkFlags, RVal.toScalar, LeafKind.truthy, bareFlags] using hni

mutual
theorem constructDeep_noIdiom (env : Env) : ∀ (r : Raw) (n : Node), rawDict r = true → rawNoIdiom r = true →
    constructDeep env r = .ok n → noIdiom n = true
  | .scalar t kw v, n, hd, hni, h => by
    have ht : tagOK t = true := by simpa [rawDict] using hd
    exact wrapScalar_noIdiom env kw v ht hni (by simpa only [constructDeep] using h)
  | .seq t kw items, n, hd, _, _ => by simp [rawDict] at hd
  | .map t kw items, n, hd, hni, h => by
    have hd' : (tagOK t = true ∧ keysNodup items = true) ∧ rawDictMap items = true := by simpa [rawDict] using hd
    have hni' : ¬ (kw.del = some true ∧ items.isEmpty = true) ∧ rawNoIdiomMap items = true := by
      have hA : (!(kw.del == some true && items.isEmpty) && rawNoIdiomMap items) = true := by
        simpa only [rawNoIdiom] using hni
      have h2 : (!(kw.del == some true && items.isEmpty)) = true ∧ rawNoIdiomMap items = true := by
        simpa only [Bool.and_eq_true] using hA
      refine ⟨?_, h2.2⟩
      rintro ⟨a, b⟩
      simp [a, b] at h2
    simp only [constructDeep] at h
    cases hcs : constructDeepMap env items with
    | error e => simp [hcs] at h
    | ok cs =>
      simp only [hcs, wrapMap_ok env kw cs hd'.1.1, Except.ok.injEq] at h
      subst h
      obtain ⟨hl, hk⟩ := constructDeepMap_noIdiom env items cs hd'.2 hni'.2 hcs
      have hemp : cs.isEmpty = items.isEmpty := by
        cases cs <;> cases items <;> simp_all [akeys]
      simp only [noIdiom, noIdiomList_initChildren, hl, Bool.and_true, isEmpty_initChildren, hemp, mapFlags_del]
      split
      · simp
      · cases hdel : (kw.del == some true) with
        | false => simp
        | true =>
          have : kw.del = some true := by simpa using hdel
          cases hie : items.isEmpty with
          | false => simp
          | true => exact absurd ⟨this, hie⟩ hni'.1
theorem constructDeepMap_noIdiom (env : Env) : ∀ (items : List (Key × Raw)) (cs : List (Key × Node)),
    rawDictMap items = true → rawNoIdiomMap items = true → constructDeepMap env items = .ok cs →
    noIdiomList cs = true ∧ akeys cs = akeys items
  | [], cs, _, _, h => by
    simp only [constructDeepMap, Except.ok.injEq] at h
    subst h
    exact ⟨rfl, rfl⟩
  | (k, r) :: rest, cs, hd, hni, h => by
    have hd' : rawDict r = true ∧ rawDictMap rest = true := by simpa [rawDictMap] using hd
    have hni' : rawNoIdiom r = true ∧ rawNoIdiomMap rest = true := by simpa [rawNoIdiomMap] using hni
    simp only [constructDeepMap] at h
    cases h0 : constructDeep env r with
    | error e => simp [h0] at h
    | ok n0 =>
      simp only [h0] at h
      cases h1 : constructDeepMap env rest with
      | error e => simp [h1] at h
      | ok ns =>
        simp only [h1, Except.ok.injEq] at h
        subst h
        obtain ⟨i1, i2⟩ := constructDeepMap_noIdiom env rest ns hd'.2 hni'.2 h1
        exact ⟨by simp [noIdiomList, constructDeep_noIdiom env r n0 hd'.1 hni'.1 h0, i1], by simp [akeys, i2]⟩
end

mutual
theorem constructTD_noIdiom (env : Env) : ∀ (r : Raw) (parent : Option (Flags × CompKind)) (n : Node),
    rawDict r = true → rawNoIdiom r = true → constructTD env parent r = .ok n → noIdiom n = true
  | .scalar t kw v, parent, n, hd, hni, h => by
    have ht : tagOK t = true := by simpa [rawDict] using hd
    rcases (tagOK_iff t).1 ht with e | e <;> subst e
    · simp only [constructTD, Except.ok.injEq] at h
      subst h
      rw [noIdiom_adoptBy]
      rfl
    · simp only [constructTD] at h
      cases hw : wrapScalar env .plain kw v with
      | error e => simp [hw] at h
      | ok m =>
        simp only [hw, Except.ok.injEq] at h
        subst h
        rw [noIdiom_adoptBy]
        exact wrapScalar_noIdiom env kw v ht hni hw
  | .seq t kw items, parent, n, hd, _, _ => by simp [rawDict] at hd
  | .map t kw items, parent, n, hd, hni, h => by
    have hd' : (tagOK t = true ∧ keysNodup items = true) ∧ rawDictMap items = true := by simpa [rawDict] using hd
    have hni' : ¬ (kw.del = some true ∧ items.isEmpty = true) ∧ rawNoIdiomMap items = true := by
      have hA : (!(kw.del == some true && items.isEmpty) && rawNoIdiomMap items) = true := by
        simpa only [rawNoIdiom] using hni
      have h2 : (!(kw.del == some true && items.isEmpty)) = true ∧ rawNoIdiomMap items = true := by
        simpa only [Bool.and_eq_true] using hA
      refine ⟨?_, h2.2⟩
      rintro ⟨a, b⟩
      simp [a, b] at h2
    rcases (tagOK_iff t).1 hd'.1.1 with e | e <;> subst e
    · obtain ⟨f', hf'⟩ := adoptBy_empty parent (bareFlags env) .dict
      have hdel : f'.del = none := by
        have e1 : core (adoptBy parent (.comp (bareFlags env) .dict [])) = core (.comp (bareFlags env) .dict []) := by
          cases parent with
          | none => rfl
          | some p => obtain ⟨pf, pk⟩ := p; exact core_adopt pf pk _
        rw [hf'] at e1
        simp only [core] at e1
        injection e1 with e1 _ _
        exact (coreF_eq_iff.1 e1).2
      simp only [constructTD, hf'] at h
      cases hres : constructTDMap env f' .dict items [] with
      | error e => simp [hres] at h
      | ok res =>
        simp only [hres, Except.ok.injEq] at h
        subst h
        have := constructTDMap_noIdiom env items f' .dict [] res hd'.2 hni'.2 rfl hres
        simp [noIdiom, hdel, this]
    · simp only [constructTD] at h
      cases hdp : constructDeep env (.map .plain kw items) with
      | error e => simp [hdp] at h
      | ok m =>
        simp only [hdp, Except.ok.injEq] at h
        subst h
        rw [noIdiom_adoptBy]
        exact constructDeep_noIdiom env (.map .plain kw items) m hd hni hdp
theorem constructTDMap_noIdiom (env : Env) : ∀ (items : List (Key × Raw)) (pf : Flags) (pk : CompKind)
    (acc res : List (Key × Node)), rawDictMap items = true → rawNoIdiomMap items = true →
    noIdiomList acc = true → constructTDMap env pf pk items acc = .ok res → noIdiomList res = true
  | [], _, _, acc, res, _, _, ha, h => by
    simp only [constructTDMap, Except.ok.injEq] at h
    subst h
    exact ha
  | (k, r) :: rest, pf, pk, acc, res, hd, hni, ha, h => by
    have hd' : rawDict r = true ∧ rawDictMap rest = true := by simpa [rawDictMap] using hd
    have hni' : rawNoIdiom r = true ∧ rawNoIdiomMap rest = true := by simpa [rawNoIdiomMap] using hni
    simp only [constructTDMap] at h
    cases h0 : constructTD env (some (pf, pk)) r with
    | error e => simp [h0] at h
    | ok n0 =>
      simp only [h0] at h
      have hn0 := constructTD_noIdiom env r (some (pf, pk)) n0 hd'.1 hni'.1 h0
      exact constructTDMap_noIdiom env rest pf pk (aset k n0 acc) res hd'.2 hni'.2 (noIdiomList_aset hn0 ha) h
end

/-! ### one document of the domain -/

theorem isDict_of_native {n : Node} {items : List (Key × Plain)} (h : native n = .dict items) : n.isDict = true := by
  cases n with
  | leaf f k => cases k <;> simp [native] at h
  | comp f kd cs =>
    simp only [native] at h
    split at h
    · rename_i hk; exact hk
    · cases h

theorem rawDom_parts {r : Raw} (h : rawDom r = true) :
    rawDict r = true ∧ AY.Raw.nn r = true ∧ ∃ t kw items, r = .map t kw items := by
  simp only [rawDom, Bool.and_eq_true] at h
  refine ⟨h.1.1, h.1.2, ?_⟩
  cases r with
  | map t kw items => exact ⟨t, kw, items, rfl⟩
  | scalar t kw v => simp at h
  | seq t kw items => simp at h

/-- the loader on a document of the domain -/
theorem construct_dom (env : Env) {r : Raw} (h : rawDom r = true) :
    ∃ n, construct env r = .ok n ∧ StageN n ∧ (rawNoIdiom r = true → noIdiom n = true) := by
  obtain ⟨hd, hnn, t, kw, items, rfl⟩ := rawDom_parts h
  have hrefl := RawPermD.refl _ _ (Nat.le_refl _) hd
  obtain ⟨n, n', hn, hn', hpp, hdt⟩ := construct_perm env hrefl
  obtain ⟨m, hm, hnat, _⟩ := constructTD_tag env (.map t kw items) none (rawTagged_of_rawDict _ hd)
  have e : m = n := by
    have : construct env (.map t kw items) = .ok m := hm
    rw [hn] at this
    injection this with this
    exact this.symm
  subst e
  refine ⟨m, hn, ⟨⟨hdt, hpp.dictTree_left, ?_⟩, construct_nn env _ m hnn hn⟩, ?_⟩
  · simp only [plainOfRaw] at hnat
    exact isDict_of_native hnat
  · intro hni
    exact constructTD_noIdiom env _ none m hd hni hn

/-! ### sequences of documents -/

theorem constructDocs_snoc (docs : List (Env × Raw)) (d : Env × Raw) (ns : List Node) (n : Node)
    (h1 : constructDocs docs = .ok ns) (h2 : construct d.1 d.2 = .ok n) :
    constructDocs (docs ++ [d]) = .ok (ns ++ [n]) := by
  induction docs generalizing ns with
  | nil =>
    simp only [constructDocs, Except.ok.injEq] at h1
    subst h1
    obtain ⟨e, r⟩ := d
    simp only [List.nil_append, constructDocs, h2]
  | cons x rest ih =>
    obtain ⟨e, r⟩ := x
    simp only [constructDocs] at h1
    cases h0 : construct e r with
    | error err => simp [h0] at h1
    | ok n0 =>
      simp only [h0] at h1
      cases hr : constructDocs rest with
      | error err => simp [hr] at h1
      | ok ns0 =>
        simp only [hr, Except.ok.injEq] at h1
        subst h1
        simp only [List.cons_append, constructDocs, h0, ih ns0 hr]

theorem constructDocs_dom : ∀ (docs : List (Env × Raw)), (∀ x, x ∈ docs → rawDom x.2 = true) →
    ∃ ns, constructDocs docs = .ok ns ∧ ∀ st, st ∈ ns → StageN st
  | [], _ => ⟨[], rfl, fun _ h => by cases h⟩
  | (e, r) :: rest, h => by
    obtain ⟨n, hn, hs, _⟩ := construct_dom e (h (e, r) (by simp))
    obtain ⟨ns, hns, hst⟩ := constructDocs_dom rest (fun x hx => h x (List.mem_cons_of_mem _ hx))
    refine ⟨n :: ns, by simp only [constructDocs, hn, hns], ?_⟩
    intro st hm
    rcases List.mem_cons.1 hm with e1 | hm
    · subst e1; exact hs
    · exact hst st hm

/-- documents of the domain, the last one without the remove-this-key idiom: the sequence and the
    sequence with the last document repeated are parsed, into stages of the domain -/
theorem constructDocs_repeat (docs : List (Env × Raw)) (d : Env × Raw)
    (hdocs : ∀ x, x ∈ docs ++ [d] → rawDom x.2 = true) (hni : rawNoIdiom d.2 = true) :
    ∃ ns n, constructDocs docs = .ok ns ∧ construct d.1 d.2 = .ok n ∧
      constructDocs (docs ++ [d]) = .ok (ns ++ [n]) ∧ constructDocs (docs ++ [d, d]) = .ok (ns ++ [n, n]) ∧
      (∀ st, st ∈ ns ++ [n] → StageN st) ∧ noIdiom n = true := by
  obtain ⟨ns, hns, hst⟩ := constructDocs_dom docs (fun x hx => hdocs x (List.mem_append_left _ hx))
  obtain ⟨n, hn, hsn, hnn⟩ := construct_dom d.1 (hdocs d (by simp))
  have h1 := constructDocs_snoc docs d ns n hns hn
  have h2 := constructDocs_snoc (docs ++ [d]) d (ns ++ [n]) n h1 hn
  simp only [List.append_assoc, List.cons_append, List.nil_append] at h2
  refine ⟨ns, n, hns, hn, h1, h2, ?_, hnn hni⟩
  intro st hm
  rcases List.mem_append.1 hm with h | h
  · exact hst st h
  · simp at h; subst h; exact hsn

/-- two sequences of documents, position by position the same source context and the same mapping
    document up to the order of items -/
def DocsPerm : List (Env × Raw) → List (Env × Raw) → Prop
  | [], [] => True
  | (e, r) :: ds, (e', r') :: ds' =>
    e.dSafe = e'.dSafe ∧ e.src = e'.src ∧ RawPermD r r' ∧ (∃ t kw items, r = .map t kw items) ∧ DocsPerm ds ds'
  | _, _ => False

theorem constructDocs_perm : ∀ {docs docs' : List (Env × Raw)}, DocsPerm docs docs' →
    ∃ ns ns', constructDocs docs = .ok ns ∧ constructDocs docs' = .ok ns' ∧ ListRel PermD ns ns' ∧
      ∀ st, st ∈ ns → dataT st = true ∧ st.isDict = true
  | [], [], _ => ⟨[], [], rfl, rfl, .nil, fun _ h => by cases h⟩
  | (e, r) :: ds, (e', r') :: ds', h => by
    obtain ⟨he1, he2, hr, ⟨t, kw, items, rfl⟩, hrest⟩ := h
    have hee : e = e' := by
      cases e; cases e'
      simp only at he1 he2
      subst he1; subst he2
      rfl
    subst hee
    obtain ⟨n, n', hn, hn', hpp, hdt⟩ := construct_perm e hr
    obtain ⟨ns, ns', hns, hns', hl, hd⟩ := constructDocs_perm hrest
    obtain ⟨m, hm, hnat, _⟩ := constructTD_tag e (.map t kw items) none (rawTagged_of_rawDict _ hr.rawDict_left)
    have e1 : m = n := by
      have : construct e (.map t kw items) = .ok m := hm
      rw [hn] at this
      injection this with this
      exact this.symm
    subst e1
    refine ⟨m :: ns, n' :: ns', by simp only [constructDocs, hn, hns], by simp only [constructDocs, hn', hns'],
      .cons hpp hl, ?_⟩
    intro st hm'
    rcases List.mem_cons.1 hm' with e2 | hm'
    · subst e2
      simp only [plainOfRaw] at hnat
      exact ⟨hdt, isDict_of_native hnat⟩
    · exact hd st hm'
  | [], _ :: _, h => h.elim
  | _ :: _, [], h => h.elim

/-! ### executable checks (for the non-vacuity examples) -/

mutual
def rawPermB : Raw → Raw → Bool
  | .scalar t kw v, r' =>
    match r' with
    | .scalar t' kw' v' => tagOK t && decide (t = t') && decide (kw = kw') && decide (v = v')
    | _ => false
  | .seq .., _ => false
  | .map t kw items, r' =>
    match r' with
    | .map t' kw' items' =>
      tagOK t && decide (t = t') && decide (kw = kw') && keysNodup items && keysNodup items' &&
        (akeys items').all (fun k => ahas k items) && rawPermBList items items'
    | _ => false
def rawPermBList : List (Key × Raw) → List (Key × Raw) → Bool
  | [], _ => true
  | (k, r) :: rest, items' =>
    (match alookup k items' with
      | some r' => rawPermB r r'
      | none => false) && rawPermBList rest items'
end

mutual
theorem rawPermB_sound : ∀ (r r' : Raw), rawPermB r r' = true → RawPermD r r'
  | .scalar t kw v, r', h => by
    cases r' with
    | scalar t' kw' v' =>
      simp only [rawPermB, Bool.and_eq_true, decide_eq_true_eq] at h
      obtain ⟨⟨⟨ht, rfl⟩, rfl⟩, rfl⟩ := h
      exact .scalar t kw v ht
    | seq t' kw' items' => simp [rawPermB] at h
    | map t' kw' items' => simp [rawPermB] at h
  | .seq t kw items, r', h => by simp [rawPermB] at h
  | .map t kw items, r', h => by
    cases r' with
    | scalar t' kw' v' => simp [rawPermB] at h
    | seq t' kw' items' => simp [rawPermB] at h
    | map t' kw' items' =>
      simp only [rawPermB, Bool.and_eq_true, decide_eq_true_eq] at h
      obtain ⟨⟨⟨⟨⟨⟨ht, rfl⟩, rfl⟩, h1⟩, h2⟩, h3⟩, h4⟩ := h
      refine .map t kw ht h1 h2 ?_
      intro k
      have hl := rawPermBList_sound items items' h4
      cases hc : alookup k items with
      | some c =>
        obtain ⟨c', hc', hr⟩ := hl k c (mem_of_alookup hc)
        rw [hc']
        exact .some hr
      | none =>
        cases hc' : alookup k items' with
        | none => exact .none
        | some c' =>
          have hm : k ∈ akeys items' := mem_akeys_of_mem (mem_of_alookup hc')
          have := List.all_eq_true.1 h3 k hm
          simp [ahas, hc] at this
theorem rawPermBList_sound : ∀ (items items' : List (Key × Raw)), rawPermBList items items' = true →
    ∀ k r, (k, r) ∈ items → ∃ r', alookup k items' = some r' ∧ RawPermD r r'
  | [], _, _, k, r, hm => by cases hm
  | (k0, r0) :: rest, items', h, k, r, hm => by
    simp only [rawPermBList, Bool.and_eq_true] at h
    rcases List.mem_cons.1 hm with heq | hm
    · injection heq with e1 e2
      subst e1; subst e2
      cases hc' : alookup k items' with
      | none => simp [hc'] at h
      | some r' =>
        simp only [hc'] at h
        exact ⟨r', rfl, rawPermB_sound r r' h.1⟩
    · exact rawPermBList_sound rest items' h.2 k r hm
end

def docsPermB : List (Env × Raw) → List (Env × Raw) → Bool
  | [], [] => true
  | (e, r) :: ds, (e', r') :: ds' =>
    (e.dSafe == e'.dSafe) && (e.src == e'.src) && rawPermB r r' &&
      (match r with | .map .. => true | _ => false) && docsPermB ds ds'
  | _, _ => false

theorem docsPermB_sound : ∀ (docs docs' : List (Env × Raw)), docsPermB docs docs' = true → DocsPerm docs docs'
  | [], [], _ => trivial
  | (e, r) :: ds, (e', r') :: ds', h => by
    simp only [docsPermB, Bool.and_eq_true, beq_iff_eq] at h
    obtain ⟨⟨⟨⟨h1, h2⟩, h3⟩, h4⟩, h5⟩ := h
    refine ⟨h1, h2, rawPermB_sound r r' h3, ?_, docsPermB_sound ds ds' h5⟩
    cases r with
    | map t kw items => exact ⟨t, kw, items, rfl⟩
    | scalar t kw v => simp at h4
    | seq t kw items => simp at h4
  | [], _ :: _, h => by simp [docsPermB] at h
  | _ :: _, [], h => by simp [docsPermB] at h

end AY.C15T
