/-
  AY.Lemmas.C15WholeFlatten — erasing the `safe` / `allow_new` flags commutes with the pre-merge
  operators and with the builder's fold (`flatten`) on consistent `!notnew`-free stages:
      flatten (stages.map eraseSN) = (flatten stages).map eraseSN.
-/
import AY.Lemmas.C15WholeMerge
set_option linter.unusedVariables false
namespace AY.C15W

/-! ### `NN` is kept by the pre-merge pass and the fold -/

theorem getNode_nn : ∀ (p : Path) (root n : Node), NN root = true → getNode root p = some n → NN n = true
  | [], root, n, h, hg => by simp only [getNode, Option.some.injEq] at hg; subst hg; exact h
  | key :: rest, .leaf f k, n, _, hg => by simp [getNode] at hg
  | key :: rest, .comp f k cs, n, h, hg => by
    rw [NN_comp] at h
    simp only [getNode] at hg
    split at hg
    · cases hg
    · rename_i c hl
      exact getNode_nn rest c n (alookup_nn h.2 hl) hg

theorem setNodeAt_nn : ∀ (p : Path) (root v : Node), NN root = true → NN v = true → NN (setNodeAt root p v) = true
  | [], root, v, _, hv => by simpa [setNodeAt] using hv
  | key :: rest, .leaf f k, v, h, _ => by simpa [setNodeAt] using h
  | key :: rest, .comp f k cs, v, h, hv => by
    have h' := (NN_comp f k cs).1 h
    simp only [setNodeAt]
    split
    · exact h
    · rename_i c hl
      rw [NN_comp]
      exact ⟨h'.1, aset_nn (setNodeAt_nn rest c v (alookup_nn h'.2 hl) hv) h'.2⟩

theorem removeNode_nn : ∀ (p : Path) (root d root' : Node), NN root = true →
    removeNode root p = some (d, root') → NN d = true ∧ NN root' = true
  | [], root, d, root', _, hr => by simp [removeNode] at hr
  | _ :: _, .leaf f k, d, root', _, hr => by simp [removeNode] at hr
  | [key], .comp f k cs, d, root', h, hr => by
    rw [NN_comp] at h
    simp only [removeNode] at hr
    split at hr
    · cases hr
    · rename_i c hl
      split at hr
      · cases hr
      · rename_i cs' hrm
        simp only [Option.some.injEq, Prod.mk.injEq] at hr
        obtain ⟨rfl, rfl⟩ := hr
        exact ⟨alookup_nn h.2 hl, (NN_comp _ _ _).2 ⟨h.1, removeChild_nn h.1 h.2 hrm⟩⟩
  | key :: k2 :: rest, .comp f k cs, d, root', h, hr => by
    rw [NN_comp] at h
    simp only [removeNode] at hr
    split at hr
    · cases hr
    · rename_i c hl
      split at hr
      · cases hr
      · rename_i d' c' hrec
        simp only [Option.some.injEq, Prod.mk.injEq] at hr
        obtain ⟨rfl, rfl⟩ := hr
        have ih := removeNode_nn (k2 :: rest) c d' c' (alookup_nn h.2 hl) hrec
        exact ⟨ih.1, (NN_comp _ _ _).2 ⟨h.1, aset_nn ih.2 h.2⟩⟩

theorem nnList_map_snd {cs : List (Key × Node)} (h : nnList cs = true) : ∀ v, v ∈ cs.map (·.2) → NN v = true := by
  intro v hv
  obtain ⟨x, hx, rfl⟩ := List.mem_map.1 hv
  exact (nnList_iff cs).1 h x hx

theorem nnF_fresh : nnF freshFlags = true := by decide

theorem newPlainList_nn (f : Flags) {vals : List Node} (h : ∀ v, v ∈ vals → NN v = true) :
    NN (newPlainList f vals) = true := by
  simp only [newPlainList]
  apply propagate_nn
  rw [NN_comp]
  refine ⟨nnF_replaceOtherFlags _ nnF_fresh, ?_⟩
  rw [nnList_iff]
  intro kv hm
  have hm2 := c19_mem_renumFrom hm
  obtain ⟨x, hx, e⟩ := List.mem_map.1 hm2
  rw [← e]
  exact inheritInto_nn none (fun kw e => nnKw_childKw nnF_fresh e) (h x hx)

theorem extendList_nn {f : Flags} (k : CompKind) (hf : nnF f = true) : ∀ (vals : List Node) (cs : List (Key × Node)),
    (∀ v, v ∈ vals → NN v = true) → nnList cs = true → nnList (extendList f k cs vals) = true
  | [], cs, _, h => by simpa [extendList] using h
  | v :: rest, cs, hv, h => by
    simp only [extendList]
    exact extendList_nn k hf rest _ (fun w hw => hv w (List.mem_cons_of_mem _ hw))
      (nnList_snoc (adopt_nn k hf (hv v (by simp))) h)

theorem applyResets_nn {pf : Flags} (pk : CompKind) (hp : nnF pf = true) : ∀ (resets cs cs' : List (Key × Node)),
    nnList resets = true → nnList cs = true → applyResets pf pk resets cs = .ok cs' → nnList cs' = true
  | [], cs, cs', _, hcs, h => by simp only [applyResets] at h; cases h; exact hcs
  | (k, v) :: rest, cs, cs', hr, hcs, h => by
    rw [nnList_cons] at hr
    simp only [applyResets] at h
    split at h
    · cases h
    · rename_i cs1 hs
      exact applyResets_nn pk hp rest cs1 cs' hr.2 (setChild_nn hp hr.1 hcs hs) h

def IntoNN (into : Option Node) : Prop := ∀ root, into = some root → NN root = true

theorem intoNN_none : IntoNN none := fun _ e => by cases e
theorem intoNN_some {root : Node} (h : NN root = true) : IntoNN (some root) := fun _ e => by cases e; exact h

def PMNN (pm : Node → Path → Option Node → PM) : Prop :=
  ∀ n path into r same into', NN n = true → IntoNN into → pm n path into = .ok (r, same, into') →
    NN r = true ∧ IntoNN into'

theorem premergeChildren_nn {rec : Node → Path → Option Node → PM} (hrec : PMNN rec) (path : Path) :
    ∀ (cs : List (Key × Node)) (into : Option Node) (cs' resets : List (Key × Node)) (into' : Option Node),
    nnList cs = true → IntoNN into → premergeChildren rec path cs into = .ok (cs', resets, into') →
    nnList cs' = true ∧ nnList resets = true ∧ IntoNN into'
  | [], into, cs', resets, into', _, hi, h => by
    simp only [premergeChildren, Except.ok.injEq, Prod.mk.injEq] at h
    obtain ⟨rfl, rfl, rfl⟩ := h
    exact ⟨rfl, rfl, hi⟩
  | (name, c) :: rest, into, cs', resets, into', hcs, hi, h => by
    rw [nnList_cons] at hcs
    simp only [premergeChildren] at h
    split at h
    · cases h
    · rename_i c' same into1 hr
      have h1 := hrec _ _ _ _ _ _ hcs.1 hi hr
      split at h
      · cases h
      · rename_i cs1 resets1 into2 hrest
        have ih := premergeChildren_nn hrec path rest into1 cs1 resets1 into2 hcs.2 h1.2 hrest
        split at h
        · simp only [Except.ok.injEq, Prod.mk.injEq] at h
          obtain ⟨rfl, rfl, rfl⟩ := h
          exact ⟨(nnList_cons _ _ _).2 ⟨h1.1, ih.1⟩, ih.2.1, ih.2.2⟩
        · simp only [Except.ok.injEq, Prod.mk.injEq] at h
          obtain ⟨rfl, rfl, rfl⟩ := h
          exact ⟨(nnList_cons _ _ _).2 ⟨hcs.1, ih.1⟩, (nnList_cons _ _ _).2 ⟨h1.1, ih.2.1⟩, ih.2.2⟩

theorem flattenLoop_nn {pm : Node → Path → Option Node → PM} (hpm : PMNN pm) :
    ∀ (stages : List Node) (root r : Node), NN root = true →
    (∀ s, s ∈ stages → NN s = true) → flattenLoop pm root stages = .ok r → NN r = true
  | [], root, r, hroot, _, h => by simp only [flattenLoop] at h; cases h; exact hroot
  | st :: rest, root, r, hroot, hs, h => by
    simp only [flattenLoop] at h
    split at h
    · cases h
    · rename_i st' same into' hp
      have h1 := hpm _ _ _ _ _ _ (hs st (by simp)) (intoNN_some hroot) hp
      split at h
      · cases h
      · rename_i root'
        split at h
        · cases h
        · rename_i m hm
          exact flattenLoop_nn hpm rest m r (merge_nn (h1.2 root' rfl) h1.1 hm)
            (fun s hs' => hs s (List.mem_cons_of_mem _ hs')) h

theorem flattenWith_nn {pm : Node → Path → Option Node → PM} (hpm : PMNN pm) (stages : List Node) (r : Node)
    (hs : ∀ s, s ∈ stages → NN s = true) (h : flattenWith pm stages = .ok r) : NN r = true := by
  cases stages with
  | nil => simp [flattenWith] at h
  | cons s0 rest =>
    simp only [flattenWith] at h
    split at h
    · cases h
    · split at h
      · cases h
      · rename_i r0 same into' hp
        have h1 := hpm _ _ _ _ _ _ (hs s0 (by simp)) intoNN_none hp
        split at h
        · cases h
        · exact flattenLoop_nn hpm rest r0 r h1.1 (fun s hs' => hs s (List.mem_cons_of_mem _ hs')) h

theorem premergeF_nn : ∀ (fuel : Nat), PMNN (premergeF fuel)
  | 0 => fun n path into r same into' _ _ h => by simp [premergeF] at h
  | fuel + 1 => fun n path into r same into' hn hi h => by
    have ih := premergeF_nn fuel
    cases n with
    | leaf f lk =>
      cases lk with
      | prev p =>
        simp only [premergeF] at h
        split at h
        · rename_i root tp _
          split at h
          · cases h
          · rename_i d root' hr
            simp only [Except.ok.injEq, Prod.mk.injEq] at h
            obtain ⟨rfl, rfl, rfl⟩ := h
            have := removeNode_nn tp root d root' (hi root rfl) hr
            exact ⟨this.1, intoNN_some this.2⟩
        · cases h
      | clear =>
        simp only [premergeF] at h
        split at h
        · cases h
        · rename_i root
          split at h
          · rename_i cf ck ccs hg
            simp only [Except.ok.injEq, Prod.mk.injEq] at h
            obtain ⟨rfl, rfl, rfl⟩ := h
            have hg' := getNode_nn path root _ (hi root rfl) hg
            have hv : NN (.comp cf ck []) = true := (NN_comp _ _ _).2 ⟨((NN_comp _ _ _).1 hg').1, rfl⟩
            exact ⟨hv, intoNN_some (setNodeAt_nn path root _ (hi root rfl) hv)⟩
          · cases h
      | _ =>
        simp only [premergeF, Except.ok.injEq, Prod.mk.injEq] at h
        obtain ⟨rfl, rfl, rfl⟩ := h
        exact ⟨hn, hi⟩
    | comp f k cs =>
      have hn' := (NN_comp f k cs).1 hn
      have hvals : ∀ v, v ∈ cs.map (·.2) → NN v = true := nnList_map_snd hn'.2
      cases k with
      | append =>
        simp only [premergeF] at h
        split at h
        · simp only [Except.ok.injEq, Prod.mk.injEq] at h
          obtain ⟨rfl, rfl, rfl⟩ := h
          exact ⟨newPlainList_nn _ hvals, intoNN_none⟩
        · rename_i root
          split at h
          · cases h
          · rename_i tf tk tcs root' hr
            have hrm := removeNode_nn path root _ root' (hi root rfl) hr
            split at h
            · simp only [Except.ok.injEq, Prod.mk.injEq] at h
              obtain ⟨rfl, rfl, rfl⟩ := h
              have ht := (NN_comp _ _ _).1 hrm.1
              exact ⟨(NN_comp _ _ _).2 ⟨ht.1, extendList_nn tk ht.1 _ tcs hvals ht.2⟩, intoNN_some hrm.2⟩
            · cases h
          · cases h
      | extend =>
        simp only [premergeF] at h
        split at h
        · simp only [Except.ok.injEq, Prod.mk.injEq] at h
          obtain ⟨rfl, rfl, rfl⟩ := h
          exact ⟨newPlainList_nn _ hvals, intoNN_none⟩
        · rename_i root
          split at h
          · rename_i tf tk tcs hg
            have ht := (NN_comp _ _ _).1 (getNode_nn path root _ (hi root rfl) hg)
            split at h
            · split at h
              · cases h
              · rename_i d root' hr
                have hrm := removeNode_nn path root d root' (hi root rfl) hr
                simp only [Except.ok.injEq, Prod.mk.injEq] at h
                obtain ⟨rfl, rfl, rfl⟩ := h
                exact ⟨(NN_comp _ _ _).2 ⟨ht.1, extendList_nn tk ht.1 _ tcs hvals ht.2⟩, intoNN_some hrm.2⟩
            · simp only [Except.ok.injEq, Prod.mk.injEq] at h
              obtain ⟨rfl, rfl, rfl⟩ := h
              exact ⟨newPlainList_nn _ hvals, hi⟩
          · simp only [Except.ok.injEq, Prod.mk.injEq] at h
            obtain ⟨rfl, rfl, rfl⟩ := h
            exact ⟨newPlainList_nn _ hvals, hi⟩
      | stream =>
        simp only [premergeF] at h
        split at h
        · cases h
        · cases h
        · rename_i r0 hf
          have hr0 := flattenWith_nn ih _ r0 hvals hf
          split at h
          · cases h
          · rename_i r' same' into1 hp
            simp only [Except.ok.injEq, Prod.mk.injEq] at h
            obtain ⟨rfl, rfl, rfl⟩ := h
            exact ih _ _ _ _ _ _ hr0 hi hp
      | _ =>
        simp only [premergeF] at h
        split at h
        · cases h
        · rename_i cs' resets into1 hc
          split at h
          · cases h
          · rename_i cs'' ha
            simp only [Except.ok.injEq, Prod.mk.injEq] at h
            obtain ⟨rfl, rfl, rfl⟩ := h
            have h1 := premergeChildren_nn ih path cs into cs' resets into1 hn'.2 hi hc
            exact ⟨(NN_comp _ _ _).2 ⟨hn'.1, applyResets_nn _ hn'.1 resets cs' cs'' h1.2.1 h1.1 ha⟩, h1.2.2⟩

theorem flatten_nn (stages : List Node) (r : Node) (hs : ∀ s, s ∈ stages → NN s = true)
    (h : flatten stages = .ok r) : NN r = true :=
  flattenWith_nn (premergeF_nn _) stages r hs h

end AY.C15W

namespace AY
open AY.C15W

/-! ### lookups and in-place updates commute with erasing -/

theorem getNode_eraseSN : ∀ (p : Path) (root : Node), getNode (eraseSN root) p = (getNode root p).map eraseSN
  | [], root => by cases root <;> rfl
  | key :: rest, .leaf f k => rfl
  | key :: rest, .comp f k cs => by
    simp only [eraseSN, getNode, alookup_eraseSNList]
    cases alookup key cs with
    | none => rfl
    | some c => exact getNode_eraseSN rest c

theorem setNodeAt_eraseSN : ∀ (p : Path) (root v : Node),
    setNodeAt (eraseSN root) p (eraseSN v) = eraseSN (setNodeAt root p v)
  | [], root, v => by cases root <;> rfl
  | key :: rest, .leaf f k, v => rfl
  | key :: rest, .comp f k cs, v => by
    simp only [eraseSN, setNodeAt, alookup_eraseSNList]
    cases alookup key cs with
    | none => rfl
    | some c => simp only [Option.map_some, eraseSN, eraseSNList_aset, setNodeAt_eraseSN rest c v]

def erasePair : Node × Node → Node × Node := fun p => (eraseSN p.1, eraseSN p.2)

theorem removeNode_eraseSN : ∀ (p : Path) (root : Node), FlagsConsistent root = true →
    removeNode (eraseSN root) p = (removeNode root p).map erasePair
  | [], root, _ => by cases root <;> rfl
  | _ :: _, .leaf f k, _ => rfl
  | [key], .comp f k cs, h => by
    simp only [FlagsConsistent] at h
    simp only [eraseSN, removeNode, alookup_eraseSNList, removeChild_eraseSN f k key (consistentList_weaken h)]
    cases alookup key cs with
    | none => rfl
    | some c =>
      simp only [Option.map_some]
      cases removeChild f k key cs <;> rfl
  | key :: k2 :: rest, .comp f k cs, h => by
    simp only [FlagsConsistent] at h
    simp only [eraseSN, removeNode, alookup_eraseSNList]
    cases hl : alookup key cs with
    | none => rfl
    | some c =>
      simp only [Option.map_some, removeNode_eraseSN (k2 :: rest) c (alookup_cons_of_consistent h hl).2]
      cases removeNode c (k2 :: rest) with
      | none => rfl
      | some dc => obtain ⟨d, c'⟩ := dc; simp only [Option.map_some, erasePair, eraseSN, eraseSNList_aset]

/-! ### nodes created while flattening -/

theorem eraseF_fresh : eraseF freshFlags = freshFlags := by decide

theorem newPlainList_eraseSN (f : Flags) : ∀ {vals : List Node}, (∀ v, v ∈ vals → FlagsConsistent v = true) →
    newPlainList (eraseF f) (vals.map eraseSN) = eraseSN (newPlainList f vals) := by
  intro vals h
  have hm : ∀ (vals : List Node), (∀ v, v ∈ vals → FlagsConsistent v = true) →
      (vals.map eraseSN).map (inheritInto none (childKw freshFlags .list)) =
        (vals.map (inheritInto none (childKw freshFlags .list))).map eraseSN := by
    intro vals
    induction vals with
    | nil => intro _; rfl
    | cons v rest ih =>
      intro h
      have e := inheritInto_eraseSN none (childKw freshFlags .list) (h v (by simp))
      rw [← childKw_eraseF', eraseF_fresh] at e
      simp only [List.map_cons, e, ih (fun w hw => h w (List.mem_cons_of_mem _ hw))]
  have hbelow : ConsistentBelow (.comp (replaceOtherFlags freshFlags f) .list
      (renum (vals.map (inheritInto none (childKw freshFlags .list))))) = true := by
    simp only [ConsistentBelow, allConsistent]
    rw [consistentList_iff]
    intro kv hmem
    have hm2 := c19_mem_renumFrom hmem
    obtain ⟨x, hx, e⟩ := List.mem_map.1 hm2
    rw [← e]
    exact ⟨fun kw' e' => (by cases e'), (inheritInto_cons none (childKw freshFlags .list) (h x hx)).1⟩
  simp only [newPlainList]
  rw [propagate_eraseSN hbelow]
  simp only [eraseSN, renum, eraseSNList_renumFrom, eraseF_replaceOtherFlags, eraseF_fresh, hm vals h]

theorem extendList_eraseSN (f : Flags) (k : CompKind) : ∀ (vals : List Node) (cs : List (Key × Node)),
    (∀ v, v ∈ vals → FlagsConsistent v = true) →
    extendList (eraseF f) k (eraseSNList cs) (vals.map eraseSN) = eraseSNList (extendList f k cs vals)
  | [], cs, _ => rfl
  | v :: rest, cs, hv => by
    have := extendList_eraseSN f k rest (cs ++ [(Key.int cs.length, adopt f k v)])
      (fun w hw => hv w (List.mem_cons_of_mem _ hw))
    simp only [eraseSNList_append, eraseSNList, adopt_eraseSN f k (hv v (by simp))] at this
    simp only [List.map_cons, extendList, eraseSNList_length, this]

theorem applyResets_eraseSN (pf : Flags) (pk : CompKind) : ∀ (resets cs : List (Key × Node)),
    allConsistent resets = true →
    applyResets (eraseF pf) pk (eraseSNList resets) (eraseSNList cs) = (applyResets pf pk resets cs).map eraseSNList
  | [], cs, _ => rfl
  | (k, v) :: rest, cs, hr => by
    rw [allConsistent_cons] at hr
    simp only [eraseSNList, applyResets, setChild_eraseSN pf pk k cs hr.1]
    cases setChild pf pk k v cs with
    | error e => rfl
    | ok cs1 => simp only [Except.map]; exact applyResets_eraseSN pf pk rest cs1 hr.2

/-! ### the pre-merge pass and the fold -/

/-- the erased outcome of a premerge -/
def erasePM : PM → PM
  | .ok (r, s, into) => .ok (eraseSN r, s, into.map eraseSN)
  | .error e => .error e

def PMErase (pm : Node → Path → Option Node → PM) : Prop :=
  ∀ n path into, FlagsConsistent n = true → NN n = true → IntoCons into → IntoNN into →
    pm (eraseSN n) path (into.map eraseSN) = erasePM (pm n path into)

def eraseTriple : Except Err (List (Key × Node) × List (Key × Node) × Option Node) →
    Except Err (List (Key × Node) × List (Key × Node) × Option Node)
  | .ok (cs, resets, into) => .ok (eraseSNList cs, eraseSNList resets, into.map eraseSN)
  | .error e => .error e

theorem premergeChildren_eraseSN {rec : Node → Path → Option Node → PM} (hE : PMErase rec) (hC : PMCons rec)
    (hN : PMNN rec) (path : Path) : ∀ (cs : List (Key × Node)) (into : Option Node),
    allConsistent cs = true → nnList cs = true → IntoCons into → IntoNN into →
    premergeChildren rec path (eraseSNList cs) (into.map eraseSN) = eraseTriple (premergeChildren rec path cs into)
  | [], into, _, _, _, _ => rfl
  | (name, c) :: rest, into, hcs, hncs, hi, hni => by
    rw [allConsistent_cons] at hcs
    rw [nnList_cons] at hncs
    simp only [eraseSNList, premergeChildren, hE c (path ++ [name]) into hcs.1 hncs.1 hi hni]
    cases hr : rec c (path ++ [name]) into with
    | error e => rfl
    | ok res =>
      obtain ⟨c', same, into1⟩ := res
      have h1 := hC _ _ _ _ _ _ hcs.1 hi hr
      have h2 := hN _ _ _ _ _ _ hncs.1 hni hr
      simp only [erasePM, premergeChildren_eraseSN hE hC hN path rest into1 hcs.2 hncs.2 h1.2.2 h2.2]
      cases premergeChildren rec path rest into1 with
      | error e => rfl
      | ok res2 =>
        obtain ⟨cs', resets, into2⟩ := res2
        simp only [eraseTriple]
        split <;> rfl

theorem isDict_eraseSN (n : Node) : (eraseSN n).isDict = n.isDict := by cases n <;> rfl

theorem flattenLoop_eraseSN {pm : Node → Path → Option Node → PM} (hE : PMErase pm) (hC : PMCons pm) (hN : PMNN pm) :
    ∀ (stages : List Node) (root : Node), FlagsConsistent root = true → NN root = true →
    (∀ s, s ∈ stages → FlagsConsistent s = true ∧ NN s = true) →
    flattenLoop pm (eraseSN root) (stages.map eraseSN) = (flattenLoop pm root stages).map eraseSN
  | [], root, _, _, _ => rfl
  | st :: rest, root, hroot, hnroot, hs => by
    have hst := hs st (by simp)
    have := hE st [] (some root) hst.1 hst.2 (intoCons_some hroot) (intoNN_some hnroot)
    simp only [Option.map_some] at this
    simp only [List.map_cons, flattenLoop, this]
    cases hp : pm st [] (some root) with
    | error e => rfl
    | ok res =>
      obtain ⟨st', same, into'⟩ := res
      have h1 := hC _ _ _ _ _ _ hst.1 (intoCons_some hroot) hp
      have h2 := hN _ _ _ _ _ _ hst.2 (intoNN_some hnroot) hp
      simp only [erasePM]
      cases into' with
      | none => rfl
      | some root' =>
        simp only [Option.map_some, merge_eraseSN (h1.2.2 root' rfl) h1.1 (h2.2 root' rfl) h2.1]
        cases hm : merge root' st' with
        | error e => rfl
        | ok m =>
          simp only [Except.map]
          exact flattenLoop_eraseSN hE hC hN rest m (merge_cons (h1.2.2 root' rfl) h1.1 hm)
            (merge_nn (h2.2 root' rfl) h2.1 hm) (fun s hs' => hs s (List.mem_cons_of_mem _ hs'))

theorem all_isDict_eraseSN (stages : List Node) : (stages.map eraseSN).all Node.isDict = stages.all Node.isDict := by
  induction stages with
  | nil => rfl
  | cons s rest ih => simp only [List.map_cons, List.all_cons, isDict_eraseSN, ih]

theorem flattenWith_eraseSN {pm : Node → Path → Option Node → PM} (hE : PMErase pm) (hC : PMCons pm) (hN : PMNN pm)
    (stages : List Node) (hs : ∀ s, s ∈ stages → FlagsConsistent s = true ∧ NN s = true) :
    flattenWith pm (stages.map eraseSN) = (flattenWith pm stages).map eraseSN := by
  cases stages with
  | nil => rfl
  | cons s0 rest =>
    have hs0 := hs s0 (by simp)
    have := hE s0 [] none hs0.1 hs0.2 intoCons_none intoNN_none
    simp only [Option.map_none] at this
    have hall := all_isDict_eraseSN (s0 :: rest)
    simp only [List.map_cons] at hall
    simp only [List.map_cons, flattenWith, hall, this]
    split
    · rfl
    · cases hp : pm s0 [] none with
      | error e => rfl
      | ok res =>
        obtain ⟨r0, same, into'⟩ := res
        have h1 := hC _ _ _ _ _ _ hs0.1 intoCons_none hp
        have h2 := hN _ _ _ _ _ _ hs0.2 intoNN_none hp
        simp only [erasePM, reqNew_eraseSN, reqNew_NN [] [] h2.1]
        exact flattenLoop_eraseSN hE hC hN rest r0 h1.1 h2.1 (fun s hs' => hs s (List.mem_cons_of_mem _ hs'))

theorem map_snd_map_eraseSN (cs : List (Key × Node)) :
    (eraseSNList cs).map (·.2) = (cs.map (·.2)).map eraseSN := map_snd_eraseSNList cs

theorem premergeF_eraseSN : ∀ (fuel : Nat), PMErase (premergeF fuel)
  | 0 => fun n path into _ _ _ _ => rfl
  | fuel + 1 => fun n path into hn hnn hi hni => by
    have ihE := premergeF_eraseSN fuel
    have ihC := premergeF_cons fuel
    have ihN := premergeF_nn fuel
    cases n with
    | leaf f lk =>
      cases lk with
      | prev p =>
        simp only [eraseSN, premergeF]
        cases into with
        | none => rfl
        | some root =>
          cases splitPath p with
          | none => rfl
          | some tp =>
            simp only [Option.map_some, removeNode_eraseSN tp root (hi root rfl)]
            cases removeNode root tp with
            | none => rfl
            | some dr => obtain ⟨d, root'⟩ := dr; rfl
      | clear =>
        simp only [eraseSN, premergeF]
        cases into with
        | none => rfl
        | some root =>
          simp only [Option.map_some, getNode_eraseSN]
          cases hg : getNode root path with
          | none => rfl
          | some t =>
            cases t with
            | leaf tf tk => rfl
            | comp cf ck ccs =>
              have := setNodeAt_eraseSN path root (.comp cf ck [])
              simp only [eraseSN, eraseSNList] at this
              simp only [Option.map_some, eraseSN, this, erasePM, eraseSNList]
      | _ => rfl
    | comp f k cs =>
      have hcs : allConsistent cs = true := by
        simp only [FlagsConsistent] at hn; exact consistentList_weaken hn
      have hnn' := (NN_comp f k cs).1 hnn
      have hvals : ∀ v, v ∈ cs.map (·.2) → FlagsConsistent v = true := allConsistent_map_snd hcs
      have hnvals : ∀ v, v ∈ cs.map (·.2) → NN v = true := nnList_map_snd hnn'.2
      have hnew := newPlainList_eraseSN f hvals
      cases k with
      | append =>
        simp only [eraseSN, premergeF, map_snd_map_eraseSN, hnew]
        cases into with
        | none => rfl
        | some root =>
          simp only [Option.map_some, removeNode_eraseSN path root (hi root rfl)]
          cases removeNode root path with
          | none => rfl
          | some dr =>
            obtain ⟨d, root'⟩ := dr
            cases d with
            | leaf tf tk => rfl
            | comp tf tk tcs =>
              simp only [Option.map_some, erasePair, eraseSN, extendList_eraseSN tf tk _ tcs hvals]
              split <;> rfl
      | extend =>
        simp only [eraseSN, premergeF, map_snd_map_eraseSN, hnew]
        cases into with
        | none => rfl
        | some root =>
          simp only [Option.map_some, getNode_eraseSN, removeNode_eraseSN path root (hi root rfl)]
          cases getNode root path with
          | none => rfl
          | some t =>
            cases t with
            | leaf tf tk => rfl
            | comp tf tk tcs =>
              simp only [Option.map_some, eraseSN, extendList_eraseSN tf tk _ tcs hvals]
              split
              · cases removeNode root path with
                | none => rfl
                | some dr => obtain ⟨d, root'⟩ := dr; rfl
              · rfl
      | stream =>
        have hfw := flattenWith_eraseSN ihE ihC ihN (cs.map (·.2)) (fun s hs => ⟨hvals s hs, hnvals s hs⟩)
        simp only [eraseSN, premergeF, map_snd_map_eraseSN, hfw]
        cases hf : flattenWith (premergeF fuel) (cs.map (·.2)) with
        | error e => cases e <;> rfl
        | ok r0 =>
          have hr0 := flattenWith_cons ihC _ r0 hvals hf
          have hnr0 := flattenWith_nn ihN _ r0 hnvals hf
          simp only [Except.map, ihE r0 path into hr0 hnr0 hi hni]
          cases premergeF fuel r0 path into with
          | error e => rfl
          | ok res => obtain ⟨r', same, into'⟩ := res; rfl
      | _ =>
        simp only [eraseSN, premergeF]
        rw [premergeChildren_eraseSN ihE ihC ihN path cs into hcs hnn'.2 hi hni]
        cases hc : premergeChildren (premergeF fuel) path cs into with
        | error e => rfl
        | ok res =>
          obtain ⟨cs', resets, into1⟩ := res
          have h1 := premergeChildren_cons ihC none path cs into cs' resets into1 hcs hi hc
          simp only [eraseTriple, applyResets_eraseSN f _ resets cs' h1.2.1]
          cases applyResets f _ resets cs' <;> rfl

theorem stagesFuel_eraseSN (stages : List Node) : stagesFuel (stages.map eraseSN) = stagesFuel stages := by
  simp only [stagesFuel, List.map_map]
  congr 2
  apply List.map_congr_left
  intro n _
  simp only [Function.comp, depth_eraseSN]

/-- `Builder.flatten` commutes with erasing `safe` / `allow_new` on consistent `!notnew`-free stages -/
theorem flatten_eraseSN (stages : List Node) (hs : ∀ s, s ∈ stages → FlagsConsistent s = true ∧ NN s = true) :
    flatten (stages.map eraseSN) = (flatten stages).map eraseSN := by
  simp only [flatten, stagesFuel_eraseSN]
  exact flattenWith_eraseSN (premergeF_eraseSN _) (premergeF_cons _) (premergeF_nn _) stages hs

end AY
