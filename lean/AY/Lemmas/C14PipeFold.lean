/-
  AY.Lemmas.C14PipeFold — from one merge to `Builder.flatten`, and from the skeleton back to the path list
  of `Config.check_missing` (helpers of AY.Props.C14_Pipeline):

  * `Built`                    the stages come from the loader (documents without duplicate sibling keys);
  * `built_distinctKeys`       every tree built from such stages has pairwise distinct sibling keys (the
                               hypothesis of `C14_requiredPaths_complete`) — AY/Lemmas/KeyInvariants.lean
                               proves the same but cannot be imported together with AY/Lemmas/Assoc.lean;
  * `fold_untouched`           a subtree no later stage reaches is unchanged by any number of stages;
  * `config_lists`             a placeholder found at a path makes `Config` fail and is listed.
-/
import AY.Lemmas.C14PipeNoNew
import AY.Lemmas.KeyInvConstruct
import AY.Lemmas.KeyInvFlatten
import AY.Props.C14
namespace AY.C14P
open AY.C04P

/-- the stages come from the loader, from documents without duplicate sibling keys (`KI.rawKeyed`, the full
    tag vocabulary) -/
def Built (stages : List Node) : Prop :=
  ∀ s, s ∈ stages → ∃ env raw, KI.rawKeyed raw = true ∧ construct env raw = .ok s

theorem Built.keyed {stages : List Node} (hb : Built stages) : ∀ s, s ∈ stages → KI.Keyed s = true := by
  intro s hm
  obtain ⟨env, raw, hr, e⟩ := hb s hm
  exact KI.construct_keyed env raw s hr e

theorem Built.left {xs ys : List Node} (hb : Built (xs ++ ys)) : Built xs :=
  fun s hm => hb s (List.mem_append_left _ hm)

theorem ki_topOK_ndK {k : CompKind} {ks : List Key} (h : KI.topOK k ks = true) : KI.ndK ks = true := by
  unfold KI.topOK at h
  split at h
  · exact h
  · exact KI.ndK_of_numK h

mutual
theorem keyed_distinctKeys : ∀ (n : Node), KI.Keyed n = true → distinctKeys n = true
  | .leaf f k, _ => rfl
  | .comp f k cs, h => by
    rw [KI.keyed_comp] at h
    simp only [distinctKeys]
    exact keyedL_distinctKeysList cs (ki_topOK_ndK h.1) h.2
theorem keyedL_distinctKeysList : ∀ (cs : List (Key × Node)), KI.ndK (KI.keysOf cs) = true → KI.KeyedL cs = true →
    distinctKeysList cs = true
  | [], _, _ => rfl
  | (k, c) :: rest, hn, hk => by
    rw [KI.keysOf_cons] at hn
    simp only [KI.ndK, Bool.and_eq_true] at hn
    rw [KI.KeyedL_cons] at hk
    simp only [distinctKeysList, Bool.and_eq_true]
    exact ⟨⟨hn.1, keyed_distinctKeys c hk.1⟩, keyedL_distinctKeysList rest hn.2 hk.2⟩
end

theorem built_keyed {stages : List Node} {r : Node} (hb : Built stages) (h : flatten stages = .ok r) :
    KI.Keyed r = true :=
  KI.flatten_keyed stages r hb.keyed h

theorem built_distinctKeys {stages : List Node} {r : Node} (hb : Built stages) (h : flatten stages = .ok r) :
    distinctKeys r = true :=
  keyed_distinctKeys r (built_keyed hb h)

/-- what the earlier stages flatten to (under any pre-merge fuel) is well keyed too -/
theorem built_prefix_keyed {xs : List Node} {s : Node} {F : Nat} (hb : Built xs)
    (h : flattenWith (premergeF F) xs = .ok s) : KI.Keyed s = true :=
  KI.flattenWith_keyed (KI.premergeF_keyed F) xs s hb.keyed h

/-! ### the path list of `check_missing` -/

/-- a placeholder found at a path of a tree with distinct sibling keys is listed, and `Config` fails with
    exactly the list of all placeholders, before anything is evaluated (in every world) -/
theorem config_lists {t : Node} {P : Path} (hd : distinctKeys t = true) (h : RequiredAt t P) :
    P ∈ requiredPaths [] t ∧ ∀ w : World, config w t = .error (.required (requiredPaths [] t)) := by
  have hmem := ((C14_requiredPaths_complete t hd).1 P).2 h
  refine ⟨hmem, fun w => ?_⟩
  have hne : hasRequired t = true := (requiredPaths_ne_nil t []).2 (List.ne_nil_of_mem hmem)
  obtain ⟨ps, hps⟩ := ((C14_iff w t).2.1).2 hne
  rw [hps, (C14_lists_all w t ps hd hps).2.2]

/-- a listed path below `P` is a placeholder at a relative path -/
theorem listed_below {t : Node} {P x : Path} (hd : distinctKeys t = true) (hx : x ∈ requiredPaths [] t)
    (hpre : P <+: x) : ∃ q, x = P ++ q ∧ RequiredAt t (P ++ q) := by
  obtain ⟨q, rfl⟩ := hpre
  exact ⟨q, rfl, ((C14_requiredPaths_complete t hd).1 _).1 hx⟩

/-- no placeholder: `Config` construction does not fail with the class `required` -/
theorem config_not_required {t : Node} (h : hasRequired t = false) (w : World) :
    ∀ ps, config w t ≠ .error (.required ps) := by
  intro ps hps
  have := ((C14_iff w t).2.1).1 ⟨ps, hps⟩
  rw [h] at this
  cases this

/-! ### any number of later stages -/

/-- a later stage that does not reach `Q`: free of pre-merge operators, and `Q` leaves it below a plain
    non-deleting mapping -/
def Passes (F : Nat) (Q : Path) (y : Node) : Prop :=
  C07P.opFree y = true ∧ y.depth < F ∧ divergesLive Q y = true

/-- the subtree at `Q` survives any number of later stages that do not reach `Q` -/
theorem fold_untouched {F : Nat} {Q : Path} : ∀ (ys : List Node) (s r : Node),
    flattenLoop (premergeF F) s ys = .ok r → (∀ y, y ∈ ys → Passes F Q y) → dictAlong Q s = true →
    dictAlong Q r = true ∧ ∀ q', (skel r).at? (Q ++ q') = (skel s).at? (Q ++ q')
  | [], s, r, h, _, hd => by simp only [flattenLoop] at h; cases h; exact ⟨hd, fun _ => rfl⟩
  | y :: rest, s, r, h, hy, hd => by
    obtain ⟨hop, hdp, hdiv⟩ := hy y (by simp)
    rw [C07P.flattenLoop_cons_opFree hop hdp] at h
    split at h
    · cases h
    · rename_i r1 hm1
      obtain ⟨b, hmf⟩ := C07P.merge_ok_mergeF hm1
      obtain ⟨h1, h2⟩ := skel_frame_diverges Q _ s y r1 b hd hdiv hmf
      obtain ⟨h3, h4⟩ := fold_untouched rest r1 r h (fun z hz => hy z (List.mem_cons_of_mem _ hz)) h1
      exact ⟨h3, fun q' => by rw [h4 q', h2 q']⟩

/-- `flatten` of `xs ++ ys` with operator-free later stages that do not reach `Q`: the earlier stages flatten
    (same pre-merge fuel) and the subtree at `Q` of their result is the subtree at `Q` of the final tree -/
theorem flatten_untouched (xs ys : List Node) (r : Node) (Q : Path) (hx : xs ≠ [])
    (h : flatten (xs ++ ys) = .ok r)
    (hy : ∀ y, y ∈ ys → C07P.opFree y = true ∧ divergesLive Q y = true) :
    ∃ s, flattenWith (premergeF (stagesFuel (xs ++ ys))) xs = .ok s ∧
      (dictAlong Q s = true → dictAlong Q r = true ∧ ∀ q', (skel r).at? (Q ++ q') = (skel s).at? (Q ++ q')) := by
  simp only [flatten] at h
  obtain ⟨s, h1, h2⟩ := C07P.flattenWith_append xs ys hx r h
  refine ⟨s, h1, fun hd => fold_untouched ys s r h2 (fun y hm => ?_) hd⟩
  exact ⟨(hy y hm).1, C07P.depth_lt_stagesFuel (List.mem_append_right _ hm), (hy y hm).2⟩

end AY.C14P
