/-
  AY.Lemmas.C04PathClear — the pre-merge pass of a stage that holds ONE `!clear` leaf at a path below
  plain mappings and no other pre-merge operator (`premergeF_clear`), and the last step of the builder's
  fold for such a stage (`clear_last_stage`); helpers for AY.Props.C04_AtPath.
-/
import AY.Lemmas.C04PathMerge
namespace AY.C04P
open AY.C07P (opFree opFreeL premergeChildren_opFree premergeF_opFree)

/-! ### definitions -/

/-- the stage consists of plain mappings along `q`, holds a `!clear` leaf at `q`, and has no pre-merge
    operator anywhere else -/
def clearSpine : Path → Node → Bool
  | [], .leaf _ lk => (match lk with | .clear => true | _ => false)
  | [], .comp .. => false
  | _ :: _, .leaf .. => false
  | k :: q, .comp _ ck cs =>
    match ck with
    | .dict =>
      (match alookup k cs with
       | none => false
       | some c => clearSpine q c) && opFreeL (aerase k cs)
    | _ => false

/-- the stage after its pre-merge pass: the `!clear` leaf is replaced by the emptied container `cn`,
    adopted by the mapping that holds it -/
def clearedStage (cn : Node) : Path → Node → Node
  | [k], .comp f .dict cs => .comp f .dict (aset k (adopt f .dict cn) cs)
  | k :: k1 :: q, .comp f .dict cs =>
    match alookup k cs with
    | none => .comp f .dict cs
    | some c => .comp f .dict (aset k (clearedStage cn (k1 :: q) c) cs)
  | _, n => n

/-! ### the pre-merge pass -/

theorem clearSpine_cons {k : Key} {q : Path} {n : Node} (h : clearSpine (k :: q) n = true) :
    ∃ f cs c, n = .comp f .dict cs ∧ alookup k cs = some c ∧ clearSpine q c = true ∧
      opFreeL (aerase k cs) = true := by
  cases n with
  | leaf f lk => simp [clearSpine] at h
  | comp f ck cs =>
    cases ck <;> try (simp [clearSpine] at h; done)
    simp only [clearSpine, Bool.and_eq_true] at h
    cases hl : alookup k cs with
    | none => simp [hl] at h
    | some c =>
      rw [hl] at h
      exact ⟨f, cs, c, rfl, hl, h.1, h.2⟩

theorem depth_le_of_alookup {k : Key} {c : Node} : ∀ {cs : List (Key × Node)}, alookup k cs = some c →
    c.depth ≤ depthList cs
  | [], h => by simp [alookup] at h
  | (k0, c0) :: rest, h => by
    simp only [depthList]
    by_cases e : k0 = k
    · simp only [alookup, e, if_true, Option.some.injEq] at h
      subst h
      omega
    · simp only [alookup, e, if_false] at h
      have := depth_le_of_alookup h
      omega

/-- the loop of the pre-merge pass over children of which exactly one (`k`) is not operator-free -/
theorem premergeChildren_one {d : Nat} {rec : Node → Path → Option Node → PM}
    (H : ∀ c pa into, opFree c = true → c.depth < d → rec c pa into = .ok (c, true, into)) (path : Path)
    (k : Key) (c c' : Node) (same : Bool) (into' : Option Node) :
    ∀ (cs : List (Key × Node)) (into : Option Node), alookup k cs = some c →
      opFreeL (aerase k cs) = true → depthList cs < d →
      rec c (path ++ [k]) into = .ok (c', same, into') →
      premergeChildren rec path cs into =
        .ok (if same then aset k c' cs else cs, if same then [] else [(k, c')], into')
  | [], _, h, _, _, _ => by simp [alookup] at h
  | (k0, c0) :: rest, into, hl, hop, hd, hrec => by
    have hd' : c0.depth < d ∧ depthList rest < d := by simp only [depthList] at hd; omega
    by_cases e : k0 = k
    · subst e
      simp only [alookup, if_true, Option.some.injEq] at hl
      subst hl
      simp only [aerase, if_true] at hop
      simp only [premergeChildren, hrec, premergeChildren_opFree H path rest into' hop hd'.2]
      cases same <;> simp [aset]
    · simp only [alookup, e, if_false] at hl
      simp only [aerase, e, if_false, opFreeL, Bool.and_eq_true] at hop
      have ih := premergeChildren_one H path k c c' same into' rest into hl hop.2 hd'.2 hrec
      simp only [premergeChildren, H c0 _ into hop.1 hd'.1, ih]
      cases same <;> simp [aset, e]

theorem premergeF_dict (fuel : Nat) (f : Flags) (cs : List (Key × Node)) (path : Path) (into : Option Node) :
    premergeF (fuel + 1) (.comp f .dict cs) path into =
      match premergeChildren (premergeF fuel) path cs into with
      | .error e => .error e
      | .ok (cs', resets, into') =>
        match applyResets f .dict resets cs' with
        | .error e => .error e
        | .ok cs'' => .ok (.comp f .dict cs'', true, into') := rfl

/-- THE PRE-MERGE PASS of a stage with one `!clear` leaf at `k :: q` (absolute path `pre ++ k :: q`),
    the accumulated tree holding a container there: the container is emptied in the accumulated tree,
    the leaf is replaced by the emptied container in the stage, the stage stays the same object -/
theorem premergeF_clear (cf : Flags) (ck : CompKind) : ∀ (q : Path) (k : Key) (fuel : Nat) (n : Node) (pre : Path)
    (root : Node) (cs0 : List (Key × Node)),
    clearSpine (k :: q) n = true → n.depth < fuel → getNode root (pre ++ k :: q) = some (.comp cf ck cs0) →
    premergeF fuel n pre (some root) =
      .ok (clearedStage (.comp cf ck []) (k :: q) n, true,
        some (setNodeAt root (pre ++ k :: q) (.comp cf ck []))) := by
  intro q
  induction q with
  | nil =>
    intro k fuel n pre root cs0 hsp hd hg
    obtain ⟨f, cs, c, rfl, hl, hc, hop⟩ := clearSpine_cons hsp
    cases fuel with
    | zero => omega
    | succ fuel =>
      have hdl : depthList cs < fuel := by simp only [Node.depth] at hd; omega
      cases c with
      | comp _ _ _ => simp [clearSpine] at hc
      | leaf lf lk =>
        cases lk <;> try (simp [clearSpine] at hc; done)
        cases fuel with
        | zero => omega
        | succ fuel =>
          have hrec : premergeF (fuel + 1) (.leaf lf .clear) (pre ++ [k]) (some root) =
              .ok (.comp cf ck [], false, some (setNodeAt root (pre ++ [k]) (.comp cf ck []))) := by
            simp only [premergeF, hg]
          have hch := premergeChildren_one (rec := premergeF (fuel + 1))
            (fun c pa into hc hdc => premergeF_opFree (fuel + 1) c pa into hc hdc) pre k _ _ false _ cs (some root)
            hl hop hdl hrec
          rw [premergeF_dict, hch]
          simp only [Bool.false_eq_true, if_false, applyResets, setChild, CompKind.isDictFam, if_true,
            clearedStage]
  | cons k1 q ih =>
    intro k fuel n pre root cs0 hsp hd hg
    obtain ⟨f, cs, c, rfl, hl, hc, hop⟩ := clearSpine_cons hsp
    cases fuel with
    | zero => omega
    | succ fuel =>
      have hdl : depthList cs < fuel := by simp only [Node.depth] at hd; omega
      have hcd : c.depth < fuel := Nat.lt_of_le_of_lt (depth_le_of_alookup hl) hdl
      have hg' : getNode root ((pre ++ [k]) ++ k1 :: q) = some (.comp cf ck cs0) := by
        rw [List.append_assoc]; exact hg
      have hrec := ih k1 fuel c (pre ++ [k]) root cs0 hc hcd hg'
      rw [List.append_assoc] at hrec
      have hch := premergeChildren_one (rec := premergeF fuel)
        (fun c pa into hc hdc => premergeF_opFree fuel c pa into hc hdc) pre k _ _ true _ cs (some root)
        hl hop hdl hrec
      rw [premergeF_dict, hch]
      simp only [if_true, applyResets, clearedStage, hl]
      rfl

/-! ### what the pass preserves -/

theorem dictAlong_setNodeAt (v : Node) : ∀ (p : Path) (root e : Node), dictAlong p root = true →
    getNode root p = some e → dictAlong p (setNodeAt root p v) = true
  | [], _, _, _, _ => rfl
  | k :: p, root, e, hd, hg => by
    obtain ⟨f, cs, rfl, hn, hc⟩ := dictAlong_cons hd
    obtain ⟨c, hl, hgc⟩ := getNode_cons_dict hg
    simp only [setNodeAt, hl, dictAlong, keysNodup_aset k _ cs hn, alookup_aset, if_true, Bool.true_and]
    exact dictAlong_setNodeAt v p c e (hc c hl) hgc

theorem liveAlong_clearedStage (cn : Node) : ∀ (q : Path) (k : Key) (n : Node), liveAlong (k :: q) n = true →
    clearSpine (k :: q) n = true → liveAlong (k :: q) (clearedStage cn (k :: q) n) = true := by
  intro q
  induction q with
  | nil =>
    intro k n hl hsp
    obtain ⟨f, cs, c, rfl, hlk, _, _⟩ := clearSpine_cons hsp
    obtain ⟨_, _, hsh, hlive, hn, _⟩ := liveAlong_cons hl
    injection hsh with h1 _ h3
    subst h1; subst h3
    have hlive' : eDel (.comp f .dict (aset k (adopt f .dict cn) cs)) = false := hlive
    simp only [clearedStage, liveAlong, hlive', keysNodup_aset k _ cs hn, alookup_aset, if_true, Bool.not_false,
      Bool.and_self]
  | cons k1 q ih =>
    intro k n hl hsp
    obtain ⟨f, cs, c, rfl, hlk, hc, _⟩ := clearSpine_cons hsp
    obtain ⟨_, _, hsh, hlive, hn, hcc⟩ := liveAlong_cons hl
    injection hsh with h1 _ h3
    subst h1; subst h3
    have hlive' : eDel (.comp f .dict (aset k (clearedStage cn (k1 :: q) c) cs)) = false := hlive
    simp only [clearedStage, hlk, liveAlong, hlive', keysNodup_aset k _ cs hn, alookup_aset, if_true, Bool.not_false,
      Bool.true_and]
    exact ih k1 c (hcc c hlk) hc

theorem getNode_clearedStage (cn : Node) : ∀ (q : Path) (k : Key) (n : Node), clearSpine (k :: q) n = true →
    ∃ pf, getNode (clearedStage cn (k :: q) n) (k :: q) = some (adopt pf .dict cn) := by
  intro q
  induction q with
  | nil =>
    intro k n hsp
    obtain ⟨f, cs, c, rfl, hlk, _, _⟩ := clearSpine_cons hsp
    exact ⟨f, by simp [clearedStage, getNode, alookup_aset]⟩
  | cons k1 q ih =>
    intro k n hsp
    obtain ⟨f, cs, c, rfl, hlk, hc, _⟩ := clearSpine_cons hsp
    obtain ⟨pf, hpf⟩ := ih k1 c hc
    exact ⟨pf, by simp only [clearedStage, hlk, getNode, alookup_aset, if_true]; exact hpf⟩

/-- adoption of an emptied container changes inherited flags only -/
theorem adopt_empty (pf cf : Flags) (ck : CompKind) :
    ∃ cf', adopt pf .dict (.comp cf ck []) = .comp cf' ck [] ∧ ePrio cf' = ePrio cf ∧ cf'.del = cf.del := by
  simp only [adopt, inheritInto, childKw, Node.setFlags, Node.flags, c04_propagate_empty]
  exact ⟨_, rfl, rfl, rfl⟩

/-! ### the last step of the builder's fold -/

/-- `!clear` IN THE LAST STAGE, end to end: the last stage holds one `!clear` leaf at `k :: p` below plain
    non-deleting mappings and no other pre-merge operator; what the earlier stages flatten to holds a plain
    mapping or list there (below mappings): the build leaves an empty container of that kind at the path —
    unless that container carries an explicit `delete=True`, in which case the key is removed -/
theorem clear_last_stage (xs : List Node) (o r : Node) (k : Key) (p : Path) (hx : xs ≠ [])
    (hbuild : flatten (xs ++ [o]) = .ok r)
    (hsp : clearSpine (k :: p) o = true) (ho : liveAlong (k :: p) o = true) :
    ∃ s, flattenWith (premergeF (stagesFuel (xs ++ [o]))) xs = .ok s ∧
      ∀ cf ck cs0, dictAlong (k :: p) s = true → getNode s (k :: p) = some (.comp cf ck cs0) →
        (ck = .dict ∨ ck = .list) →
        (native r).at? (k :: p) =
          if cf.del == some true then none else some (if ck.isDictFam then .dict [] else .list []) := by
  simp only [flatten] at hbuild
  obtain ⟨s, h1, h2⟩ := C07P.flattenWith_append xs [o] hx r hbuild
  refine ⟨s, h1, ?_⟩
  intro cf ck cs0 hs hg hck
  have hd : o.depth < stagesFuel (xs ++ [o]) := C07P.depth_lt_stagesFuel (by simp)
  have hpm := premergeF_clear cf ck p k _ o [] s cs0 hsp hd (by simpa using hg)
  simp only [List.nil_append] at hpm
  simp only [flattenLoop, hpm] at h2
  split at h2
  · cases h2
  · rename_i r1 hm1
    simp only [Except.ok.injEq] at h2
    subst h2
    obtain ⟨bb, hb⟩ := C07P.merge_ok_mergeF hm1
    obtain ⟨pf, hgo⟩ := getNode_clearedStage (.comp cf ck []) p k o hsp
    obtain ⟨cf', hcf', hpr, hdl⟩ := adopt_empty pf cf ck
    rw [hcf'] at hgo
    have := clear_at p k _ _ _ r1 bb cf cf' ck (dictAlong_setNodeAt _ (k :: p) s _ hs hg)
      (liveAlong_clearedStage _ p k o ho hsp) hb (c04_getNode_setNodeAt _ (k :: p) s _ hg) hgo hck hpr
    rw [this, hdl]

end AY.C04P
