/-
  AY.Lemmas.C03FuncArgs — merging an entry (scalar leaf / function node with scalar arguments) onto
  an entry ALWAYS SUCCEEDS and gives an entry again: the key loop over scalar arguments, the
  pre-filter, `_require_all_new`, and the two tails of `ComposedNode.on_merge_impl`.
  With `funcStep` (AY/Lemmas/C03FuncStep.lean) this gives `entMerge_total`: the merged entry carries
  `pickInfo` of the two informations.
-/
import AY.Lemmas.C03FuncES
set_option linter.unusedVariables false
set_option linter.unusedSimpArgs false
namespace AY.C03F
open AY

/-! ### association lists of arguments -/

theorem argsW_lookup (k : Key) : ∀ {cs : List (Key × Node)}, argsW cs = true → ∀ c, alookup k cs = some c → argW c = true
  | [], _, c, h => by simp [alookup] at h
  | (k', v') :: r, hp, c, h => by
    have h' : argW v' = true ∧ argsW r = true := by simpa [argsW] using hp
    by_cases hk : k' = k
    · simp [alookup, hk] at h; subst h; exact h'.1
    · simp [alookup, hk] at h; exact argsW_lookup k h'.2 c h

theorem argsW_aset (k : Key) (v : Node) (hv : argW v = true) : ∀ {cs : List (Key × Node)},
    argsW cs = true → argsW (aset k v cs) = true
  | [], _ => by simp [aset, argsW, hv]
  | (k', v') :: r, h => by
    have h' : argW v' = true ∧ argsW r = true := by simpa [argsW] using h
    by_cases hk : k' = k <;> simp [aset, argsW, hk, hv, h'.1, h'.2, argsW_aset k v hv h'.2]

theorem argsW_aerase (k : Key) : ∀ {cs : List (Key × Node)}, argsW cs = true → argsW (aerase k cs) = true
  | [], _ => rfl
  | (k', v') :: r, h => by
    have h' : argW v' = true ∧ argsW r = true := by simpa [argsW] using h
    by_cases hk : k' = k <;> simp [aerase, argsW, hk, h'.1, h'.2, argsW_aerase k h'.2]

theorem argW_leaf {n : Node} (h : argW n = true) : ∃ g v, n = .leaf g (.scalar v) ∧ g.iSafe = none := by
  cases n with
  | comp f k cs => simp [argW] at h
  | leaf g lk => cases lk <;> simp [argW] at h; exact ⟨_, _, rfl, h⟩

/-- adoption of a scalar argument by a function node -/
theorem adopt_argW {sf : Flags} {sk : CompKind} (hsf : flagsFN sf = true) (hsk : sk.isFunc = true) {v : Node}
    (hv : argW v = true) : argW (adopt sf sk v) = true := by
  obtain ⟨g, x, rfl, hg⟩ := argW_leaf hv
  simp [adopt, inheritInto, childKw_FN hsf hsk, Node.flags, Node.setFlags, propagate, updFlags, argW, hg]

/-- the leaf rule on two scalar arguments -/
theorem leafRule_argW {a b : Node} (ha : argW a = true) (hb : argW b = true) :
    argW (leafRule a b).1 = true := by
  obtain ⟨ga, va, rfl, hga⟩ := argW_leaf ha
  obtain ⟨gb, vb, rfl, hgb⟩ := argW_leaf hb
  simp only [leafRule]
  split <;> simp [Node.flags, Node.setFlags, propagate, argW, replaceOtherFlags, mergeSafe, hga, hgb]

/-! ### the key loop over scalar arguments -/

theorem mergeStep_args (n : Nat) {sf : Flags} {sk : CompKind} (hsf : flagsFN sf = true) (hsk : sk.isFunc = true)
    (exc : List Path) {acc : List (Key × Node)} (hacc : argsW acc = true) (k : Key) {v : Node} {d : Option Bool}
    (hv : argS d v = true) :
    ∃ acc', mergeStep (mergeF (n + 1)) sf sk exc acc (k, v) = .ok acc' ∧ argsW acc' = true := by
  have hdf : sk.isDictFam = true := by cases sk <;> simp_all [CompKind.isFunc, CompKind.isDictFam]
  have hvW := argW_of_S hv
  simp only [mergeStep, getChild, hdf, if_true]
  cases hl : alookup k acc with
  | none =>
    obtain ⟨g, x, rfl, hg⟩ := argW_leaf hvW
    have hn : eNew g = true := eNew_argS hv
    refine ⟨aset k (adopt sf sk (.leaf g (.scalar x))) acc, ?_, argsW_aset k _ (adopt_argW hsf hsk hvW) hacc⟩
    simp [reqNew, hn, setChild, hdf]
  | some c =>
    have hc := argsW_lookup k hacc c hl
    obtain ⟨gc, vc, rfl, hgc⟩ := argW_leaf hc
    have hnw := leafRule_argW hc hvW
    obtain ⟨gn, vn, hnwe, hgn⟩ := argW_leaf hnw
    have hrec : mergeF (n + 1) (.leaf gc (.scalar vc)) v = .ok (leafRule (.leaf gc (.scalar vc)) v) := rfl
    rcases hlr : leafRule (.leaf gc (.scalar vc)) v with ⟨nw, same⟩
    rw [hlr] at hrec hnw hnwe
    simp only at hnw hnwe
    subst hnwe
    simp only [hrec, Node.isComp, Bool.false_eq_true, if_false]
    cases same with
    | true => exact ⟨aset k (.leaf gn (.scalar vn)) acc, by simp [replaceChild, hdf], argsW_aset k _ hnw hacc⟩
    | false =>
      simp only [Bool.false_eq_true, if_false, reqNewBelow]
      split
      · refine ⟨aerase k acc, ?_, argsW_aerase k hacc⟩
        simp [removeChildE, removeChild, hdf, ahas, hl]
      · refine ⟨aset k (adopt sf sk (.leaf gn (.scalar vn))) acc, by simp [setChild, hdf], ?_⟩
        exact argsW_aset k _ (adopt_argW hsf hsk hnw) hacc

theorem mergeLoop_args (n : Nat) {sf : Flags} {sk : CompKind} (hsf : flagsFN sf = true) (hsk : sk.isFunc = true)
    (exc : List Path) {d : Option Bool} : ∀ (ocs acc : List (Key × Node)), argsW acc = true → argsS d ocs = true →
    ∃ acc', mergeLoop (mergeF (n + 1)) sf sk exc acc ocs = .ok acc' ∧ argsW acc' = true
  | [], acc, hacc, _ => ⟨acc, rfl, hacc⟩
  | (k, v) :: rest, acc, hacc, ho => by
    have ho' : argS d v = true ∧ argsS d rest = true := by simpa [argsS] using ho
    obtain ⟨acc1, h1, hacc1⟩ := mergeStep_args n hsf hsk exc hacc k ho'.1
    obtain ⟨acc2, h2, hacc2⟩ := mergeLoop_args n hsf hsk exc rest acc1 hacc1 ho'.2
    exact ⟨acc2, by simp only [mergeLoop, h1, h2], hacc2⟩

/-! ### the pre-filter on scalar arguments -/

theorem filterList_args (cond : Path → Node → Bool) (pre : Path) : ∀ {cs : List (Key × Node)}, argsW cs = true →
    dropMarks (filterList cond pre cs).1 = cs
  | [], _ => rfl
  | (k, c) :: rest, h => by
    have h' : argW c = true ∧ argsW rest = true := by simpa [argsW] using h
    obtain ⟨g, x, rfl, _⟩ := argW_leaf h'.1
    simp [filterList, filterNode, dropMarks, filterList_args cond pre h'.2]

theorem removeMany_args (f : Flags) (k : CompKind) (hk : k.isDictFam = true) : ∀ (ns : List Key) {cs : List (Key × Node)},
    argsW cs = true → argsW (removeMany f k ns cs) = true
  | [], _, h => h
  | nm :: rest, cs, h => by
    simp only [removeMany, removeChild, hk, if_true]
    split
    · rename_i cs' hcs'
      split at hcs'
      · simp only [Option.some.injEq] at hcs'; subst hcs'
        exact removeMany_args f k hk rest (argsW_aerase nm h)
      · cases hcs'
    · exact removeMany_args f k hk rest h

theorem filterNode_args (cond : Path → Node → Bool) (pre : Path) (f : Flags) (k : CompKind) (hk : k.isDictFam = true)
    {cs : List (Key × Node)} (h : argsW cs = true) :
    argsW (filterNode cond pre (.comp f k cs)).1.children = true := by
  simp only [filterNode, Node.children, filterList_args cond pre h]
  exact removeMany_args f k hk _ h

/-! ### `_require_all_new` on a function-node entry -/

theorem reqNew_func_entry (exc : List Path) (p : Path) {of : Flags} {ok : CompKind} {ocs : List (Key × Node)}
    {d : Option Bool} (hof : flagsFN of = true) (hocs : argsS d ocs = true) :
    reqNew exc p (.comp of ok ocs) = none := by
  apply reqNew_allNew
  simp [allNew, eNew_FN hof, allNewList_args hocs]

/-! ### function node ← function node -/

theorem isDictFam_of_isFunc {k : CompKind} (h : k.isFunc = true) : k.isDictFam = true := by
  cases k <;> simp_all [CompKind.isFunc, CompKind.isDictFam]

/-- `ComposedNode.on_merge_impl` on two function nodes with scalar arguments succeeds with an entry -/
theorem compMerge_args_total (n : Nat) (sf : Flags) (sk : CompKind) (scs : List (Key × Node)) (of : Flags)
    (ok : CompKind) (ocs : List (Key × Node)) (tf tg : String)
    (hsk : sk.func? = some tf) (hok : ok.func? = some tg) (htf : tf ≠ "") (htg : tg ≠ "")
    (hsf : flagsFN sf = true) (hof : flagsFN of = true) (hscs : argsW scs = true)
    (hocs : argsS (fnDel of) ocs = true) :
    ∃ r same, compMerge (mergeF (n + 1)) sf sk scs (.comp of ok ocs) = .ok (r, same) ∧ entShaped r = true := by
  have hskf := isFunc_of_func? hsk
  have hokf := isFunc_of_func? hok
  have hfin : ∀ scs', argsW scs' = true →
      ∃ r same, finishMerge sf sk scs' (.comp of ok ocs) = .ok (r, same) ∧ entShaped r = true := by
    intro scs' hs'
    rw [finishMerge_func _ _ _ _ _ _ hskf (Or.inr (Or.inr hokf))]
    refine ⟨_, _, rfl, ?_⟩
    split
    · exact propagate_func_es hsk (flagsFN_replaceSelf hsf (safe_of_FN hof)) htf hs'
    · exact propagate_func_es hsk (flagsFN_replaceOther hsf (safe_of_FN hof)) htf hs'
  simp only [compMerge]
  split
  · split
    · rw [reqNew_func_entry _ _ hof hocs]
      obtain ⟨cs', hcs'⟩ := filterNode_comp (maybeKeep (.comp of ok ocs)) [] sf sk scs
      simp only [hcs', maybePromote_func_func _ _ _ _ _ _ hokf hskf]
      exact ⟨_, _, rfl, propagate_func_es hok (flagsFN_replaceOther hof (safe_of_FN hsf)) htg (argsW_of_S hocs)⟩
    · obtain ⟨acc', hl, hacc'⟩ := mergeLoop_args n hsf hskf
        (filterNode (maybeKeep (.comp of ok ocs)) [] (.comp sf sk scs)).2 ocs _
        (filterNode_args _ [] sf sk (isDictFam_of_isFunc hskf) hscs) hocs
      rw [hl]
      exact hfin acc' hacc'
  · obtain ⟨acc', hl, hacc'⟩ := mergeLoop_args n hsf hskf [] ocs scs hscs hocs
    simp only [hl]
    exact hfin acc' hacc'

end AY.C03F
