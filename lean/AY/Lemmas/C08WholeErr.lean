/-
  AY.Lemmas.C08WholeErr — how the merge of a document without deleting nodes onto a well-keyed
  config can fail: with the MergeError of `_require_all_new`, naming a path that the document
  writes (at a node whose `allow_new` is off) and the config lacks; or with the path-less MergeError
  of ConfigList's index validation, when a mapping of the document addresses a list of the config
  with a key that is no existing index.  No other error is possible (`c08w_ErrSpec`).
  Hypothesis: no two keys of one mapping address the same child (`c08w_noAlias`).
-/
import AY.Lemmas.C08WholeLoop
namespace AY

/-- a mapping of `b` addresses a list of `a` (at a common path `q`) with a key that is no existing
    index of it: not an integer, or out of range (`i ≥ len` or `i < -len`) -/
def c08w_BadIndex (a b : Node) : Prop :=
  ∃ q sf sk scs of ocs key o, c08w_get a q = some (.comp sf sk scs) ∧ sk.isDictFam = false ∧
    c08_nodeAt b q (.comp of .dict ocs) ∧ (key, o) ∈ ocs ∧ validateIndex scs.length true key = none

/-- the two ways the merge fails -/
def c08w_ErrSpec (a b : Node) (e : Err) : Prop :=
  (∃ p m, e = .notnew p ∧ p ≠ [] ∧ c08_nodeAt b p m ∧ eNew m.flags = false ∧ c08w_has a p = false) ∨
  (e = .merge ∧ c08w_BadIndex a b)

theorem c08w_get_cons (f : Flags) (sk : CompKind) (cs : List (Key × Node)) (key : Key) (q : Path) :
    c08w_get (.comp f sk cs) (key :: q) = (getChild sk key cs).bind (fun c => c08w_get c q) := by
  simp only [c08w_get]
  cases getChild sk key cs <;> rfl

theorem c08w_ErrSpec_lift {sf : Flags} {sk : CompKind} {scs : List (Key × Node)} {of : Flags}
    {ocs : List (Key × Node)} {k : Key} {o c : Node} {e : Err} (hg : getChild sk k scs = some c)
    (hm : (k, o) ∈ ocs) (h : c08w_ErrSpec c o e) :
    c08w_ErrSpec (.comp sf sk scs) (.comp of .dict ocs) (e.prepend k) := by
  rcases h with ⟨p, m, rfl, hp, hn, hm', hh⟩ | ⟨rfl, q, sf', sk', scs', of', ocs', key, o', h1, h2, h3, h4, h5⟩
  · refine .inl ⟨k :: p, m, rfl, by simp, .child hm hn, hm', ?_⟩
    rw [c08w_has_cons, hg]; exact hh
  · refine .inr ⟨rfl, k :: q, sf', sk', scs', of', ocs', key, o', ?_, h2, .child hm h3, h4, h5⟩
    rw [c08w_get_cons, hg]; exact h1

theorem c08w_noAliasL_mem {sk : CompKind} {scs : List (Key × Node)} : ∀ {ocs : List (Key × Node)},
    c08w_noAliasL sk scs ocs = true → ∀ kv ∈ ocs, ∀ c, getChild sk kv.1 scs = some c → c08w_noAlias c kv.2 = true
  | [], _, _, h, _, _ => by cases h
  | (k, o) :: rest, hn, kv, h, c, hg => by
    simp only [c08w_noAliasL, Bool.and_eq_true] at hn
    rcases List.mem_cons.1 h with e | h'
    · subst e
      have := hn.1
      simp only at hg
      rw [hg] at this
      exact this
    · exact c08w_noAliasL_mem hn.2 kv h' c hg

theorem c08w_noAlias_comp {sf : Flags} {sk : CompKind} {scs : List (Key × Node)} {of : Flags} {ok : CompKind}
    {ocs : List (Key × Node)} (h : c08w_noAlias (.comp sf sk scs) (.comp of ok ocs) = true) :
    c08w_slotsNodup sk scs.length ocs = true ∧ c08w_noAliasL sk scs ocs = true := by
  simpa [c08w_noAlias] using h

theorem c08w_listKeysValid_mem {len : Nat} : ∀ {ocs : List (Key × Node)}, listKeysValid len ocs = true →
    ∀ kv ∈ ocs, (validateIndex len true kv.1).isSome = true
  | [], _, _, h => by cases h
  | (k, o) :: rest, hv, kv, h => by
    simp only [listKeysValid] at hv
    cases hi : validateIndex len true k with
    | none => simp [hi] at hv
    | some i =>
      simp only [hi] at hv
      rcases List.mem_cons.1 h with e | h'
      · subst e; simp [hi]
      · exact c08w_listKeysValid_mem hv kv h'

theorem c08w_listKeysValid_false {len : Nat} : ∀ {ocs : List (Key × Node)}, listKeysValid len ocs = false →
    ∃ kv ∈ ocs, validateIndex len true kv.1 = none
  | [], h => by simp [listKeysValid] at h
  | (k, o) :: rest, hv => by
    simp only [listKeysValid] at hv
    cases hi : validateIndex len true k with
    | none => exact ⟨(k, o), by simp, hi⟩
    | some i =>
      simp only [hi] at hv
      obtain ⟨kv, hkv, h⟩ := c08w_listKeysValid_false hv
      exact ⟨kv, List.mem_cons_of_mem _ hkv, h⟩

theorem c08w_listKeys_of_CS {sk : CompKind} {scs : List (Key × Node)} (h : KI.CS sk scs)
    (hsk : sk.isDictFam = false) : listKeys 0 scs = true := by
  have := h.1
  simp only [KI.topOK, hsk, Bool.false_eq_true, if_false] at this
  rw [ki_listKeys]; exact this

theorem c08w_docL_del {inh : Option Bool} {ocs : List (Key × Node)} (h : c08w_docL inh ocs = true) :
    ∀ kv ∈ ocs, kv.2.flags.del ≠ some true :=
  fun kv hkv => c08w_nd_del (c08w_doc_flags (c08w_docL_mem h kv hkv)).2

/-- the error of one key, read against the original child -/
theorem c08w_stepErr_spec {rec : Node → Node → Except Err (Node × Bool)} (hl : c08w_RecLeaf rec)
    {sf : Flags} {sk : CompKind} {scs : List (Key × Node)} {of : Flags} {ocs : List (Key × Node)}
    {inh : Option Bool} {k : Key} {o : Node} {e : Err} (hm : (k, o) ∈ ocs) (ho : c08w_doc inh o = true)
    (hrec : ∀ c e', getChild sk k scs = some c → rec c o = .error e' → c08w_ErrSpec c o e')
    (h : c08w_StepErr rec sk scs k o e) :
    c08w_ErrSpec (.comp sf sk scs) (.comp of .dict ocs) e := by
  rcases h with ⟨hg, p, hp, rfl⟩ | ⟨hsk, hv, rfl⟩ | ⟨child, e', hg, hr, rfl⟩ | ⟨child, nw, p, hg, hc, hr, hb, rfl⟩
  · obtain ⟨_, _, q, m, _, hpq, hn, hm', _, _⟩ := c08_reqNew_some [] [] o p hp
    simp only [List.nil_append] at hpq
    subst hpq
    refine .inl ⟨k :: p, m, rfl, by simp, .child hm hn, hm', ?_⟩
    rw [c08w_has_cons, hg]
  · exact .inr ⟨rfl, [], sf, sk, scs, of, ocs, k, o, rfl, hsk, .root _, hm, hv⟩
  · exact c08w_ErrSpec_lift hg hm (hrec child e' hg hr)
  · cases child with
    | comp cf ck ccs => cases hc
    | leaf cf clk =>
      have hnw := (c08w_leafRule_other_del (hl cf clk o _ _ hr)).1
      cases o with
      | leaf fo lko => subst hnw; simp [Node.setFlags, propagate, reqNewBelow] at hb
      | comp fo ko oocs =>
        obtain ⟨_, _, hk, hoocs⟩ := c08w_doc_comp ho
        subst hk
        simp only [Node.setFlags, Node.flags] at hnw
        subst hnw
        rw [c08w_reqNewBelow_propagate _ _
          (by simpa [c08w_replaceOtherFlags_new, c08w_replaceOtherFlags_iNew] using hoocs)] at hb
        obtain ⟨key, c, q, m, hkc, hpq, hn, hm', _⟩ := c08w_reqNewList_some hb
        subst hpq
        refine .inl ⟨k :: key :: q, m, rfl, by simp, .child hm (.child hkc hn), hm', ?_⟩
        rw [c08w_has_cons, hg]; rfl

theorem c08w_compMerge_err {rec : Node → Node → Except Err (Node × Bool)} (hl : c08w_RecLeaf rec)
    {sf : Flags} {sk : CompKind} {scs : List (Key × Node)} {of : Flags} {ocs : List (Key × Node)}
    {inh : Option Bool} {e : Err} (hnd : c08w_nd of = true) (hocs : c08w_docL inh ocs = true)
    (hna : c08w_noAlias (.comp sf sk scs) (.comp of .dict ocs) = true)
    (hvalid : sk.isDictFam = true ∨ (listKeys 0 scs = true ∧ listKeysValid scs.length ocs = true))
    (hrec : ∀ kv ∈ ocs, ∀ c e', getChild sk kv.1 scs = some c → c08w_noAlias c kv.2 = true →
      rec c kv.2 = .error e' → c08w_ErrSpec c kv.2 e')
    (h : compMerge rec sf sk scs (.comp of .dict ocs) = .error e) :
    c08w_ErrSpec (.comp sf sk scs) (.comp of .dict ocs) e := by
  obtain ⟨hsn, hnl⟩ := c08w_noAlias_comp hna
  rw [c08w_compMerge_dict rec sf sk scs ocs hnd] at h
  split at h
  · rename_i e' hloop
    injection h with h
    subst h
    have hv : sk.isDictFam = true ∨ (listKeys 0 scs = true ∧
        ∀ kv ∈ ocs, (validateIndex scs.length true kv.1).isSome = true) := by
      rcases hvalid with h | ⟨h1, h2⟩
      · exact .inl h
      · exact .inr ⟨h1, c08w_listKeysValid_mem h2⟩
    obtain ⟨kv, hkv, hse⟩ := (c08w_loop_decomp (sf := sf) hl ocs scs hv hsn (c08w_docL_del hocs) (.inr rfl)
      (fun _ _ => rfl)).2 e' hloop
    obtain ⟨k, o⟩ := kv
    exact c08w_stepErr_spec hl hkv (c08w_docL_mem hocs _ hkv)
      (fun c e'' hg hr => hrec _ hkv c e'' hg (c08w_noAliasL_mem hnl _ hkv c hg) hr) hse
  · rename_i scs' _
    obtain ⟨F, hF⟩ := c08w_finishMerge_dict sf sk scs' of ocs
    rw [hF] at h; cases h

/-- the fuel-indexed statement: all errors of `on_merge` are of the two kinds -/
theorem c08w_mergeF_err : ∀ (n : Nat) (a b : Node) (inh : Option Bool) (e : Err), b.depth < n →
    KI.Keyed a = true → c08w_top inh b = true → c08w_noAlias a b = true → mergeF n a b = .error e →
    c08w_ErrSpec a b e
  | 0, _, _, _, _, hd, _, _, _, _ => by omega
  | n + 1, a, b, inh, e, hd, hka, hb, hna, h => by
    have hl := c08w_recLeaf_mergeF n
    cases a with
    | leaf f lk => simp [mergeF] at h
    | comp sf sk scs =>
      have hcs : KI.CS sk scs := (KI.keyed_comp _ _ _).1 hka
      cases b with
      | leaf fb lkb =>
        -- a leaf never fails
        exfalso
        cases sk <;> simp only [mergeF, listMerge, compMerge, funcMerge] at h
        all_goals (try cases h)
        all_goals (repeat' split at h)
        all_goals (try cases h)
      | comp of ok ocs =>
        obtain ⟨hnd, hk, hocs⟩ := c08w_top_comp hb
        subst hk
        have hdl : depthList ocs < n := by simp only [Node.depth] at hd; omega
        have hrec : ∀ kv ∈ ocs, ∀ c e', getChild sk kv.1 scs = some c → c08w_noAlias c kv.2 = true →
            mergeF n c kv.2 = .error e' → c08w_ErrSpec c kv.2 e' := by
          intro kv hkv c e' hg hnac hr
          have hdo : kv.2.depth < n := by
            have : ∀ (l : List (Key × Node)), kv ∈ l → kv.2.depth ≤ depthList l := by
              intro l
              induction l with
              | nil => intro h; cases h
              | cons x rest ih =>
                intro h
                obtain ⟨xk, xo⟩ := x
                simp only [depthList]
                rcases List.mem_cons.1 h with e | h'
                · subst e; exact Nat.le_max_left _ _
                · exact Nat.le_trans (ih h') (Nat.le_max_right _ _)
            exact Nat.lt_of_le_of_lt (this ocs hkv) hdl
          exact c08w_mergeF_err n c kv.2 _ e' hdo (KI.getChild_keyed hcs.2 hg)
            (c08w_top_of_doc (c08w_docL_mem hocs kv hkv)) hnac hr
        have hcm : ∀ (hv : sk.isDictFam = true ∨ (listKeys 0 scs = true ∧ listKeysValid scs.length ocs = true)),
            compMerge (mergeF n) sf sk scs (.comp of .dict ocs) = .error e →
            c08w_ErrSpec (.comp sf sk scs) (.comp of .dict ocs) e :=
          fun hv h' => c08w_compMerge_err hl hnd hocs hna hv hrec h'
        have hlm : sk.isDictFam = false → listMerge (mergeF n) sf sk scs (.comp of .dict ocs) = .error e →
            c08w_ErrSpec (.comp sf sk scs) (.comp of .dict ocs) e := by
          intro hsk h'
          simp only [listMerge] at h'
          split at h'
          · rename_i hcond
            injection h' with h'
            subst h'
            simp only [Bool.and_eq_true, Bool.not_eq_true', CompKind.isDictFam] at hcond
            obtain ⟨kv, hkv, hv⟩ := c08w_listKeysValid_false hcond.2
            exact .inr ⟨rfl, [], sf, sk, scs, of, ocs, kv.1, kv.2, rfl, hsk, .root _, hkv, hv⟩
          · rename_i hcond
            rw [c08w_filter_top _ hb] at h'
            have hv : listKeysValid scs.length ocs = true := by
              simp only [CompKind.isDictFam, c08w_eDel_top hb, Bool.not_false, Bool.true_and,
                Bool.not_eq_true', Bool.not_eq_false] at hcond
              exact hcond
            exact hcm (.inr ⟨c08w_listKeys_of_CS hcs hsk, hv⟩) h'
        cases sk with
        | dict => exact hcm (.inl rfl) (by simpa only [mergeF] using h)
        | call g => exact hcm (.inl rfl) (by simpa only [mergeF, funcMerge, CompKind.func?] using h)
        | bind g => exact hcm (.inl rfl) (by simpa only [mergeF, funcMerge, CompKind.func?] using h)
        | list => exact hlm rfl (by simpa only [mergeF] using h)
        | append => exact hlm rfl (by simpa only [mergeF] using h)
        | extend => exact hlm rfl (by simpa only [mergeF] using h)
        | path p => exact hlm rfl (by simpa only [mergeF] using h)
        | stream => exact hlm rfl (by simpa only [mergeF] using h)

end AY
