/-
  AY.Lemmas.C15TaggedIdemB — two consequences of the entry-by-entry description of a merge
  (AY/Lemmas/C15TaggedSpec.lean), for the idempotence clause of C15:

  * `selfMerge`: merging a copy of `v` (up to the order of keys and the flags the merge does not read)
    with `v` gives `v` again;
  * `mergeF_cong`: the merge respects `PermC` in its first argument.
-/
import AY.Lemmas.C15TaggedIdemA
namespace AY.C15T
open AY.C15W (NN nnList nnF)

theorem _root_.AY.OptRel.transC {x y z : Option Node} (h1 : OptRel PermC x y) (h2 : OptRel PermC y z) :
    OptRel PermC x z := by
  cases h1 with
  | none => exact h2
  | some hr =>
    obtain ⟨c, rfl, hc⟩ := h2.someL
    exact .some (hr.trans hc)

theorem _root_.AY.OptRel.symmC {x y : Option Node} (h : OptRel PermC x y) : OptRel PermC y x :=
  OptRel.flipR (fun _ _ hr => PermC.symm hr) h

theorem Dom.reflList {f : Flags} {kd : CompKind} {cs : List (Key × Node)} (h : Dom (.comp f kd cs)) (k : Key) :
    OptRel PermC (alookup k cs) (alookup k cs) := by
  cases hc : alookup k cs with
  | none => exact .none
  | some c => exact .some (h.child hc).refl

/-- the same children under core-equal flags -/
theorem Dom.reflFlags {f f' : Flags} {cs : List (Key × Node)} (h : Dom (.comp f .dict cs)) (hf : coreF f' = coreF f) :
    PermC (.comp f' .dict cs) (.comp f .dict cs) :=
  PermC.dict_intro hf h.nodup h.nodup (fun k => h.reflList k)

theorem selfPrune_kept {f vf : Flags} {cs vcs : List (Key × Node)}
    (h : PermC (.comp f .dict cs) (.comp vf .dict vcs)) :
    keptChildren (maybeKeep (.comp vf .dict vcs)) [] cs = [] := by
  obtain ⟨_, f0, cs0, e, hf, h1, h2, h3⟩ := h.dict_inv'
  injection e with e1 e2 e3
  subst e1; subst e3
  apply list_empty_of_lookups
  intro k
  rw [alookup_kept _ k cs h1]
  have hr := h3 k
  cases hc : alookup k cs with
  | none => rfl
  | some c =>
    rw [hc] at hr
    obtain ⟨v', hv', hcv⟩ := hr.someL
    simp only [Option.bind, sub_of_lookup hv']
    exact selfPrune' hcv

/-! ### the leaf rule -/

theorem mergeF_leafRule (fuel : Nat) {a v : Node} (ha : dictTree a = true)
    (h : a.isComp = false ∨ v.isComp = false) : mergeF (fuel + 1) a v = .ok (leafRule a v) := by
  cases a with
  | leaf f k => rfl
  | comp af kd acs =>
    obtain ⟨rfl, _, _⟩ := dictTree_comp ha
    cases v with
    | leaf g k => rfl
    | comp vf vkd vcs => simp [Node.isComp] at h

theorem leafRule_cong {a a' v : Node} (hv : Dom v) (h : PermC a a') :
    PermC (leafRule a v).1 (leafRule a' v).1 ∧ (leafRule a' v).2 = (leafRule a v).2 := by
  have hp := h.hasPrio_left v.flags false
  cases hq : hasPrio a.flags v.flags false with
  | true =>
    rw [hq] at hp
    rw [leafRule_true hq, leafRule_true hp]
    refine ⟨?_, rfl⟩
    apply PermC.propagate_left
    apply PermC.propagate_right
    apply h.setFlags
    rw [coreF_replaceOtherFlags, coreF_replaceOtherFlags]
    exact h.coreF_eq
  | false =>
    rw [hq] at hp
    rw [leafRule_false hq, leafRule_false hp]
    refine ⟨?_, rfl⟩
    apply PermC.propagate_left
    apply PermC.propagate_right
    apply hv.refl.setFlags
    rw [coreF_replaceOtherFlags, coreF_replaceOtherFlags]

/-! ### merging a copy of `v` with `v` -/

theorem selfMerge : ∀ (fuel : Nat) (v c1 : Node), Dom c1 → Dom v → noIdiom v = true → v.depth < fuel →
    PermC c1 v → ∃ m b, mergeF fuel c1 v = .ok (m, b) ∧ PermC m v := by
  intro fuel
  induction fuel with
  | zero => intro v c1 _ _ _ hd; omega
  | succ fuel ih =>
    intro v c1 hc1 hv hni hd h
    cases v with
    | leaf g k =>
      obtain ⟨f, rfl, hf⟩ := h.leaf_inv'
      have hq : hasPrio (Node.leaf f k).flags (Node.leaf g k).flags false = false := (hasPrio_core_eq hf).1
      refine ⟨_, _, (mergeF_leaf_left fuel f k _).trans (by rw [leafRule_false hq]), ?_⟩
      apply PermC.propagate_left
      exact hv.refl.setFlags (g' := g) (coreF_replaceOtherFlags _ _)
    | comp vf kd vcs =>
      obtain ⟨rfl, f, cs, rfl, hf, h1, h2, h3⟩ := h.dict_inv'
      by_cases hdel : eDel (.comp vf .dict vcs) = true
      · have hk := selfPrune_kept h
        have hexit := dict_spec_exit fuel hc1 hv hdel (by rw [hk]; rfl) (hasPrio_core_eq hf).2
        refine ⟨_, _, hexit, ?_⟩
        apply PermC.propagate_left
        exact hv.reflFlags (coreF_replaceOtherFlags _ _)
      · obtain ⟨mcs, hm, hmn, hs⟩ := dict_spec_loop (good fuel) hc1 hv hni hd (fun hx => hdel hx.1)
        refine ⟨_, _, hm, ?_⟩
        have hb : baseOf cs (.comp vf .dict vcs) = cs := by
          simp only [baseOf]
          split
          · rename_i hd'; exact absurd hd' hdel
          · rfl
        rw [hb] at hs
        refine PermC.dict_intro ?_ hmn h2 ?_
        · rw [coreF_finishFlags, (hasPrio_core_eq hf).2]
          rfl
        · intro k
          have es := hs k
          have hr := h3 k
          cases hv' : alookup k vcs with
          | none =>
            rw [hv'] at es hr
            rw [hr.noneR] at es
            simpa only [EntrySpec] using es
          | some v' =>
            rw [hv'] at es hr
            obtain ⟨c, hc, hcv⟩ := hr.someR
            rw [hc] at es
            simp only [EntrySpec] at es
            obtain ⟨nw, sm, y, hr1, hy, hyn⟩ := es
            have hdv : v'.depth < fuel := by
              have := depth_child (f := vf) (kd := .dict) hv'
              omega
            obtain ⟨m', b', hr2, hm'⟩ := ih v' c (hc1.child hc) (hv.child hv') (noIdiom_child hni hv') hdv hcv
            rw [hr1] at hr2
            injection hr2 with hr2
            injection hr2 with e1 _
            subst e1
            rw [hy]
            exact .some (hyn.trans hm')

/-! ### the merge respects `PermC` on the older side -/

theorem baseOf_cong {af af' : Flags} {acs acs' : List (Key × Node)}
    (h : PermC (.comp af .dict acs) (.comp af' .dict acs')) (v : Node) :
    (baseOf acs' v).isEmpty = (baseOf acs v).isEmpty ∧
    (keptChildren (maybeKeep v) [] acs').isEmpty = (keptChildren (maybeKeep v) [] acs).isEmpty ∧
      ∀ k, OptRel PermC (alookup k (baseOf acs v)) (alookup k (baseOf acs' v)) := by
  obtain ⟨_, f0, cs0, e, _, h1, h2, h3⟩ := h.dict_inv
  injection e with e1 e2 e3
  subst e1; subst e3
  have hf := h.filterNode (maybeKeep_coreCond v) []
  rw [c04_filterNode_dict_kept _ [] af .dict acs rfl h1, c04_filterNode_dict_kept _ [] af' .dict acs' rfl h2] at hf
  have hke : (keptChildren (maybeKeep v) [] acs').isEmpty = (keptChildren (maybeKeep v) [] acs).isEmpty :=
    hf.children_isEmpty
  obtain ⟨_, f1, cs1, e', _, _, _, hk3⟩ := hf.dict_inv
  injection e' with e1' e2' e3'
  subst e3'
  simp only [baseOf]
  split
  · exact ⟨hke, hke, hk3⟩
  · exact ⟨h.children_isEmpty, hke, h3⟩

theorem mergeF_cong : ∀ (fuel : Nat) (a a' v m : Node) (b : Bool), Dom a → Dom a' → Dom v → noIdiom v = true →
    v.depth < fuel → PermC a a' → mergeF fuel a v = .ok (m, b) →
    ∃ m', mergeF fuel a' v = .ok (m', b) ∧ PermC m m' := by
  intro fuel
  induction fuel with
  | zero => intro a a' v m b _ _ _ _ hd; omega
  | succ fuel ih =>
    intro a a' v m b ha ha' hv hni hd h hm
    by_cases hleaf : a.isComp = false ∨ v.isComp = false
    · have hleaf' : a'.isComp = false ∨ v.isComp = false := by rw [h.isComp_eq]; exact hleaf
      rw [mergeF_leafRule fuel ha.1 hleaf] at hm
      rw [mergeF_leafRule fuel ha'.1 hleaf']
      obtain ⟨l1, l2⟩ := leafRule_cong hv h
      injection hm with hm
      rw [hm] at l1 l2
      exact ⟨(leafRule a' v).1, congrArg Except.ok (Prod.ext rfl l2), l1⟩
    · have hac : a.isComp = true := by
        cases h1 : a.isComp with
        | true => rfl
        | false => exact absurd (.inl h1) hleaf
      have hvc : v.isComp = true := by
        cases h1 : v.isComp with
        | true => rfl
        | false => exact absurd (.inr h1) hleaf
      cases a with
      | leaf f k => simp [Node.isComp] at hac
      | comp af akd acs =>
        obtain rfl := ha.kind
        cases v with
        | leaf g k => simp [Node.isComp] at hvc
        | comp vf vkd vcs =>
          obtain rfl := hv.kind
          obtain ⟨_, af', acs', rfl, hf, h1, h2, h3⟩ := h.dict_inv
          obtain ⟨hbe, hke, hbl⟩ := baseOf_cong h (.comp vf .dict vcs)
          have hpr : hasPrio vf af' true = hasPrio vf af true := (hasPrio_of_coreF rfl hf true).symm
          by_cases hx : eDel (.comp vf .dict vcs) = true ∧
              (keptChildren (maybeKeep (.comp vf .dict vcs)) [] acs).isEmpty = true ∧ hasPrio vf af true = true
          · rw [dict_spec_exit fuel ha hv hx.1 hx.2.1 hx.2.2] at hm
            injection hm with hm
            injection hm with e1 e2
            subst e1; subst e2
            refine ⟨_, dict_spec_exit fuel ha' hv hx.1 (by rw [hke]; exact hx.2.1) (by rw [hpr]; exact hx.2.2), ?_⟩
            apply PermC.propagate_left
            apply PermC.propagate_right
            exact PermC.dict_intro (by rw [coreF_replaceOtherFlags, coreF_replaceOtherFlags]) hv.nodup hv.nodup
              (fun k => hv.reflList k)
          · have hx' : ¬ (eDel (.comp vf .dict vcs) = true ∧
                (keptChildren (maybeKeep (.comp vf .dict vcs)) [] acs').isEmpty = true ∧ hasPrio vf af' true = true) := by
              rw [hke, hpr]; exact hx
            obtain ⟨mcs, hm1, hn1, hs1⟩ := dict_spec_loop (good fuel) ha hv hni hd hx
            obtain ⟨mcs', hm2, hn2, hs2⟩ := dict_spec_loop (good fuel) ha' hv hni hd hx'
            rw [hm1] at hm
            injection hm with hm
            injection hm with e1 e2
            subst e1; subst e2
            refine ⟨_, hm2, ?_⟩
            refine PermC.dict_intro ?_ hn1 hn2 ?_
            · rw [coreF_finishFlags, coreF_finishFlags, hpr, hf]
            · intro k
              have es1 := hs1 k
              have es2 := hs2 k
              have hb := hbl k
              obtain ⟨hbn, hbD⟩ := baseOf_dom ha (.comp vf .dict vcs)
              obtain ⟨hbn', hbD'⟩ := baseOf_dom ha' (.comp vf .dict vcs)
              cases hv' : alookup k vcs with
              | none =>
                rw [hv'] at es1 es2
                simp only [EntrySpec] at es1 es2
                exact es1.transC (hb.transC es2.symmC)
              | some v' =>
                rw [hv'] at es1 es2
                cases hb1 : alookup k (baseOf acs (.comp vf .dict vcs)) with
                | none =>
                  rw [hb1] at es1 hb
                  rw [hb.noneL] at es2
                  simp only [EntrySpec] at es1 es2
                  obtain ⟨y, hy, hyv⟩ := es1
                  obtain ⟨y', hy', hyv'⟩ := es2
                  rw [hy, hy']
                  exact .some (hyv.trans hyv'.symm)
                | some c =>
                  rw [hb1] at es1 hb
                  obtain ⟨c', hc', hcc⟩ := hb.someL
                  rw [hc'] at es2
                  simp only [EntrySpec] at es1 es2
                  obtain ⟨nw, sm, y, hr1, hy, hyn⟩ := es1
                  obtain ⟨nw', sm', y', hr2, hy', hyn'⟩ := es2
                  have hdv : v'.depth < fuel := by
                    have := depth_child (f := vf) (kd := .dict) hv'
                    omega
                  obtain ⟨nw'', hr3, hnn⟩ := ih c c' v' nw sm (hbD k c hb1) (hbD' k c' hc') (hv.child hv')
                    (noIdiom_child hni hv') hdv hcc hr1
                  rw [hr2] at hr3
                  injection hr3 with hr3
                  injection hr3 with e1 _
                  subst e1
                  rw [hy, hy']
                  exact .some ((hyn.trans hnn).trans hyn'.symm)

end AY.C15T
