/-
  AY.Lemmas.C15Flag — data-irrelevance of the `safe` / `allow_new` flags for the building blocks of
  the merge: erasing them (`eraseSN`) commutes with every flag combination and every test the merge
  performs on priorities and `delete`, and never changes the data.
-/
import AY.Lemmas.Native
import AY.Lemmas.C03Leaf
import AY.Lemmas.C15Empty
set_option linter.unusedVariables false
namespace AY

/-- forget `!unsafe` / `!new` / `!notnew` and everything inherited from them -/
def eraseF (f : Flags) : Flags := { f with safe := none, iSafe := none, new := none, iNew := none, dSafe := true }

mutual
def eraseSN : Node → Node
  | .leaf f k => .leaf (eraseF f) k
  | .comp f k cs => .comp (eraseF f) k (eraseSNList cs)
def eraseSNList : List (Key × Node) → List (Key × Node)
  | [] => []
  | (k, c) :: rest => (k, eraseSN c) :: eraseSNList rest
end

mutual
theorem native_eraseSN : ∀ n : Node, native (eraseSN n) = native n
  | .leaf f k => by simp only [eraseSN]; exact native_leaf_flags _ _ _
  | .comp f k cs => by simp [eraseSN, native, nativeList_eraseSN cs, nativeVals_eraseSN cs]
theorem nativeList_eraseSN : ∀ cs : List (Key × Node), nativeList (eraseSNList cs) = nativeList cs
  | [] => rfl
  | (k, c) :: rest => by simp [eraseSNList, nativeList, native_eraseSN c, nativeList_eraseSN rest]
theorem nativeVals_eraseSN : ∀ cs : List (Key × Node), nativeVals (eraseSNList cs) = nativeVals cs
  | [] => rfl
  | (k, c) :: rest => by simp [eraseSNList, nativeVals, native_eraseSN c, nativeVals_eraseSN rest]
end

theorem flags_eraseSN (n : Node) : (eraseSN n).flags = eraseF n.flags := by cases n <;> rfl

theorem eraseSN_setFlags (n : Node) (f : Flags) : eraseSN (n.setFlags f) = (eraseSN n).setFlags (eraseF f) := by
  cases n <;> rfl

theorem isComp_eraseSN (n : Node) : (eraseSN n).isComp = n.isComp := by cases n <;> rfl

theorem ePrio_eraseF (f : Flags) : ePrio (eraseF f) = ePrio f := rfl

theorem hasPrio_eraseF (a b : Flags) (e : Bool) : hasPrio (eraseF a) (eraseF b) e = hasPrio a b e := rfl

theorem eDel_eraseSN (n : Node) : eDel (eraseSN n) = eDel n := by cases n <;> rfl

theorem eNew_eraseF (f : Flags) : eNew (eraseF f) = true := rfl

theorem eSafe_eraseF (f : Flags) : eSafe (eraseF f) = true := rfl

theorem eraseF_replaceOtherFlags (w l : Flags) :
    eraseF (replaceOtherFlags w l) = replaceOtherFlags (eraseF w) (eraseF l) := by
  simp [eraseF, replaceOtherFlags, mergeSafe]

theorem eraseF_replaceSelfFlags (s o : Flags) :
    eraseF (replaceSelfFlags s o) = replaceSelfFlags (eraseF s) (eraseF o) := by
  simp [eraseF, replaceSelfFlags, mergeSafe]

/-- the leaf rule does not look at `safe` / `allow_new`: same winner, and when the surviving node
    is a leaf (nothing below it for `_propagate_implicit_values` to rewrite) erasing commutes -/
theorem leafRule_eraseSN (a b : Node) (h : (leafRule a b).1.isComp = false) :
    leafRule (eraseSN a) (eraseSN b) = (eraseSN (leafRule a b).1, (leafRule a b).2) := by
  by_cases hp : hasPrio a.flags b.flags false = true
  · have e1 : leafRule a b = (propagate (a.setFlags (replaceOtherFlags a.flags b.flags)), true) := by
      simp [leafRule, hp]
    have e2 : leafRule (eraseSN a) (eraseSN b) =
        (propagate ((eraseSN a).setFlags (replaceOtherFlags (eraseF a.flags) (eraseF b.flags))), true) := by
      simp [leafRule, flags_eraseSN, hasPrio_eraseF, hp]
    rw [e1] at h
    rw [e1, e2]
    simp only [isComp_propagate] at h
    cases a with
    | leaf f k => simp only [eraseSN, Node.setFlags, Node.flags, propagate, eraseF_replaceOtherFlags]
    | comp f k cs => cases h
  · have e1 : leafRule a b = (propagate (b.setFlags (replaceOtherFlags b.flags a.flags)), false) := by
      simp [leafRule, hp]
    have e2 : leafRule (eraseSN a) (eraseSN b) =
        (propagate ((eraseSN b).setFlags (replaceOtherFlags (eraseF b.flags) (eraseF a.flags))), false) := by
      simp [leafRule, flags_eraseSN, hasPrio_eraseF, hp]
    rw [e1] at h
    rw [e1, e2]
    simp only [isComp_propagate] at h
    cases b with
    | leaf f k => simp only [eraseSN, Node.setFlags, Node.flags, propagate, eraseF_replaceOtherFlags]
    | comp f k cs => cases h

/-- for ANY two nodes: the same side wins, the flags of the surviving node commute with erasing,
    and the data is the same (the inherited flags `_replace_other` re-propagates below a surviving
    container are not compared) -/
theorem leafRule_eraseSN_root (a b : Node) :
    (leafRule (eraseSN a) (eraseSN b)).2 = (leafRule a b).2 ∧
    (leafRule (eraseSN a) (eraseSN b)).1.flags = eraseF (leafRule a b).1.flags ∧
    native (leafRule (eraseSN a) (eraseSN b)).1 = native (leafRule a b).1 := by
  simp only [leafRule, flags_eraseSN, hasPrio_eraseF]
  split <;>
    simp only [flags_propagate, flags_setFlags, eraseF_replaceOtherFlags, nativeOf_propagate,
      native_setFlags, native_eraseSN, and_self]

theorem alookup_eraseSNList (k : Key) :
    ∀ cs : List (Key × Node), alookup k (eraseSNList cs) = (alookup k cs).map eraseSN
  | [] => rfl
  | (k', c) :: rest => by
    by_cases h : k' = k <;> simp [eraseSNList, alookup, h, alookup_eraseSNList k rest]

theorem firstNotMissing_eraseSN : ∀ (p : Path) (n : Node),
    firstNotMissing (eraseSN n) p = eraseSN (firstNotMissing n p)
  | [], n => by cases n <;> rfl
  | key :: rest, .leaf f k => rfl
  | key :: rest, .comp f k cs => by
    simp only [eraseSN, firstNotMissing, alookup_eraseSNList]
    cases alookup key cs with
    | none => rfl
    | some c => exact firstNotMissing_eraseSN rest c

/-- the pruning conditions of the merge (`maybe_keep`, `keep_if_exists`) only read priorities and
    `delete` -/
theorem maybeKeep_eraseSN (o : Node) (p : Path) (n : Node) :
    maybeKeep (eraseSN o) p (eraseSN n) = maybeKeep o p n := by
  simp only [maybeKeep, firstNotMissing_eraseSN, flags_eraseSN, hasPrio_eraseF]

theorem keepIfExists_eraseSN (s : Node) (p : Path) (n : Node) :
    keepIfExists (eraseSN s) p (eraseSN n) = keepIfExists s p n := by
  simp only [keepIfExists, firstNotMissing_eraseSN, flags_eraseSN, hasPrio_eraseF, eDel_eraseSN]

mutual
theorem allNew_eraseSN : ∀ n : Node, allNew (eraseSN n) = true
  | .leaf f k => rfl
  | .comp f k cs => by simp [eraseSN, allNew, eNew_eraseF, allNewList_eraseSN cs]
theorem allNewList_eraseSN : ∀ cs : List (Key × Node), allNewList (eraseSNList cs) = true
  | [] => rfl
  | (k, c) :: rest => by simp [eraseSNList, allNewList, allNew_eraseSN c, allNewList_eraseSN rest]
end

/-- the inherited `delete` a container hands to its children does not depend on the erased flags -/
theorem childKw_eraseF (f : Flags) (k : CompKind) :
    childKw (eraseF f) k = (childKw f k).map (fun kw => { kw with iNew := none, iSafe := none }) := by
  cases k <;> simp [childKw, eraseF]

theorem truthy_eraseSN (n : Node) : (eraseSN n).truthy = n.truthy := by
  cases n with
  | leaf f k => rfl
  | comp f k cs => cases cs with
    | nil => rfl
    | cons kv rest => obtain ⟨key, c⟩ := kv; rfl

end AY
