/-
  AY.Lemmas.DataTree — trees made of plain mappings, plain lists and scalars only, with pairwise
  distinct sibling keys (`dataT`; flags are arbitrary), and their preservation by the flag
  bookkeeping of the loader.
-/
import AY.Lemmas.PlainInv
namespace AY

mutual
/-- plain containers and scalars only, no duplicate keys among siblings; any flags -/
def dataT : Node → Bool
  | .leaf _ (.scalar _) => true
  | .leaf _ _ => false
  | .comp _ k cs => (k == .dict || k == .list) && keysNodup cs && dataTList cs
def dataTList : List (Key × Node) → Bool
  | [] => true
  | (_, c) :: rest => dataT c && dataTList rest
end

theorem dataT_comp {f k cs} (h : dataT (.comp f k cs) = true) :
    (k = .dict ∨ k = .list) ∧ keysNodup cs = true ∧ dataTList cs = true := by
  simpa [dataT, and_assoc] using h

theorem dataT_leaf {f k} (h : dataT (.leaf f k) = true) : ∃ v, k = .scalar v := by
  cases k <;> simp_all [dataT]

theorem dataT_setFlags {n : Node} (f : Flags) (h : dataT n = true) : dataT (n.setFlags f) = true := by
  cases n with
  | leaf g k => obtain ⟨v, rfl⟩ := dataT_leaf h; rfl
  | comp g k cs => simpa [Node.setFlags, dataT] using h

theorem keysNodup_congr {α β : Type} : ∀ (l₁ : List (Key × α)) (l₂ : List (Key × β)),
    akeys l₁ = akeys l₂ → keysNodup l₁ = keysNodup l₂
  | [], [], _ => rfl
  | [], (k, v) :: r, h => by simp [akeys] at h
  | (k, v) :: r, [], h => by simp [akeys] at h
  | (k₁, v₁) :: r₁, (k₂, v₂) :: r₂, h => by
    simp only [akeys, List.cons.injEq] at h
    simp [keysNodup, h.1, h.2, keysNodup_congr r₁ r₂ h.2]

mutual
theorem dataT_applyKw : ∀ (kw : ChildKw) (n : Node), dataT n = true → dataT (applyKw kw n) = true
  | kw, .leaf f k, h => by obtain ⟨v, rfl⟩ := dataT_leaf h; rfl
  | kw, .comp f k cs, h => by
    obtain ⟨hk, hnd, hcs⟩ := dataT_comp h
    simp only [applyKw]
    split
    · split
      · simpa [dataT] using h
      · rename_i kw' _
        have := dataTList_applyKwList kw' cs hcs
        simp only [dataT, this.1, keysNodup_congr _ _ this.2, hnd, Bool.and_true]
        rcases hk with hk | hk <;> simp [hk]
    · exact h
theorem dataTList_applyKwList : ∀ (kw : ChildKw) (cs : List (Key × Node)), dataTList cs = true →
    dataTList (applyKwList kw cs) = true ∧ akeys (applyKwList kw cs) = akeys cs
  | _, [], _ => ⟨rfl, rfl⟩
  | kw, (k, c) :: rest, h => by
    have h' : dataT c = true ∧ dataTList rest = true := by simpa [dataTList] using h
    have ih := dataTList_applyKwList kw rest h'.2
    simp [applyKwList, dataTList, akeys, dataT_applyKw kw c h'.1, ih.1, ih.2]
end

theorem dataT_propagate {n : Node} (h : dataT n = true) : dataT (propagate n) = true := by
  cases n with
  | leaf f k => simpa [propagate] using h
  | comp f k cs =>
    obtain ⟨hk, hnd, hcs⟩ := dataT_comp h
    simp only [propagate]
    split
    · exact h
    · rename_i kw _
      have := dataTList_applyKwList kw cs hcs
      simp only [dataT, this.1, keysNodup_congr _ _ this.2, hnd, Bool.and_true]
      rcases hk with hk | hk <;> simp [hk]

mutual
theorem dataT_setPrioAll : ∀ (p : Int) (n : Node), dataT n = true → dataT (setPrioAll p n) = true
  | p, .leaf f k, h => by obtain ⟨v, rfl⟩ := dataT_leaf h; rfl
  | p, .comp f k cs, h => by
    obtain ⟨hk, hnd, hcs⟩ := dataT_comp h
    have := dataTList_setPrioAllList p cs hcs
    simp only [setPrioAll, dataT, this.1, keysNodup_congr _ _ this.2, hnd, Bool.and_true]
    rcases hk with hk | hk <;> simp [hk]
theorem dataTList_setPrioAllList : ∀ (p : Int) (cs : List (Key × Node)), dataTList cs = true →
    dataTList (setPrioAllList p cs) = true ∧ akeys (setPrioAllList p cs) = akeys cs
  | _, [], _ => ⟨rfl, rfl⟩
  | p, (k, c) :: rest, h => by
    have h' : dataT c = true ∧ dataTList rest = true := by simpa [dataTList] using h
    have ih := dataTList_setPrioAllList p rest h'.2
    simp [setPrioAllList, dataTList, akeys, dataT_setPrioAll p c h'.1, ih.1, ih.2]
end

theorem dataT_inheritInto (p : Option Int) (kw : Option ChildKw) {n : Node} (h : dataT n = true) :
    dataT (inheritInto p kw n) = true := by
  cases p with
  | none =>
    cases kw with
    | none => exact h
    | some kw => exact dataT_propagate (dataT_setFlags _ h)
  | some p =>
    cases kw with
    | none => exact dataT_setPrioAll p n h
    | some kw => exact dataT_propagate (dataT_setFlags _ (dataT_setPrioAll p n h))

theorem dataT_adopt (pf : Flags) (pk : CompKind) {n : Node} (h : dataT n = true) :
    dataT (adopt pf pk n) = true := by
  simp only [adopt]
  exact dataT_propagate (dataT_inheritInto none _ h)

/-! ### numbered lists have distinct keys -/

theorem listKeys_ge : ∀ (i : Nat) (cs : List (Key × Node)), listKeys i cs = true →
    ∀ k, k ∈ akeys cs → ∃ j : Nat, i ≤ j ∧ k = Key.int (j : Int)
  | _, [], _, k, hk => by simp [akeys] at hk
  | i, (k', c) :: rest, h, k, hk => by
    have h' : k' = Key.int (i : Int) ∧ listKeys (i + 1) rest = true := by simpa [listKeys] using h
    simp only [akeys, List.mem_cons] at hk
    rcases hk with hk | hk
    · exact ⟨i, Nat.le_refl _, hk.trans h'.1⟩
    · obtain ⟨j, hj, e⟩ := listKeys_ge (i + 1) rest h'.2 k hk
      exact ⟨j, by omega, e⟩

theorem listKeys_nodup : ∀ (i : Nat) (cs : List (Key × Node)), listKeys i cs = true → keysNodup cs = true
  | _, [], _ => rfl
  | i, (k', c) :: rest, h => by
    have h' : k' = Key.int (i : Int) ∧ listKeys (i + 1) rest = true := by simpa [listKeys] using h
    simp only [keysNodup, listKeys_nodup (i + 1) rest h'.2, Bool.and_true, Bool.not_eq_true']
    apply Bool.eq_false_iff.2
    intro hc
    have hc' : k' ∈ akeys rest := by simpa using hc
    obtain ⟨j, hj, e⟩ := listKeys_ge (i + 1) rest h'.2 k' hc'
    rw [h'.1] at e
    have := Key.int.inj e
    omega

end AY
