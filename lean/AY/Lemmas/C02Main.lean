/-
  AY.Lemmas.C02Main — the key loop of a mapping merged onto a list, and the main induction:
  `mergeF` on tag-free trees is `updF` on their data.
-/
import AY.Lemmas.C02Merge
namespace AY

/-! ### the key loop on a list -/

/-- relation for the loop results (mapping onto list); the length never changes -/
def LRelL (len : Nat) (x : Except Err (List (Key × Node))) (y : Except Err (List Plain)) : Prop :=
  match x, y with
  | .ok acc, .ok ps =>
    plainTList acc = true ∧ listKeys 0 acc = true ∧ acc.length = len ∧ nativeVals acc = ps
  | .error e, .error e' => e = .merge ∧ e' = .merge
  | _, _ => False

theorem setChild_list {sf : Flags} {k : Key} {i : Nat} (v : Node) {acc : List (Key × Node)}
    (h : validateIndex acc.length true k = some i) :
    setChild sf .list k v acc = .ok (aset (.int (i : Int)) (adopt sf .list v) acc) := by
  simp [setChild, CompKind.isDictFam, validateIndex_lax_of_strict h]

theorem replaceChild_list {k : Key} {i : Nat} (v : Node) {acc : List (Key × Node)}
    (h : validateIndex acc.length true k = some i) :
    replaceChild .list k v acc = aset (.int (i : Int)) v acc := by
  simp [replaceChild, CompKind.isDictFam, h]

theorem mergeStep_list {d : Nat} {rec srec} (H : RecOK d rec srec) {sf : Flags} (hsf : flagsPlain sf = true)
    {acc : List (Key × Node)} (hacc : plainTList acc = true) (hkeys : listKeys 0 acc = true)
    {k : Key} {v : Node} {i : Nat} (hi : listIndex acc.length k = some i)
    (hv : plainO v = true) (hdv : v.depth ≤ d) :
    ∃ va, (nativeVals acc)[i]? = some va ∧
      LRelL acc.length (mergeStep rec sf .list [] acc (k, v))
        (match srec va (native v) with
         | .error e => .error e
         | .ok p => .ok (setAt i p (nativeVals acc))) := by
  have hvT : plainT v = true := ((plainO_iff v).1 hv).1
  have hlt : i < acc.length := listIndex_lt hi
  have hvi : validateIndex acc.length true k = some i := by rw [validateIndex_strict]; exact hi
  obtain ⟨child, hl, hnv⟩ := listKeys_lookup acc 0 i hkeys hlt
  rw [Nat.zero_add] at hl
  have hsome : (alookup (.int (i : Int)) acc).isSome = true := by rw [hl]; rfl
  have hres : ∀ x, plainT x = true →
      plainTList (aset (.int (i : Int)) x acc) = true ∧ listKeys 0 (aset (.int (i : Int)) x acc) = true ∧
      (aset (.int (i : Int)) x acc).length = acc.length ∧
      nativeVals (aset (.int (i : Int)) x acc) = setAt i (native x) (nativeVals acc) := by
    intro x hx
    refine ⟨aset_plainT _ x hx acc hacc, listKeys_aset _ x 0 acc hkeys hsome,
      length_aset_of_some _ x acc hsome, ?_⟩
    have := listKeys_nativeVals_aset x acc 0 i hkeys hlt
    rwa [Nat.zero_add] at this
  have had : ∀ x, plainT x = true → plainT (adopt sf .list x) = true :=
    fun x hx => plainT_adopt hsf (.inr rfl) hx
  refine ⟨native child, hnv, ?_⟩
  have hchild : plainT child = true := alookup_plainT _ acc hacc child hl
  have hrel := H child v hchild hv hdv
  have hg : getChild .list k acc = some child := by
    simp [getChild, CompKind.isDictFam, hvi, hl]
  simp only [mergeStep, hg]
  cases hm : rec child v with
  | error e =>
    cases hs : srec (native child) (native v) with
    | error e' =>
      simp only [hm, hs, MRel] at hrel
      simp [LRelL, hrel.1, hrel.2, Err.prepend]
    | ok p => simp [hm, hs, MRel] at hrel
  | ok res =>
    obtain ⟨nw, same⟩ := res
    cases hs : srec (native child) (native v) with
    | error e' => simp [hm, hs, MRel] at hrel
    | ok p =>
      simp only [hm, hs, MRel] at hrel
      obtain ⟨hnw, hnat⟩ := hrel
      have e1 : (v.flags.del == some true) = false := by rw [del_none_of_plainT hvT]; rfl
      have e2 : (nw.flags.del == some true) = false := by rw [del_none_of_plainT hnw]; rfl
      simp only [e1, e2, Bool.and_false, reqNewBelow_plainT hnw, setChild_list _ hvi,
        replaceChild_list _ hvi, Bool.false_eq_true, if_false]
      subst hnat
      have r1 := hres nw hnw
      have r2 := hres _ (had nw hnw)
      rw [native_adopt] at r2
      cases child.isComp <;> cases same <;> simp [LRelL, r1, r2]

theorem mergeLoop_list {d : Nat} {rec srec} (H : RecOK d rec srec) {sf : Flags} (hsf : flagsPlain sf = true) :
    ∀ (ocs acc : List (Key × Node)), plainTList acc = true → listKeys 0 acc = true →
      plainTList ocs = true → dictsLiveList ocs = true → depthList ocs ≤ d →
      allIndices acc.length (nativeList ocs) = true →
      LRelL acc.length (mergeLoop rec sf .list [] acc ocs)
        (updF.updList srec (nativeVals acc) (nativeList ocs))
  | [], acc, hacc, hk, _, _, _, _ => by simp [mergeLoop, nativeList, updF.updList, LRelL, hacc, hk]
  | (k, v) :: rest, acc, hacc, hk, ho, hl, hd, hidx => by
    have ho' : plainT v = true ∧ plainTList rest = true := by simpa [plainTList] using ho
    have hl' : dictsLive v = true ∧ dictsLiveList rest = true := by simpa [dictsLiveList] using hl
    have hd' : v.depth ≤ d ∧ depthList rest ≤ d := by
      simp only [depthList] at hd; omega
    have hidx' : (listIndex acc.length k).isSome = true ∧ allIndices acc.length (nativeList rest) = true := by
      simpa [nativeList, allIndices] using hidx
    obtain ⟨i, hi⟩ := Option.isSome_iff_exists.1 hidx'.1
    have hv : plainO v = true := (plainO_iff v).2 ⟨ho'.1, hl'.1⟩
    obtain ⟨va, hva, hstep⟩ := mergeStep_list H hsf hacc hk (k := k) hi hv hd'.1
    simp only [mergeLoop, nativeList, updF.updList, length_nativeVals, hi, hva]
    cases hm : mergeStep rec sf .list [] acc (k, v) with
    | error e =>
      rw [hm] at hstep
      cases hs : srec va (native v) with
      | error e' => simpa [hs, LRelL] using hstep
      | ok p => simp [hs, LRelL] at hstep
    | ok acc1 =>
      rw [hm] at hstep
      cases hs : srec va (native v) with
      | error e' => simp [hs, LRelL] at hstep
      | ok p =>
        simp only [hs, LRelL] at hstep ⊢
        obtain ⟨s1, s2, s3, s4⟩ := hstep
        rw [← s4, ← s3]
        exact mergeLoop_list H hsf rest acc1 s1 s2 ho'.2 hl'.2 hd'.2 (by rw [s3]; exact hidx'.2)

/-! ### main induction -/

theorem dictsLive_dict {f cs} (h : dictsLive (.comp f .dict cs) = true) :
    f.iDel = none ∧ dictsLiveList cs = true := by
  simpa [dictsLive] using h

/-- With fuel above the depth of `b` on both sides, the model's merge of tag-free trees and the
    specification's recursive update agree: both succeed with the same data (and the result is
    again a tag-free tree), or both fail with a MergeError. -/
theorem mergeF_plain : ∀ (n m : Nat) (a b : Node), plainT a = true → plainO b = true →
    b.depth < n → b.depth < m → MRel (mergeF n a b) (updF m (native a) (native b)) := by
  intro n
  induction n with
  | zero => intro m a b _ _ h; omega
  | succ n ih =>
    intro m a b ha hb hn hm
    obtain ⟨m, rfl⟩ : ∃ m', m = m' + 1 := ⟨m - 1, by omega⟩
    have hbT : plainT b = true := ((plainO_iff b).1 hb).1
    have hbL : dictsLive b = true := ((plainO_iff b).1 hb).2
    cases a with
    | leaf fa ka =>
      obtain ⟨va, rfl, hfa⟩ := plainT_leaf ha
      obtain ⟨r, e, hr, hnat⟩ := leafRule_plain ha hbT
      simp only [mergeF, e, native, updF_scalar_left, MRel]
      exact ⟨hr, hnat⟩
    | comp fa ka ca =>
      obtain ⟨hfa, hka, hca⟩ := plainT_comp ha
      -- the three shapes of `other`, independent of the class of `self`
      have key : ∀ (hk2 : ka = .dict ∨ ka = .list),
          (∀ fb cb, b = .comp fb .dict cb → ka = .list → allIndices ca.length (nativeList cb) = true) →
          MRel (compMerge (mergeF n) fa ka ca b) (updF (m + 1) (native (.comp fa ka ca)) (native b)) := by
        intro hk2 hvalid
        cases b with
        | leaf fb kb =>
          obtain ⟨vb, rfl, hfb⟩ := plainT_leaf hbT
          obtain ⟨r, e, hr, hnat⟩ := leafRule_plain ha hbT
          simp only [compMerge, e, updF_scalar_right, MRel, native]
          exact ⟨hr, hnat⟩
        | comp fb kb cb =>
          obtain ⟨hfb, hkb, hcb⟩ := plainT_comp hbT
          rcases hkb with hkb | ⟨hkb, hkeysb⟩
          · -- live mapping: key loop
            subst hkb
            obtain ⟨hdl, hcl⟩ := dictsLive_dict hbL
            have hdep : depthList cb < n ∧ depthList cb < m := by
              simp only [Node.depth] at hn hm; omega
            have H : RecOK (depthList cb) (mergeF n) (updF m) := by
              intro a' b' ha' hb' hd'
              exact ih m a' b' ha' hb' (by omega) (by omega)
            rw [compMerge_dictOther (mergeF n) hfa hk2 hfb hdl]
            have hflags := replaceSelfFlags_plain hfa hfb
            rcases hka with hka | ⟨hka, hkeysa⟩
            · subst hka
              have hloop := mergeLoop_dict H hfa cb ca hca hcb hcl (Nat.le_refl _)
              simp only [native, CompKind.isDictFam, if_true, updF_dict_dict]
              cases hml : mergeLoop (mergeF n) fa .dict [] ca cb with
              | error e =>
                cases hsl : updF.updDict (updF m) (nativeList ca) (nativeList cb) with
                | error e' => simpa [hml, hsl, LRelD, MRel, Except.map] using hloop
                | ok ps => simp [hml, hsl, LRelD] at hloop
              | ok acc =>
                cases hsl : updF.updDict (updF m) (nativeList ca) (nativeList cb) with
                | error e' => simp [hml, hsl, LRelD] at hloop
                | ok ps =>
                  simp only [hml, hsl, LRelD] at hloop
                  simp only [MRel, Except.map, nativeOf_propagate, native, CompKind.isDictFam, if_true,
                    hloop.2, and_true]
                  apply plainT_propagate
                  simp [plainT, hflags.1, hloop.1]
            · subst hka
              simp only [native, CompKind.isDictFam, if_true, Bool.false_eq_true, if_false,
                updF_list_dict, length_nativeVals]
              have hidx : allIndices ca.length (nativeList cb) = true := hvalid fb cb rfl rfl
              have hloop := mergeLoop_list H hfa cb ca hca hkeysa hcb hcl (Nat.le_refl _) hidx
              simp only [hidx, if_true]
              cases hml : mergeLoop (mergeF n) fa .list [] ca cb with
              | error e =>
                cases hsl : updF.updList (updF m) (nativeVals ca) (nativeList cb) with
                | error e' => simpa [hml, hsl, LRelL, MRel, Except.map] using hloop
                | ok ps => simp [hml, hsl, LRelL] at hloop
              | ok acc =>
                cases hsl : updF.updList (updF m) (nativeVals ca) (nativeList cb) with
                | error e' => simp [hml, hsl, LRelL] at hloop
                | ok ps =>
                  simp only [hml, hsl, LRelL] at hloop
                  simp only [MRel, Except.map, nativeOf_propagate, native, CompKind.isDictFam,
                    Bool.false_eq_true, if_false, hloop.2.2.2, and_true]
                  apply plainT_propagate
                  simp [plainT, hflags.1, hloop.1, hloop.2.1]
          · -- list: deleting
            subst hkb
            rw [compMerge_listOther (mergeF n) ha hbT]
            simp only [nativeOf_propagate, native, CompKind.isDictFam, Bool.false_eq_true, if_false,
              updF_list_right, MRel, and_true]
            apply plainT_propagate
            have := (replaceOtherFlags_plain hfb hfa).1
            simp only [plainT, this, Bool.true_and]
            simpa [plainT, hfb] using hbT
      rcases hka with hka | ⟨hka, hkeysa⟩
      · subst hka
        simp only [mergeF]
        exact key (.inl rfl) (fun _ _ _ h => by cases h)
      · subst hka
        simp only [mergeF]
        cases b with
        | leaf fb kb =>
          simp only [listMerge]
          exact key (.inr rfl) (fun _ _ h _ => by cases h)
        | comp fb kb cb =>
          obtain ⟨hfb, hkb, hcb⟩ := plainT_comp hbT
          have hfil := filterNode_always (keepIfExists (.comp fa .list ca)) (keepIfExists_plain ha) []
            _ hbT
          simp only [listMerge, hfil]
          rcases hkb with hkb | ⟨hkb, hkeysb⟩
          · subst hkb
            obtain ⟨hdl, hcl⟩ := dictsLive_dict hbL
            simp only [CompKind.isDictFam, eDel_dict_live hfb hdl, Bool.not_false, Bool.true_and,
              listKeysValid_eq]
            by_cases hidx : allIndices ca.length (nativeList cb) = true
            · simp only [hidx, Bool.not_true, Bool.false_eq_true, if_false]
              exact key (.inr rfl) (fun fb' cb' h _ => by cases h; exact hidx)
            · simp only [hidx, Bool.not_false, if_true, native, CompKind.isDictFam,
                Bool.false_eq_true, if_false, updF_list_dict, length_nativeVals, MRel, and_self]
          · subst hkb
            simp only [CompKind.isDictFam, Bool.false_and, Bool.false_eq_true, if_false]
            exact key (.inr rfl) (fun _ _ h _ => by cases h)

end AY
