/-
  AY.Lemmas.C04PathProtect — one merge of two plain mappings, key by key, as data (`compMerge_dict_at`),
  the survival of a protected leaf through the pruning (`filter_keeps`) and through any merge along
  mappings (`protected_survives`); helpers for AY.Props.C04_AtPath.
-/
import AY.Lemmas.C04Path
namespace AY.C04P

/-! ### shapes -/

theorem propagate_comp (f : Flags) (k : CompKind) (cs : List (Key × Node)) :
    ∃ cs', propagate (.comp f k cs) = .comp f k cs' := by
  simp only [propagate]
  split
  · exact ⟨_, rfl⟩
  · exact ⟨_, rfl⟩

/-- two plain mappings merge into a plain mapping -/
theorem compMerge_dict_shape (rec : Node → Node → Except Err (Node × Bool)) (sf of : Flags)
    (scs ocs : List (Key × Node)) (hns : keysNodup scs = true) (hno : keysNodup ocs = true) (r : Node) (s : Bool)
    (h : compMerge rec sf .dict scs (.comp of .dict ocs) = .ok (r, s)) : ∃ F cs, r = .comp F .dict cs := by
  cases hd : eDel (.comp of .dict ocs) with
  | false =>
    obtain ⟨scs', hr, _⟩ := compMerge_live_children rec sf of scs ocs hd hns hno r s h
    obtain ⟨cs', hcs'⟩ := propagate_comp (finishFlags sf of) .dict scs'
    exact ⟨_, cs', by rw [hr, hcs']⟩
  | true =>
    rw [c04_compMerge_del_dict rec hd rfl hns] at h
    split at h
    · split at h
      · cases h
      · simp only [maybePromote, CompKind.sameClass, if_true, Except.ok.injEq, Prod.mk.injEq] at h
        obtain ⟨cs', hcs'⟩ := propagate_comp (replaceOtherFlags of sf) .dict ocs
        exact ⟨_, cs', by rw [← h.1, hcs']⟩
    · split at h
      · cases h
      · rw [finishMerge_dict] at h
        simp only [Except.ok.injEq, Prod.mk.injEq] at h
        rename_i scs' _
        obtain ⟨cs', hcs'⟩ := propagate_comp (finishFlags sf of) .dict scs'
        exact ⟨_, cs', by rw [← h.1, hcs']⟩

/-- a mapping that holds data below one of its keys is truthy -/
theorem truthy_of_at {F : Flags} {cs : List (Key × Node)} {k : Key} {q : Path} {x : Plain}
    (h : (native (.comp F .dict cs)).at? (k :: q) = some x) : (Node.comp F .dict cs).truthy = true := by
  rw [at_native_dict] at h
  cases cs with
  | nil => simp [alookup] at h
  | cons a rest => rfl

/-! ### one merge of two plain mappings, key by key -/

/-- the entries the key loop starts from: the survivors of the pruning under a deleting `other` -/
def baseOf (scs : List (Key × Node)) (o : Node) : List (Key × Node) :=
  if eDel o then keptChildren (maybeKeep o) [] scs else scs

/-- the `exceptions` of `_require_all_new`: the removed paths under a deleting `other` -/
def excOf (sf : Flags) (scs : List (Key × Node)) (o : Node) : List Path :=
  if eDel o then (filterNode (maybeKeep o) [] (.comp sf .dict scs)).2 else []

/-- KEY-WISE: after a successful merge of two plain mappings the data at and below every key is the
    data of the surviving older entry (key not in the newer mapping) or of ONE iteration of the key
    loop on the surviving older entry and the newer value -/
theorem compMerge_dict_at (rec : Node → Node → Except Err (Node × Bool)) (sf of : Flags)
    (scs ocs : List (Key × Node)) (hns : keysNodup scs = true) (hno : keysNodup ocs = true) (r : Node) (s : Bool)
    (h : compMerge rec sf .dict scs (.comp of .dict ocs) = .ok (r, s)) (k : Key) :
    match alookup k ocs with
    | none => ∀ q, (native r).at? (k :: q) =
        ((alookup k (baseOf scs (.comp of .dict ocs))).map native).bind (Plain.at? q)
    | some v => ∃ x?, stepAt rec sf (excOf sf scs (.comp of .dict ocs)) k
          (alookup k (baseOf scs (.comp of .dict ocs))) v = .ok x? ∧
        ∀ q, (native r).at? (k :: q) = (x?.map native).bind (Plain.at? q) := by
  cases hd : eDel (.comp of .dict ocs) with
  | false =>
    obtain ⟨scs', hr, hpt⟩ := compMerge_live_children rec sf of scs ocs hd hns hno r s h
    have hk := hpt k
    simp only [baseOf, excOf, hd, Bool.false_eq_true, if_false]
    cases hv : alookup k ocs with
    | none =>
      rw [hv] at hk
      simp only at hk ⊢
      intro q
      rw [hr, at_propagate_dict, hk]
    | some v =>
      rw [hv] at hk
      simp only at hk ⊢
      refine ⟨_, hk, ?_⟩
      intro q
      rw [hr, at_propagate_dict]
  | true =>
    obtain ⟨F, cs, rfl⟩ := compMerge_dict_shape rec sf of scs ocs hns hno r s h
    have hk := (compMerge_del_spec rec sf of scs ocs hd hns hno).2 _ s h k
    simp only [baseOf, excOf, hd, if_true]
    cases hv : alookup k ocs with
    | none =>
      rw [hv] at hk
      simp only [Node.children] at hk ⊢
      intro q
      rw [at_native_dict, hk]
    | some v =>
      rw [hv] at hk
      simp only [Node.children] at hk ⊢
      obtain ⟨x?, hx, hl⟩ := hk
      refine ⟨x?, hx, ?_⟩
      intro q
      rw [at_native_dict, hl]

/-! ### data along mappings -/

theorem getNode_at : ∀ (q : Path) (n m : Node), dictAlong q n = true → getNode n q = some m →
    (native n).at? q = some (native m)
  | [], n, m, _, h => by
    simp only [getNode, Option.some.injEq] at h
    subst h
    rfl
  | k :: q, n, m, hd, h => by
    obtain ⟨f, cs, rfl, _, hc⟩ := dictAlong_cons hd
    obtain ⟨c, hl, hg⟩ := getNode_cons_dict h
    rw [at_native_dict, hl]
    simp only [Option.map_some, Option.bind_some]
    exact getNode_at q c m (hc c hl) hg

/-! ### the pruning keeps a protected leaf where it is -/

/-- the surviving entry of a key, any prefix -/
theorem alookup_keptChildren_pre (cond : Path → Node → Bool) (pre : Path) (k : Key) :
    ∀ cs : List (Key × Node), keysNodup cs = true →
      alookup k (keptChildren cond pre cs) =
        (alookup k cs).bind (fun c =>
          if cond (pre ++ [k]) c || (c.isComp && !(filterNode cond (pre ++ [k]) c).1.children.isEmpty) then
            some (filterNode cond (pre ++ [k]) c).1
          else none)
  | [], _ => rfl
  | (name, child) :: rest, h => by
    have h' : name ∉ akeys rest ∧ keysNodup rest = true := by simpa [keysNodup] using h
    by_cases e : name = k
    · subst e
      have hnone : alookup name (keptChildren cond pre rest) = none := by
        apply (alookup_none_iff name _).2
        cases hc : (akeys (keptChildren cond pre rest)).contains name with
        | false => rfl
        | true =>
          have hm : name ∈ akeys (keptChildren cond pre rest) := by simpa using hc
          exact absurd (akeys_keptChildren_sub cond pre rest name hm) h'.1
      simp only [keptChildren, alookup, if_true, Option.bind]
      split
      · simp [alookup]
      · exact hnone
    · simp only [keptChildren, alookup, e, if_false]
      split
      · simp only [alookup, e, if_false]
        exact alookup_keptChildren_pre cond pre k rest h'.2
      · exact alookup_keptChildren_pre cond pre k rest h'.2

theorem children_ne_of_getNode {c : Node} {k : Key} {q : Path} {m : Node} (h : getNode c (k :: q) = some m) :
    c.children.isEmpty = false := by
  cases c with
  | leaf _ _ => simp [getNode] at h
  | comp f ck cs =>
    obtain ⟨c1, hl, _⟩ := getNode_cons_dict h
    cases cs with
    | nil => simp [alookup] at hl
    | cons a rest => rfl

/-- SURVIVAL THROUGH THE PRUNING: a leaf for which the condition holds, reached through mappings, is
    found at the same path of the filtered tree -/
theorem filter_keeps (cond : Path → Node → Bool) : ∀ (q : Path) (pre : Path) (c m : Node), q ≠ [] →
    dictAlong q c = true → getNode c q = some m → m.isComp = false → cond (pre ++ q) m = true →
    dictAlong q (filterNode cond pre c).1 = true ∧ getNode (filterNode cond pre c).1 q = some m
  | [], _, _, _, h, _, _, _, _ => absurd rfl h
  | k :: q, pre, c, m, _, hd, hg, hm, hc => by
    obtain ⟨f, cs, rfl, hn, hcd⟩ := dictAlong_cons hd
    obtain ⟨c1, hl, hg1⟩ := getNode_cons_dict hg
    rw [c04_filterNode_dict_kept cond pre f .dict cs rfl hn]
    have hnk := keysNodup_keptChildren cond pre cs hn
    have hlk := alookup_keptChildren_pre cond pre k cs hn
    rw [hl] at hlk
    simp only [Option.bind] at hlk
    -- the child is kept, and the leaf is found in what is kept of it
    have hkept : (cond (pre ++ [k]) c1 || (c1.isComp && !(filterNode cond (pre ++ [k]) c1).1.children.isEmpty)) = true ∧
        dictAlong q (filterNode cond (pre ++ [k]) c1).1 = true ∧
        getNode (filterNode cond (pre ++ [k]) c1).1 q = some m := by
      cases q with
      | nil =>
        simp only [getNode, Option.some.injEq] at hg1
        subst hg1
        have hc' : cond (pre ++ [k]) c1 = true := hc
        cases c1 with
        | comp _ _ _ => simp [Node.isComp] at hm
        | leaf lf lk => exact ⟨by simp [hc'], rfl, by simp [filterNode, getNode]⟩
      | cons k1 q1 =>
        have hc' : cond ((pre ++ [k]) ++ k1 :: q1) m = true := by simpa using hc
        obtain ⟨i1, i2⟩ := filter_keeps cond (k1 :: q1) (pre ++ [k]) c1 m (by simp) (hcd c1 hl) hg1 hm hc'
        refine ⟨?_, i1, i2⟩
        rw [isComp_of_getNode_cons hg1, children_ne_of_getNode i2]
        simp
    rw [hkept.1] at hlk
    simp only [if_true] at hlk
    constructor
    · simp only [dictAlong, hnk, hlk, Bool.true_and]
      exact hkept.2.1
    · simp only [getNode, hlk]
      exact hkept.2.2

theorem maybeKeep_of_protected {d : Node} {q : Path} {m : Node} (h : protectedAt d q m = true) :
    maybeKeep d q m = true := by
  simp only [protectedAt, decide_eq_true_eq] at h
  simp only [maybeKeep, hasPrio]
  have : ¬ ePrio m.flags = ePrio (firstNotMissing d q).flags := by omega
  simp only [this, if_false, decide_eq_true_eq]
  omega

theorem maybeKeep_iff (d : Node) (q : Path) (m : Node) :
    maybeKeep d q m = true ↔ ePrio (firstNotMissing d q).flags < ePrio m.flags := by
  simp only [maybeKeep, hasPrio]
  split
  · rename_i he; simp [he]
  · simp

/-- an entry `c` stored under `k2` is dropped by the pruning under a deleting `d` exactly when neither
    `c` nor any node below it (mappings with distinct keys) outranks its deepest existing counterpart -/
theorem keptAt_none_iff (d : Node) (k2 : Key) (c : Node) (hd : dictTree c = true) :
    keptAt (maybeKeep d) k2 c = none ↔
      ∀ q m, getNode c q = some m → ¬ ePrio (firstNotMissing d (k2 :: q)).flags < ePrio m.flags := by
  have hB : (c.isComp && !(filterNode (maybeKeep d) [k2] c).1.children.isEmpty) = true ↔
      ∃ q m, q ≠ [] ∧ getNode c q = some m ∧ ePrio (firstNotMissing d (k2 :: q)).flags < ePrio m.flags := by
    cases c with
    | leaf f lk =>
      constructor
      · intro h; simp [Node.isComp] at h
      · rintro ⟨q, m, hq, hg, _⟩
        cases q with
        | nil => exact absurd rfl hq
        | cons a b => simp [getNode] at hg
    | comp f ck cs =>
      have := c04_filter_nonempty_iff (maybeKeep d) [k2] (.comp f ck cs) hd
      simp only [Node.isComp, Bool.true_and, Bool.not_eq_true', List.isEmpty_eq_false_iff]
      rw [this]
      constructor
      · rintro ⟨q, m, hq, hg, hc⟩
        exact ⟨q, m, hq, hg, (maybeKeep_iff d _ m).1 (by simpa using hc)⟩
      · rintro ⟨q, m, hq, hg, hc⟩
        exact ⟨q, m, hq, hg, by simpa using (maybeKeep_iff d _ m).2 hc⟩
  constructor
  · intro h q m hg hlt
    have h' : (maybeKeep d [k2] c || (c.isComp && !(filterNode (maybeKeep d) [k2] c).1.children.isEmpty)) = false := by
      cases hc : (maybeKeep d [k2] c || (c.isComp && !(filterNode (maybeKeep d) [k2] c).1.children.isEmpty)) with
      | false => rfl
      | true => simp [keptAt, hc] at h
    simp only [Bool.or_eq_false_iff] at h'
    cases q with
    | nil =>
      simp only [getNode, Option.some.injEq] at hg
      subst hg
      have := (maybeKeep_iff d [k2] c).2 hlt
      rw [h'.1] at this
      cases this
    | cons a q1 =>
      have := hB.2 ⟨a :: q1, m, by simp, hg, hlt⟩
      rw [h'.2] at this
      cases this
  · intro h
    have hA : maybeKeep d [k2] c = false := by
      cases hc : maybeKeep d [k2] c with
      | false => rfl
      | true => exact absurd ((maybeKeep_iff d [k2] c).1 hc) (h [] c rfl)
    have hB' : (c.isComp && !(filterNode (maybeKeep d) [k2] c).1.children.isEmpty) = false := by
      cases hc : (c.isComp && !(filterNode (maybeKeep d) [k2] c).1.children.isEmpty) with
      | false => rfl
      | true =>
        obtain ⟨q, m, _, hg, hlt⟩ := hB.1 hc
        exact absurd hlt (h q m hg)
    simp [keptAt, hA, hB']

/-! ### a protected leaf survives any merge along mappings -/

/-- SURVIVAL THROUGH THE MERGE: a leaf of the older tree reached through plain mappings whose priority is
    strictly above that of its deepest existing counterpart in the newer tree, the newer tree consisting
    of plain mappings along that path as far as it exists (no scalar, no list on the way — D29): after
    a successful merge the leaf's data is at its path, whatever the delete flags on the way are -/
theorem protected_survives : ∀ (q : Path) (fuel : Nat) (e d r : Node) (b : Bool) (m : Node), q ≠ [] →
    dictAlong q e = true → dictAlong q d = true → getNode e q = some m → m.isComp = false →
    protectedAt d q m = true → mergeF fuel e d = .ok (r, b) →
    (native r).at? q = some (native m)
  | [], _, _, _, _, _, _, h, _, _, _, _, _, _ => absurd rfl h
  | k :: q, fuel, e, d, r, b, m, _, he, hd, hg, hm, hprot, h => by
    obtain ⟨ef, ecs, rfl, hne, hec⟩ := dictAlong_cons he
    obtain ⟨df, dcs, rfl, hnd, hdc⟩ := dictAlong_cons hd
    cases fuel with
    | zero => simp [mergeF] at h
    | succ fuel =>
    simp only [mergeF] at h
    -- the entry the key loop starts from holds the leaf
    have hbase : ∃ c, alookup k (baseOf ecs (.comp df .dict dcs)) = some c ∧ dictAlong q c = true ∧
        getNode c q = some m := by
      obtain ⟨c1, hl, hg1⟩ := getNode_cons_dict hg
      cases hdel : eDel (.comp df .dict dcs) with
      | false =>
        simp only [baseOf, hdel, Bool.false_eq_true, if_false]
        exact ⟨c1, hl, hec c1 hl, hg1⟩
      | true =>
        simp only [baseOf, hdel, if_true]
        obtain ⟨i1, i2⟩ := filter_keeps (maybeKeep (.comp df .dict dcs)) (k :: q) [] _ m (by simp) he hg hm
          (maybeKeep_of_protected hprot)
        rw [c04_filterNode_dict_kept _ [] ef .dict ecs rfl hne] at i1 i2
        obtain ⟨c, hlc, hgc⟩ := getNode_cons_dict i2
        obtain ⟨_, _, hsh, _, hcc⟩ := dictAlong_cons i1
        injection hsh with _ _ hsh
        subst hsh
        exact ⟨c, hlc, hcc c hlc, hgc⟩
    obtain ⟨c, hlc, hcd, hgc⟩ := hbase
    have hat := compMerge_dict_at (mergeF fuel) ef df ecs dcs hne hnd r b h k
    cases hv : alookup k dcs with
    | none =>
      rw [hv] at hat
      simp only at hat
      rw [hat q, hlc]
      simp only [Option.map_some, Option.bind_some]
      exact getNode_at q c m hcd hgc
    | some v =>
      rw [hv] at hat
      simp only at hat
      obtain ⟨x?, hx, hq⟩ := hat
      rw [hlc] at hx
      obtain ⟨nw, same, hmr, hdata⟩ := stepAt_some_data hx
      have hfnm : firstNotMissing (.comp df .dict dcs) (k :: q) = firstNotMissing v q := by
        simp only [firstNotMissing, hv]
      cases q with
      | nil =>
        simp only [getNode, Option.some.injEq] at hgc
        subst hgc
        cases c with
        | comp _ _ _ => simp [Node.isComp] at hm
        | leaf cf clk =>
          cases fuel with
          | zero => simp [mergeF] at hmr
          | succ fuel =>
            have hwin : hasPrio (Node.leaf cf clk).flags v.flags false = true := by
              have := maybeKeep_of_protected hprot
              rw [maybeKeep, hfnm] at this
              exact this
            simp only [mergeF, leafRule, hwin, if_true, Except.ok.injEq, Prod.mk.injEq] at hmr
            obtain ⟨rfl, rfl⟩ := hmr
            have hnr : stepRemovesB (.leaf cf clk) v
                (propagate ((Node.leaf cf clk).setFlags (replaceOtherFlags (Node.leaf cf clk).flags v.flags))) true = false := by
              simp [stepRemovesB, Node.isComp]
            rw [hq [], hdata, hnr]
            simp only [Bool.false_eq_true, if_false, Option.bind_some, Plain.at?]
            rw [nativeOf_propagate, native_setFlags]
      | cons k1 q1 =>
        have hprot' : protectedAt v (k1 :: q1) m = true := by
          simpa [protectedAt, hfnm] using hprot
        have hvd := hdc v hv
        have ih := protected_survives (k1 :: q1) fuel c v nw same m (by simp) hcd hvd hgc hm hprot' hmr
        -- the merged entry is a non-empty mapping: it is not removed
        obtain ⟨cf, ccs, rfl, hnc, _⟩ := dictAlong_cons hcd
        obtain ⟨vf, vcs, rfl, hnv, _⟩ := dictAlong_cons hvd
        cases fuel with
        | zero => simp [mergeF] at hmr
        | succ fuel =>
          simp only [mergeF] at hmr
          obtain ⟨F, cs, rfl⟩ := compMerge_dict_shape _ cf vf ccs vcs hnc hnv nw same hmr
          have htr := truthy_of_at ih
          have hnr : stepRemovesB (.comp cf .dict ccs) (.comp vf .dict vcs) (.comp F .dict cs) same = false := by
            simp [stepRemovesB, Node.isComp, htr]
          rw [hq (k1 :: q1), hdata, hnr]
          simp only [Bool.false_eq_true, if_false, Option.bind_some]
          exact ih

end AY.C04P
