/-
  AY.Lemmas.C07PipeFold — a safety mark at a mapping path, through the builder's fold
  (helpers for AY.Props.C07_Pipeline).

  `opFree n`: no pre-merge operator (`!append`, `!extend`, `!prev`, `!clear`, nested stream) in `n`; the
  pre-merge pass is the identity on such a stage, so a fold step is one `merge`.
  `Gentle F q y`: a later stage that cannot remove the node at `q`: operator-free, plain non-deleting
  mappings above `q`, not deleting at `q` (and small enough for the fuel `F`).
-/
import AY.Lemmas.C07PipePath
set_option linter.unusedVariables false
namespace AY.C07P

mutual
/-- no pre-merge operator anywhere in the tree -/
def opFree : Node → Bool
  | .leaf _ lk => (match lk with | .prev _ | .clear => false | _ => true)
  | .comp _ k cs => (match k with | .append | .extend | .stream => false | _ => true) && opFreeL cs
def opFreeL : List (Key × Node) → Bool
  | [] => true
  | (_, c) :: rest => opFree c && opFreeL rest
end

theorem premergeChildren_opFree {d : Nat} {rec : Node → Path → Option Node → PM}
    (H : ∀ c pa into, opFree c = true → c.depth < d → rec c pa into = .ok (c, true, into)) (path : Path) :
    ∀ (cs : List (Key × Node)) (into : Option Node), opFreeL cs = true → depthList cs < d →
      premergeChildren rec path cs into = .ok (cs, [], into)
  | [], into, _, _ => rfl
  | (k, c) :: rest, into, h, hd => by
    have h' : opFree c = true ∧ opFreeL rest = true := by simpa [opFreeL] using h
    have hd' : c.depth < d ∧ depthList rest < d := by simp only [depthList] at hd; omega
    simp [premergeChildren, H c _ into h'.1 hd'.1, premergeChildren_opFree H path rest into h'.2 hd'.2]

/-- the pre-merge pass is the identity on an operator-free tree -/
theorem premergeF_opFree : ∀ (fuel : Nat) (n : Node) (path : Path) (into : Option Node),
    opFree n = true → n.depth < fuel → premergeF fuel n path into = .ok (n, true, into) := by
  intro fuel
  induction fuel with
  | zero => intro n _ _ _ h; omega
  | succ fuel ih =>
    intro n path into hn hd
    cases n with
    | leaf f lk => cases lk <;> simp_all [premergeF, opFree]
    | comp f k cs =>
      have hcs : opFreeL cs = true := by
        simp only [opFree, Bool.and_eq_true] at hn; exact hn.2
      have hlt : depthList cs < fuel := by simp only [Node.depth] at hd; omega
      have hch := premergeChildren_opFree (fun c pa into hc hdc => ih c pa into hc hdc) path cs into hcs hlt
      cases k <;> simp_all [premergeF, opFree, applyResets]

theorem flattenLoop_cons_opFree {F : Nat} {y : Node} (hy : opFree y = true) (hd : y.depth < F) (root : Node)
    (rest : List Node) :
    flattenLoop (premergeF F) root (y :: rest) =
      match merge root y with
      | .error e => .error e
      | .ok r => flattenLoop (premergeF F) r rest := by
  simp only [flattenLoop, premergeF_opFree F y [] (some root) hy hd]
  rfl

theorem merge_ok_mergeF {s o r : Node} (h : merge s o = .ok r) : ∃ b, mergeF (o.depth + 1) s o = .ok (r, b) := by
  unfold merge at h
  split at h
  · cases h
  · rename_i r' b hm
    cases h
    exact ⟨b, hm⟩

variable {mk : Flags → Bool}

/-- a later stage that cannot remove the node at `q` -/
def Gentle (F : Nat) (q : Path) (y : Node) : Prop :=
  opFree y = true ∧ y.depth < F ∧ plainAbove y q = true ∧ ∀ x, getNode y q = some x → eDel x = false

/-- the mark stays at `q` through any number of gentle later stages -/
theorem fold_persists (hA : Absorb mk) {F : Nat} {q : Path} : ∀ (ys : List Node) (s r : Node),
    flattenLoop (premergeF F) s ys = .ok r → (∀ y, y ∈ ys → Gentle F q y) → Marked mk s q → Marked mk r q
  | [], s, r, h, _, hm => by simp only [flattenLoop] at h; cases h; exact hm
  | y :: rest, s, r, h, hy, hm => by
    obtain ⟨hop, hd, hp, hnd⟩ := hy y (by simp)
    rw [flattenLoop_cons_opFree hop hd] at h
    split at h
    · cases h
    · rename_i r1 hm1
      obtain ⟨b, hmf⟩ := merge_ok_mergeF hm1
      obtain ⟨n, hn, hmk⟩ := hm
      exact fold_persists hA rest r1 r h (fun z hz => hy z (List.mem_cons_of_mem _ hz))
        (mark_persists hA _ q s y r1 b n hmf hp hnd hn hmk)

/-- an operator-free stage `u` that writes a marked node at `q`, followed by gentle stages: after `u` is
    merged the path is gone, or the mark is at `q` in the final tree -/
theorem fold_lands (hA : Absorb mk) {F : Nat} {q : Path} {u : Node} {ys : List Node} {s r : Node} {m : Node}
    (h : flattenLoop (premergeF F) s (u :: ys) = .ok r) (hop : opFree u = true) (hd : u.depth < F)
    (hp : plainAbove u q = true) (hs : dfAbove s q = true) (hg : getNode u q = some m) (hmk : mk m.flags = true)
    (hy : ∀ y, y ∈ ys → Gentle F q y) :
    ∃ r1, merge s u = .ok r1 ∧ flattenLoop (premergeF F) r1 ys = .ok r ∧ (getNode r1 q = none ∨ Marked mk r q) := by
  rw [flattenLoop_cons_opFree hop hd] at h
  split at h
  · cases h
  · rename_i r1 hm1
    obtain ⟨b, hmf⟩ := merge_ok_mergeF hm1
    refine ⟨r1, hm1, h, ?_⟩
    rcases mark_lands hA _ q s u r1 b m hmf hp hs hg hmk with h1 | h1
    · exact .inl h1
    · exact .inr (fold_persists hA ys r1 r h hy h1)

/-! ### `flatten` as a first stage followed by a loop -/

theorem flattenLoop_append {pm : Node → Path → Option Node → PM} : ∀ (a b : List Node) (root r : Node),
    flattenLoop pm root (a ++ b) = .ok r → ∃ s, flattenLoop pm root a = .ok s ∧ flattenLoop pm s b = .ok r
  | [], b, root, r, h => ⟨root, rfl, h⟩
  | st :: rest, b, root, r, h => by
    simp only [List.cons_append, flattenLoop] at h
    split at h
    · cases h
    · rename_i st' same into' hp
      split at h
      · cases h
      · rename_i root'
        split at h
        · cases h
        · rename_i m hm
          obtain ⟨s, h1, h2⟩ := flattenLoop_append rest b m r h
          refine ⟨s, ?_, h2⟩
          simp only [flattenLoop, hp, hm]
          exact h1

/-- `flatten` of a non-empty prefix followed by more stages: the prefix flattens (same pre-merge fuel) and the
    loop continues from its result -/
theorem flattenWith_append {pm : Node → Path → Option Node → PM} (xs zs : List Node) (hx : xs ≠ []) (r : Node)
    (h : flattenWith pm (xs ++ zs) = .ok r) : ∃ s, flattenWith pm xs = .ok s ∧ flattenLoop pm s zs = .ok r := by
  cases xs with
  | nil => exact absurd rfl hx
  | cons s0 rest =>
    simp only [List.cons_append, flattenWith] at h
    split at h
    · cases h
    · rename_i hall
      have hall' : (!(s0 :: rest).all Node.isDict) = false := by
        simp only [Bool.not_eq_true, Bool.not_eq_false', List.all_cons, List.all_append, Bool.and_eq_true] at hall ⊢
        exact ⟨hall.1, hall.2.1⟩
      split at h
      · cases h
      · rename_i r0 same into' hp
        split at h
        · cases h
        · rename_i hreq
          obtain ⟨s, h1, h2⟩ := flattenLoop_append rest zs r0 r h
          refine ⟨s, ?_, h2⟩
          simp only [flattenWith, hall', Bool.false_eq_true, if_false, hp, hreq]
          exact h1

theorem foldl_add_ge (l : List Nat) : ∀ (a : Nat), a ≤ l.foldl (· + ·) a := by
  induction l with
  | nil => intro a; exact Nat.le_refl a
  | cons x xs ih => intro a; exact Nat.le_trans (Nat.le_add_right a x) (ih (a + x))

theorem foldl_add_mem {l : List Nat} {x : Nat} (hx : x ∈ l) : ∀ (a : Nat), x ≤ l.foldl (· + ·) a := by
  induction l with
  | nil => cases hx
  | cons y ys ih =>
    intro a
    rcases List.mem_cons.1 hx with rfl | hx
    · exact Nat.le_trans (Nat.le_add_left x a) (foldl_add_ge ys (a + x))
    · exact ih hx (a + y)

/-- the fuel `flatten` supplies exceeds the depth of every stage -/
theorem depth_lt_stagesFuel {stages : List Node} {y : Node} (hy : y ∈ stages) : y.depth < stagesFuel stages := by
  have : y.depth + 1 ≤ (stages.map (fun n => n.depth + 1)).foldl (· + ·) 0 :=
    foldl_add_mem ((List.mem_map (f := fun n : Node => n.depth + 1)).2 ⟨y, hy, rfl⟩) 0
  simp only [stagesFuel]; omega

/-- a first stage that is operator-free is taken as it is -/
theorem flattenWith_first_opFree {F : Nat} {u : Node} {ys : List Node} {r : Node} (hop : opFree u = true)
    (hd : u.depth < F) (h : flattenWith (premergeF F) (u :: ys) = .ok r) :
    flattenLoop (premergeF F) u ys = .ok r := by
  simp only [flattenWith, premergeF_opFree F u [] none hop hd] at h
  split at h
  · cases h
  · split at h
    · cases h
    · exact h

end AY.C07P
