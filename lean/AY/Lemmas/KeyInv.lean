/-
  AY.Lemmas.KeyInv — the key invariant of `_children` (core definitions and the child mutators).

  `KI.Keyed n`: every dict-family container of `n` has pairwise distinct keys and every list-family
  container stores its elements under `int 0 … int (n-1)`, hereditarily.  It is the same predicate
  as `WellKeyed` (Model/Copy.lean) and implies `uniqueKeys`, `distinctKeys`, `wfKeys`,
  `c16_numbered` (bridges: Lemmas/KeyInvariants.lean, Lemmas/KeyInvariantsAssoc.lean).  It is
  stated here over the key LIST of a container (`keysOf`) and this file imports Model files only,
  so that it can be imported next to either `Model/Copy.lean` or `Lemmas/Assoc.lean` (which both
  define `AY.keysNodup`).

  This file: list-level facts (`aset`, `aerase`, `renumFrom`), the flag-inheritance functions
  change no key (`keys_propagate`, `keys_adopt`, …), and the child mutators of Model/Flags.lean
  (`setChild`, `removeChild`, `listDelAt`, `adoptAll`) preserve the invariant.
-/
import AY.Model.Flags
namespace AY
namespace KI

/-- the keys of `_children`, in order -/
def keysOf (cs : List (Key × Node)) : List Key := cs.map (·.1)

/-- pairwise distinct -/
def ndK : List Key → Bool
  | [] => true
  | k :: rest => !rest.contains k && ndK rest

/-- `int i, int (i+1), …` -/
def numK : Nat → List Key → Bool
  | _, [] => true
  | i, k :: rest => (k == Key.int (i : Int)) && numK (i + 1) rest

/-- the requirement on the key list of a container of class `k` -/
def topOK (k : CompKind) (ks : List Key) : Bool := if k.isDictFam then ndK ks else numK 0 ks

mutual
/-- mapping children have pairwise different keys, list children are numbered `0 … n-1`, at every level -/
def Keyed : Node → Bool
  | .leaf .. => true
  | .comp _ k cs => topOK k (keysOf cs) && KeyedL cs
def KeyedL : List (Key × Node) → Bool
  | [] => true
  | (_, c) :: rest => Keyed c && KeyedL rest
end

/-- the children list `cs` is a legal `_children` of a container of class `k` -/
def CS (k : CompKind) (cs : List (Key × Node)) : Prop := topOK k (keysOf cs) = true ∧ KeyedL cs = true

theorem keyed_comp (f : Flags) (k : CompKind) (cs : List (Key × Node)) :
    Keyed (.comp f k cs) = true ↔ CS k cs := by
  simp [Keyed, CS]

@[simp] theorem keysOf_nil : keysOf [] = [] := rfl
@[simp] theorem keysOf_cons (k : Key) (v : Node) (cs : List (Key × Node)) : keysOf ((k, v) :: cs) = k :: keysOf cs := rfl
theorem keysOf_append (a b : List (Key × Node)) : keysOf (a ++ b) = keysOf a ++ keysOf b := by
  simp [keysOf]
theorem keysOf_length (cs : List (Key × Node)) : (keysOf cs).length = cs.length := by simp [keysOf]

theorem ndK_cons (k : Key) (rest : List Key) : ndK (k :: rest) = true ↔ k ∉ rest ∧ ndK rest = true := by
  simp [ndK]

theorem numK_cons (i : Nat) (k : Key) (rest : List Key) :
    numK i (k :: rest) = true ↔ k = Key.int (i : Int) ∧ numK (i + 1) rest = true := by
  simp [numK]

theorem KeyedL_cons (k : Key) (c : Node) (rest : List (Key × Node)) :
    KeyedL ((k, c) :: rest) = true ↔ Keyed c = true ∧ KeyedL rest = true := by
  simp [KeyedL]

theorem KeyedL_iff : ∀ (cs : List (Key × Node)), KeyedL cs = true ↔ ∀ kv, kv ∈ cs → Keyed kv.2 = true
  | [] => by simp [KeyedL]
  | (k, c) :: rest => by
    rw [KeyedL_cons, KeyedL_iff rest]
    constructor
    · intro h kv hm
      rcases List.mem_cons.1 hm with rfl | hm
      · exact h.1
      · exact h.2 kv hm
    · intro h
      exact ⟨h (k, c) (by simp), fun kv hm => h kv (List.mem_cons_of_mem _ hm)⟩

theorem topOK_nil (k : CompKind) : topOK k [] = true := by
  unfold topOK; split <;> rfl

theorem CS_nil (k : CompKind) : CS k [] := ⟨topOK_nil k, rfl⟩

theorem topOK_congr {k k' : CompKind} (h : k'.isDictFam = k.isDictFam) (ks : List Key) : topOK k' ks = topOK k ks := by
  simp [topOK, h]

theorem CS_congr {k k' : CompKind} (h : k'.isDictFam = k.isDictFam) {cs : List (Key × Node)} (hc : CS k cs) :
    CS k' cs := ⟨by rw [topOK_congr h]; exact hc.1, hc.2⟩

theorem setFunc_isDictFam (k : CompKind) (g : String) : (k.setFunc g).isDictFam = k.isDictFam := by
  cases k <;> rfl

/-! ### numbered keys are distinct -/

theorem numK_mem : ∀ {i : Nat} {ks : List Key}, numK i ks = true → ∀ k, k ∈ ks → ∃ m : Nat, i ≤ m ∧ k = Key.int (m : Int)
  | _, [], _, k, hm => by cases hm
  | i, k0 :: rest, h, k, hm => by
    rw [numK_cons] at h
    rcases List.mem_cons.1 hm with rfl | hm
    · exact ⟨i, Nat.le_refl _, h.1⟩
    · obtain ⟨m, hm1, hm2⟩ := numK_mem h.2 k hm
      exact ⟨m, by omega, hm2⟩

theorem ndK_of_numK : ∀ {i : Nat} {ks : List Key}, numK i ks = true → ndK ks = true
  | _, [], _ => rfl
  | i, k0 :: rest, h => by
    rw [numK_cons] at h
    rw [ndK_cons]
    refine ⟨fun hm => ?_, ndK_of_numK h.2⟩
    obtain ⟨m, hm1, hm2⟩ := numK_mem h.2 k0 hm
    rw [h.1] at hm2
    simp only [Key.int.injEq] at hm2
    omega

theorem topOK_of_numK (k : CompKind) {ks : List Key} (h : numK 0 ks = true) : topOK k ks = true := by
  unfold topOK; split
  · exact ndK_of_numK h
  · exact h

theorem topOK_of_ndK {k : CompKind} (hk : k.isDictFam = true) {ks : List Key} (h : ndK ks = true) : topOK k ks = true := by
  simp [topOK, hk, h]

/-! ### association-list operations -/

theorem mem_keysOf_aset {k k' : Key} {v : Node} : ∀ {cs : List (Key × Node)},
    k' ∈ keysOf (aset k v cs) ↔ k' = k ∨ k' ∈ keysOf cs
  | [] => by simp [aset]
  | (k0, v0) :: rest => by
    simp only [aset]
    split
    · rename_i e; subst e; simp
    · simp only [keysOf_cons, List.mem_cons, mem_keysOf_aset (cs := rest)]
      constructor
      · rintro (h | h | h)
        · exact Or.inr (Or.inl h)
        · exact Or.inl h
        · exact Or.inr (Or.inr h)
      · rintro (h | h | h)
        · exact Or.inr (Or.inl h)
        · exact Or.inl h
        · exact Or.inr (Or.inr h)

theorem ndK_aset (k : Key) (v : Node) : ∀ {cs : List (Key × Node)}, ndK (keysOf cs) = true →
    ndK (keysOf (aset k v cs)) = true
  | [], _ => by simp [aset, ndK]
  | (k0, v0) :: rest, h => by
    rw [keysOf_cons, ndK_cons] at h
    simp only [aset]
    split
    · rename_i e; subst e; rw [keysOf_cons, ndK_cons]; exact h
    · rename_i ne
      rw [keysOf_cons, ndK_cons]
      refine ⟨fun hm => ?_, ndK_aset k v h.2⟩
      rcases mem_keysOf_aset.1 hm with e | hm
      · exact ne e
      · exact h.1 hm

theorem keysOf_aset_of_lookup {k : Key} {v c : Node} : ∀ {cs : List (Key × Node)}, alookup k cs = some c →
    keysOf (aset k v cs) = keysOf cs
  | [], h => by simp [alookup] at h
  | (k0, v0) :: rest, h => by
    simp only [alookup] at h
    simp only [aset]
    split
    · rename_i e; subst e; rfl
    · rename_i ne
      rw [if_neg ne] at h
      simp [keysOf_aset_of_lookup h]

theorem mem_keysOf_aerase {k k' : Key} : ∀ {cs : List (Key × Node)}, k' ∈ keysOf (aerase k cs) → k' ∈ keysOf cs
  | [], h => by simp [aerase] at h
  | (k0, v0) :: rest, h => by
    simp only [aerase] at h
    split at h
    · simp [h]
    · rw [keysOf_cons] at h
      rcases List.mem_cons.1 h with e | h
      · simp [e]
      · simp [mem_keysOf_aerase h]

theorem ndK_aerase (k : Key) : ∀ {cs : List (Key × Node)}, ndK (keysOf cs) = true → ndK (keysOf (aerase k cs)) = true
  | [], _ => by simp [aerase, ndK]
  | (k0, v0) :: rest, h => by
    rw [keysOf_cons, ndK_cons] at h
    simp only [aerase]
    split
    · exact h.2
    · rw [keysOf_cons, ndK_cons]
      exact ⟨fun hm => h.1 (mem_keysOf_aerase hm), ndK_aerase k h.2⟩

theorem numK_aset {v : Node} : ∀ {s i : Nat} {cs : List (Key × Node)}, numK s (keysOf cs) = true → s ≤ i →
    i ≤ s + cs.length → numK s (keysOf (aset (Key.int (i : Int)) v cs)) = true
  | s, i, [], _, h1, h2 => by
    have : i = s := by simp at h2; omega
    subst this
    simp [aset, numK]
  | s, i, (k0, v0) :: rest, h, h1, h2 => by
    rw [keysOf_cons, numK_cons] at h
    simp only [aset]
    split
    · rename_i e
      rw [keysOf_cons, numK_cons]
      exact ⟨by rw [← e]; exact h.1, h.2⟩
    · rename_i ne
      rw [keysOf_cons, numK_cons]
      have hne : i ≠ s := by
        intro e; apply ne; rw [h.1, e]
      refine ⟨h.1, numK_aset h.2 (by omega) (by simp at h2; omega)⟩

theorem numK_snoc {v : Node} : ∀ {s : Nat} {cs : List (Key × Node)}, numK s (keysOf cs) = true →
    numK s (keysOf (cs ++ [(Key.int ((s + cs.length : Nat) : Int), v)])) = true
  | s, [], _ => by simp [numK]
  | s, (k0, v0) :: rest, h => by
    rw [keysOf_cons, numK_cons] at h
    simp only [List.cons_append, keysOf_cons]
    rw [numK_cons]
    refine ⟨h.1, ?_⟩
    have := numK_snoc (v := v) h.2
    have e : s + 1 + rest.length = s + ((k0, v0) :: rest).length := by simp; omega
    rw [e] at this
    exact this

theorem numK_renumFrom : ∀ (s : Nat) (xs : List Node), numK s (keysOf (renumFrom s xs)) = true
  | _, [] => rfl
  | s, x :: xs => by
    simp only [renumFrom, keysOf_cons]
    rw [numK_cons]
    exact ⟨rfl, numK_renumFrom (s + 1) xs⟩

theorem mem_renumFrom {x : Key × Node} : ∀ {i : Nat} {xs : List Node}, x ∈ renumFrom i xs → x.2 ∈ xs
  | _, [], h => by simp [renumFrom] at h
  | i, y :: ys, h => by
    simp only [renumFrom] at h
    rcases List.mem_cons.1 h with rfl | h
    · simp
    · exact List.mem_cons_of_mem _ (mem_renumFrom h)

theorem KeyedL_renumFrom {i : Nat} {xs : List Node} (h : ∀ x, x ∈ xs → Keyed x = true) :
    KeyedL (renumFrom i xs) = true := by
  rw [KeyedL_iff]
  exact fun kv hm => h _ (mem_renumFrom hm)

theorem CS_renum {k : CompKind} {xs : List Node} (h : ∀ x, x ∈ xs → Keyed x = true) : CS k (renum xs) :=
  ⟨topOK_of_numK k (numK_renumFrom 0 xs), KeyedL_renumFrom h⟩

theorem mem_aset {k : Key} {v : Node} {x : Key × Node} : ∀ {cs : List (Key × Node)}, x ∈ aset k v cs →
    x = (k, v) ∨ x ∈ cs
  | [], h => by simp [aset] at h; exact Or.inl h
  | (k0, v0) :: rest, h => by
    simp only [aset] at h
    split at h
    · rcases List.mem_cons.1 h with e | h
      · exact Or.inl e
      · exact Or.inr (List.mem_cons_of_mem _ h)
    · rcases List.mem_cons.1 h with e | h
      · exact Or.inr (by simp [e])
      · rcases mem_aset h with e | h
        · exact Or.inl e
        · exact Or.inr (List.mem_cons_of_mem _ h)

theorem KeyedL_aset {k : Key} {v : Node} {cs : List (Key × Node)} (hv : Keyed v = true) (h : KeyedL cs = true) :
    KeyedL (aset k v cs) = true := by
  rw [KeyedL_iff] at h ⊢
  intro kv hm
  rcases mem_aset hm with e | hm
  · rw [e]; exact hv
  · exact h kv hm

theorem mem_aerase {k : Key} {x : Key × Node} : ∀ {cs : List (Key × Node)}, x ∈ aerase k cs → x ∈ cs
  | [], h => by simp [aerase] at h
  | (k', v) :: rest, h => by
    simp only [aerase] at h
    split at h
    · exact List.mem_cons_of_mem _ h
    · rcases List.mem_cons.1 h with rfl | h
      · simp
      · exact List.mem_cons_of_mem _ (mem_aerase h)

theorem KeyedL_aerase (k : Key) {cs : List (Key × Node)} (h : KeyedL cs = true) : KeyedL (aerase k cs) = true := by
  rw [KeyedL_iff] at h ⊢
  exact fun kv hm => h kv (mem_aerase hm)

theorem KeyedL_append {a b : List (Key × Node)} (ha : KeyedL a = true) (hb : KeyedL b = true) :
    KeyedL (a ++ b) = true := by
  rw [KeyedL_iff] at ha hb ⊢
  intro kv hm
  rcases List.mem_append.1 hm with h | h
  · exact ha kv h
  · exact hb kv h

theorem alookup_mem {k : Key} {c : Node} : ∀ {cs : List (Key × Node)}, alookup k cs = some c → (k, c) ∈ cs
  | [], h => by simp [alookup] at h
  | (k', v) :: rest, h => by
    simp only [alookup] at h
    split at h
    · rename_i e; cases h; subst e; simp
    · exact List.mem_cons_of_mem _ (alookup_mem h)

theorem keyed_of_lookup {k : Key} {c : Node} {cs : List (Key × Node)} (h : KeyedL cs = true)
    (hl : alookup k cs = some c) : Keyed c = true :=
  (KeyedL_iff cs).1 h (k, c) (alookup_mem hl)

/-- replacing the value stored under an existing key keeps `_children` legal -/
theorem CS_aset_existing {pk : CompKind} {k : Key} {v c : Node} {cs : List (Key × Node)} (hcs : CS pk cs)
    (hl : alookup k cs = some c) (hv : Keyed v = true) : CS pk (aset k v cs) :=
  ⟨by rw [keysOf_aset_of_lookup hl]; exact hcs.1, KeyedL_aset hv hcs.2⟩

/-! ### the flag-inheritance functions change no key -/

mutual
theorem keyed_applyKw (kw : ChildKw) : ∀ (n : Node), Keyed (applyKw kw n) = Keyed n
  | .leaf f k => by simp [applyKw, Keyed]
  | .comp f k cs => by
    simp only [applyKw]
    split
    · split
      · rfl
      · rename_i kw' _
        simp only [Keyed, (keys_applyKwList kw' cs).1, (keys_applyKwList kw' cs).2]
    · rfl
theorem keys_applyKwList (kw : ChildKw) : ∀ (cs : List (Key × Node)),
    keysOf (applyKwList kw cs) = keysOf cs ∧ KeyedL (applyKwList kw cs) = KeyedL cs
  | [] => ⟨rfl, rfl⟩
  | (key, c) :: rest => by
    simp only [applyKwList, keysOf_cons, KeyedL, keyed_applyKw kw c, (keys_applyKwList kw rest).1,
      (keys_applyKwList kw rest).2, and_self]
end

/-- `_propagate_implicit_values` changes no key -/
theorem keys_propagate (n : Node) : Keyed (propagate n) = Keyed n := by
  cases n with
  | leaf f k => rfl
  | comp f k cs =>
    simp only [propagate]
    split
    · rfl
    · rename_i kw _
      simp only [Keyed, (keys_applyKwList kw cs).1, (keys_applyKwList kw cs).2]

theorem keys_setFlags (n : Node) (f : Flags) : Keyed (n.setFlags f) = Keyed n := by
  cases n <;> rfl

mutual
theorem keyed_setPrioAll (p : Int) : ∀ (n : Node), Keyed (setPrioAll p n) = Keyed n
  | .leaf f k => by simp [setPrioAll, Keyed]
  | .comp f k cs => by
    simp only [setPrioAll, Keyed, (keys_setPrioAllList p cs).1, (keys_setPrioAllList p cs).2]
theorem keys_setPrioAllList (p : Int) : ∀ (cs : List (Key × Node)),
    keysOf (setPrioAllList p cs) = keysOf cs ∧ KeyedL (setPrioAllList p cs) = KeyedL cs
  | [] => ⟨rfl, rfl⟩
  | (key, c) :: rest => by
    simp only [setPrioAllList, keysOf_cons, KeyedL, keyed_setPrioAll p c, (keys_setPrioAllList p rest).1,
      (keys_setPrioAllList p rest).2, and_self]
end

theorem keys_inheritInto (p? : Option Int) (kw? : Option ChildKw) (n : Node) :
    Keyed (inheritInto p? kw? n) = Keyed n := by
  have h1 : Keyed (match p? with | some p => setPrioAll p n | none => n) = Keyed n := by
    cases p? with
    | none => rfl
    | some p => exact keyed_setPrioAll p n
  simp only [inheritInto]
  cases kw? with
  | none => exact h1
  | some kw => simp only [keys_propagate, keys_setFlags]; exact h1

/-- `set_child` adoption changes no key of the adopted node -/
theorem keys_adopt (pf : Flags) (pk : CompKind) (v : Node) : Keyed (adopt pf pk v) = Keyed v := by
  simp only [adopt, keys_propagate, keys_inheritInto]

/-! ### kinds are kept, too (needed for the top-down loader) -/

/-- the class and the key list of a container -/
def shape : Node → Option (CompKind × List Key)
  | .leaf .. => none
  | .comp _ k cs => some (k, keysOf cs)

theorem shape_propagate (n : Node) : shape (propagate n) = shape n := by
  cases n with
  | leaf f k => rfl
  | comp f k cs =>
    simp only [propagate]
    split
    · rfl
    · rename_i kw _
      simp only [shape, (keys_applyKwList kw cs).1]

theorem shape_setFlags (n : Node) (f : Flags) : shape (n.setFlags f) = shape n := by
  cases n <;> rfl

theorem shape_setPrioAll (p : Int) (n : Node) : shape (setPrioAll p n) = shape n := by
  cases n with
  | leaf f k => simp [setPrioAll, shape]
  | comp f k cs => simp only [setPrioAll, shape, (keys_setPrioAllList p cs).1]

theorem shape_inheritInto (p? : Option Int) (kw? : Option ChildKw) (n : Node) :
    shape (inheritInto p? kw? n) = shape n := by
  have h1 : shape (match p? with | some p => setPrioAll p n | none => n) = shape n := by
    cases p? with
    | none => rfl
    | some p => exact shape_setPrioAll p n
  simp only [inheritInto]
  cases kw? with
  | none => exact h1
  | some kw => simp only [shape_propagate, shape_setFlags]; exact h1

theorem shape_adopt (pf : Flags) (pk : CompKind) (v : Node) : shape (adopt pf pk v) = shape v := by
  simp only [adopt, shape_propagate, shape_inheritInto]

/-! ### `_validate_index` -/

theorem validateIndex_le {len : Nat} {strict : Bool} {key : Key} {i : Nat}
    (h : validateIndex len strict key = some i) : i ≤ len := by
  cases key with
  | int j =>
    simp only [validateIndex] at h
    split at h
    · cases h
    · simp only [Option.some.injEq] at h; omega
  | str s => simp [validateIndex] at h
  | float r => simp [validateIndex] at h

/-! ### the child mutators -/

theorem setChild_CS {pf : Flags} {pk : CompKind} {name : Key} {v : Node} {cs cs' : List (Key × Node)}
    (hcs : CS pk cs) (hv : Keyed v = true) (h : setChild pf pk name v cs = .ok cs') : CS pk cs' := by
  have ha : Keyed (adopt pf pk v) = true := by rw [keys_adopt]; exact hv
  unfold setChild at h
  split at h
  · rename_i hd
    cases h
    refine ⟨?_, KeyedL_aset ha hcs.2⟩
    have := hcs.1
    simp only [topOK, hd, if_true] at this ⊢
    exact ndK_aset _ _ this
  · rename_i hd
    split at h
    · cases h
    · rename_i i hi
      cases h
      refine ⟨?_, KeyedL_aset ha hcs.2⟩
      have := hcs.1
      simp only [topOK, hd] at this ⊢
      exact numK_aset this (Nat.zero_le _) (by have := validateIndex_le hi; omega)

theorem listDelAt_CS {pf : Flags} {pk : CompKind} (i : Nat) {cs : List (Key × Node)} (hcs : KeyedL cs = true) :
    CS pk (listDelAt pf pk i cs) := by
  unfold listDelAt
  apply CS_renum
  rw [KeyedL_iff] at hcs
  intro x hx
  rcases List.mem_append.1 hx with h1 | h1
  · obtain ⟨y, hy, e⟩ := List.mem_map.1 h1
    rw [← e]; exact hcs y (List.mem_of_mem_take hy)
  · obtain ⟨y, hy, e⟩ := List.mem_map.1 h1
    rw [← e, keys_adopt]; exact hcs y (List.mem_of_mem_drop hy)

theorem removeChild_CS {pf : Flags} {pk : CompKind} {name : Key} {cs cs' : List (Key × Node)}
    (hcs : CS pk cs) (h : removeChild pf pk name cs = some cs') : CS pk cs' := by
  unfold removeChild at h
  split at h
  · rename_i hd
    split at h
    · cases h
      refine ⟨?_, KeyedL_aerase _ hcs.2⟩
      have := hcs.1
      simp only [topOK, hd, if_true] at this ⊢
      exact ndK_aerase _ this
    · cases h
  · split at h
    · cases h
    · cases h; exact listDelAt_CS _ hcs.2

theorem adoptAll_CS (pf : Flags) (pk : CompKind) : ∀ (items acc cs' : List (Key × Node)),
    KeyedL items = true → CS pk acc → adoptAll pf pk items acc = .ok cs' → CS pk cs'
  | [], acc, cs', _, hacc, h => by simp only [adoptAll] at h; cases h; exact hacc
  | (k, v) :: rest, acc, cs', hi, hacc, h => by
    rw [KeyedL_cons] at hi
    simp only [adoptAll] at h
    split at h
    · cases h
    · rename_i acc' hs
      exact adoptAll_CS pf pk rest acc' cs' hi.2 (setChild_CS hacc hi.1 hs) h

theorem getChild_keyed {sk : CompKind} {name : Key} {acc : List (Key × Node)} {child : Node}
    (hacc : KeyedL acc = true) (h : getChild sk name acc = some child) : Keyed child = true := by
  unfold getChild at h
  split at h
  · exact keyed_of_lookup hacc h
  · split at h
    · cases h
    · exact keyed_of_lookup hacc h

end KI
end AY
