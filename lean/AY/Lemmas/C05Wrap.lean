/-
  AY.Lemmas.C05Wrap — locality of the merge: two single-key wrappers merge exactly as the wrapped
  nodes do (auxiliary definitions and the unfolding proof for property C05).
-/
import AY.Lemmas.Native
namespace AY

/-- flags of an untagged wrapper mapping as the loader creates it at top level: nothing explicit,
    nothing inherited, no metadata (`dSafe`/`src` are free) -/
def bareW (f : Flags) : Bool :=
  f.prio.isNone && f.del.isNone && f.new.isNone && f.safe.isNone && f.iDel.isNone && f.iNew.isNone
    && f.iSafe.isNone && f.md.isEmpty

theorem bareW_iff (f : Flags) : bareW f = true ↔
    f.prio = none ∧ f.del = none ∧ f.new = none ∧ f.safe = none ∧ f.iDel = none ∧ f.iNew = none
      ∧ f.iSafe = none ∧ f.md = [] := by
  simp [bareW, and_assoc]

/-- What the key loop of `ComposedNode.on_merge_impl` leaves in the wrapper `{k: a}` (flags `wa`)
    after the child merge `a ⊕ b` returned `(nw, same)`:
    * `self[k]` was a container: the key is removed when the merged child ended up empty, does not
      outrank `b`, and `b` carries an explicit `!del`; otherwise the child stays (mutated in place,
      `same`) or is re-assigned (adopted again);
    * `self[k]` was a leaf: kept when it won in place; otherwise the replacement must satisfy
      `allow_new` below itself, is dropped when it is an empty `!del` value, else adopted. -/
def wrapChildren (wa : Flags) (k : Key) (a b nw : Node) (same : Bool) : Except Err (List (Key × Node)) :=
  if a.isComp then
    if !nw.truthy && !hasPrio nw.flags b.flags false && b.flags.del == some true then .ok []
    else if same then .ok [(k, nw)]
    else .ok [(k, adopt wa .dict nw)]
  else
    if same then .ok [(k, nw)]
    else
      match reqNewBelow nw with
      | some p => .error (.notnew (k :: p))
      | none =>
        if !nw.truthy && nw.flags.del == some true then .ok []
        else .ok [(k, adopt wa .dict nw)]

/-- flags of the merged wrapper (`_replace_self` of two bare flag sets) -/
def wrapFlags (wa wb : Flags) : Flags := { wa with dSafe := wa.dSafe && wb.dSafe }

theorem replaceSelfFlags_bare {wa wb : Flags} (ha : bareW wa = true) (hb : bareW wb = true) :
    replaceSelfFlags wa wb = wrapFlags wa wb := by
  rw [bareW_iff] at ha hb
  obtain ⟨a1, a2, a3, a4, a5, a6, a7, a8⟩ := ha
  obtain ⟨b1, b2, b3, b4, b5, b6, b7, b8⟩ := hb
  cases wa; cases wb
  simp_all [replaceSelfFlags, mergeSafe, wrapFlags, mmerge]

theorem eDel_bare_dict {f : Flags} {cs} (h : bareW f = true) : eDel (.comp f .dict cs) = false := by
  rw [bareW_iff] at h
  simp [eDel, Node.flags, h.2.1, h.2.2.2.2.1, Node.defaultDel, defaultDelete, Tables.defaultDeleteDict]

theorem hasPrio_bare {wa wb : Flags} (ha : bareW wa = true) (hb : bareW wb = true) (e : Bool) :
    hasPrio wb wa e = e := by
  rw [bareW_iff] at ha hb
  simp [hasPrio, ePrio, ha.1, hb.1]

/-- the wrap law, every fuel, all nodes -/
theorem mergeF_wrap (fuel : Nat) (k : Key) (wa wb : Flags) (a b : Node)
    (hwa : bareW wa = true) (hwb : bareW wb = true) :
    mergeF (fuel + 1) (.comp wa .dict [(k, a)]) (.comp wb .dict [(k, b)]) =
      match mergeF fuel a b with
      | .error e => .error (e.prepend k)
      | .ok (nw, same) =>
        match wrapChildren wa k a b nw same with
        | .error e => .error e
        | .ok cs => .ok (propagate (.comp (wrapFlags wa wb) .dict cs), true) := by
  have hl : alookup k [(k, a)] = some a := by simp [alookup]
  have hfin : ∀ cs, finishMerge wa .dict cs (.comp wb .dict [(k, b)]) =
      .ok (propagate (.comp (wrapFlags wa wb) .dict cs), true) := by
    intro cs
    simp [finishMerge, Node.flags, hasPrio_bare hwa hwb, maybePromote, CompKind.sameClass,
      replaceSelfFlags_bare hwa hwb]
  simp only [mergeF, compMerge, eDel_bare_dict hwb, Bool.false_eq_true, if_false, mergeLoop, mergeStep,
    getChild, CompKind.isDictFam, if_true, hl]
  cases hm : mergeF fuel a b with
  | error e => rfl
  | ok res =>
    obtain ⟨nw, same⟩ := res
    simp only [wrapChildren]
    cases hc : a.isComp
    · -- `self[k]` is a leaf
      simp only [Bool.false_eq_true, if_false]
      cases same
      · simp only [Bool.false_eq_true, if_false]
        cases hr : reqNewBelow nw with
        | some p => rfl
        | none =>
          simp only
          by_cases hcond : (!nw.truthy && nw.flags.del == some true) = true
          · simp [hcond, removeChildE, removeChild, CompKind.isDictFam, ahas, hl, aerase, hfin]
          · simp [hcond, setChild, CompKind.isDictFam, aset, hfin]
      · simp [replaceChild, CompKind.isDictFam, aset, hfin]
    · -- `self[k]` is a container
      simp only [if_true]
      by_cases hcond : (!nw.truthy && !hasPrio nw.flags b.flags false && b.flags.del == some true) = true
      · simp [hcond, removeChildE, removeChild, CompKind.isDictFam, ahas, hl, aerase, hfin]
      · cases same
        · simp [hcond, setChild, CompKind.isDictFam, aset, hfin]
        · simp [hcond, replaceChild, CompKind.isDictFam, aset, hfin]

/-! ### consequences -/

theorem wrapChildren_shape (wa : Flags) (k : Key) (a b nw : Node) (same : Bool) (cs : List (Key × Node))
    (h : wrapChildren wa k a b nw same = .ok cs) :
    cs = [] ∨ ∃ x, cs = [(k, x)] ∧ native x = native nw := by
  simp only [wrapChildren] at h
  split at h
  · split at h
    · injection h with h; exact .inl h.symm
    · split at h <;> injection h with h
      · exact .inr ⟨nw, h.symm, rfl⟩
      · exact .inr ⟨_, h.symm, native_adopt _ _ _⟩
  · split at h
    · injection h with h; exact .inr ⟨nw, h.symm, rfl⟩
    · split at h
      · cases h
      · split at h <;> injection h with h
        · exact .inl h.symm
        · exact .inr ⟨_, h.symm, native_adopt _ _ _⟩

/-! ### key chains -/

/-- `{k1: {k2: … n}}` with wrapper flags `w` at every level -/
def wrapN (w : Flags) : List Key → Node → Node
  | [], n => n
  | k :: ks, n => .comp w .dict [(k, wrapN w ks n)]

/-- the same on data -/
def wrapPlain : List Key → Plain → Plain
  | [], p => p
  | k :: ks, p => .dict [(k, wrapPlain ks p)]

/-- the path of an error reported below a key chain -/
def prependAll : List Key → Err → Err
  | [], e => e
  | k :: ks, e => (prependAll ks e).prepend k

/-- the merged wrappers around a merged node (each level re-propagates its flags) -/
def wrapRes (w : Flags) : List Key → Node → Node
  | [], n => n
  | k :: ks, n => propagate (.comp w .dict [(k, wrapRes w ks n)])

theorem native_wrapRes (w : Flags) : ∀ (ks : List Key) (n : Node),
    native (wrapRes w ks n) = wrapPlain ks (native n)
  | [], _ => rfl
  | k :: ks, n => by
    simp [wrapRes, nativeOf_propagate, native, nativeList, CompKind.isDictFam, wrapPlain, native_wrapRes w ks n]

theorem wrapN_isComp (w : Flags) (ks : List Key) (n : Node) (h : n.isComp = true) :
    (wrapN w ks n).isComp = true := by
  cases ks with
  | nil => exact h
  | cons k ks => rfl

theorem wrapN_del (w : Flags) (hw : bareW w = true) (ks : List Key) (n : Node)
    (h : n.flags.del ≠ some true) : (wrapN w ks n).flags.del ≠ some true := by
  cases ks with
  | nil => exact h
  | cons k ks => simp [wrapN, Node.flags, ((bareW_iff w).1 hw).2.1]

theorem wrapChildren_same (wa : Flags) (k : Key) (a b nw : Node) (ha : a.isComp = true)
    (hb : b.flags.del ≠ some true) : wrapChildren wa k a b nw true = .ok [(k, nw)] := by
  have : (b.flags.del == some true) = false := by simpa using hb
  simp [wrapChildren, ha, this]

/-- wrapping both sides of a container merge that updates `self` in place under a key chain -/
theorem mergeF_wrapN (wa wb : Flags) (hwa : bareW wa = true) (hwb : bareW wb = true)
    (fuel : Nat) (a b : Node) (ha : a.isComp = true) (hb : b.flags.del ≠ some true)
    (hsame : ∀ r s, mergeF fuel a b = .ok (r, s) → s = true) :
    ∀ ks : List Key, mergeF (fuel + ks.length) (wrapN wa ks a) (wrapN wb ks b) =
      match mergeF fuel a b with
      | .error e => .error (prependAll ks e)
      | .ok (r, _) => .ok (wrapRes (wrapFlags wa wb) ks r, true)
  | [] => by
    simp only [wrapN, List.length_nil, Nat.add_zero, prependAll, wrapRes]
    cases hm : mergeF fuel a b with
    | error e => rfl
    | ok res => obtain ⟨r, s⟩ := res; simp [hsame r s hm]
  | k :: ks => by
    have ih := mergeF_wrapN wa wb hwa hwb fuel a b ha hb hsame ks
    have e : fuel + (k :: ks).length = (fuel + ks.length) + 1 := by simp; omega
    rw [e]
    simp only [wrapN]
    rw [mergeF_wrap _ k wa wb _ _ hwa hwb, ih]
    cases hm : mergeF fuel a b with
    | error e => rfl
    | ok res =>
      obtain ⟨r, s⟩ := res
      simp only [wrapChildren_same wa k _ _ _ (wrapN_isComp wa ks a ha) (wrapN_del wb hwb ks b hb),
        wrapRes]

theorem mergeF_wrap_same (fuel : Nat) (k : Key) (wa wb : Flags) (a b : Node)
    (hwa : bareW wa = true) (hwb : bareW wb = true) (r : Node) (s : Bool)
    (h : mergeF (fuel + 1) (.comp wa .dict [(k, a)]) (.comp wb .dict [(k, b)]) = .ok (r, s)) : s = true := by
  rw [mergeF_wrap fuel k wa wb a b hwa hwb] at h
  cases hm : mergeF fuel a b with
  | error e => simp [hm] at h
  | ok res =>
    obtain ⟨nw, same⟩ := res
    simp only [hm] at h
    cases hc : wrapChildren wa k a b nw same with
    | error e => simp [hc] at h
    | ok cs =>
      simp only [hc] at h
      injection h with h
      injection h with _ h
      exact h.symm

end AY
