/-
  AY.Lemmas.C16PipeDefs — definitions for the end-to-end statements of property C16
  (AY.Props.C16_Pipeline): all of them are Boolean / computable functions on trees, so that they are
  hypotheses of the theorems and filters of the fuzzer (notes/fuzz/C16_Pipeline_Fuzz.lean) at once.
-/
import AY.Lemmas.C04PathClear
import AY.Lemmas.C16Stage
import AY.Lemmas.C16Numbered
namespace AY.C16P
open AY.C04P
open AY.C07P (opFree opFreeL)

/-- the stage consists of plain mappings along `q` (the path exists in it) and has no pre-merge operator
    anywhere OFF the path: whatever sits at `q` is the only operator of the stage -/
def soleAt : Path → Node → Bool
  | [], _ => true
  | _ :: _, .leaf .. => false
  | k :: q, .comp _ ck cs =>
    match ck with
    | .dict =>
      (match alookup k cs with
       | none => false
       | some c => soleAt q c) && opFreeL (aerase k cs)
    | _ => false

/-- the stage after its pre-merge pass: the node at the path is replaced by `v`, adopted by the mapping
    that holds it (`set_child(name, new)`); the mappings above it are the same objects -/
def replaceAt (v : Node) : Path → Node → Node
  | [k], .comp f .dict cs => .comp f .dict (aset k (adopt f .dict v) cs)
  | k :: k1 :: q, .comp f .dict cs =>
    match alookup k cs with
    | none => .comp f .dict cs
    | some c => .comp f .dict (aset k (replaceAt v (k1 :: q) c) cs)
  | _, n => n

/-- `!append`, `!extend` or `!prev` -/
def isOp : Node → Bool
  | .leaf _ (.prev _) => true
  | .comp _ .append _ => true
  | .comp _ .extend _ => true
  | _ => false

mutual
/-- a stage with ANY number of operators: plain non-deleting mappings with distinct keys whose entries are
    operators, operator-free subtrees, or again such mappings -/
def opsStage : Node → Bool
  | .leaf .. => false
  | .comp f ck cs =>
    match ck with
    | .dict => !eDel (.comp f .dict cs) && keysNodup cs && opsStageL cs
    | _ => false
def opsStageL : List (Key × Node) → Bool
  | [] => true
  | (_, c) :: rest => (isOp c || opFree c || opsStage c) && opsStageL rest
end

mutual
/-- the paths of the accumulated tree the operators of a stage act on: the own (absolute) path of every
    `!append` / `!extend`, the target path of every `!prev` -/
def touched (pre : Path) : Node → List Path
  | .leaf _ lk =>
    (match lk with
     | .prev p => (match splitPath p with | some tp => [tp] | none => [])
     | _ => [])
  | .comp _ ck cs =>
    (match ck with
     | .append => [pre]
     | .extend => [pre]
     | .dict => touchedL pre cs
     | _ => [])
def touchedL (pre : Path) : List (Key × Node) → List Path
  | [] => []
  | (k, c) :: rest => touched (pre ++ [k]) c ++ touchedL pre rest
end

/-- neither path is a prefix of the other -/
def indep (a b : Path) : Bool := !a.isPrefixOf b && !b.isPrefixOf a

/-- every path in `xs` is independent of `t` -/
def allIndep (t : Path) (xs : List Path) : Bool := xs.all (indep t)

/-- every path in `xs` runs through mappings of `s` (as far as it exists) -/
def allDictAlong (s : Node) (xs : List Path) : Bool := xs.all (fun x => dictAlong x s)

end AY.C16P
