/-
  AY.Lemmas.C14PipeSkel — the SKELETON of a node tree: node classes, leaf classes and keys, all flags
  erased.  `native` (Spec/Plain.lean) cannot see a `!required` placeholder (it is `null` as data); the
  skeleton can, and — like `native` — it is untouched by the whole flag bookkeeping of the loader and the
  merge (`applyKw`, `propagate`, `setPrioAll`, `inheritInto`, `adopt`, `setFlags`).  The document-level
  theorems of property C14 (AY.Props.C14_Pipeline) follow placeholders through a merge with it.

  * `skel`, `Skel.at?` (the skeleton stored at a path, through EVERY container class: mappings, lists,
    arguments of call/bind nodes), `Skel.hasReq`, `Skel.reqPaths`;
  * `RequiredAt t p ↔ (skel t).at? p = some (.leaf .required)`;
  * `requiredPaths pre t = (skel t).reqPaths pre`, `hasRequired t = (skel t).hasReq`.
-/
import AY.Lemmas.C14Lemmas
namespace AY.C14P

/-- a node tree without its flags -/
inductive Skel where
  | leaf (k : LeafKind)
  | comp (k : CompKind) (cs : List (Key × Skel))
  deriving Repr, Inhabited

mutual
def skel : Node → Skel
  | .leaf _ k => .leaf k
  | .comp _ k cs => .comp k (skelList cs)
def skelList : List (Key × Node) → List (Key × Skel)
  | [] => []
  | (k, c) :: rest => (k, skel c) :: skelList rest
end

/-- the skeleton stored at a path (`get_node`, through every container class) -/
def Skel.at? : Path → Skel → Option Skel
  | [], v => some v
  | _ :: _, .leaf _ => none
  | k :: p, .comp _ kvs => (alookup k kvs).bind (Skel.at? p)

mutual
def Skel.hasReq : Skel → Bool
  | .leaf .required => true
  | .leaf _ => false
  | .comp _ cs => Skel.hasReqList cs
def Skel.hasReqList : List (Key × Skel) → Bool
  | [] => false
  | (_, c) :: rest => c.hasReq || Skel.hasReqList rest
end

mutual
def Skel.reqPaths (p : Path) : Skel → List Path
  | .leaf .required => [p]
  | .leaf _ => []
  | .comp _ cs => Skel.reqPathsList p cs
def Skel.reqPathsList (p : Path) : List (Key × Skel) → List Path
  | [] => []
  | (k, c) :: rest => c.reqPaths (p ++ [k]) ++ Skel.reqPathsList p rest
end

/-! ### flags do not matter -/

theorem skel_leaf_flags (f f' : Flags) (k : LeafKind) : skel (.leaf f k) = skel (.leaf f' k) := rfl

theorem skel_comp_flags (f f' : Flags) (k : CompKind) (cs : List (Key × Node)) :
    skel (.comp f k cs) = skel (.comp f' k cs) := by
  simp [skel]

theorem skel_setFlags (n : Node) (f : Flags) : skel (n.setFlags f) = skel n := by
  cases n with
  | leaf g k => rfl
  | comp g k cs => exact skel_comp_flags _ _ _ _

mutual
theorem skel_applyKw : ∀ (kw : ChildKw) (n : Node), skel (applyKw kw n) = skel n
  | kw, .leaf f k => by simp only [applyKw]; rfl
  | kw, .comp f k cs => by
    simp only [applyKw]
    split
    · split
      · simp [skel]
      · rename_i kw' _
        simp [skel, skelList_applyKwList kw' cs]
    · rfl
theorem skelList_applyKwList : ∀ (kw : ChildKw) (cs : List (Key × Node)),
    skelList (applyKwList kw cs) = skelList cs
  | _, [] => by simp [applyKwList]
  | kw, (k, c) :: rest => by
    simp [applyKwList, skelList, skel_applyKw kw c, skelList_applyKwList kw rest]
end

theorem skel_propagate (n : Node) : skel (propagate n) = skel n := by
  cases n with
  | leaf f k => simp [propagate]
  | comp f k cs =>
    simp only [propagate]
    split
    · rfl
    · rename_i kw _
      simp [skel, skelList_applyKwList kw cs]

mutual
theorem skel_setPrioAll : ∀ (p : Int) (n : Node), skel (setPrioAll p n) = skel n
  | p, .leaf f k => by simp only [setPrioAll]; rfl
  | p, .comp f k cs => by
    simp [setPrioAll, skel, skelList_setPrioAllList p cs]
theorem skelList_setPrioAllList : ∀ (p : Int) (cs : List (Key × Node)),
    skelList (setPrioAllList p cs) = skelList cs
  | _, [] => by simp [setPrioAllList]
  | p, (k, c) :: rest => by
    simp [setPrioAllList, skelList, skel_setPrioAll p c, skelList_setPrioAllList p rest]
end

theorem skel_inheritInto (prio? : Option Int) (kw : Option ChildKw) (n : Node) :
    skel (inheritInto prio? kw n) = skel n := by
  cases prio? <;> cases kw <;>
    simp [inheritInto, skel_propagate, skel_setFlags, skel_setPrioAll]

theorem skel_adopt (pf : Flags) (pk : CompKind) (v : Node) : skel (adopt pf pk v) = skel v := by
  simp [adopt, skel_propagate, skel_inheritInto]

/-! ### association lists -/

theorem alookup_skelList (k : Key) :
    ∀ cs : List (Key × Node), alookup k (skelList cs) = (alookup k cs).map skel
  | [] => rfl
  | (k', v) :: rest => by
    by_cases h : k' = k <;> simp [skelList, alookup, h, alookup_skelList k rest]

theorem at_skel_comp (f : Flags) (ck : CompKind) (cs : List (Key × Node)) (k : Key) (p : Path) :
    (skel (.comp f ck cs)).at? (k :: p) = ((alookup k cs).map skel).bind (Skel.at? p) := by
  simp [skel, Skel.at?, alookup_skelList]

theorem at_skel_propagate (F : Flags) (ck : CompKind) (cs : List (Key × Node)) (k : Key) (p : Path) :
    (skel (propagate (.comp F ck cs))).at? (k :: p) = ((alookup k cs).map skel).bind (Skel.at? p) := by
  rw [skel_propagate, at_skel_comp]

/-- `Skel.at?` is `get_node` -/
theorem at_skel : ∀ (p : Path) (n : Node), (skel n).at? p = (getNode n p).map skel
  | [], n => by simp [Skel.at?, getNode]
  | k :: p, .leaf f lk => by simp [skel, Skel.at?, getNode]
  | k :: p, .comp f ck cs => by
    rw [at_skel_comp]
    simp only [getNode]
    cases alookup k cs with
    | none => rfl
    | some c => simp [at_skel p c]

theorem Skel.at?_append : ∀ (p q : Path) (t : Skel), t.at? (p ++ q) = (t.at? p).bind (Skel.at? q)
  | [], q, t => by simp [Skel.at?]
  | k :: p, q, .leaf lk => by simp [Skel.at?]
  | k :: p, q, .comp ck kvs => by
    simp only [List.cons_append, Skel.at?]
    cases alookup k kvs with
    | none => rfl
    | some c => simp [Skel.at?_append p q c]

/-! ### placeholders -/

theorem skel_eq_leaf {n : Node} {lk : LeafKind} (h : skel n = .leaf lk) : ∃ f, n = .leaf f lk := by
  cases n with
  | leaf f k => simp only [skel, Skel.leaf.injEq] at h; exact ⟨f, by rw [h]⟩
  | comp f k cs => simp [skel] at h

/-- the node at `p` is a placeholder iff the skeleton at `p` is the placeholder leaf -/
theorem requiredAt_iff (t : Node) (p : Path) : RequiredAt t p ↔ (skel t).at? p = some (.leaf .required) := by
  rw [at_skel]
  constructor
  · rintro ⟨f, hf⟩; simp [hf, skel]
  · intro h
    cases hg : getNode t p with
    | none => simp [hg] at h
    | some x =>
      simp only [hg, Option.map_some, Option.some.injEq] at h
      obtain ⟨f, rfl⟩ := skel_eq_leaf h
      exact ⟨f, hg⟩

mutual
theorem hasRequired_skel : ∀ n : Node, hasRequired n = (skel n).hasReq
  | .leaf f k => by cases k <;> rfl
  | .comp f k cs => by simp only [hasRequired, skel, Skel.hasReq, hasRequiredList_skel cs]
theorem hasRequiredList_skel : ∀ cs : List (Key × Node), hasRequiredList cs = Skel.hasReqList (skelList cs)
  | [] => rfl
  | (k, c) :: rest => by
    simp only [hasRequiredList, skelList, Skel.hasReqList, hasRequired_skel c, hasRequiredList_skel rest]
end

mutual
theorem requiredPaths_skel : ∀ (p : Path) (n : Node), requiredPaths p n = (skel n).reqPaths p
  | p, .leaf f k => by cases k <;> rfl
  | p, .comp f k cs => by simp only [requiredPaths, skel, Skel.reqPaths, requiredPathsList_skel p cs]
theorem requiredPathsList_skel : ∀ (p : Path) (cs : List (Key × Node)),
    requiredPathsList p cs = Skel.reqPathsList p (skelList cs)
  | _, [] => rfl
  | p, (k, c) :: rest => by
    simp only [requiredPathsList, skelList, Skel.reqPathsList, requiredPaths_skel (p ++ [k]) c,
      requiredPathsList_skel p rest]
end

theorem hasRequired_congr {a b : Node} (h : skel a = skel b) : hasRequired a = hasRequired b := by
  rw [hasRequired_skel, hasRequired_skel, h]

theorem requiredPaths_congr {a b : Node} (h : skel a = skel b) (p : Path) :
    requiredPaths p a = requiredPaths p b := by
  rw [requiredPaths_skel, requiredPaths_skel, h]

theorem hasRequired_propagate (n : Node) : hasRequired (propagate n) = hasRequired n :=
  hasRequired_congr (skel_propagate n)
theorem hasRequired_adopt (pf : Flags) (pk : CompKind) (n : Node) : hasRequired (adopt pf pk n) = hasRequired n :=
  hasRequired_congr (skel_adopt pf pk n)
theorem hasRequired_setFlags (n : Node) (f : Flags) : hasRequired (n.setFlags f) = hasRequired n :=
  hasRequired_congr (skel_setFlags n f)
theorem hasRequired_inheritInto (p? : Option Int) (kw : Option ChildKw) (n : Node) :
    hasRequired (inheritInto p? kw n) = hasRequired n :=
  hasRequired_congr (skel_inheritInto p? kw n)

/-- a tree without a placeholder has none at any path -/
theorem Skel.at?_hasReq_false : ∀ (p : Path) (t x : Skel), t.hasReq = false → t.at? p = some x → x.hasReq = false
  | [], t, x, h, hx => by simp only [Skel.at?, Option.some.injEq] at hx; subst hx; exact h
  | k :: p, .leaf lk, x, _, hx => by simp [Skel.at?] at hx
  | k :: p, .comp ck kvs, x, h, hx => by
    simp only [Skel.at?] at hx
    cases hl : alookup k kvs with
    | none => simp [hl] at hx
    | some c =>
      simp only [hl, Option.bind_some] at hx
      have hc : c.hasReq = false := by
        simp only [Skel.hasReq] at h
        clear hx
        induction kvs with
        | nil => simp [alookup] at hl
        | cons kv rest ih =>
          obtain ⟨k', c'⟩ := kv
          simp only [Skel.hasReqList, Bool.or_eq_false_iff] at h
          simp only [alookup] at hl
          split at hl
          · injection hl with hl; subst hl; exact h.1
          · exact ih h.2 hl
      exact Skel.at?_hasReq_false p c x hc hx

/-- no placeholder in a tree: no placeholder at any path -/
theorem not_requiredAt_of_hasRequired_false {t : Node} (h : hasRequired t = false) (p : Path) : ¬ RequiredAt t p := by
  rw [requiredAt_iff]
  intro hp
  rw [hasRequired_skel] at h
  have := Skel.at?_hasReq_false p _ _ h hp
  simp [Skel.hasReq] at this

end AY.C14P
