/-
  AY.Lemmas.C08WholeWritten — without priorities a successful merge of a document (no deleting node,
  no duplicated sibling keys, no two keys addressing the same child) leaves every path the document
  writes in the result: the newer node always wins over a leaf, mappings are merged key by key.
  Together with Lemmas/C08WholeNew.lean: the paths created are exactly the paths the document writes and
  the config lacks (all at nodes whose `allow_new` is on, by Lemmas/C08WholeIff.lean).
-/
import AY.Lemmas.C08WholeNew
namespace AY

/-- one successful iteration: length, frame, and the entry it leaves at the slot of its key -/
theorem c08w_step_final {rec : Node → Node → Except Err (Node × Bool)} (hl : c08w_RecLeaf rec)
    {sf : Flags} {sk : CompKind} {scs acc acc1 : List (Key × Node)} {k : Key} {o : Node}
    (hvalid : sk.isDictFam = true ∨ (listKeys 0 scs = true ∧ (validateIndex scs.length true k).isSome = true))
    (hd : o.flags.del ≠ some true) (hlen : sk.isDictFam = true ∨ acc.length = scs.length)
    (hg0 : getChild sk k acc = getChild sk k scs) (hs : mergeStep rec sf sk [] acc (k, o) = .ok acc1) :
    (sk.isDictFam = true ∨ acc1.length = scs.length) ∧
    (∀ key, c08w_slot sk scs.length key ≠ c08w_slot sk scs.length k →
      getChild sk key acc1 = getChild sk key acc) ∧
    (∃ c', getChild sk k acc1 = some c' ∧ c08w_StepRes rec sf sk scs k o c') := by
  have hslotlen : ∀ key, c08w_slot sk acc.length key = c08w_slot sk scs.length key := by
    intro key
    rcases hlen with hsk | hl'
    · rw [c08w_slot_dict hsk, c08w_slot_dict hsk]
    · rw [hl']
  rcases c08w_step_ok_shape hl hd hs with ⟨hg, hr0, hset⟩ | ⟨child, nw, same, K, hg, hr, hK, hlK, hacc, hleaf⟩
  · have hsk : sk.isDictFam = true := by
      rcases hvalid with h' | ⟨hnum, hval⟩
      · exact h'
      · cases hskd : sk.isDictFam with
        | true => rfl
        | false =>
          obtain ⟨c, hc⟩ := c08w_getChild_valid hskd hnum hval
          rw [hg0] at hg; rw [hg] at hc; cases hc
    simp only [setChild, hsk, if_true, Except.ok.injEq] at hset
    subst hset
    refine ⟨.inl hsk, fun key hne => ?_, ⟨adopt sf sk o, ?_, .inl ⟨hg0 ▸ hg, hr0, rfl⟩⟩⟩
    · rw [c08w_slot_dict hsk, c08w_slot_dict hsk] at hne
      simp only [getChild, hsk, if_true, alookup_aset]
      rw [if_neg]
      intro e; exact hne (by rw [e])
    · simp [getChild, hsk, alookup_aset]
  · have hKs : c08w_slot sk scs.length k = some K := by rw [← hslotlen]; exact hK
    have hall : ∀ v, (acc1 = aset K v acc) →
        (sk.isDictFam = true ∨ acc1.length = scs.length) ∧
        (∀ key, c08w_slot sk scs.length key ≠ c08w_slot sk scs.length k →
          getChild sk key acc1 = getChild sk key acc) ∧ getChild sk k acc1 = some v := by
      intro v e
      subst e
      refine ⟨?_, fun key hne => ?_, ?_⟩
      · rcases hlen with h' | h'
        · exact .inl h'
        · exact .inr (by rw [c08w_length_aset hlK, h'])
      · rw [c08w_getChild_aset sk key K v child acc hlK, if_neg]
        rw [hslotlen, ← hKs]; exact hne
      · rw [c08w_getChild_aset sk k K v child acc hlK, if_pos hK]
    rcases hacc with e | e
    · obtain ⟨h1, h2, h3⟩ := hall _ e
      exact ⟨h1, h2, nw, h3, .inr ⟨child, nw, same, hg0 ▸ hg, hr, .inl rfl, hleaf⟩⟩
    · obtain ⟨h1, h2, h3⟩ := hall _ e
      exact ⟨h1, h2, _, h3, .inr ⟨child, nw, same, hg0 ▸ hg, hr, .inr rfl, hleaf⟩⟩

/-- after the loop every key of the newer mapping finds the entry its iteration left -/
theorem c08w_loop_written {rec : Node → Node → Except Err (Node × Bool)} (hl : c08w_RecLeaf rec)
    {sf : Flags} {sk : CompKind} {scs : List (Key × Node)} :
    ∀ (rest acc acc' : List (Key × Node)),
      (sk.isDictFam = true ∨ (listKeys 0 scs = true ∧
          ∀ kv ∈ rest, (validateIndex scs.length true kv.1).isSome = true)) →
      c08w_slotsNodup sk scs.length rest = true →
      (∀ kv ∈ rest, kv.2.flags.del ≠ some true) →
      (sk.isDictFam = true ∨ acc.length = scs.length) →
      (∀ kv ∈ rest, getChild sk kv.1 acc = getChild sk kv.1 scs) →
      mergeLoop rec sf sk [] acc rest = .ok acc' →
      (∀ key, (∀ kv ∈ rest, c08w_slot sk scs.length key ≠ c08w_slot sk scs.length kv.1) →
        getChild sk key acc' = getChild sk key acc) ∧
      (∀ kv ∈ rest, ∃ c', getChild sk kv.1 acc' = some c' ∧ c08w_StepRes rec sf sk scs kv.1 kv.2 c')
  | [], acc, acc', _, _, _, _, _, h => by
    simp only [mergeLoop, Except.ok.injEq] at h
    subst h
    exact ⟨fun _ _ => rfl, fun kv hkv => by cases hkv⟩
  | (k, o) :: rest, acc, acc', hvalid, hnd, hdel, hlen, hinv, h => by
    obtain ⟨hnd', hslots⟩ := c08w_slotsNodup_cons hnd
    have hd : o.flags.del ≠ some true := hdel (k, o) (by simp)
    have hg0 : getChild sk k acc = getChild sk k scs := hinv (k, o) (by simp)
    simp only [mergeLoop] at h
    cases hs : mergeStep rec sf sk [] acc (k, o) with
    | error e => rw [hs] at h; cases h
    | ok acc1 =>
      rw [hs] at h
      simp only at h
      have hvalidk : sk.isDictFam = true ∨ (listKeys 0 scs = true ∧ (validateIndex scs.length true k).isSome = true) := by
        rcases hvalid with h' | ⟨h1, h2⟩
        · exact .inl h'
        · exact .inr ⟨h1, h2 (k, o) (by simp)⟩
      have hvalid' : sk.isDictFam = true ∨ (listKeys 0 scs = true ∧
          ∀ kv ∈ rest, (validateIndex scs.length true kv.1).isSome = true) := by
        rcases hvalid with h' | ⟨h1, h2⟩
        · exact .inl h'
        · exact .inr ⟨h1, fun kv hkv => h2 kv (List.mem_cons_of_mem _ hkv)⟩
      obtain ⟨hlen1, hframe, c1, hc1, hres1⟩ := c08w_step_final hl hvalidk hd hlen hg0 hs
      -- the slot of `k` is addressed by no later key
      have hks : ∃ s, c08w_slot sk scs.length k = some s := by
        rcases hvalidk with h' | ⟨_, hv⟩
        · exact ⟨k, c08w_slot_dict h' _ k⟩
        · cases hskd : sk.isDictFam with
          | true => exact ⟨k, c08w_slot_dict hskd _ k⟩
          | false =>
            cases hvi : validateIndex scs.length true k with
            | none => rw [hvi] at hv; cases hv
            | some i => exact ⟨.int i, by simp [c08w_slot, hskd, hvi]⟩
      obtain ⟨s, hs'⟩ := hks
      have hother : ∀ kv ∈ rest, c08w_slot sk scs.length kv.1 ≠ c08w_slot sk scs.length k := by
        intro kv hkv; rw [hs']; exact hslots s hs' kv hkv
      have hinv1 : ∀ kv ∈ rest, getChild sk kv.1 acc1 = getChild sk kv.1 scs := by
        intro kv hkv
        rw [hframe kv.1 (hother kv hkv)]
        exact hinv kv (List.mem_cons_of_mem _ hkv)
      obtain ⟨ihf, ihm⟩ := c08w_loop_written hl rest acc1 acc' hvalid' hnd'
        (fun kv hkv => hdel kv (List.mem_cons_of_mem _ hkv)) hlen1 hinv1 h
      refine ⟨fun key hkey => ?_, fun kv hkv => ?_⟩
      · rw [ihf key (fun kv hkv => hkey kv (List.mem_cons_of_mem _ hkv))]
        exact hframe key (hkey (k, o) (by simp))
      · rcases List.mem_cons.1 hkv with e | hkv'
        · subst e
          refine ⟨c1, ?_, hres1⟩
          rw [ihf k (fun kv hkv => (hother kv hkv).symm)]
          exact hc1
        · exact ihm kv hkv'

/-- on a document `get_child` along a path is `get_node` -/
theorem c08w_has_of_nodeAt_doc {inh : Option Bool} {o m : Node} {q : Path} (ho : c08w_doc inh o = true)
    (hk : KI.Keyed o = true) (h : c08_nodeAt o q m) : c08w_has o q = true := by
  induction h generalizing inh with
  | root n => simp
  | @child f k cs key c q m hmem _ ih =>
    obtain ⟨_, _, hkd, hcs⟩ := c08w_doc_comp ho
    subst hkd
    have hcs' : KI.CS .dict cs := (KI.keyed_comp _ _ _).1 hk
    have hnd : keysNodup cs = true := by
      rw [ki_keysNodup_assoc]
      simpa [KI.topOK, CompKind.isDictFam] using hcs'.1
    have hl : alookup key cs = some c := c08_alookup_of_mem key c cs hnd hmem
    rw [c08w_has_cons]
    simp only [getChild, CompKind.isDictFam, if_true, hl]
    exact ih (c08w_docL_mem hcs _ hmem) (KI.keyed_of_lookup hcs'.2 hl)

/-- what the recursive merge must provide: everything the document writes is in the result -/
def c08w_Written (b r : Node) : Prop := ∀ q m, c08_nodeAt b q m → c08w_has r q = true

theorem c08w_stepRes_written {rec : Node → Node → Except Err (Node × Bool)} (hl : c08w_RecLeaf rec)
    {sf : Flags} {sk : CompKind} {scs : List (Key × Node)} {inh : Option Bool} {k : Key} {o c' : Node}
    (ho : c08w_doc inh o = true) (hko : KI.Keyed o = true) (hop : o.flags.prio = none)
    (hcp : ∀ c, getChild sk k scs = some c → c.flags.prio = none)
    (hrec : ∀ child r s, getChild sk k scs = some child → child.isComp = true → rec child o = .ok (r, s) →
      c08w_Written o r)
    (h : c08w_StepRes rec sf sk scs k o c') : c08w_Written o c' := by
  intro q m hq
  rcases h with ⟨_, _, rfl⟩ | ⟨child, nw, same, hg, hr, hc', _⟩
  · rw [c08w_has_adopt]; exact c08w_has_of_nodeAt_doc ho hko hq
  · have hnw : c08w_has nw q = true := by
      cases child with
      | comp cf ck ccs => exact hrec _ nw same hg rfl hr q m hq
      | leaf cf clk =>
        have hlr := hl cf clk o _ _ hr
        rw [c08w_leafRule_noPrio (hcp _ hg) hop] at hlr
        injection hlr with h1 _
        subst h1
        rw [c08w_has_propagate, c08w_has_setFlags]
        exact c08w_has_of_nodeAt_doc ho hko hq
    rcases hc' with e | e <;> subst e
    · exact hnw
    · rwa [c08w_has_adopt]

theorem c08w_compMerge_written {rec : Node → Node → Except Err (Node × Bool)} (hl : c08w_RecLeaf rec)
    {sf : Flags} {sk : CompKind} {scs : List (Key × Node)} {of : Flags} {ocs : List (Key × Node)}
    {inh : Option Bool} {r : Node} {s : Bool} (hnd : c08w_nd of = true) (hocs : c08w_docL inh ocs = true)
    (hkb : KI.KeyedL ocs = true)
    (hna : c08w_noAlias (.comp sf sk scs) (.comp of .dict ocs) = true)
    (hvalid : sk.isDictFam = true ∨ (listKeys 0 scs = true ∧ listKeysValid scs.length ocs = true))
    (hap : c08w_noPrio (.comp sf sk scs) = true) (hbp : c08w_noPrioL ocs = true)
    (hrec : ∀ kv ∈ ocs, ∀ c r s, getChild sk kv.1 scs = some c → c.isComp = true →
      c08w_noAlias c kv.2 = true → rec c kv.2 = .ok (r, s) → c08w_Written kv.2 r)
    (h : compMerge rec sf sk scs (.comp of .dict ocs) = .ok (r, s)) :
    c08w_Written (.comp of .dict ocs) r := by
  obtain ⟨hsn, hnl⟩ := c08w_noAlias_comp hna
  rw [c08w_compMerge_dict rec sf sk scs ocs hnd] at h
  split at h
  · cases h
  · rename_i scs' hloop
    have hv : sk.isDictFam = true ∨ (listKeys 0 scs = true ∧
        ∀ kv ∈ ocs, (validateIndex scs.length true kv.1).isSome = true) := by
      rcases hvalid with h | ⟨h1, h2⟩
      · exact .inl h
      · exact .inr ⟨h1, c08w_listKeysValid_mem h2⟩
    obtain ⟨_, hmem⟩ := c08w_loop_written (sf := sf) hl ocs scs scs' hv hsn (c08w_docL_del hocs) (.inr rfl)
      (fun _ _ => rfl) hloop
    obtain ⟨F, hF⟩ := c08w_finishMerge_dict sf sk scs' of ocs
    rw [hF] at h
    injection h with h
    injection h with h _
    subst h
    intro p m hp
    cases p with
    | nil => simp
    | cons k q =>
      obtain ⟨c, hkc, hq⟩ := c08w_nodeAt_cons hp
      obtain ⟨c', hgc, hsr⟩ := hmem (k, c) hkc
      rw [c08w_has_propagate, c08w_has_cons, hgc]
      exact c08w_stepRes_written hl (c08w_docL_mem hocs _ hkc) ((KI.KeyedL_iff ocs).1 hkb (k, c) hkc)
        (c08w_noPrio_flags (c08w_noPrioL_mem hbp _ hkc))
        (fun ch hch => c08w_noPrio_flags (c08w_noPrio_getChild hap hch))
        (fun child r' s' hgch hc hr => hrec _ hkc child r' s' hgch hc (c08w_noAliasL_mem hnl _ hkc child hgch) hr)
        hsr q m hq

/-- the fuel-indexed statement -/
theorem c08w_mergeF_written : ∀ (n : Nat) (a b : Node) (inh : Option Bool) (r : Node) (s : Bool),
    KI.Keyed a = true → KI.Keyed b = true → a.isComp = true → c08w_noPrio a = true → c08w_noPrio b = true →
    c08w_top inh b = true → c08w_noAlias a b = true → mergeF n a b = .ok (r, s) → c08w_Written b r
  | 0, _, _, _, _, _, _, _, _, _, _, _, _, h => by simp [mergeF] at h
  | n + 1, a, b, inh, r, s, hka, hkb, hac, hap, hbp, hb, hna, h => by
    have hl := c08w_recLeaf_mergeF n
    cases a with
    | leaf f lk => cases hac
    | comp sf sk scs =>
      have hcs : KI.CS sk scs := (KI.keyed_comp _ _ _).1 hka
      cases b with
      | leaf fb lkb =>
        intro q m hq
        cases q with
        | nil => simp
        | cons k q => exact (c08w_nodeAt_leaf hq).elim
      | comp of ok ocs =>
        obtain ⟨hnd, hk, hocs⟩ := c08w_top_comp hb
        subst hk
        have hkb' : KI.CS .dict ocs := (KI.keyed_comp _ _ _).1 hkb
        have hbp' : of.prio = none ∧ c08w_noPrioL ocs = true := by simpa [c08w_noPrio] using hbp
        have hrec : ∀ kv ∈ ocs, ∀ c r s, getChild sk kv.1 scs = some c → c.isComp = true →
            c08w_noAlias c kv.2 = true → mergeF n c kv.2 = .ok (r, s) → c08w_Written kv.2 r := by
          intro kv hkv c r' s' hg hc hnac hr
          exact c08w_mergeF_written n c kv.2 _ r' s' (KI.getChild_keyed hcs.2 hg)
            ((KI.KeyedL_iff ocs).1 hkb'.2 kv hkv) hc
            (c08w_noPrio_getChild hap hg) (c08w_noPrioL_mem hbp'.2 kv hkv)
            (c08w_top_of_doc (c08w_docL_mem hocs kv hkv)) hnac hr
        have hcm : ∀ (hv : sk.isDictFam = true ∨ (listKeys 0 scs = true ∧ listKeysValid scs.length ocs = true)),
            compMerge (mergeF n) sf sk scs (.comp of .dict ocs) = .ok (r, s) →
            c08w_Written (.comp of .dict ocs) r :=
          fun hv h' => c08w_compMerge_written hl hnd hocs hkb'.2 hna hv hap hbp'.2 hrec h'
        have hlm : sk.isDictFam = false → listMerge (mergeF n) sf sk scs (.comp of .dict ocs) = .ok (r, s) →
            c08w_Written (.comp of .dict ocs) r := by
          intro hsk h'
          simp only [listMerge] at h'
          split at h'
          · cases h'
          · rename_i hcond
            rw [c08w_filter_top _ hb] at h'
            have hv : listKeysValid scs.length ocs = true := by
              simp only [CompKind.isDictFam, c08w_eDel_top hb, Bool.not_false, Bool.true_and,
                Bool.not_eq_true', Bool.not_eq_false] at hcond
              exact hcond
            exact hcm (.inr ⟨c08w_listKeys_of_CS hcs hsk, hv⟩) h'
        cases sk with
        | dict => exact hcm (.inl rfl) (by simpa only [mergeF] using h)
        | call g => exact hcm (.inl rfl) (by simpa only [mergeF, funcMerge, CompKind.func?] using h)
        | bind g => exact hcm (.inl rfl) (by simpa only [mergeF, funcMerge, CompKind.func?] using h)
        | list => exact hlm rfl (by simpa only [mergeF] using h)
        | append => exact hlm rfl (by simpa only [mergeF] using h)
        | extend => exact hlm rfl (by simpa only [mergeF] using h)
        | path p => exact hlm rfl (by simpa only [mergeF] using h)
        | stream => exact hlm rfl (by simpa only [mergeF] using h)

end AY
