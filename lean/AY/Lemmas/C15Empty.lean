/-
  AY.Lemmas.C15Empty — an empty mapping document is neutral for the merge (model side), for
  property C15: on the right it only touches the flags of the root, on the left every child of the
  newer document is adopted.
-/
import AY.Lemmas.C05Wrap
import AY.Lemmas.C03Leaf
namespace AY

/-! ### `allow_new` everywhere: `_require_all_new` never fires -/

mutual
/-- every node of the tree has effective `allow_new = True` (no `!notnew` reaches it) -/
def allNew : Node → Bool
  | .leaf f _ => eNew f
  | .comp f _ cs => eNew f && allNewList cs
def allNewList : List (Key × Node) → Bool
  | [] => true
  | (_, c) :: rest => allNew c && allNewList rest
end

mutual
theorem reqNew_allNew : ∀ (exc : List Path) (p : Path) (n : Node), allNew n = true → reqNew exc p n = none
  | exc, p, .leaf f k, h => by
    have : eNew f = true := by simpa [allNew] using h
    simp [reqNew, this]
  | exc, p, .comp f k cs, h => by
    have h' : eNew f = true ∧ allNewList cs = true := by simpa [allNew] using h
    simp [reqNew, h'.1, reqNewList_allNew exc p cs h'.2]
theorem reqNewList_allNew : ∀ (exc : List Path) (p : Path) (cs : List (Key × Node)),
    allNewList cs = true → reqNewList exc p cs = none
  | _, _, [], _ => by simp [reqNewList]
  | exc, p, (k, c) :: rest, h => by
    have h' : allNew c = true ∧ allNewList rest = true := by simpa [allNewList] using h
    simp [reqNewList, reqNew_allNew exc (p ++ [k]) c h'.1, reqNewList_allNew exc p rest h'.2]
end

mutual
/-- without exceptions the check is exactly `allNew` -/
theorem allNew_of_reqNew : ∀ (p : Path) (n : Node), reqNew [] p n = none → allNew n = true
  | p, .leaf f k, h => by
    cases hf : eNew f <;> simp_all [reqNew, allNew]
  | p, .comp f k cs, h => by
    cases hf : eNew f
    · simp [reqNew, hf] at h
    · simp only [reqNew, hf, Bool.not_true, Bool.false_and, Bool.false_eq_true, if_false] at h
      simp [allNew, hf, allNewList_of_reqNewList p cs h]
theorem allNewList_of_reqNewList : ∀ (p : Path) (cs : List (Key × Node)),
    reqNewList [] p cs = none → allNewList cs = true
  | _, [], _ => rfl
  | p, (k, c) :: rest, h => by
    simp only [reqNewList] at h
    cases hc : reqNew [] (p ++ [k]) c with
    | some q => simp [hc] at h
    | none =>
      simp only [hc] at h
      simp [allNewList, allNew_of_reqNew _ c hc, allNewList_of_reqNewList p rest h]
end

theorem reqNewBelow_allNew {n : Node} (h : allNew n = true) : reqNewBelow n = none := by
  cases n with
  | leaf f k => rfl
  | comp f k cs =>
    have h' : eNew f = true ∧ allNewList cs = true := by simpa [allNew] using h
    exact reqNewList_allNew [] [] cs h'.2

/-! ### empty mapping on the right -/

/-- the node that `a ⊕ {}` leaves: only the flags of the root are combined -/
def emptyRightResult (sf : Flags) (sk : CompKind) (scs : List (Key × Node)) (ef : Flags) : Node :=
  if hasPrio ef sf true then propagate (.comp (replaceSelfFlags sf ef) sk scs)
  else propagate (.comp (replaceOtherFlags sf ef) sk scs)

theorem mergeF_empty_right (fuel : Nat) (sf : Flags) (sk : CompKind) (scs : List (Key × Node))
    (ef : Flags) (hk : sk.isDictFam = true) (he : bareW ef = true) :
    mergeF (fuel + 1) (.comp sf sk scs) (.comp ef .dict []) = .ok (emptyRightResult sf sk scs ef, true) := by
  have hd := eDel_bare_dict (cs := []) he
  cases sk with
  | dict =>
    simp only [mergeF, compMerge, hd, Bool.false_eq_true, if_false, mergeLoop, finishMerge, Node.flags,
      maybePromote, CompKind.sameClass, if_true, emptyRightResult]
    split <;> rfl
  | call f =>
    simp only [mergeF, funcMerge, CompKind.func?, compMerge, hd, Bool.false_eq_true, if_false, mergeLoop,
      finishMerge, Node.flags, maybePromote, CompKind.sameClass, CompKind.strictSub, if_true,
      emptyRightResult]
    split <;> rfl
  | bind f =>
    simp only [mergeF, funcMerge, CompKind.func?, compMerge, hd, Bool.false_eq_true, if_false, mergeLoop,
      finishMerge, Node.flags, maybePromote, CompKind.sameClass, CompKind.strictSub, if_true,
      emptyRightResult]
    split <;> rfl
  | list => cases hk
  | append => cases hk
  | extend => cases hk
  | path r => cases hk
  | stream => cases hk

theorem native_emptyRightResult (sf : Flags) (sk : CompKind) (scs : List (Key × Node)) (ef : Flags) :
    native (emptyRightResult sf sk scs ef) = native (.comp sf sk scs) := by
  simp only [emptyRightResult]
  split
  · rw [nativeOf_propagate]; exact native_comp_flags _ _ _ _
  · rw [nativeOf_propagate]; exact native_comp_flags _ _ _ _

/-- keys and data of the children after `a ⊕ {}` -/
theorem children_emptyRightResult (sf : Flags) (sk : CompKind) (scs : List (Key × Node)) (ef : Flags) :
    nativeList (emptyRightResult sf sk scs ef).children = nativeList scs ∧
    nativeVals (emptyRightResult sf sk scs ef).children = nativeVals scs := by
  simp only [emptyRightResult]
  split
  · simp only [propagate]
    split
    · exact ⟨rfl, rfl⟩
    · exact ⟨nativeList_applyKwList _ _, nativeVals_applyKwList _ _⟩
  · simp only [propagate]
    split
    · exact ⟨rfl, rfl⟩
    · exact ⟨nativeList_applyKwList _ _, nativeVals_applyKwList _ _⟩

/-! ### empty mapping on the left -/

/-- every child re-parented under the (so far empty) older mapping -/
def adoptList (ef : Flags) : List (Key × Node) → List (Key × Node)
  | [] => []
  | (k, v) :: rest => (k, adopt ef .dict v) :: adoptList ef rest

theorem nativeList_adoptList (ef : Flags) : ∀ cs : List (Key × Node), nativeList (adoptList ef cs) = nativeList cs
  | [] => rfl
  | (k, v) :: rest => by simp [adoptList, nativeList, native_adopt, nativeList_adoptList ef rest]

theorem akeys_adoptList (ef : Flags) : ∀ cs : List (Key × Node), akeys (adoptList ef cs) = akeys cs
  | [] => rfl
  | (k, v) :: rest => by simp [adoptList, akeys, akeys_adoptList ef rest]

/-- the key loop over keys none of which exists yet: every child is adopted, in order -/
theorem mergeLoop_fresh {exc : List Path} (rec : Node → Node → Except Err (Node × Bool)) (ef : Flags) :
    ∀ (bcs acc : List (Key × Node)), keysNodup bcs = true →
      (∀ k, k ∈ akeys bcs → alookup k acc = none) → allNewList bcs = true →
      mergeLoop rec ef .dict exc acc bcs = .ok (acc ++ adoptList ef bcs)
  | [], acc, _, _, _ => by simp [mergeLoop, adoptList]
  | (k, v) :: rest, acc, hnd, hfresh, hnew => by
    have hnd' : (akeys rest).contains k = false ∧ keysNodup rest = true := by simpa [keysNodup] using hnd
    have hnew' : allNew v = true ∧ allNewList rest = true := by simpa [allNewList] using hnew
    have hk : alookup k acc = none := hfresh k (by simp [akeys])
    have hfresh' : ∀ k', k' ∈ akeys rest → alookup k' (acc ++ [(k, adopt ef .dict v)]) = none := by
      intro k' hk'
      apply alookup_append_none
      · exact hfresh k' (by simp [akeys, hk'])
      · have : k ≠ k' := by
          intro e; subst e
          have := hnd'.1
          simp at this
          exact this hk'
        simp [alookup, this]
    have ih := mergeLoop_fresh (exc := exc) rec ef rest _ hnd'.2 hfresh' hnew'.2
    simp only [mergeLoop, mergeStep, getChild, CompKind.isDictFam, if_true, hk,
      reqNew_allNew _ [] v hnew'.1, setChild, aset_of_lookup_none k _ acc hk, ih, adoptList]
    simp

/-- the result of `{} ⊕ b` for a mapping `b` -/
def emptyLeftResult (ef bf : Flags) (bcs : List (Key × Node)) : Node × Bool :=
  if eDel (.comp bf .dict bcs) && hasPrio bf ef true then
    (propagate (.comp (replaceOtherFlags bf ef) .dict bcs), false)
  else if hasPrio bf ef true then
    (propagate (.comp (replaceSelfFlags ef bf) .dict (adoptList ef bcs)), true)
  else (propagate (.comp (replaceOtherFlags ef bf) .dict (adoptList ef bcs)), true)

theorem mergeF_empty_left (fuel : Nat) (ef bf : Flags) (bcs : List (Key × Node))
    (hnd : keysNodup bcs = true) (hnew : allNewList bcs = true) :
    mergeF (fuel + 1) (.comp ef .dict []) (.comp bf .dict bcs) = .ok (emptyLeftResult ef bf bcs) := by
  have hloop := mergeLoop_fresh (exc := []) (mergeF fuel) ef bcs [] hnd (fun _ _ => rfl) hnew
  simp only [List.nil_append] at hloop
  have hfin : finishMerge ef .dict (adoptList ef bcs) (.comp bf .dict bcs) =
      .ok (if hasPrio bf ef true then
          (propagate (.comp (replaceSelfFlags ef bf) .dict (adoptList ef bcs)), true)
        else (propagate (.comp (replaceOtherFlags ef bf) .dict (adoptList ef bcs)), true)) := by
    simp only [finishMerge, Node.flags, maybePromote, CompKind.sameClass, if_true]
    split <;> rfl
  simp only [mergeF, compMerge, emptyLeftResult]
  cases hd : eDel (.comp bf .dict bcs)
  · simp only [Bool.false_eq_true, if_false, hloop, hfin, Bool.false_and]
  · simp only [if_true, filterNode, filterList, notKeptNames, dropMarks, List.reverse_nil, removeMany,
      Node.children, List.isEmpty_nil, Bool.true_and, List.map_nil, List.append_nil]
    cases hp : hasPrio bf ef true
    · simp only [Bool.false_eq_true, if_false, hloop, hfin, hp]
    · have hr : reqNew [[]] [] (.comp bf .dict bcs) = none := by
        simp [reqNew, reqNewList_allNew _ _ _ hnew]
      simp only [if_true, hr, maybePromote, CompKind.sameClass, Bool.not_true]

theorem native_emptyLeftResult (ef bf : Flags) (bcs : List (Key × Node)) :
    native (emptyLeftResult ef bf bcs).1 = native (.comp bf .dict bcs) := by
  simp only [emptyLeftResult]
  split
  · rw [nativeOf_propagate]; exact native_comp_flags _ _ _ _
  · split
    · rw [nativeOf_propagate]; simp [native, nativeList_adoptList, CompKind.isDictFam]
    · rw [nativeOf_propagate]; simp [native, nativeList_adoptList, CompKind.isDictFam]

end AY
