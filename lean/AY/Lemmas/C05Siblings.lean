/-
  AY.Lemmas.C05Siblings — sibling independence of a mapping merge (property C05): what
  `ComposedNode.on_merge_impl` leaves under a key `k` of a mapping is determined by the two entries
  stored under `k` and the flags of the two mappings.

  The comparison object is the model itself on the two mappings restricted to `k` (`single`):
  `mergeF (fuel+1) {k: scs[k]} {k: ocs[k]}`.  Internally one iteration of the key loop is described
  by `stepAt` (a function of the entry of `self`, the incoming value, the flags of `self` and the
  exceptions below `k`), the pruning of a deleting `other` by `keptAt` / `remAt`.
-/
import AY.Lemmas.C05Wrap
import AY.Lemmas.C05Frame
import AY.Lemmas.C04Merge
import AY.Lemmas.ExcBelow
namespace AY

/-! ### definitions -/

/-- the mapping content restricted to one key: `{k: c}` or `{}` -/
def single (k : Key) : Option Node → List (Key × Node)
  | none => []
  | some c => [(k, c)]

/-- the error of a failed run -/
def errOf {α : Type} : Except Err α → Option Err
  | .error e => some e
  | .ok _ => none

/-- One iteration of the key loop of a mapping seen from the key it works on: `c?` is the entry
    `self` has under `k` (if any), `v` the incoming value; the result is the entry afterwards
    (`none` = no entry). -/
def stepAt (rec : Node → Node → Except Err (Node × Bool)) (sf : Flags) (exc : List Path) (k : Key)
    (c? : Option Node) (v : Node) : Except Err (Option Node) :=
  match c? with
  | none =>
    match reqNew (excBelow k exc) [] v with
    | some p => .error (.notnew (k :: p))
    | none => .ok (some (adopt sf .dict v))
  | some child =>
    match rec child v with
    | .error e => .error (e.prepend k)
    | .ok (nw, same) =>
      if child.isComp then
        if !nw.truthy && !hasPrio nw.flags v.flags false && v.flags.del == some true then .ok none
        else if same then .ok (some nw)
        else .ok (some (adopt sf .dict nw))
      else
        if same then .ok (some nw)
        else
          match reqNewBelow nw with
          | some p => .error (.notnew (k :: p))
          | none =>
            if !nw.truthy && nw.flags.del == some true then .ok none
            else .ok (some (adopt sf .dict nw))

/-- store (or remove) the entry under `k` -/
def putAt (k : Key) (acc : List (Key × Node)) : Option Node → List (Key × Node)
  | none => aerase k acc
  | some x => aset k x acc

/-! ### association lists -/

@[simp] theorem errOf_ok {α : Type} (a : α) : errOf (.ok a : Except Err α) = none := rfl
@[simp] theorem errOf_error {α : Type} (e : Err) : errOf (.error e : Except Err α) = some e := rfl

theorem errOf_none {α : Type} {x : Except Err α} (h : errOf x = none) : ∃ a, x = .ok a := by
  cases x with
  | error e => simp at h
  | ok a => exact ⟨a, rfl⟩

theorem mem_of_alookup {α : Type} {k : Key} {v : α} : ∀ {l : List (Key × α)}, alookup k l = some v → (k, v) ∈ l
  | [], h => by simp [alookup] at h
  | (k', v') :: rest, h => by
    by_cases e : k' = k
    · subst e
      simp only [alookup, if_true, Option.some.injEq] at h
      subst h
      simp
    · simp only [alookup, e, if_false] at h
      exact List.mem_cons_of_mem _ (mem_of_alookup h)

theorem mem_akeys_of_mem {α : Type} {k : Key} {v : α} : ∀ {l : List (Key × α)}, (k, v) ∈ l → k ∈ akeys l
  | [], h => by cases h
  | a :: r, h => by
    rcases List.mem_cons.1 h with h | h
    · subst h; simp [akeys]
    · simp [akeys, mem_akeys_of_mem h]

theorem alookup_of_mem {α : Type} {k : Key} {v : α} : ∀ {l : List (Key × α)}, keysNodup l = true →
    (k, v) ∈ l → alookup k l = some v
  | [], _, h => by cases h
  | (k', v') :: rest, hn, h => by
    have hn' : k' ∉ akeys rest ∧ keysNodup rest = true := by simpa [keysNodup] using hn
    rcases List.mem_cons.1 h with h | h
    · injection h with h1 h2
      subst h1; subst h2
      simp [alookup]
    · have hk : k ∈ akeys rest := mem_akeys_of_mem h
      have : ¬ k' = k := fun e => hn'.1 (e ▸ hk)
      simp only [alookup, this, if_false]
      exact alookup_of_mem hn'.2 h

theorem alookup_single (k : Key) (c? : Option Node) : alookup k (single k c?) = c? := by
  cases c? <;> simp [single, alookup]

theorem alookup_single_ne {k k' : Key} (h : k ≠ k') (c? : Option Node) : alookup k' (single k c?) = none := by
  cases c? <;> simp [single, alookup, h]

theorem keysNodup_single (k : Key) (c? : Option Node) : keysNodup (single k c?) = true := by
  cases c? <;> simp [single, keysNodup, akeys]

theorem alookup_aerase_self {α : Type} (k : Key) : ∀ l : List (Key × α), keysNodup l = true →
    alookup k (aerase k l) = none
  | [], _ => rfl
  | (k', v) :: rest, h => by
    have h' : (akeys rest).contains k' = false ∧ keysNodup rest = true := by simpa [keysNodup] using h
    by_cases e : k' = k
    · subst e
      simp only [aerase, if_true]
      exact (alookup_none_iff k' rest).2 h'.1
    · simp [aerase, alookup, e, alookup_aerase_self k rest h'.2]

theorem alookup_putAt_self (k : Key) (acc : List (Key × Node)) (h : keysNodup acc = true) (x? : Option Node) :
    alookup k (putAt k acc x?) = x? := by
  cases x? with
  | none => exact alookup_aerase_self k acc h
  | some x => simp [putAt, alookup_aset]

theorem alookup_putAt_ne {k k' : Key} (hne : k ≠ k') (acc : List (Key × Node)) (x? : Option Node) :
    alookup k' (putAt k acc x?) = alookup k' acc := by
  cases x? with
  | none => exact alookup_aerase k' k hne acc
  | some x => simp [putAt, alookup_aset, hne]

theorem akeys_aerase_sub {α : Type} (k : Key) : ∀ (l : List (Key × α)) (x : Key),
    x ∈ akeys (aerase k l) → x ∈ akeys l
  | [], _, h => by simp [aerase, akeys] at h
  | (k', v') :: rest, x, h => by
    by_cases hk : k' = k
    · simp [aerase, hk] at h; simp [akeys, h]
    · simp only [aerase, hk, if_false, akeys, List.mem_cons] at h ⊢
      rcases h with h | h
      · exact .inl h
      · exact .inr (akeys_aerase_sub k rest x h)

theorem keysNodup_aerase {α : Type} (k : Key) : ∀ l : List (Key × α), keysNodup l = true →
    keysNodup (aerase k l) = true
  | [], _ => rfl
  | (k', v) :: rest, h => by
    have h' : (akeys rest).contains k' = false ∧ keysNodup rest = true := by simpa [keysNodup] using h
    by_cases e : k' = k
    · simp [aerase, e, h'.2]
    · have : k' ∉ akeys (aerase k rest) := by
        intro hm
        have := akeys_aerase_sub k rest k' hm
        have h1 := h'.1
        simp at h1
        exact absurd this h1
      simp [aerase, e, keysNodup, this, keysNodup_aerase k rest h'.2]

theorem keysNodup_aset {α : Type} (k : Key) (v : α) (l : List (Key × α)) (h : keysNodup l = true) :
    keysNodup (aset k v l) = true := by
  cases hl : alookup k l with
  | none =>
    rw [aset_of_lookup_none k v l hl]
    have hc := (alookup_none_iff k l).1 hl
    clear hl
    induction l with
    | nil => simp [keysNodup, akeys]
    | cons kv rest ih =>
      obtain ⟨k', v'⟩ := kv
      have h' : (akeys rest).contains k' = false ∧ keysNodup rest = true := by simpa [keysNodup] using h
      have hc' : ¬ k = k' ∧ (akeys rest).contains k = false := by
        simp only [akeys, List.contains_cons, Bool.or_eq_false_iff, beq_eq_false_iff_ne, ne_eq] at hc
        exact hc
      have h1 : k' ∉ akeys rest := by simpa using h'.1
      have : k' ∉ akeys (rest ++ [(k, v)]) := by
        rw [keysOf_append]
        simp only [akeys, List.mem_append, List.mem_cons, List.not_mem_nil, or_false, not_or]
        exact ⟨h1, fun e => hc'.1 e.symm⟩
      simp [keysNodup, this, ih h'.2 hc'.2]
  | some x => rw [keysNodup_congr _ l (keysOf_aset_of_some k v l (by simp [hl]))]; exact h

theorem keysNodup_putAt (k : Key) (acc : List (Key × Node)) (h : keysNodup acc = true) (x? : Option Node) :
    keysNodup (putAt k acc x?) = true := by
  cases x? with
  | none => exact keysNodup_aerase k acc h
  | some x => exact keysNodup_aset k x acc h

/-! ### one iteration of the key loop -/

/-- `mergeStep` on a mapping: compute the new entry from the old one, store it -/
theorem mergeStep_dict_stepAt (rec : Node → Node → Except Err (Node × Bool)) (sf : Flags)
    (exc : List Path) (acc : List (Key × Node)) (k : Key) (v : Node) :
    mergeStep rec sf .dict exc acc (k, v) =
      (stepAt rec sf exc k (alookup k acc) v).map (putAt k acc) := by
  have hd : CompKind.dict.isDictFam = true := rfl
  simp only [mergeStep, c04_getChild_dict hd, c04_setChild_dictFam hd, c04_replaceChild_dictFam hd, stepAt]
  cases hl : alookup k acc with
  | none =>
    simp only
    cases reqNew (excBelow k exc) [] v <;> rfl
  | some child =>
    have hsome : (alookup k acc).isSome = true := by simp [hl]
    simp only [c04_removeChildE_dictFam hd k acc hsome]
    cases rec child v with
    | error e => rfl
    | ok res =>
      obtain ⟨nw, same⟩ := res
      simp only
      split
      · split
        · rfl
        · split <;> rfl
      · split
        · rfl
        · cases reqNewBelow nw with
          | some p => rfl
          | none =>
            simp only
            split <;> rfl

/-- on the restriction to `k` the step computes the same entry -/
theorem mergeStep_single (rec : Node → Node → Except Err (Node × Bool)) (sf : Flags)
    (exc : List Path) (k : Key) (c? : Option Node) (v : Node) :
    mergeStep rec sf .dict exc (single k c?) (k, v) = (stepAt rec sf exc k c? v).map (single k) := by
  rw [mergeStep_dict_stepAt, alookup_single]
  cases stepAt rec sf exc k c? v with
  | error e => rfl
  | ok x? =>
    cases x? <;> cases c? <;> simp [Except.map, putAt, single, aerase, aset]

/-! ### the key loop -/

theorem findSome?_congr' {α β : Type} {f g : α → Option β} : ∀ {l : List α},
    (∀ x ∈ l, f x = g x) → l.findSome? f = l.findSome? g
  | [], _ => rfl
  | a :: rest, h => by
    simp only [List.findSome?_cons, h a (by simp)]
    cases g a with
    | some b => rfl
    | none => exact findSome?_congr' (fun x hx => h x (List.mem_cons_of_mem _ hx))

/-- the key loop of a mapping, key by key (distinct incoming keys): it fails with the error of the
    first iteration that fails, each iteration seeing the ORIGINAL entry of its key; on success
    every incoming key holds what its iteration computed, every other key is untouched -/
theorem mergeLoop_dict_pointwise (rec : Node → Node → Except Err (Node × Bool)) (sf : Flags)
    (exc : List Path) : ∀ (ocs acc : List (Key × Node)), keysNodup ocs = true → keysNodup acc = true →
    errOf (mergeLoop rec sf .dict exc acc ocs) =
        ocs.findSome? (fun kv => errOf (stepAt rec sf exc kv.1 (alookup kv.1 acc) kv.2)) ∧
    ∀ acc', mergeLoop rec sf .dict exc acc ocs = .ok acc' →
      keysNodup acc' = true ∧
      ∀ k, match alookup k ocs with
        | none => alookup k acc' = alookup k acc
        | some v => stepAt rec sf exc k (alookup k acc) v = .ok (alookup k acc')
  | [], acc, _, hacc => by
    refine ⟨rfl, ?_⟩
    intro acc' h
    simp only [mergeLoop] at h
    injection h with h
    subst h
    exact ⟨hacc, fun k => rfl⟩
  | (k0, v0) :: rest, acc, hn, hacc => by
    have hn' : (akeys rest).contains k0 = false ∧ keysNodup rest = true := by simpa [keysNodup] using hn
    have hk0rest : alookup k0 rest = none := (alookup_none_iff k0 rest).2 hn'.1
    simp only [mergeLoop, List.findSome?_cons, mergeStep_dict_stepAt]
    cases hs : stepAt rec sf exc k0 (alookup k0 acc) v0 with
    | error e =>
      have e1 : (Except.map (putAt k0 acc) (Except.error e) : Except Err _) = .error e := rfl
      simp only [e1, errOf_error]
      refine ⟨trivial, ?_⟩
      intro acc' h
      cases h
    | ok x? =>
      have e1 : (Except.map (putAt k0 acc) (Except.ok x?) : Except Err _) = .ok (putAt k0 acc x?) := rfl
      simp only [e1, errOf_ok]
      have hacc1 := keysNodup_putAt k0 acc hacc x?
      obtain ⟨ih1, ih2⟩ := mergeLoop_dict_pointwise rec sf exc rest (putAt k0 acc x?) hn'.2 hacc1
      have hfr : ∀ kv ∈ rest, alookup kv.1 (putAt k0 acc x?) = alookup kv.1 acc := by
        intro kv hkv
        apply alookup_putAt_ne
        intro e
        have hm : k0 ∈ akeys rest := by
          rw [e]
          exact mem_akeys_of_mem (v := kv.2) hkv
        have := hn'.1
        simp at this
        exact this hm
      constructor
      · rw [ih1]
        exact findSome?_congr' (fun kv hkv => by rw [hfr kv hkv])
      · intro acc' h
        obtain ⟨hnd', hpt⟩ := ih2 acc' h
        refine ⟨hnd', ?_⟩
        intro k
        by_cases e : k0 = k
        · subst e
          have := hpt k0
          rw [hk0rest] at this
          simp only at this
          simp only [alookup, if_true]
          rw [this, alookup_putAt_self k0 acc hacc]
          exact hs
        · have := hpt k
          simp only [alookup, e, if_false]
          rw [alookup_putAt_ne e] at this
          exact this

/-! ### the pruning of a deleting `other`, key by key -/

/-- what `filter_nodes` leaves of the child `c` stored under `k` at top level (`none` = removed) -/
def keptAt (cond : Path → Node → Bool) (k : Key) (c : Node) : Option Node :=
  if cond [k] c || (c.isComp && !(filterNode cond [k] c).1.children.isEmpty) then
    some (filterNode cond [k] c).1
  else none

mutual
/-- every removed path lies strictly below the prefix -/
theorem filterNode_removed_prefix (cond : Path → Node → Bool) : ∀ (pre : Path) (n : Node) (p : Path),
    p ∈ (filterNode cond pre n).2 → ∃ nm q, p = pre ++ nm :: q
  | pre, .leaf f k, p, h => by simp [filterNode] at h
  | pre, .comp f k cs, p, h => by
    simp only [filterNode, List.mem_append, List.mem_map] at h
    rcases h with h | ⟨nm, _, rfl⟩
    · obtain ⟨nm, _, q, hq⟩ := filterList_removed_prefix cond pre cs p h
      exact ⟨nm, q, hq⟩
    · exact ⟨nm, [], rfl⟩
theorem filterList_removed_prefix (cond : Path → Node → Bool) : ∀ (pre : Path) (cs : List (Key × Node)) (p : Path),
    p ∈ (filterList cond pre cs).2 → ∃ nm, nm ∈ akeys cs ∧ ∃ q, p = pre ++ nm :: q
  | pre, [], p, h => by simp [filterList] at h
  | pre, (name, child) :: rest, p, h => by
    simp only [filterList, List.mem_append] at h
    rcases h with h | h
    · obtain ⟨nm, q, hq⟩ := filterNode_removed_prefix cond (pre ++ [name]) child p h
      exact ⟨name, by simp [akeys], nm :: q, by simp [hq]⟩
    · obtain ⟨nm, hnm, q, hq⟩ := filterList_removed_prefix cond pre rest p h
      exact ⟨nm, by simp [akeys, hnm], q, hq⟩
end

mutual
/-- `filter_nodes` consults its condition only at paths below the prefix -/
theorem filterNode_congr (cond cond' : Path → Node → Bool) : ∀ (pre : Path) (n : Node),
    (∀ q m, cond (pre ++ q) m = cond' (pre ++ q) m) → filterNode cond pre n = filterNode cond' pre n
  | pre, .leaf f k, _ => rfl
  | pre, .comp f k cs, h => by
    simp only [filterNode, filterList_congr cond cond' pre cs h]
theorem filterList_congr (cond cond' : Path → Node → Bool) : ∀ (pre : Path) (cs : List (Key × Node)),
    (∀ q m, cond (pre ++ q) m = cond' (pre ++ q) m) → filterList cond pre cs = filterList cond' pre cs
  | pre, [], _ => rfl
  | pre, (name, child) :: rest, h => by
    have h1 : ∀ q m, cond ((pre ++ [name]) ++ q) m = cond' ((pre ++ [name]) ++ q) m := by
      intro q m
      have := h (name :: q) m
      simpa using this
    have h2 := h [name] child
    simp only [filterList, filterNode_congr cond cond' (pre ++ [name]) child h1, h2,
      filterList_congr cond cond' pre rest h]
end

theorem keptAt_congr (cond cond' : Path → Node → Bool) (k : Key) (c : Node)
    (h : ∀ q m, cond (k :: q) m = cond' (k :: q) m) : keptAt cond k c = keptAt cond' k c := by
  have h1 : filterNode cond [k] c = filterNode cond' [k] c :=
    filterNode_congr cond cond' [k] c (fun q m => by simpa using h q m)
  simp only [keptAt, h1, h [] c]

theorem akeys_keptChildren_sub (cond : Path → Node → Bool) (pre : Path) :
    ∀ (cs : List (Key × Node)) (x : Key), x ∈ akeys (keptChildren cond pre cs) → x ∈ akeys cs
  | [], _, h => by simp [keptChildren, akeys] at h
  | (name, child) :: rest, x, h => by
    simp only [keptChildren] at h
    split at h
    · simp only [akeys, List.mem_cons] at h ⊢
      rcases h with h | h
      · exact .inl h
      · exact .inr (akeys_keptChildren_sub cond pre rest x h)
    · simp only [akeys, List.mem_cons]
      exact .inr (akeys_keptChildren_sub cond pre rest x h)

theorem keysNodup_keptChildren (cond : Path → Node → Bool) (pre : Path) :
    ∀ cs : List (Key × Node), keysNodup cs = true → keysNodup (keptChildren cond pre cs) = true
  | [], _ => rfl
  | (name, child) :: rest, h => by
    have h' : name ∉ akeys rest ∧ keysNodup rest = true := by simpa [keysNodup] using h
    simp only [keptChildren]
    split
    · have : name ∉ akeys (keptChildren cond pre rest) := fun hm => h'.1 (akeys_keptChildren_sub cond pre rest name hm)
      simp [keysNodup, this, keysNodup_keptChildren cond pre rest h'.2]
    · exact keysNodup_keptChildren cond pre rest h'.2

/-- the surviving entry of a key depends on the entry of that key only -/
theorem alookup_keptChildren (cond : Path → Node → Bool) (k : Key) :
    ∀ cs : List (Key × Node), keysNodup cs = true →
      alookup k (keptChildren cond [] cs) = (alookup k cs).bind (keptAt cond k)
  | [], _ => rfl
  | (name, child) :: rest, h => by
    have h' : name ∉ akeys rest ∧ keysNodup rest = true := by simpa [keysNodup] using h
    by_cases e : name = k
    · subst e
      have hnone : alookup name (keptChildren cond [] rest) = none := by
        apply (alookup_none_iff name _).2
        cases hc : (akeys (keptChildren cond [] rest)).contains name with
        | false => rfl
        | true =>
          have hm : name ∈ akeys (keptChildren cond [] rest) := by simpa using hc
          exact absurd (akeys_keptChildren_sub cond [] rest name hm) h'.1
      simp only [keptChildren, List.nil_append, alookup, if_true, Option.bind, keptAt]
      split
      · simp [alookup]
      · exact hnone
    · simp only [keptChildren, alookup, e, if_false]
      split
      · simp only [alookup, e, if_false]
        exact alookup_keptChildren cond k rest h'.2
      · exact alookup_keptChildren cond k rest h'.2

/-- the removed paths below `k` depend on the entry of `k` only: they are the paths removed inside
    that entry and, when nothing of it survives, the entry itself -/
theorem mem_removed_below (cond : Path → Node → Bool) (f : Flags) (kd : CompKind) (k : Key) (q : Path) :
    ∀ cs : List (Key × Node), keysNodup cs = true →
      ((k :: q) ∈ (filterNode cond [] (.comp f kd cs)).2 ↔
        ∃ c, alookup k cs = some c ∧
          ((k :: q) ∈ (filterNode cond [k] c).2 ∨ (q = [] ∧ keptAt cond k c = none))) := by
  intro cs hn
  have hFL : ∀ cs : List (Key × Node), keysNodup cs = true →
      ((k :: q) ∈ (filterList cond [] cs).2 ↔
        ∃ c, alookup k cs = some c ∧ (k :: q) ∈ (filterNode cond [k] c).2) := by
    intro cs
    induction cs with
    | nil => intro _; simp [filterList, alookup]
    | cons kv rest ih =>
      obtain ⟨name, child⟩ := kv
      intro h
      have h' : name ∉ akeys rest ∧ keysNodup rest = true := by simpa [keysNodup] using h
      simp only [filterList, List.nil_append, List.mem_append]
      by_cases e : name = k
      · subst e
        have : (name :: q) ∉ (filterList cond [] rest).2 := by
          intro hm
          obtain ⟨nm, hnm, q', hq'⟩ := filterList_removed_prefix cond [] rest _ hm
          simp only [List.nil_append, List.cons.injEq] at hq'
          exact h'.1 (hq'.1 ▸ hnm)
        simp [alookup, this]
      · have : (k :: q) ∉ (filterNode cond [name] child).2 := by
          intro hm
          obtain ⟨nm, q', hq'⟩ := filterNode_removed_prefix cond [name] child _ hm
          simp only [List.singleton_append, List.cons.injEq] at hq'
          exact e hq'.1.symm
        simp only [this, false_or, alookup, e, if_false]
        exact ih h'.2
  have hNK : ∀ cs : List (Key × Node), keysNodup cs = true →
      (k ∈ notKeptNames (filterList cond [] cs).1 ↔
        ∃ c, alookup k cs = some c ∧ keptAt cond k c = none) := by
    intro cs
    induction cs with
    | nil => intro _; simp [filterList, notKeptNames, alookup]
    | cons kv rest ih =>
      obtain ⟨name, child⟩ := kv
      intro h
      have h' : name ∉ akeys rest ∧ keysNodup rest = true := by simpa [keysNodup] using h
      simp only [filterList, List.nil_append, notKeptNames]
      by_cases e : name = k
      · subst e
        have hno : name ∉ notKeptNames (filterList cond [] rest).1 := by
          intro hm
          have := c04_notKeptNames_subset _ name hm
          rw [c04_akeys_dropMarks_filterList] at this
          exact h'.1 this
        simp only [alookup, if_true, Option.some.injEq, exists_eq_left', keptAt]
        split <;> simp_all
      · simp only [alookup, e, if_false]
        split
        · exact ih h'.2
        · simp only [List.mem_cons]
          constructor
          · rintro (h1 | h1)
            · exact absurd h1.symm e
            · exact (ih h'.2).1 h1
          · exact fun h1 => .inr ((ih h'.2).2 h1)
  simp only [filterNode, List.nil_append, List.mem_append, List.mem_map, List.mem_reverse]
  rw [hFL cs hn]
  constructor
  · rintro (⟨c, hc, hq⟩ | ⟨nm, hnm, hq⟩)
    · exact ⟨c, hc, .inl hq⟩
    · simp only [List.cons.injEq] at hq
      obtain ⟨rfl, rfl⟩ := hq
      obtain ⟨c, hc, hk⟩ := (hNK cs hn).1 hnm
      exact ⟨c, hc, .inr ⟨rfl, hk⟩⟩
  · rintro ⟨c, hc, hq | ⟨rfl, hk⟩⟩
    · exact .inl ⟨c, hc, hq⟩
    · exact .inr ⟨k, (hNK cs hn).2 ⟨c, hc, hk⟩, rfl⟩

/-! ### the tail of a mapping ⊕ mapping merge -/

/-- flags of `self` after `_replace_self` / `_replace_other` (two mappings: no promotion) -/
def finishFlags (sf of : Flags) : Flags :=
  if hasPrio of sf true then replaceSelfFlags sf of else replaceOtherFlags sf of

/-- `_propagate_implicit_values` of a mapping with flags `f`, seen from one child -/
def reprop (f : Flags) (n : Node) : Node :=
  match childKw f .dict with
  | none => n
  | some kw => applyKw kw n

theorem native_reprop (f : Flags) (n : Node) : native (reprop f n) = native n := by
  simp only [reprop]
  split
  · rfl
  · exact nativeOf_applyKw _ _

theorem finishMerge_dict (sf of : Flags) (scs' ocs : List (Key × Node)) :
    finishMerge sf .dict scs' (.comp of .dict ocs) =
      .ok (propagate (.comp (finishFlags sf of) .dict scs'), true) := by
  simp only [finishMerge, Node.flags, maybePromote, CompKind.sameClass, if_true, finishFlags]
  split <;> rfl

theorem alookup_propagate_dict (f : Flags) (cs : List (Key × Node)) (k : Key) :
    alookup k (propagate (.comp f .dict cs)).children = (alookup k cs).map (reprop f) := by
  cases h : childKw f .dict with
  | none =>
    have : reprop f = id := by funext n; simp [reprop, h]
    simp [propagate, h, Node.children, this]
  | some kw =>
    have : reprop f = applyKw kw := by funext n; simp [reprop, h]
    simp [propagate, h, Node.children, this, alookup_applyKwList]

theorem flags_propagate_comp (f : Flags) (k : CompKind) (cs : List (Key × Node)) :
    (propagate (.comp f k cs)).flags = f := by
  simp only [propagate]
  split <;> rfl

/-! ### `ComposedNode.on_merge_impl` of two mappings, key by key -/

/-- non-deleting `other`: the loop runs over all of `self`, without exceptions -/
theorem compMerge_live_spec (rec : Node → Node → Except Err (Node × Bool)) (sf of : Flags)
    (scs ocs : List (Key × Node)) (hlive : eDel (.comp of .dict ocs) = false)
    (hns : keysNodup scs = true) (hno : keysNodup ocs = true) :
    errOf (compMerge rec sf .dict scs (.comp of .dict ocs)) =
        ocs.findSome? (fun kv => errOf (stepAt rec sf [] kv.1 (alookup kv.1 scs) kv.2)) ∧
    ∀ r s, compMerge rec sf .dict scs (.comp of .dict ocs) = .ok (r, s) →
      s = true ∧ r.flags = finishFlags sf of ∧
      ∀ k, match alookup k ocs with
        | none => alookup k r.children = (alookup k scs).map (reprop (finishFlags sf of))
        | some v => ∃ x?, stepAt rec sf [] k (alookup k scs) v = .ok x? ∧
            alookup k r.children = x?.map (reprop (finishFlags sf of)) := by
  obtain ⟨h1, h2⟩ := mergeLoop_dict_pointwise rec sf [] ocs scs hno hns
  simp only [compMerge, hlive, Bool.false_eq_true, if_false, finishMerge_dict]
  cases hl : mergeLoop rec sf .dict [] scs ocs with
  | error e =>
    rw [hl] at h1
    refine ⟨h1, ?_⟩
    intro r s h
    cases h
  | ok scs' =>
    rw [hl] at h1
    refine ⟨h1, ?_⟩
    intro r s h
    simp only [Except.ok.injEq, Prod.mk.injEq] at h
    obtain ⟨rfl, rfl⟩ := h
    refine ⟨rfl, flags_propagate_comp _ _ _, ?_⟩
    intro k
    have := (h2 scs' hl).2 k
    rw [alookup_propagate_dict]
    cases hv : alookup k ocs with
    | none => simp only [hv] at this ⊢; rw [this]
    | some v => simp only [hv] at this ⊢; exact ⟨_, this, rfl⟩

theorem reqNewList_findSome (exc : List Path) (p : Path) : ∀ cs : List (Key × Node),
    reqNewList exc p cs = cs.findSome? (fun kv => reqNew exc (p ++ [kv.1]) kv.2)
  | [] => rfl
  | (k, c) :: rest => by
    simp only [reqNewList, List.findSome?_cons, reqNewList_findSome exc p rest]
    cases reqNew exc (p ++ [k]) c <;> rfl

theorem findSome?_map' {α β γ : Type} (f : α → Option β) (g : β → γ) : ∀ l : List α,
    (l.findSome? f).map g = l.findSome? (fun x => (f x).map g)
  | [] => rfl
  | a :: rest => by
    simp only [List.findSome?_cons]
    cases f a with
    | some b => rfl
    | none => exact findSome?_map' f g rest

theorem errOf_stepAt_none (rec : Node → Node → Except Err (Node × Bool)) (sf : Flags) (exc : List Path)
    (k : Key) (v : Node) :
    errOf (stepAt rec sf exc k none v) = (reqNew (excBelow k exc) [] v).map (fun p => .notnew (k :: p)) := by
  simp only [stepAt]
  cases reqNew (excBelow k exc) [] v <;> rfl

theorem stepAt_none_ok (rec : Node → Node → Except Err (Node × Bool)) (sf : Flags) (exc : List Path)
    (k : Key) (v : Node) (h : errOf (stepAt rec sf exc k none v) = none) :
    stepAt rec sf exc k none v = .ok (some (adopt sf .dict v)) := by
  simp only [stepAt] at h ⊢
  cases hr : reqNew (excBelow k exc) [] v with
  | some p => simp [hr] at h
  | none => rfl

/-- deleting `other` over a mapping with distinct keys: early exit or key loop over the survivors,
    in both branches the outcome and the data under each key are those of `stepAt` on the surviving
    entry, with the removed paths as exceptions -/
theorem compMerge_del_spec (rec : Node → Node → Except Err (Node × Bool)) (sf of : Flags)
    (scs ocs : List (Key × Node)) (hdel : eDel (.comp of .dict ocs) = true)
    (hns : keysNodup scs = true) (hno : keysNodup ocs = true) :
    errOf (compMerge rec sf .dict scs (.comp of .dict ocs)) =
        ocs.findSome? (fun kv => errOf (stepAt rec sf
          (filterNode (maybeKeep (.comp of .dict ocs)) [] (.comp sf .dict scs)).2 kv.1
          (alookup kv.1 (keptChildren (maybeKeep (.comp of .dict ocs)) [] scs)) kv.2)) ∧
    ∀ r s, compMerge rec sf .dict scs (.comp of .dict ocs) = .ok (r, s) →
      ∀ k, match alookup k ocs with
        | none => (alookup k r.children).map native =
            (alookup k (keptChildren (maybeKeep (.comp of .dict ocs)) [] scs)).map native
        | some v => ∃ x?, stepAt rec sf
              (filterNode (maybeKeep (.comp of .dict ocs)) [] (.comp sf .dict scs)).2 k
              (alookup k (keptChildren (maybeKeep (.comp of .dict ocs)) [] scs)) v = .ok x? ∧
            (alookup k r.children).map native = x?.map native := by
  rw [c04_compMerge_del_dict rec hdel rfl hns]
  generalize hrem : (filterNode (maybeKeep (.comp of .dict ocs)) [] (.comp sf .dict scs)).2 = rem
  generalize hkept : keptChildren (maybeKeep (.comp of .dict ocs)) [] scs = kept
  have hnk : keysNodup kept = true := by rw [← hkept]; exact keysNodup_keptChildren _ _ scs hns
  by_cases hE : (kept.isEmpty && hasPrio of sf true) = true
  · -- early exit
    have hke : kept = [] := by
      have : kept.isEmpty = true := by
        cases h : kept.isEmpty with
        | true => rfl
        | false => simp [h] at hE
      simpa using this
    subst hke
    simp only [hE, if_true, alookup]
    have hroot : reqNew ([] :: rem) [] (.comp of .dict ocs) = reqNewList ([] :: rem) [] ocs := by
      simp [reqNew]
    have hfs : (reqNewList ([] :: rem) [] ocs).map Err.notnew =
        ocs.findSome? (fun kv => errOf (stepAt rec sf rem kv.1 none kv.2)) := by
      rw [reqNewList_findSome, findSome?_map']
      apply findSome?_congr'
      intro kv _
      rw [errOf_stepAt_none]
      simp only [List.nil_append]
      rw [reqNew_excBelow kv.1 ([] :: rem) [] kv.2]
      simp only [excBelow, Option.map_map]
      rfl
    rw [hroot]
    cases hq : reqNewList ([] :: rem) [] ocs with
    | some p =>
      rw [hq] at hfs
      refine ⟨hfs, ?_⟩
      intro r s h
      cases h
    | none =>
      rw [hq] at hfs
      simp only [maybePromote, CompKind.sameClass, if_true]
      refine ⟨hfs, ?_⟩
      intro r s h
      simp only [Except.ok.injEq, Prod.mk.injEq] at h
      obtain ⟨rfl, _⟩ := h
      intro k
      rw [alookup_propagate_dict]
      cases hv : alookup k ocs with
      | none => simp
      | some v =>
        simp only
        have hmem : (k, v) ∈ ocs := mem_of_alookup hv
        have hnone : errOf (stepAt rec sf rem k none v) = none := by
          have := List.findSome?_eq_none_iff.1 hfs.symm (k, v) hmem
          exact this
        refine ⟨_, stepAt_none_ok rec sf rem k v hnone, ?_⟩
        simp [native_reprop, native_adopt]
  · -- key loop over the survivors
    have hE' : (kept.isEmpty && hasPrio of sf true) = false := by
      cases h : (kept.isEmpty && hasPrio of sf true) with
      | true => exact absurd h hE
      | false => rfl
    simp only [hE', Bool.false_eq_true, if_false, finishMerge_dict]
    obtain ⟨h1, h2⟩ := mergeLoop_dict_pointwise rec sf rem ocs kept hno hnk
    cases hl : mergeLoop rec sf .dict rem kept ocs with
    | error e =>
      rw [hl] at h1
      refine ⟨h1, ?_⟩
      intro r s h
      cases h
    | ok scs' =>
      rw [hl] at h1
      refine ⟨h1, ?_⟩
      intro r s h
      simp only [Except.ok.injEq, Prod.mk.injEq] at h
      obtain ⟨rfl, _⟩ := h
      intro k
      have := (h2 scs' hl).2 k
      rw [alookup_propagate_dict]
      cases hv : alookup k ocs with
      | none =>
        simp only [hv] at this ⊢
        rw [this]
        cases alookup k kept <;> simp [native_reprop]
      | some v =>
        simp only [hv] at this ⊢
        refine ⟨_, this, ?_⟩
        cases alookup k scs' <;> simp [native_reprop]

/-! ### restriction to one key -/

theorem maybeKeep_restrict (of : Flags) (ok : CompKind) (ocs : List (Key × Node)) (k : Key) (q : Path)
    (m : Node) :
    maybeKeep (.comp of ok ocs) (k :: q) m = maybeKeep (.comp of ok (single k (alookup k ocs))) (k :: q) m := by
  simp only [maybeKeep, firstNotMissing, alookup_single]
  cases alookup k ocs <;> rfl

mutual
theorem reqNew_congr_exc (exc exc' : List Path) (h : ∀ q, exc.contains q = exc'.contains q) :
    ∀ (p : Path) (n : Node), reqNew exc p n = reqNew exc' p n
  | p, .leaf f k => by simp only [reqNew, h p]
  | p, .comp f k cs => by simp only [reqNew, h p, reqNewList_congr_exc exc exc' h p cs]
theorem reqNewList_congr_exc (exc exc' : List Path) (h : ∀ q, exc.contains q = exc'.contains q) :
    ∀ (p : Path) (cs : List (Key × Node)), reqNewList exc p cs = reqNewList exc' p cs
  | _, [] => rfl
  | p, (k, c) :: rest => by
    simp only [reqNewList, reqNew_congr_exc exc exc' h (p ++ [k]) c, reqNewList_congr_exc exc exc' h p rest]
end

theorem stepAt_congr_exc (rec : Node → Node → Except Err (Node × Bool)) (sf : Flags) (exc exc' : List Path)
    (k : Key) (c? : Option Node) (v : Node) (h : ∀ q, exc.contains (k :: q) = exc'.contains (k :: q)) :
    stepAt rec sf exc k c? v = stepAt rec sf exc' k c? v := by
  have : reqNew (excBelow k exc) [] v = reqNew (excBelow k exc') [] v :=
    reqNew_congr_exc _ _ (fun q => by rw [contains_excBelow, contains_excBelow, h q]) [] v
  simp only [stepAt, this]

theorem contains_congr_of_mem {exc exc' : List Path} {p : Path} (h : p ∈ exc ↔ p ∈ exc') :
    exc.contains p = exc'.contains p := by
  cases h1 : exc.contains p <;> cases h2 : exc'.contains p <;> simp_all

/-- surviving entry and removed paths below `k` are the same on the restriction to `k` -/
theorem restrict_del (sf of : Flags) (scs ocs : List (Key × Node)) (hns : keysNodup scs = true) (k : Key) :
    alookup k (keptChildren (maybeKeep (.comp of .dict (single k (alookup k ocs)))) []
        (single k (alookup k scs))) =
      alookup k (keptChildren (maybeKeep (.comp of .dict ocs)) [] scs) ∧
    ∀ q, (filterNode (maybeKeep (.comp of .dict (single k (alookup k ocs)))) []
          (.comp sf .dict (single k (alookup k scs)))).2.contains (k :: q) =
        (filterNode (maybeKeep (.comp of .dict ocs)) [] (.comp sf .dict scs)).2.contains (k :: q) := by
  have hc : ∀ q m, maybeKeep (.comp of .dict (single k (alookup k ocs))) (k :: q) m =
      maybeKeep (.comp of .dict ocs) (k :: q) m := fun q m => (maybeKeep_restrict of .dict ocs k q m).symm
  have hka : ∀ c, keptAt (maybeKeep (.comp of .dict (single k (alookup k ocs)))) k c =
      keptAt (maybeKeep (.comp of .dict ocs)) k c := fun c => keptAt_congr _ _ k c hc
  have hfa : ∀ c, filterNode (maybeKeep (.comp of .dict (single k (alookup k ocs)))) [k] c =
      filterNode (maybeKeep (.comp of .dict ocs)) [k] c :=
    fun c => filterNode_congr _ _ [k] c (fun q m => by simpa using hc q m)
  constructor
  · rw [alookup_keptChildren _ k _ (keysNodup_single k _), alookup_keptChildren _ k _ hns, alookup_single]
    cases alookup k scs with
    | none => rfl
    | some c => simp only [Option.bind, hka]
  · intro q
    apply contains_congr_of_mem
    rw [mem_removed_below _ sf .dict k q _ (keysNodup_single k _), mem_removed_below _ sf .dict k q _ hns,
      alookup_single]
    simp only [hka, hfa]

/-- the iteration for `k` sees the same entry and the same exceptions on the restriction to `k` -/
theorem restrict_stepAt (rec : Node → Node → Except Err (Node × Bool)) (sf of : Flags)
    (scs ocs : List (Key × Node)) (hns : keysNodup scs = true) (k : Key) (v : Node) :
    stepAt rec sf (filterNode (maybeKeep (.comp of .dict (single k (alookup k ocs)))) []
          (.comp sf .dict (single k (alookup k scs)))).2 k
        (alookup k (keptChildren (maybeKeep (.comp of .dict (single k (alookup k ocs)))) []
          (single k (alookup k scs)))) v =
      stepAt rec sf (filterNode (maybeKeep (.comp of .dict ocs)) [] (.comp sf .dict scs)).2 k
        (alookup k (keptChildren (maybeKeep (.comp of .dict ocs)) [] scs)) v := by
  obtain ⟨h1, h2⟩ := restrict_del sf of scs ocs hns k
  rw [h1]
  exact stepAt_congr_exc rec sf _ _ k _ v h2

theorem findSome?_single {α β : Type} (f : α → Option β) (a : α) : [a].findSome? f = f a := by
  simp only [List.findSome?_cons, List.findSome?_nil]
  cases f a <;> rfl

/-! ### sibling independence of one mapping merge -/

/-- the merge restricted to the key `k`: both mappings cut down to their entry under `k` -/
def compMergeAt (rec : Node → Node → Except Err (Node × Bool)) (sf of : Flags)
    (scs ocs : List (Key × Node)) (k : Key) : Except Err (Node × Bool) :=
  compMerge rec sf .dict (single k (alookup k scs)) (.comp of .dict (single k (alookup k ocs)))

theorem eDel_restrict (of : Flags) (ocs ocs' : List (Key × Node)) :
    eDel (.comp of .dict ocs) = eDel (.comp of .dict ocs') := rfl

/-- outcome of the restricted merge for a key of the newer mapping -/
theorem errOf_compMergeAt (rec : Node → Node → Except Err (Node × Bool)) (sf of : Flags)
    (scs ocs : List (Key × Node)) (hns : keysNodup scs = true) (k : Key) (v : Node)
    (hv : alookup k ocs = some v) :
    errOf (compMergeAt rec sf of scs ocs k) =
      if eDel (.comp of .dict ocs) then
        errOf (stepAt rec sf (filterNode (maybeKeep (.comp of .dict ocs)) [] (.comp sf .dict scs)).2 k
          (alookup k (keptChildren (maybeKeep (.comp of .dict ocs)) [] scs)) v)
      else errOf (stepAt rec sf [] k (alookup k scs) v) := by
  simp only [compMergeAt]
  cases hd : eDel (.comp of .dict ocs) with
  | false =>
    have hd' : eDel (.comp of .dict (single k (alookup k ocs))) = false := hd
    rw [(compMerge_live_spec rec sf of _ _ hd' (keysNodup_single k _) (keysNodup_single k _)).1]
    simp only [hv, single, findSome?_single, Bool.false_eq_true, if_false]
    cases alookup k scs <;> simp [alookup]
  | true =>
    have hd' : eDel (.comp of .dict (single k (alookup k ocs))) = true := hd
    rw [(compMerge_del_spec rec sf of _ _ hd' (keysNodup_single k _) (keysNodup_single k _)).1]
    have := restrict_stepAt rec sf of scs ocs hns k v
    rw [hv] at this ⊢
    simp only [single, findSome?_single, if_true]
    exact congrArg errOf this

/-- OUTCOME: a mapping merge fails exactly when the merge restricted to some key of the newer
    mapping fails, with the error of the first such key (in the order of the newer mapping) -/
theorem compMerge_sibling_outcome (rec : Node → Node → Except Err (Node × Bool)) (sf of : Flags)
    (scs ocs : List (Key × Node)) (hns : keysNodup scs = true) (hno : keysNodup ocs = true) :
    errOf (compMerge rec sf .dict scs (.comp of .dict ocs)) =
      ocs.findSome? (fun kv => errOf (compMergeAt rec sf of scs ocs kv.1)) := by
  cases hd : eDel (.comp of .dict ocs) with
  | false =>
    rw [(compMerge_live_spec rec sf of scs ocs hd hns hno).1]
    apply findSome?_congr'
    intro kv hkv
    rw [errOf_compMergeAt rec sf of scs ocs hns kv.1 kv.2 (alookup_of_mem hno hkv), hd]
    rfl
  | true =>
    rw [(compMerge_del_spec rec sf of scs ocs hd hns hno).1]
    apply findSome?_congr'
    intro kv hkv
    rw [errOf_compMergeAt rec sf of scs ocs hns kv.1 kv.2 (alookup_of_mem hno hkv), hd]
    rfl

/-- a successful merge: the restricted merge of every key succeeds as well -/
theorem compMergeAt_ok_of_ok (rec : Node → Node → Except Err (Node × Bool)) (sf of : Flags)
    (scs ocs : List (Key × Node)) (hns : keysNodup scs = true) (hno : keysNodup ocs = true)
    (r : Node) (s : Bool) (h : compMerge rec sf .dict scs (.comp of .dict ocs) = .ok (r, s)) (k : Key) :
    ∃ rk sk, compMergeAt rec sf of scs ocs k = .ok (rk, sk) := by
  have hall := compMerge_sibling_outcome rec sf of scs ocs hns hno
  rw [h, errOf_ok] at hall
  have hnone : errOf (compMergeAt rec sf of scs ocs k) = none := by
    cases hv : alookup k ocs with
    | some v => exact List.findSome?_eq_none_iff.1 hall.symm (k, v) (mem_of_alookup hv)
    | none =>
      -- nothing to merge under `k`: the restricted newer mapping is empty
      have e0 : single k (none : Option Node) = [] := rfl
      simp only [compMergeAt, hv, e0]
      cases hd : eDel (.comp of .dict ([] : List (Key × Node))) with
      | false => rw [(compMerge_live_spec rec sf of _ [] hd (keysNodup_single k _) rfl).1]; rfl
      | true => rw [(compMerge_del_spec rec sf of _ [] hd (keysNodup_single k _) rfl).1]; rfl
  obtain ⟨⟨rk, sk⟩, hk⟩ := errOf_none hnone
  exact ⟨rk, sk, hk⟩

/-- DATA: after a successful merge the data under every key is the data the restricted merge
    leaves under that key -/
theorem compMerge_sibling_data (rec : Node → Node → Except Err (Node × Bool)) (sf of : Flags)
    (scs ocs : List (Key × Node)) (hns : keysNodup scs = true) (hno : keysNodup ocs = true)
    (r : Node) (s : Bool) (h : compMerge rec sf .dict scs (.comp of .dict ocs) = .ok (r, s)) (k : Key) :
    ∃ rk sk, compMergeAt rec sf of scs ocs k = .ok (rk, sk) ∧
      (alookup k r.children).map native = (alookup k rk.children).map native := by
  obtain ⟨rk, sk, hk⟩ := compMergeAt_ok_of_ok rec sf of scs ocs hns hno r s h k
  refine ⟨rk, sk, hk, ?_⟩
  simp only [compMergeAt] at hk
  cases hd : eDel (.comp of .dict ocs) with
  | false =>
    have hd' : eDel (.comp of .dict (single k (alookup k ocs))) = false := hd
    have h1 := ((compMerge_live_spec rec sf of scs ocs hd hns hno).2 r s h).2.2 k
    have h2 := ((compMerge_live_spec rec sf of _ _ hd' (keysNodup_single k _) (keysNodup_single k _)).2 rk sk hk).2.2 k
    rw [alookup_single] at h2
    cases hv : alookup k ocs with
    | none =>
      simp only [hv] at h1 h2
      rw [alookup_single] at h2
      rw [h1, h2]
    | some v =>
      simp only [hv] at h1 h2
      rw [alookup_single] at h2
      obtain ⟨x1, e1, l1⟩ := h1
      obtain ⟨x2, e2, l2⟩ := h2
      rw [e1] at e2
      injection e2 with e2
      rw [l1, l2, e2]
  | true =>
    have hd' : eDel (.comp of .dict (single k (alookup k ocs))) = true := hd
    have h1 := (compMerge_del_spec rec sf of scs ocs hd hns hno).2 r s h k
    have h2 := (compMerge_del_spec rec sf of _ _ hd' (keysNodup_single k _) (keysNodup_single k _)).2 rk sk hk k
    rw [alookup_single] at h2
    cases hv : alookup k ocs with
    | none =>
      simp only [hv] at h1 h2
      rw [h1, h2]
      have := (restrict_del sf of scs ocs hns k).1
      rw [hv] at this
      rw [this]
    | some v =>
      simp only [hv] at h1 h2
      obtain ⟨x1, e1, l1⟩ := h1
      obtain ⟨x2, e2, l2⟩ := h2
      have := restrict_stepAt rec sf of scs ocs hns k v
      rw [hv] at this
      rw [this, e1] at e2
      injection e2 with e2
      rw [l1, l2, e2]

/-- EXACT form for a non-deleting `other`: the whole entry (every raw flag below it included), the
    flags of the merged mapping and the identity flag are those of the restricted merge -/
theorem compMerge_sibling_exact_live (rec : Node → Node → Except Err (Node × Bool)) (sf of : Flags)
    (scs ocs : List (Key × Node)) (hlive : eDel (.comp of .dict ocs) = false)
    (hns : keysNodup scs = true) (hno : keysNodup ocs = true)
    (r : Node) (s : Bool) (h : compMerge rec sf .dict scs (.comp of .dict ocs) = .ok (r, s)) (k : Key) :
    ∃ rk, compMergeAt rec sf of scs ocs k = .ok (rk, true) ∧ s = true ∧ r.flags = rk.flags ∧
      alookup k r.children = alookup k rk.children := by
  obtain ⟨rk, sk, hk⟩ := compMergeAt_ok_of_ok rec sf of scs ocs hns hno r s h k
  have hd' : eDel (.comp of .dict (single k (alookup k ocs))) = false := hlive
  have h1 := (compMerge_live_spec rec sf of scs ocs hlive hns hno).2 r s h
  have hk' := hk
  simp only [compMergeAt] at hk'
  have h2 := (compMerge_live_spec rec sf of _ _ hd' (keysNodup_single k _) (keysNodup_single k _)).2 rk sk hk'
  obtain ⟨s1, f1, c1⟩ := h1
  obtain ⟨s2, f2, c2⟩ := h2
  subst s2
  refine ⟨rk, hk, s1, by rw [f1, f2], ?_⟩
  have c1 := c1 k
  have c2 := c2 k
  rw [alookup_single] at c2
  cases hv : alookup k ocs with
  | none =>
    simp only [hv] at c1 c2
    rw [alookup_single] at c2
    rw [c1, c2]
  | some v =>
    simp only [hv] at c1 c2
    rw [alookup_single] at c2
    obtain ⟨x1, e1, l1⟩ := c1
    obtain ⟨x2, e2, l2⟩ := c2
    rw [e1] at e2
    injection e2 with e2
    rw [l1, l2, e2]

/-! ### the restricted merge, explicitly (the wrap law of C05 with arbitrary flags) -/

/-- the iteration on an existing entry is `wrapChildren` of property C05 -/
theorem stepAt_some_wrap (rec : Node → Node → Except Err (Node × Bool)) (sf : Flags) (exc : List Path)
    (k : Key) (a b : Node) :
    (stepAt rec sf exc k (some a) b).map (single k) =
      match rec a b with
      | .error e => .error (e.prepend k)
      | .ok (nw, same) => wrapChildren sf k a b nw same := by
  simp only [stepAt, wrapChildren]
  cases rec a b with
  | error e => rfl
  | ok res =>
    obtain ⟨nw, same⟩ := res
    simp only
    split
    · split
      · rfl
      · split <;> rfl
    · split
      · rfl
      · cases reqNewBelow nw with
        | some p => rfl
        | none =>
          simp only
          split <;> rfl

/-- two single-key mappings with ARBITRARY flags, non-deleting newer one: the merge is the merge
    of the two entries, stored by `wrapChildren`, below the merged flags -/
theorem compMerge_single_live (rec : Node → Node → Except Err (Node × Bool)) (sf of : Flags) (k : Key)
    (a b : Node) (hlive : eDel (.comp of .dict [(k, b)]) = false) :
    compMerge rec sf .dict [(k, a)] (.comp of .dict [(k, b)]) =
      match rec a b with
      | .error e => .error (e.prepend k)
      | .ok (nw, same) =>
        match wrapChildren sf k a b nw same with
        | .error e => .error e
        | .ok cs => .ok (propagate (.comp (finishFlags sf of) .dict cs), true) := by
  have h1 := mergeStep_single rec sf [] k (some a) b
  rw [stepAt_some_wrap] at h1
  simp only [single] at h1
  simp only [compMerge, hlive, Bool.false_eq_true, if_false, mergeLoop, h1, finishMerge_dict]
  cases rec a b with
  | error e => rfl
  | ok res =>
    obtain ⟨nw, same⟩ := res
    simp only
    cases wrapChildren sf k a b nw same <;> rfl

/-- a key the older mapping does not have, non-deleting newer mapping: created iff the value
    passes `_require_all_new` (no exceptions), adopted under the flags of `self` -/
theorem compMerge_single_new_live (rec : Node → Node → Except Err (Node × Bool)) (sf of : Flags) (k : Key)
    (b : Node) (hlive : eDel (.comp of .dict [(k, b)]) = false) :
    compMerge rec sf .dict [] (.comp of .dict [(k, b)]) =
      match reqNew [] [] b with
      | some p => .error (.notnew (k :: p))
      | none => .ok (propagate (.comp (finishFlags sf of) .dict [(k, adopt sf .dict b)]), true) := by
  simp only [compMerge, hlive, Bool.false_eq_true, if_false, mergeLoop, mergeStep, getChild,
    CompKind.isDictFam, if_true, alookup, excBelow_nil, setChild, aset, finishMerge_dict]
  cases reqNew [] [] b <;> rfl

end AY
