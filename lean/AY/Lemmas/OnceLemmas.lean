/-
  AY.Lemmas.OnceLemmas — "at least once" for C10: a successful evaluation memoises every node
  below the evaluated one and logs every dynamic node it memoises.

  `Cov root st` extends the state invariant `WF` by two facts relative to the tree:
    down : a memoised node of the tree has all its descendants memoised
    dyn  : a memoised dynamic node of the tree has its execution in the log
  It is preserved by `evalNodeF` on nodes of a tree with pairwise distinct keys (`uniqueKeys`), where
  a path determines its node.
-/
import AY.Lemmas.PlainEvalLemmas
import AY.Lemmas.XrefLemmas
import AY.Lemmas.TaintLemmas
namespace AY

theorem WF.enter {n : Node} {path : Path} {st : EvSt} (hwf : WF st)
    (hnone : plookup path st.cache = none) : WF (enter path (bump n st)) := by
  refine ⟨?_, (by simpa using hwf.taint), (by simpa using hwf.logged), (by simpa using hwf.nodup)⟩
  intro p hp
  simp only [enter_inProgress, bump_inProgress, List.mem_cons] at hp
  simp only [enter_cache, bump_cache]
  rcases hp with rfl | hp
  · exact hnone
  · exact hwf.prog p hp

/-- every container class evaluates all its children with `evalItems` -/
theorem evalImpl_comp_items {rec : Rec} {root : Node} {w : World} {rs : Bool} {f : Flags} {k : CompKind}
    {cs : List (Key × Node)} {path : Path} {st st' : EvSt} {v : Val}
    (h : evalImpl rec root w rs (.comp f k cs) path st = .ok (v, st')) :
    ∃ rs' items st1, evalItems rec rs' path cs st = .ok (items, st1) ∧ st'.cache = st1.cache ∧
      st'.tainted = st1.tainted ∧ st'.unsafeSeen = st1.unsafeSeen ∧ (rs' = rs ∨ rs' = true) := by
  cases k with
  | dict =>
    simp only [evalImpl] at h
    split at h
    · cases h
    · rename_i items st1 he; cases h; exact ⟨_, _, _, he, rfl, rfl, rfl, .inl rfl⟩
  | list =>
    simp only [evalImpl] at h
    split at h
    · cases h
    · rename_i items st1 he; cases h; exact ⟨_, _, _, he, rfl, rfl, rfl, .inl rfl⟩
  | append =>
    simp only [evalImpl] at h
    split at h
    · cases h
    · rename_i items st1 he; cases h; exact ⟨_, _, _, he, rfl, rfl, rfl, .inl rfl⟩
  | extend =>
    simp only [evalImpl] at h
    split at h
    · cases h
    · rename_i items st1 he; cases h; exact ⟨_, _, _, he, rfl, rfl, rfl, .inl rfl⟩
  | stream =>
    simp only [evalImpl] at h
    split at h
    · cases h
    · rename_i items st1 he; cases h; exact ⟨_, _, _, he, rfl, rfl, rfl, .inl rfl⟩
  | path ref =>
    simp only [evalImpl] at h
    split at h
    · cases h
    · rename_i items st1 he
      split at h
      · cases h
      · split at h
        · cases h
        · cases h; exact ⟨_, _, _, he, rfl, rfl, rfl, .inl rfl⟩
  | call fn =>
    simp only [evalImpl] at h
    split at h
    · cases h
    · split at h
      · split at h
        · split at h <;> cases h
        · cases h
      · split at h
        · cases h
        · rename_i items st1 he
          split at h
          · cases h
          · split at h
            · cases h
            · cases h; exact ⟨_, _, _, he, rfl, rfl, rfl, .inr rfl⟩
  | bind fn =>
    simp only [evalImpl] at h
    split at h
    · cases h
    · split at h
      · split at h
        · split at h <;> cases h
        · cases h
      · split at h
        · cases h
        · rename_i items st1 he
          split at h
          · cases h
          · split at h
            · cases h
            · cases h; exact ⟨_, _, _, he, rfl, rfl, rfl, .inr rfl⟩

/-- after the children are evaluated each of them is memoised -/
theorem evalItems_cached {root : Node} {w : World} {fuel : Nat} {rs : Bool} {path : Path} :
    ∀ (cs : List (Key × Node)) (st : EvSt) (items : List (Key × Val)) (st' : EvSt),
    WF st → evalItems (evalNodeF root w fuel) rs path cs st = .ok (items, st') →
    WF st' ∧ ∀ key c, (key, c) ∈ cs → plookup (path ++ [key]) st'.cache ≠ none
  | [], st, items, st', hwf, h => by
    simp [evalItems] at h
    obtain ⟨_, rfl⟩ := h
    exact ⟨hwf, by simp⟩
  | (k, c) :: rest, st, items, st', hwf, h => by
    unfold evalItems at h
    split at h
    · cases h
    · rename_i v st1 h1
      split at h
      · cases h
      · rename_i vs st2 h2
        cases h
        have ⟨hwf1, _⟩ := evalNodeF_wf root w fuel rs c _ st v st1 hwf h1
        have hc1 := evalNodeF_cached h1
        have hext2 : WF st' ∧ Ext st1 st' :=
          evalItems_lift (I := WF) (R := Ext) Ext.refl Ext.trans rest st1 vs st'
            (fun key c s v s' _ hI hr => evalNodeF_wf root w fuel rs c _ s v s' hI hr) hwf1 h2
        have ⟨hwf2, hrest⟩ := evalItems_cached rest st1 vs st' hwf1 h2
        refine ⟨hwf2, ?_⟩
        intro key c' hm
        rcases List.mem_cons.1 hm with heq | hm
        · cases heq
          rw [hext2.2.cache _ _ hc1]; simp
        · exact hrest key c' hm

/-! ### the node a chain of references ends in (tree only) -/

/-- follow the references through the tree until a node that is not a reference -/
def xrefResolve (root : Node) : Nat → String → Option Path
  | 0, _ => none
  | fuel + 1, cur =>
    match splitPath cur with
    | none => none
    | some tp =>
      match getNode root tp with
      | some (.leaf _ (.xref next)) => xrefResolve root fuel next
      | some _ => some tp
      | none => none

theorem xrefResolve_step {root : Node} {cur next : String} {tp : Path} {f : Flags} {fuel : Nat}
    (h1 : splitPath cur = some tp) (h2 : getNode root tp = some (.leaf f (.xref next))) :
    xrefResolve root (fuel + 1) cur = xrefResolve root fuel next := by
  simp only [xrefResolve, h1, h2]

theorem xrefResolve_stop {root : Node} {cur : String} {tp : Path} {m : Node} {fuel : Nat}
    (h1 : splitPath cur = some tp) (h2 : getNode root tp = some m)
    (h3 : ∀ f t, m ≠ .leaf f (.xref t)) : xrefResolve root (fuel + 1) cur = some tp := by
  simp only [xrefResolve, h1, h2]

/-- the result of `xrefResolve` is a node of the tree that is not a reference -/
theorem xrefResolve_spec {root : Node} : ∀ (fuel : Nat) (cur : String) (tp : Path),
    xrefResolve root fuel cur = some tp → ∃ m, getNode root tp = some m ∧ ∀ f t, m ≠ .leaf f (.xref t)
  | 0, cur, tp, h => by simp [xrefResolve] at h
  | fuel + 1, cur, tp, h => by
    unfold xrefResolve at h
    split at h
    · cases h
    · rename_i tp0 _
      split at h
      · exact xrefResolve_spec fuel _ tp h
      · rename_i m hnx hm
        cases h
        exact ⟨m, hm, fun f t e => hnx f t e⟩
      · cases h

/-- The invariant relative to the tree. -/
structure Cov (root : Node) (st : EvSt) : Prop where
  wf : WF st
  down : ∀ p m, plookup p st.cache ≠ none → getNode root p = some m →
    ∀ q m', getNode m q = some m' → plookup (p ++ q) st.cache ≠ none
  dyn : ∀ p m what, plookup p st.cache ≠ none → getNode root p = some m → dynWhat m = some what →
    (⟨p, what⟩ : LogEntry) ∈ st.log
  /-- memoised paths are paths of the tree -/
  intree : ∀ p, plookup p st.cache ≠ none → ∃ m, getNode root p = some m
  /-- a memoised reference holds the value memoised for the node its chain ends in -/
  alias : ∀ p f t v, getNode root p = some (.leaf f (.xref t)) → plookup p st.cache = some v →
    ∃ fuel tp, xrefResolve root fuel t = some tp ∧ plookup tp st.cache = some v ∧
      (p ∉ st.tainted → tp ∉ st.tainted)
  /-- the memoised value of an unsafe node of the tree is tainted -/
  utaint : ∀ p m, plookup p st.cache ≠ none → getNode root p = some m → eSafe m.flags = false →
    p ∈ st.tainted
  /-- untainted is closed under children: the children of a memoised untainted container are
      untainted (together with the last clause of `alias`: "tainted is closed") -/
  closed : ∀ p m key c, plookup p st.cache ≠ none → p ∉ st.tainted → getNode root p = some m →
    (key, c) ∈ m.children → p ++ [key] ∉ st.tainted

theorem Cov.init (root : Node) : Cov root {} :=
  ⟨WF.init, (by intro p m h; exact absurd rfl h), (by intro p m what h; exact absurd rfl h),
   (by intro p h; exact absurd rfl h), (by intro p f t v _ h; cases h),
   (by intro p m h; exact absurd rfl h), (by intro p m key c h; exact absurd rfl h)⟩

theorem Cov.seeTaint {root : Node} {st : EvSt} (h : Cov root st) : Cov root (seeTaint st) :=
  ⟨h.wf.seeTaint, h.down, h.dyn, h.intree, h.alias, h.utaint, h.closed⟩

theorem cleanRec_evalNodeF (root : Node) (w : World) (fuel : Nat) : CleanRec (evalNodeF root w fuel) :=
  ⟨fun rs m p s v s' => evalNodeF_seen_mono root w fuel rs m p s v s',
   fun rs m p s v s' => evalNodeF_clean_strict root w fuel rs m p s v s'⟩

/-- an evaluation across which the counter did not move memoises an untainted value -/
theorem evalNodeF_clean_untainted {root : Node} {w : World} {fuel : Nat} {rs : Bool} {n : Node}
    {path : Path} {st st' : EvSt} {v : Val} (hwf : WF st)
    (h : evalNodeF root w fuel rs n path st = .ok (v, st'))
    (hs : st'.unsafeSeen = st.unsafeSeen) : eSafe n.flags = true ∧ path ∉ st'.tainted :=
  evalNodeF_rs_untainted hwf (evalNodeF_clean_strict root w fuel rs n path st v st' h hs)

theorem mem_alookup_some {k : Key} {c : Node} : ∀ {cs : List (Key × Node)}, (k, c) ∈ cs →
    ∃ c', alookup k cs = some c'
  | [], h => by cases h
  | (k0, c0) :: rest, h => by
    unfold alookup
    split
    · exact ⟨_, rfl⟩
    · rcases List.mem_cons.1 h with heq | h
      · cases heq; contradiction
      · exact mem_alookup_some h

/-- a successful reference loop started in a state satisfying `intree` and `alias` returns the value
    memoised for the node the chain ends in; if the counter did not move that node's value is
    untainted -/
theorem xrefLoop_resolve {root : Node} {w : World} {f : Nat} {rs : Bool} {self : Path} :
    ∀ (fuel : Nat) (cur : String) (chain : List String) (st : EvSt) (v : Val) (st' : EvSt),
    WF st →
    (∀ p, plookup p st.cache ≠ none → ∃ m, getNode root p = some m) →
    (∀ p fl t v, getNode root p = some (.leaf fl (.xref t)) → plookup p st.cache = some v →
      ∃ fuel tp, xrefResolve root fuel t = some tp ∧ plookup tp st.cache = some v ∧
        (p ∉ st.tainted → tp ∉ st.tainted)) →
    xrefLoop (evalNodeF root w f) root rs self fuel cur chain st = .ok (v, st') →
    ∃ fuel' tp, xrefResolve root fuel' cur = some tp ∧ plookup tp st'.cache = some v ∧
      (st'.unsafeSeen = st.unsafeSeen → tp ∉ st'.tainted)
  | 0, cur, chain, st, v, st', _, _, _, h => by simp [xrefLoop] at h
  | fuel + 1, cur, chain, st, v, st', hwf, hin, hal, h => by
    rw [xrefLoop_succ] at h
    cases hstep : xrefStep (evalNodeF root w f) root rs self cur chain st with
    | next t s1 =>
      rw [hstep] at h
      simp only at h
      obtain ⟨_, tp, fl, htp, _, _, hg⟩ := xrefStep_next hstep
      obtain ⟨_, _, _, _, hs1⟩ := xrefStep_next_state hstep
      rcases hs1 with ⟨_, e⟩ | ⟨_, _, e⟩ <;> rw [e] at h
      · obtain ⟨fuel', tp', hr, hv, hc⟩ := xrefLoop_resolve fuel t _ st v st' hwf hin hal h
        exact ⟨fuel' + 1, tp', by rw [xrefResolve_step htp hg]; exact hr, hv, hc⟩
      · obtain ⟨fuel', tp', hr, hv, _⟩ :=
          xrefLoop_resolve fuel t _ (seeTaint st) v st' hwf.seeTaint hin hal h
        have hm := xrefLoop_mono (cleanRec_evalNodeF root w f) h
        refine ⟨fuel' + 1, tp', by rw [xrefResolve_step htp hg]; exact hr, hv, ?_⟩
        intro e; simp only [seeTaint_unsafeSeen] at hm; omega
    | done r =>
      rw [hstep] at h
      simp only at h
      subst h
      unfold xrefStep at hstep
      split at hstep
      · cases hstep
      · rename_i tp htp
        split at hstep
        · cases hstep
        · rename_i v0 st1 hg
          split at hstep
          · cases hstep
          · cases hstep
            rcases ctxGetNode_ok_inv hg with ⟨v1, hv, hv1, hcase⟩ | ⟨_, hn, _⟩
            · cases hv
              obtain ⟨m, hm⟩ := hin tp (by rw [hv1]; simp)
              have hcache : st'.cache = st.cache ∧ st'.tainted = st.tainted ∧
                  (st'.unsafeSeen = st.unsafeSeen → tp ∉ st.tainted) := by
                rcases hcase with ⟨ht, rfl⟩ | ⟨_, _, rfl⟩
                · exact ⟨rfl, rfl, fun _ => ht⟩
                · refine ⟨rfl, rfl, ?_⟩
                  intro e; simp only [seeTaint_unsafeSeen] at e; omega
              rw [hcache.1, hcache.2.1]
              by_cases hx : ∃ fl t, m = .leaf fl (.xref t)
              · obtain ⟨fl, t, rfl⟩ := hx
                obtain ⟨fuel', tp', hr, hv', hc'⟩ := hal tp fl t v hm hv1
                exact ⟨fuel' + 1, tp', by rw [xrefResolve_step htp hm]; exact hr, hv',
                  fun e => hc' (hcache.2.2 e)⟩
              · exact ⟨1, tp, xrefResolve_stop htp hm (fun fl t e => hx ⟨fl, t, e⟩), hv1, hcache.2.2⟩
            · cases hn
        · rename_i n st1 hg
          split at hstep
          · cases hstep
          · split at hstep
            · split at hstep
              · split at hstep <;> cases hstep
              · cases hstep
            · rename_i hnx
              injection hstep with hres
              have hc := evalNodeF_cached hres
              have hgn : getNode root tp = some n := by
                rcases ctxGetNode_ok_inv hg with ⟨_, hn, _⟩ | ⟨n', hn, _, hn', _⟩
                · cases hn
                · cases hn; exact hn'
              exact ⟨1, tp, xrefResolve_stop htp hgn (fun fl t e => hnx fl t e), hc,
                fun e => (evalNodeF_clean_untainted hwf hres e).2⟩

theorem evalNodeF_cov (root : Node) (w : World) (huk : uniqueKeys root = true) :
    ∀ (fuel : Nat) (rs : Bool) (n : Node) (path : Path) (st : EvSt) (v : Val) (st' : EvSt),
    Placed root n path → Cov root st → evalNodeF root w fuel rs n path st = .ok (v, st') → Cov root st'
  | 0, rs, n, path, st, v, st', _, _, h => by simp [evalNodeF] at h
  | fuel + 1, rs, n, path, st, v, st', hp, hcov, h => by
    have hwf' := (evalNodeF_wf root w (fuel + 1) rs n path st v st' hcov.wf h).1
    have hgn : getNode root path = some n := (hp.getNode_uniq huk).1
    obtain ⟨_, hcase⟩ := evalNodeF_ok_inv h
    rcases hcase with ⟨_, _, rfl⟩ | ⟨hnone, hnip, st2, himpl, rfl⟩
    · exact ⟨hwf', (by simpa using hcov.down), (by simpa using hcov.dyn), (by simpa using hcov.intree),
        (by simpa using hcov.alias), (by simpa using hcov.utaint), (by simpa using hcov.closed)⟩
    · have hcov0 : Cov root (enter path (bump n st)) :=
        ⟨hcov.wf.enter hnone, (by simpa using hcov.down), (by simpa using hcov.dyn),
         (by simpa using hcov.intree), (by simpa using hcov.alias), (by simpa using hcov.utaint),
         (by simpa using hcov.closed)⟩
      obtain ⟨s1, extra, hcov1, hext, rfl, _⟩ :=
        evalImpl_lift' (I := Cov root) (R := Ext) Ext.refl Ext.trans
          (fun _ s hs => ⟨hs.seeTaint, Ext.seeTaint s⟩)
          (fun rs' m p s v s' hc hI hr =>
            ⟨evalNodeF_cov root w huk fuel rs' m p s v s' (hc.placed hp) hI hr,
             (evalNodeF_wf root w fuel rs' m p s v s' hI.wf hr).2⟩) hcov0 himpl
      -- paths memoised in `s1` stay memoised
      have hmono : ∀ p, plookup p s1.cache ≠ none →
          plookup p ((path, v) :: s1.cache) ≠ none := by
        intro p hp1
        simp only [plookup_cons]
        split
        · simp
        · exact hp1
      have hsplit : ∀ p, plookup p ((path, v) :: s1.cache) ≠ none → p = path ∨ plookup p s1.cache ≠ none := by
        intro p hp1
        simp only [plookup_cons] at hp1
        split at hp1
        · rename_i e; exact .inl e.symm
        · exact .inr hp1
      have hpathnone : plookup path s1.cache = none :=
        hcov1.wf.prog path (by rw [hext.prog]; simp)
      -- the taint decision of `finish`
      have hback : ∀ q, q ∈ (finish n path v (bump n st).unsafeSeen
          { s1 with log := s1.log ++ extra }).tainted → q = path ∨ q ∈ s1.tainted := by
        intro q hq
        rw [finish_tainted] at hq
        split at hq
        · exact List.mem_cons.1 hq
        · exact .inr hq
      have hclean : path ∉ (finish n path v (bump n st).unsafeSeen
          { s1 with log := s1.log ++ extra }).tainted →
          s1.unsafeSeen = (bump n st).unsafeSeen ∧ eSafe n.flags = true := by
        intro hq
        rw [finish_tainted] at hq
        split at hq
        · exact absurd List.mem_cons_self hq
        · rename_i hc
          simp only [Bool.or_eq_true, bne_iff_ne, ne_eq, Bool.not_eq_true', not_or, Decidable.not_not,
            Bool.not_eq_false] at hc
          exact hc
      have hsub : ∀ q, q ∈ s1.tainted → q ∈ (finish n path v (bump n st).unsafeSeen
          { s1 with log := s1.log ++ extra }).tainted := by
        intro q hq
        rw [finish_tainted]
        split
        · exact List.mem_cons_of_mem _ hq
        · exact hq
      refine ⟨hwf', ?_, ?_, ?_, ?_, ?_, ?_⟩
      · intro p m hpc hpm q m' hq
        simp only [finish_cache] at hpc ⊢
        rcases hsplit p hpc with rfl | hpc1
        · rw [hgn] at hpm; cases hpm
          cases q with
          | nil => simp [plookup_cons]
          | cons key q' =>
            cases n with
            | leaf f lk => simp [getNode] at hq
            | comp f k cs =>
              unfold getNode at hq
              split at hq
              · cases hq
              · rename_i c hc
                obtain ⟨rs', items, st1, he, hceq, _, _, _⟩ := evalImpl_comp_items himpl
                have hch := (evalItems_cached cs _ items st1 hcov0.wf he).2 key c (alookup_mem hc)
                have hch1 : plookup (p ++ [key]) s1.cache ≠ none := by
                  have : s1.cache = st1.cache := hceq
                  rw [this]; exact hch
                have hgc : getNode root (p ++ [key]) = some c := by
                  rw [getNode_append, hgn]; simp [getNode, hc]
                have := hcov1.down (p ++ [key]) c hch1 hgc q' m' hq
                apply hmono
                simpa using this
        · exact hmono _ (hcov1.down p m hpc1 hpm q m' hq)
      · intro p m what hpc hpm hd
        simp only [finish_cache] at hpc
        simp only [finish_log]
        rcases hsplit p hpc with rfl | hpc1
        · rw [hgn] at hpm; cases hpm
          obtain ⟨s1', hs1'⟩ := evalImpl_dyn_logs hd himpl
          have hlog := congrArg EvSt.log hs1'
          simp only at hlog
          rw [hlog]
          simp
        · exact List.mem_append_left _ (hcov1.dyn p m what hpc1 hpm hd)
      · intro p hpc
        simp only [finish_cache] at hpc
        rcases hsplit p hpc with rfl | hpc1
        · exact ⟨n, hgn⟩
        · exact hcov1.intree p hpc1
      · intro p fl t a hpm hpc
        simp only [finish_cache] at hpc ⊢
        have hkeep : ∀ tp, plookup tp s1.cache = some a → plookup tp ((path, v) :: s1.cache) = some a := by
          intro tp htp
          have hne : path ≠ tp := by
            intro e; subst e
            have : plookup path s1.cache = none :=
              hcov1.wf.prog path (by rw [hext.prog]; simp)
            rw [this] at htp; cases htp
          simp only [plookup_cons, hne, if_false]; exact htp
        have hnotpath : ∀ tp, plookup tp s1.cache = some a → tp ≠ path := by
          intro tp htp e; subst e; rw [hpathnone] at htp; cases htp
        by_cases hpp : p = path
        · subst hpp
          rw [hgn] at hpm; cases hpm
          simp only [plookup_cons, if_true] at hpc
          cases hpc
          simp only [evalImpl] at himpl
          obtain ⟨fuel', tp, hr, hv, hc⟩ :=
            xrefLoop_resolve _ _ _ _ _ _ hcov0.wf hcov0.intree hcov0.alias himpl
          refine ⟨fuel', tp, hr, hkeep tp hv, ?_⟩
          intro hnt htp
          have hcl := hclean hnt
          rcases hback tp htp with e | htp1
          · exact hnotpath tp hv e
          · exact hc (by simpa using hcl.1) htp1
        · have hne : path ≠ p := fun e => hpp e.symm
          simp only [plookup_cons, hne, if_false] at hpc
          obtain ⟨fuel', tp, hr, hv, hc⟩ := hcov1.alias p fl t a hpm hpc
          refine ⟨fuel', tp, hr, hkeep tp hv, ?_⟩
          intro hnt htp
          rcases hback tp htp with e | htp1
          · exact hnotpath tp hv e
          · exact hc (fun h1 => hnt (hsub p h1)) htp1
      · intro p m hpc hpm hs
        simp only [finish_cache] at hpc
        rw [finish_tainted]
        rcases hsplit p hpc with rfl | hpc1
        · rw [hgn] at hpm; cases hpm
          simp [hs]
        · have := hcov1.utaint p m hpc1 hpm hs
          split
          · exact List.mem_cons_of_mem _ this
          · exact this
      · intro p m key c hpc hnt hpm hmem hq
        simp only [finish_cache] at hpc
        rcases hsplit p hpc with rfl | hpc1
        · -- the node just evaluated: untainted means the counter did not move
          rw [hgn] at hpm; cases hpm
          have hcl := hclean hnt
          have hbs : bump n st = st := bump_safe hcl.2 st
          cases n with
          | leaf f lk => simp [Node.children] at hmem
          | comp f k cs =>
            simp only [Node.children] at hmem
            obtain ⟨rs', items, st1, he, _, htq, hsq, _⟩ := evalImpl_comp_items himpl
            simp only at htq hsq
            have hs1 : st1.unsafeSeen = (enter p (bump (.comp f k cs) st)).unsafeSeen := by
              rw [← hsq, hcl.1]; rfl
            have hstrict := evalItems_clean (cleanRec_evalNodeF root w fuel) cs _ items st1 he hs1
            obtain ⟨_, _, hkeys, _, hvals⟩ := evalItems_rs cs _ items st1 hcov0.wf hstrict
            have hk : key ∈ items.map (·.1) := by
              rw [hkeys]; exact List.mem_map.2 ⟨(key, c), hmem, rfl⟩
            obtain ⟨⟨k', a⟩, hma, rfl⟩ := List.mem_map.1 hk
            have hun := (hvals k' a hma).2
            rcases hback _ hq with e | hq1
            · have := congrArg List.length e; simp at this
            · exact hun (by rw [← htq]; exact hq1)
        · have hnt1 : p ∉ s1.tainted := fun h1 => hnt (hsub p h1)
          rcases hback _ hq with e | hq1
          · -- the child is memoised in `s1`, `path` is not
            obtain ⟨c', hc'⟩ : ∃ c', getNode m [key] = some c' := by
              cases m with
              | leaf f lk => simp [Node.children] at hmem
              | comp f k cs =>
                obtain ⟨c', hc'⟩ := mem_alookup_some (by simpa [Node.children] using hmem)
                exact ⟨c', by simp [getNode, hc']⟩
            have := hcov1.down p m hpc1 hpm [key] c' hc'
            rw [e, hpathnone] at this
            exact this rfl
          · exact hcov1.closed p m key c hpc1 hnt1 hpm hmem hq1

/-- In a successful build of a tree with distinct keys every dynamic node of the tree has exactly
    one log entry. -/
theorem evaluate_dyn_logged {w : World} {root : Node} {v : Val} {st : EvSt}
    (huk : uniqueKeys root = true) (h : evaluate w root = .ok (v, st))
    {p : Path} {m : Node} {what : String} (hm : getNode root p = some m) (hd : dynWhat m = some what) :
    (⟨p, what⟩ : LogEntry) ∈ st.log ∧ (st.log.map (·.path)).count p = 1 := by
  have hcov := evalNodeF_cov root w huk _ false root [] {} v st Placed.root (Cov.init root) h
  have hroot : plookup [] st.cache ≠ none := by rw [evalNodeF_cached h]; simp
  have hpc : plookup p st.cache ≠ none := by
    simpa using hcov.down [] root hroot rfl p m hm
  have hmem := hcov.dyn p m what hpc hm hd
  refine ⟨hmem, ?_⟩
  rw [hcov.wf.nodup.count, if_pos (List.mem_map.2 ⟨_, hmem, rfl⟩)]

/-- In a successful build of a tree with distinct keys every reference of the tree holds the very
    value memoised for the node its chain ends in, and that node is not a reference. -/
theorem evaluate_xref_alias {w : World} {root : Node} {v : Val} {st : EvSt}
    (huk : uniqueKeys root = true) (h : evaluate w root = .ok (v, st))
    {p : Path} {f : Flags} {t : String} (hm : getNode root p = some (.leaf f (.xref t))) :
    ∃ a fuel tp m, plookup p st.cache = some a ∧ xrefResolve root fuel t = some tp ∧
      getNode root tp = some m ∧ (∀ f' t', m ≠ .leaf f' (.xref t')) ∧ plookup tp st.cache = some a := by
  have hcov := evalNodeF_cov root w huk _ false root [] {} v st Placed.root (Cov.init root) h
  have hroot : plookup [] st.cache ≠ none := by rw [evalNodeF_cached h]; simp
  have hpc : plookup p st.cache ≠ none := by
    simpa using hcov.down [] root hroot rfl p _ hm
  cases hpa : plookup p st.cache with
  | none => exact absurd hpa hpc
  | some a =>
    obtain ⟨fuel, tp, hr, hv, _⟩ := hcov.alias p f t a hm hpa
    obtain ⟨m, hgm, hnx⟩ := xrefResolve_spec fuel t tp hr
    exact ⟨a, fuel, tp, m, rfl, hr, hgm, hnx, hv⟩

/-- "Tainted is closed", for a whole build of a tree with distinct keys: a node of the tree whose
    memoised value is untainted is safe, all its children are untainted, and if it is a reference the
    node its chain ends in is untainted and holds the same value. -/
theorem evaluate_untainted_closed {w : World} {root : Node} {v : Val} {st : EvSt}
    (huk : uniqueKeys root = true) (h : evaluate w root = .ok (v, st))
    {p : Path} {m : Node} (hm : getNode root p = some m) (hnt : p ∉ st.tainted) :
    eSafe m.flags = true ∧
    (∀ key c, (key, c) ∈ m.children → p ++ [key] ∉ st.tainted) ∧
    (∀ f t, m = .leaf f (.xref t) → ∃ a fuel tp, xrefResolve root fuel t = some tp ∧
      plookup p st.cache = some a ∧ plookup tp st.cache = some a ∧ tp ∉ st.tainted) := by
  have hcov := evalNodeF_cov root w huk _ false root [] {} v st Placed.root (Cov.init root) h
  have hroot : plookup [] st.cache ≠ none := by rw [evalNodeF_cached h]; simp
  have hpc : plookup p st.cache ≠ none := by
    simpa using hcov.down [] root hroot rfl p m hm
  refine ⟨?_, ?_, ?_⟩
  · cases hs : eSafe m.flags with
    | true => rfl
    | false => exact absurd (hcov.utaint p m hpc hm hs) hnt
  · intro key c hmem
    exact hcov.closed p m key c hpc hnt hm hmem
  · rintro f t rfl
    cases hpa : plookup p st.cache with
    | none => exact absurd hpa hpc
    | some a =>
      obtain ⟨fuel, tp, hr, hv, hc⟩ := hcov.alias p f t a hm hpa
      exact ⟨a, fuel, tp, hr, rfl, hv, hc hnt⟩

end AY
