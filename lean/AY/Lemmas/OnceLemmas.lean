/-
  AY.Lemmas.OnceLemmas — "at least once" for C10: a successful evaluation memoises every node
  below the evaluated one and logs every dynamic node it memoises.

  `Cov root st` extends the state invariant `WF` by two facts relative to the tree:
    down : a memoised node of the tree has all its descendants memoised
    dyn  : a memoised dynamic node of the tree has its execution in the log
  It is preserved by `evalNodeF` on nodes of a tree with pairwise distinct keys (`uniqueKeys`), where
  a path determines its node.
-/
import AY.Lemmas.PlainEvalLemmas
import AY.Lemmas.XrefLemmas
namespace AY

theorem WF.enter {n : Node} {path : Path} {st : EvSt} (hwf : WF st)
    (hnone : plookup path st.cache = none) : WF (enter path (bump n st)) := by
  refine ⟨?_, (by simpa using hwf.taint), (by simpa using hwf.logged), (by simpa using hwf.nodup)⟩
  intro p hp
  simp only [enter_inProgress, bump_inProgress, List.mem_cons] at hp
  simp only [enter_cache, bump_cache]
  rcases hp with rfl | hp
  · exact hnone
  · exact hwf.prog p hp

/-- every container class evaluates all its children with `evalItems` -/
theorem evalImpl_comp_items {rec : Rec} {root : Node} {w : World} {rs : Bool} {f : Flags} {k : CompKind}
    {cs : List (Key × Node)} {path : Path} {st st' : EvSt} {v : Val}
    (h : evalImpl rec root w rs (.comp f k cs) path st = .ok (v, st')) :
    ∃ rs' items st1, evalItems rec rs' path cs st = .ok (items, st1) ∧ st'.cache = st1.cache := by
  cases k with
  | dict =>
    simp only [evalImpl] at h
    split at h
    · cases h
    · rename_i items st1 he; cases h; exact ⟨_, _, _, he, rfl⟩
  | list =>
    simp only [evalImpl] at h
    split at h
    · cases h
    · rename_i items st1 he; cases h; exact ⟨_, _, _, he, rfl⟩
  | append =>
    simp only [evalImpl] at h
    split at h
    · cases h
    · rename_i items st1 he; cases h; exact ⟨_, _, _, he, rfl⟩
  | extend =>
    simp only [evalImpl] at h
    split at h
    · cases h
    · rename_i items st1 he; cases h; exact ⟨_, _, _, he, rfl⟩
  | stream =>
    simp only [evalImpl] at h
    split at h
    · cases h
    · rename_i items st1 he; cases h; exact ⟨_, _, _, he, rfl⟩
  | path ref =>
    simp only [evalImpl] at h
    split at h
    · cases h
    · rename_i items st1 he
      split at h
      · cases h
      · split at h
        · cases h
        · cases h; exact ⟨_, _, _, he, rfl⟩
  | call fn =>
    simp only [evalImpl] at h
    split at h
    · cases h
    · split at h
      · cases h
      · split at h
        · cases h
        · rename_i items st1 he
          split at h
          · cases h
          · split at h
            · cases h
            · cases h; exact ⟨_, _, _, he, rfl⟩
  | bind fn =>
    simp only [evalImpl] at h
    split at h
    · cases h
    · split at h
      · cases h
      · split at h
        · cases h
        · rename_i items st1 he
          split at h
          · cases h
          · split at h
            · cases h
            · cases h; exact ⟨_, _, _, he, rfl⟩

/-- after the children are evaluated each of them is memoised -/
theorem evalItems_cached {root : Node} {w : World} {fuel : Nat} {rs : Bool} {path : Path} :
    ∀ (cs : List (Key × Node)) (st : EvSt) (items : List (Key × Val)) (st' : EvSt),
    WF st → evalItems (evalNodeF root w fuel) rs path cs st = .ok (items, st') →
    WF st' ∧ ∀ key c, (key, c) ∈ cs → plookup (path ++ [key]) st'.cache ≠ none
  | [], st, items, st', hwf, h => by
    simp [evalItems] at h
    obtain ⟨_, rfl⟩ := h
    exact ⟨hwf, by simp⟩
  | (k, c) :: rest, st, items, st', hwf, h => by
    unfold evalItems at h
    split at h
    · cases h
    · rename_i v st1 h1
      split at h
      · cases h
      · rename_i vs st2 h2
        cases h
        have ⟨hwf1, _⟩ := evalNodeF_wf root w fuel rs c _ st v st1 hwf h1
        have hc1 := evalNodeF_cached h1
        have hext2 : WF st' ∧ Ext st1 st' :=
          evalItems_lift (I := WF) (R := Ext) Ext.refl Ext.trans rest st1 vs st'
            (fun key c s v s' _ hI hr => evalNodeF_wf root w fuel rs c _ s v s' hI hr) hwf1 h2
        have ⟨hwf2, hrest⟩ := evalItems_cached rest st1 vs st' hwf1 h2
        refine ⟨hwf2, ?_⟩
        intro key c' hm
        rcases List.mem_cons.1 hm with heq | hm
        · cases heq
          rw [hext2.2.cache _ _ hc1]; simp
        · exact hrest key c' hm

/-! ### the node a chain of references ends in (tree only) -/

/-- follow the references through the tree until a node that is not a reference -/
def xrefResolve (root : Node) : Nat → String → Option Path
  | 0, _ => none
  | fuel + 1, cur =>
    match splitPath cur with
    | none => none
    | some tp =>
      match getNode root tp with
      | some (.leaf _ (.xref next)) => xrefResolve root fuel next
      | some _ => some tp
      | none => none

theorem xrefResolve_step {root : Node} {cur next : String} {tp : Path} {f : Flags} {fuel : Nat}
    (h1 : splitPath cur = some tp) (h2 : getNode root tp = some (.leaf f (.xref next))) :
    xrefResolve root (fuel + 1) cur = xrefResolve root fuel next := by
  simp only [xrefResolve, h1, h2]

theorem xrefResolve_stop {root : Node} {cur : String} {tp : Path} {m : Node} {fuel : Nat}
    (h1 : splitPath cur = some tp) (h2 : getNode root tp = some m)
    (h3 : ∀ f t, m ≠ .leaf f (.xref t)) : xrefResolve root (fuel + 1) cur = some tp := by
  simp only [xrefResolve, h1, h2]

/-- the result of `xrefResolve` is a node of the tree that is not a reference -/
theorem xrefResolve_spec {root : Node} : ∀ (fuel : Nat) (cur : String) (tp : Path),
    xrefResolve root fuel cur = some tp → ∃ m, getNode root tp = some m ∧ ∀ f t, m ≠ .leaf f (.xref t)
  | 0, cur, tp, h => by simp [xrefResolve] at h
  | fuel + 1, cur, tp, h => by
    unfold xrefResolve at h
    split at h
    · cases h
    · rename_i tp0 _
      split at h
      · exact xrefResolve_spec fuel _ tp h
      · rename_i m hnx hm
        cases h
        exact ⟨m, hm, fun f t e => hnx f t e⟩
      · cases h

/-- The invariant relative to the tree. -/
structure Cov (root : Node) (st : EvSt) : Prop where
  wf : WF st
  down : ∀ p m, plookup p st.cache ≠ none → getNode root p = some m →
    ∀ q m', getNode m q = some m' → plookup (p ++ q) st.cache ≠ none
  dyn : ∀ p m what, plookup p st.cache ≠ none → getNode root p = some m → dynWhat m = some what →
    (⟨p, what⟩ : LogEntry) ∈ st.log
  /-- memoised paths are paths of the tree -/
  intree : ∀ p, plookup p st.cache ≠ none → ∃ m, getNode root p = some m
  /-- a memoised reference holds the value memoised for the node its chain ends in -/
  alias : ∀ p f t v, getNode root p = some (.leaf f (.xref t)) → plookup p st.cache = some v →
    ∃ fuel tp, xrefResolve root fuel t = some tp ∧ plookup tp st.cache = some v
  /-- the memoised value of an unsafe node of the tree is tainted -/
  utaint : ∀ p m, plookup p st.cache ≠ none → getNode root p = some m → eSafe m.flags = false →
    p ∈ st.tainted

theorem Cov.init (root : Node) : Cov root {} :=
  ⟨WF.init, (by intro p m h; exact absurd rfl h), (by intro p m what h; exact absurd rfl h),
   (by intro p h; exact absurd rfl h), (by intro p f t v _ h; cases h),
   (by intro p m h; exact absurd rfl h)⟩

/-- a successful reference loop started in a state satisfying `intree` and `alias` returns the value
    memoised for the node the chain ends in -/
theorem xrefLoop_resolve {root : Node} {w : World} {f : Nat} {rs : Bool} {self : Path} :
    ∀ (fuel : Nat) (cur : String) (chain : List String) (st : EvSt) (v : Val) (st' : EvSt),
    (∀ p, plookup p st.cache ≠ none → ∃ m, getNode root p = some m) →
    (∀ p fl t v, getNode root p = some (.leaf fl (.xref t)) → plookup p st.cache = some v →
      ∃ fuel tp, xrefResolve root fuel t = some tp ∧ plookup tp st.cache = some v) →
    xrefLoop (evalNodeF root w f) root rs self fuel cur chain st = .ok (v, st') →
    ∃ fuel' tp, xrefResolve root fuel' cur = some tp ∧ plookup tp st'.cache = some v
  | 0, cur, chain, st, v, st', _, _, h => by simp [xrefLoop] at h
  | fuel + 1, cur, chain, st, v, st', hin, hal, h => by
    rw [xrefLoop_succ] at h
    cases hstep : xrefStep (evalNodeF root w f) root rs self cur chain st with
    | next t =>
      rw [hstep] at h
      simp only at h
      obtain ⟨_, tp, fl, htp, _, _, hg⟩ := xrefStep_next hstep
      obtain ⟨fuel', tp', hr, hv⟩ := xrefLoop_resolve fuel t _ st v st' hin hal h
      exact ⟨fuel' + 1, tp', by rw [xrefResolve_step htp hg]; exact hr, hv⟩
    | done r =>
      rw [hstep] at h
      simp only at h
      subst h
      unfold xrefStep at hstep
      split at hstep
      · cases hstep
      · rename_i tp htp
        split at hstep
        · cases hstep
        · rename_i v0 hg
          split at hstep
          · cases hstep
          · cases hstep
            have hv1 : plookup tp st.cache = some v := by
              unfold ctxGetNode at hg
              split at hg
              · rename_i v1 hv1
                split at hg
                · cases hg
                · cases hg; exact hv1
              · split at hg <;> cases hg
            obtain ⟨m, hm⟩ := hin tp (by rw [hv1]; simp)
            by_cases hx : ∃ fl t, m = .leaf fl (.xref t)
            · obtain ⟨fl, t, rfl⟩ := hx
              obtain ⟨fuel', tp', hr, hv'⟩ := hal tp fl t v hm hv1
              exact ⟨fuel' + 1, tp', by rw [xrefResolve_step htp hm]; exact hr, hv'⟩
            · exact ⟨1, tp, xrefResolve_stop htp hm (fun fl t e => hx ⟨fl, t, e⟩), hv1⟩
        · rename_i n hg
          split at hstep
          · cases hstep
          · split at hstep
            · cases hstep
            · rename_i hnx
              injection hstep with hres
              have hc := evalNodeF_cached hres
              have hgn : getNode root tp = some n := by
                unfold ctxGetNode at hg
                split at hg
                · split at hg <;> cases hg
                · split at hg
                  · cases hg
                  · rename_i n' hn'; cases hg; exact hn'
              exact ⟨1, tp, xrefResolve_stop htp hgn (fun fl t e => hnx fl t e), hc⟩

theorem evalNodeF_cov (root : Node) (w : World) (huk : uniqueKeys root = true) :
    ∀ (fuel : Nat) (rs : Bool) (n : Node) (path : Path) (st : EvSt) (v : Val) (st' : EvSt),
    Placed root n path → Cov root st → evalNodeF root w fuel rs n path st = .ok (v, st') → Cov root st'
  | 0, rs, n, path, st, v, st', _, _, h => by simp [evalNodeF] at h
  | fuel + 1, rs, n, path, st, v, st', hp, hcov, h => by
    have hwf' := (evalNodeF_wf root w (fuel + 1) rs n path st v st' hcov.wf h).1
    have hgn : getNode root path = some n := (hp.getNode_uniq huk).1
    obtain ⟨_, hcase⟩ := evalNodeF_ok_inv h
    rcases hcase with ⟨_, _, rfl⟩ | ⟨hnone, hnip, st2, himpl, rfl⟩
    · exact ⟨hwf', (by simpa using hcov.down), (by simpa using hcov.dyn), (by simpa using hcov.intree),
        (by simpa using hcov.alias), (by simpa using hcov.utaint)⟩
    · have hcov0 : Cov root (enter path (bump n st)) :=
        ⟨hcov.wf.enter hnone, (by simpa using hcov.down), (by simpa using hcov.dyn),
         (by simpa using hcov.intree), (by simpa using hcov.alias), (by simpa using hcov.utaint)⟩
      obtain ⟨s1, extra, hcov1, hext, rfl, _⟩ :=
        evalImpl_lift' (I := Cov root) (R := Ext) Ext.refl Ext.trans
          (fun rs' m p s v s' hc hI hr =>
            ⟨evalNodeF_cov root w huk fuel rs' m p s v s' (hc.placed hp) hI hr,
             (evalNodeF_wf root w fuel rs' m p s v s' hI.wf hr).2⟩) hcov0 himpl
      -- paths memoised in `s1` stay memoised
      have hmono : ∀ p, plookup p s1.cache ≠ none →
          plookup p ((path, v) :: s1.cache) ≠ none := by
        intro p hp1
        simp only [plookup_cons]
        split
        · simp
        · exact hp1
      have hsplit : ∀ p, plookup p ((path, v) :: s1.cache) ≠ none → p = path ∨ plookup p s1.cache ≠ none := by
        intro p hp1
        simp only [plookup_cons] at hp1
        split at hp1
        · rename_i e; exact .inl e.symm
        · exact .inr hp1
      refine ⟨hwf', ?_, ?_, ?_, ?_, ?_⟩
      · intro p m hpc hpm q m' hq
        simp only [finish_cache] at hpc ⊢
        rcases hsplit p hpc with rfl | hpc1
        · rw [hgn] at hpm; cases hpm
          cases q with
          | nil => simp [plookup_cons]
          | cons key q' =>
            cases n with
            | leaf f lk => simp [getNode] at hq
            | comp f k cs =>
              unfold getNode at hq
              split at hq
              · cases hq
              · rename_i c hc
                obtain ⟨rs', items, st1, he, hceq⟩ := evalImpl_comp_items himpl
                have hch := (evalItems_cached cs _ items st1 hcov0.wf he).2 key c (alookup_mem hc)
                have hch1 : plookup (p ++ [key]) s1.cache ≠ none := by
                  have : s1.cache = st1.cache := hceq
                  rw [this]; exact hch
                have hgc : getNode root (p ++ [key]) = some c := by
                  rw [getNode_append, hgn]; simp [getNode, hc]
                have := hcov1.down (p ++ [key]) c hch1 hgc q' m' hq
                apply hmono
                simpa using this
        · exact hmono _ (hcov1.down p m hpc1 hpm q m' hq)
      · intro p m what hpc hpm hd
        simp only [finish_cache] at hpc
        simp only [finish_log]
        rcases hsplit p hpc with rfl | hpc1
        · rw [hgn] at hpm; cases hpm
          obtain ⟨s1', hs1'⟩ := evalImpl_dyn_logs hd himpl
          have hlog := congrArg EvSt.log hs1'
          simp only at hlog
          rw [hlog]
          simp
        · exact List.mem_append_left _ (hcov1.dyn p m what hpc1 hpm hd)
      · intro p hpc
        simp only [finish_cache] at hpc
        rcases hsplit p hpc with rfl | hpc1
        · exact ⟨n, hgn⟩
        · exact hcov1.intree p hpc1
      · intro p fl t a hpm hpc
        simp only [finish_cache] at hpc ⊢
        have hkeep : ∀ tp, plookup tp s1.cache = some a → plookup tp ((path, v) :: s1.cache) = some a := by
          intro tp htp
          have hne : path ≠ tp := by
            intro e; subst e
            have : plookup path s1.cache = none :=
              hcov1.wf.prog path (by rw [hext.prog]; simp)
            rw [this] at htp; cases htp
          simp only [plookup_cons, hne, if_false]; exact htp
        by_cases hpp : p = path
        · subst hpp
          rw [hgn] at hpm; cases hpm
          simp only [plookup_cons, if_true] at hpc
          cases hpc
          simp only [evalImpl] at himpl
          obtain ⟨fuel', tp, hr, hv⟩ := xrefLoop_resolve _ _ _ _ _ _ hcov0.intree hcov0.alias himpl
          exact ⟨fuel', tp, hr, hkeep tp hv⟩
        · have hne : path ≠ p := fun e => hpp e.symm
          simp only [plookup_cons, hne, if_false] at hpc
          obtain ⟨fuel', tp, hr, hv⟩ := hcov1.alias p fl t a hpm hpc
          exact ⟨fuel', tp, hr, hkeep tp hv⟩
      · intro p m hpc hpm hs
        simp only [finish_cache] at hpc
        rw [finish_tainted]
        rcases hsplit p hpc with rfl | hpc1
        · rw [hgn] at hpm; cases hpm
          simp [hs]
        · have := hcov1.utaint p m hpc1 hpm hs
          split
          · exact List.mem_cons_of_mem _ this
          · exact this

/-- In a successful build of a tree with distinct keys every dynamic node of the tree has exactly
    one log entry. -/
theorem evaluate_dyn_logged {w : World} {root : Node} {v : Val} {st : EvSt}
    (huk : uniqueKeys root = true) (h : evaluate w root = .ok (v, st))
    {p : Path} {m : Node} {what : String} (hm : getNode root p = some m) (hd : dynWhat m = some what) :
    (⟨p, what⟩ : LogEntry) ∈ st.log ∧ (st.log.map (·.path)).count p = 1 := by
  have hcov := evalNodeF_cov root w huk _ false root [] {} v st Placed.root (Cov.init root) h
  have hroot : plookup [] st.cache ≠ none := by rw [evalNodeF_cached h]; simp
  have hpc : plookup p st.cache ≠ none := by
    simpa using hcov.down [] root hroot rfl p m hm
  have hmem := hcov.dyn p m what hpc hm hd
  refine ⟨hmem, ?_⟩
  rw [hcov.wf.nodup.count, if_pos (List.mem_map.2 ⟨_, hmem, rfl⟩)]

/-- In a successful build of a tree with distinct keys every reference of the tree holds the very
    value memoised for the node its chain ends in, and that node is not a reference. -/
theorem evaluate_xref_alias {w : World} {root : Node} {v : Val} {st : EvSt}
    (huk : uniqueKeys root = true) (h : evaluate w root = .ok (v, st))
    {p : Path} {f : Flags} {t : String} (hm : getNode root p = some (.leaf f (.xref t))) :
    ∃ a fuel tp m, plookup p st.cache = some a ∧ xrefResolve root fuel t = some tp ∧
      getNode root tp = some m ∧ (∀ f' t', m ≠ .leaf f' (.xref t')) ∧ plookup tp st.cache = some a := by
  have hcov := evalNodeF_cov root w huk _ false root [] {} v st Placed.root (Cov.init root) h
  have hroot : plookup [] st.cache ≠ none := by rw [evalNodeF_cached h]; simp
  have hpc : plookup p st.cache ≠ none := by
    simpa using hcov.down [] root hroot rfl p _ hm
  cases hpa : plookup p st.cache with
  | none => exact absurd hpa hpc
  | some a =>
    obtain ⟨fuel, tp, hr, hv⟩ := hcov.alias p f t a hm hpa
    obtain ⟨m, hgm, hnx⟩ := xrefResolve_spec fuel t tp hr
    exact ⟨a, fuel, tp, m, rfl, hr, hgm, hnx, hv⟩

end AY
