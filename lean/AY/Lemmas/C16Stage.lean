/-
  AY.Lemmas.C16Stage — one builder step (`pre-merge`, then `merge`) for a stage that consists of a
  single operator at a top-level key: the operator detaches the old value, the merge inserts the
  replacement as a new key.
-/
import AY.Lemmas.C16Commute
namespace AY

theorem c16_eDel_comp_children (f : Flags) (k : CompKind) (cs cs' : List (Key × Node)) :
    eDel (.comp f k cs) = eDel (.comp f k cs') := rfl

/-- merging a one-key mapping whose key the accumulated mapping does not have: the key is appended
    (adopted), everything else stays -/
theorem c16_merge_new_key (rf sf : Flags) (rcs : List (Key × Node)) (k : Key) (v : Node)
    (hk : alookup k rcs = none) (hdel : eDel (.comp sf .dict [(k, v)]) = false)
    (hnew : reqNew [] [] v = none) :
    ∃ r, merge (.comp rf .dict rcs) (.comp sf .dict [(k, v)]) = .ok r ∧
      native r = .dict (nativeList rcs ++ [(k, native v)]) := by
  have hloop : mergeLoop (mergeF (Node.depth (.comp sf .dict [(k, v)]))) rf .dict [] rcs [(k, v)] =
      .ok (rcs ++ [(k, adopt rf .dict v)]) := by
    simp [mergeLoop, mergeStep, getChild, CompKind.isDictFam, hk, hnew, setChild,
      aset_of_lookup_none k _ rcs hk]
  have hfin : ∀ scs, ∃ r s, finishMerge rf .dict scs (.comp sf .dict [(k, v)]) = .ok (r, s) ∧
      native r = .dict (nativeList scs) := by
    intro scs
    simp only [finishMerge, maybePromote, CompKind.sameClass, if_true]
    split
    · exact ⟨_, _, rfl, by simp [nativeOf_propagate, native, CompKind.isDictFam]⟩
    · exact ⟨_, _, rfl, by simp [nativeOf_propagate, native, CompKind.isDictFam]⟩
  obtain ⟨r, s, hf, hn⟩ := hfin (rcs ++ [(k, adopt rf .dict v)])
  refine ⟨r, ?_, ?_⟩
  · simp only [merge, mergeF, compMerge, hdel, hloop, hf]
    simp
  · rw [hn, nativeList_append]
    simp [nativeList, native_adopt]

/-- the pre-merge pass of a one-key stage mapping whose child is replaced by another object -/
theorem c16_premerge_one_key (fuel : Nat) (sf : Flags) (k : Key) (c c' : Node) (into into' : Option Node)
    (h : premergeF (fuel + 1) c [k] into = .ok (c', false, into')) :
    premergeF (fuel + 2) (.comp sf .dict [(k, c)]) [] into =
      .ok (.comp sf .dict [(k, adopt sf .dict c')], true, into') := by
  rw [premergeF]
  any_goals (intro hh; cases hh)
  simp only [premergeChildren, List.nil_append, h]
  simp [applyResets, setChild, CompKind.isDictFam, aset]

/-- builder step for a one-key stage `{q: op}` whose operator leaves the accumulated mapping
    with the children `rcs'`, none of them under `q` -/
theorem c16_stage_one (fuel : Nat) (rf sf : Flags) (rcs rcs' : List (Key × Node)) (q : Key)
    (c c' : Node) (hq : alookup q rcs' = none)
    (hpm : premergeF (fuel + 1) c [q] (some (.comp rf .dict rcs)) =
      .ok (c', false, some (.comp rf .dict rcs')))
    (hdel : eDel (.comp sf .dict []) = false)
    (hnew : reqNew [] [] (adopt sf .dict c') = none) :
    ∃ r, flattenLoop (premergeF (fuel + 2)) (.comp rf .dict rcs) [.comp sf .dict [(q, c)]] = .ok r ∧
      native r = .dict (nativeList rcs' ++ [(q, native c')]) := by
  obtain ⟨r, hm, hn⟩ := c16_merge_new_key rf sf rcs' q (adopt sf .dict c') hq
    (by rw [← hdel]; rfl) hnew
  refine ⟨r, ?_, by rw [hn, native_adopt]⟩
  simp only [flattenLoop, c16_premerge_one_key fuel sf q c c' _ _ hpm, hm]

end AY
