/-
  AY.Lemmas.C04List — the key loop of a list merged with a non-deleting (`!merge`) list:
  index-wise merge of the common positions, the surplus of the newer list appended.
-/
import AY.Lemmas.C04Merge
import AY.Lemmas.C02Main
namespace AY

theorem c04_listKeys_append : ∀ (i : Nat) (l₁ l₂ : List (Key × Node)),
    listKeys i (l₁ ++ l₂) = (listKeys i l₁ && listKeys (i + l₁.length) l₂)
  | i, [], l₂ => by simp [listKeys]
  | i, (k, c) :: rest, l₂ => by
    simp [listKeys, c04_listKeys_append (i + 1) rest l₂, Bool.and_assoc, Nat.add_assoc, Nat.add_comm 1]

theorem c04_listKeys_lookup_none : ∀ (j : Nat) (cs : List (Key × Node)) (i : Nat), listKeys j cs = true →
    (i < j ∨ j + cs.length ≤ i) → alookup (.int (i : Int)) cs = none
  | _, [], _, _, _ => rfl
  | j, (k, c) :: rest, i, h, hi => by
    have h' : k = Key.int (j : Int) ∧ listKeys (j + 1) rest = true := by simpa [listKeys] using h
    have hne : ¬ (Key.int (j : Int) = Key.int (i : Int)) := by
      intro e; have := Key.int.inj e; simp at hi; omega
    simp only [alookup, h'.1, hne, if_false]
    exact c04_listKeys_lookup_none (j + 1) rest i h'.2 (by simp at hi; omega)

theorem c04_validateIndex_nat_lt {len i : Nat} (h : i < len) :
    validateIndex len true (.int (i : Int)) = some i := by
  simp only [validateIndex, Bool.and_true]
  have h1 : ¬ ((i : Int).natAbs > len) := by omega
  have h2 : ¬ ((i : Int) = (len : Int)) := by omega
  have h3 : ¬ ((i : Int) < 0) := by omega
  simp [h2, h3]
  omega

theorem c04_validateIndex_nat_len_strict (len : Nat) :
    validateIndex len true (.int (len : Int)) = none := by
  simp [validateIndex]

theorem c04_validateIndex_nat_len_lax (len : Nat) :
    validateIndex len false (.int (len : Int)) = some len := by
  have h3 : ¬ ((len : Int) < 0) := by omega
  simp [validateIndex, h3]

/-- one iteration for index `j` on a numbered list of length `≥ j`, no removal: the element at `j`
    is replaced by the recursive merge, or (when `j` is the length) the value is appended -/
theorem c04_mergeStep_list {exc : List Path} (rec : Node → Node → Except Err (Node × Bool)) (hrec : RecDelFaithful rec)
    {sf : Flags} {sk : CompKind} (hsk : sk.isDictFam = false) {acc acc' : List (Key × Node)}
    (hkeys : listKeys 0 acc = true) {j : Nat} (hj : j ≤ acc.length) {v : Node}
    (hv : (v.flags.del == some true) = false)
    (h : mergeStep rec sf sk exc acc (.int (j : Int), v) = .ok acc') :
    (j < acc.length →
      ∃ c nw same, alookup (.int (j : Int)) acc = some c ∧ rec c v = .ok (nw, same) ∧
        acc' = aset (.int (j : Int)) (if same then nw else adopt sf sk nw) acc) ∧
    (j = acc.length → acc' = acc ++ [(.int (j : Int), adopt sf sk v)]) := by
  have hrm := c04_stepRemoves_false rec hrec sk acc (.int (j : Int), v) hv
  constructor
  · intro hlt
    obtain ⟨c, hl, _⟩ := listKeys_lookup acc 0 j hkeys hlt
    rw [Nat.zero_add] at hl
    have hvi := c04_validateIndex_nat_lt hlt
    have hg : getChild sk (.int (j : Int)) acc = some c := by simp [getChild, hsk, hvi, hl]
    have hset : ∀ x, setChild sf sk (.int (j : Int)) x acc = .ok (aset (.int (j : Int)) (adopt sf sk x) acc) := by
      intro x; simp [setChild, hsk, validateIndex_lax_of_strict hvi]
    have hrep : ∀ x, replaceChild sk (.int (j : Int)) x acc = aset (.int (j : Int)) x acc := by
      intro x; simp [replaceChild, hsk, hvi]
    simp only [stepRemoves, hg] at hrm
    simp only [mergeStep, hg, hset, hrep] at h
    cases hr : rec c v with
    | error e => simp [hr] at h
    | ok res =>
      obtain ⟨nw, same⟩ := res
      simp only [hr] at h hrm
      refine ⟨c, nw, same, hl, hr, ?_⟩
      cases hcomp : c.isComp with
      | true =>
        simp only [hcomp, if_true] at h hrm
        rw [if_neg (by simp [hrm])] at h
        cases same with
        | true => simp only [if_true] at h; injection h with h; exact h.symm
        | false => simp only [Bool.false_eq_true, if_false] at h; injection h with h; exact h.symm
      | false =>
        simp only [hcomp, Bool.false_eq_true, if_false] at h hrm
        cases same with
        | true => simp only [if_true] at h; injection h with h; exact h.symm
        | false =>
          simp only [Bool.false_eq_true, if_false] at h
          split at h
          · cases h
          · rw [if_neg (by simpa using hrm)] at h
            injection h with h; exact h.symm
  · intro he
    subst he
    have hg : getChild sk (.int (acc.length : Int)) acc = none := by
      simp [getChild, hsk, c04_validateIndex_nat_len_strict]
    have hnone : alookup (.int (acc.length : Int)) acc = none :=
      c04_listKeys_lookup_none 0 acc acc.length hkeys (.inr (by omega))
    simp only [mergeStep, hg] at h
    split at h
    · cases h
    · simp only [setChild, hsk, Bool.false_eq_true, if_false, c04_validateIndex_nat_len_lax] at h
      injection h with h
      rw [← h, aset_of_lookup_none _ _ _ hnone]

theorem c04_alookup_append_left {α : Type} (k : Key) (l₁ l₂ : List (Key × α)) (c : α)
    (h : alookup k l₁ = some c) : alookup k (l₁ ++ l₂) = some c := by
  induction l₁ with
  | nil => simp [alookup] at h
  | cons kv rest ih =>
    obtain ⟨k', v⟩ := kv
    by_cases e : k' = k
    · simpa [alookup, e] using h
    · simp only [alookup, e, if_false] at h
      simp [alookup, e, ih h]

theorem c04_alookup_append_right {α : Type} (k : Key) (l₁ l₂ : List (Key × α))
    (h : alookup k l₁ = none) : alookup k (l₁ ++ l₂) = alookup k l₂ := by
  induction l₁ with
  | nil => rfl
  | cons kv rest ih =>
    obtain ⟨k', v⟩ := kv
    by_cases e : k' = k
    · simp [alookup, e] at h
    · simp only [alookup, e, if_false] at h
      simp [alookup, e, ih h]

/-- the loop over a numbered newer list `ocs` (indices `j …`) on a numbered list `acc` with
    `j ≤ length`: pointwise description of the result -/
theorem c04_mergeLoop_list {exc : List Path} (rec : Node → Node → Except Err (Node × Bool)) (hrec : RecDelFaithful rec)
    {sf : Flags} {sk : CompKind} (hsk : sk.isDictFam = false) :
    ∀ (ocs : List (Key × Node)) (j : Nat) (acc acc' : List (Key × Node)),
      listKeys 0 acc = true → listKeys j ocs = true → j ≤ acc.length → noExplicitDel ocs = true →
      mergeLoop rec sf sk exc acc ocs = .ok acc' →
      listKeys 0 acc' = true ∧ acc'.length = max acc.length (j + ocs.length) ∧
      (∀ i : Nat, alookup (.int (i : Int)) ocs = none →
        alookup (.int (i : Int)) acc' = alookup (.int (i : Int)) acc) ∧
      (∀ (i : Nat) (v : Node), alookup (.int (i : Int)) ocs = some v →
        if i < acc.length then
          ∃ c nw same, alookup (.int (i : Int)) acc = some c ∧ rec c v = .ok (nw, same) ∧
            alookup (.int (i : Int)) acc' = some (if same then nw else adopt sf sk nw)
        else alookup (.int (i : Int)) acc' = some (adopt sf sk v))
  | [], j, acc, acc', hk, _, hj, _, h => by
    simp only [mergeLoop] at h; injection h with h; subst h
    refine ⟨hk, by simp; omega, fun _ _ => rfl, ?_⟩
    intro i v hv; simp [alookup] at hv
  | (k, v) :: rest, j, acc, acc', hk, hko, hj, hd, h => by
    have hko' : k = Key.int (j : Int) ∧ listKeys (j + 1) rest = true := by simpa [listKeys] using hko
    have hd' : (v.flags.del == some true) = false ∧ noExplicitDel rest = true := by
      simpa [noExplicitDel] using hd
    obtain ⟨hkj, hkrest⟩ := hko'
    subst hkj
    simp only [mergeLoop] at h
    cases hs : mergeStep rec sf sk exc acc (.int (j : Int), v) with
    | error e => simp [hs] at h
    | ok acc1 =>
      simp only [hs] at h
      obtain ⟨s1, s2⟩ := c04_mergeStep_list rec hrec hsk hk hj hd'.1 hs
      have hjrest : alookup (.int (j : Int)) rest = none :=
        c04_listKeys_lookup_none (j + 1) rest j hkrest (.inl (by omega))
      -- facts about `acc1`
      have hacc1 : listKeys 0 acc1 = true ∧ j + 1 ≤ acc1.length ∧
          acc1.length = max acc.length (j + 1) ∧
          (∀ i : Nat, i ≠ j → alookup (.int (i : Int)) acc1 = alookup (.int (i : Int)) acc) := by
        rcases Nat.lt_or_ge j acc.length with hlt | hge
        · obtain ⟨c, nw, same, hl, _, e⟩ := s1 hlt
          have hsome : (alookup (.int (j : Int)) acc).isSome = true := by simp [hl]
          subst e
          refine ⟨listKeys_aset _ _ 0 acc hk hsome, ?_, ?_, ?_⟩
          · rw [length_aset_of_some _ _ acc hsome]; omega
          · rw [length_aset_of_some _ _ acc hsome]; omega
          · intro i hi
            rw [alookup_aset]
            have : ¬ (Key.int (j : Int) = Key.int (i : Int)) := by
              intro e; have := Key.int.inj e; omega
            simp [this]
        · have he : j = acc.length := by omega
          have e := s2 he
          subst e
          refine ⟨?_, by simp; omega, by simp; omega, ?_⟩
          · rw [c04_listKeys_append]; simp [hk, listKeys, he]
          · intro i hi
            by_cases hin : i < acc.length
            · obtain ⟨c, hc, _⟩ := listKeys_lookup acc 0 i hk hin
              rw [Nat.zero_add] at hc
              rw [c04_alookup_append_left _ _ _ _ hc, hc]
            · have hn : alookup (.int (i : Int)) acc = none :=
                c04_listKeys_lookup_none 0 acc i hk (.inr (by omega))
              rw [c04_alookup_append_right _ _ _ hn, hn]
              have : ¬ (Key.int (j : Int) = Key.int (i : Int)) := by
                intro e; have := Key.int.inj e; omega
              simp [alookup, this]
      obtain ⟨a1, a2, a3, a4⟩ := hacc1
      obtain ⟨r1, r2, r3, r4⟩ := c04_mergeLoop_list rec hrec hsk rest (j + 1) acc1 acc' a1 hkrest a2 hd'.2 h
      refine ⟨r1, ?_, ?_, ?_⟩
      · rw [r2, a3]; simp only [List.length_cons]; omega
      · intro i hi
        have hne : ¬ (Key.int (j : Int) = Key.int (i : Int)) := by
          intro e; rw [e] at hi; simp [alookup] at hi
        have hij : i ≠ j := fun e => hne (by rw [e])
        simp only [alookup, hne, if_false] at hi
        rw [r3 i hi, a4 i hij]
      · intro i w hw
        by_cases hij : i = j
        · subst hij
          simp only [alookup, if_true, Option.some.injEq] at hw
          subst hw
          rw [r3 i hjrest]
          rcases Nat.lt_or_ge i acc.length with hlt | hge
          · obtain ⟨c, nw, same, hl, hr, e⟩ := s1 hlt
            rw [if_pos hlt]
            refine ⟨c, nw, same, hl, hr, ?_⟩
            rw [e, alookup_aset]; simp
          · have he : i = acc.length := by omega
            rw [if_neg (by omega), s2 he]
            have hn : alookup (.int (i : Int)) acc = none :=
              c04_listKeys_lookup_none 0 acc i hk (.inr (by omega))
            rw [c04_alookup_append_right _ _ _ hn]
            simp [alookup]
        · have hne : ¬ (Key.int (j : Int) = Key.int (i : Int)) := by
            intro e; have := Key.int.inj e; omega
          simp only [alookup, hne, if_false] at hw
          have hi1 : j + 1 ≤ i := by
            have hm := alookup_mem_akeys' hw
            obtain ⟨t, ht, e⟩ := listKeys_ge (j + 1) rest hkrest _ hm
            have := Key.int.inj e
            omega
          have := r4 i w hw
          by_cases hlt : i < acc.length
          · have hlt1 : i < acc1.length := by rw [a3]; omega
            rw [if_pos hlt1] at this
            rw [if_pos hlt]
            obtain ⟨c, nw, same, hl, hr, e⟩ := this
            exact ⟨c, nw, same, by rw [← a4 i hij]; exact hl, hr, e⟩
          · have hlt1 : ¬ i < acc1.length := by rw [a3]; omega
            rw [if_neg hlt1] at this
            rw [if_neg hlt]
            exact this
where
  alookup_mem_akeys' {key : Key} {l : List (Key × Node)} {c : Node}
      (h : alookup key l = some c) : key ∈ akeys l :=
    (ahas_iff_mem key l).1 (by simp [ahas, h])

end AY
