/-
  AY.Lemmas.SafeFlagLemmas — flags of the node a merge step returns (helpers for AY/Props/C07.lean).
-/
import AY.Model.Merge
namespace AY

theorem setFlags_flags (n : Node) (f : Flags) : (n.setFlags f).flags = f := by
  cases n <;> rfl

theorem maybePromote_flags {sf : Flags} {sk : CompKind} {scs : List (Key × Node)} {o r : Node} {b : Bool}
    (h : maybePromote sf sk scs o = .ok (r, b)) : r.flags = sf := by
  unfold maybePromote at h
  split at h
  · cases h; rfl
  · repeat' split at h
    all_goals first | (cases h; rfl) | cases h

theorem propagate_flags (n : Node) : (propagate n).flags = n.flags := by
  cases n with
  | leaf f k => rfl
  | comp f k cs =>
    show (match childKw f k with
      | none => Node.comp f k cs
      | some kw => Node.comp f k (applyKwList kw cs)).flags = f
    cases childKw f k <;> rfl

end AY
