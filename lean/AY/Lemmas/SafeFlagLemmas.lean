/-
  AY.Lemmas.SafeFlagLemmas — flags of the node a merge step returns (helpers for AY/Props/C07.lean).
-/
import AY.Model.Merge
namespace AY

theorem setFlags_flags (n : Node) (f : Flags) : (n.setFlags f).flags = f := by
  cases n <;> rfl

/-- the flags of the node `_maybe_promote` returns: those handed in (`self.__dict__`), with `_safe = False` on a
    promoted node that was unsafe -/
theorem maybePromote_flags {sf : Flags} {sk : CompKind} {scs : List (Key × Node)} {o r : Node} {b : Bool}
    (h : maybePromote sf sk scs o = .ok (r, b)) : r.flags = if b then sf else promotedFlags sf o.flags := by
  unfold maybePromote at h
  split at h
  · cases h; rfl
  · repeat' split at h
    all_goals first | (cases h; rfl) | cases h

theorem eSafe_promotedFlags (sf of : Flags) : eSafe (promotedFlags sf of) = (eSafe sf && eSafe of) := by
  unfold promotedFlags
  cases h : eSafe of
  · simp [eSafe]
  · simp

theorem promotedFlags_safe_false {sf : Flags} (of : Flags) (h : sf.safe = some false) :
    (promotedFlags sf of).safe = some false := by
  unfold promotedFlags; split
  · exact h
  · rfl

theorem promotedFlags_iSafe (sf of : Flags) : (promotedFlags sf of).iSafe = sf.iSafe := by
  unfold promotedFlags; split <;> rfl

theorem promotedFlags_dSafe (sf of : Flags) : (promotedFlags sf of).dSafe = sf.dSafe := by
  unfold promotedFlags; split <;> rfl

/-- an explicit mark handed in is on the returned node, promoted or not -/
theorem maybePromote_safe_false {sf : Flags} {sk : CompKind} {scs : List (Key × Node)} {o r : Node} {b : Bool}
    (h : maybePromote sf sk scs o = .ok (r, b)) (hs : sf.safe = some false) : r.flags.safe = some false := by
  rw [maybePromote_flags h]; split
  · exact hs
  · exact promotedFlags_safe_false _ hs

theorem propagate_flags (n : Node) : (propagate n).flags = n.flags := by
  cases n with
  | leaf f k => rfl
  | comp f k cs =>
    show (match childKw f k with
      | none => Node.comp f k cs
      | some kw => Node.comp f k (applyKwList kw cs)).flags = f
    cases childKw f k <;> rfl

/-! ### `propagate` hands an unsafe mark down to every direct child -/

/-- `StreamNode` (hands nothing down) -/
def Node.isStream : Node → Bool
  | .comp _ .stream _ => true
  | _ => false

theorem eSafe_of_iSafe_false {f : Flags} (h : f.iSafe = some false) : eSafe f = false := by
  simp [eSafe, h]

theorem updFlags_iSafe_false {kw : ChildKw} (h : kw.iSafe = some false) (f : Flags) :
    (updFlags kw f).iSafe = some false := by
  simp only [updFlags, h]; split <;> rfl

theorem applyKw_iSafe_false {kw : ChildKw} (h : kw.iSafe = some false) (c : Node) :
    (applyKw kw c).flags.iSafe = some false := by
  cases c with
  | leaf f k => simp only [applyKw, Node.flags]; exact updFlags_iSafe_false h f
  | comp f k cs =>
    simp only [applyKw]
    by_cases hch : flagsChanged kw f = true
    · simp only [hch, if_true]
      have : ∀ n : Node, n.flags = updFlags kw f → n.flags.iSafe = some false :=
        fun n e => by rw [e]; exact updFlags_iSafe_false h f
      cases childKw (updFlags kw f) k <;> exact this _ rfl
    · have hch' : flagsChanged kw f = false := by simpa using hch
      simp only [hch', Bool.false_eq_true, if_false, Node.flags]
      simp only [flagsChanged, Bool.or_eq_false_iff, Bool.and_eq_false_iff, bne_eq_false_iff_eq] at hch'
      rcases hch'.2 with h2 | h2
      · rw [h2]; exact h
      · exact h2

theorem applyKwList_mem {kw : ChildKw} {key : Key} {c : Node} : ∀ {cs : List (Key × Node)},
    (key, c) ∈ applyKwList kw cs → ∃ c0, (key, c0) ∈ cs ∧ c = applyKw kw c0
  | [], h => by simp [applyKwList] at h
  | (k', c') :: rest, h => by
    simp only [applyKwList, List.mem_cons, Prod.mk.injEq] at h
    rcases h with ⟨rfl, rfl⟩ | h
    · exact ⟨c', by simp, rfl⟩
    · obtain ⟨c0, hm, e⟩ := applyKwList_mem h
      exact ⟨c0, List.mem_cons_of_mem _ hm, e⟩

theorem childKw_iSafe_eq {f : Flags} {k : CompKind} {kw : ChildKw} (h : childKw f k = some kw) :
    kw.iSafe = if f.iSafe = some false then some false else f.safe.or f.iSafe := by
  cases k <;> simp only [childKw, Option.some.injEq] at h <;> first | (subst h; rfl) | cases h

/-- what a container hands down: its own inherited `False` always wins, else the explicit flag, else the inherited one -/
theorem childKw_iSafe {f : Flags} {k : CompKind} {kw : ChildKw} (h : childKw f k = some kw)
    (hs : f.safe.or f.iSafe = some false) : kw.iSafe = some false := by
  rw [childKw_iSafe_eq h]
  split
  · rfl
  · exact hs

theorem childKw_isSome_of_not_stream {f : Flags} {k : CompKind} {cs : List (Key × Node)}
    (h : (Node.comp f k cs).isStream = false) : ∃ kw, childKw f k = some kw := by
  cases k <;> first | exact ⟨_, rfl⟩ | simp [Node.isStream] at h

/-- after `_propagate_implicit_values` on a node that hands down `implicit_safe = False`, every
    direct child carries `_implicit_safe = False` -/
theorem propagate_children_unsafe (n : Node) (hst : n.isStream = false)
    (h : n.flags.safe.or n.flags.iSafe = some false) :
    ∀ key c, (key, c) ∈ (propagate n).children → c.flags.iSafe = some false := by
  cases n with
  | leaf f k => intro key c hm; simp [propagate, Node.children] at hm
  | comp f k cs =>
    obtain ⟨kw, hk⟩ := childKw_isSome_of_not_stream hst
    intro key c hm
    simp only [propagate, hk, Node.children] at hm
    obtain ⟨c0, _, rfl⟩ := applyKwList_mem hm
    exact applyKw_iSafe_false (childKw_iSafe hk h) c0

/-- the same, stated on what the node hands down (`_get_child_kwargs`) -/
theorem propagate_children_unsafe_kw (f : Flags) (k : CompKind) (cs : List (Key × Node)) (kw : ChildKw)
    (hk : childKw f k = some kw) (hs : kw.iSafe = some false) :
    ∀ key c, (key, c) ∈ (propagate (.comp f k cs)).children → c.flags.iSafe = some false := by
  intro key c hm
  simp only [propagate, hk, Node.children] at hm
  obtain ⟨c0, _, rfl⟩ := applyKwList_mem hm
  exact applyKw_iSafe_false hs c0

theorem propagate_isStream (n : Node) : (propagate n).isStream = n.isStream := by
  cases n with
  | leaf f k => rfl
  | comp f k cs =>
    simp only [propagate]
    cases childKw f k <;> cases k <;> rfl

theorem mergeSafe_safe_false {w l : Flags} (h : w.safe = some false ∨ l.safe = some false) :
    (mergeSafe w l).safe = some false := by
  simp only [mergeSafe]
  rcases h with h | h
  · rw [h]; cases l.safe <;> simp
  · rw [h]; simp

end AY
