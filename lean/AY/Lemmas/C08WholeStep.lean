/-
  AY.Lemmas.C08WholeStep — one iteration of the key loop (`mergeStep`) for a non-deleting newer
  mapping whose value carries no `!del`: the shape of a successful step (an existing entry is
  overwritten in place, or — only after `_require_all_new` passed — a new one is created), the
  shape of a failing step, and the frame (no other entry changes, the length is kept).
-/
import AY.Lemmas.C08WholeDefs
namespace AY

/-- what the key loop needs to know about the recursive merge when `self` is a leaf -/
def c08w_RecLeaf (rec : Node → Node → Except Err (Node × Bool)) : Prop :=
  ∀ f lk b r s, rec (.leaf f lk) b = .ok (r, s) → leafRule (.leaf f lk) b = (r, s)

theorem c08w_recLeaf_mergeF : ∀ (n : Nat), c08w_RecLeaf (mergeF n)
  | 0 => fun _ _ _ _ _ h => by simp [mergeF] at h
  | n + 1 => fun _ _ _ _ _ h => by
    simp only [mergeF] at h
    injection h

theorem c08w_replaceOtherFlags_del (w l : Flags) : (replaceOtherFlags w l).del = w.del := rfl
theorem c08w_replaceOtherFlags_new (w l : Flags) : (replaceOtherFlags w l).new = w.new := rfl
theorem c08w_replaceOtherFlags_iNew (w l : Flags) : (replaceOtherFlags w l).iNew = w.iNew := rfl
theorem c08w_replaceOtherFlags_prio (w l : Flags) : (replaceOtherFlags w l).prio = w.prio := rfl

theorem c08w_flags_setFlags (n : Node) (f : Flags) : (n.setFlags f).flags = f := by
  cases n <;> rfl

/-- the two outcomes of `ConfigNode.on_merge_impl` -/
theorem c08w_leafRule_cases (s o : Node) :
    leafRule s o = (propagate (s.setFlags (replaceOtherFlags s.flags o.flags)), true) ∨
    leafRule s o = (propagate (o.setFlags (replaceOtherFlags o.flags s.flags)), false) := by
  unfold leafRule
  split
  · exact .inl rfl
  · exact .inr rfl

/-- when the newer node wins it keeps its own `delete` flag -/
theorem c08w_leafRule_other_del {s o nw : Node} (h : leafRule s o = (nw, false)) :
    nw = propagate (o.setFlags (replaceOtherFlags o.flags s.flags)) ∧ nw.flags.del = o.flags.del := by
  rcases c08w_leafRule_cases s o with e | e
  · rw [e] at h; cases h
  · rw [e] at h
    injection h with h1 _
    subst h1
    exact ⟨rfl, by rw [c08w_flags_propagate, c08w_flags_setFlags, c08w_replaceOtherFlags_del]⟩

theorem c08w_leafRule_same_sub {s o nw : Node} (h : leafRule s o = (nw, true)) : c08w_sub nw s := by
  rcases c08w_leafRule_cases s o with e | e
  · rw [e] at h
    injection h with h1 _
    subst h1
    intro p hp
    rwa [c08w_has_propagate, c08w_has_setFlags] at hp
  · rw [e] at h; cases h

/-! ### a successful step -/

theorem c08w_step_ok_shape {rec : Node → Node → Except Err (Node × Bool)} (hl : c08w_RecLeaf rec)
    {sf : Flags} {sk : CompKind} {acc acc' : List (Key × Node)} {k : Key} {o : Node}
    (hd : o.flags.del ≠ some true) (h : mergeStep rec sf sk [] acc (k, o) = .ok acc') :
    (getChild sk k acc = none ∧ reqNew [] [] o = none ∧ setChild sf sk k o acc = .ok acc') ∨
    (∃ child nw same K, getChild sk k acc = some child ∧ rec child o = .ok (nw, same) ∧
      c08w_slot sk acc.length k = some K ∧ alookup K acc = some child ∧
      (acc' = aset K nw acc ∨ acc' = aset K (adopt sf sk nw) acc) ∧
      (child.isComp = false → same = false → reqNewBelow nw = none)) := by
  unfold mergeStep at h
  simp only [excBelow_nil] at h
  split at h
  · rename_i hg
    split at h
    · cases h
    · rename_i hr; exact .inl ⟨hg, hr, h⟩
  · rename_i child hg
    obtain ⟨K, hK, hlK⟩ := c08w_slot_of_getChild hg
    split at h
    · cases h
    · rename_i nw same hr
      right
      refine ⟨child, nw, same, K, hg, hr, hK, hlK, ?_⟩
      split at h
      · rename_i hc
        split at h
        · rename_i hcond
          exfalso
          simp only [Bool.and_eq_true, beq_iff_eq] at hcond
          exact hd hcond.2
        · split at h
          · rename_i hs
            injection h with h
            rw [c08w_replaceChild_present nw hK] at h
            exact ⟨.inl h.symm, fun hc' => by rw [hc] at hc'; cases hc'⟩
          · rw [c08w_setChild_present nw hK] at h
            injection h with h
            exact ⟨.inr h.symm, fun hc' => by rw [hc] at hc'; cases hc'⟩
      · rename_i hc
        split at h
        · rename_i hs
          injection h with h
          rw [c08w_replaceChild_present nw hK] at h
          exact ⟨.inl h.symm, fun _ hs' => by rw [hs] at hs'; cases hs'⟩
        · rename_i hs
          have hsame : same = false := by cases same <;> simp_all
          subst hsame
          split at h
          · cases h
          · rename_i hb
            split at h
            · rename_i hcond
              exfalso
              cases child with
              | comp f kk cs => simp [Node.isComp] at hc
              | leaf f lk =>
                have := (c08w_leafRule_other_del (hl f lk o _ _ hr)).2
                simp only [Bool.and_eq_true, beq_iff_eq] at hcond
                exact hd (this ▸ hcond.2)
            · rw [c08w_setChild_present nw hK] at h
              injection h with h
              exact ⟨.inr h.symm, fun _ _ => hb⟩

/-! ### a failing step -/

theorem c08w_step_err_shape {rec : Node → Node → Except Err (Node × Bool)} (hl : c08w_RecLeaf rec)
    {sf : Flags} {sk : CompKind} {acc : List (Key × Node)} {k : Key} {o : Node} {e : Err}
    (hd : o.flags.del ≠ some true) (h : mergeStep rec sf sk [] acc (k, o) = .error e) :
    (getChild sk k acc = none ∧ ∃ p, reqNew [] [] o = some p ∧ e = .notnew (k :: p)) ∨
    (getChild sk k acc = none ∧ reqNew [] [] o = none ∧ setChild sf sk k o acc = .error e) ∨
    (∃ child e', getChild sk k acc = some child ∧ rec child o = .error e' ∧ e = e'.prepend k) ∨
    (∃ child nw p, getChild sk k acc = some child ∧ child.isComp = false ∧ rec child o = .ok (nw, false) ∧
        reqNewBelow nw = some p ∧ e = .notnew (k :: p)) := by
  unfold mergeStep at h
  simp only [excBelow_nil] at h
  split at h
  · rename_i hg
    split at h
    · rename_i p hr
      injection h with h
      exact .inl ⟨hg, p, hr, h.symm⟩
    · rename_i hr; exact .inr (.inl ⟨hg, hr, h⟩)
  · rename_i child hg
    obtain ⟨K, hK, hlK⟩ := c08w_slot_of_getChild hg
    split at h
    · rename_i e' hr
      injection h with h
      exact .inr (.inr (.inl ⟨child, e', hg, hr, h.symm⟩))
    · rename_i nw same hr
      split at h
      · rename_i hc
        split at h
        · rename_i hcond
          exfalso
          simp only [Bool.and_eq_true, beq_iff_eq] at hcond
          exact hd hcond.2
        · split at h
          · cases h
          · rw [c08w_setChild_present nw hK] at h; cases h
      · rename_i hc
        split at h
        · cases h
        · rename_i hs
          have hsame : same = false := by cases same <;> simp_all
          subst hsame
          split at h
          · rename_i p hb
            injection h with h
            exact .inr (.inr (.inr ⟨child, nw, p, hg, by simpa using hc, hr, hb, h.symm⟩))
          · split at h
            · rename_i hcond
              exfalso
              cases child with
              | comp f kk cs => simp [Node.isComp] at hc
              | leaf f lk =>
                have := (c08w_leafRule_other_del (hl f lk o _ _ hr)).2
                simp only [Bool.and_eq_true, beq_iff_eq] at hcond
                exact hd (this ▸ hcond.2)
            · rw [c08w_setChild_present nw hK] at h; cases h

/-! ### frame -/

/-- a successful step on a key that addresses an existing entry keeps the length and every other
    entry -/
theorem c08w_step_frame {rec : Node → Node → Except Err (Node × Bool)} (hl : c08w_RecLeaf rec)
    {sf : Flags} {sk : CompKind} {acc acc' : List (Key × Node)} {k : Key} {o : Node} {child : Node}
    (hd : o.flags.del ≠ some true) (hg : getChild sk k acc = some child)
    (h : mergeStep rec sf sk [] acc (k, o) = .ok acc') :
    acc'.length = acc.length ∧
    ∀ key, c08w_slot sk acc.length key ≠ c08w_slot sk acc.length k → getChild sk key acc' = getChild sk key acc := by
  rcases c08w_step_ok_shape hl hd h with ⟨hn, _, _⟩ | ⟨child', nw, same, K, hg', _, hK, hlK, hacc, _⟩
  · rw [hg] at hn; cases hn
  · have key_fact : ∀ v, (aset K v acc).length = acc.length ∧
        ∀ key, c08w_slot sk acc.length key ≠ c08w_slot sk acc.length k →
          getChild sk key (aset K v acc) = getChild sk key acc := by
      intro v
      refine ⟨c08w_length_aset hlK, fun key hne => ?_⟩
      rw [c08w_getChild_aset sk key K v child' acc hlK, if_neg]
      rw [hK] at hne
      exact hne
    rcases hacc with e | e <;> subst e <;> exact key_fact _

end AY
