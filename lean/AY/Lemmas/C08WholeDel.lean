/-
  AY.Lemmas.C08WholeDel — a DELETING mapping inside a `!notnew` document (one level): since the key
  loop of `ComposedNode.on_merge_impl` hands the paths removed by the pruning to `_require_all_new`
  (repair D35), a key of the deleting mapping is accepted only when it is still there after the pruning
  or has just been removed by it — in both cases it existed before.  Also the bridge between paths
  through `get_child` (`c08w_get`) and paths in the data of a well-keyed tree (`c08_getPlainAtL`).
-/
import AY.Lemmas.C08WholeIff
import AY.Lemmas.C05Siblings
namespace AY

/-! ### removed paths and surviving keys of the pruning -/

theorem c08w_akeys_removeMany_dict (f : Flags) (k : CompKind) (hk : k.isDictFam = true) :
    ∀ (names : List Key) (cs : List (Key × Node)) (x : Key), x ∈ akeys (removeMany f k names cs) → x ∈ akeys cs
  | [], _, _, h => h
  | nm :: rest, cs, x, h => by
    simp only [removeMany, removeChild, hk, if_true] at h
    split at h
    · rename_i cs' hs
      split at hs
      · injection hs with hs
        subst hs
        exact c08_akeys_aerase nm cs x (c08w_akeys_removeMany_dict f k hk rest _ x h)
      · cases hs
    · exact c08w_akeys_removeMany_dict f k hk rest cs x h

/-- what survives the pruning of a mapping was a key of it -/
theorem c08w_akeys_filter_children (cond : Path → Node → Bool) (pre : Path) (f : Flags) (k : CompKind)
    (hk : k.isDictFam = true) (cs : List (Key × Node)) (x : Key)
    (h : x ∈ akeys (filterNode cond pre (.comp f k cs)).1.children) : x ∈ akeys cs := by
  simp only [filterNode, Node.children] at h
  have := c08w_akeys_removeMany_dict f k hk _ _ x h
  rwa [c04_akeys_dropMarks_filterList] at this

/-- every path removed by the pruning starts with a key of the pruned mapping -/
theorem c08w_removed_head (cond : Path → Node → Bool) (f : Flags) (k : CompKind) (cs : List (Key × Node))
    (p : Path) (h : p ∈ (filterNode cond [] (.comp f k cs)).2) : ∃ nm q, p = nm :: q ∧ nm ∈ akeys cs := by
  simp only [filterNode, List.mem_append, List.mem_map, List.nil_append] at h
  rcases h with h | ⟨nm, hnm, rfl⟩
  · obtain ⟨nm, hnm, q, hq⟩ := filterList_removed_prefix cond [] cs p h
    exact ⟨nm, q, by simpa using hq, hnm⟩
  · refine ⟨nm, [], rfl, ?_⟩
    have := c04_notKeptNames_subset _ nm (by simpa using hnm)
    rwa [c04_akeys_dropMarks_filterList] at this

/-! ### the key loop: a key of the newer mapping is met or excepted -/

theorem c08w_mem_akeys_of_alookup {α : Type} {k : Key} {v : α} {l : List (Key × α)} (h : alookup k l = some v) :
    k ∈ akeys l := c08_mem_akeys k v l (c08_mem_of_alookup k l v h)

/-- in a successful key loop over children whose `allow_new` is off, every key of the newer mapping
    is a key of `self` as the loop found it, or one the pruning has just removed -/
theorem c08w_mergeLoop_keys_exist {exc : List Path} (rec : Node → Node → Except Err (Node × Bool)) {sf : Flags}
    {sk : CompKind} (hsk : sk.isDictFam = true) :
    ∀ (ocs scs scs' : List (Key × Node)), (∀ kv ∈ ocs, eNew kv.2.flags = false) →
      mergeLoop rec sf sk exc scs ocs = .ok scs' → ∀ x, x ∈ akeys ocs → x ∈ akeys scs ∨ [x] ∈ exc
  | [], _, _, _, _, x, hx => by simp [akeys] at hx
  | (k, v) :: rest, scs, scs', hn, h, x, hx => by
    simp only [mergeLoop] at h
    cases hs : mergeStep rec sf sk exc scs (k, v) with
    | error e => simp [hs] at h
    | ok acc1 =>
      simp only [hs] at h
      have hv : eNew v.flags = false := hn (k, v) (by simp)
      simp only [akeys, List.mem_cons] at hx
      rcases hx with e | hx
      · subst e
        cases hg : getChild sk x scs with
        | none =>
          by_cases hkx : [x] ∈ exc
          · exact .inr hkx
          · have hne : ([] : Path) ∉ excBelow x exc := fun hm => hkx ((mem_excBelow x [] exc).1 hm)
            rw [c08_mergeStep_absent rec sf sk scs x v hg, c08_reqNew_self_exc _ [] v hv hne] at hs
            cases hs
        | some child =>
          left
          simp only [getChild, hsk, if_true] at hg
          exact c08w_mem_akeys_of_alookup hg
      · rcases c08w_mergeLoop_keys_exist rec hsk rest acc1 scs' (fun kv hkv => hn kv (List.mem_cons_of_mem _ hkv)) h x hx
          with h1 | h1
        · have hone : mergeLoop rec sf sk exc scs [(k, v)] = .ok acc1 := by simp [mergeLoop, hs]
          exact c08_mergeLoop_no_new_key rec hsk [(k, v)] scs acc1
            (fun kv hkv => by simp at hkv; subst hkv; exact hv) hone x h1
        · exact .inr h1

theorem c08w_mem_of_akeys {α : Type} {k : Key} : ∀ {l : List (Key × α)}, k ∈ akeys l → ∃ c, (k, c) ∈ l
  | [], h => by simp [akeys] at h
  | (k', c') :: rest, h => by
    simp only [akeys, List.mem_cons] at h
    rcases h with e | h
    · exact ⟨c', by simp [e]⟩
    · obtain ⟨c, hc⟩ := c08w_mem_of_akeys h
      exact ⟨c, List.mem_cons_of_mem _ hc⟩

theorem c08w_akeys_applyKwList (kw : ChildKw) (cs : List (Key × Node)) : akeys (applyKwList kw cs) = akeys cs := by
  rw [ki_akeys, ki_akeys, (KI.keys_applyKwList kw cs).1]

theorem c08w_akeys_propagate_children (F : Flags) (k : CompKind) (cs : List (Key × Node)) :
    akeys (propagate (.comp F k cs)).children = akeys cs := by
  simp only [propagate]
  split
  · rfl
  · simp only [Node.children, c08w_akeys_applyKwList]

theorem c08w_allNotNewList_nodeAt : ∀ {cs : List (Key × Node)}, allNotNewList cs = true →
    ∀ kv ∈ cs, allNotNew kv.2 = true
  | [], _, _, h => by cases h
  | (k, c) :: rest, hn, kv, h => by
    have hn' : allNotNew c = true ∧ allNotNewList rest = true := by simpa [allNotNewList] using hn
    rcases List.mem_cons.1 h with e | h'
    · subst e; exact hn'.1
    · exact c08w_allNotNewList_nodeAt hn'.2 kv h'

/-- one level of a deleting `!notnew` mapping merged onto a mapping: success means that every key of
    the newer mapping, and every key of the result, was a key of `self` before the merge -/
theorem c08w_del_restates_only (rec : Node → Node → Except Err (Node × Bool)) (sf of : Flags)
    (scs ocs : List (Key × Node)) (r : Node) (same : Bool)
    (hdel : eDel (.comp of .dict ocs) = true) (hn : allNotNewList ocs = true)
    (h : compMerge rec sf .dict scs (.comp of .dict ocs) = .ok (r, same)) :
    (∀ k ∈ akeys ocs, k ∈ akeys scs) ∧ (∀ k ∈ akeys r.children, k ∈ akeys scs) := by
  have hflags : ∀ kv ∈ ocs, eNew kv.2.flags = false := c08_allNotNewList_mem ocs hn
  simp only [compMerge, hdel, if_true] at h
  split at h
  · -- early exit: nothing of `self` survived
    split at h
    · cases h
    · rename_i hreq
      have hall := (C08_aux hreq)
      have hkeys : ∀ k ∈ akeys ocs, k ∈ akeys scs := by
        intro k hk
        obtain ⟨c, hc⟩ := c08w_mem_of_akeys hk
        rcases hall [k] c (.child hc (.root _)) with h1 | h1
        · rw [hflags (k, c) hc] at h1; cases h1
        · simp only [List.nil_append, List.mem_cons] at h1
          rcases h1 with h1 | h1
          · cases h1
          · obtain ⟨nm, q, e, hnm⟩ := c08w_removed_head _ _ _ _ _ h1
            injection e with e1 _
            subst e1
            exact hnm
      refine ⟨hkeys, ?_⟩
      simp only [filterNode, maybePromote, CompKind.sameClass, if_true] at h
      injection h with h
      injection h with h _
      subst h
      intro k hk
      rw [c08w_akeys_propagate_children] at hk
      exact hkeys k hk
  · split at h
    · cases h
    · rename_i scs' hloop
      have hkept : ∀ x, x ∈ akeys (filterNode (maybeKeep (.comp of .dict ocs)) [] (.comp sf .dict scs)).1.children →
          x ∈ akeys scs := fun x hx => c08w_akeys_filter_children _ _ sf .dict rfl scs x hx
      have hexc : ∀ x, [x] ∈ (filterNode (maybeKeep (.comp of .dict ocs)) [] (.comp sf .dict scs)).2 → x ∈ akeys scs := by
        intro x hx
        obtain ⟨nm, q, e, hnm⟩ := c08w_removed_head _ _ _ _ _ hx
        injection e with e1 _
        subst e1
        exact hnm
      refine ⟨fun k hk => ?_, fun k hk => ?_⟩
      · rcases c08w_mergeLoop_keys_exist rec (sk := .dict) rfl ocs _ scs' hflags hloop k hk with h1 | h1
        · exact hkept k h1
        · exact hexc k h1
      · obtain ⟨F, hF⟩ := c08w_finishMerge_dict sf .dict scs' of ocs
        rw [hF] at h
        injection h with h
        injection h with h _
        subst h
        rw [c08w_akeys_propagate_children] at hk
        rcases c08_mergeLoop_no_new_key rec (sk := .dict) rfl ocs _ scs' hflags hloop k hk with h1 | h1
        · exact hkept k h1
        · exact hexc k h1
where
  C08_aux {exc : List Path} {p : Path} {n : Node} (h : reqNew exc p n = none) :
      ∀ q m, c08_nodeAt n q m → eNew m.flags = true ∨ (p ++ q) ∈ exc :=
    (c08_reqNew_none_iff exc p n).1 h

/-! ### paths through `get_child` are the paths of the data (well-keyed trees) -/

theorem c08w_get_native : ∀ (p : Path) (a : Node), KI.Keyed a = true →
    c08_getPlainAtL (native a) p = (c08w_get a p).map native
  | [], a, _ => by simp [c08_getPlainAtL, c08w_get]
  | k :: ks, .leaf f lk, _ => by
    cases lk <;> simp [native, c08_getPlainAtL, c08w_get]
  | k :: ks, .comp f sk cs, ha => by
    have hcs : KI.CS sk cs := (KI.keyed_comp _ _ _).1 ha
    cases hsk : sk.isDictFam with
    | true =>
      simp only [native, hsk, if_true, c08_getPlainAtL, c08w_get, getChild, alookup_nativeList]
      cases hl : alookup k cs with
      | none => rfl
      | some c =>
        simp only [Option.map]
        exact c08w_get_native ks c (KI.keyed_of_lookup hcs.2 hl)
    | false =>
      simp only [native, hsk, Bool.false_eq_true, if_false, c08_getPlainAtL, c08w_get, getChild,
        length_nativeVals, ← validateIndex_strict]
      cases hv : validateIndex cs.length true k with
      | none => rfl
      | some i =>
        have hlt : i < cs.length := by rw [validateIndex_strict] at hv; exact listIndex_lt hv
        obtain ⟨c, hc, hnv⟩ := listKeys_lookup cs 0 i (c08w_listKeys_of_CS hcs hsk) hlt
        rw [Nat.zero_add] at hc
        simp only [hnv, hc]
        exact c08w_get_native ks c (KI.keyed_of_lookup hcs.2 hc)

theorem c08w_has_native (p : Path) (a : Node) (ha : KI.Keyed a = true) :
    c08w_has a p = (c08_getPlainAtL (native a) p).isSome := by
  rw [c08w_get_native p a ha, c08w_has]
  cases c08w_get a p <;> rfl

end AY
