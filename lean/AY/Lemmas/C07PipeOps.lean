/-
  AY.Lemmas.C07PipeOps — the pre-merge operators `!append` / `!extend` (helpers for AY.Props.C07_Pipeline).

  What such a node returns is a list-family node — the destination detached from the accumulated tree
  (its own flags, its old children first) or, without destination, a new plain list
  `ConfigList(self)._replace_other(self)` (fresh flags merged with the operator's explicit `safe`, source-level
  flag and metadata) — whose last `len(self)` children are the operator's elements, each adopted by the node
  that now holds them.  Adoption never makes a node safe again (an inherited `safe=False` is sticky), so
  elements that were unsafe throughout stay unsafe throughout.

  `freshPlainList` (AY.Model.Build) is the list BEFORE the repair "the plain list stands for this node"
  (`ConfigList(self)` with bare fresh flags); `updFlagsMut` / `newPlainListMut` is the seeded regression (the sticky guard removed from the metaclass
  call, `ConfigList(self)` then resets an inherited `safe=False`): the statement is false for it.
-/
import AY.Lemmas.C07PipeRoot
set_option linter.unusedVariables false
namespace AY.C07P

theorem renumFrom_map_snd {α : Type} : ∀ (i : Nat) (xs : List α), (renumFrom i xs).map (·.2) = xs
  | _, [] => rfl
  | i, x :: xs => by simp [renumFrom, renumFrom_map_snd (i + 1) xs]

theorem applyKwList_renumFrom (kw : ChildKw) : ∀ (i : Nat) (xs : List Node),
    applyKwList kw (renumFrom i xs) = renumFrom i (xs.map (applyKw kw))
  | _, [] => rfl
  | i, x :: xs => by simp [renumFrom, applyKwList, applyKwList_renumFrom kw (i + 1) xs]

/-- the flags of the list that stands for an `!append` / `!extend` node without destination -/
theorem newPlainList_flags (f : Flags) (vals : List Node) :
    (newPlainList f vals).flags = replaceOtherFlags freshFlags f := by
  simp only [newPlainList, propagate_flags]; rfl

/-- what the fresh list hands down to its elements after `_replace_other` -/
def freshKw (f : Flags) : ChildKw :=
  match childKw (replaceOtherFlags freshFlags f) .list with
  | some kw => kw
  | none => { iDel := none, iNew := none, iSafe := none }

theorem newPlainList_eq (f : Flags) (vals : List Node) :
    newPlainList f vals = .comp (replaceOtherFlags freshFlags f) .list
      (renum (vals.map (fun v => applyKw (freshKw f) (inheritInto none (childKw freshFlags .list) v)))) := by
  simp only [newPlainList, propagate, freshKw, childKw, renum, applyKwList_renumFrom, List.map_map]
  rfl

theorem newPlainList_children (f : Flags) (vals : List Node) :
    (newPlainList f vals).children.map (·.2) =
      vals.map (fun v => applyKw (freshKw f) (inheritInto none (childKw freshFlags .list) v)) := by
  rw [newPlainList_eq]
  simp [Node.children, renum, renumFrom_map_snd]

/-- `node.extend(values)`: the old children, then the new ones, each adopted -/
theorem extendList_shape (f : Flags) (k : CompKind) : ∀ (vals : List Node) (cs : List (Key × Node)),
    ∃ added, extendList f k cs vals = cs ++ added ∧ added.map (·.2) = vals.map (adopt f k)
  | [], cs => ⟨[], by simp [extendList], rfl⟩
  | v :: rest, cs => by
    obtain ⟨added, h1, h2⟩ := extendList_shape f k rest (cs ++ [(Key.int cs.length, adopt f k v)])
    refine ⟨(Key.int cs.length, adopt f k v) :: added, ?_, ?_⟩
    · simp only [extendList]; rw [h1]; simp
    · simp [h2]

/-- what an operator node contributes: the elements of `added` are the operator's elements after adoption -/
def Contributed (cs added : List (Key × Node)) : Prop :=
  ∃ g : Node → Node, added.map (·.2) = cs.map (fun kv => g kv.2) ∧
    ∀ v, allUnsafe v = true → allUnsafe (g v) = true

theorem contributed_allUnsafe {cs added : List (Key × Node)} (h : Contributed cs added)
    (hu : ∀ kv, kv ∈ cs → allUnsafe kv.2 = true) : ∀ a, a ∈ added → allUnsafe a.2 = true := by
  obtain ⟨g, hg, hgu⟩ := h
  intro a ha
  have : a.2 ∈ added.map (·.2) := List.mem_map.2 ⟨a, ha, rfl⟩
  rw [hg] at this
  obtain ⟨kv, hkv, e⟩ := List.mem_map.1 this
  rw [← e]
  exact hgu _ (hu kv hkv)

theorem contributed_length {cs added : List (Key × Node)} (h : Contributed cs added) : added.length = cs.length := by
  obtain ⟨g, hg, _⟩ := h
  have := congrArg List.length hg
  simpa using this

theorem contributed_adopt (f : Flags) (k : CompKind) {cs added : List (Key × Node)}
    (h : added.map (·.2) = (cs.map (·.2)).map (adopt f k)) : Contributed cs added :=
  ⟨adopt f k, by rw [h, List.map_map]; rfl, fun v hv => adopt_all stable_isUnsafe_any f k hv⟩

theorem contributed_fresh (f : Flags) {cs : List (Key × Node)} :
    Contributed cs (newPlainList f (cs.map (·.2))).children :=
  ⟨fun v => applyKw (freshKw f) (inheritInto none (childKw freshFlags .list) v),
   by rw [newPlainList_children, List.map_map]; rfl,
   fun v hv => applyKw_all stable_isUnsafe_any _ _ (inheritInto_all stable_isUnsafe_any none _ hv)⟩

/-- `AppendNode/ExtendNode.on_premerge_impl`: the node returned is `old ++ added` under the flags of the
    destination, or of a fresh list when there is no destination -/
theorem premergeF_op_shape {fuel : Nat} {f : Flags} {k : CompKind} {cs : List (Key × Node)} {path : Path}
    {into : Option Node} {r : Node} {same : Bool} {into' : Option Node} (hk : k = .append ∨ k = .extend)
    (h : premergeF (fuel + 1) (.comp f k cs) path into = .ok (r, same, into')) :
    same = false ∧ ∃ rf rk old added, r = .comp rf rk (old ++ added) ∧ rk.isListFam = true ∧ Contributed cs added ∧
      ((r = newPlainList f (cs.map (·.2)) ∧ rf = replaceOtherFlags freshFlags f ∧ rk = .list ∧ old = []) ∨
       (∃ root, into = some root ∧ (getNode root path = some (.comp rf rk old) ∨
          ∃ root', removeNode root path = some (.comp rf rk old, root')))) := by
  have fresh : ∀ into1, (Except.ok (newPlainList f (cs.map (·.2)), false, into1) : PM) = .ok (r, same, into') →
      same = false ∧ ∃ rf rk old added, r = .comp rf rk (old ++ added) ∧ rk.isListFam = true ∧ Contributed cs added ∧
      ((r = newPlainList f (cs.map (·.2)) ∧ rf = replaceOtherFlags freshFlags f ∧ rk = .list ∧ old = []) ∨
       (∃ root, into = some root ∧ (getNode root path = some (.comp rf rk old) ∨
          ∃ root', removeNode root path = some (.comp rf rk old, root')))) := by
    intro into1 h
    simp only [Except.ok.injEq, Prod.mk.injEq] at h
    obtain ⟨rfl, rfl, _⟩ := h
    exact ⟨rfl, replaceOtherFlags freshFlags f, .list, [], (newPlainList f (cs.map (·.2))).children,
      by rw [newPlainList_eq]; simp [Node.children],
      rfl, contributed_fresh f, .inl ⟨rfl, rfl, rfl, rfl⟩⟩
  rcases hk with rfl | rfl
  · simp only [premergeF] at h
    split at h
    · exact fresh _ h
    · rename_i root
      split at h
      · cases h
      · rename_i tf tk tcs root' hr
        split at h
        · rename_i hl
          simp only [Except.ok.injEq, Prod.mk.injEq] at h
          obtain ⟨rfl, rfl, _⟩ := h
          obtain ⟨added, h1, h2⟩ := extendList_shape tf tk (cs.map (·.2)) tcs
          exact ⟨rfl, tf, tk, tcs, added, by rw [h1], hl, contributed_adopt tf tk h2,
            .inr ⟨root, rfl, .inr ⟨root', hr⟩⟩⟩
        · cases h
      · cases h
  · simp only [premergeF] at h
    split at h
    · exact fresh _ h
    · rename_i root
      split at h
      · rename_i tf tk tcs hg
        split at h
        · rename_i hl
          split at h
          · cases h
          · simp only [Except.ok.injEq, Prod.mk.injEq] at h
            obtain ⟨rfl, rfl, _⟩ := h
            obtain ⟨added, h1, h2⟩ := extendList_shape tf tk (cs.map (·.2)) tcs
            exact ⟨rfl, tf, tk, tcs, added, by rw [h1], hl, contributed_adopt tf tk h2,
              .inr ⟨root, rfl, .inl hg⟩⟩
        · exact fresh _ h
      · exact fresh _ h

/-! ### the seeded regression as a mutant of the model -/

/-- `updFlags` without the sticky guard (`if f.iSafe = some false then some false else …`) -/
def updFlagsMut (kw : ChildKw) (f : Flags) : Flags :=
  { f with iDel := kw.iDel, iNew := kw.iNew, iSafe := kw.iSafe }

/-- `ConfigList(self)` when the metaclass call overwrites an inherited `safe=False` -/
def newPlainListMut (vals : List Node) : Node :=
  .comp freshFlags .list (renum (vals.map (fun v =>
    match childKw freshFlags .list with
    | some kw => propagate (v.setFlags (updFlagsMut kw v.flags))
    | none => v)))

/-- `_maybe_promote` BEFORE the repair "a promoted node lost its own unsafety": the promoted node takes over
    `self.__dict__` and nothing else -/
def maybePromoteOld (sf : Flags) (sk : CompKind) (scs : List (Key × Node)) (o : Node) :
    Except Err (Node × Bool) :=
  match o with
  | .leaf .. => .ok (.comp sf sk scs, true)
  | .comp of ok _ =>
    if sk.sameClass ok then .ok (.comp sf sk scs, true)
    else if ok.strictSub sk then
      match adoptAll of ok scs [] with
      | .error e => .error e
      | .ok cs' => .ok (.comp sf ok cs', false)
    else if sk.strictSub ok then .ok (.comp sf sk scs, true)
    else if sk.isPlain && !ok.isPlain then
      if sk = .list then
        match adoptAll of ok scs [] with
        | .error e => .error e
        | .ok cs' => .ok (.comp sf ok cs', false)
      else .error .unsupported
    else .ok (.comp sf sk scs, true)

end AY.C07P
