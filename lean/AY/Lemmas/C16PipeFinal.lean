/-
  AY.Lemmas.C16PipeFinal — remaining helpers for AY.Props.C16_Pipeline:
  * a merge never raises a PremergeError (`merge_ne_premerge`): an `!extend` stage whose operator falls back to
    a plain list can only fail inside the ordinary merge;
  * data below a missing path is missing.
-/
import AY.Lemmas.C16PipeChain
namespace AY.C16P
open AY.C04P

/-! ### data below a missing path -/

theorem at_append_none : ∀ (p q : Path) (x : Plain), x.at? p = none → x.at? (p ++ q) = none
  | [], _, _, h => by simp [Plain.at?] at h
  | k :: p, q, .dict kvs, h => by
    simp only [List.cons_append, Plain.at?] at h ⊢
    cases hl : alookup k kvs with
    | none => rfl
    | some y =>
      rw [hl] at h
      simp only [Option.bind_some] at h ⊢
      exact at_append_none p q y h
  | k :: p, q, .scalar _, _ => rfl
  | k :: p, q, .list _, _ => rfl

/-! ### a merge never raises a PremergeError -/

theorem prepend_ne_premerge {e : Err} (k : Key) (h : e ≠ .premerge) : e.prepend k ≠ .premerge := by
  cases e <;> simp_all [Err.prepend]

theorem setChild_ne_premerge (pf : Flags) (pk : CompKind) (k : Key) (v : Node) (cs : List (Key × Node)) :
    setChild pf pk k v cs ≠ .error .premerge := by
  simp only [setChild]
  split
  · simp
  · split <;> simp

theorem adoptAll_ne_premerge (pf : Flags) (pk : CompKind) : ∀ (l acc : List (Key × Node)),
    adoptAll pf pk l acc ≠ .error .premerge
  | [], _ => by simp [adoptAll]
  | (k, v) :: rest, acc => by
    simp only [adoptAll]
    cases h : setChild pf pk k v acc with
    | error e =>
      simp only [ne_eq, Except.error.injEq]
      intro he; subst he
      exact setChild_ne_premerge pf pk k v acc h
    | ok acc' => exact adoptAll_ne_premerge pf pk rest acc'

theorem maybePromote_ne_premerge (sf : Flags) (sk : CompKind) (scs : List (Key × Node)) (o : Node) :
    maybePromote sf sk scs o ≠ .error .premerge := by
  cases o with
  | leaf _ _ => simp [maybePromote]
  | comp of ok ocs =>
    simp only [maybePromote]
    split
    · simp
    · split
      · cases h : adoptAll of ok scs [] with
        | error e =>
          simp only [ne_eq, Except.error.injEq]
          intro he; subst he
          exact adoptAll_ne_premerge of ok scs [] h
        | ok _ => simp
      · split
        · simp
        · split
          · split
            · cases h : adoptAll of ok scs [] with
              | error e =>
                simp only [ne_eq, Except.error.injEq]
                intro he; subst he
                exact adoptAll_ne_premerge of ok scs [] h
              | ok _ => simp
            · simp
          · simp

theorem finishMerge_ne_premerge (sf : Flags) (sk : CompKind) (scs : List (Key × Node)) (o : Node) :
    finishMerge sf sk scs o ≠ .error .premerge := by
  simp only [finishMerge]
  split
  · cases h : maybePromote (replaceSelfFlags sf o.flags) sk scs o with
    | error e =>
      simp only [ne_eq, Except.error.injEq]
      intro he; subst he
      exact maybePromote_ne_premerge _ _ _ _ h
    | ok res => obtain ⟨r, same⟩ := res; simp
  · cases h : maybePromote (replaceOtherFlags sf o.flags) sk scs o with
    | error e =>
      simp only [ne_eq, Except.error.injEq]
      intro he; subst he
      exact maybePromote_ne_premerge _ _ _ _ h
    | ok res => obtain ⟨r, same⟩ := res; simp

theorem removeChildE_ne_premerge (pf : Flags) (pk : CompKind) (k : Key) (cs : List (Key × Node)) :
    removeChildE pf pk k cs ≠ .error .premerge := by
  simp only [removeChildE]
  split <;> simp

section
variable {rec : Node → Node → Except Err (Node × Bool)} (hrec : ∀ a b, rec a b ≠ .error .premerge)
include hrec

theorem mergeStep_ne_premerge (sf : Flags) (sk : CompKind) (exc : List Path) (acc : List (Key × Node))
    (kv : Key × Node) : mergeStep rec sf sk exc acc kv ≠ .error .premerge := by
  simp only [mergeStep]
  split
  · split
    · simp
    · exact setChild_ne_premerge _ _ _ _ _
  · rename_i child _
    cases h : rec child kv.2 with
    | error e =>
      simp only [ne_eq, Except.error.injEq]
      exact prepend_ne_premerge kv.1 (fun he => hrec child kv.2 (by rw [h, he]))
    | ok res =>
      obtain ⟨nw, same⟩ := res
      simp only
      split
      · split
        · exact removeChildE_ne_premerge _ _ _ _
        · split
          · simp
          · exact setChild_ne_premerge _ _ _ _ _
      · split
        · simp
        · split
          · simp
          · split
            · exact removeChildE_ne_premerge _ _ _ _
            · exact setChild_ne_premerge _ _ _ _ _

theorem mergeLoop_ne_premerge (sf : Flags) (sk : CompKind) (exc : List Path) :
    ∀ (l acc : List (Key × Node)), mergeLoop rec sf sk exc acc l ≠ .error .premerge
  | [], _ => by simp [mergeLoop]
  | kv :: rest, acc => by
    simp only [mergeLoop]
    cases h : mergeStep rec sf sk exc acc kv with
    | error e =>
      simp only [ne_eq, Except.error.injEq]
      intro he; subst he
      exact mergeStep_ne_premerge hrec sf sk exc acc kv h
    | ok acc' => exact mergeLoop_ne_premerge sf sk exc rest acc'

theorem compMerge_ne_premerge (sf : Flags) (sk : CompKind) (scs : List (Key × Node)) (o : Node) :
    compMerge rec sf sk scs o ≠ .error .premerge := by
  cases o with
  | leaf _ _ => simp [compMerge]
  | comp of ok ocs =>
    simp only [compMerge]
    split
    · split
      · split
        · simp
        · rename_i hq
          cases h : maybePromote (replaceOtherFlags of sf) ok ocs
              (filterNode (maybeKeep (.comp of ok ocs)) [] (.comp sf sk scs)).1 with
          | error e =>
            simp only [ne_eq, Except.error.injEq]
            intro he; subst he
            exact maybePromote_ne_premerge _ _ _ _ h
          | ok res => obtain ⟨r, same⟩ := res; simp
      · cases h : mergeLoop rec sf sk (filterNode (maybeKeep (.comp of ok ocs)) [] (.comp sf sk scs)).2
            (filterNode (maybeKeep (.comp of ok ocs)) [] (.comp sf sk scs)).1.children ocs with
        | error e =>
          simp only [ne_eq, Except.error.injEq]
          intro he; subst he
          exact mergeLoop_ne_premerge hrec sf sk _ ocs _ h
        | ok scs' => exact finishMerge_ne_premerge _ _ _ _
    · cases h : mergeLoop rec sf sk [] scs ocs with
      | error e =>
        simp only [ne_eq, Except.error.injEq]
        intro he; subst he
        exact mergeLoop_ne_premerge hrec sf sk _ ocs _ h
      | ok scs' => exact finishMerge_ne_premerge _ _ _ _

theorem listMerge_ne_premerge (sf : Flags) (sk : CompKind) (scs : List (Key × Node)) (o : Node) :
    listMerge rec sf sk scs o ≠ .error .premerge := by
  cases o with
  | leaf _ _ =>
    simp only [listMerge]
    exact compMerge_ne_premerge hrec sf sk scs _
  | comp of ok ocs =>
    simp only [listMerge]
    split
    · simp
    · exact compMerge_ne_premerge hrec sf sk scs _

theorem funcMerge_ne_premerge (sf : Flags) (sk : CompKind) (f : String) (scs : List (Key × Node)) (o : Node) :
    funcMerge rec sf sk f scs o ≠ .error .premerge := by
  cases o with
  | leaf of lk =>
    simp only [funcMerge]
    split
    · split
      · split <;> simp
      · simp
    · exact compMerge_ne_premerge hrec sf sk scs _
  | comp of ok ocs =>
    simp only [funcMerge]
    split
    · exact compMerge_ne_premerge hrec sf sk scs _
    · split
      · split
        · simp
        · exact compMerge_ne_premerge hrec sf _ _ _
      · exact compMerge_ne_premerge hrec sf sk scs _
end

theorem mergeF_ne_premerge : ∀ (fuel : Nat) (s o : Node), mergeF fuel s o ≠ .error .premerge
  | 0, _, _ => by simp [mergeF]
  | fuel + 1, s, o => by
    cases s with
    | leaf _ _ => simp [mergeF]
    | comp sf sk scs =>
      cases sk <;> simp only [mergeF]
      all_goals first
        | exact compMerge_ne_premerge (mergeF_ne_premerge fuel) sf _ scs o
        | exact funcMerge_ne_premerge (mergeF_ne_premerge fuel) sf _ _ scs o
        | exact listMerge_ne_premerge (mergeF_ne_premerge fuel) sf _ scs o

/-- `merge` never raises a PremergeError -/
theorem merge_ne_premerge (s o : Node) : merge s o ≠ .error .premerge := by
  simp only [merge]
  cases h : mergeF (o.depth + 1) s o with
  | error e =>
    simp only [ne_eq, Except.error.injEq]
    intro he; subst he
    exact mergeF_ne_premerge _ _ _ h
  | ok res => obtain ⟨r, b⟩ := res; simp

end AY.C16P
