/-
  Lemmas about AY.Model.Bunch: association-list algebra (`lookup/set/erase`), the invariant of the public
  operations, the frame rule, the refinement to one finite map.  Property theorems: AY/Props/C11_Bunch.lean.
-/
import AY.Model.Bunch
namespace AY.Bunch

variable {α : Type}

/-! ### Association lists -/

theorem lookup_set (k n : String) (v : α) : ∀ (l : List (String × α)),
    lookup k (set n v l) = if k = n then some v else lookup k l
  | [] => by
    by_cases h : k = n
    · subst h; simp [set, lookup]
    · have : ¬ n = k := fun e => h e.symm
      simp [set, lookup, h, this]
  | (k', v') :: rest => by
    unfold set
    by_cases h1 : k' = n
    · subst h1
      by_cases h2 : k = k'
      · subst h2; simp [lookup]
      · have : ¬ k' = k := fun e => h2 e.symm
        simp [lookup, h2, this]
    · by_cases h2 : k' = k
      · subst h2; simp [h1, lookup]
      · simp [h1, lookup, h2, lookup_set k n v rest]

theorem lookup_erase (k n : String) : ∀ (l : List (String × α)),
    lookup k (erase n l) = if k = n then none else lookup k l
  | [] => by simp [erase, lookup]
  | (k', v') :: rest => by
    unfold erase
    by_cases h1 : k' = n
    · subst h1
      by_cases h2 : k = k'
      · subst h2; simp [lookup_erase k k rest]
      · have : ¬ k' = k := fun e => h2 e.symm
        simp [lookup, h2, this, lookup_erase k k' rest]
    · by_cases h2 : k' = k
      · subst h2; simp [h1, lookup]
      · simp [h1, lookup, h2, lookup_erase k n rest]

theorem erase_eq_filter (n : String) : ∀ (l : List (String × α)), erase n l = l.filter (fun kv => !decide (kv.1 = n))
  | [] => rfl
  | (k', v) :: rest => by
    unfold erase
    by_cases h : k' = n <;> simp [h, erase_eq_filter n rest]

/-- the entries under other names, in their order, are not touched by `d[n] = v` -/
theorem filter_set (n : String) (v : α) : ∀ (l : List (String × α)),
    (set n v l).filter (fun kv => !decide (kv.1 = n)) = l.filter (fun kv => !decide (kv.1 = n))
  | [] => by simp [set]
  | (k', v') :: rest => by
    unfold set
    by_cases h : k' = n
    · subst h; simp
    · simp [h, filter_set n v rest]

/-- … nor by `del d[n]` -/
theorem filter_erase (n : String) (l : List (String × α)) :
    (erase n l).filter (fun kv => !decide (kv.1 = n)) = l.filter (fun kv => !decide (kv.1 = n)) := by
  rw [erase_eq_filter, List.filter_filter]
  congr 1
  funext kv
  simp

theorem keys_set (n : String) (v : α) : ∀ (l : List (String × α)),
    (set n v l).map Prod.fst = if n ∈ l.map Prod.fst then l.map Prod.fst else l.map Prod.fst ++ [n]
  | [] => by simp [set]
  | (k', v') :: rest => by
    unfold set
    by_cases h : k' = n
    · subst h; simp
    · have h' : ¬ n = k' := fun e => h e.symm
      simp only [h, if_false, List.map_cons, List.mem_cons, h', false_or, keys_set n v rest]
      split <;> simp

theorem nodup_set (n : String) (v : α) (l : List (String × α)) (h : (l.map Prod.fst).Nodup) :
    ((set n v l).map Prod.fst).Nodup := by
  rw [keys_set]
  split
  · exact h
  · rename_i hn
    exact List.nodup_append.mpr ⟨h, by simp, by
      intro a ha b hb
      simp only [List.mem_cons, List.mem_nil_iff, or_false] at hb
      subst hb
      intro e; subst e; exact hn ha⟩

theorem nodup_erase (n : String) (l : List (String × α)) (h : (l.map Prod.fst).Nodup) :
    ((erase n l).map Prod.fst).Nodup := by
  rw [erase_eq_filter]
  exact List.Nodup.sublist (List.Sublist.map _ List.filter_sublist) h

/-! ### The invariant of the public operations -/

/-- the instance `__dict__` holds underscore names only -/
def Pub (b : State α) : Prop := ∀ n, underscore n = false → lookup n b.attrs = none

theorem step_pub (cls : String → Bool) (b : State α) (op : Op α) (hb : Pub b) (hp : op.isPublic = true) :
    Pub (step cls b op).1 := by
  cases op with
  | getitem n => exact hb
  | setitem n v => exact hb
  | delitem n =>
    simp only [step]
    split <;> exact hb
  | getattr n => exact hb
  | setattr n v =>
    simp only [step]
    by_cases hu : underscore n = true
    · rw [if_pos hu]
      intro m hm
      show lookup m (set n v b.attrs) = none
      rw [lookup_set]
      have : m ≠ n := fun e => by subst e; rw [hu] at hm; cases hm
      simp [this, hb m hm]
    · rw [if_neg hu]
      split <;> exact hb
  | delattr n =>
    simp only [step]
    split
    · intro m hm
      show lookup m (erase n b.attrs) = none
      rw [lookup_erase]
      split
      · rfl
      · exact hb m hm
    · split <;> exact hb
  | contains n => exact hb
  | dictSet n v => cases hp

theorem run_pub (cls : String → Bool) : ∀ (ops : List (Op α)) (b : State α), Pub b →
    (∀ op ∈ ops, op.isPublic = true) → Pub (run cls b ops)
  | [], _, hb, _ => hb
  | op :: ops, b, hb, h =>
    run_pub cls ops _ (step_pub cls b op hb (h op (List.mem_cons_self ..)))
      (fun o ho => h o (List.mem_cons_of_mem _ ho))

/-- both association lists keep distinct keys (they model dicts) -/
def DictLike (b : State α) : Prop := (b.items.map Prod.fst).Nodup ∧ (b.attrs.map Prod.fst).Nodup

theorem step_dictLike (cls : String → Bool) (b : State α) (op : Op α) (hb : DictLike b) :
    DictLike (step cls b op).1 := by
  cases op with
  | getitem n => exact hb
  | setitem n v => exact ⟨nodup_set n v _ hb.1, hb.2⟩
  | delitem n =>
    simp only [step]
    split
    · exact ⟨nodup_erase n _ hb.1, hb.2⟩
    · exact hb
  | getattr n => exact hb
  | setattr n v =>
    simp only [step]
    split
    · exact ⟨hb.1, nodup_set n v _ hb.2⟩
    · split
      · exact hb
      · exact ⟨nodup_set n v _ hb.1, hb.2⟩
  | delattr n =>
    simp only [step]
    split
    · exact ⟨hb.1, nodup_erase n _ hb.2⟩
    · split
      · exact ⟨nodup_erase n _ hb.1, hb.2⟩
      · exact hb
  | contains n => exact hb
  | dictSet n v => exact ⟨hb.1, nodup_set n v _ hb.2⟩

/-! ### The frame rule -/

theorem step_frame (cls : String → Bool) (b : State α) (op : Op α) :
    (step cls b op).1.items.filter (fun kv => !decide (kv.1 = op.name)) = b.items.filter (fun kv => !decide (kv.1 = op.name)) ∧
    (step cls b op).1.attrs.filter (fun kv => !decide (kv.1 = op.name)) = b.attrs.filter (fun kv => !decide (kv.1 = op.name)) := by
  cases op with
  | getitem n => exact ⟨rfl, rfl⟩
  | setitem n v => exact ⟨filter_set n v _, rfl⟩
  | delitem n =>
    simp only [step]
    split
    · exact ⟨filter_erase n _, rfl⟩
    · exact ⟨rfl, rfl⟩
  | getattr n => exact ⟨rfl, rfl⟩
  | setattr n v =>
    simp only [step]
    split
    · exact ⟨rfl, filter_set n v _⟩
    · split
      · exact ⟨rfl, rfl⟩
      · exact ⟨filter_set n v _, rfl⟩
  | delattr n =>
    simp only [step]
    split
    · exact ⟨rfl, filter_erase n _⟩
    · split
      · exact ⟨filter_erase n _, rfl⟩
      · exact ⟨rfl, rfl⟩
  | contains n => exact ⟨rfl, rfl⟩
  | dictSet n v => exact ⟨rfl, filter_set n v _⟩

theorem step_lookup_other (cls : String → Bool) (b : State α) (op : Op α) (m : String) (hm : m ≠ op.name) :
    lookup m (step cls b op).1.items = lookup m b.items ∧ lookup m (step cls b op).1.attrs = lookup m b.attrs := by
  cases op with
  | getitem n => exact ⟨rfl, rfl⟩
  | setitem n v =>
    refine ⟨?_, rfl⟩
    show lookup m (set n v b.items) = _
    rw [lookup_set]; simp [show m ≠ n from hm]
  | delitem n =>
    simp only [step]
    split
    · refine ⟨?_, rfl⟩
      show lookup m (erase n b.items) = _
      rw [lookup_erase]; simp [show m ≠ n from hm]
    · exact ⟨rfl, rfl⟩
  | getattr n => exact ⟨rfl, rfl⟩
  | setattr n v =>
    simp only [step]
    split
    · refine ⟨rfl, ?_⟩
      show lookup m (set n v b.attrs) = _
      rw [lookup_set]; simp [show m ≠ n from hm]
    · split
      · exact ⟨rfl, rfl⟩
      · refine ⟨?_, rfl⟩
        show lookup m (set n v b.items) = _
        rw [lookup_set]; simp [show m ≠ n from hm]
  | delattr n =>
    simp only [step]
    split
    · refine ⟨rfl, ?_⟩
      show lookup m (erase n b.attrs) = _
      rw [lookup_erase]; simp [show m ≠ n from hm]
    · split
      · refine ⟨?_, rfl⟩
        show lookup m (erase n b.items) = _
        rw [lookup_erase]; simp [show m ≠ n from hm]
      · exact ⟨rfl, rfl⟩
  | contains n => exact ⟨rfl, rfl⟩
  | dictSet n v =>
    refine ⟨rfl, ?_⟩
    show lookup m (set n v b.attrs) = _
    rw [lookup_set]; simp [show m ≠ n from hm]

/-! ### Refinement to one map -/

/-- the item view of a state -/
def itemView (b : State α) : String → Option α := fun k => lookup k b.items

/-- one public operation on a public name that is not a class attribute is the abstract operation on the item view -/
theorem step_refines (cls : String → Bool) (b : State α) (op : Op α) (hb : Pub b) (hp : op.isPublic = true)
    (hu : underscore op.name = false) (hc : cls op.name = false) :
    (step cls b op).2 = report op (astep (itemView b) op.abs).2 ∧
    itemView (step cls b op).1 = (astep (itemView b) op.abs).1 := by
  cases op with
  | getitem n =>
    refine ⟨?_, rfl⟩
    show getitem b n = _
    unfold getitem astep itemView
    simp only [Op.abs]
    cases lookup n b.items <;> rfl
  | setitem n v =>
    refine ⟨rfl, ?_⟩
    funext k
    show lookup k (set n v b.items) = _
    rw [lookup_set]; rfl
  | delitem n =>
    simp only [step, astep, itemView]
    simp only [Op.abs]
    cases h : lookup n b.items with
    | some w =>
      refine ⟨rfl, ?_⟩
      funext k
      show lookup k (erase n b.items) = _
      rw [lookup_erase]
    | none => exact ⟨rfl, rfl⟩
  | getattr n =>
    refine ⟨?_, rfl⟩
    show getattr cls b n = _
    have ha : lookup n b.attrs = none := hb n hu
    have hc' : cls n = false := hc
    unfold getattr astep itemView
    simp only [Op.abs, ha, hc']
    cases lookup n b.items <;> rfl
  | setattr n v =>
    have ha : lookup n b.attrs = none := hb n hu
    have hu' : underscore n = false := hu
    simp only [step]
    simp only [hu', ha]
    refine ⟨rfl, ?_⟩
    funext k
    show lookup k (set n v b.items) = _
    rw [lookup_set]; rfl
  | delattr n =>
    have ha : lookup n b.attrs = none := hb n hu
    simp only [step, astep, itemView]
    simp only [Op.abs, ha]
    cases h : lookup n b.items with
    | some w =>
      refine ⟨rfl, ?_⟩
      funext k
      show lookup k (erase n b.items) = _
      rw [lookup_erase]
    | none => exact ⟨rfl, rfl⟩
  | contains n => exact ⟨rfl, rfl⟩
  | dictSet n v => cases hp

theorem run_refines (cls : String → Bool) : ∀ (ops : List (Op α)) (b : State α), Pub b →
    (∀ op ∈ ops, op.isPublic = true ∧ underscore op.name = false ∧ cls op.name = false) →
    trace cls b ops = List.zipWith report ops (atrace (itemView b) (ops.map Op.abs)) ∧
    itemView (run cls b ops) = arun (itemView b) (ops.map Op.abs)
  | [], _, _, _ => ⟨rfl, rfl⟩
  | op :: ops, b, hb, h => by
    have h0 := h op (List.mem_cons_self ..)
    have hs := step_refines cls b op hb h0.1 h0.2.1 h0.2.2
    have ih := run_refines cls ops (step cls b op).1 (step_pub cls b op hb h0.1)
      (fun o ho => h o (List.mem_cons_of_mem _ ho))
    constructor
    · show (step cls b op).2 :: trace cls (step cls b op).1 ops = _
      simp only [List.map_cons, atrace, List.zipWith_cons_cons]
      rw [hs.1, ih.1, hs.2]
    · show itemView (run cls (step cls b op).1 ops) = _
      simp only [List.map_cons, arun]
      rw [ih.2, hs.2]

end AY.Bunch
