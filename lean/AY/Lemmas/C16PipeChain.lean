/-
  AY.Lemmas.C16PipeChain — when does the build SUCCEED?  For a last stage that consists of the operator alone
  below single-entry mappings (`chainAt`) the merge after the pre-merge pass succeeds as soon as the value
  that arrives at the path passes `_require_all_new`.  Helpers for AY.Props.C16_Pipeline.
-/
import AY.Lemmas.C16PipeFrame
namespace AY.C16P
open AY.C04P

/-- every mapping on the path is a plain mapping with exactly one entry: the stage is `{k1: {k2: … {kn: x}}}` -/
def chainAt : Path → Node → Bool
  | [], _ => true
  | _ :: _, .leaf .. => false
  | k :: q, .comp _ ck cs =>
    match ck, cs with
    | .dict, [(k', c)] => k == k' && chainAt q c
    | _, _ => false

/-- the path is missing in the tree, the mapping that would hold its last key exists -/
def newLeafAt : Path → Node → Bool
  | [], _ => false
  | _ :: _, .leaf .. => false
  | [k], .comp _ _ cs => (alookup k cs).isNone
  | k :: k1 :: q, .comp _ _ cs =>
    match alookup k cs with
    | none => false
    | some c => newLeafAt (k1 :: q) c

theorem chainAt_cons {k : Key} {q : Path} {n : Node} (h : chainAt (k :: q) n = true) :
    ∃ f c, n = .comp f .dict [(k, c)] ∧ chainAt q c = true := by
  cases n with
  | leaf f lk => simp [chainAt] at h
  | comp f ck cs =>
    cases ck <;> try (simp [chainAt] at h; done)
    match cs, h with
    | [(k', c)], h =>
      simp only [chainAt, Bool.and_eq_true, beq_iff_eq] at h
      obtain ⟨rfl, hc⟩ := h
      exact ⟨f, c, rfl, hc⟩

theorem soleAt_of_chainAt : ∀ (q : Path) (n : Node), chainAt q n = true → soleAt q n = true
  | [], _, _ => rfl
  | k :: q, n, h => by
    obtain ⟨f, c, rfl, hc⟩ := chainAt_cons h
    simp [soleAt, alookup, aerase, C07P.opFreeL, soleAt_of_chainAt q c hc]

theorem chainAt_replaceAt (v : Node) : ∀ (q : Path) (k : Key) (n : Node), chainAt (k :: q) n = true →
    chainAt (k :: q) (replaceAt v (k :: q) n) = true := by
  intro q
  induction q with
  | nil =>
    intro k n h
    obtain ⟨f, c, rfl, _⟩ := chainAt_cons h
    simp [replaceAt, aset, chainAt]
  | cons k1 q ih =>
    intro k n h
    obtain ⟨f, c, rfl, hc⟩ := chainAt_cons h
    simp only [replaceAt, alookup, if_true, aset, chainAt, beq_self_eq_true, Bool.true_and]
    exact ih k1 c hc

theorem newLeafAt_eraseAt : ∀ (tp : Path) (s d : Node), tp ≠ [] → dictAlong tp s = true →
    getNode s tp = some d → newLeafAt tp (eraseAt tp s) = true
  | [], _, _, h, _, _ => absurd rfl h
  | [k], s, d, _, hd, hg => by
    obtain ⟨f, cs, rfl, hn, _⟩ := dictAlong_cons hd
    simp [eraseAt, newLeafAt, alookup_aerase_self k cs hn]
  | k :: k1 :: q, s, d, _, hd, hg => by
    obtain ⟨f, cs, rfl, hn, hc⟩ := dictAlong_cons hd
    obtain ⟨c, hl, hgc⟩ := getNode_cons_dict hg
    simp only [eraseAt, hl, newLeafAt, alookup_aset, if_true]
    exact newLeafAt_eraseAt (k1 :: q) c d (by simp) (hc c hl) hgc

/-- THE MERGE OF A CHAIN SUCCEEDS: the newer tree is a chain of single-entry plain non-deleting mappings down
    to `v`, the older tree consists of mappings along the path, lacks the path but has its parent, and `v`
    passes `_require_all_new` -/
theorem mergeF_chain_ok : ∀ (p : Path) (k : Key) (fuel : Nat) (s o v : Node),
    chainAt (k :: p) o = true → liveAlong (k :: p) o = true → dictAlong (k :: p) s = true →
    newLeafAt (k :: p) s = true → getNode o (k :: p) = some v → reqNew [] [] v = none →
    (k :: p).length ≤ fuel → ∃ r b, mergeF fuel s o = .ok (r, b) := by
  intro p
  induction p with
  | nil =>
    intro k fuel s o v hch ho hs hnl hg hnew hf
    obtain ⟨of, c, rfl, _⟩ := chainAt_cons hch
    obtain ⟨sf, scs, rfl, _, _⟩ := dictAlong_cons hs
    obtain ⟨_, _, hsh, hlive, _, _⟩ := liveAlong_cons ho
    injection hsh with h1 _ h3
    subst h1; subst h3
    have hv : c = v := by simpa [getNode, alookup] using hg
    subst hv
    have hl : alookup k scs = none := by simpa [newLeafAt] using hnl
    cases fuel with
    | zero => simp at hf
    | succ fuel =>
      simp only [mergeF, compMerge, hlive, Bool.false_eq_true, if_false, mergeLoop, mergeStep, getChild,
        CompKind.isDictFam, if_true, hl, excBelow_nil, hnew, setChild, finishMerge_dict]
      exact ⟨_, _, rfl⟩
  | cons k1 p ih =>
    intro k fuel s o v hch ho hs hnl hg hnew hf
    obtain ⟨of, c, rfl, hcc⟩ := chainAt_cons hch
    obtain ⟨sf, scs, rfl, _, hsc⟩ := dictAlong_cons hs
    obtain ⟨_, _, hsh, hlive, _, hoc⟩ := liveAlong_cons ho
    injection hsh with h1 _ h3
    subst h1; subst h3
    have hgc : getNode c (k1 :: p) = some v := by simpa [getNode, alookup] using hg
    cases hl : alookup k scs with
    | none => simp [newLeafAt, hl] at hnl
    | some e =>
      have hnl' : newLeafAt (k1 :: p) e = true := by simpa [newLeafAt, hl] using hnl
      have hlc : liveAlong (k1 :: p) c = true := hoc c (by simp [alookup])
      cases fuel with
      | zero => simp at hf
      | succ fuel =>
        have hf' : (k1 :: p).length ≤ fuel := by simp at hf ⊢; omega
        obtain ⟨nw, same, hm⟩ := ih k1 fuel e c v hcc hlc (hsc e hl) hnl' hgc hnew hf'
        obtain ⟨ef, ecs, rfl, _, _⟩ := dictAlong_cons (hsc e hl)
        obtain ⟨cf, ccs, rfl, hclive, _, _⟩ := liveAlong_cons hlc
        have hdel := del_ne_of_live hclive
        simp only [mergeF, compMerge, hlive, Bool.false_eq_true, if_false, mergeLoop, mergeStep, getChild,
          CompKind.isDictFam, if_true, hl]
        rw [show mergeF fuel (.comp ef .dict ecs) (.comp cf .dict ccs) = .ok (nw, same) from hm]
        simp only [Node.isComp, if_true, hdel, Bool.and_false, Bool.false_eq_true, if_false]
        cases same with
        | true =>
          simp only [if_true, replaceChild, CompKind.isDictFam, finishMerge_dict]
          exact ⟨_, _, rfl⟩
        | false =>
          simp only [Bool.false_eq_true, if_false, setChild, CompKind.isDictFam, if_true, finishMerge_dict]
          exact ⟨_, _, rfl⟩

theorem length_le_depth_of_getNode : ∀ (p : Path) (n x : Node), getNode n p = some x → p.length ≤ n.depth
  | [], _, _, _ => Nat.zero_le _
  | k :: p, .leaf .., _, h => by simp [getNode] at h
  | k :: p, .comp f ck cs, x, h => by
    obtain ⟨c, hl, hg⟩ := getNode_cons_dict h
    have h1 := length_le_depth_of_getNode p c x hg
    have h2 := depth_le_of_alookup hl
    simp only [List.length_cons, Node.depth]
    omega

/-- the same for `merge` (which supplies the fuel `depth + 1`) -/
theorem merge_chain_ok (p : Path) (k : Key) (s o v : Node)
    (hch : chainAt (k :: p) o = true) (ho : liveAlong (k :: p) o = true) (hs : dictAlong (k :: p) s = true)
    (hnl : newLeafAt (k :: p) s = true) (hg : getNode o (k :: p) = some v) (hnew : reqNew [] [] v = none) :
    ∃ r, merge s o = .ok r := by
  have hlen := length_le_depth_of_getNode (k :: p) o v hg
  obtain ⟨r, b, hm⟩ := mergeF_chain_ok p k (o.depth + 1) s o v hch ho hs hnl hg hnew (by omega)
  exact ⟨r, by simp [merge, hm]⟩

end AY.C16P
