/-
  AY.Lemmas.C12Lemmas — helper lemmas for the C12 theorems (AY/Props/C12.lean).
-/
import AY.Model.Resolve

namespace AY.Resolve

/-! ### dicts -/

theorem get_setAll (d : Dict) (names : List String) (b : Binding) (n : String) :
    Dict.get (Dict.setAll d names b) n = if n ∈ names then some b else Dict.get d n := by
  induction names with
  | nil => simp [Dict.setAll]
  | cons x xs ih =>
    simp only [Dict.setAll, List.map_cons, List.cons_append, Dict.get] at ih ⊢
    by_cases h : n = x
    · simp [h]
    · simp [h, ih]

theorem get_set (d : Dict) (k : String) (b : Binding) (n : String) :
    Dict.get (Dict.set d k b) n = if n = k then some b else Dict.get d n := by
  simp [Dict.set, Dict.get]

theorem get_update (d o : Dict) (n : String) :
    Dict.get (Dict.update d o) n = match Dict.get o n with | some b => some b | none => Dict.get d n := by
  induction o with
  | nil => simp [Dict.update, Dict.get]
  | cons x xs ih =>
    obtain ⟨k, b⟩ := x
    simp only [Dict.update, List.cons_append, Dict.get] at ih ⊢
    by_cases h : n = k
    · simp [h]
    · simp [h, ih]

/-- a name that is not one of the injected ones is in a fresh dict exactly when it is a symbol -/
theorem get_freshDict (c : Ctx) (n : String) (hn : n ∉ reserved) :
    Dict.get (freshDict c) n = if n ∈ c.syms then some ⟨.sym, c.build⟩ else none := by
  have h1 : n ≠ "ayns" := fun h => hn (by simp [reserved, h])
  have h2 : n ≠ "__name__" := fun h => hn (by simp [reserved, h])
  have h3 : n ≠ "__file__" := fun h => hn (by simp [reserved, h])
  simp [freshDict, get_set, get_setAll, h1, h2, h3, Dict.get]

/-- the mechanism (dict hit → `__missing__` → builtins) computes the stated order -/
theorem lookup_fresh (bi defs : List String) (c : Ctx) (n : String) (hn : n ∉ reserved) :
    Globals.lookup bi { dict := execDefs defs c.build (freshDict c), cfg := c.cfg, build := c.build } n
      = (resolve defs c.syms c.cfg bi n,
         if n ∈ defs ∨ n ∈ c.syms ∨ n ∈ c.cfg then some c.build else none) := by
  simp only [Globals.lookup, execDefs, get_setAll, get_freshDict c n hn, resolve]
  by_cases hd : n ∈ defs
  · simp [hd, Origin.toRes]
  · by_cases hs : n ∈ c.syms
    · simp [hd, hs, Origin.toRes]
    · by_cases hc : n ∈ c.cfg
      · simp [hd, hs, hc]
      · by_cases hb : n ∈ bi <;> simp [hd, hs, hc, hb]

/-! ### strip -/

theorem lstrip_head (s : Str) : lstrip s = [] ∨ ∃ c t, lstrip s = c :: t ∧ pySpace c = false := by
  induction s with
  | nil => left; rfl
  | cons c cs ih =>
    by_cases h : pySpace c = true
    · simpa [lstrip, List.dropWhile, h] using ih
    · right
      refine ⟨c, cs, ?_, by simpa using h⟩
      simp [lstrip, List.dropWhile, h]

theorem lstrip_cons_nonspace (c : Char) (t : Str) (h : pySpace c = false) : lstrip (c :: t) = c :: t := by
  simp [lstrip, List.dropWhile, h]

theorem rstrip_cons_nonspace (c : Char) (t : Str) (h : pySpace c = false) :
    rstrip (c :: t) = c :: rstrip t := by
  simp [rstrip, h]

theorem rstrip_append_nonspace (a : Str) (c : Char) (h : pySpace c = false) :
    rstrip (a ++ [c]) = a ++ [c] := by
  induction a with
  | nil => simp [rstrip, h]
  | cons x xs ih => simp [rstrip, ih]

theorem rstrip_idem (s : Str) : rstrip (rstrip s) = rstrip s := by
  induction s with
  | nil => rfl
  | cons c cs ih =>
    by_cases h : ((rstrip cs).isEmpty && pySpace c) = true
    · simp [rstrip, h]
    · have h' : ((rstrip cs).isEmpty && pySpace c) = false := by simpa using h
      rw [show rstrip (c :: cs) = c :: rstrip cs by simp [rstrip, h']]
      simp [rstrip, ih, h']

theorem strip_idem (s : Str) : strip (strip s) = strip s := by
  unfold strip
  rcases lstrip_head s with h | ⟨c, t, h, hc⟩
  · rw [h]; rfl
  · rw [h, rstrip_cons_nonspace c t hc, lstrip_cons_nonspace c _ hc, ← rstrip_cons_nonspace c t hc,
      rstrip_idem]

/-- a text that neither starts nor ends with whitespace is left alone by `strip` -/
theorem strip_of_ends (c d : Char) (m : Str) (hc : pySpace c = false) (hd : pySpace d = false) :
    strip (c :: m ++ [d]) = c :: m ++ [d] := by
  unfold strip
  rw [show (c :: m ++ [d]) = c :: (m ++ [d]) by simp, lstrip_cons_nonspace c _ hc,
    ← List.cons_append, rstrip_append_nonspace _ d hd]

/-! ### split / join -/

theorem joinSep_cons (sep : Char) (p : Str) (ps : List Str) (h : ps ≠ []) :
    joinSep sep (p :: ps) = p ++ sep :: joinSep sep ps := by
  cases ps with
  | nil => exact absurd rfl h
  | cons q rest => rfl

/-- `sep.join(s.split(sep)) == s` -/
theorem joinSep_splitOn (sep : Char) (s : Str) : joinSep sep (splitOn sep s) = s := by
  induction s with
  | nil => rfl
  | cons c cs ih =>
    unfold splitOn at ih ⊢
    by_cases h : c = sep
    · simp only [splitAux, h, if_true]
      rw [joinSep_cons _ _ _ (by simp), ih]; rfl
    · simp only [splitAux, h, if_false]
      cases hps : (splitAux sep cs).2 with
      | nil => rw [hps] at ih; simp only [joinSep] at ih ⊢; rw [ih]
      | cons q rest =>
        rw [hps] at ih
        simp only [joinSep] at ih ⊢
        rw [List.cons_append, ih]

/-- the pieces contain everything but the separators -/
theorem flatten_splitOn (sep : Char) (s : Str) :
    (splitOn sep s).flatten = s.filter (fun c => c != sep) := by
  induction s with
  | nil => rfl
  | cons c cs ih =>
    unfold splitOn at ih ⊢
    by_cases h : c = sep
    · simp only [splitAux, h, if_true]
      simpa using ih
    · simp only [splitAux, h, if_false]
      have : (c != sep) = true := by simpa using h
      simp only [List.flatten_cons, List.cons_append, List.filter_cons, this, if_true] at ih ⊢
      rw [ih]

/-- no piece contains the separator -/
theorem splitOn_noSep (sep : Char) (s : Str) : ∀ p ∈ splitOn sep s, sep ∉ p := by
  induction s with
  | nil => intro p hp; simp [splitOn, splitAux] at hp; simp [hp]
  | cons c cs ih =>
    unfold splitOn at ih ⊢
    intro p hp
    by_cases h : c = sep
    · simp only [splitAux, h, if_true, List.mem_cons] at hp
      rcases hp with hp | hp | hp
      · simp [hp]
      · exact ih p (by simp [hp])
      · exact ih p (by simp [hp])
    · simp only [splitAux, h, if_false, List.mem_cons] at hp
      rcases hp with hp | hp
      · have := ih (splitAux sep cs).1 (by simp)
        rw [hp]
        intro hm
        rcases List.mem_cons.mp hm with e | e
        · exact h e.symm
        · exact this e
      · exact ih p (by simp [hp])

/-- the number of pieces is one more than the number of separators -/
theorem length_splitOn (sep : Char) (s : Str) :
    (splitOn sep s).length = (s.filter (fun c => c == sep)).length + 1 := by
  induction s with
  | nil => rfl
  | cons c cs ih =>
    unfold splitOn at ih ⊢
    by_cases h : c = sep
    · simp only [splitAux, h, if_true]
      simp at ih ⊢
      omega
    · simp only [splitAux, h, if_false]
      have : (c == sep) = false := by simpa using h
      simp [this] at ih ⊢
      omega

theorem splitOn_single (sep : Char) (s : Str) (h : sep ∉ s) : splitOn sep s = [s] := by
  induction s with
  | nil => rfl
  | cons c cs ih =>
    have hc : c ≠ sep := fun e => h (by simp [e])
    have hcs : sep ∉ cs := fun e => h (List.mem_cons_of_mem _ e)
    have := ih hcs
    unfold splitOn at this ⊢
    simp only [splitAux, hc, if_false]
    simp only [List.cons.injEq] at this
    simp [this.1, this.2]

theorem splitOn_append_sep (sep : Char) (a b : Str) (h : sep ∉ a) :
    splitOn sep (a ++ sep :: b) = a :: splitOn sep b := by
  induction a with
  | nil => simp [splitOn, splitAux]
  | cons c cs ih =>
    have hc : c ≠ sep := fun e => h (by simp [e])
    have hcs : sep ∉ cs := fun e => h (List.mem_cons_of_mem _ e)
    have := ih hcs
    unfold splitOn at this ⊢
    simp only [List.cons_append, splitAux, hc, if_false]
    simp only [List.cons.injEq] at this
    simp [this.1, this.2]

/-- `sep.join(pieces).split(sep) == pieces` when no piece contains the separator -/
theorem splitOn_joinSep (sep : Char) (ps : List Str) (hne : ps ≠ []) (h : ∀ p ∈ ps, sep ∉ p) :
    splitOn sep (joinSep sep ps) = ps := by
  induction ps with
  | nil => exact absurd rfl hne
  | cons p rest ih =>
    cases rest with
    | nil => simpa [joinSep] using splitOn_single sep p (h p (by simp))
    | cons q rest' =>
      rw [joinSep_cons _ _ _ (by simp), splitOn_append_sep _ _ _ (h p (by simp)),
        ih (by simp) (fun x hx => h x (List.mem_cons_of_mem _ hx))]

theorem dropLast_append_getLast (l : List Str) (h : l ≠ []) :
    l.dropLast ++ [l.getLast?.getD []] = l := by
  have := List.dropLast_concat_getLast h
  rw [List.getLast?_eq_some_getLast h]
  simpa using this

theorem splitStmts_ne_nil (code : Str) : splitStmts code ≠ [] := by
  unfold splitStmts splitOn
  simp [List.flatMap_cons]

/-! ### f-strings -/

theorem escapeQ_eq_self_iff (s : Str) : escapeQ s = s ↔ '\'' ∉ s := by
  induction s with
  | nil => simp [escapeQ]
  | cons c cs ih =>
    by_cases h : c = '\''
    · subst h
      simp [escapeQ]
    · simp only [escapeQ, h, if_false, List.cons.injEq, true_and, ih, List.mem_cons, not_or]
      constructor
      · intro h'; exact ⟨fun e => h e.symm, h'⟩
      · intro h'; exact h'.2

theorem isQuote_nonspace (q : Char) (h : isQuote q = true) : pySpace q = false := by
  simp only [isQuote, Bool.or_eq_true, decide_eq_true_eq] at h
  rcases h with h | h <;> subst h <;> decide

theorem wellFormed_fLit (q : Char) (fmt : Str) (hq : isQuote q = true) : wellFormed (fLit q fmt) = true := by
  simp [wellFormed, fLit, hq]

theorem fstrRegex_fLit (q : Char) (fmt : Str) (hq : isQuote q = true) :
    fstrRegex (fLit q fmt) = !fmt.contains '\n' := by
  have hf : pySpace 'f' = false := by decide
  have h1 : lstrip (fLit q fmt) = 'f' :: q :: (fmt ++ [q]) := lstrip_cons_nonspace 'f' _ hf
  unfold fstrRegex
  rw [h1]
  simp only [hq, Bool.true_and]
  rw [rstrip_append_nonspace fmt q (isQuote_nonspace q hq)]
  simp

/-! ### the registry -/

theorem regGet_set (reg : Registry) (k : Key) (d : Dict) (q : Key) :
    Registry.get (Registry.set reg k d) q = if q = k then some d else Registry.get reg q := by
  simp [Registry.set, Registry.get]

/-- with no module to read back, a step runs in the namespace built from its own context -/
theorem evalStep_fresh (reg : Registry) (c : Ctx) (r : Req)
    (h : r.persistent = true → Registry.get reg r.key = none) :
    (evalStep reg c r).1 = (evalStep [] c r).1 := by
  have hb : baseDict reg c r = freshDict c := by
    unfold baseDict
    by_cases hp : r.persistent = true
    · simp [hp, h hp]
    · simp [hp]
  have hb0 : baseDict [] c r = freshDict c := by
    unfold baseDict
    by_cases hp : r.persistent = true <;> simp [hp, Registry.get]
  simp [evalStep, hb, hb0]

theorem evalStep_reg (reg : Registry) (c : Ctx) (r : Req)
    (h : r.persistent = true → Registry.get reg r.key = none) :
    (evalStep reg c r).2 = if publishes (c, r) then Registry.set reg r.key (evalStep reg c r).1.dict else reg := by
  have hfm : fromModule reg r = false := by
    unfold fromModule
    by_cases hp : r.persistent = true
    · simp [hp, h hp]
    · simp [hp]
  unfold publishes
  by_cases hf : r.fails = true
  · simp [evalStep, hf]
  · by_cases hm : (r.multiLine && r.persistent) = true
    · have : (r.persistent && r.multiLine) = true := by
        simp only [Bool.and_eq_true] at hm ⊢; exact ⟨hm.2, hm.1⟩
      simp [evalStep, hf, hfm, hm, this]
    · have : (r.persistent && r.multiLine) = false := by
        simp only [Bool.and_eq_true, not_and, Bool.not_eq_true] at hm
        cases hp : r.persistent <;> cases hq : r.multiLine <;> simp_all
      have hm' : (r.multiLine && r.persistent) = false := by simpa using hm
      simp [evalStep, hf, hfm, hm', this]

theorem runHist_noReuse (hist : List Step) :
    ∀ reg : Registry, (∀ t ∈ hist, t.2.persistent = true → Registry.get reg t.2.key = none) →
      NoReuse hist → runHist reg hist = hist.map freshGlobals := by
  induction hist with
  | nil => intro _ _ _; rfl
  | cons s rest ih =>
    intro reg hreg hnr
    have hs := hreg s (by simp)
    simp only [runHist, List.map_cons, freshGlobals]
    rw [evalStep_fresh reg s.1 s.2 hs]
    congr 1
    apply ih _ _ hnr.2
    intro t ht hp
    rw [evalStep_reg reg s.1 s.2 hs]
    by_cases hpub : publishes (s.1, s.2) = true
    · rw [if_pos hpub, regGet_set]
      have := hnr.1 hpub t ht hp
      simp [this, hreg t (List.mem_cons_of_mem _ ht) hp]
    · rw [if_neg hpub]
      exact hreg t (List.mem_cons_of_mem _ ht) hp

end AY.Resolve
