/-
  AY.Lemmas.C12Lemmas — helper lemmas for the C12 theorems (AY/Props/C12.lean).
-/
import AY.Model.Resolve

namespace AY.Resolve

/-! ### dicts -/

theorem get_setAll (d : Dict) (names : List String) (b : Binding) (n : String) :
    Dict.get (Dict.setAll d names b) n = if n ∈ names then some b else Dict.get d n := by
  induction names with
  | nil => simp [Dict.setAll]
  | cons x xs ih =>
    simp only [Dict.setAll, List.map_cons, List.cons_append, Dict.get] at ih ⊢
    by_cases h : n = x
    · simp [h]
    · simp [h, ih]

theorem get_set (d : Dict) (k : String) (b : Binding) (n : String) :
    Dict.get (Dict.set d k b) n = if n = k then some b else Dict.get d n := by
  simp [Dict.set, Dict.get]

theorem get_update (d o : Dict) (n : String) :
    Dict.get (Dict.update d o) n = match Dict.get o n with | some b => some b | none => Dict.get d n := by
  induction o with
  | nil => simp [Dict.update, Dict.get]
  | cons x xs ih =>
    obtain ⟨k, b⟩ := x
    simp only [Dict.update, List.cons_append, Dict.get] at ih ⊢
    by_cases h : n = k
    · simp [h]
    · simp [h, ih]

/-- a name that is not one of the injected ones is in a fresh dict exactly when it is a symbol -/
theorem get_freshDict (c : Ctx) (n : String) (hn : n ∉ reserved) :
    Dict.get (freshDict c) n = if n ∈ c.syms then some ⟨.sym, c.build⟩ else none := by
  have h1 : n ≠ "ayns" := fun h => hn (by simp [reserved, h])
  have h2 : n ≠ "__name__" := fun h => hn (by simp [reserved, h])
  have h3 : n ≠ "__file__" := fun h => hn (by simp [reserved, h])
  simp [freshDict, get_set, get_setAll, h1, h2, h3, Dict.get]

/-- the mechanism (dict hit → `__missing__` → builtins) computes the stated order -/
theorem lookup_fresh (bi defs : List String) (c : Ctx) (n : String) (hn : n ∉ reserved) :
    Globals.lookup bi { dict := execDefs defs c.build (freshDict c), cfg := c.cfg, build := c.build } n
      = (resolve defs c.syms c.cfg bi n,
         if n ∈ defs ∨ n ∈ c.syms ∨ n ∈ c.cfg then some c.build else none) := by
  simp only [Globals.lookup, execDefs, get_setAll, get_freshDict c n hn, resolve]
  by_cases hd : n ∈ defs
  · simp [hd, Origin.toRes]
  · by_cases hs : n ∈ c.syms
    · simp [hd, hs, Origin.toRes]
    · by_cases hc : n ∈ c.cfg
      · simp [hd, hs, hc]
      · by_cases hb : n ∈ bi <;> simp [hd, hs, hc, hb]

/-! ### strip -/

theorem lstrip_head (s : Str) : lstrip s = [] ∨ ∃ c t, lstrip s = c :: t ∧ pySpace c = false := by
  induction s with
  | nil => left; rfl
  | cons c cs ih =>
    by_cases h : pySpace c = true
    · simpa [lstrip, List.dropWhile, h] using ih
    · right
      refine ⟨c, cs, ?_, by simpa using h⟩
      simp [lstrip, List.dropWhile, h]

theorem lstrip_cons_nonspace (c : Char) (t : Str) (h : pySpace c = false) : lstrip (c :: t) = c :: t := by
  simp [lstrip, List.dropWhile, h]

theorem rstrip_cons_nonspace (c : Char) (t : Str) (h : pySpace c = false) :
    rstrip (c :: t) = c :: rstrip t := by
  simp [rstrip, h]

theorem rstrip_append_nonspace (a : Str) (c : Char) (h : pySpace c = false) :
    rstrip (a ++ [c]) = a ++ [c] := by
  induction a with
  | nil => simp [rstrip, h]
  | cons x xs ih => simp [rstrip, ih]

theorem rstrip_idem (s : Str) : rstrip (rstrip s) = rstrip s := by
  induction s with
  | nil => rfl
  | cons c cs ih =>
    by_cases h : ((rstrip cs).isEmpty && pySpace c) = true
    · simp [rstrip, h]
    · have h' : ((rstrip cs).isEmpty && pySpace c) = false := by simpa using h
      rw [show rstrip (c :: cs) = c :: rstrip cs by simp [rstrip, h']]
      simp [rstrip, ih, h']

theorem strip_idem (s : Str) : strip (strip s) = strip s := by
  unfold strip
  rcases lstrip_head s with h | ⟨c, t, h, hc⟩
  · rw [h]; rfl
  · rw [h, rstrip_cons_nonspace c t hc, lstrip_cons_nonspace c _ hc, ← rstrip_cons_nonspace c t hc,
      rstrip_idem]

/-- a text that neither starts nor ends with whitespace is left alone by `strip` -/
theorem strip_of_ends (c d : Char) (m : Str) (hc : pySpace c = false) (hd : pySpace d = false) :
    strip (c :: m ++ [d]) = c :: m ++ [d] := by
  unfold strip
  rw [show (c :: m ++ [d]) = c :: (m ++ [d]) by simp, lstrip_cons_nonspace c _ hc,
    ← List.cons_append, rstrip_append_nonspace _ d hd]

/-! ### f-strings -/

theorem escapeQ_eq_self_iff (s : Str) : escapeQ s = s ↔ '\'' ∉ s := by
  induction s with
  | nil => simp [escapeQ]
  | cons c cs ih =>
    by_cases h : c = '\''
    · subst h
      simp [escapeQ]
    · simp only [escapeQ, h, if_false, List.cons.injEq, true_and, ih, List.mem_cons, not_or]
      constructor
      · intro h'; exact ⟨fun e => h e.symm, h'⟩
      · intro h'; exact h'.2

theorem isQuote_nonspace (q : Char) (h : isQuote q = true) : pySpace q = false := by
  simp only [isQuote, Bool.or_eq_true, decide_eq_true_eq] at h
  rcases h with h | h <;> subst h <;> decide

theorem wellFormed_fLit (q : Char) (fmt : Str) (hq : isQuote q = true) : wellFormed (fLit q fmt) = true := by
  simp [wellFormed, fLit, hq]

theorem fstrRegex_fLit (q : Char) (fmt : Str) (hq : isQuote q = true) :
    fstrRegex (fLit q fmt) = !fmt.contains '\n' := by
  have hf : pySpace 'f' = false := by decide
  have h1 : lstrip (fLit q fmt) = 'f' :: q :: (fmt ++ [q]) := lstrip_cons_nonspace 'f' _ hf
  unfold fstrRegex
  rw [h1]
  simp only [hq, Bool.true_and]
  rw [rstrip_append_nonspace fmt q (isQuote_nonspace q hq)]
  simp

theorem hasSub_single (q : Char) (s : Str) : hasSub [q] s = s.contains q := by
  induction s with
  | nil => rfl
  | cons c cs ih =>
    simp only [hasSub, isPrefix, ih, List.contains_cons]
    cases cs <;> simp [Bool.and_true]

theorem find_quotes_first (s : Str) (h : fits s ['\''] = true) : quotes.find? (fits s) = some ['\''] := by
  simp [quotes, h]

theorem fstrText_fLitQ (q fmt : Str) : fstrText q (fLitQ q fmt) = fmt := by
  have hlen : (fLitQ q fmt).length - 1 - 2 * q.length = fmt.length := by
    simp [fLitQ]; omega
  have hdrop : (fLitQ q fmt).drop (1 + q.length) = fmt ++ q := by
    show List.drop (1 + q.length) ('f' :: (q ++ fmt ++ q)) = fmt ++ q
    rw [Nat.add_comm, List.drop_succ_cons, List.append_assoc, List.drop_left]
  unfold fstrText
  rw [hlen, hdrop, List.take_left]

/-! ### the registry -/

/-- the namespace of a step does not depend on the registry -/
theorem evalStep_fresh (reg : Registry) (c : Ctx) (r : Req) : (evalStep reg c r).1 = (evalStep [] c r).1 := rfl

theorem runHist_fresh (hist : List Step) : ∀ reg : Registry, runHist reg hist = hist.map freshGlobals := by
  induction hist with
  | nil => intro _; rfl
  | cons s rest ih =>
    intro reg
    simp only [runHist, List.map_cons, freshGlobals, ih]
    rfl

end AY.Resolve
