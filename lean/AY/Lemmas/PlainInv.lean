/-
  AY.Lemmas.PlainInv — Boolean predicates describing tag-free documents (`rawPlain`) and the node
  trees they produce (`plainT`: accumulated side, `plainO`: freshly constructed "other" side), and
  their preservation by the flag bookkeeping (`applyKw`, `propagate`, `adopt`) and by the
  association-list mutators.
-/
import AY.Lemmas.Native
namespace AY

/-! ### documents -/

mutual
/-- a tag-free subtree: every tag is `.none`, every `kw` is empty, scalars are literals or empty,
    no duplicate keys among siblings -/
def rawPlainSub : Raw → Bool
  | .scalar t kw v => t == .none && kw == {} && (match v with | .text _ => false | _ => true)
  | .seq t kw items => t == .none && kw == {} && rawPlainSeq items
  | .map t kw items => t == .none && kw == {} && keysNodup items && rawPlainMap items
def rawPlainSeq : List Raw → Bool
  | [] => true
  | r :: rest => rawPlainSub r && rawPlainSeq rest
def rawPlainMap : List (Key × Raw) → Bool
  | [] => true
  | (_, r) :: rest => rawPlainSub r && rawPlainMap rest
end

/-- a tag-free mapping document -/
def rawPlain : Raw → Bool
  | .map t kw items => rawPlainSub (.map t kw items)
  | _ => false

/-! ### flags -/

/-- flags of a node of a tag-free tree: nothing explicit, nothing inherited except possibly
    `implicit_delete = True` (below a list); `dSafe`/`src` are free -/
def flagsPlain (f : Flags) : Bool :=
  f.prio.isNone && f.del.isNone && f.new.isNone && f.safe.isNone && f.iNew.isNone && f.iSafe.isNone
    && f.md.isEmpty && (f.iDel != some false)

theorem flagsPlain_iff (f : Flags) : flagsPlain f = true ↔
    f.prio = none ∧ f.del = none ∧ f.new = none ∧ f.safe = none ∧ f.iNew = none ∧ f.iSafe = none
      ∧ f.md = [] ∧ f.iDel ≠ some false := by
  simp [flagsPlain, and_assoc]

/-- inherited keywords handed down inside a tag-free tree -/
def kwPlain (kw : ChildKw) : Prop := kw.iNew = none ∧ kw.iSafe = none ∧ kw.iDel ≠ some false

theorem ePrio_plain {f : Flags} (h : flagsPlain f = true) : ePrio f = Tables.defaultPriority := by
  rw [flagsPlain_iff] at h; simp [ePrio, h.1]

theorem hasPrio_plain {a b : Flags} (ha : flagsPlain a = true) (hb : flagsPlain b = true) (e : Bool) :
    hasPrio a b e = e := by
  simp [hasPrio, ePrio_plain ha, ePrio_plain hb]

theorem eNew_plain {f : Flags} (h : flagsPlain f = true) : eNew f = true := by
  rw [flagsPlain_iff] at h; simp [eNew, h.2.2.2.2.1, Tables.defaultAllowNew]

theorem updFlags_plain {kw : ChildKw} {f : Flags} (hk : kwPlain kw) (h : flagsPlain f = true) :
    flagsPlain (updFlags kw f) = true := by
  rw [flagsPlain_iff] at h ⊢
  obtain ⟨h1, h2, h3, h4, h5, h6, h7, h8⟩ := h
  obtain ⟨k1, k2, k3⟩ := hk
  simp [updFlags, h1, h2, h3, h4, h6, h7, k1, k2, k3]

theorem updFlags_iDel (kw : ChildKw) (f : Flags) : (updFlags kw f).iDel = kw.iDel := rfl

theorem childKw_plain {f : Flags} {k : CompKind} (h : flagsPlain f = true) (hk : k = .dict ∨ k = .list) :
    ∃ kw, childKw f k = some kw ∧ kwPlain kw ∧
      kw.iDel = (if k = .dict then f.iDel else some true) := by
  rw [flagsPlain_iff] at h
  obtain ⟨h1, h2, h3, h4, h5, h6, h7, h8⟩ := h
  rcases hk with hk | hk <;> subst hk
  · refine ⟨_, rfl, ⟨?_, ?_, ?_⟩, ?_⟩ <;>
      simp [h2, h3, h4, h5, h6, defaultDelete, Tables.defaultDeleteDict, h8]
  · refine ⟨_, rfl, ⟨?_, ?_, ?_⟩, ?_⟩ <;>
      simp [h2, h3, h4, h5, h6, defaultDelete, Tables.defaultDeleteList]
    all_goals
      cases hd : f.iDel with
      | none => simp
      | some b => cases b <;> simp_all

theorem replaceOtherFlags_plain {w l : Flags} (hw : flagsPlain w = true) (hl : flagsPlain l = true) :
    flagsPlain (replaceOtherFlags w l) = true ∧ (replaceOtherFlags w l).iDel = w.iDel := by
  rw [flagsPlain_iff] at hw hl ⊢
  obtain ⟨h1, h2, h3, h4, h5, h6, h7, h8⟩ := hw
  obtain ⟨l1, l2, l3, l4, l5, l6, l7, l8⟩ := hl
  simp [replaceOtherFlags, mergeSafe, mmerge, h1, h2, h3, h4, h5, h6, h7, h8, l4, l7]

theorem replaceSelfFlags_plain {s o : Flags} (hs : flagsPlain s = true) (ho : flagsPlain o = true) :
    flagsPlain (replaceSelfFlags s o) = true ∧ (replaceSelfFlags s o).iDel = s.iDel := by
  rw [flagsPlain_iff] at hs ho ⊢
  obtain ⟨h1, h2, h3, h4, h5, h6, h7, h8⟩ := hs
  obtain ⟨l1, l2, l3, l4, l5, l6, l7, l8⟩ := ho
  simp [replaceSelfFlags, mergeSafe, mmerge, h1, h2, h3, h4, h5, h6, h7, h8, l1, l2, l4, l7]

/-! ### trees -/

/-- list children are numbered `i, i+1, …` -/
def listKeys : Nat → List (Key × Node) → Bool
  | _, [] => true
  | i, (k, _) :: rest => k == Key.int (i : Int) && listKeys (i + 1) rest

mutual
/-- invariant of a tree built from tag-free documents (the accumulated side of a merge):
    plain dicts / lists / scalars only, plain flags everywhere, list children numbered `0..n-1` -/
def plainT : Node → Bool
  | .leaf f (.scalar _) => flagsPlain f
  | .leaf _ _ => false
  | .comp f k cs => flagsPlain f && (k == .dict || (k == .list && listKeys 0 cs)) && plainTList cs
def plainTList : List (Key × Node) → Bool
  | [] => true
  | (_, c) :: rest => plainT c && plainTList rest
end

mutual
/-- every mapping that is not below a list is non-deleting (`implicit_delete` is `None`) -/
def dictsLive : Node → Bool
  | .leaf .. => true
  | .comp f k cs => if k == .dict then f.iDel.isNone && dictsLiveList cs else true
def dictsLiveList : List (Key × Node) → Bool
  | [] => true
  | (_, c) :: rest => dictsLive c && dictsLiveList rest
end

/-- invariant of a freshly constructed tag-free document (sub)tree (the newer side of a merge) -/
def plainO (n : Node) : Bool := plainT n && dictsLive n

theorem plainT_comp {f k cs} (h : plainT (.comp f k cs) = true) :
    flagsPlain f = true ∧ (k = .dict ∨ (k = .list ∧ listKeys 0 cs = true)) ∧ plainTList cs = true := by
  simpa [plainT, and_assoc] using h

theorem plainT_flags {n : Node} (h : plainT n = true) : flagsPlain n.flags = true := by
  cases n with
  | leaf f k => cases k <;> simp_all [plainT, Node.flags]
  | comp f k cs => exact (plainT_comp h).1

theorem plainT_leaf {f k} (h : plainT (.leaf f k) = true) : ∃ v, k = .scalar v ∧ flagsPlain f = true := by
  cases k <;> simp_all [plainT]

theorem plainT_setFlags {n : Node} {f : Flags} (h : plainT n = true) (hf : flagsPlain f = true) :
    plainT (n.setFlags f) = true := by
  cases n with
  | leaf g k => obtain ⟨v, rfl, _⟩ := plainT_leaf h; simpa [Node.setFlags, plainT] using hf
  | comp g k cs =>
    obtain ⟨_, h2, h3⟩ := plainT_comp h
    simp only [Node.setFlags, plainT, hf, Bool.true_and, h3, Bool.and_true]
    rcases h2 with h2 | h2 <;> simp [h2]

theorem alookup_plainT (k : Key) : ∀ cs : List (Key × Node), plainTList cs = true →
    ∀ c, alookup k cs = some c → plainT c = true
  | [], _, c, h => by simp [alookup] at h
  | (k', v') :: r, hp, c, h => by
    have h' : plainT v' = true ∧ plainTList r = true := by simpa [plainTList] using hp
    by_cases hk : k' = k
    · simp [alookup, hk] at h; subst h; exact h'.1
    · simp [alookup, hk] at h; exact alookup_plainT k r h'.2 c h

theorem aset_plainT (k : Key) (v : Node) (hv : plainT v = true) : ∀ cs : List (Key × Node),
    plainTList cs = true → plainTList (aset k v cs) = true
  | [], _ => by simp [aset, plainTList, hv]
  | (k', v') :: r, h => by
    have h' : plainT v' = true ∧ plainTList r = true := by simpa [plainTList] using h
    by_cases hk : k' = k <;> simp [aset, plainTList, hk, hv, h'.1, h'.2, aset_plainT k v hv r h'.2]

theorem plainTList_append : ∀ l₁ l₂ : List (Key × Node),
    plainTList (l₁ ++ l₂) = (plainTList l₁ && plainTList l₂)
  | [], _ => by simp [plainTList]
  | (k, v) :: rest, l₂ => by simp [plainTList, plainTList_append rest l₂, Bool.and_assoc]

theorem listKeys_aset (j : Int) (v : Node) : ∀ (i : Nat) (cs : List (Key × Node)),
    listKeys i cs = true → (alookup (.int j) cs).isSome → listKeys i (aset (.int j) v cs) = true
  | _, [], _, h => by simp [alookup] at h
  | i, (k', v') :: r, hl, h => by
    have hl' : k' = Key.int (i : Int) ∧ listKeys (i + 1) r = true := by simpa [listKeys] using hl
    by_cases hk : k' = .int j
    · have e : j = (i : Int) := by have := hl'.1; rw [hk] at this; exact Key.int.inj this
      simp [aset, hk, listKeys, e, hl'.2]
    · simp [alookup, hk] at h
      simp only [aset, hk, if_false, listKeys, listKeys_aset j v (i + 1) r hl'.2 h, Bool.and_true]
      simp [hl'.1]

/-! ### the flag bookkeeping keeps the invariant -/

mutual
theorem keysOf_applyKwList' : ∀ (kw : ChildKw) (i : Nat) (cs : List (Key × Node)),
    listKeys i (applyKwList kw cs) = listKeys i cs
  | _, _, [] => by simp [applyKwList]
  | kw, i, (k, c) :: rest => by
    simp [applyKwList, listKeys, keysOf_applyKwList' kw (i + 1) rest]
end

mutual
theorem plainT_applyKw : ∀ (kw : ChildKw) (n : Node), kwPlain kw → plainT n = true →
    plainT (applyKw kw n) = true
  | kw, .leaf f k, hk, h => by
    obtain ⟨v, rfl, hf⟩ := plainT_leaf h
    simpa [applyKw, plainT] using updFlags_plain hk hf
  | kw, .comp f k cs, hk, h => by
    obtain ⟨hf, hkind, hcs⟩ := plainT_comp h
    simp only [applyKw]
    split
    · have hf' := updFlags_plain hk hf
      have hkind' : k = .dict ∨ k = .list := by rcases hkind with h | h; exact .inl h; exact .inr h.1
      obtain ⟨kw', e, hkw', _⟩ := childKw_plain hf' hkind'
      rw [e]
      simp only [plainT, hf', Bool.true_and, keysOf_applyKwList', plainTList_applyKwList kw' cs hkw' hcs,
        Bool.and_true]
      rcases hkind with h | h <;> simp [h]
    · exact h
theorem plainTList_applyKwList : ∀ (kw : ChildKw) (cs : List (Key × Node)), kwPlain kw →
    plainTList cs = true → plainTList (applyKwList kw cs) = true
  | _, [], _, _ => by simp [applyKwList, plainTList]
  | kw, (k, c) :: rest, hk, h => by
    have h' : plainT c = true ∧ plainTList rest = true := by simpa [plainTList] using h
    simp [applyKwList, plainTList, plainT_applyKw kw c hk h'.1, plainTList_applyKwList kw rest hk h'.2]
end

theorem plainT_propagate {n : Node} (h : plainT n = true) : plainT (propagate n) = true := by
  cases n with
  | leaf f k => simpa [propagate] using h
  | comp f k cs =>
    obtain ⟨hf, hkind, hcs⟩ := plainT_comp h
    have hkind' : k = .dict ∨ k = .list := by rcases hkind with h | h; exact .inl h; exact .inr h.1
    obtain ⟨kw', e, hkw', _⟩ := childKw_plain hf hkind'
    simp only [propagate, e, plainT, hf, Bool.true_and, keysOf_applyKwList',
      plainTList_applyKwList kw' cs hkw' hcs, Bool.and_true]
    rcases hkind with h | h <;> simp [h]

theorem plainT_inherit {kw : ChildKw} {n : Node} (hk : kwPlain kw) (h : plainT n = true) :
    plainT (inheritInto none (some kw) n) = true := by
  simp only [inheritInto]
  exact plainT_propagate (plainT_setFlags h (updFlags_plain hk (plainT_flags h)))

/-- adoption by a plain container keeps the invariant -/
theorem plainT_adopt {pf : Flags} {pk : CompKind} {v : Node} (hpf : flagsPlain pf = true)
    (hpk : pk = .dict ∨ pk = .list) (hv : plainT v = true) : plainT (adopt pf pk v) = true := by
  obtain ⟨kw, e, hkw, _⟩ := childKw_plain hpf hpk
  simp only [adopt, e]
  exact plainT_propagate (plainT_inherit hkw hv)

/-! ### `_require_all_new` never fires on tag-free trees -/

mutual
theorem reqNew_plainT : ∀ (exc : List Path) (p : Path) (n : Node), plainT n = true → reqNew exc p n = none
  | exc, p, .leaf f k, h => by
    obtain ⟨v, rfl, hf⟩ := plainT_leaf h
    simp [reqNew, eNew_plain hf]
  | exc, p, .comp f k cs, h => by
    obtain ⟨hf, _, hcs⟩ := plainT_comp h
    simp [reqNew, eNew_plain hf, reqNewList_plainT exc p cs hcs]
theorem reqNewList_plainT : ∀ (exc : List Path) (p : Path) (cs : List (Key × Node)),
    plainTList cs = true → reqNewList exc p cs = none
  | _, _, [], _ => by simp [reqNewList]
  | exc, p, (k, c) :: rest, h => by
    have h' : plainT c = true ∧ plainTList rest = true := by simpa [plainTList] using h
    simp [reqNewList, reqNew_plainT exc (p ++ [k]) c h'.1, reqNewList_plainT exc p rest h'.2]
end

theorem reqNewBelow_plainT {n : Node} (h : plainT n = true) : reqNewBelow n = none := by
  cases n with
  | leaf f k => rfl
  | comp f k cs => exact reqNewList_plainT [] [] cs (plainT_comp h).2.2

end AY
